(* Model/Path.v — executable model of the CIP path encoders of pycomm3:
     cip/data_types.py : CIPSegment.encode, LogicalSegment._encode, PortSegment._encode,
                         DataSegment._encode, EPATH.encode (PADDED_EPATH / PACKED_EPATH)
     packets/util.py   : request_path, tag_request_path, _find_tag_index
   Definitions only.  Bit tables, port names, class codes and the padded flags come from
   Gen/PathTables.v (regenerated from /repo).  The model reproduces what the code DOES. *)
From Coq Require Import String.
From PV Require Import Base.Bytes Base.Proto Base.Res Base.PyStr Gen.PathTables.
Open Scope Z_scope.

(* ---------------------------------------------------------------- vocabulary *)
Inductive lval := LInt (z : Z) | LBytes (b : list Z).
Inductive plink := LinkInt (z : Z) | LinkStr (s : list Z) | LinkBytes (b : list Z).
Inductive seg :=
  | Logical (ltype : list Z (* text, e.g. "class_id" *)) (v : lval)
  | Port (port : Z + list Z (* number or name *)) (link : plink)
  | DataSym (s : list Z)      (* DataSegment(str)   *)
  | DataRaw (b : list Z)      (* DataSegment(bytes) *)
  | RawBytes (b : list Z).    (* a bytes object in the segment list: passed through *)

(* ---------------------------------------------------------------- primitives *)
(* USINT/UINT/UDINT.encode : struct.pack("<B"/"<H"/"<I") inside the DataType.encode wrapper *)
Definition uint_encode (w : nat) (z : Z) : res bytes :=
  if in_urange w z then Ok (le_enc w z) else Err DataError.
Definition USINT_encode := uint_encode 1.
Definition UINT_encode := uint_encode 2.
Definition UDINT_encode := uint_encode 4.

Definition len (bs : list Z) : Z := Z.of_nat (List.length bs).

Fixpoint assoc_text (k : text) (t : list (text * Z)) : option Z :=
  match t with
  | [] => None
  | (k', v) :: r => if text_eqb k' k then Some v else assoc_text k r
  end.
Fixpoint assoc_z (k : Z) (t : list (Z * Z)) : option Z :=
  match t with
  | [] => None
  | (k', v) :: r => if k' =? k then Some v else assoc_z k r
  end.

(* str.encode() (UTF-8); surrogates / out-of-range code points raise (UnicodeEncodeError) *)
Definition utf8_char (c : Z) : option (list Z) :=
  if c <? 0 then None
  else if c <? 128 then Some [c]
  else if c <? 2048 then Some [192 + c / 64; 128 + c mod 64]
  else if c <? 65536 then
    if (55296 <=? c) && (c <=? 57343) then None
    else Some [224 + c / 4096; 128 + (c / 64) mod 64; 128 + c mod 64]
  else if c <? 1114112 then
    Some [240 + c / 262144; 128 + (c / 4096) mod 64; 128 + (c / 64) mod 64; 128 + c mod 64]
  else None.
Fixpoint utf8_encode (s : text) : res bytes :=
  match s with
  | [] => Ok []
  | c :: r => match utf8_char c with
              | None => Err (Foreign UnicodeError)
              | Some bs => let* rest := utf8_encode r in Ok (bs ++ rest)
              end
  end.

(* int(str) on ASCII text: surrounding whitespace (bytes 9-13 and 32: Py_ISSPACE; the separators
   28-31 are NOT accepted in an ASCII string), optional sign, digits with single underscores between
   digits; more than sys.int_max_str_digits = 4300 digits (leading zeros included) -> ValueError.
   Non-ASCII digits / spaces are outside the model. *)
Definition int_max_str_digits : Z := 4300.
Definition is_ws (c : Z) : bool := ((9 <=? c) && (c <=? 13)) || (c =? 32).
Fixpoint lstrip (s : text) : text :=
  match s with
  | c :: r => if is_ws c then lstrip r else s
  | [] => []
  end.
Definition strip (s : text) : text := rev (lstrip (rev (lstrip s))).
Fixpoint digits_us (s : text) (acc : Z) (prev_digit : bool) : option Z :=
  match s with
  | [] => if prev_digit then Some acc else None
  | c :: r => if is_ascii_digit c then digits_us r (acc * 10 + (c - 48)) true
              else if (c =? 95) && prev_digit then digits_us r acc false
              else None
  end.
Definition count_digits (s : text) : Z := len (filter is_ascii_digit s).
Definition py_int_unsigned (r : text) : option Z :=
  if count_digits r <=? int_max_str_digits then digits_us r 0 false else None.
Definition py_int_full (s : text) : res Z :=
  let bad := Err (Foreign ValueError) in
  match strip s with
  | [] => bad
  | c :: r =>
      if c =? 45 then match py_int_unsigned r with Some z => Ok (- z) | None => bad end
      else if c =? 43 then match py_int_unsigned r with Some z => Ok z | None => bad end
      else match py_int_unsigned (c :: r) with Some z => Ok z | None => bad end
  end.

(* ipaddress.ip_address restricted to what can be an IPv4 address: exactly four '.'-separated
   octets, each 1-3 ASCII digits, no leading zero unless the octet is "0", value <= 255.
   (IPv6 text needs at least two ':' characters; such link strings are outside the model and
   outside the generators.) *)
Definition octet_ok (o : text) : bool :=
  isdigit o && (Nat.leb (List.length o) 3)
  && (match o with 48 :: _ :: _ => false | _ => true end)
  && (match digits_val o 0 with Some z => z <=? 255 | None => false end).
Definition ip_v4_ok (s : text) : bool :=
  match split_chr 46 s with
  | [a; b; c; d] => octet_ok a && octet_ok b && octet_ok c && octet_ok d
  | _ => false
  end.

Definition odd_len (bs : list Z) : bool := Nat.odd (List.length bs).

(* ---------------------------------------------------------------- LogicalSegment._encode *)
Definition logical_value_bytes (v : lval) : res bytes :=
  match v with
  | LBytes b => Ok b
  | LInt z =>
      if z <=? 255 then USINT_encode z
      else if z <=? 65535 then UINT_encode z
      else if z <=? 4294967295 then UDINT_encode z
      else Err DataError
  end.

Definition encode_logical_with (ltypes : list (text * Z)) (lfmt : list (Z * Z)) (segty : Z)
           (padded : bool) (ltype : text) (v : lval) : res bytes :=
  match assoc_text ltype ltypes with
  | None => Err DataError                                   (* "Invalid logical type" *)
  | Some ty =>
      let* vb := logical_value_bytes v in
      match assoc_z (len vb) lfmt with
      | None => Err DataError                               (* "Segment value not valid ..." *)
      | Some fmt =>
          let b := Z.lor (Z.lor segty ty) fmt in
          if byte_ok b                                      (* bytes([b]) *)
          then Ok (b :: (if padded && Nat.odd (1 + List.length vb) then [0] else []) ++ vb)
          else Err (Foreign ValueError)
      end
  end.
Definition encode_logical : bool -> text -> lval -> res bytes :=
  encode_logical_with logical_types logical_format logical_segment_type.

(* ---------------------------------------------------------------- PortSegment._encode *)
Definition port_link_bytes (link : plink) : res bytes :=
  match link with
  | LinkStr s =>
      if isdigit s (* str.isnumeric() on ASCII text *)
      then (if len s <=? int_max_str_digits       (* int(): longer decimal strings raise ValueError *)
            then match digits_val s 0 with Some z => USINT_encode z | None => Err (Foreign ValueError) end
            else Err (Foreign ValueError))
      else if ip_v4_ok s then utf8_encode s else Err (Foreign ValueError)
  | LinkInt z => USINT_encode z
  | LinkBytes b => Ok b
  end.

Definition encode_port_with (names : list (text * Z)) (ext : Z) (padded : bool)
           (port : Z + list Z) (link : plink) : res bytes :=
  let* p := match port with
            | inl n => Ok n
            | inr name => match assoc_text name names with
                          | Some n => Ok n
                          | None => Err (Foreign KeyError)
                          end
            end in
  let* lb := port_link_bytes link in
  (* if port > 14: _ext_port = UINT.encode(port); port = 15   (the 4-bit identifier holds 1..14) *)
  let* (p1, extb) := (if 14 <? p then let* e := UINT_encode p in Ok (15, e) else Ok (p, [])) in
  let* (p', lenb) := (if 1 <? len lb
                       then let* l := USINT_encode (len lb) in Ok (Z.lor p1 ext, l)
                       else Ok (p1, [])) in
  let* pb := USINT_encode p' in
  let s := pb ++ lenb ++ extb ++ lb in
  Ok (s ++ (if odd_len s then [0] else [])).
Definition encode_port : bool -> Z + list Z -> plink -> res bytes :=
  encode_port_with port_segments port_extended_link.

(* ---------------------------------------------------------------- DataSegment._encode *)
Definition encode_data_sym (s : text) : res bytes :=
  let sb := Z.lor data_segment_type data_extended_symbol in
  let* data := utf8_encode s in
  let* h := USINT_encode sb in
  let* l := USINT_encode (len data) in
  Ok (h ++ l ++ data ++ (if odd_len data then [0] else [])).
Definition encode_data_raw (b : bytes) : res bytes :=
  let* h := USINT_encode data_segment_type in
  let* l := USINT_encode (len b) in
  Ok (h ++ l ++ b).

(* ---------------------------------------------------------------- CIPSegment.encode *)
(* try: cls._encode(segment, padded)  except Exception: raise DataError *)
Definition encode_seg (padded : bool) (s : seg) : res (list Z) :=
  match s with
  | Logical t v => wrap_all DataError (encode_logical padded t v)
  | Port p l => wrap_all DataError (encode_port padded p l)
  | DataSym n => wrap_all DataError (encode_data_sym n)
  | DataRaw b => wrap_all DataError (encode_data_raw b)
  | RawBytes b => Ok b
  end.

(* ---------------------------------------------------------------- EPATH.encode *)
Fixpoint encode_segs (padded : bool) (segs : list seg) : res (list Z) :=
  match segs with
  | [] => Ok []
  | s :: r => let* a := encode_seg padded s in
              let* b := encode_segs padded r in
              Ok (a ++ b)
  end.

Definition epath_encode (padded : bool) (segs : list seg) (length pad_length : bool) : res (list Z) :=
  wrap_all DataError
    (let* path := encode_segs padded segs in
     if length then
       let* l := USINT_encode (len path / 2) in
       Ok (l ++ (if pad_length then [0] else []) ++ path)
     else Ok path).

(* ---------------------------------------------------------------- packets/util.py *)
Definition txt (s : string) : text := zs_of_string s.

Definition lval_truthy (v : lval) : bool :=
  match v with
  | LInt z => negb (z =? 0)
  | LBytes b => match b with [] => false | _ => true end
  end.

(* request_path(class_code, instance, attribute=b"") ; attr = None is the default b"" *)
Definition request_path_segs (cls inst : lval) (attr : option lval) : list seg :=
  [Logical (txt "class_id") cls; Logical (txt "instance_id") inst]
  ++ match attr with
     | Some a => if lval_truthy a then [Logical (txt "attribute_id") a] else []
     | None => []
     end.
Definition request_path (cls inst : lval) (attr : option lval) : res (list Z) :=
  epath_encode padded_PADDED_EPATH (request_path_segs cls inst attr) true false.

(* _find_tag_index *)
Definition find_tag_index (tag : text) : text * list text :=
  if contains_chr 91 tag then
    let t := removelast tag in
    match find [91] t with
    | Some k => (firstn k t, split_chr 44 (skipn (S k) t))
    | None => (removelast t, split_chr 44 t)      (* find = -1:  t[0:] and t[:-1] *)
    end
  else (tag, []).

Fixpoint map_res {A B} (f : A -> res B) (l : list A) : res (list B) :=
  match l with
  | [] => Ok []
  | a :: r => let* b := f a in let* bs := map_res f r in Ok (b :: bs)
  end.

Definition member_segs (idx : list Z) : list seg :=
  map (fun i => Logical (txt "member_id") (LInt i)) idx.

Fixpoint attr_segments (attrs : list text) : res (list seg) :=
  match attrs with
  | [] => Ok []
  | a :: r =>
      let '(name, index) := find_tag_index a in
      let* idx := map_res py_int_full index in
      let* rest := attr_segments r in
      Ok (DataSym name :: member_segs idx ++ rest)
  end.

Definition tag_segments (tag : text) (instance_id : option Z) (use_instance_ids : bool)
  : res (option (list seg)) :=
  match split_chr 46 tag with
  | [] => Ok None
  | base :: attrs =>
      let '(base_tag, index) := find_tag_index base in
      let by_id := match instance_id with
                   | Some i => use_instance_ids && negb (starts_with (txt "Program:") base) && negb (i =? 0)
                   | None => false
                   end in
      let first := match instance_id with
                   | Some i => if by_id
                               then [Logical (txt "class_id") (LBytes class_symbol_object);
                                     Logical (txt "instance_id") (LInt i)]
                               else [DataSym base_tag]
                   | None => [DataSym base_tag]
                   end in
      let* idx := map_res py_int_full index in
      let* rest := attr_segments attrs in
      Ok (Some (first ++ member_segs idx ++ rest))
  end.

Definition tag_request_path (tag : list Z) (instance_id : option Z) (use_instance_ids : bool)
  : res (option (list Z)) :=
  let* osegs := tag_segments tag instance_id use_instance_ids in
  match osegs with
  | None => Ok None
  | Some segs => let* b := epath_encode padded_PADDED_EPATH segs true false in Ok (Some b)
  end.
