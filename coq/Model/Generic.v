(* Model/Generic.v — executable model of generic messaging in pycomm3 (property C14):
     cip_driver.py        CIPDriver.generic_message (argument normalisation, route selection,
                          request class, Tag construction), send, get_module_info
     packets/base.py      RequestPacket.build_message / build_request / _build_header /
                          _build_common_packet_format
     packets/ethernetip.py SendUnitDataRequestPacket / SendRRDataRequestPacket (items, sequence)
     packets/cip.py       GenericConnectedRequestPacket / GenericUnconnectedRequestPacket
                          (__init__, _setup_message), Generic*ResponsePacket._parse_reply
     packets/util.py      wrap_unconnected_send (request_path itself: Model/Path.v)
     logix_driver.py      get_plc_name, get_plc_info, get_plc_time, set_plc_time
   Definitions only.  Declarative facts (member values, defaults, literals of the helper calls,
   the order of the Unconnected Send parts) come from Gen/*.v.  Path encoding = Model/Path.v (C09),
   route strings = Model/ConnPath.v (C15), codecs = Model/Codec.v (C06), the base response classes
   and the error text = Model/Reply.v (C13).  The model reproduces what the code DOES.

   Not modelled: logging; `return_response_packet`; set_plc_time(None) (the PC clock); the
   "datetime"/"string" renderings of get_plc_time (only "microseconds", and whether the datetime
   arithmetic overflows beyond datetime.max: both are then None); the text after "Failed to parse reply - " when a
   data type fails to decode ([EParse]). *)
From Coq Require Import String.
From PV Require Import Base.Bytes Base.Res Base.Proto Base.PyStr.
From PV Require Import Gen.PathTables Gen.Consts Gen.Tables Gen.Status Gen.GenericFacts.
From PV Require Import Model.EnumMapDefs Model.Path.
From PV Require Model.ConnPath Model.CodecPrim Model.Codec Model.Reply Model.Seq.
Open Scope Z_scope.

(* ---------------------------------------------------------------- vocabulary *)
Inductive sval := SInt (z : Z) | SBytes (b : bytes).            (* service: int or bytes *)

(* route_path: True / False / str / sequence of segments / bytes *)
Inductive route_arg := RTrue | RFalse | RStr (s : text) | RSegs (l : list seg) | RBytes (b : bytes).

Record gm_args := {
  a_service : sval; a_class : lval; a_instance : lval;
  a_attribute : option lval;             (* None = the default b"" *)
  a_data : bytes;
  a_dt : option Codec.ty;                (* data_type; None = None *)
  a_name : text;
  a_connected : bool; a_ucsend : bool; a_route : route_arg }.

(* the driver fields generic messaging reads *)
Record drv := {
  d_session : Z;                         (* _session *)
  d_cid : bytes;                         (* _target_cid (meaningful when connected) *)
  d_connected : bool;                    (* _target_is_connected *)
  d_context : bytes; d_option : Z;       (* _cfg["context"], _cfg["option"] *)
  d_seq : Z;                             (* the variable of the _sequence generator *)
  d_cip_path : list seg;                 (* _cfg["cip_path"] *)
  d_micro800 : bool }.

Definition with_seq (d : drv) (v : Z) : drv :=
  {| d_session := d_session d; d_cid := d_cid d; d_connected := d_connected d; d_context := d_context d;
     d_option := d_option d; d_seq := v; d_cip_path := d_cip_path d; d_micro800 := d_micro800 d |}.

(* a call either completes, raises, or needs the Forward Open exchange first
   (with_forward_open on a driver whose connection is not open: property C10's model) *)
Inductive outcome (A : Type) := Done (a : A) | Raised (e : exn) | NeedForwardOpen.
Arguments Done {A} a. Arguments Raised {A} e. Arguments NeedForwardOpen {A}.
Definition of_res {A} (r : res A) : outcome A := match r with Ok a => Done a | Err e => Raised e end.

(* ---------------------------------------------------------------- declared members by name *)
Definition T (s : string) : text := zs_of_string s.

Fixpoint member_in (ms : list (list Z * key)) (name : text) : res bytes :=
  match ms with
  | [] => Err (Foreign AttributeError)
  | (n, v) :: r => if text_eqb n name then match v with KBytes b => Ok b | _ => Err (Foreign TypeError) end
                   else member_in r name
  end.
Definition member (t : table) (name : string) : res bytes := member_in (t_members t) (T name).

Definition lval_of (v : Z + list Z) : lval := match v with inl z => LInt z | inr b => LBytes b end.

(* ---------------------------------------------------------------- packets/base.py *)
(* RequestPacket._build_header: try ... except Exception: raise CommError *)
Definition build_header (command : bytes) (length session : Z) (context : bytes) (option : Z) : res bytes :=
  wrap_all CommError
    (let* l := UINT_encode length in
     let* s := UDINT_encode session in
     let* o := UDINT_encode option in
     Ok (command ++ l ++ s ++ [0; 0; 0; 0] ++ context ++ o)).

(* RequestPacket._build_common_packet_format; addr_data None = the SendRRData override *)
Definition common_packet_format (addr_type msg_type : bytes) (addr_data : option bytes) (message : bytes) : res bytes :=
  let* ad := match addr_data with
             | None => Ok [0; 0]
             | Some a => let* l := UINT_encode (len a) in Ok (l ++ a)
             end in
  let* ml := UINT_encode (len message) in
  Ok ([0; 0; 0; 0] ++ packet_timeout ++ [2; 0] ++ addr_type ++ ad ++ msg_type ++ ml ++ message).

(* RequestPacket.build_request *)
Definition build_request (command addr_type msg_type : bytes) (addr_data : option bytes) (d : drv) (message : bytes)
  : res bytes :=
  let* common := common_packet_format addr_type msg_type addr_data message in
  let* header := build_header command (len common) (d_session d) (d_context d) (d_option d) in
  Ok (header ++ common).

(* ---------------------------------------------------------------- packets/util.py *)
Fixpoint concat_res (l : list (res bytes)) : res bytes :=
  match l with
  | [] => Ok []
  | r :: rest => let* a := r in let* b := concat_res rest in Ok (a ++ b)
  end.

(* one of the parts wrap_unconnected_send joins (their order is regenerated: ucsend_parts) *)
Definition ucsend_part (rp message route : bytes) (name : text) : res bytes :=
  if text_eqb name (T "service") then member tbl_ConnectionManagerServices "unconnected_send"
  else if text_eqb name (T "path") then Ok rp
  else if text_eqb name (T "priority") then Ok PRIORITY
  else if text_eqb name (T "ticks") then Ok TIMEOUT_TICKS
  else if text_eqb name (T "length") then UINT_encode (len message)
  else if text_eqb name (T "message") then Ok message
  else if text_eqb name (T "pad") then Ok (if Z.odd (len message) then [0] else [])
  else if text_eqb name (T "route") then Ok route
  else if text_eqb name (T "route_or_empty") then Ok (match route with [] => ucsend_empty_route | _ => route end)
  else Err (Foreign NotImplementedError).

Definition wrap_unconnected_send (message route : bytes) : res bytes :=
  let* rp := request_path (LBytes ucsend_class) (lval_of ucsend_instance) None in
  concat_res (map (ucsend_part rp message route) ucsend_parts).

(* ---------------------------------------------------------------- packets/cip.py, request side *)
(* `service if isinstance(service, bytes) else bytes([service])` *)
Definition service_bytes (s : sval) : res bytes :=
  match s with
  | SBytes b => Ok b
  | SInt z => if byte_ok z then Ok [z] else Err (Foreign ValueError)
  end.

(* GenericConnectedRequestPacket._setup_message (+ SendUnitDataRequestPacket's sequence count) *)
Definition connected_message (seq : Z) (svc : bytes) (cls inst : lval) (attr : option lval) (data : bytes) : res bytes :=
  let* sq := UINT_encode seq in
  let* rp := request_path cls inst attr in
  Ok (sq ++ svc ++ rp ++ data).

(* GenericUnconnectedRequestPacket._setup_message *)
Definition unconnected_message (ucsend : bool) (svc : bytes) (cls inst : lval) (attr : option lval)
  (data route : bytes) : res bytes :=
  let* rp := request_path cls inst attr in
  if ucsend then wrap_unconnected_send (svc ++ rp ++ data) route
  else Ok (svc ++ rp ++ data ++ route).

(* ---------------------------------------------------------------- cip_driver.py generic_message, request side *)
Definition encode_route_path (segs : list seg) : res bytes :=
  epath_encode padded_PADDED_EPATH segs true true.       (* PADDED_EPATH.encode(x, length=True, pad_length=True) *)

(* the value of _kwargs["route_path"] ([] = the key is not set: the packet's default b"").
   route_path=True means the connection's route, and only inside an Unconnected Send *)
Definition resolve_route (d : drv) (ucsend : bool) (r : route_arg) : res bytes :=
  match r with
  | RTrue => if ucsend then encode_route_path (d_cip_path d) else Ok []
  | RStr s => let* segs := ConnPath.parse_cip_route s false in encode_route_path segs
  | RBytes b => Ok b
  | RFalse => Ok []
  | RSegs [] => Ok []                                      (* falsy: no branch taken *)
  | RSegs l => encode_route_path l
  end.

Definition enc_command (name : string) : res bytes := member tbl_EncapsulationCommands name.

(* the frame generic_message writes to the socket, and the driver afterwards.
   Order of effects as in the code: with_forward_open; route selection; packet constructor
   (a connected packet draws its sequence count BEFORE the service is converted); build_request
   inside send(). *)
Definition gm_request (d : drv) (a : gm_args) : drv * outcome bytes :=
  if a_connected a then
    if negb (d_connected d) then (d, NeedForwardOpen) else
    let '(seq, v') := Seq.draw (d_seq d) in
    let d' := with_seq d v' in
    (d', of_res
      (let* svc := service_bytes (a_service a) in
       let* msg := connected_message seq svc (a_class a) (a_instance a) (a_attribute a) (a_data a) in
       let* cmd := enc_command "send_unit_data" in
       let* at_ := member tbl_AddressItem "connection" in
       let* mt := member tbl_DataItem "connected" in
       build_request cmd at_ mt (Some (d_cid d)) d msg))
  else
    (d, of_res
      (let* route := resolve_route d (a_ucsend a) (a_route a) in
       let* svc := service_bytes (a_service a) in
       let* msg := unconnected_message (a_ucsend a) svc (a_class a) (a_instance a) (a_attribute a) (a_data a) route in
       let* cmd := enc_command "send_rr_data" in
       let* at_ := member tbl_AddressItem "uccm" in
       let* mt := member tbl_DataItem "unconnected" in
       build_request cmd at_ mt None d msg)).

(* ---------------------------------------------------------------- response side *)
Inductive gvalue := GBytes (b : bytes) | GVal (v : CodecPrim.val).
(* error text: exact, or "Failed to parse reply - <text of the decoding error>" *)
Inductive gerr := EText (t : text) | EParse.

Record gtag := { g_name : text; g_value : option gvalue; g_type : option Codec.ty; g_error : option gerr }.
Definition gtag_truthy (t : gtag) : bool :=
  match g_value t, g_error t with Some _, None => true | _, _ => false end.

Definition rkind_of (connected : bool) : Reply.rkind := if connected then Reply.KUnit else Reply.KRR.

(* Generic{Connected,Unconnected}ResponsePacket._parse_reply: the base classes' parse, then
   value = data (no data type) / data_type.decode(data) when valid.
   -> response object, value, "the decoder raised" *)
Definition parse_generic (k : Reply.rkind) (dt : option Codec.ty) (raw : bytes)
  : Reply.resp * option gvalue * bool :=
  let r := match k with Reply.KRR => Reply.parse_rr raw | _ => Reply.parse_unit raw end in
  match dt with
  | None => (r, option_map GBytes (Reply.r_data r), false)
  | Some t =>
      if Reply.is_valid k r then
        match Reply.r_data r with
        | None => (Reply.set_error r Reply.fail_prefix, None, true)     (* data_type.decode(None) raises *)
        | Some data =>
            match Codec.decode t data with
            | Ok (v, _) => (r, Some (GVal v), false)
            | Err _ => (Reply.set_error r Reply.fail_prefix, None, true)
            end
        end
      else (r, None, false)
  end.

(* a decode that does not terminate in the implementation (Model/Codec.v hang_marker) *)
Definition decode_hangs (k : Reply.rkind) (dt : option Codec.ty) (raw : bytes) : bool :=
  match dt with
  | None => false
  | Some t =>
      let r := match k with Reply.KRR => Reply.parse_rr raw | _ => Reply.parse_unit raw end in
      Reply.is_valid k r &&
      match Reply.r_data r with
      | Some data => match Codec.decode t data with Err (Foreign StopIteration) => true | _ => false end
      | None => false
      end
  end.

(* Tag(name, response.value, data_type, error=response.error); `error` is a property that can raise *)
Definition gm_response (a : gm_args) (raw : bytes) : res gtag :=
  let k := rkind_of (a_connected a) in
  let '(r, v, failed) := parse_generic k (a_dt a) raw in
  match Reply.error k r with
  | Reply.RErr e _ => Err e
  | Reply.ROk err =>
      Ok {| g_name := a_name a; g_value := v; g_type := a_dt a;
            g_error := if failed then Some EParse else option_map EText err |}
  end.

(* ---------------------------------------------------------------- helpers *)
Definition flag (dflt : bool) (micro800 : bool) (z : Z) : bool :=
  if z =? 0 then false else if z =? 1 then true else if z =? 2 then negb micro800 else dflt.

Definition struct_ty (ms : list (option (list Z) * (list Z * Z))) : res Codec.ty :=
  match Codec.members_of_desc Codec.Revision_ty ms with
  | Some l => Ok (Codec.TStruct Codec.SPlain l)
  | None => Err (Foreign AttributeError)
  end.

Definition named_ty (n : text) (ms : list (option (list Z) * (list Z * Z))) : res (option Codec.ty) :=
  match n with
  | [] => Ok None
  | _ => if text_eqb n (T "Struct") then let* t := struct_ty ms in Ok (Some t)
         else if text_eqb n (T "ModuleIdentityObject")
         then match Codec.ModuleIdentityObject_ty with Some t => Ok (Some t) | None => Err (Foreign AttributeError) end
         else match Codec.ty_of_name n with Some t => Ok (Some t) | None => Err (Foreign AttributeError) end
  end.

(* the gm_args of a helper's call: regenerated keyword arguments + the signature's defaults *)
Definition args_of_call (d : drv) (c : gm_call) (ms : list (option (list Z) * (list Z * Z)))
  (data : bytes) (route : route_arg) : res gm_args :=
  let* dt := named_ty (gc_data_type c) ms in
  Ok {| a_service := SBytes (gc_service c); a_class := LBytes (gc_class c); a_instance := lval_of (gc_instance c);
        a_attribute := option_map lval_of (gc_attribute c);
        a_data := match gc_request_data c with Some b => b | None => data end;
        a_dt := dt;
        a_name := match gc_name c with Some n => n | None => gm_default_name end;
        a_connected := flag gm_default_connected (d_micro800 d) (gc_connected c);
        a_ucsend := flag gm_default_unconnected_send (d_micro800 d) (gc_unconnected_send c);
        a_route := route |}.

Definition default_route : route_arg := if gm_default_route_path_true then RTrue else RFalse.

(* exceptions raised inside a helper's `try: ... except Exception: raise ResponseError` *)
Definition wrap_response {A} (o : outcome A) : outcome A :=
  match o with Raised _ => Raised ResponseError | x => x end.

Definition bind_args (r : res gm_args) (d : drv) (k : gm_args -> drv * outcome bytes) : drv * outcome (gm_args * bytes) :=
  match r with
  | Err e => (d, Raised e)
  | Ok a => let '(d', o) := k a in
            (d', match o with Done f => Done (a, f) | Raised e => Raised e | NeedForwardOpen => NeedForwardOpen end)
  end.

(* --- CIPDriver.get_module_info(slot) *)
Definition module_info_route (d : drv) (slot : Z) : res bytes :=
  encode_route_path (removelast (d_cip_path d) ++ [Port (inr (T "bp")) (LinkInt slot)]).

Definition get_module_info_request (d : drv) (slot : Z) : drv * outcome (gm_args * bytes) :=
  let '(d', o) :=
    match module_info_route d slot with
    | Err e => (d, Raised e)
    | Ok rb => bind_args (args_of_call d call_get_module_info [] [] (RBytes rb)) d (gm_request d)
    end in
  (d', wrap_response o).

Definition module_identity_decode (v : option gvalue) : res CodecPrim.val :=
  match v, Codec.ModuleIdentityObject_ty with
  | Some (GBytes b), Some t => let* (x, _) := Codec.decode t b in Ok x
  | _, _ => Err (Foreign TypeError)
  end.

Definition get_module_info_response (a : gm_args) (raw : bytes) : res CodecPrim.val :=
  wrap_all ResponseError
    (let* t := gm_response a raw in
     if gtag_truthy t then module_identity_decode (g_value t) else Err ResponseError).

(* --- LogixDriver.get_plc_name (decorated with with_forward_open) *)
Definition get_plc_name_request (d : drv) : drv * outcome (gm_args * bytes) :=
  if get_plc_name_with_forward_open && negb (d_connected d) then (d, NeedForwardOpen) else
  let '(d', o) := bind_args (args_of_call d call_get_plc_name [] [] default_route) d (gm_request d) in
  (d', wrap_response o).

Definition get_plc_name_response (a : gm_args) (raw : bytes) : res CodecPrim.val :=
  wrap_all ResponseError
    (let* t := gm_response a raw in
     if gtag_truthy t then match g_value t with Some (GVal v) => Ok v | _ => Err (Foreign TypeError) end
     else Err ResponseError).

(* --- LogixDriver.get_plc_info *)
Definition get_plc_info_request (d : drv) : drv * outcome (gm_args * bytes) :=
  let '(d', o) := bind_args (args_of_call d call_get_plc_info [] [] default_route) d (gm_request d) in
  (d', wrap_response o).

Definition k_status : CodecPrim.key := Some (T "status").
Definition k_keyswitch : CodecPrim.key := Some (T "keyswitch").
Definition UNKNOWN : text := T "UNKNOWN".

(* KEYSWITCH.get(info["status"][0], {}).get(info["status"][1], "UNKNOWN") *)
Definition keyswitch_text (st : CodecPrim.val) : res text :=
  let* a := CodecPrim.py_index st 0 in
  let* b := CodecPrim.py_index st 1 in
  match a, b with
  | CodecPrim.VInt x, CodecPrim.VInt y =>
      match CodecPrim.zlookup keyswitch x with
      | Some row => match CodecPrim.zlookup row y with Some t => Ok t | None => Ok UNKNOWN end
      | None => Ok UNKNOWN
      end
  | _, _ => Ok UNKNOWN
  end.

Definition get_plc_info_response (a : gm_args) (raw : bytes) : res CodecPrim.val :=
  wrap_all ResponseError
    (let* t := gm_response a raw in
     if gtag_truthy t then
       match g_value t with
       | Some (GVal (CodecPrim.VDict info)) =>
           let* st := CodecPrim.dict_get info k_status in
           let* ks := keyswitch_text st in
           Ok (CodecPrim.VDict (CodecPrim.dict_set info k_keyswitch (CodecPrim.VStr ks)))
       | _ => Err (Foreign TypeError)
       end
     else Err ResponseError).

(* --- LogixDriver.get_plc_time: Tag("get_plc_time", value, None, error=tag.error); only the
   "microseconds" entry of the value is modelled; datetime(1970,1,1) + timedelta(microseconds=us)
   raises OverflowError beyond datetime.max, which the code catches (regenerated fact):
   "datetime" and "string" are then None *)
Definition get_plc_time_request (d : drv) : drv * outcome (gm_args * bytes) :=
  bind_args (args_of_call d call_get_plc_time call_get_plc_time_struct [] default_route) d (gm_request d).

(* tt_datetime: value["datetime"] / value["string"] are present (false: both None) *)
Record time_tag := { tt_microseconds : option Z; tt_datetime : bool; tt_error : option gerr }.

Definition get_plc_time_response (a : gm_args) (raw : bytes) : res time_tag :=
  let* t := gm_response a raw in
  if gtag_truthy t then
    match g_value t with
    | Some (GVal (CodecPrim.VDict dct)) =>
        let* us := CodecPrim.dict_get dct (Some get_plc_time_key) in
        match us with
        | CodecPrim.VInt z =>
            if z <=? datetime_max_us
            then Ok {| tt_microseconds := Some z; tt_datetime := true; tt_error := g_error t |}
            else if get_plc_time_catches_overflow
            then Ok {| tt_microseconds := Some z; tt_datetime := false; tt_error := g_error t |}
            else Err (Foreign OverflowError)
        | _ => Err (Foreign TypeError)
        end
    | _ => Err (Foreign TypeError)
    end
  else Ok {| tt_microseconds := None; tt_datetime := false; tt_error := g_error t |}.

(* --- LogixDriver.set_plc_time(microseconds): _struct.encode([1, 6, microseconds]) is evaluated
   before generic_message is entered *)
Definition set_plc_time_data (us : Z) : res bytes :=
  let* t := struct_ty call_set_plc_time_encode_members in
  Codec.encode t (CodecPrim.VList (map CodecPrim.VInt call_set_plc_time_encode_prefix ++ [CodecPrim.VInt us])).

Definition set_plc_time_request (d : drv) (us : Z) : drv * outcome (gm_args * bytes) :=
  match set_plc_time_data us with
  | Err e => (d, Raised e)
  | Ok data => bind_args (args_of_call d call_set_plc_time [] data default_route) d (gm_request d)
  end.

Definition set_plc_time_response (a : gm_args) (raw : bytes) : res gtag := gm_response a raw.
