(* Model/Regex.v — a backtracking matcher with the semantics of Python's [re] for the subset of
   syntax the seven SLC address patterns use (pycomm3/slc_driver.py, regenerated into
   Gen/SlcTables.v): literals and character classes (sets of literals, \d, '.'), capturing groups
   (named / unnamed, numbered by opening parenthesis), alternation with first-alternative
   priority, greedy [?], [{m,n}], [+] with backtracking, IGNORECASE, [search] = leftmost start.

   The matcher is continuation-passing: [m r s g k] matches [r] at the head of [s] with group
   state [g] and hands the rest of the text to [k]; a [NoMatch] from [k] makes the enclosing
   choice point (alternation, optional, repetition count) try its next option, exactly like the
   backtracking of sre.  Group state is functional, so captures made on an abandoned branch
   vanish.  Recursion is structural on the pattern; the unbounded loop of [+] takes explicit fuel
   and returns the distinguished [OutOfFuel] when it runs out ([S (length text)] always suffices
   because the generator refuses repetitions over patterns that can match the empty string).

   ASCII semantics: \d is 0-9 and IGNORECASE folds A-Z/a-z only (DESIGN.md section 6); the
   generators of the correspondence stay inside ASCII.  Definitions only; lemmas in Proofs/Regex*.v. *)
From PV Require Import Base.Bytes Base.Proto Base.Res Base.PyStr.
Open Scope Z_scope.

Inductive citem :=
  | CLit (c : Z)          (* a literal character *)
  | CDigit                (* \d *)
  | CAny.                 (* '.' : anything but a newline (no DOTALL) *)

Inductive re :=
  | Eps
  | Chr (cs : list citem)                       (* one character out of a class *)
  | Seq (a b : re)
  | Alt (a b : re)
  | Opt (a : re)                                (* a?      greedy *)
  | Rep (lo hi : nat) (a : re)                  (* a{lo,hi} greedy *)
  | Plus (a : re)                               (* a+      greedy *)
  | Group (idx : nat) (name : text) (a : re).   (* capturing group number idx *)

Record regex := { rx_re : re; rx_ic : bool; rx_groups : nat; rx_names : list (text * nat) }.

Definition ci_match (ic : bool) (it : citem) (c : Z) : bool :=
  match it with
  | CLit l => if ic then lower_c c =? lower_c l else c =? l
  | CDigit => is_ascii_digit c
  | CAny => negb (c =? 10)
  end.
Definition cc_match (ic : bool) (cs : list citem) (c : Z) : bool := existsb (fun it => ci_match ic it c) cs.

(* group state: latest binding first *)
Definition groups := list (nat * text).
Fixpoint gget (i : nat) (g : groups) : option text :=
  match g with
  | [] => None
  | (j, t) :: r => if Nat.eqb i j then Some t else gget i r
  end.
Definition gset (i : nat) (t : text) (g : groups) : groups := (i, t) :: g.

Inductive mres :=
  | Match (rest : text) (g : groups)
  | NoMatch
  | OutOfFuel.

Definition K := text -> groups -> mres.

(* what was consumed between two suffixes of the same text *)
Definition span (s s' : text) : text := firstn (length s - length s') s.

(* a{lo,hi}: one more iteration first (greedy); stopping here is allowed once lo iterations are done *)
Fixpoint rep_loop (step : text -> groups -> K -> mres) (lo hi : nat) (s : text) (g : groups) (k : K) : mres :=
  match hi with
  | O => match lo with O => k s g | S _ => NoMatch end
  | S hi' =>
      match step s g (fun s' g' => rep_loop step (pred lo) hi' s' g' k) with
      | NoMatch => match lo with O => k s g | S _ => NoMatch end
      | x => x
      end
  end.

(* a+ = a a*: after each iteration try another one first, else continue with k *)
Fixpoint plus_loop (step : text -> groups -> K -> mres) (fuel : nat) (s : text) (g : groups) (k : K) : mres :=
  match fuel with
  | O => OutOfFuel
  | S f =>
      step s g (fun s' g' => match plus_loop step f s' g' k with
                             | NoMatch => k s' g'
                             | x => x
                             end)
  end.

Fixpoint m (fuel : nat) (ic : bool) (r : re) {struct r} : text -> groups -> K -> mres :=
  match r with
  | Eps => fun s g k => k s g
  | Chr cs => fun s g k =>
      match s with
      | [] => NoMatch
      | c :: s' => if cc_match ic cs c then k s' g else NoMatch
      end
  | Seq a b => fun s g k => m fuel ic a s g (fun s' g' => m fuel ic b s' g' k)
  | Alt a b => fun s g k =>
      match m fuel ic a s g k with
      | NoMatch => m fuel ic b s g k
      | x => x
      end
  | Opt a => fun s g k =>
      match m fuel ic a s g k with
      | NoMatch => k s g
      | x => x
      end
  | Rep lo hi a => rep_loop (m fuel ic a) lo hi
  | Plus a => plus_loop (m fuel ic a) fuel
  | Group i _ a => fun s g k => m fuel ic a s g (fun s' g' => k s' (gset i (span s s') g'))
  end.

(* re.search: the match at the leftmost start position that has one *)
Inductive sres :=
  | SMatch (start : nat) (whole : text) (g : groups)     (* t.start(), t.group(0), the groups *)
  | SNoMatch
  | SOutOfFuel.

Definition match_here (fuel : nat) (rx : regex) (s : text) : mres :=
  m fuel (rx_ic rx) (rx_re rx) s [] (fun s' g' => Match s' g').

Fixpoint search_from (fuel : nat) (rx : regex) (pos : nat) (s : text) : sres :=
  match match_here fuel rx s with
  | Match e g => SMatch pos (span s e) g
  | OutOfFuel => SOutOfFuel
  | NoMatch => match s with
               | [] => SNoMatch
               | _ :: s' => search_from fuel rx (S pos) s'
               end
  end.

Definition search_fuel (fuel : nat) (rx : regex) (s : text) : sres := search_from fuel rx O s.
Definition search (rx : regex) (s : text) : sres := search_fuel (S (length s)) rx s.

(* re.fullmatch: a match from the start that ends at the end of the text; an attempt that stops
   earlier is a failure of the continuation, so the matcher backtracks into shorter repetitions
   exactly as sre does *)
Definition at_end : K := fun s g => match s with [] => Match s g | _ => NoMatch end.
Definition fullmatch_here (fuel : nat) (rx : regex) (s : text) : mres :=
  m fuel (rx_ic rx) (rx_re rx) s [] at_end.
Definition fullmatch (rx : regex) (s : text) : sres :=
  match fullmatch_here (S (length s)) rx s with
  | Match _ g => SMatch O s g
  | NoMatch => SNoMatch
  | OutOfFuel => SOutOfFuel
  end.

(* t.group("name"): None when the group did not take part in the match.  A name that the pattern
   does not define is Python's IndexError (never the case for the regenerated patterns; explicit
   so that a table change cannot make a lookup silently absent). *)
Fixpoint name_index (names : list (text * nat)) (n : text) : option nat :=
  match names with
  | [] => None
  | (n', i) :: r => if text_eqb n' n then Some i else name_index r n
  end.
Definition group_named (rx : regex) (g : groups) (n : text) : res (option text) :=
  match name_index (rx_names rx) n with
  | Some i => Ok (gget i g)
  | None => Err (Foreign IndexError)
  end.
