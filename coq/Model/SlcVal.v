(* Model/SlcVal.v — the values that travel through SLCDriver.read / write, shared by the model
   (Model/Slc.v) and by the reference interpretation (Spec/SlcTarget.v).  A plain datatype, no logic.

   VInt  : a Python int (bools are ints: True = 1)
   VBool : the result of a bit read
   VF32  : a Python float that is exactly representable in binary32, given by its binary32 bit
           pattern in [0, 2^32) (the harness converts with struct; NaNs stay outside the generators)
   VList : a Python list of values *)
From PV Require Import Base.Bytes.
Open Scope Z_scope.

Inductive sval :=
  | VInt (z : Z)
  | VBool (b : bool)
  | VF32 (bits : Z)
  | VList (vs : list sval).

(* Python truthiness of a value, as `if value` sees it *)
Definition truthy (v : sval) : bool :=
  match v with
  | VInt z => negb (z =? 0)
  | VBool b => b
  | VF32 bits => negb ((bits =? 0) || (bits =? 2147483648))     (* +0.0 and -0.0 are falsy *)
  | VList vs => match vs with [] => false | _ => true end
  end.
