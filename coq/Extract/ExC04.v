(* Extract/ExC04.v — co-process entry points for the C04 correspondence (request planners, fragment loops). *)
From Coq Require Import String.
From PV Require Import Base.Bytes Base.Proto Model.LogixPlan.
From Coq Require Import ExtrOcamlBasic.
Open Scope string_scope.
Open Scope Z_scope.

(* rplan <conn> <micro800 0|1> { <id> <err 0|1> <data size> <msg len> }*
   wplan <conn> <micro800 0|1> { <id> <err> <bit> <plc tag bytes> <enc err> <msg len> <value len> }*
        -> packets:  M <n> <id>*n | S <id> | F <id> | R <rid> <n> <id>*n
   wfrag <conn> <ovh> <value>                  -> { <offset> <segment> }*
   rfrag { <fragment> <more 0|1> }*            -> ok <n> <offset>*n <data> | wait *)
Definition zb (z : Z) : bool := negb (z =? 0).

Fixpoint parse_rreqs (fuel : nat) (ts : list tok) : list rreq :=
  match fuel with
  | O => []
  | S f => match ts with
           | TInt i :: TInt e :: TInt d :: TInt m :: r =>
               {| r_id := i; r_err := zb e; r_data := d; r_msg := m |} :: parse_rreqs f r
           | _ => []
           end
  end.
Fixpoint parse_wreqs (fuel : nat) (ts : list tok) : list wreq :=
  match fuel with
  | O => []
  | S f => match ts with
           | TInt i :: TInt e :: TInt b :: TBytes t :: TInt ee :: TInt m :: TInt v :: r =>
               {| w_id := i; w_err := zb e; w_bit := zb b; w_tag := t; w_enc_err := zb ee; w_msg := m; w_val := v |}
               :: parse_wreqs f r
           | _ => []
           end
  end.

Definition print_packet (p : packet) : list tok :=
  match p with
  | PMulti ids => sym "M" :: TInt (Z.of_nat (length ids)) :: map TInt ids
  | PSingle i => [sym "S"; TInt i]
  | PFrag i => [sym "F"; TInt i]
  | PRmw rid ids => sym "R" :: TInt rid :: TInt (Z.of_nat (length ids)) :: map TInt ids
  end.

Fixpoint parse_frags (fuel : nat) (ts : list tok) : list (bytes * bool) :=
  match fuel with
  | O => []
  | S f => match ts with
           | TBytes b :: TInt m :: r => (b, zb m) :: parse_frags f r
           | _ => []
           end
  end.

Definition handle (ts : list tok) : list tok :=
  match ts with
  | cmd :: r =>
      if is_sym "rplan" cmd then
        match r with
        | TInt conn :: TInt micro :: rs =>
            flat_map print_packet (read_build_requests conn (zb micro) (parse_rreqs (length rs) rs))
        | _ => [sym "ERR"; sym "args"]
        end
      else if is_sym "wplan" cmd then
        match r with
        | TInt conn :: TInt micro :: ws =>
            flat_map print_packet (write_build_requests conn (zb micro) (parse_wreqs (length ws) ws))
        | _ => [sym "ERR"; sym "args"]
        end
      else if is_sym "wfrag" cmd then
        match r with
        | [TInt conn; TInt ovh; TBytes v] =>
            flat_map (fun p => [TInt (fst p); TBytes (snd p)]) (write_fragments conn ovh v)
        | _ => [sym "ERR"; sym "args"]
        end
      else if is_sym "rfrag" cmd then
        match read_fragments (parse_frags (length r) r) 0 [] [] with
        | Some (offs, data) => sym "ok" :: TInt (Z.of_nat (length offs)) :: map TInt offs ++ [TBytes data]
        | None => [sym "wait"]
        end
      else if is_sym "nego" cmd then      (* nego <ext 0|1> <csize> <accept large> <accept std> -> <opened> <ext'> <csize'> { <large?> <size field> }* *)
        match r with
        | [TInt e; TInt c; TInt al; TInt ast] =>
            let '(att, st', opened) := negotiate {| fo_ext := zb e; fo_csize := c |} (zb al) (zb ast) in
            TInt (if opened then 1 else 0) :: TInt (if fo_ext st' then 1 else 0) :: TInt (fo_csize st')
            :: flat_map (fun a : bool * Z => [TInt (if fst a then 1 else 0); TInt (snd a)]) att
        | _ => [sym "ERR"; sym "args"]
        end
      else [sym "ERR"; sym "badcmd"]
  | _ => [sym "ERR"; sym "badline"]
  end.

Definition init_state : unit := tt.
Definition step_line (s : unit) (line : list Z) : unit * list Z := (s, run_line handle line).
Extraction "../ocaml/gen/c04_model.ml" init_state step_line.
