(* Extract/ExC10.v — co-process entry points for the C10 correspondence: the connection lifecycle
   model (Model/Lifecycle.v) run against the reference target's core half with [basic_handler].
   One line = one whole run:

     run <logix 0/1> | <route segment bytes>.. | { <cfg key> <value> }.. | { inj <nth> <service> <status> <ext>.. }..
         | <fault>.. | <urandom bytes>.. | <op>..
       cfg keys / values: exactly the `cfg` command of the target co-process (Spec/TargetProto.apply_cfg)
       fault:  c <k> <fk> (connect) | s <k> <fk> (send, before delivery) | a <k> <fk> (send, after delivery)
               | r <k> <fk> (receive) | d <k> (reply dropped) | z <k> <fk> (close) | v <k> (peer vanishes at send k)
               fk: 0 = OS error, 1 = any other exception
       op:     open | close | gc <msg> | gu <msg> | call <seq after> <n> (<seq> <msg>) x n | with <raises 0/1> <n> <simple op> x n
   ->  ok { | obs <outcome> st <connected> <target_is_connected> <session> <ext 0/1> <connection_size> <target cid | none>
              s <session handle>.. { c <conn fields as `dump conns`> }.. { <socket event> }.. }..
          | log <event groups as `dump log`>
       outcome: bool <0/1> | none | tag <0/1> | tags <0/1>.. | err <exn code> | user
       socket event (those since the previous observation, oldest first):
               k <0/1> connect (ok) | f <frame> <reply | none> frame delivered | q <0/1> close (target notified) | v peer vanished *)
From Coq Require Import String.
From PV Require Import Base.Bytes Base.Proto Base.Res.
From PV Require Import Spec.EncapParser Spec.MRParser Spec.TargetIface Spec.TargetCore Spec.TargetProto.
From PV Require Import Model.Lifecycle.
From Coq Require Import ExtrOcamlBasic.
Open Scope string_scope.
Open Scope list_scope.
Open Scope Z_scope.

Definition basic_id_lens : basic_lens basic_state := {| bl_get := fun b => b; bl_put := fun b _ => b |}.

(* split on "|" tokens *)
Fixpoint split_bar (ts : list tok) (cur : list tok) (acc : list (list tok)) : list (list tok) :=
  match ts with
  | [] => rev_append acc [rev_append cur []]
  | t :: r => if is_sym "|" t then split_bar r [] (rev_append cur [] :: acc) else split_bar r (t :: cur) acc
  end.

Fixpoint bytes_toks (ts : list tok) : option (list bytes) :=
  match ts with
  | [] => Some []
  | TBytes b :: r => match bytes_toks r with Some l => Some (b :: l) | None => None end
  | _ => None
  end.

Fixpoint parse_cfg (fuel : nat) (ts : list tok) (st : tstate basic_state) : option (tstate basic_state) :=
  match fuel with
  | O => None
  | S f =>
      match ts with
      | [] => Some st
      | k :: v :: r => match apply_cfg basic_id_lens k v st with Some st' => parse_cfg f r st' | None => None end
      | _ => None
      end
  end.

(* { inj <nth> <service> <status> <ext>.. }.. *)
Fixpoint take_ints (ts : list tok) (acc : list Z) : list Z * list tok :=
  match ts with
  | TInt z :: r => take_ints r (z :: acc)
  | _ => (rev_append acc [], ts)
  end.
Fixpoint parse_inj (fuel : nat) (ts : list tok) : option (list injection) :=
  match fuel with
  | O => None
  | S f =>
      match ts with
      | [] => Some []
      | k :: r =>
          if is_sym "inj" k then
            match take_ints r [] with
            | (n :: s :: e :: ext, rest) =>
                match parse_inj f rest with
                | Some l => Some ({| inj_left := n; inj_service := s; inj_status := e; inj_ext := ext |} :: l)
                | None => None
                end
            | _ => None
            end
          else None
      end
  end.

Definition fk_of (z : Z) : fkind := if z =? 0 then FkOs else FkOther.
Fixpoint parse_faults (fuel : nat) (ts : list tok) (f : faults) : option faults :=
  match fuel with
  | O => None
  | S fu =>
      match ts with
      | [] => Some f
      | k :: TInt n :: r =>
          let i := Z.to_nat n in
          if is_sym "d" k then parse_faults fu r (mkFaults (f_connect f) (f_send f) (f_send_after f) (f_recv f) (f_drop f ++ [i]) (f_close f) (f_vanish f))
          else if is_sym "v" k then parse_faults fu r (mkFaults (f_connect f) (f_send f) (f_send_after f) (f_recv f) (f_drop f) (f_close f) (f_vanish f ++ [i]))
          else match r with
               | TInt fk :: r' =>
                   let e := (i, fk_of fk) in
                   if is_sym "c" k then parse_faults fu r' (mkFaults (f_connect f ++ [e]) (f_send f) (f_send_after f) (f_recv f) (f_drop f) (f_close f) (f_vanish f))
                   else if is_sym "s" k then parse_faults fu r' (mkFaults (f_connect f) (f_send f ++ [e]) (f_send_after f) (f_recv f) (f_drop f) (f_close f) (f_vanish f))
                   else if is_sym "a" k then parse_faults fu r' (mkFaults (f_connect f) (f_send f) (f_send_after f ++ [e]) (f_recv f) (f_drop f) (f_close f) (f_vanish f))
                   else if is_sym "r" k then parse_faults fu r' (mkFaults (f_connect f) (f_send f) (f_send_after f) (f_recv f ++ [e]) (f_drop f) (f_close f) (f_vanish f))
                   else if is_sym "z" k then parse_faults fu r' (mkFaults (f_connect f) (f_send f) (f_send_after f) (f_recv f) (f_drop f) (f_close f ++ [e]) (f_vanish f))
                   else None
               | _ => None
               end
      | _ => None
      end
  end.

Fixpoint take_items (n : nat) (ts : list tok) : option (list (Z * bytes) * list tok) :=
  match n with
  | O => Some ([], ts)
  | S n' => match ts with
            | TInt q :: TBytes b :: r => match take_items n' r with Some (l, r') => Some ((q, b) :: l, r') | None => None end
            | _ => None
            end
  end.

Definition parse_sop (ts : list tok) : option (sop * list tok) :=
  match ts with
  | k :: r =>
      if is_sym "open" k then Some (Open, r)
      else if is_sym "close" k then Some (Close, r)
      else if is_sym "gc" k then match r with TBytes b :: r' => Some (GenericConnected b, r') | _ => None end
      else if is_sym "gu" k then match r with TBytes b :: r' => Some (GenericUnconnected b, r') | _ => None end
      else if is_sym "call" k then
        match r with
        | TInt sa :: TInt n :: r' => match take_items (Z.to_nat n) r' with Some (l, r'') => Some (ConnectedCall l sa, r'') | None => None end
        | _ => None
        end
      else None
  | [] => None
  end.
Fixpoint take_sops (n : nat) (ts : list tok) : option (list sop * list tok) :=
  match n with
  | O => Some ([], ts)
  | S n' => match parse_sop ts with
            | Some (o, r) => match take_sops n' r with Some (l, r') => Some (o :: l, r') | None => None end
            | None => None
            end
  end.
Fixpoint parse_ops (fuel : nat) (ts : list tok) : option (list op) :=
  match fuel with
  | O => None
  | S f =>
      match ts with
      | [] => Some []
      | k :: r =>
          if is_sym "with" k then
            match r with
            | TInt ra :: TInt n :: r' =>
                match take_sops (Z.to_nat n) r' with
                | Some (body, r'') => match parse_ops f r'' with Some l => Some (WithBlock body (negb (ra =? 0)) :: l) | None => None end
                | None => None
                end
            | _ => None
            end
          else match parse_sop ts with
               | Some (o, r') => match parse_ops f r' with Some l => Some (Simple o :: l) | None => None end
               | None => None
               end
      end
  end.

(* ---------------------------------------------------------------- printing *)
Definition b01 (b : bool) : tok := TInt (if b then 1 else 0).
Definition outcome_toks (o : outcome) : list tok :=
  match o with
  | OBool b => [sym "bool"; b01 b]
  | ONone => [sym "none"]
  | OTag b => [sym "tag"; b01 b]
  | OTags l => sym "tags" :: map b01 l
  | OErr e => [sym "err"; TInt (exn_code e)]
  | OUser => [sym "user"]
  end.

Definition tev_toks (e : tev (S := basic_state)) : list tok :=
  match e with
  | TConnect okc => [sym "k"; b01 okc]
  | TDeliver _ f r => [sym "f"; TBytes f; match r with Some rb => TBytes rb | None => sym "none" end]
  | TSockClose n => [sym "q"; b01 n]
  | TVanish => [sym "v"]
  end.

Definition obs_toks (prev_len : nat) (o : obs (S := basic_state)) : list tok :=
  let w := fst (o_state o) in
  let d := snd (o_state o) in
  let news := rev_append (firstn (List.length (w_trace w) - prev_len) (w_trace w)) [] in
  [bar; sym "obs"] ++ outcome_toks (o_out o)
  ++ [sym "st"; b01 (d_opened d); b01 (d_tconn d); TInt (d_session d); b01 (d_ext d); TInt (d_size d);
      match d_cid d with Some c => TBytes c | None => sym "none" end; sym "s"]
  ++ map TInt (t_sessions (w_t w))
  ++ flat_map (fun c => sym "c" :: conn_toks c) (t_conns (w_t w))
  ++ flat_map tev_toks news.

Fixpoint all_obs_toks (prev_len : nat) (l : list (obs (S := basic_state))) : list tok :=
  match l with
  | [] => []
  | o :: r => obs_toks prev_len o ++ all_obs_toks (List.length (w_trace (fst (o_state o)))) r
  end.

Definition handle (ts : list tok) : list tok :=
  match ts with
  | cmd :: TInt lg :: rest =>
      if is_sym "run" cmd then
        match split_bar rest [] [] with
        | [_; route; cfg; inj; flt; rands; ops] =>
            match bytes_toks route, parse_cfg (S (List.length cfg)) cfg (init_tstate init_basic),
                  parse_inj (S (List.length inj)) inj, parse_faults (S (List.length flt)) flt no_faults,
                  bytes_toks rands, parse_ops (S (List.length ops)) ops with
            | Some rt, Some t0, Some injs, Some f, Some rs, Some os =>
                let '(fin, l) := run_ops basic_handler (negb (lg =? 0)) f
                                   (init_world (set_inject injs t0) rs, init_dstate rt) os in
                let t := w_t (fst fin) in
                sym "ok" :: all_obs_toks 0 l ++ [bar; sym "log"] ++ groups ev_toks (log_chrono t)
            | None, _, _, _, _, _ => [sym "ERR"; sym "route"]
            | _, None, _, _, _, _ => [sym "ERR"; sym "cfg"]
            | _, _, None, _, _, _ => [sym "ERR"; sym "inject"]
            | _, _, _, None, _, _ => [sym "ERR"; sym "faults"]
            | _, _, _, _, None, _ => [sym "ERR"; sym "rands"]
            | _, _, _, _, _, None => [sym "ERR"; sym "ops"]
            end
        | _ => [sym "ERR"; sym "sections"]
        end
      else [sym "ERR"; sym "badcmd"]
  | _ => [sym "ERR"; sym "badline"]
  end.

Definition init_state : unit := tt.
Definition step_line (s : unit) (line : list Z) : unit * list Z := (s, print_line (handle (fparse_line line))).
Extraction "../ocaml/gen/c10_model.ml" init_state step_line.
