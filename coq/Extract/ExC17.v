(* Extract/ExC17.v — co-process entry points for the C17 correspondence (sequence counter). *)
From Coq Require Import String.
From PV Require Import Base.Bytes Base.Proto Model.Seq.
From PV Require Import Gen.SeqGen.
From Coq Require Import ExtrOcamlBasic.
Open Scope string_scope.
Open Scope Z_scope.

(* yields <n> <v>            -> the next n values the generator yields from counter variable v, then the variable
   sent <v> <d|s>*           -> the counts of the messages sent along the history (d = Draw, s = DrawSend) from variable v
   guard <d|s>*              -> 1 if the guard fires (a repeat is predicted), 0 otherwise
   init                      -> the initial counter variable, SEQ_STOP, SEQ_START *)
Fixpoint yields (n : nat) (v : Z) (acc : list tok) : list tok :=
  match n with
  | O => rev (TInt v :: acc)
  | S n' => let '(y, v') := draw v in yields n' v' (TInt y :: acc)
  end.
Fixpoint parse_sevs (ts : list tok) : list sev :=
  match ts with
  | [] => []
  | t :: r => if is_sym "s" t then DrawSend :: parse_sevs r else Draw :: parse_sevs r
  end.

Definition handle (ts : list tok) : list tok :=
  match ts with
  | cmd :: r =>
      if is_sym "init" cmd then [TInt seq_init; TInt SEQ_STOP; TInt SEQ_START]
      else if is_sym "yields" cmd then
        match r with
        | [TInt n; TInt v] => yields (Z.to_nat n) v []
        | _ => [sym "ERR"; sym "args"]
        end
      else if is_sym "sent" cmd then
        match r with
        | TInt v :: evs => map TInt (sent_counts (parse_sevs evs) v)
        | _ => [sym "ERR"; sym "args"]
        end
      else if is_sym "sentidx" cmd then     (* sentidx <i>* -> <guard 0|1> <count>* : messages sent by draw index *)
        let idx := map (fun t => match t with TInt z => Z.to_nat z | _ => O end) r in
        TInt (if idx_guard idx then 1 else 0) :: map TInt (counts_of idx)
      else if is_sym "guard" cmd then [TInt (if C17_guard (parse_sevs r) then 1 else 0)]
      else [sym "ERR"; sym "badcmd"]
  | _ => [sym "ERR"; sym "badline"]
  end.

Definition init_state : unit := tt.
Definition step_line (s : unit) (line : list Z) : unit * list Z := (s, run_line handle line).
Extraction "../ocaml/gen/c17_model.ml" init_state step_line.
