(* Extract/ExC05.v — co-process entry points for the C05 correspondence (tag-list upload).
   State: a project and policies loaded with the SAME lines as bin/modelrun_target
   (tmpl / tag / prog / policy / clearproject; mem lines are accepted and ignored).

     script <rev> <fuel> none|star|<program> <detail 0/1> { | <reply frame> }*
         the model of LogixDriver.get_tag_list run against a script of SendUnitData reply frames
         (the exact frames the real driver received), each turned into what the response object
         exposes by Model/Reply.parse_unit / is_valid
         -> done|fail|oof { | rq <service> <path> <data> }* | tags <py> | dts <py> | progs <py> | tasks <py>
            [| json <py>] | ser <0/1>
         detail 0: the data_type of a structure tag is printed as O S <name> (the definition itself is
         in dts) and tags_json is not printed; detail 1: everything
     scriptseq <rev> <fuel> <detail> { || none|star|<program> { | <reply frame> }* }+
         several get_tag_list calls on ONE driver (the state left by a call is the state the next starts
         from), each with the reply frames it received; answer as for script, for the LAST call, with the
         requests of all calls; fail / oof as soon as a call fails
     mirror <rev> <cap> <fuel> none|star
         the model client against the reference target's handler (Proofs/UploadDefs.upload_target)
         -> ok <0 done | 1 fail | 2 oof> <obs_of_view defined 0/1> <observations equal 0/1> <#tags> <#types>
     classify <name> <symbol type>           -> <0 program | 1 routine | 2 task | 3 skip | 4 keep> <name part | x>
     hidden <name> <symbol type>             -> <Spec/Project.hidden_symbol of an atomic DINT tag with that name / system bit 0/1>
     createtag <rev> <name> <inst> <stype> <addr> <oaddr> <swc> <access or -1> <d1> <d2> <d3>
                                             -> <py> of _create_tag for an ATOMIC symbol | struct
     parsepage <rev> <status> <data>         -> ok <next instance> { | <inst> <name> <stype> <addr> <oaddr> <swc> <access text> <d1> <d2> <d3> }* | fail
     memberinfo <chunk>                      -> <py> of _parse_template_data_member_info for an elementary member | struct | fail
     tmpldata <stype> <defsize> <size> <count> <handle> <data>
                                             -> <py> of _parse_template_data when every member is elementary | fail
     copyjson <py>                           -> <py> of _copy_datatype, <serialisable 0/1>
   <py> = prefix tokens:  N | T | F | I <int> | S <text> | L <n> <py>*n | D <n> (<py> <py>)*n | O <py> *)
From Coq Require Import String.
From PV Require Import Base.Bytes Base.Proto Base.PyStr Base.Res.
From PV Require Import Spec.TargetIface Spec.TargetCore Spec.TargetProto Spec.Project Spec.Expect Spec.TargetLogix Spec.UploadObs.
From PV Require Import Model.LogixUpload Proofs.UploadDefs.
From PV Require Model.Reply Extract.ExTarget.
From Coq Require Import ExtrOcamlBasic.
Open Scope string_scope.
Open Scope list_scope.
Open Scope Z_scope.

Definition name_tok (n : text) : tok := if bytes_ok n then TBytes n else TText n.
Definition tok_text (t : tok) : option text :=
  match t with TBytes b => Some b | TText c => Some c | _ => None end.
Definition bool_tok (b : bool) : tok := TInt (if b then 1 else 0).

(* ---------------------------------------------------------------- py values *)
Fixpoint py_toks (v : pyval) : list tok :=
  match v with
  | PNone => [sym "N"]
  | PBool b => [sym (if b then "T" else "F")]
  | PInt z => [sym "I"; TInt z]
  | PStr s => [sym "S"; name_tok s]
  | PList l => sym "L" :: TInt (Z.of_nat (length l)) :: flat_map py_toks l
  | PDict kvs => sym "D" :: TInt (Z.of_nat (length kvs))
                 :: flat_map (fun kv => py_toks (fst kv) ++ py_toks (snd kv)) kvs
  | PObj d => sym "O" :: py_toks d
  end.

Fixpoint parse_py (fuel : nat) (ts : list tok) {struct fuel} : option (pyval * list tok) :=
  match fuel with
  | O => None
  | S f =>
      let fix many (n : nat) (ts : list tok) : option (list pyval * list tok) :=
        match n with
        | O => Some ([], ts)
        | S n' => match parse_py f ts with
                  | Some (v, r) => match many n' r with Some (vs, r') => Some (v :: vs, r') | None => None end
                  | None => None
                  end
        end in
      let fix pairs (n : nat) (ts : list tok) : option (list (pyval * pyval) * list tok) :=
        match n with
        | O => Some ([], ts)
        | S n' => match parse_py f ts with
                  | Some (k, r) =>
                      match parse_py f r with
                      | Some (v, r1) => match pairs n' r1 with Some (vs, r') => Some ((k, v) :: vs, r') | None => None end
                      | None => None
                      end
                  | None => None
                  end
        end in
      match ts with
      | k :: r =>
          if is_sym "N" k then Some (PNone, r)
          else if is_sym "T" k then Some (PBool true, r)
          else if is_sym "F" k then Some (PBool false, r)
          else if is_sym "O" k then match parse_py f r with Some (d, r') => Some (PObj d, r') | None => None end
          else match r with
               | TInt z :: r' =>
                   if is_sym "I" k then Some (PInt z, r')
                   else if (z <? 0) || (Z.of_nat (length r') <? z) then None
                   else if is_sym "L" k then
                     match many (Z.to_nat z) r' with Some (vs, r2) => Some (PList vs, r2) | None => None end
                   else if is_sym "D" k then
                     match pairs (Z.to_nat z) r' with Some (vs, r2) => Some (PDict vs, r2) | None => None end
                   else None
               | t :: r' => if is_sym "S" k then match tok_text t with Some s => Some (PStr s, r') | None => None end
                            else None
               | [] => None
               end
      | [] => None
      end
  end.

(* ---------------------------------------------------------------- the scripted peer *)
Record script := mkScript { sc_frames : list bytes; sc_log : list ureq }.

Definition urep_of_frame (raw : bytes) : option urep :=
  let r := Reply.parse_unit raw in
  match Reply.r_service_status r, Reply.r_data r with
  | Some st, Some d =>
      Some (mkRep (Reply.is_valid Reply.KUnit r) st d
                  (match Reply.error Reply.KUnit r with Reply.RErr _ _ => true | Reply.ROk _ => false end))
  | _, _ => None
  end.

Definition script_call (s : script) (rq : ureq) : script * option urep :=
  match sc_frames s with
  | [] => (mkScript [] (rq :: sc_log s), None)
  | f :: r => (mkScript r (rq :: sc_log s), urep_of_frame f)
  end.

Definition rq_toks (rq : ureq) : list tok :=
  [sym "rq"; TInt (q_service rq); TBytes (q_path rq); TBytes (q_data rq)].

Definition parse_arg (t : tok) : option scope_arg :=
  if is_sym "none" t then Some ArgNone
  else if is_sym "star" t then Some ArgStar
  else match tok_text t with Some p => Some (ArgProgram p) | None => None end.

Fixpoint frames_of (gs : list (list tok)) : option (list bytes) :=
  match gs with
  | [] => Some []
  | [TBytes b] :: r => match frames_of r with Some l => Some (b :: l) | None => None end
  | _ => None
  end.

(* detail 0: a structure tag refers to its definition by name *)
Definition light_tag (t : mtag) : pyval :=
  match tg_dtype t with
  | DDef d =>
      tag_py (mkMTag (tg_name t) (tg_dim t) (tg_alias t) (tg_inst t) (tg_addr t) (tg_oaddr t) (tg_swc t) (tg_access t)
                     (tg_dims t) (tg_struct t) (tg_tid t) DNone (tg_dtname t) (tg_bitpos t)
                     (match tg_tclass t with TcArray n _ => TcArray n TcNone | _ => TcNone end))
  | _ => tag_py t
  end.
Definition light_tags_py (tags : list mtag) : pyval :=
  PDict (map (fun nt => (PStr (fst nt), light_tag (snd nt))) (tags_dict tags)).

Definition cmd_script (args : list tok) : list tok :=
  match ExTarget.split_bar args [] [] with
  | [TInt rev; TInt fuel; a; TInt detail] :: gs =>
      match parse_arg a, frames_of gs with
      | Some arg, Some frames =>
          let '(s', o) := get_tag_list script script_call rev (Z.to_nat fuel) init_ustate (mkScript frames []) arg in
          let rqs := flat_map (fun rq => bar :: rq_toks rq) (rev_append (sc_log s') []) in
          match o with
          | Done r =>
              let u := res_state r in
              let js := tags_json (res_tags r) in
              sym "done" :: rqs
              ++ bar :: sym "tags" :: py_toks (if detail =? 0 then light_tags_py (res_tags r) else tags_py (res_tags r))
              ++ bar :: sym "dts" :: py_toks (data_types_py u)
              ++ bar :: sym "progs" :: py_toks (programs_py u)
              ++ bar :: sym "tasks" :: py_toks (tasks_py u)
              ++ (if detail =? 0 then [] else bar :: sym "json" :: py_toks js)
              ++ [bar; sym "ser"; bool_tok (serialisable js)]
          | Failed _ => sym "fail" :: rqs
          | OutOfFuel => sym "oof" :: rqs
          end
      | _, _ => err "badscript"
      end
  | _ => err "badscript"
  end.

(* ---------------------------------------------------------------- several calls on one driver *)
Fixpoint split_dbar (ts : list tok) (cur : list tok) (acc : list (list tok)) : list (list tok) :=
  match ts with
  | [] => rev_append acc [rev_append cur []]
  | t :: r => if is_sym "||" t then split_dbar r [] (rev_append cur [] :: acc) else split_dbar r (t :: cur) acc
  end.

Definition result_toks (detail : Z) (rqs : list tok) (r : uresult) : list tok :=
  let u := res_state r in
  let js := tags_json (res_tags r) in
  sym "done" :: rqs
  ++ bar :: sym "tags" :: py_toks (if detail =? 0 then light_tags_py (res_tags r) else tags_py (res_tags r))
  ++ bar :: sym "dts" :: py_toks (data_types_py u)
  ++ bar :: sym "progs" :: py_toks (programs_py u)
  ++ bar :: sym "tasks" :: py_toks (tasks_py u)
  ++ (if detail =? 0 then [] else bar :: sym "json" :: py_toks js)
  ++ [bar; sym "ser"; bool_tok (serialisable js)].

Fixpoint run_calls (rev : Z) (fuel : nat) (detail : Z) (u : ustate) (log : list ureq) (calls : list (list tok)) (last : option uresult)
  : list tok :=
  let rqs (l : list ureq) := flat_map (fun rq => bar :: rq_toks rq) (rev_append l []) in
  match calls with
  | [] => match last with Some r => result_toks detail (rqs log) r | None => err "nocalls" end
  | c :: rest =>
      match ExTarget.split_bar c [] [] with
      | [a] :: gs =>
          match parse_arg a, frames_of gs with
          | Some arg, Some frames =>
              let '(s', o) := get_tag_list script script_call rev fuel u (mkScript frames log) arg in
              match o with
              | Done r => run_calls rev fuel detail (res_state r) (sc_log s') rest (Some r)
              | Failed _ => sym "fail" :: rqs (sc_log s')
              | OutOfFuel => sym "oof" :: rqs (sc_log s')
              end
          | _, _ => err "badcall"
          end
      | _ => err "badcall"
      end
  end.

Definition cmd_scriptseq (args : list tok) : list tok :=
  match split_dbar args [] [] with
  | [TInt rev; TInt fuel; TInt detail] :: calls => run_calls rev (Z.to_nat fuel) detail init_ustate [] calls None
  | _ => err "badscriptseq"
  end.

(* ---------------------------------------------------------------- model client o target *)
Definition cmd_mirror (st : lstate) (args : list tok) : list tok :=
  match args with
  | [TInt rev; TInt cap; TInt fuel; a] =>
      match parse_arg a with
      | Some arg =>
          let wa := with_access rev in
          let o := upload_target cap rev (Z.to_nat fuel) (ls_proj st) (ls_pol st) arg in
          let ev := obs_of_view wa (abstract_view (match arg with ArgStar => ls_proj st | _ => controller_scope (ls_proj st) end)) in
          match o with
          | Done r =>
              let ob := obs_of_result wa r in
              [ok; TInt 0; bool_tok (match ev with Some _ => true | None => false end);
               bool_tok (match ev with Some e => oview_eqb ob e | None => false end);
               TInt (Z.of_nat (length (ov_tags ob))); TInt (Z.of_nat (length (ov_types ob)))]
          | Failed _ => [ok; TInt 1; TInt 0; TInt 0; TInt 0; TInt 0]
          | OutOfFuel => [ok; TInt 2; TInt 0; TInt 0; TInt 0; TInt 0]
          end
      | None => err "badmirror"
      end
  | _ => err "badmirror"
  end.

(* ---------------------------------------------------------------- unit-level commands *)
(* a peer that never answers: structure members / structure tags fail *)
Definition no_call (s : unit) (rq : ureq) : unit * option urep := (s, None).

Definition cmd_classify (args : list tok) : list tok :=
  match args with
  | [nt; TInt stype] =>
      match tok_text nt with
      | Some n =>
          match classify n stype with
          | IsoProgram x => [TInt 0; name_tok x]
          | IsoRoutine x => [TInt 1; name_tok x]
          | IsoTask x => [TInt 2; name_tok x]
          | IsoSkip => [TInt 3; sym "-"]
          | IsoKeep => [TInt 4; sym "-"]
          end
      | None => err "badname"
      end
  | _ => err "badclassify"
  end.

Definition cmd_hidden (args : list tok) : list tok :=
  match args with
  | [nt; TInt sys] =>
      match tok_text nt with
      | Some n => [bool_tok (hidden_symbol (mkTag n 1 ScCtrl (BAtom C_DINT) [] 0 (negb (sys =? 0)) 0 0 0 0))]
      | None => err "badname"
      end
  | _ => err "badhidden"
  end.

Definition cmd_createtag (args : list tok) : list tok :=
  match args with
  | [TInt rev; nt; TInt inst; TInt stype; TInt addr; TInt oaddr; TInt swc; TInt access; TInt d1; TInt d2; TInt d3] =>
      match tok_text nt with
      | Some n =>
          if sym_is_struct stype then [sym "struct"] else
          let raw := mkRaw inst n stype addr oaddr swc
                           (external_access_name (if access <? 0 then None else Some access)) [d1; d2; d3] in
          match create_tag unit no_call O init_ustate tt n raw with
          | (_, _, Done t) => py_toks (tag_py t)
          | _ => [sym "fail"]
          end
      | None => err "badname"
      end
  | _ => err "badcreatetag"
  end.

Definition raw_toks (t : raw_tag) : list tok :=
  [TInt (rt_inst t); name_tok (rt_name t); TInt (rt_stype t); TInt (rt_addr t); TInt (rt_oaddr t); TInt (rt_swc t);
   name_tok (rt_access t)] ++ map TInt (rt_dims t).

Definition cmd_parsepage (args : list tok) : list tok :=
  match args with
  | [TInt rev; TInt status; TBytes data] =>
      match parse_instance_attribute_list (with_access rev) status data with
      | Ok (ts, next) => ok :: TInt next :: flat_map (fun t => bar :: raw_toks t) ts
      | Err _ => [sym "fail"]
      end
  | _ => err "badparsepage"
  end.

Definition no_gdt (u : ustate) (s : unit) (i t : Z) : unit * ustate * outcome datatype := (s, u, Failed ResponseError).

Definition member_py (m : member) : pyval :=
  match datatype_py (MkDT None [([], m)] [] (mkTA 0 0 0 0) None None TcNone) with
  | PDict ((_, _) :: (_, PDict [(_, v)]) :: _) => v
  | _ => PNone
  end.

Definition cmd_memberinfo (args : list tok) : list tok :=
  match args with
  | [TBytes chunk] =>
      match member_record chunk with
      | Err _ => [sym "fail"]
      | Ok (_, typ, _) =>
          match parse_member_info unit no_gdt init_ustate tt chunk with
          | (_, _, Done m) => py_toks (member_py m)
          | _ => [sym "struct"]
          end
      end
  | _ => err "badmemberinfo"
  end.

Definition cmd_tmpldata (args : list tok) : list tok :=
  match args with
  | [TInt stype; TInt defsize; TInt size; TInt count; TInt handle; TBytes data] =>
      match parse_template_data unit no_gdt init_ustate tt data (mkTA defsize size count handle) stype with
      | (_, _, Done d) => py_toks (datatype_py d)
      | _ => [sym "fail"]
      end
  | _ => err "badtmpldata"
  end.

Definition cmd_copyjson (args : list tok) : list tok :=
  match parse_py (S (length args)) args with
  | Some (v, []) => let c := copy_datatype v in py_toks c ++ [bool_tok (serialisable c)]
  | _ => err "badpy"
  end.

(* ---------------------------------------------------------------- dispatcher *)
Definition handle (st : lstate) (ts : list tok) : lstate * list tok :=
  match ts with
  | [] => (st, err "empty")
  | cmd :: args =>
      if is_sym "tmpl" cmd then
        match ExTarget.cmd_tmpl args with
        | Some t => (ExTarget.add_template t st, [ok])
        | None => (st, err "badtmpl")
        end
      else if is_sym "tag" cmd then
        match ExTarget.cmd_tag args with
        | Some g => (ExTarget.add_tag g st, [ok])
        | None => (st, err "badtag")
        end
      else if is_sym "prog" cmd then
        match args with
        | [nt; TInt inst; TInt w] =>
            match tok_text nt with
            | Some n => (ExTarget.add_tag (mkTag (txt_Program ++ n) inst ScCtrl (BOpaque w) [] 0 false 0 0 0 0) st, [ok])
            | None => (st, err "badprog")
            end
        | _ => (st, err "badprog")
        end
      else if is_sym "mem" cmd then (st, [ok])
      else if is_sym "policy" cmd then
        match ExTarget.cmd_policy args (ls_pol st) with
        | Some o => (set_pol o st, [ok])
        | None => (st, err "badpolicy")
        end
      else if is_sym "clearproject" cmd then (set_mem [] (set_proj empty_project st), [ok])
      else if is_sym "reset" cmd then (init_lstate, [ok])
      else if is_sym "wf" cmd then (st, [ok; bool_tok (wf_project (ls_proj st))])
      else if is_sym "mirror" cmd then (st, cmd_mirror st args)
      else if is_sym "script" cmd then (st, cmd_script args)
      else if is_sym "scriptseq" cmd then (st, cmd_scriptseq args)
      else if is_sym "classify" cmd then (st, cmd_classify args)
      else if is_sym "hidden" cmd then (st, cmd_hidden args)
      else if is_sym "createtag" cmd then (st, cmd_createtag args)
      else if is_sym "parsepage" cmd then (st, cmd_parsepage args)
      else if is_sym "memberinfo" cmd then (st, cmd_memberinfo args)
      else if is_sym "tmpldata" cmd then (st, cmd_tmpldata args)
      else if is_sym "copyjson" cmd then (st, cmd_copyjson args)
      else (st, err "badcmd")
  end.

Definition init_state : lstate := init_lstate.
Definition step_line (st : lstate) (line : list Z) : lstate * list Z :=
  let '(st', out) := handle st (fparse_line line) in (st', print_line out).

Extraction "../ocaml/gen/c05_model.ml" init_state step_line.
