(* Extract/ExTargetCore.v — the reference target's core half as a co-process (bin/modelrun_targetcore):
   [Spec/TargetProto.core_step_line] instantiated with [basic_handler] and no extra commands. *)
From PV Require Import Base.Bytes Base.Proto Spec.EncapParser Spec.MRParser Spec.TargetIface
  Spec.TargetCore Spec.TargetProto.
From Coq Require Import ExtrOcamlBasic.
Open Scope Z_scope.

Definition basic_id_lens : basic_lens basic_state := {| bl_get := fun b => b; bl_put := fun b _ => b |}.

Definition init_state : tstate basic_state := init_tstate init_basic.
Definition step_line (st : tstate basic_state) (line : list Z) : tstate basic_state * list Z :=
  core_step_line basic_handler basic_id_lens init_basic (fun _ _ => None) st line.

Extraction "../ocaml/gen/targetcore_model.ml" init_state step_line.
