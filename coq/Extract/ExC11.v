(* Extract/ExC11.v — co-process entry points for the C11 correspondence: the encapsulation model
   (Model/Encap.v) and the spec side (Spec/EncapParser.v strict parser, Spec/EncapTrace.v observer).

   A Python value (pv) is the token  none | <int> | x<hex bytes>.   A kind is  unit | rr | reg | unreg | li.

   hdr <command> <length> <session> <context> <option>                       (pv each)
        -> ok <bytes> | err <code>                                            _build_header
   cpf <kind> <message bytes> <target pv>        -> ok <bytes> | err <code>   the class's _build_common_packet_format
   req <kind> <sequence> <protocol_version> <option_flags> <n> <added pv>*n <target_cid> <session> <context> <option> <times>
        -> { ok <frame> | err <code> }*times  end <message> <msg_setup 0|1>   build_request, [times] times on the same object
   bmsg <kind> <sequence> <protocol_version> <option_flags> <n> <added>*n <times>
        -> { ok <message> | err <code> }*times  end <message> <msg_setup>     build_message, [times] times
   hist <op>*   with op =  open <handle|none>  |  unc <kind> <n> <pv>*n  |  close <n> <pv>*n <ok 0|1>
                         |  con <sequence> <n> <pv>*n <k> { <n> <pv>*n <reply bytes|none> }*k
        -> per op:  op <outcome code> <sock> <opened> <session pv> <target_cid pv> <connected> <ext_fo> <events>* ;
           event =  f <kind> <frame> | reg <handle> | fo <value> | closed
   parse <bytes>  -> ok <cmd> <session> <context> nop <data> | empty | register | cpf <timeout> null|<cid> <dtype> <data>
                   | rej <code>                                                Spec.EncapParser.parse_frame
   trace { f <cmd> <frame> | reg <handle> | fo <cid> | closed }*  -> ok | bad <index> <reason>   Spec.EncapTrace.trace_check *)
From Coq Require Import String.
From PV Require Import Base.Bytes Base.Proto Base.Res Model.EncapDefs Model.Encap Spec.EncapParser Spec.EncapTrace.
From Coq Require Import ExtrOcamlBasic.
Open Scope string_scope.
Open Scope Z_scope.

Definition pv_of_tok (t : tok) : option pv :=
  match t with
  | TInt z => Some (PInt z)
  | TBytes b => Some (PBytes b)
  | _ => if is_sym "none" t then Some PNone else None
  end.

Definition tok_of_pv (v : pv) : tok :=
  match v with PNone => sym "none" | PBytes b => TBytes b | PInt z => TInt z end.

Definition kind_of_tok (t : tok) : option kind :=
  if is_sym "unit" t then Some KSendUnit else if is_sym "rr" t then Some KSendRR
  else if is_sym "reg" t then Some KRegister else if is_sym "unreg" t then Some KUnRegister
  else if is_sym "li" t then Some KListIdentity else None.

Definition tok_of_kind (k : kind) : tok :=
  match k with
  | KSendUnit => sym "unit" | KSendRR => sym "rr" | KRegister => sym "reg"
  | KUnRegister => sym "unreg" | KListIdentity => sym "li"
  end.

(* <n> <pv>*n -> (list, rest) *)
Fixpoint take_pvs (n : nat) (ts : list tok) : option (list pv * list tok) :=
  match n with
  | O => Some ([], ts)
  | S n' =>
      match ts with
      | t :: r =>
          match pv_of_tok t with
          | Some v => match take_pvs n' r with Some (l, r') => Some (v :: l, r') | None => None end
          | None => None
          end
      | [] => None
      end
  end.

Definition counted_pvs (ts : list tok) : option (list pv * list tok) :=
  match ts with
  | TInt n :: r => if (0 <=? n) && (n <=? 100000) then take_pvs (Z.to_nat n) r else None
  | _ => None
  end.

Definition res_toks (r : res bytes) : list tok :=
  match r with Ok b => [sym "ok"; TBytes b] | Err e => [sym "err"; TInt (exn_code e)] end.

Definition b2z (b : bool) : Z := if b then 1 else 0.

Fixpoint repeat_req (n : nat) (p : packet) (cid sess ctx opt : pv) : list tok :=
  match n with
  | O => [sym "end"; TBytes (p_message p); TInt (b2z (p_msg_setup p))]
  | S n' => let '(p1, r) := build_request p cid sess ctx opt in res_toks r ++ repeat_req n' p1 cid sess ctx opt
  end.

Fixpoint repeat_bmsg (n : nat) (p : packet) : list tok :=
  match n with
  | O => [sym "end"; TBytes (p_message p); TInt (b2z (p_msg_setup p))]
  | S n' => let '(p1, r) := build_message p in res_toks r ++ repeat_bmsg n' p1
  end.

(* ---- histories *)
Fixpoint take_fo (n : nat) (ts : list tok) : option (list (list pv * option bytes) * list tok) :=
  match n with
  | O => Some ([], ts)
  | S n' =>
      match counted_pvs ts with
      | Some (msg, rep :: r) =>
          let reply := match rep with TBytes b => Some (Some b) | _ => if is_sym "none" rep then Some None else None end in
          match reply with
          | Some rp => match take_fo n' r with Some (l, r') => Some ((msg, rp) :: l, r') | None => None end
          | None => None
          end
      | _ => None
      end
  end.

Fixpoint parse_ops (fuel : nat) (ts : list tok) : option (list op) :=
  match fuel with
  | O => None
  | S f =>
      match ts with
      | [] => Some []
      | c :: r =>
          if is_sym "open" c then
            match r with
            | TInt h :: r' => option_map (cons (OOpen (Some h))) (parse_ops f r')
            | n :: r' => if is_sym "none" n then option_map (cons (OOpen None)) (parse_ops f r') else None
            | [] => None
            end
          else if is_sym "unc" c then
            match r with
            | kt :: r1 =>
                match kind_of_tok kt, counted_pvs r1 with
                | Some k, Some (body, r2) => option_map (cons (OUnconnected k body)) (parse_ops f r2)
                | _, _ => None
                end
            | [] => None
            end
          else if is_sym "close" c then
            match counted_pvs r with
            | Some (m, TInt ok :: r2) => option_map (cons (OClose m (negb (ok =? 0)))) (parse_ops f r2)
            | _ => None
            end
          else if is_sym "con" c then
            match r with
            | st :: r1 =>
                match pv_of_tok st, counted_pvs r1 with
                | Some seq, Some (body, TInt k :: r2) =>
                    if (0 <=? k) && (k <=? 10) then
                      match take_fo (Z.to_nat k) r2 with
                      | Some (fo, r3) => option_map (cons (OConnected seq body fo)) (parse_ops f r3)
                      | None => None
                      end
                    else None
                | _, _ => None
                end
            | [] => None
            end
          else None
      end
  end.

Definition event_toks (e : event) : list tok :=
  match e with
  | EvFrame k f => [sym "f"; tok_of_kind k; TBytes f]
  | EvRegistered h => [sym "reg"; TInt h]
  | EvForwardOpened v => [sym "fo"; TBytes v]
  | EvClosed => [sym "closed"]
  end.

Definition step_toks (x : dstate * list event * Z) : list tok :=
  let '(s, evs, c) := x in
  [sym "op"; TInt c; TInt (b2z (d_sock s)); TInt (b2z (d_opened s)); tok_of_pv (d_session s);
   tok_of_pv (d_target_cid s); TInt (b2z (d_connected s)); TInt (b2z (d_ext_fo s))]
  ++ flat_map event_toks evs ++ [sym ";"].

(* ---- spec side *)
Definition frame_toks (r : res_or_code frame) : list tok :=
  match r with
  | RcErr c => [sym "rej"; TInt c]
  | RcOk fr =>
      [sym "ok"; TInt (f_cmd fr); TInt (f_session fr); TBytes (f_context fr)]
      ++ match f_body fr with
         | BNop d => [sym "nop"; TBytes d]
         | BEmpty => [sym "empty"]
         | BRegister => [sym "register"]
         | BCpf t a dt d =>
             [sym "cpf"; TInt t; match a with AddrNull => sym "null" | AddrConn c => TInt c end; TInt dt; TBytes d]
         end
  end.

Fixpoint parse_obs (fuel : nat) (ts : list tok) : option (list obs) :=
  match fuel with
  | O => None
  | S f =>
      match ts with
      | [] => Some []
      | c :: r =>
          if is_sym "closed" c then option_map (cons ObsClosed) (parse_obs f r)
          else
            match r with
            | TInt z :: r1 =>
                if is_sym "reg" c then option_map (cons (ObsRegistered z)) (parse_obs f r1)
                else if is_sym "fo" c then option_map (cons (ObsForwardOpened z)) (parse_obs f r1)
                else if is_sym "f" c then
                  match r1 with
                  | TBytes fr :: r2 => option_map (cons (ObsFrame z fr)) (parse_obs f r2)
                  | _ => None
                  end
                else None
            | _ => None
            end
      end
  end.

Definition handle (ts : list tok) : list tok :=
  match ts with
  | c :: r =>
      if is_sym "hdr" c then
        match take_pvs 5 r with
        | Some ([a; b; s; x; o], []) =>
            res_toks (build_header {| ha_command := a; ha_length := b; ha_session := s; ha_context := x; ha_option := o |})
        | _ => [sym "ERR"; sym "badhdr"]
        end
      else if is_sym "cpf" c then
        match r with
        | [kt; TBytes m; tgt] =>
            match kind_of_tok kt, pv_of_tok tgt with
            | Some k, Some t => res_toks (build_common_packet_format (class_of k) m t)
            | _, _ => [sym "ERR"; sym "badcpf"]
            end
        | _ => [sym "ERR"; sym "badcpf"]
        end
      else if is_sym "req" c then
        match r with
        | kt :: r1 =>
            match kind_of_tok kt, take_pvs 3 r1 with
            | Some k, Some ([sq; pvn; fl], r2) =>
                match counted_pvs r2 with
                | Some (added, r3) =>
                    match take_pvs 4 r3 with
                    | Some ([cid; sess; ctx; opt], [TInt times]) =>
                        if (0 <=? times) && (times <=? 8)
                        then repeat_req (Z.to_nat times) (add (new_packet k sq pvn fl) added) cid sess ctx opt
                        else [sym "ERR"; sym "badtimes"]
                    | _ => [sym "ERR"; sym "badreq"]
                    end
                | None => [sym "ERR"; sym "badadded"]
                end
            | _, _ => [sym "ERR"; sym "badreq"]
            end
        | [] => [sym "ERR"; sym "badreq"]
        end
      else if is_sym "bmsg" c then
        match r with
        | kt :: r1 =>
            match kind_of_tok kt, take_pvs 3 r1 with
            | Some k, Some ([sq; pvn; fl], r2) =>
                match counted_pvs r2 with
                | Some (added, [TInt times]) =>
                    if (0 <=? times) && (times <=? 8)
                    then repeat_bmsg (Z.to_nat times) (add (new_packet k sq pvn fl) added)
                    else [sym "ERR"; sym "badtimes"]
                | _ => [sym "ERR"; sym "badadded"]
                end
            | _, _ => [sym "ERR"; sym "badbmsg"]
            end
        | [] => [sym "ERR"; sym "badbmsg"]
        end
      else if is_sym "hist" c then
        match parse_ops (S (length r)) r with
        | Some ops => sym "ok" :: flat_map step_toks (run init_dstate ops)
        | None => [sym "ERR"; sym "badops"]
        end
      else if is_sym "parse" c then
        match r with
        | [TBytes b] => frame_toks (parse_frame b)
        | _ => [sym "ERR"; sym "badparse"]
        end
      else if is_sym "trace" c then
        match parse_obs (S (length r)) r with
        | Some t =>
            match trace_check ghost0 0 t with
            | None => [sym "ok"]
            | Some (i, why) => [sym "bad"; TInt i; TInt why]
            end
        | None => [sym "ERR"; sym "badtrace"]
        end
      else [sym "ERR"; sym "badcmd"]
  | [] => [sym "ERR"; sym "empty"]
  end.

(* Base/Proto.parse_line uses the quadratic [rev]; frames are thousands of characters, so lines are
   split and hex tokens decoded with [rev_append] (same token language) *)
Fixpoint fsplit (cs cur : list Z) (acc : list (list Z)) : list (list Z) :=
  match cs with
  | [] => rev_append (match cur with [] => acc | _ => rev_append cur [] :: acc end) []
  | c :: r => if c =? 32 then fsplit r [] (match cur with [] => acc | _ => rev_append cur [] :: acc end)
              else fsplit r (c :: cur) acc
  end.
Fixpoint fhex (cs : list Z) (acc : list Z) : option (list Z) :=
  match cs with
  | [] => Some (rev_append acc [])
  | a :: b :: r => match hexval a, hexval b with
                   | Some x, Some y => fhex r (16 * x + y :: acc)
                   | _, _ => None
                   end
  | _ => None
  end.
Definition fparse_tok (w : list Z) : tok :=
  match w with
  | 120 :: r => match fhex r [] with Some bs => TBytes bs | None => TSym w end
  | _ => parse_tok w
  end.
Definition fparse_line (cs : list Z) : list tok := map fparse_tok (fsplit cs [] []).

Definition init_state : unit := tt.
Definition step_line (s : unit) (line : list Z) : unit * list Z := (s, print_line (handle (fparse_line line))).
Extraction "../ocaml/gen/c11_model.ml" init_state step_line.
