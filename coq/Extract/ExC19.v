(* Extract/ExC19.v — co-process entry points for the C19 correspondence (EnumMap model). *)
From Coq Require Import String.
From PV Require Import Base.Bytes Base.Proto Model.EnumMapDefs Model.EnumMap Gen.Tables Gen.Types Gen.Status.
From Coq Require Import ExtrOcamlBasic.
Open Scope string_scope.
Open Scope Z_scope.

Fixpoint find_table (ts : list (list Z * table)) (n : list Z) : option table :=
  match ts with
  | [] => None
  | (n', t) :: r => if zs_eqb n' n then Some t else find_table r n
  end.

(* keys on the wire:  s <text> | b <bytes> | i <int> | o <text>  *)
Definition key_of_toks (ts : list tok) : option (key * list tok) :=
  match ts with
  | k :: TText s :: r => if is_sym "s" k then Some (KStr s, r) else if is_sym "o" k then Some (KObj s, r) else None
  | k :: TBytes b :: r => if is_sym "b" k then Some (KBytes b, r) else None
  | k :: TInt z :: r => if is_sym "i" k then Some (KInt z, r) else None
  | _ => None
  end.
Definition toks_of_key (k : key) : list tok :=
  match k with
  | KStr s => [sym "s"; TText s]
  | KBytes b => [sym "b"; TBytes b]
  | KInt z => [sym "i"; TInt z]
  | KObj s => [sym "o"; TText s]
  end.
Definition toks_of_okey (k : option key) : list tok :=
  match k with Some k => toks_of_key k | None => [sym "none"] end.

(* commands:
     getitem <table> <key>            -> key | none (= KeyError)
     get <table> <key>                -> key | none
     getd <table> <key> <default key> -> key
     contains <table> <key>           -> 0/1
     gettype <code>                   -> key | none
     status <int>                     -> text
     merged <table>                   -> n then n x (key value)   (the whole _members_ dict, deduplicated view)
*)
Definition handle (ts : list tok) : list tok :=
  match ts with
  | cmd :: TText tn :: r =>
      match find_table all_tables tn with
      | None => [sym "ERR"; sym "notable"]
      | Some t =>
          match key_of_toks r with
          | None => [sym "ERR"; sym "badkey"]
          | Some (k, r') =>
              if is_sym "getitem" cmd then toks_of_okey (getitem type_codes t k)
              else if is_sym "get" cmd then toks_of_okey (get type_codes t k None)
              else if is_sym "getd" cmd then
                match key_of_toks r' with
                | Some (d, _) => toks_of_okey (get type_codes t k (Some d))
                | None => [sym "ERR"; sym "baddefault"]
                end
              else if is_sym "contains" cmd then [TInt (if contains type_codes t k then 1 else 0)]
              else [sym "ERR"; sym "badcmd"]
          end
      end
  | [cmd; TInt z] =>
      if is_sym "gettype" cmd then toks_of_okey (get_type type_codes tbl_DataTypes z)
      else if is_sym "status" cmd then [TText (get_service_status service_status z)]
      else [sym "ERR"; sym "badcmd"]
  | _ => [sym "ERR"; sym "badline"]
  end.

Definition init_state : unit := tt.
Definition step_line (s : unit) (line : list Z) : unit * list Z := (s, run_line handle line).

Extraction "../ocaml/gen/c19_model.ml" init_state step_line.
