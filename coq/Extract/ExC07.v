(* Extract/ExC07.v — co-process of the C07 check: the REFERENCE codec (Spec/Wire.v) and the guards
   (Proofs/CodecWireDefs.v) on the type/value term grammar of Extract/ExCodec.v (whose token parser
   is imported).  The codec MODEL itself runs in bin/modelrun_codec (`EXTRA_MODELS = ["Codec"]`).

     senc   <ty> <val>     -> ok <bytes> | none                    spec_encode
     sdec   <ty> <bytes>   -> ok <val> <rest> | bad | end | trunc  spec_decode
     wire   <ty>           -> 0/1   wire_ty
     encdev <ty> <val>     -> deviation class (0 = none)           enc_dev
     fixed  <ty>           -> width | -1                           sfixed
     codes                 -> n (code name width|-1){n}            spec_codes ++ spec_uncoded
     r32 <bits64> -> bits32 | none      r64 <bits32> -> bits64     Spec/WireFloat.v (Flocq) *)
From Coq Require Import String.
From PV Require Import Base.Bytes Base.Proto Base.Res Model.Codec Spec.WireFloat Spec.Wire Proofs.CodecWireDefs.
From PV Require Import Extract.ExCodec.
From Coq Require Import ExtrOcamlBasic.
Open Scope string_scope.
Open Scope Z_scope.

Definition print_sres (r : sres) : list tok :=
  match r with
  | SOk v rest => sym "ok" :: print_val v ++ [TBytes rest]
  | SBad => [sym "bad"]
  | SEnd => [sym "end"]
  | STrunc => [sym "trunc"]
  end.
Definition b2z (b : bool) : Z := if b then 1 else 0.

Definition print_codes (l : list code_row) : list tok :=
  Proto.TInt (Z.of_nat (length l))
  :: flat_map (fun r : code_row =>
                 let '(c, n, w, _) := r in
                 [Proto.TInt c; TSym (zs_of_string n); Proto.TInt (match w with Some k => Z.of_nat k | None => -1 end)]) l.

(* The REFERENCE reading of a class name: the hand-written table of Spec/Wire.v ([spec_codes],
   [spec_uncoded]), NOT the regenerated rows (through which Extract/ExCodec.v's parser, hence the
   model, resolves names): a changed format / length type / host type in the library moves the model
   but not the reference.  Names outside the table (Revision, ...) are resolved as the model does. *)
Fixpoint lookup_code_row (l : list code_row) (s : list Z) : option (option ty) :=
  match l with
  | [] => None
  | (_, n, _, t) :: r => if zs_eqb (zs_of_string n) s then Some t else lookup_code_row r s
  end.
Definition ref_named_ty (s : list Z) : option ty :=
  match lookup_code_row (spec_codes ++ spec_uncoded) s with
  | Some t => t
  | None => named_ty s
  end.

(* Extract/ExCodec.v's [parse_ty] with [ref_named_ty] for the leaves *)
Fixpoint parse_sty (fuel : nat) (ts : list tok) : option (ty * list tok) :=
  match fuel with
  | O => None
  | S f =>
      match ts with
      | TSym s :: r =>
          if zs_eqb s (zs_of_string "nbytes") then
            match r with Proto.TInt n :: r1 => Some (TNBytes n, r1) | _ => None end
          else if zs_eqb s (zs_of_string "arr") then
            match r with
            | Proto.TInt n :: r1 => match parse_sty f r1 with Some (e, r2) => Some (TArrFixed (Z.to_nat n) e, r2) | None => None end
            | _ => None
            end
          else if zs_eqb s (zs_of_string "arrp") then
            match r with
            | Proto.TInt i :: r1 =>
                match parse_sty f r1 with
                | Some (lt, r2) => match parse_sty f r2 with Some (e, r3) => Some (TArrPrefix (negb (i =? 0)) lt e, r3) | None => None end
                | None => None
                end
            | _ => None
            end
          else if zs_eqb s (zs_of_string "arrall") then
            match parse_sty f r with Some (e, r1) => Some (TArrAll e, r1) | None => None end
          else if zs_eqb s (zs_of_string "struct") then
            match r with
            | Proto.TInt k :: r1 =>
                match parse_n (fun ts => match parse_key ts with
                                         | Some (key, r) => match parse_sty f r with Some (t, r') => Some ((key, t), r') | None => None end
                                         | None => None
                                         end) (Z.to_nat k) r1 with
                | Some (ms, r2) => Some (TStruct SPlain ms, r2)
                | None => None
                end
            | _ => None
            end
          else if zs_eqb s (zs_of_string "fss") then
            match r with
            | Proto.TInt cap :: r1 =>
                match parse_sty f r1 with
                | Some (lt, Proto.TInt capacity :: r2) =>
                    match is_int_ty lt with Some (sg, w) => Some (TFixedStr (Z.to_nat cap) sg w (Z.to_nat capacity), r2) | None => None end
                | _ => None
                end
            | _ => None
            end
          else if zs_eqb s (zs_of_string "stag") then
            match r with
            | Proto.TInt k :: r1 =>
                match parse_n (fun ts => match parse_key ts with
                                         | Some (key, Proto.TInt off :: r) =>
                                             match parse_sty f r with Some (t, r') => Some (((key, Z.to_nat off), t), r') | None => None end
                                         | _ => None
                                         end) (Z.to_nat k) r1 with
                | Some (ms, Proto.TInt nb :: r2) =>
                    match parse_n (fun ts => match ts with
                                             | TText n :: Proto.TInt off :: Proto.TInt bit :: r => Some ((n, (Z.to_nat off, Z.to_nat bit)), r)
                                             | _ => None
                                             end) (Z.to_nat nb) r2 with
                    | Some (bits, Proto.TInt np :: r3) =>
                        match parse_n (fun ts => match ts with TText n :: r => Some (n, r) | _ => None end) (Z.to_nat np) r3 with
                        | Some (priv, Proto.TInt size :: r4) => Some (TStructTag ms bits priv (Z.to_nat size), r4)
                        | _ => None
                        end
                    | _ => None
                    end
                | _ => None
                end
            | _ => None
            end
          else match ref_named_ty s with Some t => Some (t, r) | None => None end
      | _ => None
      end
  end.

Definition handle7 (ts : list tok) : list tok :=
  let fuel := S (length ts) in
  match ts with
  | [cmd] => if is_sym "codes" cmd then print_codes (spec_codes ++ spec_uncoded) else bad
  | [cmd; Proto.TInt b] =>
      if is_sym "r32" cmd then match spec_real32_of_64 b with Some s => [Proto.TInt s] | None => [sym "none"] end
      else if is_sym "r64" cmd then [Proto.TInt (spec_real64_of_32 b)]
      else bad
  | cmd :: r =>
      match parse_sty fuel r with
      | None => bad
      | Some (t, r1) =>
          if is_sym "senc" cmd then
            match parse_val fuel r1 with
            | Some (v, []) => match spec_encode t v with Some bs => [sym "ok"; TBytes bs] | None => [sym "none"] end
            | _ => bad
            end
          else if is_sym "sdec" cmd then
            match r1 with [TBytes bs] => print_sres (spec_decode t bs) | _ => bad end
          else if is_sym "wire" cmd then match r1 with [] => [Proto.TInt (b2z (wire_ty t))] | _ => bad end
          else if is_sym "fixed" cmd then
            match r1 with [] => [Proto.TInt (match sfixed t with Some w => Z.of_nat w | None => -1 end)] | _ => bad end
          else if is_sym "encdev" cmd then
            match parse_val fuel r1 with Some (v, []) => [Proto.TInt (enc_dev t v)] | _ => bad end
          else bad
      end
  | [] => bad
  end.

Definition init_state : unit := tt.
Definition step_line (s : unit) (line : list Z) : unit * list Z := (s, print_line (handle7 (fparse_line line))).

Extraction "../ocaml/gen/c07_model.ml" init_state step_line.
