(* Extract/ExC18.v — co-process of C18: the SLC driver model (Model/Slc.v) and, separately, the
   reference side (Spec/SlcTarget.v: render, reference interpretation, the PCCC target with a live
   data table).  One line in, one line out.

   model:  parse <text>                                   -> tag <ft> <file> <elem> <pos|none> <sub|none> <af> <count> <name> | none | exn <code> | fuel
           readreq <vid> <vsn> <tns> <text>               -> ok <bytes> | exn <code> | fuel
           writereq <vid> <vsn> <tns> <text> <value>      -> ok <bytes> | exn <code> | fuel
           readfin <text> <raw>                           -> res <name> <type> <err text|none> <value|none> | noparse
           writefin <text> <raw> <value>                  -> res ... | noparse
   spec:   render <spelling> <addr>                       -> <text>
           wf <spelling> <addr>                           -> <wf_addr 0/1> <wf_spelling 0/1>
           reset | file <num> <ft> <ew> <words as bytes>  -> ok      (more <num> <words as bytes> appends: short lines parse fast)
           exec <message-router request bytes>            -> reply <bytes>          (table updated)
           lastcmd                                        -> cmd <fnc> <size> <file> <ft|?> <elem> <sub> <rest> | badaddr | garbage | nocmd
           dump <num>                                     -> file <ft> <ew> <words as bytes> | nofile
           files                                          -> <num>...
           refread <addr>                                 -> some <value> | none
           refwrite <addr> <value>                        -> some <words of the addressed file afterwards> | none
   directory (Model/SlcDir.v, Spec/SlcDirSpec.v):
   model:  sys0 <catalog text>                            -> sys0 <pos> <row> <file_type> <size_element> <size_len> <size_const|none> <queue|none>
           parsefile0 <catalog text> <image>              -> ok <n> (<name> <elements> <length>)*n | exn <code> | fuel
           parsefile0at <pos> <row> <image>               -> same (any position / row size)
           counts <image>                                 -> some <data files> <logic files> | none
           readdir <size> <chunk> <image>                 -> ok <data> <n> (<size> <offset>)*n | exn <code> | fuel
           dirreq <vid> <vsn> <tns> <catalog> <size> <offset> | sizereq <vid> <vsn> <tns> <catalog> | ptreq <vid> <vsn> <tns>  -> ok <bytes> | exn <code>
           sizeof <catalog> <raw>                         -> some <size> | none
           ptype <raw>                                    -> typ <text> | nonascii
   spec:   encdir <catalog> <hdr> (<type index> <num> <elements>)*   -> dir <image> <n> (<name> <elements> <length>)*n
           encrows <hdr> (f <type index> <elements> <fill> | r <fill> | o <code> <fill>)*  -> dir <image> <n> (...)*n
           family <catalog>                               -> fam <position> <row size>
   value:  i <int> | b <0/1> | f <bits> | l <n> <value>*n
   addr:   <ft symbol N B F L S I O T C> <file> <elem> <sub> <bit or -1> <count>
   spelling: <lower> <mnemonic lower flags as bytes> <pad file> <pad elem> <pad sub> <pad bit> <pad count> <flat> <iofile> <ioword> <count1> *)
From Coq Require Import String.
From PV Require Import Base.Bytes Base.Proto Base.Res Base.PyStr Model.Regex Model.SlcVal Model.Slc Spec.SlcTarget.
From PV Require Model.SlcDir Spec.SlcDirSpec.
From Coq Require Import ExtrOcamlBasic.
Open Scope string_scope.
Open Scope list_scope.
Open Scope Z_scope.

(* ---------------------------------------------------------------- values *)
Fixpoint toks_of_val (v : sval) : list tok :=
  match v with
  | VInt z => [sym "i"; TInt z]
  | VBool b => [sym "b"; TInt (if b then 1 else 0)]
  | VF32 bits => [sym "f"; TInt bits]
  | VList vs => sym "l" :: TInt (Z.of_nat (length vs)) :: flat_map toks_of_val vs
  end.

Definition scalar_of_toks (ts : list tok) : option (sval * list tok) :=
  match ts with
  | k :: TInt z :: r =>
      if is_sym "i" k then Some (VInt z, r)
      else if is_sym "b" k then Some (VBool (negb (z =? 0)), r)
      else if is_sym "f" k then Some (VF32 z, r)
      else None
  | _ => None
  end.
Fixpoint scalars_of_toks (n : nat) (ts : list tok) : option (list sval * list tok) :=
  match n with
  | O => Some ([], ts)
  | S n' => match scalar_of_toks ts with
            | Some (v, r) => match scalars_of_toks n' r with
                             | Some (vs, r') => Some (v :: vs, r')
                             | None => None
                             end
            | None => None
            end
  end.
Definition val_of_toks (ts : list tok) : option (sval * list tok) :=
  match ts with
  | k :: TInt n :: r =>
      if is_sym "l" k then
        match scalars_of_toks (Z.to_nat n) r with
        | Some (vs, r') => Some (VList vs, r')
        | None => None
        end
      else scalar_of_toks ts
  | _ => None
  end.

Definition toks_of_oz (o : option Z) : tok := match o with Some z => TInt z | None => sym "none" end.

(* ---------------------------------------------------------------- model side *)
Definition toks_of_pres (p : pres) : list tok :=
  match p with
  | PTag t => [sym "tag"; TText (t_file_type t); TInt (t_file_number t); TInt (t_element_number t);
               toks_of_oz (t_pos_number t); toks_of_oz (t_sub_element t); TInt (t_address_field t);
               TInt (t_element_count t); TText (t_tag t)]
  | PNone | PStop => [sym "none"]
  | PExn e => [sym "exn"; TInt (exn_code e)]
  | PFuel => [sym "fuel"]
  end.

Definition toks_of_rq (r : rq (tagd * bytes)) : list tok :=
  match r with
  | RqOk (_, b) => [sym "ok"; TBytes b]
  | RqErr e => [sym "exn"; TInt (exn_code e)]
  | RqFuel => [sym "fuel"]
  end.

Definition toks_of_tagres (r : tagres) : list tok :=
  [sym "res"; TText (tr_tag r); TText (tr_type r);
   match tr_error r with Some e => TText e | None => sym "none" end]
  ++ match tr_value r with Some v => toks_of_val v | None => [sym "none"] end.

(* ---------------------------------------------------------------- spec side *)
Definition ft_of_tok (t : tok) : option ftype :=
  if is_sym "N" t then Some FN else if is_sym "B" t then Some FB else if is_sym "F" t then Some FF
  else if is_sym "L" t then Some FL else if is_sym "S" t then Some FS else if is_sym "I" t then Some FI
  else if is_sym "O" t then Some FO else if is_sym "T" t then Some FT else if is_sym "C" t then Some FC
  else None.
Definition tok_of_ft (ft : ftype) : tok :=
  match ft with
  | FN => sym "N" | FB => sym "B" | FF => sym "F" | FL => sym "L" | FS => sym "S" | FI => sym "I"
  | FO => sym "O" | FT => sym "T" | FC => sym "C"
  end.

Definition addr_of_toks (ts : list tok) : option (addr * list tok) :=
  match ts with
  | f :: TInt file :: TInt elem :: TInt sub :: TInt bit :: TInt cnt :: r =>
      match ft_of_tok f with
      | Some ft => Some ({| a_ft := ft; a_file := file; a_elem := elem; a_sub := sub;
                            a_bit := if bit <? 0 then None else Some bit; a_count := cnt |}, r)
      | None => None
      end
  | _ => None
  end.

Definition nz (z : Z) : bool := negb (z =? 0).
Definition spelling_of_toks (ts : list tok) : option (spelling * list tok) :=
  match ts with
  | TInt lo :: TBytes mn :: TInt pf :: TInt pe :: TInt ps :: TInt pb :: TInt pc :: TInt fl :: TInt iof :: TInt iow :: TInt c1 :: r =>
      Some ({| sp_lower := nz lo; sp_mn_lower := map nz mn; sp_pad_file := Z.to_nat pf; sp_pad_elem := Z.to_nat pe;
               sp_pad_sub := Z.to_nat ps; sp_pad_bit := Z.to_nat pb; sp_pad_count := Z.to_nat pc;
               sp_flat_bit := nz fl; sp_io_file := nz iof; sp_io_word := nz iow; sp_count1 := nz c1 |}, r)
  | _ => None
  end.

Record state := { st_table : table; st_last : option cmd_parse }.
Definition init_state : state := {| st_table := []; st_last := None |}.

Definition b01 (b : bool) : tok := TInt (if b then 1 else 0).
Definition bad (s : string) : list tok := [sym "ERR"; sym s].

(* ---------------------------------------------------------------- the file directory *)
Module Dir.
Import Model.SlcDir Spec.SlcDirSpec.

Definition toks_of_ob (o : option bytes) : tok := match o with Some b => TBytes b | None => sym "none" end.
Definition toks_of_entries (es : list (text * (Z * Z))) : list tok :=
  TInt (Z.of_nat (length es)) :: flat_map (fun e => [TText (fst e); TInt (fst (snd e)); TInt (snd (snd e))]) es.
Definition toks_of_dres (r : dres) : list tok :=
  match r with
  | DOk d => sym "ok" :: toks_of_entries (map (fun kv => (fst kv, (fe_elements (snd kv), fe_length (snd kv)))) d)
  | DExn e => [sym "exn"; TInt (exn_code e)]
  | DFuel => [sym "fuel"]
  end.
Definition toks_of_rres (r : rres) : list tok :=
  match r with
  | ROk data reads => sym "ok" :: TBytes data :: TInt (Z.of_nat (length reads))
                      :: flat_map (fun so => [TInt (fst so); TInt (snd so)]) reads
  | RExn e => [sym "exn"; TInt (exn_code e)]
  | RFuel => [sym "fuel"]
  end.
Definition toks_of_resb (r : res bytes) : list tok :=
  match r with Ok b => [sym "ok"; TBytes b] | Err e => [sym "exn"; TInt (exn_code e)] end.

Definition dtype_of_idx (i : Z) : option dtype := nth_error all_dtypes (Z.to_nat i).

Fixpoint files_of_toks (fuel : nat) (ts : list tok) : option (list dfile) :=
  match ts with
  | [] => Some []
  | TInt ti :: TInt num :: TInt el :: r =>
      match fuel, dtype_of_idx ti with
      | S f, Some t => match files_of_toks f r with
                       | Some fs => Some ({| d_type := t; d_num := num; d_elements := el |} :: fs)
                       | None => None
                       end
      | _, _ => None
      end
  | _ => None
  end.

Fixpoint rows_of_toks (fuel : nat) (ts : list tok) : option (list row) :=
  match fuel with
  | O => match ts with [] => Some [] | _ => None end
  | S f =>
      match ts with
      | [] => Some []
      | k :: r =>
          if is_sym "f" k then
            match r with
            | TInt ti :: TInt el :: TBytes fill :: r' =>
                match dtype_of_idx ti, rows_of_toks f r' with
                | Some t, Some rows => Some (RFile t el fill :: rows)
                | _, _ => None
                end
            | _ => None
            end
          else if is_sym "r" k then
            match r with
            | TBytes fill :: r' => match rows_of_toks f r' with Some rows => Some (RReserved fill :: rows) | None => None end
            | _ => None
            end
          else if is_sym "o" k then
            match r with
            | TInt c :: TBytes fill :: r' => match rows_of_toks f r' with Some rows => Some (RForeign c fill :: rows) | None => None end
            | _ => None
            end
          else None
      end
  end.

Definition handle_dir (cmd : tok) (args : list tok) : option (list tok) :=
  if is_sym "sys0" cmd then
    match args with
    | [TText cat] =>
        let s := get_sys0_info cat in
        Some [sym "sys0"; TInt (s_file_position s); TInt (s_row_size s); TBytes (s_file_type s); TBytes (s_size_element s);
              TBytes (s_size_len s); toks_of_oz (s_size_const s); toks_of_ob (s_file_type_queue s)]
    | _ => Some (bad "args")
    end
  else if is_sym "parsefile0" cmd then
    match args with
    | [TText cat; TBytes data] => Some (toks_of_dres (parse_file0 (get_sys0_info cat) data))
    | _ => Some (bad "args")
    end
  else if is_sym "parsefile0at" cmd then
    match args with
    | [TInt pos; TInt rs; TBytes data] => Some (toks_of_dres (parse_file0_at (Z.to_nat pos) (Z.to_nat rs) data))
    | _ => Some (bad "args")
    end
  else if is_sym "counts" cmd then
    match args with
    | [TBytes data] => Some (match file0_counts data with Some (a, b) => [sym "some"; TInt a; TInt b] | None => [sym "none"] end)
    | _ => Some (bad "args")
    end
  else if is_sym "readdir" cmd then
    match args with
    | [TInt size; TInt chunk; TBytes image] =>
        Some (toks_of_rres (read_loop (S (Z.to_nat size)) chunk size (serve_image image) [] 0 []))
    | _ => Some (bad "args")
    end
  else if is_sym "dirreq" cmd then
    match args with
    | [TBytes vid; TBytes vsn; TInt tns; TText cat; TInt size; TInt off] =>
        Some (toks_of_resb (dir_read_request {| c_vid := vid; c_vsn := vsn |} tns (get_sys0_info cat) size off))
    | _ => Some (bad "args")
    end
  else if is_sym "sizereq" cmd then
    match args with
    | [TBytes vid; TBytes vsn; TInt tns; TText cat] =>
        Some (toks_of_resb (dir_size_request {| c_vid := vid; c_vsn := vsn |} tns (get_sys0_info cat)))
    | _ => Some (bad "args")
    end
  else if is_sym "ptreq" cmd then
    match args with
    | [TBytes vid; TBytes vsn; TInt tns] => Some (toks_of_resb (proc_type_request {| c_vid := vid; c_vsn := vsn |} tns))
    | _ => Some (bad "args")
    end
  else if is_sym "sizeof" cmd then
    match args with
    | [TText cat; TBytes raw] =>
        Some (match dir_size_of_reply (get_sys0_info cat) raw with Some z => [sym "some"; TInt z] | None => [sym "none"] end)
    | _ => Some (bad "args")
    end
  else if is_sym "ptype" cmd then
    match args with
    | [TBytes raw] => Some (match proc_type_of_reply raw with PTyp s => [sym "typ"; TText s] | PNonAscii => [sym "nonascii"] end)
    | _ => Some (bad "args")
    end
  else if is_sym "encdir" cmd then
    match args with
    | TText cat :: TBytes hdr :: r =>
        match files_of_toks (length r) r with
        | Some fs => Some (sym "dir" :: TBytes (encode_dir (family_of_catalog cat) hdr fs) :: toks_of_entries (dir_view fs))
        | None => Some (bad "files")
        end
    | _ => Some (bad "args")
    end
  else if is_sym "encrows" cmd then
    match args with
    | TBytes hdr :: r =>
        match rows_of_toks (length r) r with
        | Some rows => Some (sym "dir" :: TBytes (encode_rows hdr rows) :: toks_of_entries (number_rows 0 rows))
        | None => Some (bad "rows")
        end
    | _ => Some (bad "args")
    end
  else if is_sym "family" cmd then
    match args with
    | [TText cat] => let f := family_of_catalog cat in
                     Some [sym "fam"; TInt (Z.of_nat (fam_position f)); TInt (Z.of_nat (fam_row f))]
    | _ => Some (bad "args")
    end
  else None.
End Dir.

Definition handle (st : state) (ts : list tok) : state * list tok :=
  match ts with
  | [] => (st, bad "empty")
  | cmd :: args =>
      if is_sym "parse" cmd then
        match args with
        | [TText s] => (st, toks_of_pres (parse_tag s))
        | _ => (st, bad "args")
        end
      else if is_sym "readreq" cmd then
        match args with
        | [TBytes vid; TBytes vsn; TInt tns; TText s] =>
            (st, toks_of_rq (read_tag_request {| c_vid := vid; c_vsn := vsn |} tns s))
        | _ => (st, bad "args")
        end
      else if is_sym "writereq" cmd then
        match args with
        | TBytes vid :: TBytes vsn :: TInt tns :: TText s :: vt =>
            match val_of_toks vt with
            | Some (v, []) => (st, toks_of_rq (write_tag_request {| c_vid := vid; c_vsn := vsn |} tns s v))
            | _ => (st, bad "value")
            end
        | _ => (st, bad "args")
        end
      else if is_sym "readfin" cmd then
        match args with
        | [TText s; TBytes raw] =>
            match parse_tag s with
            | PTag t => (st, toks_of_tagres (read_tag_finish t raw))
            | _ => (st, [sym "noparse"])
            end
        | _ => (st, bad "args")
        end
      else if is_sym "writefin" cmd then
        match args with
        | TText s :: TBytes raw :: vt =>
            match val_of_toks vt, parse_tag s with
            | Some (v, []), PTag t => (st, toks_of_tagres (write_tag_finish t v raw))
            | Some (_, []), _ => (st, [sym "noparse"])
            | _, _ => (st, bad "value")
            end
        | _ => (st, bad "args")
        end
      else if is_sym "render" cmd then
        match spelling_of_toks args with
        | Some (sp, r) => match addr_of_toks r with
                          | Some (a, []) => (st, [TText (render sp a)])
                          | _ => (st, bad "addr")
                          end
        | None => (st, bad "spelling")
        end
      else if is_sym "wf" cmd then
        match spelling_of_toks args with
        | Some (sp, r) => match addr_of_toks r with
                          | Some (a, []) => (st, [b01 (wf_addr a); b01 (wf_spelling sp a)])
                          | _ => (st, bad "addr")
                          end
        | None => (st, bad "spelling")
        end
      else if is_sym "reset" cmd then (init_state, [sym "ok"])
      else if is_sym "file" cmd then
        match args with
        | [TInt num; f; TInt ew; TBytes ws] =>
            match ft_of_tok f with
            | Some ft =>
                let fl := {| df_num := num; df_ft := ft; df_ew := ew; df_words := bytes_to_words ws |} in
                ({| st_table := st_table st ++ [fl]; st_last := st_last st |}, [sym "ok"])
            | None => (st, bad "ftype")
            end
        | _ => (st, bad "args")
        end
      else if is_sym "more" cmd then
        match args with
        | [TInt num; TBytes ws] =>
            let add := bytes_to_words ws in
            ({| st_table := map (fun f => if df_num f =? num then set_words f (df_words f ++ add) else f) (st_table st);
                st_last := st_last st |}, [sym "ok"])
        | _ => (st, bad "args")
        end
      else if is_sym "exec" cmd then
        match args with
        | [TBytes req] =>
            let '(t', rep) := exec_mr (st_table st) req in
            let last := match req with
                        | _ :: psz :: r => Some (parse_cmd (skipn (Z.to_nat (2 * psz)) r))
                        | _ => None
                        end in
            ({| st_table := t'; st_last := last |}, [sym "reply"; TBytes rep])
        | _ => (st, bad "args")
        end
      else if is_sym "lastcmd" cmd then
        match st_last st with
        | None => (st, [sym "nocmd"])
        | Some CmdGarbage => (st, [sym "garbage"])
        | Some (CmdBadAddr _ _ _) => (st, [sym "badaddr"])
        | Some (CmdOk c) =>
            (st, [sym "cmd"; TInt (pc_fnc c); TInt (pc_size c); TInt (pc_file c);
                  match ftype_of_code (pc_type c) with Some ft => tok_of_ft ft | None => sym "?" end;
                  TInt (pc_elem c); TInt (pc_sub c); TBytes (pc_rest c); TBytes (pc_rid c); TInt (pc_cmd c); TBytes (pc_tns c)])
        end
      else if is_sym "dump" cmd then
        match args with
        | [TInt num] =>
            match find_file (st_table st) num with
            | Some f => (st, [sym "file"; tok_of_ft (df_ft f); TInt (df_ew f); TBytes (words_to_bytes (df_words f))])
            | None => (st, [sym "nofile"])
            end
        | _ => (st, bad "args")
        end
      else if is_sym "files" cmd then (st, sym "files" :: map (fun f => TInt (df_num f)) (st_table st))
      else if is_sym "tableok" cmd then (st, [b01 (table_ok (st_table st))])
      else if is_sym "refread" cmd then
        match addr_of_toks args with
        | Some (a, []) => match ref_read (st_table st) a with
                          | Some v => (st, sym "some" :: toks_of_val v)
                          | None => (st, [sym "none"])
                          end
        | _ => (st, bad "addr")
        end
      else if is_sym "refwrite" cmd then
        match addr_of_toks args with
        | Some (a, vt) =>
            match val_of_toks vt with
            | Some (v, []) =>
                match ref_write (st_table st) a v with
                | Some t' => match find_file t' (a_file a) with
                             | Some f => (st, [sym "some"; TBytes (words_to_bytes (df_words f))])
                             | None => (st, [sym "none"])
                             end
                | None => (st, [sym "none"])
                end
            | _ => (st, bad "value")
            end
        | None => (st, bad "addr")
        end
      else match Dir.handle_dir cmd args with
           | Some out => (st, out)
           | None => (st, bad "cmd")
           end
  end.

Definition step_line (st : state) (line : list Z) : state * list Z :=
  let '(st', out) := handle st (parse_line line) in (st', print_line out).

Extraction "../ocaml/gen/c18_model.ml" init_state step_line.
