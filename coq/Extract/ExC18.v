(* Extract/ExC18.v — co-process of C18: the SLC driver model (Model/Slc.v) and, separately, the
   reference side (Spec/SlcTarget.v: render, reference interpretation, the PCCC target with a live
   data table).  One line in, one line out.

   model:  parse <text>                                   -> tag <ft> <file> <elem> <pos|none> <sub|none> <af> <count> <name> | none | exn <code> | fuel
           readreq <vid> <vsn> <tns> <text>               -> ok <bytes> | exn <code> | fuel
           writereq <vid> <vsn> <tns> <text> <value>      -> ok <bytes> | exn <code> | fuel
           readfin <text> <raw>                           -> res <name> <type> <err text|none> <value|none> | noparse
           writefin <text> <raw> <value>                  -> res ... | noparse
   spec:   render <spelling> <addr>                       -> <text>
           wf <spelling> <addr>                           -> <wf_addr 0/1> <wf_spelling 0/1>
           reset | file <num> <ft> <ew> <words as bytes>  -> ok      (more <num> <words as bytes> appends: short lines parse fast)
           exec <message-router request bytes>            -> reply <bytes>          (table updated)
           lastcmd                                        -> cmd <fnc> <size> <file> <ft|?> <elem> <sub> <rest> | badaddr | garbage | nocmd
           dump <num>                                     -> file <ft> <ew> <words as bytes> | nofile
           files                                          -> <num>...
           refread <addr>                                 -> some <value> | none
           refwrite <addr> <value>                        -> some <words of the addressed file afterwards> | none
   value:  i <int> | b <0/1> | f <bits> | l <n> <value>*n
   addr:   <ft symbol N B F L S I O T C> <file> <elem> <sub> <bit or -1> <count>
   spelling: <lower> <mnemonic lower flags as bytes> <pad file> <pad elem> <pad sub> <pad bit> <pad count> <flat> <iofile> <ioword> <count1> *)
From Coq Require Import String.
From PV Require Import Base.Bytes Base.Proto Base.Res Base.PyStr Model.Regex Model.SlcVal Model.Slc Spec.SlcTarget.
From Coq Require Import ExtrOcamlBasic.
Open Scope string_scope.
Open Scope list_scope.
Open Scope Z_scope.

(* ---------------------------------------------------------------- values *)
Fixpoint toks_of_val (v : sval) : list tok :=
  match v with
  | VInt z => [sym "i"; TInt z]
  | VBool b => [sym "b"; TInt (if b then 1 else 0)]
  | VF32 bits => [sym "f"; TInt bits]
  | VList vs => sym "l" :: TInt (Z.of_nat (length vs)) :: flat_map toks_of_val vs
  end.

Definition scalar_of_toks (ts : list tok) : option (sval * list tok) :=
  match ts with
  | k :: TInt z :: r =>
      if is_sym "i" k then Some (VInt z, r)
      else if is_sym "b" k then Some (VBool (negb (z =? 0)), r)
      else if is_sym "f" k then Some (VF32 z, r)
      else None
  | _ => None
  end.
Fixpoint scalars_of_toks (n : nat) (ts : list tok) : option (list sval * list tok) :=
  match n with
  | O => Some ([], ts)
  | S n' => match scalar_of_toks ts with
            | Some (v, r) => match scalars_of_toks n' r with
                             | Some (vs, r') => Some (v :: vs, r')
                             | None => None
                             end
            | None => None
            end
  end.
Definition val_of_toks (ts : list tok) : option (sval * list tok) :=
  match ts with
  | k :: TInt n :: r =>
      if is_sym "l" k then
        match scalars_of_toks (Z.to_nat n) r with
        | Some (vs, r') => Some (VList vs, r')
        | None => None
        end
      else scalar_of_toks ts
  | _ => None
  end.

Definition toks_of_oz (o : option Z) : tok := match o with Some z => TInt z | None => sym "none" end.

(* ---------------------------------------------------------------- model side *)
Definition toks_of_pres (p : pres) : list tok :=
  match p with
  | PTag t => [sym "tag"; TText (t_file_type t); TInt (t_file_number t); TInt (t_element_number t);
               toks_of_oz (t_pos_number t); toks_of_oz (t_sub_element t); TInt (t_address_field t);
               TInt (t_element_count t); TText (t_tag t)]
  | PNone | PStop => [sym "none"]
  | PExn e => [sym "exn"; TInt (exn_code e)]
  | PFuel => [sym "fuel"]
  end.

Definition toks_of_rq (r : rq (tagd * bytes)) : list tok :=
  match r with
  | RqOk (_, b) => [sym "ok"; TBytes b]
  | RqErr e => [sym "exn"; TInt (exn_code e)]
  | RqFuel => [sym "fuel"]
  end.

Definition toks_of_tagres (r : tagres) : list tok :=
  [sym "res"; TText (tr_tag r); TText (tr_type r);
   match tr_error r with Some e => TText e | None => sym "none" end]
  ++ match tr_value r with Some v => toks_of_val v | None => [sym "none"] end.

(* ---------------------------------------------------------------- spec side *)
Definition ft_of_tok (t : tok) : option ftype :=
  if is_sym "N" t then Some FN else if is_sym "B" t then Some FB else if is_sym "F" t then Some FF
  else if is_sym "L" t then Some FL else if is_sym "S" t then Some FS else if is_sym "I" t then Some FI
  else if is_sym "O" t then Some FO else if is_sym "T" t then Some FT else if is_sym "C" t then Some FC
  else None.
Definition tok_of_ft (ft : ftype) : tok :=
  match ft with
  | FN => sym "N" | FB => sym "B" | FF => sym "F" | FL => sym "L" | FS => sym "S" | FI => sym "I"
  | FO => sym "O" | FT => sym "T" | FC => sym "C"
  end.

Definition addr_of_toks (ts : list tok) : option (addr * list tok) :=
  match ts with
  | f :: TInt file :: TInt elem :: TInt sub :: TInt bit :: TInt cnt :: r =>
      match ft_of_tok f with
      | Some ft => Some ({| a_ft := ft; a_file := file; a_elem := elem; a_sub := sub;
                            a_bit := if bit <? 0 then None else Some bit; a_count := cnt |}, r)
      | None => None
      end
  | _ => None
  end.

Definition nz (z : Z) : bool := negb (z =? 0).
Definition spelling_of_toks (ts : list tok) : option (spelling * list tok) :=
  match ts with
  | TInt lo :: TBytes mn :: TInt pf :: TInt pe :: TInt ps :: TInt pb :: TInt pc :: TInt fl :: TInt iof :: TInt iow :: TInt c1 :: r =>
      Some ({| sp_lower := nz lo; sp_mn_lower := map nz mn; sp_pad_file := Z.to_nat pf; sp_pad_elem := Z.to_nat pe;
               sp_pad_sub := Z.to_nat ps; sp_pad_bit := Z.to_nat pb; sp_pad_count := Z.to_nat pc;
               sp_flat_bit := nz fl; sp_io_file := nz iof; sp_io_word := nz iow; sp_count1 := nz c1 |}, r)
  | _ => None
  end.

Record state := { st_table : table; st_last : option cmd_parse }.
Definition init_state : state := {| st_table := []; st_last := None |}.

Definition b01 (b : bool) : tok := TInt (if b then 1 else 0).
Definition bad (s : string) : list tok := [sym "ERR"; sym s].

Definition handle (st : state) (ts : list tok) : state * list tok :=
  match ts with
  | [] => (st, bad "empty")
  | cmd :: args =>
      if is_sym "parse" cmd then
        match args with
        | [TText s] => (st, toks_of_pres (parse_tag s))
        | _ => (st, bad "args")
        end
      else if is_sym "readreq" cmd then
        match args with
        | [TBytes vid; TBytes vsn; TInt tns; TText s] =>
            (st, toks_of_rq (read_tag_request {| c_vid := vid; c_vsn := vsn |} tns s))
        | _ => (st, bad "args")
        end
      else if is_sym "writereq" cmd then
        match args with
        | TBytes vid :: TBytes vsn :: TInt tns :: TText s :: vt =>
            match val_of_toks vt with
            | Some (v, []) => (st, toks_of_rq (write_tag_request {| c_vid := vid; c_vsn := vsn |} tns s v))
            | _ => (st, bad "value")
            end
        | _ => (st, bad "args")
        end
      else if is_sym "readfin" cmd then
        match args with
        | [TText s; TBytes raw] =>
            match parse_tag s with
            | PTag t => (st, toks_of_tagres (read_tag_finish t raw))
            | _ => (st, [sym "noparse"])
            end
        | _ => (st, bad "args")
        end
      else if is_sym "writefin" cmd then
        match args with
        | TText s :: TBytes raw :: vt =>
            match val_of_toks vt, parse_tag s with
            | Some (v, []), PTag t => (st, toks_of_tagres (write_tag_finish t v raw))
            | Some (_, []), _ => (st, [sym "noparse"])
            | _, _ => (st, bad "value")
            end
        | _ => (st, bad "args")
        end
      else if is_sym "render" cmd then
        match spelling_of_toks args with
        | Some (sp, r) => match addr_of_toks r with
                          | Some (a, []) => (st, [TText (render sp a)])
                          | _ => (st, bad "addr")
                          end
        | None => (st, bad "spelling")
        end
      else if is_sym "wf" cmd then
        match spelling_of_toks args with
        | Some (sp, r) => match addr_of_toks r with
                          | Some (a, []) => (st, [b01 (wf_addr a); b01 (wf_spelling sp a)])
                          | _ => (st, bad "addr")
                          end
        | None => (st, bad "spelling")
        end
      else if is_sym "reset" cmd then (init_state, [sym "ok"])
      else if is_sym "file" cmd then
        match args with
        | [TInt num; f; TInt ew; TBytes ws] =>
            match ft_of_tok f with
            | Some ft =>
                let fl := {| df_num := num; df_ft := ft; df_ew := ew; df_words := bytes_to_words ws |} in
                ({| st_table := st_table st ++ [fl]; st_last := st_last st |}, [sym "ok"])
            | None => (st, bad "ftype")
            end
        | _ => (st, bad "args")
        end
      else if is_sym "more" cmd then
        match args with
        | [TInt num; TBytes ws] =>
            let add := bytes_to_words ws in
            ({| st_table := map (fun f => if df_num f =? num then set_words f (df_words f ++ add) else f) (st_table st);
                st_last := st_last st |}, [sym "ok"])
        | _ => (st, bad "args")
        end
      else if is_sym "exec" cmd then
        match args with
        | [TBytes req] =>
            let '(t', rep) := exec_mr (st_table st) req in
            let last := match req with
                        | _ :: psz :: r => Some (parse_cmd (skipn (Z.to_nat (2 * psz)) r))
                        | _ => None
                        end in
            ({| st_table := t'; st_last := last |}, [sym "reply"; TBytes rep])
        | _ => (st, bad "args")
        end
      else if is_sym "lastcmd" cmd then
        match st_last st with
        | None => (st, [sym "nocmd"])
        | Some CmdGarbage => (st, [sym "garbage"])
        | Some (CmdBadAddr _ _ _) => (st, [sym "badaddr"])
        | Some (CmdOk c) =>
            (st, [sym "cmd"; TInt (pc_fnc c); TInt (pc_size c); TInt (pc_file c);
                  match ftype_of_code (pc_type c) with Some ft => tok_of_ft ft | None => sym "?" end;
                  TInt (pc_elem c); TInt (pc_sub c); TBytes (pc_rest c); TBytes (pc_rid c); TInt (pc_cmd c); TBytes (pc_tns c)])
        end
      else if is_sym "dump" cmd then
        match args with
        | [TInt num] =>
            match find_file (st_table st) num with
            | Some f => (st, [sym "file"; tok_of_ft (df_ft f); TInt (df_ew f); TBytes (words_to_bytes (df_words f))])
            | None => (st, [sym "nofile"])
            end
        | _ => (st, bad "args")
        end
      else if is_sym "files" cmd then (st, sym "files" :: map (fun f => TInt (df_num f)) (st_table st))
      else if is_sym "tableok" cmd then (st, [b01 (table_ok (st_table st))])
      else if is_sym "refread" cmd then
        match addr_of_toks args with
        | Some (a, []) => match ref_read (st_table st) a with
                          | Some v => (st, sym "some" :: toks_of_val v)
                          | None => (st, [sym "none"])
                          end
        | _ => (st, bad "addr")
        end
      else if is_sym "refwrite" cmd then
        match addr_of_toks args with
        | Some (a, vt) =>
            match val_of_toks vt with
            | Some (v, []) =>
                match ref_write (st_table st) a v with
                | Some t' => match find_file t' (a_file a) with
                             | Some f => (st, [sym "some"; TBytes (words_to_bytes (df_words f))])
                             | None => (st, [sym "none"])
                             end
                | None => (st, [sym "none"])
                end
            | _ => (st, bad "value")
            end
        | None => (st, bad "addr")
        end
      else (st, bad "cmd")
  end.

Definition step_line (st : state) (line : list Z) : state * list Z :=
  let '(st', out) := handle st (parse_line line) in (st', print_line out).

Extraction "../ocaml/gen/c18_model.ml" init_state step_line.
