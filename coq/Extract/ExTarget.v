(* Extract/ExTarget.v — the whole reference target as a co-process (bin/modelrun_target):
   T1's core ([Spec/TargetProto.core_step_line]) with the Logix handler of Spec/TargetLogix.v and
   the extra commands below (all parsing in Gallina).  Names and request strings are byte tokens
   (x<hex>) or text tokens (u<hex6>).

     tmpl <id> <handle> <size> <defsize|0> <name> <tail | none> { | m <name> a|s|o <code|tid|word> <arr> <off> <bit> <hidden 0/1> }*
     tag <name> <inst> c | p <program>  a|s|o <code|tid|word> <bitpos> <system 0/1> <access> <attr3> <attr5> <attr6> <dim>*
     prog <name> <inst> <type word>          = tag "Program:<name>" c o <type word> ...
     mem <inst> <bytes>
     policy page|frag|tmpl <int>*   |  policy booltrue <int>  |  policy arraybit <0/1>
     clearproject                            drops templates, tags and memory (policies, core state kept)
     wf                                      -> ok <wf_project 0/1> <wf_mem 0/1> | <id of a bad template>* | <instance of a bad tag>*
     parsereq <text>                         -> ok <program | none> <bit | -1> <count | -1> { | <name> <idx>* }*   | none
     refread <text>                          -> ok <type name> <count, 0 = single value> <value>   | none
     refwrite <text> <value>                 -> ok <inst> <image after the write>   | none      (the state is NOT changed)
     view tags                               -> ok { | tag <name> <inst> a|s|o <code|tid|word> <bitpos> <access> <alias 0/1> <attr3> <attr5> <attr6> <dim>* }*
     view types                              -> ok { | type <id> <name> <handle> <size> <defsize> <member count> <string capacity | -1>
                                                       { m <name> a|s|o <code|tid|word> <arr> <off> <bit | -1> }* }*
     view programs                           -> ok { | prog <name> <inst> <routine>* }* { | task <name> <inst> }*
     dump mem <inst>                         -> ok <bytes> | none
     dump mem                                -> ok { | <inst> <bytes> }*
     mr <capacity> <service> <path> <data>   -> ok <status> <data> <ext>* { | <event> }*     (the handler alone, state updated)
   value tokens:  i <int> | b <0/1> | r <binary32 bits> | l <binary64 bits> | s <bytes/text>
                  | S <n> (<name> <value>) x n | L <n> <value> x n *)
From Coq Require Import String.
From PV Require Import Base.Bytes Base.Proto Base.PyStr Spec.EncapParser Spec.MRParser Spec.TargetIface
  Spec.TargetCore Spec.TargetProto Spec.Project Spec.Expect Spec.TargetLogix.
From Coq Require Import ExtrOcamlBasic.
Open Scope string_scope.
Open Scope list_scope.
Open Scope Z_scope.

Definition logix_lens : basic_lens lstate := {| bl_get := ls_basic; bl_put := set_basic |}.

(* ---------------------------------------------------------------- token helpers *)
Definition tok_text (t : tok) : option text :=
  match t with TBytes b => Some b | TText c => Some c | _ => None end.
Definition name_tok (n : text) : tok := if bytes_ok n then TBytes n else TText n.
Definition bool_tok (b : bool) : tok := TInt (if b then 1 else 0).
Definition none_ : list tok := [sym "none"].

Definition parse_ty (k : tok) (v : Z) : option base_ty :=
  if is_sym "a" k then Some (BAtom v) else if is_sym "s" k then Some (BStruct v)
  else if is_sym "o" k then Some (BOpaque v) else None.
Definition ty_toks (ty : base_ty) : list tok :=
  match ty with
  | BAtom c => [sym "a"; TInt c]
  | BStruct t => [sym "s"; TInt t]
  | BOpaque w => [sym "o"; TInt w]
  end.

(* split on "|" tokens *)
Fixpoint split_bar (ts : list tok) (cur : list tok) (acc : list (list tok)) : list (list tok) :=
  match ts with
  | [] => rev_append acc [rev_append cur []]
  | t :: r => if is_sym "|" t then split_bar r [] (rev_append cur [] :: acc) else split_bar r (t :: cur) acc
  end.

(* ---------------------------------------------------------------- values *)
Fixpoint parse_value (fuel : nat) (ts : list tok) {struct fuel} : option (rvalue * list tok) :=
  match fuel with
  | O => None
  | S f =>
      let fix many (n : nat) (ts : list tok) : option (list rvalue * list tok) :=
        match n with
        | O => Some ([], ts)
        | S n' => match parse_value f ts with
                  | Some (v, r) => match many n' r with Some (vs, r') => Some (v :: vs, r') | None => None end
                  | None => None
                  end
        end in
      let fix fields (n : nat) (ts : list tok) : option (list (text * rvalue) * list tok) :=
        match n with
        | O => Some ([], ts)
        | S n' => match ts with
                  | nt :: r0 =>
                      match tok_text nt, parse_value f r0 with
                      | Some nm, Some (v, r) =>
                          match fields n' r with Some (vs, r') => Some ((nm, v) :: vs, r') | None => None end
                      | _, _ => None
                      end
                  | [] => None
                  end
        end in
      match ts with
      | k :: TInt z :: r =>
          if is_sym "i" k then Some (RInt z, r)
          else if is_sym "b" k then Some (RBool (negb (z =? 0)), r)
          else if is_sym "r" k then Some (RReal z, r)
          else if is_sym "l" k then Some (RLReal z, r)
          else if (z <? 0) || (Z.of_nat (length r) <? z) then None
          else if is_sym "L" k then
            match many (Z.to_nat z) r with Some (vs, r') => Some (RList vs, r') | None => None end
          else if is_sym "S" k then
            match fields (Z.to_nat z) r with Some (fs, r') => Some (RStruct fs, r') | None => None end
          else None
      | k :: t :: r =>
          if is_sym "s" k then match tok_text t with Some cs => Some (RStr cs, r) | None => None end else None
      | _ => None
      end
  end.

Fixpoint value_toks (fuel : nat) (v : rvalue) {struct fuel} : list tok :=
  match fuel with
  | O => [sym "deep"]
  | S f =>
      match v with
      | RInt z => [sym "i"; TInt z]
      | RBool b => [sym "b"; bool_tok b]
      | RReal z => [sym "r"; TInt z]
      | RLReal z => [sym "l"; TInt z]
      | RStr cs => [sym "s"; name_tok cs]
      | RList vs => sym "L" :: TInt (Z.of_nat (length vs)) :: flat_map (value_toks f) vs
      | RStruct fs => sym "S" :: TInt (Z.of_nat (length fs))
                      :: flat_map (fun nv => name_tok (fst nv) :: value_toks f (snd nv)) fs
      end
  end.
Definition VALUE_FUEL : nat := 64.

(* ---------------------------------------------------------------- project loading *)
Definition parse_member (ts : list tok) : option member :=
  match ts with
  | [m; nt; k; TInt v; TInt arr; TInt off; TInt bit; TInt hid] =>
      if is_sym "m" m then
        match tok_text nt, parse_ty k v with
        | Some n, Some ty => Some (mkMember n ty arr off bit (negb (hid =? 0)))
        | _, _ => None
        end
      else None
  | _ => None
  end.

Definition cmd_tmpl (args : list tok) : option template :=
  match split_bar args [] [] with
  | [TInt id; TInt handle; TInt size; TInt defsize; nt; tt_] :: ms =>
      match tok_text nt, all_some (map parse_member ms) with
      | Some n, Some members =>
          let tail := if is_sym "none" tt_ then Some None
                      else match tok_text tt_ with Some s => Some (Some s) | None => None end in
          match tail with
          | Some tl => Some (mkTemplate n tl id handle size defsize members)
          | None => None
          end
      | _, _ => None
      end
  | _ => None
  end.

Definition cmd_tag (args : list tok) : option tagdef :=
  match args with
  | nt :: TInt inst :: sc :: r =>
      let scp := if is_sym "c" sc then Some (ScCtrl, r)
                 else if is_sym "p" sc then
                   match r with
                   | pt :: r' => match tok_text pt with Some pn => Some (ScProg pn, r') | None => None end
                   | [] => None
                   end
                 else None in
      match tok_text nt, scp with
      | Some n, Some (scope_, k :: TInt v :: TInt bitpos :: TInt sys :: TInt access :: TInt a3 :: TInt a5 :: TInt a6 :: dims) =>
          match parse_ty k v, ints_of dims with
          | Some ty, Some ds => Some (mkTag n inst scope_ ty ds bitpos (negb (sys =? 0)) access a3 a5 a6)
          | _, _ => None
          end
      | _, _ => None
      end
  | _ => None
  end.

Definition add_tag (g : tagdef) (s : lstate) : lstate :=
  set_proj (mkProject (p_templates (ls_proj s)) (insert_tag g (p_tags (ls_proj s)))) s.
Definition add_template (t : template) (s : lstate) : lstate :=
  set_proj (mkProject (p_templates (ls_proj s) ++ [t]) (p_tags (ls_proj s))) s.

Definition cmd_policy (args : list tok) (o : policy) : option policy :=
  match args with
  | k :: r =>
      match ints_of r with
      | None => None
      | Some l =>
          if is_sym "page" k then Some (mkPolicy l (po_frag o) (po_tmpl o) (po_bool_true o) (po_array_bit o))
          else if is_sym "frag" k then Some (mkPolicy (po_page o) l (po_tmpl o) (po_bool_true o) (po_array_bit o))
          else if is_sym "tmpl" k then Some (mkPolicy (po_page o) (po_frag o) l (po_bool_true o) (po_array_bit o))
          else match l with
               | [v] =>
                   if is_sym "booltrue" k then Some (mkPolicy (po_page o) (po_frag o) (po_tmpl o) v (po_array_bit o))
                   else if is_sym "arraybit" k then Some (mkPolicy (po_page o) (po_frag o) (po_tmpl o) (po_bool_true o) (negb (v =? 0)))
                   else None
               | _ => None
               end
      end
  | [] => None
  end.

(* ---------------------------------------------------------------- views *)
Definition vtag_toks (t : vtag) : list tok :=
  [sym "tag"; name_tok (vt_name t); TInt (vt_inst t)] ++ ty_toks (vt_ty t)
  ++ [TInt (vt_bitpos t); TInt (vt_access t); bool_tok (vt_alias t); TInt (vt_attr3 t); TInt (vt_attr5 t); TInt (vt_attr6 t)]
  ++ map TInt (vt_dims t).
Definition vmember_toks (m : vmember) : list tok :=
  [sym "m"; name_tok (vm_name m)] ++ ty_toks (vm_ty m)
  ++ [TInt (vm_arr m); TInt (vm_off m); TInt (match vm_bit m with Some b => b | None => -1 end)].
Definition vtype_toks (t : vtype) : list tok :=
  [sym "type"; TInt (vy_id t); name_tok (vy_name t); TInt (vy_handle t); TInt (vy_size t); TInt (vy_defsize t);
   TInt (vy_count t); TInt (match vy_string t with Some c => c | None => -1 end)]
  ++ flat_map vmember_toks (vy_members t).
Definition vprog_toks (p : vprogram) : list tok :=
  [sym "prog"; name_tok (vp_name p); TInt (vp_inst p)] ++ map name_tok (vp_routines p).

Definition req_toks (r : request_ast) : list tok :=
  [sym "ok"; match r_prog r with Some n => name_tok n | None => sym "none" end;
   TInt (match r_bit r with Some b => b | None => -1 end);
   TInt (match r_count r with Some b => b | None => -1 end)]
  ++ flat_map (fun s => bar :: name_tok (s_name s) :: map TInt (s_idx s)) (r_segs r).

(* ---------------------------------------------------------------- the extra commands *)
Definition upd (st : tstate lstate) (f : lstate -> lstate) : tstate lstate := set_app (f (t_app st)) st.

Definition extra (st : tstate lstate) (ts : list tok) : option (tstate lstate * list tok) :=
  let app := t_app st in
  let p := ls_proj app in
  match ts with
  | [] => None
  | cmd :: args =>
      if is_sym "tmpl" cmd then
        match cmd_tmpl args with
        | Some t => Some (upd st (add_template t), [ok])
        | None => Some (st, err "badtmpl")
        end
      else if is_sym "tag" cmd then
        match cmd_tag args with
        | Some g => Some (upd st (add_tag g), [ok])
        | None => Some (st, err "badtag")
        end
      else if is_sym "prog" cmd then
        match args with
        | [nt; TInt inst; TInt w] =>
            match tok_text nt with
            | Some n => Some (upd st (add_tag (mkTag (txt_Program ++ n) inst ScCtrl (BOpaque w) [] 0 false 0 0 0 0)), [ok])
            | None => Some (st, err "badprog")
            end
        | _ => Some (st, err "badprog")
        end
      else if is_sym "mem" cmd then
        match args with
        | [TInt inst; TBytes b] => Some (upd st (fun s => set_mem (mem_set (ls_mem s) inst b) s), [ok])
        | _ => Some (st, err "badmem")
        end
      else if is_sym "policy" cmd then
        match cmd_policy args (ls_pol app) with
        | Some o => Some (upd st (set_pol o), [ok])
        | None => Some (st, err "badpolicy")
        end
      else if is_sym "clearproject" cmd then
        Some (upd st (fun s => set_mem [] (set_proj empty_project s)), [ok])
      else if is_sym "wf" cmd then
        Some (st, [ok; bool_tok (wf_project p); bool_tok (wf_mem p (ls_mem app))]
                  ++ bar :: map TInt (bad_templates [] (p_templates p))
                  ++ bar :: map (fun g => TInt (g_inst g)) (filter (fun g => negb (tag_ok p g)) (p_tags p)))
      else if is_sym "parsereq" cmd then
        match args with
        | [t] => match tok_text t with
                 | Some s => match parse_request s with
                             | Some r => Some (st, req_toks r)
                             | None => Some (st, none_)
                             end
                 | None => Some (st, err "badreq")
                 end
        | _ => Some (st, err "badreq")
        end
      else if is_sym "refread" cmd then
        match args with
        | [t] =>
            match tok_text t with
            | Some s =>
                match parse_request s with
                | Some r =>
                    match ref_read p (ls_mem app) r, ref_type p r with
                    | Some v, Some (tn, c) => Some (st, ok :: name_tok tn :: TInt c :: value_toks VALUE_FUEL v)
                    | _, _ => Some (st, none_)
                    end
                | None => Some (st, none_)
                end
            | None => Some (st, err "badreq")
            end
        | _ => Some (st, err "badreq")
        end
      else if is_sym "refwrite" cmd then
        match args with
        | t :: vt =>
            match tok_text t, parse_value (S (length vt)) vt with
            | Some s, Some (v, []) =>
                match parse_request s with
                | Some r =>
                    match resolve p r, ref_write p (ls_mem app) r v with
                    | Some pl, Some m' =>
                        match mem_get m' (place_inst pl) with
                        | Some img => Some (st, [ok; TInt (place_inst pl); TBytes img])
                        | None => Some (st, none_)
                        end
                    | _, _ => Some (st, none_)
                    end
                | None => Some (st, none_)
                end
            | _, _ => Some (st, err "badvalue")
            end
        | [] => Some (st, err "badreq")
        end
      else if is_sym "view" cmd then
        match args with
        | [w] =>
            let v := abstract_view p in
            if is_sym "tags" w then Some (st, ok :: groups vtag_toks (v_tags v))
            else if is_sym "types" w then Some (st, ok :: groups vtype_toks (v_types v))
            else if is_sym "programs" w then
              Some (st, ok :: groups vprog_toks (v_programs v)
                        ++ groups (fun t => [sym "task"; name_tok (fst t); TInt (snd t)]) (v_tasks v))
            else Some (st, err "badview")
        | _ => Some (st, err "badview")
        end
      else if is_sym "dump" cmd then
        match args with
        | [w] => if is_sym "mem" w
                 then Some (st, ok :: groups (fun kv => [TInt (fst kv); TBytes (snd kv)]) (ls_mem app))
                 else None
        | [w; TInt inst] =>
            if is_sym "mem" w then
              match mem_get (ls_mem app) inst with
              | Some b => Some (st, [ok; TBytes b])
              | None => Some (st, none_)
              end
            else None
        | _ => None
        end
      else if is_sym "mr" cmd then
        match args with
        | [TInt cap; TInt svc; TBytes path; TBytes data] =>
            match h_request logix_handler app TUcmm cap {| mr_service := svc; mr_path := path; mr_data := data |} with
            | Some (app', rp, evs) =>
                Some (logs evs (set_app app' st),
                      ok :: TInt (rp_status rp) :: TBytes (rp_data rp) :: map TInt (rp_ext rp) ++ groups ev_toks evs)
            | None => Some (st, none_)
            end
        | _ => Some (st, err "badmr")
        end
      else None
  end.

Definition init_state : tstate lstate := init_tstate init_lstate.
Definition step_line (st : tstate lstate) (line : list Z) : tstate lstate * list Z :=
  core_step_line logix_handler logix_lens init_lstate extra st line.

Extraction "../ocaml/gen/target_model.ml" init_state step_line.
