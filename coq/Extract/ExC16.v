(* Extract/ExC16.v — co-process entry points for the C16 correspondence: the identity model
   (Model/Identity.v) AND the independent spec side (Spec/IdentitySpec.v: reply builders, views). *)
From Coq Require Import String.
From PV Require Import Base.Bytes Base.Res Base.Proto Base.PyStr Model.Identity Spec.IdentitySpec Spec.RegistrySpec.
From PV Require Gen.Vendors Gen.Status.
From Coq Require Import ExtrOcamlBasic.
Open Scope string_scope.
Open Scope Z_scope.

(* ---- dicts on the wire *)
Definition toks_of_mi (d : mi_dict) : list tok :=
  [TText (d_vendor d); TText (d_product_type d); TInt (d_product_code d); TInt (d_major d); TInt (d_minor d);
   TBytes (d_status d); TText (d_serial d); TText (d_product_name d)].
Definition toks_of_li (d : li_dict) : list tok :=
  [TInt (l_encap d); TText (l_ip d)] ++ toks_of_mi (l_id d) ++ [TInt (l_state d)].
Definition toks_of_plc (d : plc_dict) : list tok := toks_of_mi (p_id d) ++ [TText (p_keyswitch d)].

Definition toks_of_res {A} (f : A -> list tok) (r : res A) : list tok :=
  match r with
  | Ok a => sym "OK" :: f a
  | Err e => [sym "ERR"; TInt (exn_code e)]
  end.
Definition toks_of_opt {A} (f : A -> list tok) (o : option A) : list tok :=
  match o with Some a => sym "SOME" :: f a | None => [sym "NONE"] end.

Definition mi_of_toks (ts : list tok) : option mi_dict :=
  match ts with
  | [TText v; TText p; TInt c; TInt ma; TInt mi; TBytes st; TText se; TText n] =>
      Some (Build_mi_dict v p c ma mi st se n)
  | _ => None
  end.

(* ident: vendor ptype pcode major minor status serial name(text) encap family port ip state *)
Definition ident_of_toks (ts : list tok) : option ident :=
  match ts with
  | [TInt v; TInt p; TInt c; TInt ma; TInt mi; TInt st; TInt se; TText n; TInt en; TInt fa; TInt po; TInt ip; TInt sta] =>
      Some (Build_ident v p c ma mi st se n en fa po ip sta)
  | _ => None
  end.

Fixpoint all_bytes (ts : list tok) : option (list bytes) :=
  match ts with
  | [] => Some []
  | TBytes b :: r => match all_bytes r with Some l => Some (b :: l) | None => None end
  | _ => None
  end.

Definition bad : list tok := [sym "ERR"; sym "badline"].

Definition handle (ts : list tok) : list tok :=
  match ts with
  | [] => bad
  | cmd :: args =>
      (* ---------------- spec side *)
      if is_sym "specobj" cmd then
        match ident_of_toks args with Some i => [TBytes (spec_identity_object i)] | None => bad end
      else if is_sym "speclist" cmd then
        match args with
        | TBytes ctx :: r => match ident_of_toks r with Some i => [TBytes (spec_list_identity_reply ctx i)] | None => bad end
        | _ => bad
        end
      else if is_sym "specrr" cmd then
        match args with
        | TInt ses :: TBytes ctx :: TBytes extra :: r =>
            match ident_of_toks r with Some i => [TBytes (spec_identity_object_reply ses ctx i extra)] | None => bad end
        | _ => bad
        end
      else if is_sym "viewmod" cmd then
        match ident_of_toks args with Some i => toks_of_mi (view_module i) | None => bad end
      else if is_sym "viewlist" cmd then
        match ident_of_toks args with Some i => toks_of_li (view_list i) | None => bad end
      else if is_sym "viewplc" cmd then
        match ident_of_toks args with Some i => toks_of_plc (view_plc i) | None => bad end
      else if is_sym "inrange" cmd then
        match ident_of_toks args with Some i => [TInt (if fields_in_range i then 1 else 0)] | None => bad end
      (* documented registries (Spec/RegistrySpec.v): `regv` / `regp` -> id text id text ... *)
      else if is_sym "regv" cmd then flat_map (fun p => [TInt (fst p); TText (snd p)]) spec_vendors
      else if is_sym "regp" cmd then flat_map (fun p => [TInt (fst p); TText (snd p)]) spec_product_types
      else if is_sym "shex8" cmd then
        match args with [TInt n] => [TText (hex8 n)] | _ => bad end
      else if is_sym "sunhex" cmd then
        match args with [TText s] => toks_of_opt (fun z => [TInt z]) (unhex s) | _ => bad end
      (* ---------------- model side *)
      else if is_sym "decmod" cmd then
        match args with [TBytes b] => toks_of_res toks_of_mi (ModuleIdentityObject_decode b) | _ => bad end
      else if is_sym "declist" cmd then
        match args with [TBytes b] => toks_of_res toks_of_li (ListIdentityObject_decode b) | _ => bad end
      else if is_sym "encmod" cmd then
        match mi_of_toks args with
        | Some d => toks_of_res (fun b => [TBytes b]) (ModuleIdentityObject_encode d)
        | None => bad
        end
      else if is_sym "lipkt" cmd then
        match args with
        | [TBytes raw] => let r := ListIdentityResponsePacket raw in
                          TInt (if li_is_valid r then 1 else 0) :: toks_of_opt toks_of_li (lr_identity r)
        | _ => bad
        end
      else if is_sym "listid" cmd then
        match args with [TBytes raw] => toks_of_opt toks_of_li (list_identity raw) | _ => bad end
      else if is_sym "discover" cmd then
        match all_bytes args with
        | Some ds => let l := broadcast_discover_responses ds in
                     TInt (Z.of_nat (length l)) :: flat_map toks_of_li l
        | None => bad
        end
      else if is_sym "modinfo" cmd then
        match args with [TBytes raw] => toks_of_res toks_of_mi (get_module_info raw) | _ => bad end
      else if is_sym "plcinfo" cmd then
        match args with [TBytes raw] => toks_of_res toks_of_plc (get_plc_info raw) | _ => bad end
      else if is_sym "vget" cmd then
        match args with [TInt i] => [TText (VENDORS_get i)] | _ => bad end
      else if is_sym "pget" cmd then
        match args with [TInt i] => [TText (PRODUCT_TYPES_get i)] | _ => bad end
      else if is_sym "vitem" cmd then
        match args with [TText n] => toks_of_res (fun z => [TInt z]) (VENDORS_getitem n) | _ => bad end
      else if is_sym "pitem" cmd then
        match args with [TText n] => toks_of_res (fun z => [TInt z]) (PRODUCT_TYPES_getitem n) | _ => bad end
      else if is_sym "fmt08x" cmd then
        match args with [TInt n] => [TText (fmt_08x n)] | _ => bad end
      else if is_sym "fromhex" cmd then
        match args with [TText s] => toks_of_res (fun b => [TBytes b; TInt (int_from_bytes_big b)]) (bytes_fromhex s) | _ => bad end
      else if is_sym "keyswitch" cmd then
        match args with [TBytes st] => toks_of_res (fun t => [TText t]) (keyswitch_text st) | _ => bad end
      else bad
  end.

Definition init_state : unit := tt.
Definition step_line (s : unit) (line : list Z) : unit * list Z := (s, run_line handle line).

Extraction "../ocaml/gen/c16_model.ml" init_state step_line.
