(* Extract/ExC09.v — co-process entry points for the C09 correspondence: the path encoders of
   Model/Path.v AND the independent parser of Spec/EPathParser.v. *)
From Coq Require Import String.
From PV Require Import Base.Bytes Base.Proto Base.Res Base.PyStr Gen.PathTables Model.Path Spec.EPathParser.
From Coq Require Import ExtrOcamlBasic.
Open Scope string_scope.
Open Scope Z_scope.

(* ---- tokens <-> segments
     L <text type> i <int> | L <text type> b <bytes>
     P n <int> <link> | P s <text> <link>      link = i <int> | s <text> | b <bytes>
     S <text> | D <bytes> | R <bytes> *)
Definition link_of_toks (ts : list tok) : option (plink * list tok) :=
  match ts with
  | k :: TInt z :: r => if is_sym "i" k then Some (LinkInt z, r) else None
  | k :: TText s :: r => if is_sym "s" k then Some (LinkStr s, r) else None
  | k :: TBytes b :: r => if is_sym "b" k then Some (LinkBytes b, r) else None
  | _ => None
  end.

Definition seg_of_toks (ts : list tok) : option (seg * list tok) :=
  match ts with
  | [] => None
  | c :: r0 =>
      if is_sym "L" c then
        match r0 with
        | TText t :: k :: TInt z :: r => if is_sym "i" k then Some (Logical t (LInt z), r) else None
        | TText t :: k :: TBytes b :: r => if is_sym "b" k then Some (Logical t (LBytes b), r) else None
        | _ => None
        end
      else if is_sym "P" c then
        match r0 with
        | k :: TInt n :: r =>
            if is_sym "n" k then
              match link_of_toks r with Some (l, r') => Some (Port (inl n) l, r') | None => None end
            else None
        | k :: TText n :: r =>
            if is_sym "s" k then
              match link_of_toks r with Some (l, r') => Some (Port (inr n) l, r') | None => None end
            else None
        | _ => None
        end
      else if is_sym "S" c then match r0 with TText s :: r => Some (DataSym s, r) | _ => None end
      else if is_sym "D" c then match r0 with TBytes b :: r => Some (DataRaw b, r) | _ => None end
      else if is_sym "R" c then match r0 with TBytes b :: r => Some (RawBytes b, r) | _ => None end
      else None
  end.

Fixpoint segs_of_toks (fuel : nat) (ts : list tok) : option (list seg) :=
  match ts with
  | [] => Some []
  | _ => match fuel with
         | O => None
         | S f => match seg_of_toks ts with
                  | Some (s, r) => match segs_of_toks f r with Some l => Some (s :: l) | None => None end
                  | None => None
                  end
         end
  end.

Definition toks_of_link (l : plink) : list tok :=
  match l with
  | LinkInt z => [sym "i"; TInt z]
  | LinkStr s => [sym "s"; TText s]
  | LinkBytes b => [sym "b"; TBytes b]
  end.
Definition toks_of_seg (s : seg) : list tok :=
  match s with
  | Logical t (LInt z) => [sym "L"; TText t; sym "i"; TInt z]
  | Logical t (LBytes b) => [sym "L"; TText t; sym "b"; TBytes b]
  | Port (inl n) l => [sym "P"; sym "n"; TInt n] ++ toks_of_link l
  | Port (inr n) l => [sym "P"; sym "s"; TText n] ++ toks_of_link l
  | DataSym s => [sym "S"; TText s]
  | DataRaw b => [sym "D"; TBytes b]
  | RawBytes b => [sym "R"; TBytes b]
  end.

Definition toks_of_sseg (s : sseg) : list tok :=
  match s with
  | SLogical lt v => [sym "L"; TInt lt; TInt v]
  | SPort p l => [sym "P"; TInt p; TBytes l]
  | SSymbol n => [sym "S"; TBytes n]
  | SData d => [sym "D"; TBytes d]
  end.
Definition toks_of_parse (r : option (list sseg)) : list tok :=
  match r with
  | None => [sym "none"]
  | Some l => sym "some" :: TInt (Z.of_nat (List.length l)) :: flat_map toks_of_sseg l
  end.

Definition toks_of_res (r : res (list Z)) : list tok :=
  match r with
  | Ok b => [sym "ok"; TBytes b]
  | Err e => [sym "err"; TInt (exn_code e)]
  end.

Definition bool_of (z : Z) : bool := negb (z =? 0).

Definition lval_of_toks (ts : list tok) : option (lval * list tok) :=
  match ts with
  | k :: TInt z :: r => if is_sym "i" k then Some (LInt z, r) else None
  | k :: TBytes b :: r => if is_sym "b" k then Some (LBytes b, r) else None
  | _ => None
  end.

(* commands:
     eseg <padded> <seg>                         -> ok x.. | err code
     epath <padded> <length> <pad_length> <seg>* -> ok x.. | err code
     reqpath <lval> <lval> (none | <lval>)       -> ok x.. | err code
     tagpath <text> (none | <int>) <use>         -> ok x.. | none | err code
     findidx <text>                              -> <name text> <n> <index text>*
     pyint <text>                                -> ok <int> | err code
     ipok <text>                                 -> 0/1
     parse <bytes>                               -> none | some n <sseg>*        (Spec)
     parsec <pad_length> <bytes>                 -> none | some n <sseg>*        (Spec)
     parsex <bytes> / parsecx <pad_length> <bytes>   the same reading with format code 0b11 taken
                                                 for "32-bit" (used ONLY to classify a failure) *)
Definition handle (ts : list tok) : list tok :=
  match ts with
  | cmd :: TInt padded :: r =>
      if is_sym "eseg" cmd then
        match seg_of_toks r with
        | Some (s, []) => toks_of_res (encode_seg (bool_of padded) s)
        | _ => [sym "ERR"; sym "badseg"]
        end
      else if is_sym "epath" cmd then
        match r with
        | TInt l :: TInt pl :: r' =>
            match segs_of_toks (S (List.length r')) r' with
            | Some segs => toks_of_res (epath_encode (bool_of padded) segs (bool_of l) (bool_of pl))
            | None => [sym "ERR"; sym "badsegs"]
            end
        | _ => [sym "ERR"; sym "badline"]
        end
      else if is_sym "parsec" cmd then
        match r with
        | [TBytes b] => toks_of_parse (parse_counted (bool_of padded) b)
        | _ => [sym "ERR"; sym "badline"]
        end
      else if is_sym "pyintz" cmd then          (* pyintz k pre post: int(pre + "0"*k + post) *)
        match r with
        | [TText pre; TText post] =>
            match py_int_full (pre ++ repeat 48 (Z.to_nat padded) ++ post)%list with
            | Ok z => [sym "ok"; TInt z]
            | Err e => [sym "err"; TInt (exn_code e)]
            end
        | _ => [sym "ERR"; sym "badline"]
        end
      else if is_sym "tagpathz" cmd then        (* tagpathz k pre post inst use: the tag pre + "0"*k + post *)
        match r with
        | [TText pre; TText post; i; TInt use] =>
            let inst := match i with TInt z => Some z | _ => None end in
            match tag_request_path (pre ++ repeat 48 (Z.to_nat padded) ++ post)%list inst (bool_of use) with
            | Ok (Some b) => [sym "ok"; TBytes b]
            | Ok None => [sym "none"]
            | Err e => [sym "err"; TInt (exn_code e)]
            end
        | _ => [sym "ERR"; sym "badline"]
        end
      else if is_sym "esegz" cmd then           (* esegz k (n <int> | s <text>) pre post: PortSegment(port, pre + "0"*k + post) *)
        match r with
        | [k; TInt n; TText pre; TText post] =>
            if is_sym "n" k then toks_of_res (encode_seg true (Port (inl n) (LinkStr (pre ++ repeat 48 (Z.to_nat padded) ++ post)%list)))
            else [sym "ERR"; sym "badline"]
        | [k; TText n; TText pre; TText post] =>
            if is_sym "s" k then toks_of_res (encode_seg true (Port (inr n) (LinkStr (pre ++ repeat 48 (Z.to_nat padded) ++ post)%list)))
            else [sym "ERR"; sym "badline"]
        | _ => [sym "ERR"; sym "badline"]
        end
      else if is_sym "parsecx" cmd then
        match r with
        | [TBytes b] => toks_of_parse (parse_counted_with 3 (bool_of padded) b)
        | _ => [sym "ERR"; sym "badline"]
        end
      else [sym "ERR"; sym "badcmd"]
  | cmd :: TText s :: r =>
      if is_sym "tagpath" cmd then
        match r with
        | [i; TInt use] =>
            let inst := match i with TInt z => Some z | _ => None end in
            match tag_request_path s inst (bool_of use) with
            | Ok (Some b) => [sym "ok"; TBytes b]
            | Ok None => [sym "none"]
            | Err e => [sym "err"; TInt (exn_code e)]
            end
        | _ => [sym "ERR"; sym "badline"]
        end
      else if is_sym "findidx" cmd then
        let '(n, idx) := find_tag_index s in
        TText n :: TInt (Z.of_nat (List.length idx)) :: map TText idx
      else if is_sym "pyint" cmd then
        match py_int_full s with
        | Ok z => [sym "ok"; TInt z]
        | Err e => [sym "err"; TInt (exn_code e)]
        end
      else if is_sym "ipok" cmd then [TInt (if ip_v4_ok s then 1 else 0)]
      else [sym "ERR"; sym "badcmd"]
  | [cmd; TBytes b] =>
      if is_sym "parse" cmd then toks_of_parse (parse_padded_epath b)
      else if is_sym "parsex" cmd then toks_of_parse (parse_padded_epath_with 3 b)
      else [sym "ERR"; sym "badcmd"]
  | cmd :: r =>
      if is_sym "reqpath" cmd then
        match lval_of_toks r with
        | Some (c, r1) =>
            match lval_of_toks r1 with
            | Some (i, r2) =>
                match r2 with
                | [] => [sym "ERR"; sym "badline"]
                | _ => match lval_of_toks r2 with
                       | Some (a, []) => toks_of_res (request_path c i (Some a))
                       | _ => toks_of_res (request_path c i None)
                       end
                end
            | None => [sym "ERR"; sym "badline"]
            end
        | None => [sym "ERR"; sym "badline"]
        end
      else [sym "ERR"; sym "badcmd"]
  | _ => [sym "ERR"; sym "badline"]
  end.

Definition init_state : unit := tt.
Definition step_line (s : unit) (line : list Z) : unit * list Z := (s, run_line handle line).

Extraction "../ocaml/gen/c09_model.ml" init_state step_line.
