(* Extract/ExC01.v — co-process of the C01 correspondence (bin/modelrun_c01): the whole reference
   target protocol of Extract/ExTarget.v (scenario loading: tmpl / tag / mem / policy / cfg, refread,
   dump log, frame, ...) plus the client model of Model/LogixRead.v run against the loaded target:

     runread <fuel> <conn> <micro800 0/1> <use_instance_ids 0/1> <request>*
         -> ok <k> <message>*k { | t <name> <error 0/1> <type | none> <value tokens | none> }*
          | raise <exception code> <k> <message>*k
          | nofuel <k> <message>*k
        (the target state advances: its log records the requests of the model client)
     parsetag <request>      -> ok <user_tag> <plc_tag> <bit | -1> <elements> <bool_elements | -1>
                                   <struct 0/1> <data_type_name> <element size> <instance | -1>     | err
     readreply <request> <elements> <reply data>   parse_read_reply(data, tag_info of the request, elements)
                             -> ok <type string> <value tokens> | err
     ctags                   -> ok <name>*          (keys of the client's tag database)

   Names and request strings are byte tokens (x<hex>) or text tokens (u<hex6>). *)
From Coq Require Import String.
From PV Require Import Base.Bytes Base.Res Base.Proto Base.PyStr Spec.EncapParser Spec.MRParser Spec.TargetIface
  Spec.TargetCore Spec.TargetProto Spec.Project Spec.Expect Spec.TargetLogix.
From PV Require Import Model.LogixRead.
From PV Require Extract.ExTarget.
From Coq Require Import ExtrOcamlBasic.
Open Scope string_scope.
Open Scope list_scope.
Open Scope Z_scope.

Definition name_tok := ExTarget.name_tok.
Definition value_toks := ExTarget.value_toks ExTarget.VALUE_FUEL.

Fixpoint texts_of (ts : list tok) : option (list text) :=
  match ts with
  | [] => Some []
  | t :: r => match ExTarget.tok_text t, texts_of r with
              | Some x, Some l => Some (x :: l)
              | _, _ => None
              end
  end.

Definition tag_toks (t : rtag) : list tok :=
  [bar; sym "t"; name_tok (tg_name t); TInt (if tg_error t then 1 else 0)]
  ++ (match tg_type t with Some s => [name_tok s] | None => [sym "none"] end)
  ++ (match tg_value t with Some v => value_toks v | None => [sym "none"] end).

Definition msgs_toks (ms : list bytes) : list tok := TInt (Z.of_nat (length ms)) :: map TBytes ms.

Definition opt_int (o : option Z) : tok := TInt (match o with Some z => z | None => -1 end).

Definition extra (st : tstate lstate) (ts : list tok) : option (tstate lstate * list tok) :=
  let p := ls_proj (t_app st) in
  match ts with
  | [] => None
  | cmd :: args =>
      if is_sym "runread" cmd then
        match args with
        | TInt fuel :: TInt conn :: TInt micro :: TInt ids :: reqs =>
            match texts_of reqs with
            | Some rs =>
                let cfg := mkCfg conn (negb (micro =? 0)) (negb (ids =? 0)) in
                match run_read (Z.to_nat fuel) cfg (client_tags p) st rs with
                | (st', sent, Done tags) => Some (st', sym "ok" :: msgs_toks sent ++ flat_map tag_toks tags)
                | (st', sent, Raise e) => Some (st', sym "raise" :: TInt (exn_code e) :: msgs_toks sent)
                | (st', sent, NoFuel) => Some (st', sym "nofuel" :: msgs_toks sent)
                end
            | None => Some (st, err "badreq")
            end
        | _ => Some (st, err "badargs")
        end
      else if is_sym "parsetag" cmd then
        match args with
        | [t] =>
            match ExTarget.tok_text t with
            | Some s =>
                match parse_tag_request (client_tags p) s with
                | Ok q =>
                    let i := pq_info q in
                    Some (st, [sym "ok"; name_tok (pq_user q); name_tok (pq_plc q); opt_int (pq_bit q);
                               TInt (pq_elements q); opt_int (pq_bools q);
                               TInt (if ti_struct i then 1 else 0); name_tok (ti_dtname i); TInt (ti_esize i);
                               opt_int (ti_inst i)])
                | Err _ => Some (st, [sym "err"])
                end
            | None => Some (st, err "badreq")
            end
        | _ => Some (st, err "badargs")
        end
      else if is_sym "readreply" cmd then
        match args with
        | [t; TInt elements; TBytes data] =>
            match ExTarget.tok_text t with
            | Some s =>
                match parse_tag_request (client_tags p) s with
                | Ok q =>
                    match parse_read_reply_t data (pq_info q) elements with
                    | Ok (v, ty) => Some (st, sym "ok" :: name_tok ty :: value_toks v)
                    | Err _ => Some (st, [sym "err"])
                    end
                | Err _ => Some (st, [sym "noreq"])
                end
            | None => Some (st, err "badreq")
            end
        | _ => Some (st, err "badargs")
        end
      else if is_sym "ctags" cmd then
        Some (st, sym "ok" :: map (fun kv => name_tok (fst kv)) (client_tags p))
      else ExTarget.extra st ts
  end.

Definition init_state : tstate lstate := ExTarget.init_state.
Definition step_line (st : tstate lstate) (line : list Z) : tstate lstate * list Z :=
  core_step_line logix_handler ExTarget.logix_lens init_lstate extra st line.

Extraction "../ocaml/gen/c01_model.ml" init_state step_line.
