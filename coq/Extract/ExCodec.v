(* Extract/ExCodec.v — co-process entry points for the codec model (properties C06, C07, C08:
   `EXTRA_MODELS = ["Codec"]`).  Type and value terms are token sequences in prefix form, parsed and
   printed in Gallina (grammar: coq/Model/CODEC_README.md).

     enc  <ty> <val>              -> ok <kind> <bytes> | err <code>            T.encode(value)
     enca <ty> <k> <val>*k        -> ok <kind> <bytes> | err <code>            T.encode( *args )
     dec  <ty> <bytes>            -> ok <val> <rest> | err <code> | empty <rest> | fuel
     decl <ty> <val> <bytes>      -> the same for T.decode(stream, length)
     decf <ty> <int fuel> <bytes> -> the same as dec with an explicit fuel
     wf   <ty>                    -> 0/1              Model/CodecDom.v wf_ty
     dom  <ty> <val>              -> 0/1              in_dom
     ddom <ty> <val>              -> 0/1              doc_dom (the documented domain)
     dwf  <ty>                    -> 0/1              doc_wf (documented-constructible type term)
     greedy <ty>                  -> <0/1 greedy> <0/1 doc_greedy>
     norm <ty> <val>              -> <val>            norm
   <kind>: 0 bytes/bytearray, 1 str (then a text token), 2 list, 3 tuple (n_bytes returns its argument's slice).
   <code>: Base/Res.v exn_code (1 DataError, 2 BufferEmpty, 10.. foreign). *)
From Coq Require Import String.
From PV Require Import Base.Bytes Base.Proto Base.Res Gen.Types Gen.CodecFacts Model.Codec Model.CodecDom.
From Coq Require Import ExtrOcamlBasic.
Open Scope string_scope.
Open Scope Z_scope.

Section Parse.
  Context {A : Type}.
  Variable p : list tok -> option (A * list tok).
  Fixpoint parse_n (k : nat) (ts : list tok) : option (list A * list tok) :=
    match k with
    | O => Some ([], ts)
    | S k' => match p ts with
              | Some (a, r) => match parse_n k' r with
                               | Some (l, r') => Some (a :: l, r')
                               | None => None
                               end
              | None => None
              end
    end.
End Parse.

Definition parse_key (ts : list tok) : option (key * list tok) :=
  match ts with
  | TText s :: r => Some (Some s, r)
  | t :: r => if is_sym "-" t then Some (None, r) else None
  | [] => None
  end.

Definition is_int_ty (t : ty) : option (bool * nat) := match t with Codec.TInt sg w => Some (sg, w) | _ => None end.

Definition named_ty (s : list Z) : option ty :=
  if zs_eqb s (zs_of_string "IPAddress") then Some TIPAddr
  else if zs_eqb s (zs_of_string "Revision") then Revision_ty
  else if zs_eqb s (zs_of_string "ModuleIdentityObject") then ModuleIdentityObject_ty
  else if zs_eqb s (zs_of_string "ListIdentityObject") then ListIdentityObject_ty
  else if zs_eqb s (zs_of_string "PCCC_ASCII") then Some TPcccAscii
  else if zs_eqb s (zs_of_string "PCCC_STRING") then Some TPcccString
  else ty_of_name s.

Fixpoint parse_ty (fuel : nat) (ts : list tok) : option (ty * list tok) :=
  match fuel with
  | O => None
  | S f =>
      match ts with
      | TSym s :: r =>
          if zs_eqb s (zs_of_string "nbytes") then
            match r with Proto.TInt n :: r1 => Some (TNBytes n, r1) | _ => None end
          else if zs_eqb s (zs_of_string "arr") then
            match r with
            | Proto.TInt n :: r1 => match parse_ty f r1 with Some (e, r2) => Some (TArrFixed (Z.to_nat n) e, r2) | None => None end
            | _ => None
            end
          else if zs_eqb s (zs_of_string "arrp") then
            match r with
            | Proto.TInt i :: r1 =>
                match parse_ty f r1 with
                | Some (lt, r2) => match parse_ty f r2 with Some (e, r3) => Some (TArrPrefix (negb (i =? 0)) lt e, r3) | None => None end
                | None => None
                end
            | _ => None
            end
          else if zs_eqb s (zs_of_string "arrall") then
            match parse_ty f r with Some (e, r1) => Some (TArrAll e, r1) | None => None end
          else if zs_eqb s (zs_of_string "struct") then
            match r with
            | Proto.TInt k :: r1 =>
                match parse_n (fun ts => match parse_key ts with
                                         | Some (key, r) => match parse_ty f r with Some (t, r') => Some ((key, t), r') | None => None end
                                         | None => None
                                         end) (Z.to_nat k) r1 with
                | Some (ms, r2) => Some (TStruct SPlain ms, r2)
                | None => None
                end
            | _ => None
            end
          else if zs_eqb s (zs_of_string "fss") then
            match r with
            | Proto.TInt cap :: r1 =>
                match parse_ty f r1 with
                | Some (lt, Proto.TInt capacity :: r2) =>
                    match is_int_ty lt with Some (sg, w) => Some (TFixedStr (Z.to_nat cap) sg w (Z.to_nat capacity), r2) | None => None end
                | _ => None
                end
            | _ => None
            end
          else if zs_eqb s (zs_of_string "stag") then
            match r with
            | Proto.TInt k :: r1 =>
                match parse_n (fun ts => match parse_key ts with
                                         | Some (key, Proto.TInt off :: r) =>
                                             match parse_ty f r with Some (t, r') => Some (((key, Z.to_nat off), t), r') | None => None end
                                         | _ => None
                                         end) (Z.to_nat k) r1 with
                | Some (ms, Proto.TInt nb :: r2) =>
                    match parse_n (fun ts => match ts with
                                             | TText n :: Proto.TInt off :: Proto.TInt bit :: r => Some ((n, (Z.to_nat off, Z.to_nat bit)), r)
                                             | _ => None
                                             end) (Z.to_nat nb) r2 with
                    | Some (bits, Proto.TInt np :: r3) =>
                        match parse_n (fun ts => match ts with TText n :: r => Some (n, r) | _ => None end) (Z.to_nat np) r3 with
                        | Some (priv, Proto.TInt size :: r4) => Some (TStructTag ms bits priv (Z.to_nat size), r4)
                        | _ => None
                        end
                    | _ => None
                    end
                | _ => None
                end
            | _ => None
            end
          else match named_ty s with Some t => Some (t, r) | None => None end
      | _ => None
      end
  end.

Fixpoint parse_val (fuel : nat) (ts : list tok) : option (val * list tok) :=
  match fuel with
  | O => None
  | S f =>
      match ts with
      | Proto.TInt z :: r => Some (VInt z, r)
      | TText s :: r => Some (VStr s, r)
      | TBytes b :: r => Some (VBytes b, r)
      | TSym s :: r =>
          if zs_eqb s (zs_of_string "N") then Some (VNone, r)
          else if zs_eqb s (zs_of_string "T") then Some (VBool true, r)
          else if zs_eqb s (zs_of_string "F") then Some (VBool false, r)
          else if zs_eqb s (zs_of_string "f") then match r with Proto.TInt b :: r1 => Some (VFloat b, r1) | _ => None end
          else if zs_eqb s (zs_of_string "c") then match r with TSym n :: r1 => Some (VType n, r1) | _ => None end
          else if zs_eqb s (zs_of_string "l") then
            match r with
            | Proto.TInt k :: r1 => match parse_n (parse_val f) (Z.to_nat k) r1 with Some (l, r2) => Some (VList l, r2) | None => None end
            | _ => None
            end
          else if zs_eqb s (zs_of_string "t") then
            match r with
            | Proto.TInt k :: r1 => match parse_n (parse_val f) (Z.to_nat k) r1 with Some (l, r2) => Some (VTuple l, r2) | None => None end
            | _ => None
            end
          else if zs_eqb s (zs_of_string "d") then
            match r with
            | Proto.TInt k :: r1 =>
                match parse_n (fun ts => match parse_key ts with
                                         | Some (key, r) => match parse_val f r with Some (v, r') => Some ((key, v), r') | None => None end
                                         | None => None
                                         end) (Z.to_nat k) r1 with
                | Some (d, r2) => Some (VDict d, r2)
                | None => None
                end
            | _ => None
            end
          else None
      | [] => None
      end
  end.

Definition print_key (k : key) : tok := match k with None => sym "-" | Some s => TText s end.

Fixpoint print_val (v : val) : list tok :=
  match v with
  | VNone => [sym "N"]
  | VBool b => [sym (if b then "T" else "F")]
  | VInt z => [Proto.TInt z]
  | VFloat b => [sym "f"; Proto.TInt b]
  | VStr s => [TText s]
  | VBytes b => [TBytes b]
  | VList l => sym "l" :: Proto.TInt (zlen l) :: flat_map print_val l
  | VTuple l => sym "t" :: Proto.TInt (zlen l) :: flat_map print_val l
  | VDict d => sym "d" :: Proto.TInt (zlen d) :: flat_map (fun kv => print_key (fst kv) :: print_val (snd kv)) d
  | VType n => [sym "c"; TSym n]
  end.

Definition print_enc (t : ty) (v : val) (r : res bytes) : list tok :=
  match r with
  | Ok bs => let k := encode_result_kind t v in
             [sym "ok"; Proto.TInt k; if k =? 1 then TText bs else TBytes bs]
  | Err e => [sym "err"; Proto.TInt (exn_code e)]
  end.
Definition print_dres (r : dres) : list tok :=
  match r with
  | DOk v rest => sym "ok" :: print_val v ++ [TBytes rest]
  | DErr e => [sym "err"; Proto.TInt (exn_code e)]
  | DEmpty rest => [sym "empty"; TBytes rest]
  | DOutOfFuel => [sym "fuel"]
  end.

Definition bad : list tok := [sym "ERR"; sym "parse"].

Definition handle (ts : list tok) : list tok :=
  let fuel := S (length ts) in
  match ts with
  | cmd :: r =>
      match parse_ty fuel r with
      | None => bad
      | Some (t, r1) =>
          if is_sym "enc" cmd then
            match parse_val fuel r1 with Some (v, []) => print_enc t v (encode t v) | _ => bad end
          else if is_sym "enca" cmd then
            match r1 with
            | Proto.TInt k :: r2 =>
                match parse_n (parse_val fuel) (Z.to_nat k) r2 with
                | Some (args, []) => print_enc t (match args with [v] => v | _ => VNone end) (encode_args t args)
                | _ => bad
                end
            | _ => bad
            end
          else if is_sym "dec" cmd then
            match r1 with [TBytes bs] => print_dres (decode_fuel (S (length bs)) t bs) | _ => bad end
          else if is_sym "decf" cmd then
            match r1 with [Proto.TInt f; TBytes bs] => print_dres (decode_fuel (Z.to_nat f) t bs) | _ => bad end
          else if is_sym "decl" cmd then
            match parse_val fuel r1 with
            | Some (len, [TBytes bs]) => print_dres (decode_len_fuel (S (length bs)) t len bs)
            | _ => bad
            end
          else if is_sym "wf" cmd then
            match r1 with [] => [Proto.TInt (if wf_ty t then 1 else 0)] | _ => bad end
          else if is_sym "dom" cmd then
            match parse_val fuel r1 with Some (v, []) => [Proto.TInt (if in_dom t v then 1 else 0)] | _ => bad end
          else if is_sym "ddom" cmd then
            match parse_val fuel r1 with Some (v, []) => [Proto.TInt (if doc_dom t v then 1 else 0)] | _ => bad end
          else if is_sym "dwf" cmd then
            match r1 with [] => [Proto.TInt (if doc_wf t then 1 else 0)] | _ => bad end
          else if is_sym "greedy" cmd then
            match r1 with [] => [Proto.TInt (if greedy t then 1 else 0); Proto.TInt (if doc_greedy t then 1 else 0)] | _ => bad end
          else if is_sym "norm" cmd then
            match parse_val fuel r1 with Some (v, []) => print_val (norm t v) | _ => bad end
          else bad
      end
  | [] => bad
  end.

(* Base/Proto.v's line parser with linear-time reversal (List.rev is quadratic, and this
   co-process receives 65535-character strings as one token) *)
Definition lrev {A} (l : list A) : list A := rev_append l [].
Fixpoint fsplit_sp (cs : list Z) (cur : list Z) (acc : list (list Z)) : list (list Z) :=
  match cs with
  | [] => lrev (if cur then acc else lrev cur :: acc)
  | c :: r => if c =? 32 then fsplit_sp r [] (if cur then acc else lrev cur :: acc)
              else fsplit_sp r (c :: cur) acc
  end.
Fixpoint fhex_groups (fuel : nat) (k : nat) (cs : list Z) (acc : list Z) : option (list Z) :=
  match cs with
  | [] => Some (lrev acc)
  | _ => match fuel with
         | O => None
         | S f => match hex_group k cs 0 with
                  | Some (v, r) => fhex_groups f k r (v :: acc)
                  | None => None
                  end
         end
  end.
Definition fparse_tok (w : list Z) : tok :=
  match w with
  | 120 :: r (* x *) => match fhex_groups (length r) 2 r [] with Some bs => TBytes bs | None => TSym w end
  | 117 :: r (* u *) => match fhex_groups (length r) 6 r [] with Some cs => TText cs | None => TSym w end
  | _ => parse_tok w
  end.
Definition fparse_line (cs : list Z) : list tok := map fparse_tok (fsplit_sp cs [] []).

Definition init_state : unit := tt.
Definition step_line (s : unit) (line : list Z) : unit * list Z := (s, print_line (handle (fparse_line line))).

Extraction "../ocaml/gen/codec_model.ml" init_state step_line.
