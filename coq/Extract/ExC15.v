(* Extract/ExC15.v — co-process entry points for the C15 correspondence: parse_connection_path /
   parse_cip_route and the route encoders of Model/ConnPath.v, plus the Spec parser. *)
From Coq Require Import String.
From PV Require Import Base.Bytes Base.Proto Base.Res Base.PyStr Gen.PathTables Model.Path Model.ConnPath
     Spec.EPathParser Extract.ExC09.
From Coq Require Import ExtrOcamlBasic.
Open Scope string_scope.
Open Scope Z_scope.

Definition toks_of_segs (segs : list seg) : list tok :=
  TInt (Z.of_nat (List.length segs)) :: flat_map toks_of_seg segs.

(* commands:
     parse <text> <auto>                 -> ok <host text> (none | <int>) <n> <seg>* | err code
     route <text> <auto>                 -> ok <n> <seg>* | err code          parse_cip_route(str)
     rbytes <text> <auto> <pad_length>   -> ok x.. | err code                 parse + PADDED_EPATH.encode
     rstr <text>                         -> ok x.. | err code                 generic_message(route_path=str)
     fopen <text> <auto> <pad_length>    -> ok x.. | err code                 route + MSG_ROUTER_PATH
     modinfo <text> <auto> <slot>        -> ok x.. | err code                 get_module_info route
     parsec <pad_length> <bytes>         -> none | some n <sseg>*             (Spec) *)
Definition handle (ts : list tok) : list tok :=
  match ts with
  | cmd :: TText s :: r =>
      if is_sym "parse" cmd then
        match r with
        | [TInt auto] =>
            match parse_connection_path s (bool_of auto) with
            | Ok (h, p, segs) =>
                [sym "ok"; TText h; match p with Some z => TInt z | None => sym "none" end] ++ toks_of_segs segs
            | Err e => [sym "err"; TInt (exn_code e)]
            end
        | _ => [sym "ERR"; sym "badline"]
        end
      else if is_sym "route" cmd then
        match r with
        | [TInt auto] =>
            match parse_cip_route s (bool_of auto) with
            | Ok segs => sym "ok" :: toks_of_segs segs
            | Err e => [sym "err"; TInt (exn_code e)]
            end
        | _ => [sym "ERR"; sym "badline"]
        end
      else if is_sym "rbytes" cmd then
        match r with
        | [TInt auto; TInt pl] => toks_of_res (route_bytes s (bool_of auto) (bool_of pl))
        | _ => [sym "ERR"; sym "badline"]
        end
      else if is_sym "rstr" cmd then toks_of_res (route_bytes_of_route_string s)
      else if is_sym "fopen" cmd then
        match r with
        | [TInt auto; TInt pl] =>
            toks_of_res (let* (_, segs) := parse_connection_path s (bool_of auto) in
                         forward_open_path segs (bool_of pl))
        | _ => [sym "ERR"; sym "badline"]
        end
      else if is_sym "modinfo" cmd then
        match r with
        | [TInt auto; TInt slot] =>
            toks_of_res (let* (_, segs) := parse_connection_path s (bool_of auto) in
                         module_info_path segs slot)
        | _ => [sym "ERR"; sym "badline"]
        end
      else [sym "ERR"; sym "badcmd"]
  | [cmd; TInt pl; TBytes b] =>
      if is_sym "parsec" cmd then toks_of_parse (parse_counted (bool_of pl) b)
      else [sym "ERR"; sym "badcmd"]
  | _ => [sym "ERR"; sym "badline"]
  end.

Definition init_state : unit := tt.
Definition step_line (s : unit) (line : list Z) : unit * list Z := (s, run_line handle line).

Extraction "../ocaml/gen/c15_model.ml" init_state step_line.
