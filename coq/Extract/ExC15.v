(* Extract/ExC15.v — co-process entry points for the C15 correspondence: the model of
   parse_connection_path / parse_cip_route / the route encoders (Model/ConnPath.v) AND the
   independent grammar (Spec/ConnPathGrammar.v: render, reference wire form, reference reader). *)
From Coq Require Import String.
From PV Require Import Base.Bytes Base.Proto Base.Res Base.PyStr Gen.PathTables Model.Path Model.ConnPath
     Spec.ConnPathGrammar.
From Coq Require Import ExtrOcamlBasic.
Open Scope string_scope.
Open Scope Z_scope.

Definition tbool (b : bool) : tok := TInt (if b then 1 else 0).
Definition flag (z : Z) : bool := negb (z =? 0).

Definition toks_of_plink (l : plink) : list tok :=
  match l with
  | LinkInt z => [sym "i"; TInt z]
  | LinkStr s => [sym "s"; TText s]
  | LinkBytes b => [sym "b"; TBytes b]
  end.
Definition toks_of_mseg (s : seg) : list tok :=
  match s with
  | Port (inl n) l => [sym "P"; sym "n"; TInt n] ++ toks_of_plink l
  | Port (inr n) l => [sym "P"; sym "s"; TText n] ++ toks_of_plink l
  | _ => [sym "other"]
  end.
Definition toks_of_segs (segs : list seg) : list tok :=
  TInt (Z.of_nat (List.length segs)) :: flat_map toks_of_mseg segs.
Definition toks_of_bytes_res (r : res (list Z)) : list tok :=
  match r with
  | Ok b => [sym "ok"; TBytes b]
  | Err e => [sym "err"; TInt (exn_code e)]
  end.
Definition tok_opt (p : option Z) : tok := match p with Some z => TInt z | None => sym "none" end.

(* ---------------------------------------------------------------- AST <- tokens
   <ast>   ::= <host text> <tcp | -1> <tcp zeros> <shape>
   <shape> ::= E <n> <hopsp>*n | S <slot> <sep> <zeros>
   <hopsp> ::= <port> (s <slot> | a <quad text>) <sep1> (n <zeros> | a <alias text>) <sep2> <link zeros> *)
Fixpoint hops_of_toks (n : nat) (ts : list tok) : option (list hop * list hop_sp) :=
  match n with
  | O => match ts with [] => Some ([], []) | _ => None end
  | S n' =>
      match ts with
      | TInt port :: lk :: lv :: TInt s1 :: pk :: pv :: TInt s2 :: TInt lz :: r =>
          let l := if is_sym "s" lk then match lv with TInt z => Some (Slot z) | _ => None end
                   else if is_sym "a" lk then match lv with TText t => Some (Addr t) | _ => None end
                   else None in
          let p := if is_sym "n" pk then match pv with TInt z => Some (ByNumber (Z.to_nat z)) | _ => None end
                   else if is_sym "a" pk then match pv with TText t => Some (ByName t) | _ => None end
                   else None in
          match l, p, hops_of_toks n' r with
          | Some l', Some p', Some (hs, ss) =>
              Some (mkHop port l' :: hs, mkHopSp s1 p' s2 (Z.to_nat lz) :: ss)
          | _, _, _ => None
          end
      | _ => None
      end
  end.
Definition ast_of_toks (ts : list tok) : option (route_ast * spelling) :=
  match ts with
  | TText host :: TInt tcp :: TInt tz :: k :: r =>
      let t := if tcp <? 0 then None else Some tcp in
      if is_sym "E" k then
        match r with
        | TInt n :: r' =>
            match hops_of_toks (Z.to_nat n) r' with
            | Some (hs, ss) => Some (mkRoute host t (Explicit hs), mkSp (Z.to_nat tz) ss SLASH O)
            | None => None
            end
        | _ => None
        end
      else if is_sym "S" k then
        match r with
        | [TInt slot; TInt sep; TInt z] =>
            Some (mkRoute host t (SlotOnly slot), mkSp (Z.to_nat tz) [] sep (Z.to_nat z))
        | _ => None
        end
      else None
  | _ => None
  end.

Definition rclass_code (c : rclass) : Z :=
  match c with
  | OddSegments => 1 | UnknownPortName => 2 | LinkOutOfRange => 3 | BadLink => 4 | BadTcpPort => 5
  end.
Definition toks_of_hops_meaning (hs : list hop) : list tok :=
  [tbool (small_ports hs); tbool (fits hs); TBytes (route_wire false hs); TBytes (route_wire true hs)].

(* commands (model):
     parse <text> <auto>                 -> ok <host> (none | <int>) <n> <seg>* | err code
     outcome <text> <auto> <pad_length>  -> ok <host> (none | <int>) x.. | err code
     route <text> <auto>                 -> ok <n> <seg>* | err code          parse_cip_route(str)
     rstr <text>                         -> ok x.. | err code                 generic_message(route_path=str)
     fopen <text> <auto> <pad_length>    -> ok x.. | err code                 route + MSG_ROUTER_PATH
     modinfo <text> <auto> <slot>        -> ok x.. | err code                 get_module_info route
     init <text> <driver 0|1|2>          -> ok <ip> <port> x.. | err code     CIPDriver.__init__ + encode
   commands (spec):
     ref <text> <auto>   -> <host> (none | ok p | bad | lenient) (ok small fits x.. x.. | unspec | reject cls)
     ast <auto> <ast>    -> ok <text> <wf_route> <wf_spelling> (none | some small fits x.. x..) | ERR *)
Definition handle0 (ts : list tok) : list tok :=
  match ts with
  | cmd :: TText s :: r =>
      if is_sym "parse" cmd then
        match r with
        | [TInt auto] =>
            match parse_connection_path s (flag auto) with
            | Ok (h, p, segs) => [sym "ok"; TText h; tok_opt p] ++ toks_of_segs segs
            | Err e => [sym "err"; TInt (exn_code e)]
            end
        | _ => [sym "ERR"; sym "badline"]
        end
      else if is_sym "outcome" cmd then
        match r with
        | [TInt auto; TInt pl] =>
            match outcome s (flag auto) (flag pl) with
            | inr (h, p, b) => [sym "ok"; TText h; tok_opt p; TBytes b]
            | inl e => [sym "err"; TInt (exn_code e)]
            end
        | _ => [sym "ERR"; sym "badline"]
        end
      else if is_sym "route" cmd then
        match r with
        | [TInt auto] =>
            match parse_cip_route s (flag auto) with
            | Ok segs => sym "ok" :: toks_of_segs segs
            | Err e => [sym "err"; TInt (exn_code e)]
            end
        | _ => [sym "ERR"; sym "badline"]
        end
      else if is_sym "rstr" cmd then toks_of_bytes_res (route_bytes_of_route_string s)
      else if is_sym "fopen" cmd then
        match r with
        | [TInt auto; TInt pl] =>
            toks_of_bytes_res (let* (_, segs) := parse_connection_path s (flag auto) in
                               forward_open_path segs (flag pl))
        | _ => [sym "ERR"; sym "badline"]
        end
      else if is_sym "modinfo" cmd then
        match r with
        | [TInt auto; TInt slot] =>
            toks_of_bytes_res (let* (_, segs) := parse_connection_path s (flag auto) in
                               module_info_path segs slot)
        | _ => [sym "ERR"; sym "badline"]
        end
      else if is_sym "init" cmd then
        match r with
        | [TInt d] =>
            let drv := if d =? 0 then CIPDriver else if d =? 1 then LogixDriver else SLCDriver in
            match driver_init drv s with
            | Ok c => [sym "ok"; TText (cfg_ip c); TInt (cfg_port c)] ++ toks_of_bytes_res (encode_route (cfg_cip_path c) true)
            | Err e => [sym "err"; TInt (exn_code e)]
            end
        | _ => [sym "ERR"; sym "badline"]
        end
      else if is_sym "ref" cmd then
        match r with
        | [TInt auto] =>
            let v := ref_parse (flag auto) s in
            [TText (v_host v)]
            ++ (match v_tcp v with
                | TcpNone => [sym "none"]
                | TcpOk p => [sym "ok"; TInt p]
                | TcpBad => [sym "bad"]
                | TcpLenient => [sym "lenient"]
                end)
            ++ (match v_route v with
                | RouteOk hs => sym "ok" :: toks_of_hops_meaning hs
                | RouteUnspec => [sym "unspec"]
                | RouteReject c => [sym "reject"; TInt (rclass_code c)]
                end)
        | _ => [sym "ERR"; sym "badline"]
        end
      else [sym "ERR"; sym "badcmd"]
  | cmd :: TInt auto :: r =>
      if is_sym "ast" cmd then
        match ast_of_toks r with
        | Some (a, sp) =>
            [sym "ok"; TText (render sp a); tbool (wf_route a); tbool (wf_spelling sp a)]
            ++ match hops_of (flag auto) (r_shape a) with
               | Some hs => sym "some" :: toks_of_hops_meaning hs
               | None => [sym "none"]
               end
        | None => [sym "ERR"; sym "badast"]
        end
      else [sym "ERR"; sym "badcmd"]
  | _ => [sym "ERR"; sym "badline"]
  end.

(* long <count> <char> <cmd> <text before> <text after> <args>* : the command on the string
   before ++ char^count ++ after (the line parser of Base/Proto.v is quadratic in the length of one
   token; the 4300-digit numerals of the int-limit boundary are sent run-length encoded) *)
Definition handle (ts : list tok) : list tok :=
  match ts with
  | l :: TInt n :: TInt c :: cmd :: TText a :: TText b :: r =>
      if is_sym "long" l then handle0 (cmd :: TText (a ++ repeat c (Z.to_nat n) ++ b) :: r)
      else handle0 ts
  | _ => handle0 ts
  end.

Definition init_state : unit := tt.
Definition step_line (s : unit) (line : list Z) : unit * list Z := (s, run_line handle line).

Extraction "../ocaml/gen/c15_model.ml" init_state step_line.
