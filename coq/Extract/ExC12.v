(* Extract/ExC12.v — co-process entry points for the C12 correspondence (socket model). *)
From Coq Require Import String.
From PV Require Import Base.Bytes Base.Proto Base.Res Model.Sock.
From Coq Require Import ExtrOcamlBasic.
Open Scope string_scope.
Open Scope Z_scope.

(* recv <fuel> <closed|timeout> { c <bytes> | closed | raise }*   ->  ok <bytes> | err <code> | fuel
   send <fuel> <msg> { a <n> | raise }*                            ->  ok <n> <wire> | err <code> <wire> | fuel <wire> *)
Fixpoint parse_evs (fuel : nat) (ts : list tok) : list ev :=
  match fuel with
  | O => []
  | S f =>
      match ts with
      | k :: TBytes b :: r => if is_sym "c" k then Chunk b :: parse_evs f r else []
      | k :: r => if is_sym "closed" k then Closed :: parse_evs f r
                  else if is_sym "raise" k then Raise :: parse_evs f r else []
      | [] => []
      end
  end.
Fixpoint parse_sevs (fuel : nat) (ts : list tok) : list sev :=
  match fuel with
  | O => []
  | S f =>
      match ts with
      | k :: TInt n :: r => if is_sym "a" k then Accept (Z.to_nat n) :: parse_sevs f r else []
      | k :: r => if is_sym "raise" k then SRaise :: parse_sevs f r else []
      | [] => []
      end
  end.

Definition handle (ts : list tok) : list tok :=
  match ts with
  | cmd :: TInt fuel :: tl :: r =>
      if is_sym "recv" cmd then
        match receive (Z.to_nat fuel) (parse_evs (length r) r) (if is_sym "closed" tl then ClosedForever else RaiseTimeout) with
        | Done (Ok d) => [sym "ok"; TBytes d]
        | Done (Err e) => [sym "err"; TInt (exn_code e)]
        | OutOfFuel => [sym "fuel"]
        end
      else if is_sym "send" cmd then
        match tl with
        | TBytes msg =>
            match send (Z.to_nat fuel) msg (parse_sevs (length r) r) with
            | (Done (Ok n), w) => [sym "ok"; TInt (Z.of_nat n); TBytes w]
            | (Done (Err e), w) => [sym "err"; TInt (exn_code e); TBytes w]
            | (OutOfFuel, w) => [sym "fuel"; TBytes w]
            end
        | _ => [sym "ERR"; sym "badmsg"]
        end
      else [sym "ERR"; sym "badcmd"]
  | _ => [sym "ERR"; sym "badline"]
  end.

Definition init_state : unit := tt.
Definition step_line (s : unit) (line : list Z) : unit * list Z := (s, run_line handle line).
Extraction "../ocaml/gen/c12_model.ml" init_state step_line.
