(* Extract/ExC14.v — co-process entry points for the C14 correspondence: the generic-messaging
   model (Model/Generic.v) AND the spec-side reading of a frame (Spec/GenericSpec.v).

   <drv>   = <session> <cid bytes> <connected 0/1> <context bytes> <option> <seq variable> <micro800 0/1> <k> <seg>*k
   <seg>   = the C09 token grammar:  L <text type> i <int> | L <text type> b <bytes>
             | P n <int> <link> | P s <text> <link>  (link = i <int> | s <text> | b <bytes>) | S <text> | D <bytes> | R <bytes>
   <args>  = <service: i <int> | b <bytes>> <class lval> <instance lval> <attribute: none | lval> <data bytes>
             <dt> <name text> <connected 0/1> <ucsend 0/1> <route>
   <lval>  = i <int> | b <bytes>
   <dt>    = none | <type term of the codec grammar: NAME | nbytes n | arr n T | arrp i L T | arrall T | struct k (key T)*k>
   <route> = true | false | str <text> | bytes <bytes> | segs <k> <seg>*k

   commands
     gm <drv> <args>                -> <seq'> ok <frame> | <seq'> err <code> | <seq'> needfo
     resp <args> <raw bytes>        -> tag <value> <error> | err <code> | hang
                                       value = N | raw <bytes> | val <codec value tokens>;  error = N | t <text> | parse
     hreq <drv> <helper>            -> <seq'> ok <frame> | <seq'> err <code> | <seq'> needfo
     hresp <drv> <helper> <raw>     -> ok <codec value>            (modinfo / plcname / plcinfo)
                                     | time <us | N> <datetime present 0/1> <error>   (gettime)
                                     | tag <value> <error>         (settime)
                                     | err <code> | hang
          <helper> = modinfo <slot> | plcname | plcinfo | gettime | settime <us>
     extract <frame>                -> ok <mode> <session> <service> <class> <instance> <attribute | -1> <data>
                                       (mode = conn <cid> <seq> | ucmm | ucsend <priority> <ticks> <route bytes>)
                                     | rej <code>                  (Spec/GenericSpec.v spec_reject_code) *)
From Coq Require Import String.
From PV Require Import Base.Bytes Base.Proto Base.Res Base.PyStr Model.Path Model.Generic.
From PV Require Model.CodecPrim Model.Codec Model.Reply.
From PV Require Import Spec.EncapParser Spec.MRParser Spec.TargetIface Spec.GenericSpec.
From PV Require Spec.TargetProto.
From Coq Require Import ExtrOcamlBasic.
Open Scope string_scope.
Open Scope Z_scope.

(* ---------------------------------------------------------------- segments (C09 grammar) *)
Definition link_of_toks (ts : list tok) : option (plink * list tok) :=
  match ts with
  | k :: TInt z :: r => if is_sym "i" k then Some (LinkInt z, r) else None
  | k :: TText s :: r => if is_sym "s" k then Some (LinkStr s, r) else None
  | k :: TBytes b :: r => if is_sym "b" k then Some (LinkBytes b, r) else None
  | _ => None
  end.

Definition seg_of_toks (ts : list tok) : option (seg * list tok) :=
  match ts with
  | [] => None
  | c :: r0 =>
      if is_sym "L" c then
        match r0 with
        | TText t :: k :: TInt z :: r => if is_sym "i" k then Some (Logical t (LInt z), r) else None
        | TText t :: k :: TBytes b :: r => if is_sym "b" k then Some (Logical t (LBytes b), r) else None
        | _ => None
        end
      else if is_sym "P" c then
        match r0 with
        | k :: TInt n :: r =>
            if is_sym "n" k then
              match link_of_toks r with Some (l, r') => Some (Port (inl n) l, r') | None => None end
            else None
        | k :: TText n :: r =>
            if is_sym "s" k then
              match link_of_toks r with Some (l, r') => Some (Port (inr n) l, r') | None => None end
            else None
        | _ => None
        end
      else if is_sym "S" c then match r0 with TText s :: r => Some (DataSym s, r) | _ => None end
      else if is_sym "D" c then match r0 with TBytes b :: r => Some (DataRaw b, r) | _ => None end
      else if is_sym "R" c then match r0 with TBytes b :: r => Some (RawBytes b, r) | _ => None end
      else None
  end.

Section Parse.
  Context {A : Type}.
  Variable p : list tok -> option (A * list tok).
  Fixpoint parse_n (k : nat) (ts : list tok) : option (list A * list tok) :=
    match k with
    | O => Some ([], ts)
    | S k' => match p ts with
              | Some (a, r) => match parse_n k' r with
                               | Some (l, r') => Some (a :: l, r')
                               | None => None
                               end
              | None => None
              end
    end.
End Parse.

Definition segs_of_toks (ts : list tok) : option (list seg * list tok) :=
  match ts with
  | TInt k :: r => parse_n seg_of_toks (Z.to_nat k) r
  | _ => None
  end.

Definition lval_of_toks (ts : list tok) : option (lval * list tok) :=
  match ts with
  | k :: TInt z :: r => if is_sym "i" k then Some (LInt z, r) else None
  | k :: TBytes b :: r => if is_sym "b" k then Some (LBytes b, r) else None
  | _ => None
  end.

Definition bool_of (z : Z) : bool := negb (z =? 0).

(* ---------------------------------------------------------------- codec type terms / values (subset of ExCodec's grammar) *)
Definition parse_key (ts : list tok) : option (CodecPrim.key * list tok) :=
  match ts with
  | TText s :: r => Some (Some s, r)
  | t :: r => if is_sym "-" t then Some (None, r) else None
  | [] => None
  end.

Definition named_ty (s : list Z) : option Codec.ty :=
  if zs_eqb s (zs_of_string "IPAddress") then Some Codec.TIPAddr
  else if zs_eqb s (zs_of_string "Revision") then Codec.Revision_ty
  else if zs_eqb s (zs_of_string "ModuleIdentityObject") then Codec.ModuleIdentityObject_ty
  else if zs_eqb s (zs_of_string "ListIdentityObject") then Codec.ListIdentityObject_ty
  else Codec.ty_of_name s.

Fixpoint parse_ty (fuel : nat) (ts : list tok) : option (Codec.ty * list tok) :=
  match fuel with
  | O => None
  | S f =>
      match ts with
      | TSym s :: r =>
          if zs_eqb s (zs_of_string "nbytes") then
            match r with TInt n :: r1 => Some (Codec.TNBytes n, r1) | _ => None end
          else if zs_eqb s (zs_of_string "arr") then
            match r with
            | TInt n :: r1 => match parse_ty f r1 with Some (e, r2) => Some (Codec.TArrFixed (Z.to_nat n) e, r2) | None => None end
            | _ => None
            end
          else if zs_eqb s (zs_of_string "arrp") then
            match r with
            | TInt i :: r1 =>
                match parse_ty f r1 with
                | Some (lt, r2) => match parse_ty f r2 with Some (e, r3) => Some (Codec.TArrPrefix (negb (i =? 0)) lt e, r3) | None => None end
                | None => None
                end
            | _ => None
            end
          else if zs_eqb s (zs_of_string "arrall") then
            match parse_ty f r with Some (e, r1) => Some (Codec.TArrAll e, r1) | None => None end
          else if zs_eqb s (zs_of_string "struct") then
            match r with
            | TInt k :: r1 =>
                match parse_n (fun ts => match parse_key ts with
                                         | Some (key, r) => match parse_ty f r with Some (t, r') => Some ((key, t), r') | None => None end
                                         | None => None
                                         end) (Z.to_nat k) r1 with
                | Some (ms, r2) => Some (Codec.TStruct Codec.SPlain ms, r2)
                | None => None
                end
            | _ => None
            end
          else match named_ty s with Some t => Some (t, r) | None => None end
      | _ => None
      end
  end.

Definition parse_dt (ts : list tok) : option (option Codec.ty * list tok) :=
  match ts with
  | t :: r => if is_sym "none" t then Some (None, r)
              else match parse_ty (S (List.length ts)) ts with Some (ty, r') => Some (Some ty, r') | None => None end
  | [] => None
  end.

Definition print_key (k : CodecPrim.key) : tok := match k with None => sym "-" | Some s => TText s end.

Fixpoint print_val (v : CodecPrim.val) : list tok :=
  match v with
  | CodecPrim.VNone => [sym "N"]
  | CodecPrim.VBool b => [sym (if b then "T" else "F")]
  | CodecPrim.VInt z => [TInt z]
  | CodecPrim.VFloat b => [sym "f"; TInt b]
  | CodecPrim.VStr s => [TText s]
  | CodecPrim.VBytes b => [TBytes b]
  | CodecPrim.VList l => sym "l" :: TInt (CodecPrim.zlen l) :: flat_map print_val l
  | CodecPrim.VTuple l => sym "t" :: TInt (CodecPrim.zlen l) :: flat_map print_val l
  | CodecPrim.VDict d => sym "d" :: TInt (CodecPrim.zlen d) :: flat_map (fun kv => print_key (fst kv) :: print_val (snd kv)) d
  | CodecPrim.VType n => [sym "c"; TSym n]
  end.

(* ---------------------------------------------------------------- drv / args *)
Definition drv_of_toks (ts : list tok) : option (drv * list tok) :=
  match ts with
  | TInt ses :: TBytes cid :: TInt conn :: TBytes ctx :: TInt opt :: TInt sq :: TInt m8 :: r =>
      match segs_of_toks r with
      | Some (segs, r') =>
          Some ({| d_session := ses; d_cid := cid; d_connected := bool_of conn; d_context := ctx; d_option := opt;
                   d_seq := sq; d_cip_path := segs; d_micro800 := bool_of m8 |}, r')
      | None => None
      end
  | _ => None
  end.

Definition sval_of_toks (ts : list tok) : option (sval * list tok) :=
  match ts with
  | k :: TInt z :: r => if is_sym "i" k then Some (SInt z, r) else None
  | k :: TBytes b :: r => if is_sym "b" k then Some (SBytes b, r) else None
  | _ => None
  end.

Definition attr_of_toks (ts : list tok) : option (option lval * list tok) :=
  match ts with
  | t :: r => if is_sym "none" t then Some (None, r)
              else match lval_of_toks ts with Some (v, r') => Some (Some v, r') | None => None end
  | [] => None
  end.

Definition route_of_toks (ts : list tok) : option (route_arg * list tok) :=
  match ts with
  | t :: r =>
      if is_sym "true" t then Some (RTrue, r)
      else if is_sym "false" t then Some (RFalse, r)
      else if is_sym "str" t then match r with TText s :: r' => Some (RStr s, r') | _ => None end
      else if is_sym "bytes" t then match r with TBytes b :: r' => Some (RBytes b, r') | _ => None end
      else if is_sym "segs" t then match segs_of_toks r with Some (l, r') => Some (RSegs l, r') | None => None end
      else None
  | [] => None
  end.

Definition args_of_toks (ts : list tok) : option (gm_args * list tok) :=
  match sval_of_toks ts with
  | Some (svc, r1) =>
    match lval_of_toks r1 with
    | Some (cls, r2) =>
      match lval_of_toks r2 with
      | Some (ins, r3) =>
        match attr_of_toks r3 with
        | Some (att, TBytes data :: r4) =>
          match parse_dt r4 with
          | Some (dt, TText name :: TInt c :: TInt u :: r5) =>
            match route_of_toks r5 with
            | Some (rt, r6) =>
                Some ({| a_service := svc; a_class := cls; a_instance := ins; a_attribute := att; a_data := data;
                         a_dt := dt; a_name := name; a_connected := bool_of c; a_ucsend := bool_of u; a_route := rt |}, r6)
            | None => None
            end
          | _ => None
          end
        | _ => None
        end
      | None => None
      end
    | None => None
    end
  | None => None
  end.

(* ---------------------------------------------------------------- printing *)
Definition print_req {A} (f : A -> bytes) (p : drv * outcome A) : list tok :=
  let '(d, o) := p in
  TInt (d_seq d) ::
  match o with
  | Done a => [sym "ok"; TBytes (f a)]
  | Raised e => [sym "err"; TInt (exn_code e)]
  | NeedForwardOpen => [sym "needfo"]
  end.

Definition print_gerr (e : option gerr) : list tok :=
  match e with
  | None => [sym "N"]
  | Some (EText t) => [sym "t"; TText t]
  | Some EParse => [sym "parse"]
  end.
Definition print_gvalue (v : option gvalue) : list tok :=
  match v with
  | None => [sym "N"]
  | Some (GBytes b) => [sym "raw"; TBytes b]
  | Some (GVal x) => sym "val" :: print_val x
  end.
Definition print_tag (r : res gtag) : list tok :=
  match r with
  | Ok t => sym "tag" :: print_gvalue (g_value t) ++ print_gerr (g_error t)
  | Err e => [sym "err"; TInt (exn_code e)]
  end.
Definition print_valres (r : res CodecPrim.val) : list tok :=
  match r with
  | Ok v => sym "ok" :: print_val v
  | Err e => [sym "err"; TInt (exn_code e)]
  end.

Definition print_mode (m : dmode) : list tok :=
  match m with
  | MConnected cid sq => [sym "conn"; TInt cid; TInt sq]
  | MUcmm => [sym "ucmm"]
  | MUcsend p t r => [sym "ucsend"; TInt p; TInt t; TBytes r]
  end.

Definition bad : list tok := [sym "ERR"; sym "parse"].

(* ---------------------------------------------------------------- helpers *)
Inductive helper := HModInfo (slot : Z) | HPlcName | HPlcInfo | HGetTime | HSetTime (us : Z).

Definition helper_of_toks (ts : list tok) : option (helper * list tok) :=
  match ts with
  | t :: r =>
      if is_sym "modinfo" t then match r with TInt s :: r' => Some (HModInfo s, r') | _ => None end
      else if is_sym "plcname" t then Some (HPlcName, r)
      else if is_sym "plcinfo" t then Some (HPlcInfo, r)
      else if is_sym "gettime" t then Some (HGetTime, r)
      else if is_sym "settime" t then match r with TInt us :: r' => Some (HSetTime us, r') | _ => None end
      else None
  | [] => None
  end.

Definition helper_request (d : drv) (h : helper) : drv * outcome (gm_args * bytes) :=
  match h with
  | HModInfo s => get_module_info_request d s
  | HPlcName => get_plc_name_request d
  | HPlcInfo => get_plc_info_request d
  | HGetTime => get_plc_time_request d
  | HSetTime us => set_plc_time_request d us
  end.

Definition helper_response (h : helper) (a : gm_args) (raw : bytes) : list tok :=
  if decode_hangs (rkind_of (a_connected a)) (a_dt a) raw then [sym "hang"] else
  match h with
  | HModInfo _ => print_valres (get_module_info_response a raw)
  | HPlcName => print_valres (get_plc_name_response a raw)
  | HPlcInfo => print_valres (get_plc_info_response a raw)
  | HGetTime =>
      match get_plc_time_response a raw with
      | Ok t => sym "time" :: match tt_microseconds t with Some z => [TInt z] | None => [sym "N"] end
                ++ TInt (if tt_datetime t then 1 else 0) :: print_gerr (tt_error t)
      | Err e => [sym "err"; TInt (exn_code e)]
      end
  | HSetTime _ => print_tag (set_plc_time_response a raw)
  end.

Definition handle (ts : list tok) : list tok :=
  match ts with
  | cmd :: r =>
      if is_sym "gm" cmd then
        match drv_of_toks r with
        | Some (d, r1) => match args_of_toks r1 with
                          | Some (a, []) => print_req (fun f => f) (gm_request d a)
                          | _ => bad
                          end
        | None => bad
        end
      else if is_sym "resp" cmd then
        match args_of_toks r with
        | Some (a, [TBytes raw]) =>
            if decode_hangs (rkind_of (a_connected a)) (a_dt a) raw then [sym "hang"]
            else print_tag (gm_response a raw)
        | _ => bad
        end
      else if is_sym "hreq" cmd then
        match drv_of_toks r with
        | Some (d, r1) => match helper_of_toks r1 with
                          | Some (h, []) => print_req snd (helper_request d h)
                          | _ => bad
                          end
        | None => bad
        end
      else if is_sym "hresp" cmd then
        match drv_of_toks r with
        | Some (d, r1) =>
            match helper_of_toks r1 with
            | Some (h, [TBytes raw]) =>
                match snd (helper_request d h) with
                | Done (a, _) => helper_response h a raw
                | Raised e => [sym "err"; TInt (exn_code e)]
                | NeedForwardOpen => [sym "needfo"]
                end
            | _ => bad
            end
        | None => bad
        end
      else if is_sym "extract" cmd then
        match r with
        | [TBytes fr] =>
            match spec_extract fr with
            | Some dl => sym "ok" :: print_mode (dl_mode dl) ++
                         [TInt (dl_session dl); TInt (dl_service dl); TInt (dl_class dl); TInt (dl_instance dl);
                          TInt (match dl_attribute dl with Some a => a | None => -1 end); TBytes (dl_data dl)]
            | None => [sym "rej"; TInt (spec_reject_code fr)]
            end
        | _ => bad
        end
      else bad
  | [] => bad
  end.

Definition init_state : unit := tt.
(* lines carry whole frames: the linear-time line reader of Spec/TargetProto.v (same token language) *)
Definition step_line (s : unit) (line : list Z) : unit * list Z :=
  (s, print_line (handle (TargetProto.fparse_line line))).

Extraction "../ocaml/gen/c14_model.ml" init_state step_line.
