(* Extract/ExC03.v — co-process entry points for the C03 correspondence: the shared request parser
   (Model/LogixParse.v) and the result assembly of read / write (Model/LogixResults.v).

   Stateful: the tag database is loaded line by line.
     reset
     dt <key> <name> <size> <handle> <string|-1> { | <member> <struct 0|1> <type name> <dt key|-1> <array> <bit|-1> <size> }*
            a structure type; its members use the types already defined (templates nest, never recurse)
     tag <name> <struct 0|1> <type name> <dt key|-1> <instance id|-1> <size> <dims...>
     parse <r|w> <request>
        -> ok <user_tag> <plc_tag> <bit|none> <elements> <bool_elements|none> <type name> <struct 0|1>
         | err <notag|tagdata|parse> <exn code of the cause> <key / tag>
     read <conn> <micro800> <use_instance_ids> | <request>* | one <id> <reply> | multi <n> <id>*n <m> <reply>*m <packet error|none> | ...
     write <conn> <micro800> <use_instance_ids> | { <request> <uval> <enc len|-1> }* | one ... | multi ...
        -> exc <exn code> | one <tag> | list <n> <tag>*
     plan r|w ...same arguments...   -> exc <code> | packets (M n ids | S id | F id | R rid n ids)
   request: text, or an integer = exn code of what `obj.endswith` raises for a non-str object
   reply:   <ok 0|1> <value> <type|none> <error text>
   value:   n | i <z> | b <0|1> | l <count> <value>* | o <k> | v <uval>
   uval:    <id> <is None 0|1> <truthy 0|1> <bytes length|-1>
   tag:     <request> <value> <type|none> <error|none> *)
From Coq Require Import String.
From PV Require Import Base.Bytes Base.Proto Base.Res Base.PyStr Model.LogixParse Model.LogixPlan Model.Path Model.LogixResults.
From Coq Require Import ExtrOcamlBasic.
Open Scope string_scope.
Open Scope Z_scope.
Open Scope list_scope.

Record state := mkState { st_types : list (Z * taginfo); st_db : tagdb }.
Definition init_state : state := mkState [] [].

Definition zb (z : Z) : bool := negb (z =? 0).
Definition oz (z : Z) : option Z := if z <? 0 then None else Some z.
Definition tok_text (t : tok) : option text :=
  match t with TText s => Some s | TBytes b => Some b | _ => None end.

Fixpoint split_bar (ts : list tok) (cur : list tok) : list (list tok) :=
  match ts with
  | [] => [rev cur]
  | t :: r => if is_sym "|" t then rev cur :: split_bar r [] else split_bar r (t :: cur)
  end.

Fixpoint find_type (ts : list (Z * taginfo)) (k : Z) : option taginfo :=
  match ts with
  | [] => None
  | (k', t) :: r => if k' =? k then Some t else find_type r k
  end.

(* a member / tag of a given type: the structure's definition with this instance id / dims / bit *)
Definition instantiate (types : list (Z * taginfo)) (is_struct : bool) (tname : text) (key : Z)
           (inst : option Z) (dims : list Z) (b : option Z) (size : Z) : taginfo :=
  if is_struct then
    match find_type types key with
    | Some t => TagInfo true (ti_name t) inst dims b (ti_size t) (ti_handle t) (ti_string t) (ti_members t)
    | None => TagInfo true tname inst dims b size 0 None []
    end
  else TagInfo false tname inst dims b size 0 None [].

Definition parse_member (types : list (Z * taginfo)) (g : list tok) : option (text * taginfo) :=
  match g with
  | [n; TInt s; tn; TInt key; TInt arr; TInt b; TInt size] =>
      match tok_text n, tok_text tn with
      | Some name, Some tname =>
          Some (name, instantiate types (zb s) tname key None (if arr =? 0 then [] else [arr]) (oz b) size)
      | _, _ => None
      end
  | _ => None
  end.
Fixpoint filter_some' {A} (l : list (option A)) : list A :=
  match l with [] => [] | Some a :: r => a :: filter_some' r | None :: r => filter_some' r end.

Fixpoint ints_of (ts : list tok) : list Z :=
  match ts with TInt z :: r => z :: ints_of r | _ => [] end.

(* ---- values *)
Definition parse_uval (ts : list tok) : option (uval * list tok) :=
  match ts with
  | TInt i :: TInt n :: TInt t :: TInt b :: r => Some (mkUval i (zb n) (zb t) (oz b), r)
  | _ => None
  end.

Fixpoint parse_val (fuel : nat) (ts : list tok) : option (val * list tok) :=
  match fuel with
  | O => None
  | S f =>
      match ts with
      | k :: r =>
          if is_sym "n" k then Some (VNone, r)
          else if is_sym "i" k then match r with TInt z :: r' => Some (VInt z, r') | _ => None end
          else if is_sym "b" k then match r with TInt z :: r' => Some (VBool (zb z), r') | _ => None end
          else if is_sym "o" k then match r with TInt z :: r' => Some (VOther z, r') | _ => None end
          else if is_sym "v" k then match parse_uval r with Some (u, r') => Some (VUser u, r') | None => None end
          else if is_sym "l" k then
            match r with
            | TInt n :: r' =>
                (fix go (m : nat) (ts : list tok) (acc : list val) : option (val * list tok) :=
                   match m with
                   | O => Some (VList (rev acc), ts)
                   | S m' => match parse_val f ts with
                             | Some (v, ts') => go m' ts' (v :: acc)
                             | None => None
                             end
                   end) (Z.to_nat n) r' []
            | _ => None
            end
          else None
      | [] => None
      end
  end.

Definition print_uval (u : uval) : list tok :=
  [TInt (uv_id u); TInt (if uv_none u then 1 else 0); TInt (if uv_truthy u then 1 else 0);
   TInt (match uv_bytes u with Some n => n | None => -1 end)].
Fixpoint print_val (v : val) : list tok :=
  match v with
  | VNone => [sym "n"]
  | VInt z => [sym "i"; TInt z]
  | VBool b => [sym "b"; TInt (if b then 1 else 0)]
  | VOther k => [sym "o"; TInt k]
  | VUser u => sym "v" :: print_uval u
  | VList l => sym "l" :: TInt (Z.of_nat (length l)) :: flat_map print_val l
  end.

Definition parse_request (t : tok) : option request :=
  match t with
  | TInt k => Some (ReqOther (if k =? 10 then TypeError else AttributeError))
  | _ => match tok_text t with Some s => Some (ReqText s) | None => None end
  end.
Definition print_request (r : request) : tok :=
  match r with ReqText s => TText s | ReqOther k => TInt (exn_code (Foreign k)) end.
Definition print_otext (o : option text) : tok := match o with Some s => TText s | None => sym "none" end.
Definition print_tag (t : tag) : list tok :=
  print_request (t_tag t) :: print_val (t_value t) ++ [print_otext (t_type t); print_otext (t_error t)].
Definition print_result (r : res result) : list tok :=
  match r with
  | Err e => [sym "exc"; TInt (exn_code e)]
  | Ok (ROne t) => sym "one" :: print_tag t
  | Ok (RList l) => sym "list" :: TInt (Z.of_nat (length l)) :: flat_map print_tag l
  end.

(* ---- the recorded peer *)
Definition parse_reply (ts : list tok) : option (reply * list tok) :=
  match ts with
  | TInt ok :: r =>
      match parse_val (S (length r)) r with
      | Some (v, ty :: er :: r') =>
          match tok_text er with
          | Some e => Some (mkReply (zb ok) v (tok_text ty) e, r')
          | None => None
          end
      | _ => None
      end
  | _ => None
  end.
Fixpoint parse_replies (fuel : nat) (ts : list tok) : list reply :=
  match fuel with
  | O => []
  | S f => match parse_reply ts with
           | Some (r, ts') => r :: parse_replies f ts'
           | None => []
           end
  end.

Definition no_reply : reply := mkReply false VNone None (zs_of_string "no reply recorded").
Fixpoint zlist_eqb (a b : list Z) : bool :=
  match a, b with
  | [], [] => true
  | x :: a', y :: b' => (x =? y) && zlist_eqb a' b'
  | _, _ => false
  end.
Fixpoint lookup_one (t : list (Z * reply)) (i : Z) : reply :=
  match t with [] => no_reply | (k, r) :: rest => if k =? i then r else lookup_one rest i end.
Fixpoint lookup_multi (t : list (list Z * list reply)) (ids : list Z) : list reply :=
  match t with [] => [] | (k, r) :: rest => if zlist_eqb k ids then r else lookup_multi rest ids end.

Fixpoint lookup_merr (t : list (list Z * option text)) (ids : list Z) : option text :=
  match t with [] => None | (k, r) :: rest => if zlist_eqb k ids then r else lookup_merr rest ids end.
Fixpoint skip_replies (fuel : nat) (n : nat) (ts : list tok) : list tok :=
  match n with
  | O => ts
  | S n' => match fuel with
            | O => ts
            | S f => match parse_reply ts with Some (_, ts') => skip_replies f n' ts' | None => ts end
            end
  end.

(* groups after the request group: `one <id> <reply>` / `multi <n> ids <m> replies <packet error|none>` *)
Fixpoint parse_peer (gs : list (list tok)) (ones : list (Z * reply)) (multis : list (list Z * list reply))
         (merrs : list (list Z * option text)) : peer :=
  match gs with
  | [] => mkPeer (lookup_one ones) (lookup_multi multis) (lookup_merr merrs)
  | g :: rest =>
      match g with
      | k :: TInt i :: r =>
          if is_sym "one" k then
            match parse_reply r with
            | Some (rp, _) => parse_peer rest (ones ++ [(i, rp)]) multis merrs
            | None => parse_peer rest ones multis merrs
            end
          else if is_sym "multi" k then
            let ids := firstn (Z.to_nat i) (ints_of r) in
            match skipn (Z.to_nat i) r with
            | TInt m :: r' =>
                let reps := firstn (Z.to_nat m) (parse_replies (S (length r')) r') in
                let tail := skip_replies (S (length r')) (Z.to_nat m) r' in
                let merr := match tail with t :: _ => tok_text t | [] => None end in
                parse_peer rest ones (multis ++ [(ids, reps)]) (merrs ++ [(ids, merr)])
            | _ => parse_peer rest ones multis merrs
            end
          else parse_peer rest ones multis merrs
      | _ => parse_peer rest ones multis merrs
      end
  end.

Definition print_packet (p : packet) : list tok :=
  match p with
  | PMulti ids => sym "M" :: TInt (Z.of_nat (length ids)) :: map TInt ids
  | PSingle i => [sym "S"; TInt i]
  | PFrag i => [sym "F"; TInt i]
  | PRmw rid ids => sym "R" :: TInt rid :: TInt (Z.of_nat (length ids)) :: map TInt ids
  end.

Fixpoint parse_wreqs (fuel : nat) (ts : list tok) : list (request * uval * Z) :=
  match fuel with
  | O => []
  | S f => match ts with
           | rq :: r =>
               match parse_request rq, parse_uval r with
               | Some q, Some (u, TInt e :: r') => (q, u, e) :: parse_wreqs f r'
               | _, _ => []
               end
           | [] => []
           end
  end.
Fixpoint lookup_enc (t : list (Z * Z)) (i : Z) : option Z :=
  match t with [] => None | (k, e) :: r => if k =? i then oz e else lookup_enc r i end.

Definition print_parse (r : parsed + perr) : list tok :=
  match r with
  | inl p => [sym "ok"; TText (user_tag p); TText (plc_tag p);
              match bit p with Some b => TInt b | None => sym "none" end; TInt (elements p);
              match bool_elements p with Some b => TInt b | None => sym "none" end;
              TText (ti_name (tag_info p)); TInt (if ti_struct (tag_info p) then 1 else 0)]
  | inr (PE_NoTag k) => [sym "err"; sym "notag"; TInt (exn_code (Foreign KeyError)); TText k]
  | inr (PE_TagData k) => [sym "err"; sym "tagdata"; TInt (exn_code (Foreign k)); TText []]
  | inr (PE_Parse k t) => [sym "err"; sym "parse"; TInt (exn_code (Foreign k)); print_request t]
  end.

Definition handle (st : state) (ts : list tok) : state * list tok :=
  match ts with
  | cmd :: r =>
      if is_sym "reset" cmd then (init_state, [sym "ok"])
      else if is_sym "dt" cmd then
        match split_bar r [] with
        | [TInt key; n; TInt size; TInt handle; TInt str] :: ms =>
            match tok_text n with
            | Some name =>
                let members := filter_some' (map (parse_member (st_types st)) ms) in
                if (length members =? length ms)%nat then
                  (mkState ((key, TagInfo true name None [] None size handle (oz str) members) :: st_types st) (st_db st), [sym "ok"])
                else (st, [sym "ERR"; sym "member"])
            | None => (st, [sym "ERR"; sym "name"])
            end
        | _ => (st, [sym "ERR"; sym "args"])
        end
      else if is_sym "tag" cmd then
        match r with
        | n :: TInt s :: tn :: TInt key :: TInt inst :: TInt size :: dims =>
            match tok_text n, tok_text tn with
            | Some name, Some tname =>
                (mkState (st_types st) (st_db st ++ [(name, instantiate (st_types st) (zb s) tname key (oz inst) (ints_of dims) None size)]),
                 [sym "ok"])
            | _, _ => (st, [sym "ERR"; sym "name"])
            end
        | _ => (st, [sym "ERR"; sym "args"])
        end
      else if is_sym "parse" cmd then
        match r with
        | [m; rq] =>
            match parse_request rq with
            | Some q => (st, print_parse (parse_request_obj (st_db st) (if is_sym "w" m then RwWrite else RwRead) q))
            | None => (st, [sym "ERR"; sym "request"])
            end
        | _ => (st, [sym "ERR"; sym "args"])
        end
      else if is_sym "read" cmd || is_sym "rplan" cmd then
        match split_bar r [] with
        | [TInt conn; TInt micro; TInt ui] :: reqs :: gs =>
            let c := mkCfg conn (zb micro) (zb ui) in
            let rq := filter_some' (map parse_request reqs) in
            if is_sym "read" cmd then (st, print_result (run_read c (st_db st) (parse_peer gs [] [] []) rq))
            else (st, sym "plan" :: flat_map print_packet (read_build c (parse_requested_tags (st_db st) RwRead rq)))
        | _ => (st, [sym "ERR"; sym "args"])
        end
      else if is_sym "write" cmd || is_sym "wplan" cmd then
        match split_bar r [] with
        | [TInt conn; TInt micro; TInt ui] :: reqs :: gs =>
            let c := mkCfg conn (zb micro) (zb ui) in
            let ws := parse_wreqs (S (length reqs)) reqs in
            let enc := map (fun w => (uv_id (snd (fst w)), snd w)) ws in
            let enc_body := fun (_ : parsed) (u : uval) => lookup_enc enc (uv_id u) in
            let tvs := map fst ws in
            if is_sym "write" cmd then (st, print_result (run_write enc_body c (st_db st) (parse_peer gs [] [] []) tvs))
            else
              let qs := parse_requested_tags (st_db st) RwWrite (map fst tvs) in
              (st, sym "plan" :: flat_map print_packet (fst (write_build enc_body c (combine qs (map snd tvs)))))
        | _ => (st, [sym "ERR"; sym "args"])
        end
      else (st, [sym "ERR"; sym "badcmd"])
  | [] => (st, [sym "ERR"; sym "badline"])
  end.

Definition step_line (s : state) (line : list Z) : state * list Z :=
  let (s', out) := handle s (parse_line line) in (s', print_line out).

Extraction "../ocaml/gen/c03_model.ml" init_state step_line.
