(* Extract/ExC13.v — co-process entry points for the C13 correspondence: the reply model
   (Model/Reply.v) and the independent reply reader (Spec/ReplyReader.v).

   cls  unit|rr|base|register <raw>            -> v <0|1> e <err> svc <bytes|none> st <int|none> cst <int|none> data <bytes|none> sess <int|none>
   cls  listid ok|fail <utext> <raw>           -> same (the identity decoder's outcome is an input)
   spec unit|rr <raw>                          -> succ <0|1> wf <0|1> hdr <0|1> gs <int|none> ext <none | <n> none | <n> <val>>
   names unit|rr <raw> <utext>                 -> 0 | 1 | na        (names_status with the words read by the Spec)
   namessub <sub> <utext>                      -> 0 | 1 | na
   sub <bytes>                                 -> succ <0|1> wf <0|1>
   multispec <raw>                             -> none | subs <k> <bytes>*k
   subok <raw> <i>                             -> 0 | 1              (multi_sub_success)
   call <callspec> <raw>*                      -> tags <n> {val <none|i z|l n z*|b bytes> err <none|utext>}*n | bool <0|1> | exc <code> <utext>
     callspec := read <ty> a|r <elements> | readfrag <ty> a|r <elements> | write <z> | writefrag <n> <z>
               | multi <k> { r <ty> a|r <elements> | w <z> }*k | generic unit|rr none|<ty> | open | fo <utext> <callspec>
   <err> := none | t <utext> | x <code> <utext> *)
From Coq Require Import String.
From PV Require Import Base.Bytes Base.Proto Base.Res Base.PyStr.
From PV Require Import Model.EnumMapDefs Model.EnumMap Model.Reply Spec.ReplyReader.
From PV Require Import Gen.Types Gen.Status.
From Coq Require Import ExtrOcamlBasic.
Open Scope string_scope.
Open Scope Z_scope.

Definition b01 (b : bool) : tok := TInt (if b then 1 else 0).
Definition none_t : tok := sym "none".
Definition opt_int (o : option Z) : tok := match o with Some z => TInt z | None => none_t end.
Definition opt_bytes (o : option bytes) : tok := match o with Some b => TBytes b | None => none_t end.
Definition key_bytes (o : option key) : tok := match o with Some (KBytes b) => TBytes b | Some _ => sym "other" | None => none_t end.

Definition err_toks (e : rm (option text)) : list tok :=
  match e with
  | ROk None => [none_t]
  | ROk (Some t) => [sym "t"; TText t]
  | RErr x m => [sym "x"; TInt (exn_code x); TText m]
  end.

Definition resp_toks (k : rkind) (r : resp) : list tok :=
  [sym "v"; b01 (is_valid k r); sym "e"] ++ err_toks (error k r) ++
  [sym "svc"; key_bytes (r_service r); sym "st"; opt_int (r_service_status r); sym "cst"; opt_int (r_command_status r);
   sym "data"; opt_bytes (r_data r); sym "sess"; opt_int (r_session r)].

Definition ety_of (s : list Z) : option ety :=
  match find_row type_rows s with
  | Some (sz, fmt) => Some {| ety_name := s; ety_size := Z.to_nat sz; ety_signed := fmt_signed fmt |}
  | None => None
  end.

Definition value_toks (v : option value) : list tok :=
  match v with
  | None => [none_t]
  | Some (VInt z) => [sym "i"; TInt z]
  | Some (VList l) => sym "l" :: TInt (Z.of_nat (length l)) :: map TInt l
  | Some (VBytes b) => [sym "b"; TBytes b]
  end.
Definition tag_toks (t : tag) : list tok :=
  sym "val" :: value_toks (t_value t) ++ sym "err" :: match t_error t with None => [none_t] | Some e => [TText e] end.

Definition out_toks (o : rm out) : list tok :=
  match o with
  | ROk (OTags l) => sym "tags" :: TInt (Z.of_nat (length l)) :: flat_map tag_toks l
  | ROk (OBool b) => [sym "bool"; b01 b]
  | RErr e m => [sym "exc"; TInt (exn_code e); TText m]
  end.

Definition rty_of (ty : list Z) (shape : tok) : option rty :=
  match ety_of ty with
  | Some t => if is_sym "a" shape then Some (RAtomic t) else if is_sym "r" shape then Some (RArray t) else None
  | None => None
  end.

(* k sub-requests of a multi-service call *)
Fixpoint parse_sreqs (k : nat) (ts : list tok) : option (list sreq * list tok) :=
  match k with
  | O => Some ([], ts)
  | S k' =>
      match ts with
      | c :: TSym ty :: shape :: TInt n :: r =>
          if is_sym "r" c then
            match rty_of ty shape, parse_sreqs k' r with
            | Some rt, Some (qs, r') => Some (SRead (read_decoder rt (Z.to_nat n)) :: qs, r')
            | _, _ => None
            end
          else None
      | c :: TInt z :: r =>
          if is_sym "w" c then
            match parse_sreqs k' r with Some (qs, r') => Some (SWrite (VInt z) :: qs, r') | None => None end
          else None
      | _ => None
      end
  end.

Fixpoint parse_call (fuel : nat) (ts : list tok) : option (call * list tok) :=
  match fuel with
  | O => None
  | S f =>
      match ts with
      | c :: r =>
          if is_sym "read" c then
            match r with
            | TSym ty :: shape :: TInt n :: r' =>
                match rty_of ty shape with Some rt => Some (CRead (read_decoder rt (Z.to_nat n)), r') | None => None end
            | _ => None
            end
          else if is_sym "readfrag" c then
            match r with
            | TSym ty :: shape :: TInt n :: r' =>
                match rty_of ty shape with Some rt => Some (CReadFrag (read_decoder rt (Z.to_nat n)), r') | None => None end
            | _ => None
            end
          else if is_sym "write" c then
            match r with TInt z :: r' => Some (CWrite (VInt z), r') | _ => None end
          else if is_sym "writefrag" c then
            match r with TInt n :: TInt z :: r' => Some (CWriteFrag (VInt z) (Nat.pred (Z.to_nat n)), r') | _ => None end
          else if is_sym "multi" c then
            match r with
            | TInt k :: r' => match parse_sreqs (Z.to_nat k) r' with Some (qs, r'') => Some (CMulti qs, r'') | None => None end
            | _ => None
            end
          else if is_sym "generic" c then
            match r with
            | kk :: dt :: r' =>
                let k := if is_sym "rr" kk then KRR else KUnit in
                if is_sym "none" dt then Some (CGeneric k None, r')
                else match dt with
                     | TSym ty => match ety_of ty with Some t => Some (CGeneric k (Some (elem_decoder t)), r') | None => None end
                     | _ => None
                     end
            | _ => None
            end
          else if is_sym "open" c then Some (COpen, r)
          else if is_sym "fo" c then
            match r with
            | TText fname :: r' => match parse_call f r' with Some (c', r'') => Some (CWithFO fname c', r'') | None => None end
            | _ => None
            end
          else None
      | [] => None
      end
  end.

Fixpoint raws_of (ts : list tok) : list bytes :=
  match ts with
  | TBytes b :: r => b :: raws_of r
  | _ => []
  end.

Definition layout_of (t : tok) : layout := if is_sym "rr" t then rr_layout else unit_layout.
Definition partial_of (t : tok) : bool := negb (is_sym "rr" t).

Definition ext_toks (e : option (Z * option Z)) : list tok :=
  match e with
  | None => [none_t]
  | Some (n, None) => [TInt n; none_t]
  | Some (n, Some v) => [TInt n; TInt v]
  end.

Definition handle (ts : list tok) : list tok :=
  match ts with
  | cmd :: r =>
      if is_sym "cls" cmd then
        match r with
        | [k; TBytes raw] =>
            if is_sym "unit" k then resp_toks KUnit (parse_unit raw)
            else if is_sym "rr" k then resp_toks KRR (parse_rr raw)
            else if is_sym "base" k then resp_toks KBase (parse_base raw)
            else if is_sym "register" k then resp_toks KRegister (parse_register raw)
            else [sym "ERR"; sym "badkind"]
        | [k; okf; TText m; TBytes raw] =>
            if is_sym "listid" k then
              resp_toks KListIdentity
                (parse_list_identity (fun _ => if is_sym "ok" okf then ROk tt else RErr DataError m) raw)
            else [sym "ERR"; sym "badkind"]
        | _ => [sym "ERR"; sym "badcls"]
        end
      else if is_sym "spec" cmd then
        match r with
        | [k; TBytes raw] =>
            let L := layout_of k in
            [sym "succ"; b01 (spec_success (partial_of k) L raw); sym "wf"; b01 (wf_cip_reply L raw);
             sym "hdr"; b01 (wf_header_only_error raw); sym "gs"; opt_int (byte_at (l_status L) raw); sym "ext"]
            ++ ext_toks (ext_status L raw)
        | _ => [sym "ERR"; sym "badspec"]
        end
      else if is_sym "names" cmd then
        match r with
        | [k; TBytes raw; TText t] =>
            let L := layout_of k in
            match byte_at (l_status L) raw with
            | Some gs => [b01 (names_status service_status extend_codes gs (ext_value (ext_status L raw)) t)]
            | None => [sym "na"]
            end
        | _ => [sym "ERR"; sym "badnames"]
        end
      else if is_sym "namessub" cmd then
        match r with
        | [TBytes d; TText t] =>
            match byte_at 2 d with
            | Some gs => [b01 (names_status service_status extend_codes gs (ext_value (sub_ext_status d)) t)]
            | None => [sym "na"]
            end
        | _ => [sym "ERR"; sym "badnames"]
        end
      else if is_sym "sub" cmd then
        match r with
        | [TBytes d] => [sym "succ"; b01 (sub_success d); sym "wf"; b01 (wf_sub_reply d)]
        | _ => [sym "ERR"; sym "badsub"]
        end
      else if is_sym "multispec" cmd then
        match r with
        | [TBytes raw] => match read_multi raw with
                          | Some subs => sym "subs" :: TInt (Z.of_nat (length subs)) :: map TBytes subs
                          | None => [none_t]
                          end
        | _ => [sym "ERR"; sym "badmultispec"]
        end
      else if is_sym "subok" cmd then
        match r with
        | [TBytes raw; TInt i] => [b01 (multi_sub_success raw (Z.to_nat i))]
        | _ => [sym "ERR"; sym "badsubok"]
        end
      else if is_sym "call" cmd then
        match parse_call (length r) r with
        | Some (c, rest) => out_toks (run_call c (raws_of rest))
        | None => [sym "ERR"; sym "badcall"]
        end
      else [sym "ERR"; sym "badcmd"]
  | [] => [sym "ERR"; sym "badline"]
  end.

Definition init_state : unit := tt.
Definition step_line (s : unit) (line : list Z) : unit * list Z := (s, run_line handle line).
Extraction "../ocaml/gen/c13_model.ml" init_state step_line.
