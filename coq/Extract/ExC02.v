(* Extract/ExC02.v — co-process entry points for the C02 correspondence (Model/LogixWrite.v) and the
   spec-side bit arithmetic (Spec/Expect.v set_bit_byte).

   types   T ::= e <class name> | a <n> T | f <size> <capacity>
               | s <size> <nm> (<name> <offset> T)*nm <nb> (<name> <offset> <bit>)*nb <np> (<name>)*np
   values  V ::= N | B <0|1> | I <int> | F <binary64 bits> | S <text> | Y <bytes> | L <n> V*n | D <n> (<name> V)*n
   request Q ::= q 1 <id>                                                              (parse error)
               | q 0 <id> <plc_tag> <bit|-1> <elements> <bool_elements|-1> <struct 0|1> <data_type_name>
                     <structure handle> <instance id|-1> T V
   commands
     enc T V                         -> ok <bytes> | err <exn code>          type_class.encode(value)
     encval Q                        -> ok <bytes> <elements> | err <code>   encode_value(parsed_tag)
     rmw <dword 0|1> (<bit> <0|1>)*  -> <or mask> <and mask>                 ReadModifyWriteRequestPacket.set_bit*
     specbits <old> (<bit> <0|1>)*   -> <new>                                Spec: set_bit_byte folded (reference)
     write <conn> <micro800> <use instance ids> <sequence counter> Q*
          -> ok <npackets> P* E <ids with an error>*   | err <code>
             P ::= M <seq> <n> <id>*n <message> | S <id> <message> | F <id> <nseg> <message>*nseg
                 | R <rid> <n> <id>*n <message>
     results (<n> <status>*n)*       -> ok (<id> <0|1>)* | err <code>   outcome of every request of the LAST
                                        write, given the reply statuses per packet (err: write() raises) *)
From Coq Require Import String.
From PV Require Import Base.Bytes Base.Res Base.Proto Base.PyStr Model.LogixPlan Model.LogixWrite Spec.Expect.
From Coq Require Import ExtrOcamlBasic.
Open Scope string_scope.
Open Scope Z_scope.

Definition zb (z : Z) : bool := negb (z =? 0).
Definition name_of (t : tok) : option text :=
  match t with TBytes b => Some b | TText s => Some s | _ => None end.

Fixpoint parse_ty (fuel : nat) (ts : list tok) {struct fuel} : option (wty * list tok) :=
  match fuel with
  | O => None
  | S f =>
      match ts with
      | k :: r =>
          if is_sym "e" k then
            match r with n :: r' => match name_of n with Some s => Some (WElem s, r') | None => None end | _ => None end
          else if is_sym "a" k then
            match r with
            | TInt n :: r' => match parse_ty f r' with Some (e, r2) => Some (WArray n e, r2) | None => None end
            | _ => None
            end
          else if is_sym "f" k then
            match r with TInt size :: TInt cap :: r' => Some (WFixedStr size cap, r') | _ => None end
          else if is_sym "s" k then
            match r with
            | TInt size :: TInt nm :: r1 =>
                let fix members (k : nat) (ts : list tok) {struct k} : option (list (text * Z * wty) * list tok) :=
                  match k with
                  | O => Some ([], ts)
                  | S k' => match ts with
                            | n :: TInt off :: r2 =>
                                match name_of n, parse_ty f r2 with
                                | Some s, Some (t, r3) =>
                                    match members k' r3 with
                                    | Some (ms, r4) => Some ((s, off, t) :: ms, r4)
                                    | None => None
                                    end
                                | _, _ => None
                                end
                            | _ => None
                            end
                  end in
                match members (Z.to_nat nm) r1 with
                | Some (ms, TInt nb :: r2) =>
                    let fix bitsp (k : nat) (ts : list tok) {struct k} : option (list (text * (Z * Z)) * list tok) :=
                      match k with
                      | O => Some ([], ts)
                      | S k' => match ts with
                                | n :: TInt off :: TInt bit :: r3 =>
                                    match name_of n, bitsp k' r3 with
                                    | Some s, Some (bs, r4) => Some ((s, (off, bit)) :: bs, r4)
                                    | _, _ => None
                                    end
                                | _ => None
                                end
                      end in
                    match bitsp (Z.to_nat nb) r2 with
                    | Some (bs, TInt np :: r3) =>
                        let fix privp (k : nat) (ts : list tok) {struct k} : option (list text * list tok) :=
                          match k with
                          | O => Some ([], ts)
                          | S k' => match ts with
                                    | n :: r4 => match name_of n, privp k' r4 with
                                                 | Some s, Some (ps, r5) => Some (s :: ps, r5)
                                                 | _, _ => None
                                                 end
                                    | _ => None
                                    end
                          end in
                        match privp (Z.to_nat np) r3 with
                        | Some (ps, r4) => Some (WStructTag ms bs ps size, r4)
                        | None => None
                        end
                    | _ => None
                    end
                | _ => None
                end
            | _ => None
            end
          else None
      | [] => None
      end
  end.

Fixpoint parse_val (fuel : nat) (ts : list tok) {struct fuel} : option (pv * list tok) :=
  match fuel with
  | O => None
  | S f =>
      match ts with
      | k :: r =>
          if is_sym "N" k then Some (PNone, r)
          else if is_sym "B" k then match r with TInt b :: r' => Some (PBool (zb b), r') | _ => None end
          else if is_sym "I" k then match r with TInt z :: r' => Some (PInt z, r') | _ => None end
          else if is_sym "F" k then match r with TInt z :: r' => Some (PFloat z, r') | _ => None end
          else if is_sym "S" k then match r with n :: r' => match name_of n with Some s => Some (PStr s, r') | None => None end | _ => None end
          else if is_sym "Y" k then match r with TBytes b :: r' => Some (PBytes b, r') | _ => None end
          else if is_sym "L" k then
            match r with
            | TInt n :: r' =>
                let fix items (k : nat) (ts : list tok) {struct k} : option (list pv * list tok) :=
                  match k with
                  | O => Some ([], ts)
                  | S k' => match parse_val f ts with
                            | Some (v, r2) => match items k' r2 with Some (vs, r3) => Some (v :: vs, r3) | None => None end
                            | None => None
                            end
                  end in
                match items (Z.to_nat n) r' with Some (vs, r2) => Some (PList vs, r2) | None => None end
            | _ => None
            end
          else if is_sym "D" k then
            match r with
            | TInt n :: r' =>
                let fix fields (k : nat) (ts : list tok) {struct k} : option (list (text * pv) * list tok) :=
                  match k with
                  | O => Some ([], ts)
                  | S k' => match ts with
                            | nm :: r1 =>
                                match name_of nm, parse_val f r1 with
                                | Some s, Some (v, r2) =>
                                    match fields k' r2 with Some (fs, r3) => Some ((s, v) :: fs, r3) | None => None end
                                | _, _ => None
                                end
                            | [] => None
                            end
                  end in
                match fields (Z.to_nat n) r' with Some (fs, r2) => Some (PDict fs, r2) | None => None end
            | _ => None
            end
          else None
      | [] => None
      end
  end.

Definition opt_of (z : Z) : option Z := if z <? 0 then None else Some z.
Definition dummy_info : tag_info := mkInfo false [] (WElem []) 0 None.

Definition parse_req (ts : list tok) : option (wparsed * list tok) :=
  match ts with
  | k :: TInt e :: TInt id :: r =>
      if negb (is_sym "q" k) then None
      else if zb e then Some (mkParsed id true [] None 0 None dummy_info PNone, r)
      else
        match r with
        | tag :: TInt bit :: TInt elements :: TInt be :: TInt st :: tn :: TInt handle :: TInt inst :: r1 =>
            match name_of tag, name_of tn, parse_ty (List.length r1) r1 with
            | Some tg, Some tname, Some (ty, r2) =>
                match parse_val (List.length r2) r2 with
                | Some (v, r3) =>
                    Some (mkParsed id false tg (opt_of bit) elements (opt_of be)
                                   (mkInfo (zb st) tname ty handle (opt_of inst)) v, r3)
                | None => None
                end
            | _, _, _ => None
            end
        | _ => None
        end
  | _ => None
  end.

Fixpoint parse_reqs (fuel : nat) (ts : list tok) : option (list wparsed) :=
  match ts with
  | [] => Some []
  | _ => match fuel with
         | O => None
         | S f => match parse_req ts with
                  | Some (q, r) => match parse_reqs f r with Some qs => Some (q :: qs) | None => None end
                  | None => None
                  end
         end
  end.

Fixpoint parse_bits (fuel : nat) (ts : list tok) : list (Z * bool) :=
  match fuel with
  | O => []
  | S f => match ts with TInt b :: TInt v :: r => (b, zb v) :: parse_bits f r | _ => [] end
  end.

Definition print_err (e : exn) : list tok := [sym "err"; TInt (exn_code e)].

Definition print_out (o : outpkt) : list tok :=
  match o with
  | OMulti sq ids m => sym "M" :: TInt sq :: TInt (zlen ids) :: map TInt ids ++ [TBytes m]
  | OSingle id m => [sym "S"; TInt id; TBytes m]
  | OFrag id ms => sym "F" :: TInt id :: TInt (zlen ms) :: map TBytes ms
  | ORmw rid ids m => sym "R" :: TInt rid :: TInt (zlen ids) :: map TInt ids ++ [TBytes m]
  end.

(* state: the last write: its requests, packets and failed flags *)
Definition state := (list wparsed * list outpkt * list (Z * bool))%type.
Definition init_state : state := ([], [], []).

Fixpoint parse_statuses (fuel : nat) (ts : list tok) : list (list Z) :=
  match fuel with
  | O => []
  | S f =>
      match ts with
      | TInt n :: r =>
          let sts := flat_map (fun t => match t with TInt z => [z] | _ => [] end) (firstn (Z.to_nat n) r) in
          sts :: parse_statuses f (skipn (Z.to_nat n) r)
      | _ => []
      end
  end.

Definition handle (st : state) (ts : list tok) : state * list tok :=
  match ts with
  | cmd :: r =>
      if is_sym "enc" cmd then
        (st, match parse_ty (List.length r) r with
             | Some (t, r1) => match parse_val (List.length r1) r1 with
                               | Some (v, []) => match encode_ty t v with Ok b => [sym "ok"; TBytes b] | Err e => print_err e end
                               | _ => [sym "ERR"; sym "value"]
                               end
             | None => [sym "ERR"; sym "type"]
             end)
      else if is_sym "encval" cmd then
        (st, match parse_req r with
             | Some (q, []) => match encode_value q with
                               | Ok (b, n) => [sym "ok"; TBytes b; TInt n]
                               | Err e => print_err e
                               end
             | _ => [sym "ERR"; sym "request"]
             end)
      else if is_sym "rmw" cmd then
        (st, match r with
             | TInt dw :: bs => let '(o, a) := rmw_masks (zb dw) (parse_bits (List.length bs) bs) in [TInt o; TInt a]
             | _ => [sym "ERR"; sym "args"]
             end)
      else if is_sym "specbits" cmd then
        (st, match r with
             | TInt old :: bs => [TInt (fold_left (fun x bv => set_bit_byte x (fst bv) (snd bv)) (parse_bits (List.length bs) bs) old)]
             | _ => [sym "ERR"; sym "args"]
             end)
      else if is_sym "write" cmd then
        match r with
        | TInt conn :: TInt micro :: TInt ui :: TInt v :: qs =>
            match parse_reqs (List.length qs) qs with
            | None => (st, [sym "ERR"; sym "requests"])
            | Some reqs =>
                match write_plan (mkCfg conn (zb micro) (zb ui)) v reqs with
                | Err e => (st, print_err e)
                | Ok (plan, out, failed) =>
                    ((reqs, out, failed),
                     sym "ok" :: TInt (zlen out) :: flat_map print_out out
                     ++ sym "E" :: flat_map (fun x : Z * bool => if snd x then [TInt (fst x)] else []) failed)
                end
            end
        | _ => (st, [sym "ERR"; sym "args"])
        end
      else if is_sym "results" cmd then
        let '(reqs, out, failed) := st in
        match write_outcome out (parse_statuses (List.length r) r) with
        | Ok res => (st, sym "ok" :: flat_map (fun q => [TInt (q_id q); TInt (if final_ok res failed q then 1 else 0)]) reqs)
        | Err e => (st, print_err e)
        end
      else (st, [sym "ERR"; sym "badcmd"])
  | _ => (st, [sym "ERR"; sym "badline"])
  end.

Definition step_line (s : state) (line : list Z) : state * list Z :=
  let '(s', out) := handle s (parse_line line) in (s', print_line out).
Extraction "../ocaml/gen/c02_model.ml" init_state step_line.
