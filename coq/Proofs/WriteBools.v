(* Proofs/WriteBools.v — BOOL arrays (C02): `arr[i]{n}` with i and n multiples of 32 writes whole
   32-bit words.  pycomm3 encodes 32 booleans per DWORD (BitArrayType._encode through UDINT); the
   reference stores the bits 8 per byte (Spec/Expect.bytes_of_bools).  Both are the little-endian
   image of the same number. *)
From Coq Require Import ZifyBool String.
From PV Require Import Base.Bytes Base.BytesLemmas Base.Res Base.Proto Base.PyStr Model.CodecFloat Model.Path Model.LogixPlan Model.LogixWrite.
From PV Require Import Spec.EncapParser Spec.MRParser Spec.TargetIface Spec.TargetCore Spec.Project Spec.Expect Spec.TargetLogix.
From PV Require Import Proofs.TargetCoreP Proofs.TargetLogixP Proofs.WriteBits Proofs.WriteMsg Proofs.WriteEnc Proofs.WriteCorrect Proofs.WriteFull.
Open Scope Z_scope.
Ltac Zify.zify_post_hook ::= Z.to_euclidean_division_equations.

(* the number a list of bits denotes, least significant first *)
Fixpoint bval (l : list bool) : Z :=
  match l with
  | [] => 0
  | b :: r => Z.b2z b + 2 * bval r
  end.

Lemma bval_range l : 0 <= bval l < 2 ^ Z.of_nat (length l).
Proof.
  induction l as [|b r IH]; cbn [bval length]; [cbn; lia|].
  rewrite Nat2Z.inj_succ, Z.pow_succ_r by lia. destruct b; cbn [Z.b2z]; lia.
Qed.

Lemma bval_app a b : bval (a ++ b) = bval a + 2 ^ Z.of_nat (length a) * bval b.
Proof.
  induction a as [|x a IH]; cbn [app bval length]; [change (Z.of_nat 0) with 0; rewrite Z.pow_0_r; lia|].
  rewrite IH, Nat2Z.inj_succ, Z.pow_succ_r by lia. ring.
Qed.

Lemma bits_value_bval l : forall w, bits_value l w = w * bval (map truthy l).
Proof.
  induction l as [|x r IH]; intros w; cbn [bits_value map bval]; [lia|].
  rewrite IH. destruct (truthy x); cbn [Z.b2z]; lia.
Qed.

Lemma byte_of_bools_spec k : forall l rest w acc, length l = k ->
  byte_of_bools k (l ++ rest) w acc = (acc + w * bval l, rest).
Proof.
  induction k as [|k IH]; intros l rest w acc Hl.
  - destruct l; [|discriminate]. cbn [app byte_of_bools bval]. f_equal. lia.
  - destruct l as [|b l]; [discriminate|]. cbn [app byte_of_bools bval]. rewrite IH by (cbn [length] in Hl; lia).
    f_equal. destruct b; cbn [Z.b2z]; lia.
Qed.

Lemma le_enc_split a : forall b x y, 0 <= x < pow256 a ->
  le_enc (a + b) (x + pow256 a * y) = le_enc a x ++ le_enc b y.
Proof.
  induction a as [|a IH]; intros b x y Hx.
  - rewrite pow256_0 in *. cbn [Nat.add le_enc app]. f_equal. lia.
  - rewrite pow256_S in *. cbn [Nat.add le_enc app]. pose proof (pow256_pos a) as Hp.
    f_equal; [lia|].
    replace ((x + 256 * pow256 a * y) / 256) with (x / 256 + pow256 a * y) by lia.
    apply IH. lia.
Qed.

(* 8 bits per byte: the reference byte packing is the little-endian image of the number *)
Lemma bytes_of_bools_le_enc n : forall fuel l, (n <= fuel)%nat -> length l = (8 * n)%nat ->
  bytes_of_bools fuel l = le_enc n (bval l).
Proof.
  induction n as [|n IH]; intros fuel l Hf Hl.
  - destruct l; [|discriminate]. destruct fuel; reflexivity.
  - destruct fuel as [|fuel]; [lia|].
    assert (Hs : l = firstn 8 l ++ skipn 8 l) by (symmetry; apply firstn_skipn).
    set (a := firstn 8 l) in *. set (r := skipn 8 l) in *.
    assert (Ha : length a = 8%nat) by (unfold a; rewrite firstn_length; lia).
    assert (Hr : length r = (8 * n)%nat) by (unfold r; rewrite skipn_length; lia).
    rewrite Hs. cbn [bytes_of_bools].
    destruct (a ++ r) as [|x xs] eqn:E; [destruct a; discriminate|]. rewrite <- E.
    rewrite (byte_of_bools_spec 8 a r 1 0 Ha).
    rewrite (IH fuel r ltac:(lia) Hr).
    rewrite bval_app, Ha. change (2 ^ Z.of_nat 8) with (pow256 1).
    pose proof (bval_range a) as Ra. rewrite Ha in Ra. change (2 ^ Z.of_nat 8) with 256 in Ra.
    change (S n) with (1 + n)%nat. rewrite (le_enc_split 1 n (bval a) (bval r)) by (change (pow256 1) with 256; lia).
    cbn [le_enc app]. f_equal. lia.
Qed.

(* ------------------------------------------------------------------ pycomm3's side: 32 booleans per DWORD *)
Lemma dword_chunk : bitarray_chunk n_DWORD = Some 32.
Proof. reflexivity. Qed.

Lemma dword_encode ch : length ch = 32%nat ->
  elem_encode n_DWORD (PList ch) = Ok (le_enc 4 (bval (map truthy ch))).
Proof.
  intros Hl. unfold elem_encode, elem_encode_raw.
  change (class_row n_DWORD) with (Some (n_DWORD, 211, 4, ([] : list Z), ([] : list Z), ([] : list Z), zs_of_string "UDINT")).
  cbn [row_fmt row_host row_size]. change (PyStr.text_eqb n_DWORD n_BOOL) with false. cbn [fmt_sem py_items].
  change (zs_of_string "UDINT") with [85; 68; 73; 78; 84].
  unfold LogixWrite.zlen. rewrite Hl. cbn [Nat.eqb Z.of_nat Z.eqb negb].
  replace (Z.of_nat 32 =? 8 * 4) with true by reflexivity. cbn [negb].
  change (class_row [85; 68; 73; 78; 84]) with (Some ([85; 68; 73; 78; 84], 200, 4, [60; 73], ([] : list Z), ([] : list Z), ([] : list Z))).
  cbn [row_fmt fmt_sem]. unfold pack_int. rewrite bits_value_bval, Z.mul_1_l.
  pose proof (bval_range (map truthy ch)) as R. rewrite map_length, Hl in R.
  unfold in_urange. change (pow256 4) with 4294967296. change (2 ^ Z.of_nat 32) with 4294967296 in R.
  replace ((0 <=? bval (map truthy ch)) && (bval (map truthy ch) <? 4294967296)) with true by lia.
  cbn [wrap_all]. rewrite Z.mod_small by lia. reflexivity.
Qed.

Lemma chunk_list_cons {A} fuel c (l : list A) : l <> [] ->
  chunk_list (S fuel) c l = firstn c l :: chunk_list fuel c (skipn c l).
Proof. destruct l; [congruence|reflexivity]. Qed.

Lemma chunk_list_32 k : forall fuel (l : list pv), (k <= fuel)%nat -> length l = (32 * k)%nat ->
  map_res (fun v => elem_encode n_DWORD v) (firstn k (map PList (chunk_list fuel 32 l)))
  = Ok (map (fun ch => le_enc 4 (bval (map truthy ch))) (chunk_list k 32 l))
  /\ concat (map (fun ch => le_enc 4 (bval (map truthy ch))) (chunk_list k 32 l)) = le_enc (4 * k) (bval (map truthy l)).
Proof.
  induction k as [|k IH]; intros fuel l Hf Hl.
  - destruct l; [|discriminate]. split; reflexivity.
  - destruct fuel as [|fuel]; [lia|].
    assert (Hs : l = firstn 32 l ++ skipn 32 l) by (symmetry; apply firstn_skipn).
    set (a := firstn 32 l) in *. set (r := skipn 32 l) in *.
    assert (Ha : length a = 32%nat) by (unfold a; rewrite firstn_length; lia).
    assert (Hr : length r = (32 * k)%nat) by (unfold r; rewrite skipn_length; lia).
    assert (Hne : l <> []) by (intros E; rewrite E in Hl; discriminate).
    rewrite !chunk_list_cons by exact Hne. fold a r.
    destruct (IH fuel r ltac:(lia) Hr) as [I1 I2].
    cbn [map firstn map_res concat]. cbv beta. rewrite (dword_encode a Ha), I1. split; [reflexivity|].
    rewrite I2. replace (bval (map truthy l)) with (bval (map truthy (a ++ r))) by (rewrite <- Hs; reflexivity).
    rewrite map_app, bval_app, map_length, Ha.
    replace (4 * S k)%nat with (4 + 4 * k)%nat by lia.
    pose proof (bval_range (map truthy a)) as Ra. rewrite map_length, Ha in Ra.
    change (2 ^ Z.of_nat 32) with (pow256 4) in *.
    rewrite (le_enc_split 4 (4 * k) _ _ Ra). reflexivity.
Qed.

(* Array(n0, DWORD).encode(values, count) for count = 32 k booleans *)
Theorem dword_encode_spec l k n0 :
  length l = (32 * k)%nat -> (0 < k)%nat ->
  encode_ty_len (WArray n0 (WElem n_DWORD)) (PList l) (Z.of_nat (32 * k))
  = Ok (bytes_of_bools (32 * k) (map truthy l)).
Proof.
  intros Hl Hk. unfold encode_ty_len, array_encode. cbn [py_items elem_chunk]. rewrite dword_chunk.
  replace (Z.of_nat (32 * k) =? 0) with false by lia.
  unfold LogixWrite.zlen. rewrite Hl. replace (Z.of_nat (32 * k) <? Z.of_nat (32 * k)) with false by lia.
  replace (32 <=? 0) with false by reflexivity.
  replace (Z.of_nat (32 * k) / 32) with (Z.of_nat k) by lia. rewrite Nat2Z.id.
  change (Z.to_nat 32) with 32%nat.
  destruct (chunk_list_32 k (32 * k)%nat l ltac:(lia) Hl) as [C1 C2].
  change (fun v : pv => encode_ty (WElem n_DWORD) v) with (fun v : pv => elem_encode n_DWORD v).
  change (encode_ty (WElem n_DWORD)) with (fun v : pv => elem_encode n_DWORD v).
  rewrite C1. rewrite map_length.
  assert (Hlen : length (chunk_list k 32 l) = k).
  { clear -Hl. revert l Hl. induction k as [|k IH]; intros l Hl; [reflexivity|].
    rewrite chunk_list_cons by (intros E; rewrite E in Hl; discriminate).
    cbn [length]. rewrite IH; [reflexivity|]. rewrite skipn_length. lia. }
  rewrite Hlen. replace (Z.of_nat k <? Z.of_nat k) with false by lia. cbn [wrap_all].
  rewrite C2. f_equal. symmetry. apply bytes_of_bools_le_enc; [lia|]. rewrite map_length. lia.
Qed.

(* ------------------------------------------------------------------ the reference side *)
Lemma as_bools_map bl : as_bools (RList (map RBool bl)) = Some bl.
Proof.
  cbn [as_bools]. induction bl as [|b r IH]; [reflexivity|]. cbn [map all_some]. cbn [map] in IH. rewrite IH. reflexivity.
Qed.

Lemma all_true_map l : all_true l = map RBool (map truthy l).
Proof. unfold all_true. rewrite map_map. reflexivity. Qed.

Lemma bools_of_bytes_length d : length (bools_of_bytes d) = (8 * length d)%nat.
Proof.
  unfold bools_of_bytes. induction d as [|b r IH]; [reflexivity|]. cbn [flat_map length].
  rewrite app_length, IH. unfold bools_of_byte. rewrite map_length, seq_length. lia.
Qed.

(* `arr[i]{n}`, i and n multiples of 32: whole 32-bit words are written, from DWORD i/32, and the
   memory the target is left with is the reference memory (only those words change) *)
Theorem write_correct_bools : stmt_bools.
Proof.
  unfold stmt_bools.
  intros p m r inst off nbits start n l_py m_ref img id tag n0 tyh inst_id ui seq path
         Hres Hbit Hcnt Hmem _ Hs0 Hsm Hn Hnm Hw Hseq Hpath.
  set (info := mkInfo false n_DWORD (WArray n0 (WElem n_DWORD)) tyh inst_id) in *.
  set (q := mkParsed id false tag (Some start) ((start + n) / 32) (Some n) info (PList l_py)).
  set (l := mkWLoc inst (off + 4 * (start / 32)) (BAtom C_DWORD) [] (nbits / 32 - start / 32) None).
  unfold ref_write in Hw. rewrite Hres in Hw. cbn [place_inst] in Hw. rewrite Hmem, Hbit, Hcnt in Hw.
  destruct (write_place p img (PlBools inst off nbits start) None (Some n) (RList (all_true l_py))) as [img'|] eqn:Hwp; [|discriminate].
  injection Hw as <-.
  set (k := Z.to_nat (n / 32)).
  assert (Hnk : n = Z.of_nat (32 * k)) by (unfold k; lia).
  assert (Hk : (0 < k)%nat) by (unfold k; lia).
  set (bl := firstn (Z.to_nat n) (map truthy l_py)).
  (* what the reference did *)
  assert (Href : n <= Z.of_nat (length l_py) /\ start + n <= nbits
                 /\ put_bytes img (off + start / 8) (bytes_of_bools (32 * k) bl) = Some img').
  { unfold write_place in Hwp. unfold take_values in Hwp. rewrite all_true_map in Hwp. rewrite !map_length in Hwp.
    destruct (n <=? Z.of_nat (length l_py)) eqn:E1; [|discriminate].
    rewrite firstn_map, as_bools_map in Hwp. fold bl in Hwp.
    destruct ((1 <=? n) && (start + n <=? nbits)) eqn:E2; [|discriminate].
    assert (Hlb : length bl = (32 * k)%nat) by (unfold bl; rewrite firstn_length, map_length; lia).
    set (b0 := start / 8) in *. set (b1 := (start + n - 1) / 8) in *.
    assert (Hb : b1 - b0 + 1 = n / 8) by (unfold b0, b1; lia).
    destruct (get_bytes img (off + b0) (b1 - b0 + 1)) as [d|] eqn:Hg; [|discriminate].
    pose proof (get_bytes_len _ _ _ _ Hg) as Hd. unfold Expect.blen in Hd.
    replace (Z.to_nat (start - 8 * b0)) with 0%nat in Hwp by (unfold b0; lia).
    cbn [firstn app Nat.add] in Hwp.
    rewrite skipn_all2 in Hwp by (rewrite bools_of_bytes_length, Hlb; lia).
    rewrite app_nil_r, Hlb in Hwp. split; [lia|]. split; [lia|exact Hwp]. }
  destruct Href as (Hl1 & Hl2 & Hput).
  (* the model's bytes *)
  set (lt := firstn (Z.to_nat n) l_py).
  assert (Hlt : length lt = (32 * k)%nat) by (unfold lt; rewrite firstn_length; lia).
  pose proof (dword_encode_spec lt k n0 Hlt Hk) as Hm. rewrite <- Hnk in Hm.
  assert (Hbl : map truthy lt = bl) by (unfold lt, bl; symmetry; apply firstn_map).
  rewrite Hbl in Hm.
  set (data := bytes_of_bools (32 * k) bl) in *.
  assert (Hdl : Expect.blen data = n / 32 * 4).
  { unfold data. rewrite (bytes_of_bools_le_enc (4 * k) (32 * k) bl) by (try lia; unfold bl; rewrite firstn_length, map_length; lia).
    unfold Expect.blen. rewrite le_enc_length. unfold k. lia. }
  assert (Hev : encode_value q = Ok (data, n / 32)).
  { rewrite (encode_value_list q l_py eq_refl eq_refl).
    2:{ intros _. subst q. cbn [q_bit opt_or0]. exact Hsm. }
    cbn zeta. unfold q_value_elements, q_new_elements, q_dword. subst q info.
    cbn [q_bool_elements q_elements q_info q_bit ti_type_name ti_type z_or opt_or0].
    change (PyStr.text_eqb n_DWORD n_DWORD) with true.
    replace (n =? 0) with false by lia. replace (1 <? n) with true by lia.
    replace (LogixWrite.zlen l_py <? n) with false by (unfold LogixWrite.zlen; lia).
    fold lt. rewrite Hm. f_equal. f_equal. lia. }
  assert (Hpt : packed_data_type info = Ok (le_enc 2 C_DWORD)) by reflexivity.
  assert (Hnew : exists pk, new_write_packet KWrite seq tag (n / 32) info id ui 0 data = Ok pk /\ k_packed_type pk = le_enc 2 C_DWORD).
  { unfold new_write_packet. rewrite Hpt. eexists. split; reflexivity. }
  destruct Hnew as (pk & Hnew & Hkpt).
  assert (Hel : 0 <= n / 32 < 65536) by lia.
  destruct (write_message seq tag (n / 32) info id ui data pk path Hnew Hpath Hseq Hel) as (pk1 & Hb & Hmsg & _).
  rewrite Hkpt in Hmsg.
  exists data, pk, pk1. split; [exact Hev|]. split; [exact Hnew|]. split; [exact Hb|]. split; [exact Hmsg|].
  rewrite (svc_write_accepts p m img l (write_data (le_enc 2 C_DWORD) (n / 32) data) (inl C_DWORD) (n / 32) data 4).
  - apply (store_at l m img data img' 77 eq_refl). cbn [w_off l].
    replace (off + 4 * (start / 32)) with (off + start / 8) by lia. exact Hput.
  - unfold write_data. apply parse_wtype_atom; [unfold C_DWORD; lia | unfold C_DWORD; cbn; lia].
  - reflexivity.
  - reflexivity.
  - cbn [w_avail l]. lia.
  - lia.
  - exact Hdl.
Qed.

(* ================================================================ one BOOL-array element *)
Lemma bval_testbit l : forall i, 0 <= i -> Z.testbit (bval l) i = nth (Z.to_nat i) l false.
Proof.
  induction l as [|b r IH]; intros i Hi; cbn [bval].
  - rewrite Z.bits_0. destruct (Z.to_nat i); reflexivity.
  - rewrite Z.add_comm. destruct (Z.eq_dec i 0) as [->|Hne].
    + rewrite Z.testbit_0_r. reflexivity.
    + replace i with (Z.succ (i - 1)) at 1 by lia. rewrite Z.testbit_succ_r by lia. rewrite IH by lia.
      replace (Z.to_nat i) with (S (Z.to_nat (i - 1))) by lia. reflexivity.
Qed.

Lemma nth_splice (x : bool) : forall k old i, (k < length old)%nat ->
  nth i (firstn k old ++ [x] ++ skipn (S k) old) false = if Nat.eqb i k then x else nth i old false.
Proof.
  induction k as [|k IH]; intros old i Hk; destruct old as [|o r]; try (cbn in Hk; lia).
  - cbn [firstn app skipn]. destruct i; reflexivity.
  - cbn [firstn app skipn]. destruct i as [|i]; [reflexivity|]. cbn [nth Nat.eqb]. apply IH. cbn [length] in Hk. lia.
Qed.

Lemma byte_small_bits y i : 0 <= y < 256 -> 8 <= i -> Z.testbit y i = false.
Proof.
  intros Hy Hi. destruct (Z.eq_dec y 0) as [->|Hz]; [apply Z.bits_0|].
  apply Z.bits_above_log2; [lia|]. apply Z.log2_lt_pow2; [lia|].
  apply Z.lt_le_trans with (2 ^ 8); [cbn; lia|]. apply Z.pow_le_mono_r; lia.
Qed.

Lemma set_bit_byte_testbit y k x i : 0 <= k -> 0 <= i ->
  Z.testbit (set_bit_byte y k x) i = if i =? k then x else Z.testbit y i.
Proof.
  intros Hk Hi. unfold set_bit_byte. destruct x.
  - rewrite Z.setbit_eqb by lia. destruct (Z.eqb_spec k i); destruct (Z.eqb_spec i k); try lia.
    all: reflexivity.
  - rewrite Z.clearbit_eqb by lia. destruct (Z.eqb_spec k i); destruct (Z.eqb_spec i k); try lia.
    all: cbn [negb]; rewrite ?andb_false_r, ?andb_true_r; reflexivity.
Qed.

(* the reference's byte-level bit write: 8 bits unpacked, one replaced, packed again *)
Lemma splice_byte y k x : 0 <= y < 256 -> 0 <= k < 8 ->
  let old := bools_of_bytes [y] in
  let new := firstn (Z.to_nat k) old ++ [x] ++ skipn (Z.to_nat k + length [x]) old in
  bytes_of_bools (length new) new = [set_bit_byte y k x].
Proof.
  intros Hy Hk old new.
  assert (Hold : old = map (fun i => Z.testbit y (Z.of_nat i)) (seq 0 8)).
  { unfold old, bools_of_bytes. cbn [flat_map]. rewrite app_nil_r. reflexivity. }
  assert (Hlo : length old = 8%nat) by (rewrite Hold; reflexivity).
  assert (Hln : length new = 8%nat).
  { unfold new. rewrite !app_length, firstn_length, skipn_length, Hlo. cbn [length]. lia. }
  rewrite (bytes_of_bools_le_enc 1 (length new) new) by lia.
  cbn [le_enc]. f_equal.
  assert (Hnth : forall i, (i < 8)%nat -> nth i old false = Z.testbit y (Z.of_nat i)).
  { intros i Hi. rewrite Hold. do 8 (destruct i as [|i]; [reflexivity|]). lia. }
  assert (E : bval new = set_bit_byte y k x).
  { apply Z.bits_inj'. intros i Hi. rewrite bval_testbit by exact Hi. rewrite set_bit_byte_testbit by lia.
    unfold new. cbn [length]. replace (Z.to_nat k + 1)%nat with (S (Z.to_nat k)) by lia.
    rewrite nth_splice by lia.
    destruct (Nat.eqb_spec (Z.to_nat i) (Z.to_nat k)) as [E|E]; destruct (Z.eqb_spec i k) as [E2|E2]; try lia; try reflexivity.
    destruct (Z_lt_le_dec i 8) as [Hlt|Hge].
    - rewrite Hnth by lia. f_equal. lia.
    - rewrite nth_overflow by lia. symmetry. apply byte_small_bits; assumption. }
  rewrite E.
  assert (R : 0 <= set_bit_byte y k x < 256).
  { rewrite <- E. pose proof (bval_range new) as Rn. rewrite Hln in Rn. change (2 ^ Z.of_nat 8) with 256 in Rn. exact Rn. }
  lia.
Qed.

(* list algebra for images *)
Lemma get_bytes_decomp img off n d : get_bytes img off n = Some d ->
  exists P S, img = P ++ d ++ S /\ Z.of_nat (length P) = off /\ Z.of_nat (length d) = n.
Proof.
  unfold get_bytes. destruct ((0 <=? off) && (0 <=? n) && (off + n <=? Expect.blen img)) eqn:E; [|discriminate].
  intros H; injection H as <-. unfold Expect.blen in E.
  exists (firstn (Z.to_nat off) img), (skipn (Z.to_nat n) (skipn (Z.to_nat off) img)).
  split; [rewrite firstn_skipn, firstn_skipn; reflexivity|].
  split; [rewrite firstn_length; lia|rewrite firstn_length, skipn_length; lia].
Qed.

Lemma put_bytes_decomp P d0 S d : length d = length d0 ->
  put_bytes (P ++ d0 ++ S) (Z.of_nat (length P)) d = Some (P ++ d ++ S).
Proof.
  intros Hl. unfold put_bytes, Expect.blen. rewrite !app_length, Hl.
  replace ((0 <=? Z.of_nat (length P)) && (Z.of_nat (length P) + Z.of_nat (length d0) <=? Z.of_nat (length P + (length d0 + length S)))) with true by lia.
  rewrite Nat2Z.id, firstn_app_exact. rewrite skipn_app_plus. rewrite <- Hl.
  rewrite <- (Nat.add_0_r (length d)). rewrite Hl at 1. rewrite skipn_app_plus. reflexivity.
Qed.

Lemma get_bytes_mid P d S : get_bytes (P ++ d ++ S) (Z.of_nat (length P)) (Z.of_nat (length d)) = Some d.
Proof.
  unfold get_bytes, Expect.blen. rewrite !app_length.
  replace ((0 <=? Z.of_nat (length P)) && (0 <=? Z.of_nat (length d)) && (Z.of_nat (length P) + Z.of_nat (length d) <=? Z.of_nat (length P + (length d + length S)))) with true by lia.
  rewrite !Nat2Z.id, skipn_app_exact, firstn_app_exact. reflexivity.
Qed.

(* setting bit e of a little-endian 32-bit word = setting bit e mod 8 of its byte e / 8 *)
Lemma byte_of_word V i : (i < 4)%nat -> nth i (le_enc 4 V) 0 = (V / 2 ^ (8 * Z.of_nat i)) mod 2 ^ 8.
Proof.
  intros Hi. change (2 ^ 8) with 256.
  destruct i as [|[|[|[|i]]]]; [| | | |lia]; cbn [le_enc nth].
  - change (2 ^ (8 * Z.of_nat 0)) with 1. rewrite Z.div_1_r. reflexivity.
  - change (2 ^ (8 * Z.of_nat 1)) with 256. reflexivity.
  - change (2 ^ (8 * Z.of_nat 2)) with (256 * 256). rewrite Z.div_div by lia. reflexivity.
  - change (2 ^ (8 * Z.of_nat 3)) with (256 * 256 * 256). rewrite !Z.div_div by lia. reflexivity.
Qed.

Lemma word_byte_bits y0 y1 y2 y3 i t : 0 <= y0 < 256 -> 0 <= y1 < 256 -> 0 <= y2 < 256 -> 0 <= y3 < 256 ->
  0 <= i < 4 -> 0 <= t < 8 ->
  Z.testbit (le_dec [y0; y1; y2; y3]) (8 * i + t) = Z.testbit (nth (Z.to_nat i) [y0; y1; y2; y3] 0) t.
Proof.
  intros H0 H1 H2 H3 Hi Ht.
  assert (L : le_enc 4 (le_dec [y0; y1; y2; y3]) = [y0; y1; y2; y3]).
  { apply (le_enc_dec [y0; y1; y2; y3]). cbn [bytes_ok forallb]. unfold byte_ok. lia. }
  set (V := le_dec [y0; y1; y2; y3]) in *.
  rewrite <- L. rewrite (byte_of_word V (Z.to_nat i)) by lia. rewrite Z2Nat.id by lia.
  rewrite Z.testbit_mod_pow2 by lia. replace (t <? 8) with true by lia. cbn [andb].
  rewrite Z.div_pow2_bits by lia. f_equal. lia.
Qed.

Lemma le_enc4_bytes W : le_enc 4 W = [(W / 2 ^ (8 * 0)) mod 2 ^ 8; (W / 2 ^ (8 * 1)) mod 2 ^ 8; (W / 2 ^ (8 * 2)) mod 2 ^ 8; (W / 2 ^ (8 * 3)) mod 2 ^ 8].
Proof.
  pose proof (byte_of_word W 0 ltac:(lia)) as B0. pose proof (byte_of_word W 1 ltac:(lia)) as B1.
  pose proof (byte_of_word W 2 ltac:(lia)) as B2. pose proof (byte_of_word W 3 ltac:(lia)) as B3.
  cbn [le_enc nth Z.of_nat Pos.of_succ_nat Pos.succ] in *. rewrite <- B0, <- B1, <- B2, <- B3. reflexivity.
Qed.

Lemma byte_eq_bits a b : 0 <= a < 256 -> 0 <= b < 256 -> (forall t, 0 <= t < 8 -> Z.testbit a t = Z.testbit b t) -> a = b.
Proof.
  intros Ha Hb H. apply Z.bits_inj'. intros t Ht. destruct (Z_lt_le_dec t 8); [apply H; lia|].
  rewrite !byte_small_bits by lia. reflexivity.
Qed.

Lemma set_bit_byte_range y k x : 0 <= y < 256 -> 0 <= k < 8 -> 0 <= set_bit_byte y k x < 256.
Proof.
  intros Hy Hk. pose proof (splice_byte y k x Hy Hk) as S. cbn zeta in S.
  match type of S with bytes_of_bools (length ?n) ?n = _ => set (new := n) in * end.
  assert (Hln : length new = 8%nat).
  { unfold new. unfold bools_of_bytes. cbn [flat_map]. rewrite app_nil_r. unfold bools_of_byte.
    rewrite !app_length, firstn_length, skipn_length, map_length, seq_length. cbn [length]. lia. }
  rewrite (bytes_of_bools_le_enc 1 (length new) new) in S by lia. cbn [le_enc] in S. injection S as S.
  pose proof (bval_range new) as Rn. rewrite Hln in Rn. change (2 ^ Z.of_nat 8) with 256 in Rn. lia.
Qed.

Lemma word_set_bit y0 y1 y2 y3 e x : 0 <= y0 < 256 -> 0 <= y1 < 256 -> 0 <= y2 < 256 -> 0 <= y3 < 256 -> 0 <= e < 32 ->
  let old4 := [y0; y1; y2; y3] in
  let j := Z.to_nat (e / 8) in
  le_enc 4 (set_bit_byte (le_dec old4) e x mod pow256 4)
  = firstn j old4 ++ [set_bit_byte (nth j old4 0) (e mod 8) x] ++ skipn (S j) old4.
Proof.
  intros H0 H1 H2 H3 He old4 j. rewrite le_enc_mod.
  set (V := le_dec old4). set (W := set_bit_byte V e x).
  assert (Wb : forall i t, 0 <= i < 4 -> 0 <= t < 8 ->
            Z.testbit ((W / 2 ^ (8 * i)) mod 2 ^ 8) t = if (8 * i + t =? e) then x else Z.testbit (nth (Z.to_nat i) old4 0) t).
  { intros i t Hi Ht. rewrite Z.testbit_mod_pow2 by lia. replace (t <? 8) with true by lia. cbn [andb].
    rewrite Z.div_pow2_bits by lia. unfold W. rewrite set_bit_byte_testbit by lia.
    replace (t + 8 * i) with (8 * i + t) by lia.
    destruct (8 * i + t =? e); [reflexivity|]. unfold V, old4. apply word_byte_bits; assumption. }
  assert (Hy : forall i, (i < 4)%nat -> 0 <= nth i old4 0 < 256).
  { intros i Hi. unfold old4. do 4 (destruct i as [|i]; [cbn [nth]; assumption|]). lia. }
  rewrite le_enc4_bytes.
  assert (Byte : forall i, 0 <= i < 4 ->
            (W / 2 ^ (8 * i)) mod 2 ^ 8 = if i =? e / 8 then set_bit_byte (nth (Z.to_nat i) old4 0) (e mod 8) x else nth (Z.to_nat i) old4 0).
  { intros i Hi. apply byte_eq_bits.
    - change (2 ^ 8) with 256. lia.
    - destruct (i =? e / 8); [apply set_bit_byte_range; [apply Hy; lia|lia]|apply Hy; lia].
    - intros t Ht. rewrite (Wb i t Hi Ht).
      destruct (Z.eqb_spec i (e / 8)) as [E|E].
      + rewrite set_bit_byte_testbit by lia. destruct (Z.eqb_spec (8 * i + t) e); destruct (Z.eqb_spec t (e mod 8)); try lia; reflexivity.
      + destruct (Z.eqb_spec (8 * i + t) e); [lia|reflexivity]. }
  rewrite (Byte 0 ltac:(lia)), (Byte 1 ltac:(lia)), (Byte 2 ltac:(lia)), (Byte 3 ltac:(lia)).
  assert (C : e / 8 = 0 \/ e / 8 = 1 \/ e / 8 = 2 \/ e / 8 = 3) by lia.
  unfold j. destruct C as [C|[C|[C|C]]]; rewrite C; reflexivity.
Qed.

(* `arr[i]` := value: ONE Read-Modify-Write of the DWORD i / 32 naming bit i mod 32; the memory it
   leaves is the reference memory (only bit i changes) *)
Theorem write_correct_bool_element : stmt_bool_element.
Proof.
  unfold stmt_bool_element.
  intros p m r inst off nbits start v m_ref img Hres Hbit Hcnt Hmem Hok Hs0 Hoff Hin Hw.
  set (l := mkWLoc inst (off + 4 * (start / 32)) (BAtom C_DWORD) [] (nbits / 32 - start / 32) None).
  set (x := truthy v) in *.
  unfold ref_write in Hw. rewrite Hres in Hw. cbn [place_inst] in Hw. rewrite Hmem, Hbit, Hcnt in Hw.
  destruct (write_place p img (PlBools inst off nbits start) None None (RBool x)) as [img'|] eqn:Hwp; [|discriminate].
  injection Hw as <-.
  (* the DWORD in the image *)
  set (off4 := off + 4 * (start / 32)) in *.
  destruct (get_bytes img off4 4) as [old4|] eqn:Hg4.
  2:{ exfalso. unfold get_bytes in Hg4. replace ((0 <=? off4) && (0 <=? 4) && (off4 + 4 <=? Expect.blen img)) with true in Hg4 by (unfold off4; lia). discriminate. }
  destruct (get_bytes_decomp img off4 4 old4 Hg4) as (P & Sf & Himg & HP & Hl4).
  destruct old4 as [|y0 [|y1 [|y2 [|y3 [|y4 rest]]]]]; cbn [length] in Hl4; try lia.
  assert (Hyb : 0 <= y0 < 256 /\ 0 <= y1 < 256 /\ 0 <= y2 < 256 /\ 0 <= y3 < 256).
  { rewrite Himg in Hok. rewrite !bytes_ok_app in Hok. apply andb_true_iff in Hok as [_ Hok]. apply andb_true_iff in Hok as [Hok _].
    cbn [bytes_ok forallb] in Hok. unfold byte_ok in Hok. lia. }
  destruct Hyb as (B0 & B1 & B2 & B3).
  set (e := start mod 32). set (j := Z.to_nat (e / 8)).
  assert (He : 0 <= e < 32) by (unfold e; lia).
  set (old4 := [y0; y1; y2; y3]) in *.
  assert (Hyj : 0 <= nth j old4 0 < 256).
  { unfold old4. assert (Hj : (j < 4)%nat) by (unfold j; lia). do 4 (destruct j as [|j]; [cbn [nth]; assumption|]). lia. }
  (* what the reference did: the byte at off + start / 8 *)
  assert (Href : put_bytes img (off + start / 8) [set_bit_byte (nth j old4 0) (e mod 8) x] = Some img').
  { unfold write_place in Hwp.
    destruct ((1 <=? 1) && (start + 1 <=? nbits)) eqn:E2; [|discriminate].
    replace ((start + 1 - 1) / 8 - start / 8 + 1) with 1 in Hwp by lia.
    (* the byte read is byte j of the DWORD *)
    assert (Hgb : get_bytes img (off + start / 8) 1 = Some [nth j old4 0]).
    { rewrite Himg.
      replace (P ++ old4 ++ Sf) with ((P ++ firstn j old4) ++ [nth j old4 0] ++ (skipn (S j) old4 ++ Sf)).
      2:{ rewrite <- !app_assoc. f_equal. unfold old4. assert (Hj : (j < 4)%nat) by (unfold j; lia).
          do 4 (destruct j as [|j]; [reflexivity|]). lia. }
      replace (off + start / 8) with (Z.of_nat (length (P ++ firstn j old4))).
      2:{ rewrite app_length, firstn_length. unfold old4. cbn [length]. unfold j, off4, e in *. lia. }
      apply (get_bytes_mid _ [nth j old4 0]). }
    rewrite Hgb in Hwp.
    replace (Z.to_nat (start - 8 * (start / 8))) with (Z.to_nat (e mod 8)) in Hwp by (unfold e; lia).
    rewrite (splice_byte (nth j old4 0) (e mod 8) x Hyj ltac:(lia)) in Hwp. exact Hwp. }
  (* the masks and the target's store *)
  assert (Hall64 : Forall (fun bv : Z * bool => 0 <= eff_bit true (fst bv) < 64) [(start, x)]).
  { constructor; [|constructor]. cbn [fst eff_bit]. lia. }
  set (V := le_dec old4).
  assert (Hok4 : bytes_ok old4 = true) by (unfold old4; cbn [bytes_ok forallb]; unfold byte_ok; lia).
  assert (HVr : 0 <= V < pow256 (Z.to_nat 4)) by (apply (le_dec_range old4), Hok4).
  destruct (rmw_effect true [(start, x)] 4 V Hall64 ltac:(lia) HVr) as (Mo & Ma & Lo & La & Heff & _).
  set (o := fst (rmw_masks true [(start, x)])) in *. set (a := snd (rmw_masks true [(start, x)])) in *.
  change (Z.to_nat 4) with 4%nat in *.
  assert (HVo : le_enc 4 V = old4) by (apply (le_enc_dec old4), Hok4).
  cbn [eff map fst snd eff_bit filter] in Heff. fold e in Heff. unfold in_width in Heff. cbn [fst] in Heff.
  replace (e <? 8 * 4) with true in Heff by lia. unfold apply_bits in Heff. cbn [fold_left fst snd] in Heff.
  set (stored := rmw_bytes old4 (le_enc 4 o) (le_enc 4 a)).
  assert (Hst : stored = firstn j old4 ++ [set_bit_byte (nth j old4 0) (e mod 8) x] ++ skipn (S j) old4).
  { unfold stored.
    replace (rmw_bytes old4 (le_enc 4 o) (le_enc 4 a)) with (rmw_bytes (le_enc 4 V) (le_enc 4 o) (le_enc 4 a)) by (rewrite HVo; reflexivity).
    rewrite rmw_bytes_le_enc in *. rewrite le_dec_enc in Heff.
    rewrite <- (le_enc_mod 4 (Z.land (Z.lor V o) a)). rewrite Heff.
    pose proof (word_set_bit y0 y1 y2 y3 e x B0 B1 B2 B3 He) as Wd. cbn zeta in Wd. fold old4 V j in Wd.
    rewrite le_enc_mod in Wd. exact Wd. }
  exists (le_enc 4 o), (le_enc 4 a), stored.
  split; [exact Mo|]. split; [exact Ma|].
  unfold rmw_data.
  rewrite (svc_rmw_accepts p m img l 4 (le_enc 4 o) (le_enc 4 a) old4).
  - apply (store_at l m img stored img' 78 eq_refl). cbn [w_off l]. fold off4.
    (* one put of the whole word = the reference's put of the byte *)
    rewrite Hst. rewrite Himg. rewrite <- HP.
    rewrite (put_bytes_decomp P old4 Sf) by (rewrite !app_length, firstn_length, skipn_length; unfold old4; cbn [length]; unfold j; lia).
    rewrite <- Href. rewrite Himg.
    replace (P ++ old4 ++ Sf) with ((P ++ firstn j old4) ++ [nth j old4 0] ++ (skipn (S j) old4 ++ Sf)).
    2:{ rewrite <- !app_assoc. f_equal. unfold old4. assert (Hj : (j < 4)%nat) by (unfold j; lia).
        do 4 (destruct j as [|j]; [reflexivity|]). lia. }
    replace (off + start / 8) with (Z.of_nat (length (P ++ firstn j old4))).
    2:{ rewrite app_length, firstn_length. unfold old4. cbn [length]. unfold j, off4, e in *. lia. }
    rewrite (put_bytes_decomp (P ++ firstn j old4) [nth j old4 0] (skipn (S j) old4 ++ Sf)) by reflexivity.
    rewrite <- !app_assoc. reflexivity.
  - reflexivity.
  - reflexivity.
  - lia.
  - unfold Expect.blen. rewrite Lo. reflexivity.
  - unfold Expect.blen. rewrite La. reflexivity.
  - exact Hg4.
Qed.

(* ================================================================ `arr[i]{1}` with a one-item list *)
Lemma write_place_slice1 p img i o nb st x :
  write_place p img (PlBools i o nb st) None (Some 1) (RList [RBool x])
  = write_place p img (PlBools i o nb st) None None (RBool x).
Proof. reflexivity. Qed.

(* any item: the packet's set_bit unwraps the one-item list (pycomm3 4698d97) *)
Theorem write_correct_bool_slice1 : stmt_bool_slice1.
Proof.
  unfold stmt_bool_slice1. intros p m r inst off nbits start x m_ref img Hres Hbit Hcnt Hmem Hok Hs0 Hoff Hin Hw.
  set (r' := mkReq (r_prog r) (r_segs r) (r_bit r) None).
  assert (Hres' : resolve p r' = Some (PlBools inst off nbits start)) by exact Hres.
  assert (Hw' : ref_write p m r' (RBool (truthy (PBool x))) = Some m_ref).
  { unfold ref_write in *. rewrite Hres'. rewrite Hres in Hw. cbn [place_inst] in *. rewrite Hmem in *.
    cbn [r_bit r_count r' truthy]. rewrite Hcnt in Hw. rewrite Hbit in Hw |- *. rewrite write_place_slice1 in Hw. exact Hw. }
  exact (write_correct_bool_element p m r' inst off nbits start (PBool x) m_ref img Hres' Hbit eq_refl Hmem Hok Hs0 Hoff Hin Hw').
Qed.
