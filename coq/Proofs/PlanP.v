(* Proofs/PlanP.v — the planners keep every request in exactly one packet, every multi-service
   packet fits the connection, fragments tile the value.  All sizes symbolic. *)
From PV Require Import Base.Bytes Model.LogixPlan.
From Coq Require Import ZifyBool Permutation.
Open Scope Z_scope.
Ltac Zify.zify_post_hook ::= Z.to_euclidean_division_equations.

Definition sum_sz (g : list (Z * Z)) : Z := fold_right (fun p a => snd p + a) 0 g.

Lemma sum_sz_app a b : sum_sz (a ++ b) = sum_sz a + sum_sz b.
Proof. unfold sum_sz. induction a as [|x a IH]; cbn [app fold_right]; lia. Qed.
Lemma sum_sz_rev a : sum_sz (rev a) = sum_sz a.
Proof.
  induction a as [|x a IH]; [reflexivity|]. cbn [rev]. rewrite sum_sz_app, IH. unfold sum_sz. cbn [fold_right]. lia.
Qed.

(* ---- the grouping loop *)
Lemma group_loop_concat conn sized : forall cur cs done,
  concat (group_loop conn sized cur cs done) = concat (rev done) ++ rev cur ++ sized.
Proof.
  induction sized as [|[i sz] rest IH]; intros cur cs done; cbn [group_loop].
  - cbn [rev]. rewrite concat_app. cbn [concat]. rewrite !app_nil_r. reflexivity.
  - destruct (cs + sz >? conn).
    + rewrite IH. cbn [rev]. rewrite concat_app. cbn [concat app]. rewrite app_nil_r, <- app_assoc. reflexivity.
    + rewrite IH. cbn [rev]. rewrite <- app_assoc. reflexivity.
Qed.

Theorem groups_sized_concat conn sized : concat (groups_sized conn sized) = sized.
Proof. unfold groups_sized. rewrite group_loop_concat. reflexivity. Qed.

Lemma concat_map_map {A B} (f : A -> B) (ls : list (list A)) : concat (map (map f) ls) = map f (concat ls).
Proof. induction ls as [|l ls IH]; [reflexivity|]. cbn [map concat]. rewrite map_app, IH. reflexivity. Qed.

Theorem groups_concat conn sized : concat (groups conn sized) = map fst sized.
Proof. unfold groups. rewrite concat_map_map, groups_sized_concat. reflexivity. Qed.

(* every group the loop closes or leaves open satisfies OVH + sum <= conn, provided each single
   item does (that is what the fragmenting test guarantees) *)
Lemma group_loop_fit conn sized : forall cur cs done,
  Forall (fun p => OVH + snd p <= conn) sized ->
  cs = OVH + sum_sz cur -> cs <= conn \/ cur = [] ->
  Forall (fun g => OVH + sum_sz g <= conn \/ g = []) done ->
  Forall (fun g => OVH + sum_sz g <= conn \/ g = []) (group_loop conn sized cur cs done).
Proof.
  induction sized as [|[i sz] rest IH]; intros cur cs done Hs Hcs Hc Hd; cbn [group_loop].
  - apply Forall_rev. constructor; [|exact Hd].
    destruct Hc as [Hc|Hc]; [left; rewrite sum_sz_rev; lia | right; subst cur; reflexivity].
  - pose proof (Forall_inv Hs) as Hp. pose proof (Forall_inv_tail Hs) as Hr. cbn [snd] in Hp.
    destruct (cs + sz >? conn) eqn:E.
    + apply IH; [exact Hr | unfold sum_sz; cbn [fold_right snd]; lia | left; lia |].
      constructor; [|exact Hd].
      destruct Hc as [Hc|Hc]; [left; rewrite sum_sz_rev; lia | right; subst cur; reflexivity].
    + apply IH; [exact Hr | unfold sum_sz in *; cbn [fold_right snd]; lia | left; lia | exact Hd].
Qed.

Theorem groups_sized_fit conn sized :
  Forall (fun p => OVH + snd p <= conn) sized ->
  Forall (fun g => OVH + sum_sz g <= conn \/ g = []) (groups_sized conn sized).
Proof.
  intros H. unfold groups_sized. apply group_loop_fit; [exact H | reflexivity | right; reflexivity | constructor].
Qed.

(* with the fragmenting test in place only the first group can be empty, and only when nothing is grouped *)
Lemma group_loop_nonempty conn sized : forall cur cs done,
  Forall (fun g => g <> []) done -> (cur <> [] \/ (done = [] /\ sized <> [])) ->
  (forall i sz, cur = [] -> hd_error sized = Some (i, sz) -> cs + sz <= conn) ->
  Forall (fun g => g <> []) (group_loop conn sized cur cs done).
Proof.
  induction sized as [|[i sz] rest IH]; intros cur cs done Hd Hc Hfirst; cbn [group_loop].
  - apply Forall_rev. constructor; [|exact Hd].
    destruct Hc as [Hc|[_ Hc]]; [|congruence]. intros K. apply Hc. destruct cur; [reflexivity|].
    cbn [rev] in K. destruct (rev cur); discriminate.
  - destruct (cs + sz >? conn) eqn:E.
    + destruct cur as [|c cur'].
      * specialize (Hfirst i sz eq_refl eq_refl). lia.
      * apply IH; [|left; discriminate|intros; discriminate].
        constructor; [|exact Hd]. cbn [rev]. intros K. destruct (rev cur'); discriminate.
    + apply IH; [exact Hd | left; discriminate | intros; discriminate].
Qed.

Theorem groups_sized_nonempty conn sized :
  sized <> [] -> Forall (fun p => OVH + snd p <= conn) sized ->
  Forall (fun g => g <> []) (groups_sized conn sized).
Proof.
  intros Hne Hs. unfold groups_sized. apply group_loop_nonempty; [constructor | right; split; [reflexivity|exact Hne] |].
  intros i sz _ Hh. destruct sized as [|p r]; [discriminate|]. cbn [hd_error] in Hh. inversion Hh; subst p.
  inversion Hs; subst. cbn [snd] in *. lia.
Qed.

Lemma groups_sized_nil conn : groups_sized conn [] = [[]].
Proof. reflexivity. Qed.

(* ---- ids of a plan *)
Definition packet_ids (p : packet) : list Z :=
  match p with PMulti ids => ids | PSingle i => [i] | PFrag i => [i] | PRmw _ ids => ids end.
Definition plan_ids (ps : list packet) : list Z := flat_map packet_ids ps.

Lemma plan_ids_app a b : plan_ids (a ++ b) = plan_ids a ++ plan_ids b.
Proof. unfold plan_ids. apply flat_map_app. Qed.
Lemma plan_ids_multi gs : plan_ids (map PMulti gs) = concat gs.
Proof. induction gs as [|g gs IH]; [reflexivity|]. cbn [map plan_ids flat_map packet_ids concat] in *. unfold plan_ids in IH. rewrite IH. reflexivity. Qed.
Lemma plan_ids_frag {A} (f : A -> Z) l : plan_ids (map (fun r => PFrag (f r)) l) = map f l.
Proof. induction l as [|a l IH]; [reflexivity|]. cbn [map plan_ids flat_map packet_ids app] in *. unfold plan_ids in IH. rewrite IH. reflexivity. Qed.

Lemma filter_partition_perm {A} (f : A -> bool) (l : list A) :
  Permutation (filter (fun x => negb (f x)) l ++ filter f l) l.
Proof.
  induction l as [|a l IH]; [constructor|]. cbn [filter]. destruct (f a); cbn [negb].
  - apply Permutation_sym, Permutation_cons_app, Permutation_sym, IH.
  - cbn [app]. constructor. exact IH.
Qed.

Lemma frag_false_fit conn r : r_frag conn r = false -> OVH + r_est r <= conn.
Proof. unfold r_frag. lia. Qed.

Definition rvalid (reqs : list rreq) : list rreq := filter (fun r => negb (r_err r)) reqs.

Lemma grouped_fit conn (l : list rreq) :
  Forall (fun p => OVH + snd p <= conn) (map (fun r => (r_id r, r_est r)) (filter (fun r => negb (r_frag conn r)) l)).
Proof.
  induction l as [|r l IH]; [constructor|]. cbn [filter]. destruct (r_frag conn r) eqn:E; cbn [negb]; [exact IH|].
  cbn [map]. constructor; [cbn [snd]; apply frag_false_fit, E | exact IH].
Qed.

(* the multi-service part of the read plan, as (id, estimate) groups *)
Definition read_groups (conn : Z) (reqs : list rreq) : list (list (Z * Z)) :=
  groups_sized conn (map (fun r => (r_id r, r_est r)) (filter (fun r => negb (r_frag conn r)) (rvalid reqs))).

Lemma read_build_multi_shape conn reqs :
  read_build_multi conn reqs =
  (if is_nil (filter (fun r => negb (r_frag conn r)) (rvalid reqs)) then [] else map PMulti (map (map fst) (read_groups conn reqs)))
  ++ map (fun r => PFrag (r_id r)) (filter (r_frag conn) (rvalid reqs)).
Proof.
  unfold read_build_multi, read_groups, rvalid, groups. f_equal.
  set (G := filter (fun r => negb (r_frag conn r)) (filter (fun r => negb (r_err r)) reqs)).
  destruct G as [|g0 G'] eqn:EG.
  - reflexivity.
  - cbn [is_nil].
    assert (Hne : map (fun r => (r_id r, r_est r)) (g0 :: G') <> []) by discriminate.
    pose proof (groups_sized_nonempty conn _ Hne) as NE.
    assert (Hfit : Forall (fun p => OVH + snd p <= conn) (map (fun r => (r_id r, r_est r)) (g0 :: G'))).
    { rewrite <- EG. apply grouped_fit. }
    specialize (NE Hfit).
    destruct (groups_sized conn (map (fun r => (r_id r, r_est r)) (g0 :: G'))) as [|h t] eqn:EGS; [reflexivity|].
    inversion NE as [|? ? Hh Ht]; subst. cbn [map]. destruct h as [|x h']; [congruence|]. reflexivity.
Qed.

(* C03/C04: every valid request is in exactly one packet of the multi read plan *)
Theorem read_multi_partition conn reqs :
  Permutation (plan_ids (read_build_multi conn reqs)) (map r_id (rvalid reqs)).
Proof.
  rewrite read_build_multi_shape, plan_ids_app, plan_ids_frag.
  set (V := rvalid reqs).
  eapply Permutation_trans; [|apply Permutation_map, (filter_partition_perm (r_frag conn) V)].
  rewrite map_app. apply Permutation_app_tail.
  destruct (filter (fun r => negb (r_frag conn r)) V) as [|g0 G'] eqn:EG.
  - constructor.
  - cbn [is_nil]. rewrite plan_ids_multi. unfold read_groups. fold V. rewrite EG.
    rewrite concat_map_map, groups_sized_concat, map_map. cbn [fst]. apply Permutation_refl.
Qed.

(* C04: every multi-service read packet: planner overhead + the estimates of its requests <= conn *)
Theorem read_multi_groups_fit conn reqs :
  Forall (fun g => OVH + sum_sz g <= conn \/ g = []) (read_groups conn reqs).
Proof. unfold read_groups. apply groups_sized_fit, grouped_fit. Qed.

(* the estimate dominates the real sizes.  For a request with message length m (2-byte sequence
   count included) and data size d inside a multi-service packet:
     request bytes  = 2 (offset entry) + (m - 2)               <= est = d + m + 2   (d >= 0)
     reply bytes    = 2 (offset entry) + 4 (service, 0, status, ext size) + tlen + d, tlen in {2, 4}
                                                                <= est  when m >= 8
   and the packet adds 2 (sequence) + 6 (service + path to the message router) + 2 (count) = 10 = OVH
   to requests, 2 + 4 + 2 = 8 <= OVH to replies. *)
Definition act_req (m : Z) : Z := 2 + (m - 2).
Definition act_reply (tlen d : Z) : Z := 2 + 4 + tlen + d.

Theorem read_multi_actual_fits conn (g : list (Z * Z)) (real : list (Z * Z * Z)) (* (m, d, tlen) per request *) :
  OVH + sum_sz g <= conn -> 10 <= OVH ->
  map snd g = map (fun '(m, d, t) => d + m + 2) real ->
  Forall (fun '(m, d, t) => 8 <= m /\ 0 <= d /\ (t = 2 \/ t = 4)) real ->
  10 + fold_right (fun '(m, d, t) a => act_req m + a) 0 real <= conn
  /\ 8 + fold_right (fun '(m, d, t) a => act_reply t d + a) 0 real <= conn.
Proof.
  intros Hfit Hovh Hmap Hreal.
  assert (G : fold_right (fun '(m, d, t) a => act_req m + a) 0 real <= sum_sz g
              /\ fold_right (fun '(m, d, t) a => act_reply t d + a) 0 real <= sum_sz g).
  { clear Hfit. revert g Hmap. induction Hreal as [|[[m d] t] real (Hm & Hd & Ht) Hr IH]; intros g Hmap.
    - destruct g; [cbn; lia|discriminate].
    - destruct g as [|[i s] g]; [discriminate|]. cbn [map snd] in Hmap. inversion Hmap as [[Hs Hrest]].
      specialize (IH g Hrest). cbn [fold_right sum_sz snd]. unfold act_req, act_reply in *.
      fold (sum_sz g). lia. }
  lia.
Qed.

(* ---- single requests *)
Theorem read_single_partition conn reqs :
  plan_ids (filter_map (read_build_single conn) reqs) = map r_id (rvalid reqs).
Proof.
  unfold rvalid. induction reqs as [|r reqs IH]; [reflexivity|]. cbn [filter_map filter].
  unfold read_build_single at 1.
  destruct (r_err r); cbn [negb]; [exact IH|].
  cbn [map]. rewrite <- IH.
  destruct (r_data r + r_msg r >? conn); reflexivity.
Qed.

Theorem read_plan_partition conn micro reqs :
  Permutation (plan_ids (read_build_requests conn micro reqs)) (map r_id (rvalid reqs)).
Proof.
  unfold read_build_requests. destruct (negb (length reqs =? 1)%nat && negb micro).
  - apply read_multi_partition.
  - rewrite read_single_partition. apply Permutation_refl.
Qed.

(* a single read that is NOT fragmented has a reply that fits: reply = 2 + 4 + tlen + d <= d + m when m >= 10 *)
Theorem read_single_fits conn r :
  read_build_single conn r = Some (PSingle (r_id r)) -> 10 <= r_msg r ->
  forall tlen, tlen = 2 \/ tlen = 4 -> 2 + 4 + tlen + r_data r <= conn /\ r_msg r <= conn \/ r_data r < 0.
Proof.
  unfold read_build_single. destruct (r_err r); [discriminate|].
  destruct (r_data r + r_msg r >? conn) eqn:E; [discriminate|]. intros _ Hm tlen Ht.
  destruct (Z_lt_dec (r_data r) 0); [right; lia|left; lia].
Qed.

Theorem read_single_fits2 conn r :
  read_build_single conn r = Some (PSingle (r_id r)) -> 10 <= r_msg r -> 0 <= r_data r ->
  forall tlen, tlen = 2 \/ tlen = 4 -> 2 + 4 + tlen + r_data r <= conn /\ r_msg r <= conn.
Proof.
  intros H Hm Hd tlen Ht. destruct (read_single_fits conn r H Hm tlen Ht) as [A|A]; [exact A|lia].
Qed.

(* ---- writes *)
Definition wvalid (reqs : list wreq) : list wreq :=
  filter (fun w => negb (w_err w) && (w_bit w || negb (w_enc_err w))) reqs.

Definition bw_ids (bw : list (list Z * (Z * list Z))) : list Z := flat_map (fun e => snd (snd e)) bw.

Notation cnt := (count_occ Z.eq_dec).

Lemma cnt_app l1 l2 x : cnt (l1 ++ l2) x = (cnt l1 x + cnt l2 x)%nat.
Proof. apply count_occ_app. Qed.
Lemma cnt_rev l x : cnt (rev l) x = cnt l x.
Proof.
  induction l as [|a l IH]; [reflexivity|]. cbn [rev]. rewrite cnt_app, IH. cbn [count_occ].
  destruct (Z.eq_dec a x); lia.
Qed.
Lemma cnt_one a x : cnt [a] x = if Z.eq_dec a x then 1%nat else 0%nat.
Proof. reflexivity. Qed.
Lemma cnt_cons a l x : cnt (a :: l) x = (cnt [a] x + cnt l x)%nat.
Proof. cbn [count_occ]. destruct (Z.eq_dec a x); lia. Qed.

Lemma rmw_add_ids tag id n bw x : cnt (bw_ids (rmw_add tag id n bw)) x = (cnt (bw_ids bw) x + cnt [id] x)%nat.
Proof.
  unfold bw_ids. induction bw as [|[t [rid ids]] rest IH]; cbn [rmw_add].
  - cbn [flat_map snd app count_occ]. rewrite ?app_nil_r. cbn [count_occ]. destruct (Z.eq_dec id x); lia.
  - destruct (zs_eqb t tag); cbn [flat_map snd].
    + rewrite !cnt_app. lia.
    + rewrite !cnt_app, IH. lia.
Qed.

Lemma write_scan_ids conn reqs x : forall bw frags wr,
  let '(bw', frags', wr') := write_scan conn reqs bw frags wr in
  (cnt (bw_ids bw') x + cnt frags' x + cnt (map fst wr') x
   = cnt (bw_ids bw) x + cnt frags x + cnt (map fst wr) x + cnt (map w_id (wvalid reqs)) x)%nat.
Proof.
  induction reqs as [|w rest IH]; intros bw frags wr; cbn [write_scan].
  - cbn [wvalid filter map count_occ]. rewrite map_rev, !cnt_rev. lia.
  - unfold wvalid in *. cbn [filter].
    destruct (w_err w); cbn [negb andb]; [apply IH|].
    destruct (w_bit w); cbn [orb].
    + specialize (IH (rmw_add (w_tag w) (w_id w) (Z.of_nat (length bw)) bw) frags wr).
      destruct (write_scan conn rest _ frags wr) as [[bw' frags'] wr'].
      rewrite IH, rmw_add_ids. cbn [map]. rewrite (cnt_cons _ (map w_id _)). lia.
    + destruct (w_enc_err w); cbn [negb]; [apply IH|].
      destruct (w_fragm conn w).
      * specialize (IH bw (w_id w :: frags) wr).
        destruct (write_scan conn rest bw (w_id w :: frags) wr) as [[bw' frags'] wr'].
        rewrite IH. cbn [map]. rewrite (cnt_cons _ (map w_id _)), (cnt_cons _ frags). lia.
      * specialize (IH bw frags ((w_id w, w_msg w) :: wr)).
        destruct (write_scan conn rest bw frags ((w_id w, w_msg w) :: wr)) as [[bw' frags'] wr'].
        rewrite IH. cbn [map fst]. rewrite (cnt_cons _ (map w_id _)), (cnt_cons _ (map fst wr)). lia.
Qed.

Lemma concat_filter_nonnil {A} (ls : list (list A)) : concat (filter (fun g => negb (is_nil g)) ls) = concat ls.
Proof.
  induction ls as [|l ls IH]; [reflexivity|]. cbn [filter]. destruct l; cbn [is_nil negb concat]; [exact IH|].
  cbn [concat] in *. rewrite IH. reflexivity.
Qed.

Lemma plan_ids_rmw bw : plan_ids (map (fun e : list Z * (Z * list Z) => PRmw (fst (snd e)) (snd (snd e))) bw) = bw_ids bw.
Proof. induction bw as [|e bw IH]; [reflexivity|]. cbn [map plan_ids flat_map packet_ids bw_ids] in *. unfold plan_ids, bw_ids in IH. rewrite IH. reflexivity. Qed.

Lemma plan_ids_fragid l : plan_ids (map PFrag l) = l.
Proof. induction l as [|a l IH]; [reflexivity|]. cbn [map plan_ids flat_map packet_ids app] in *. unfold plan_ids in IH. rewrite IH. reflexivity. Qed.

(* C03/C04: every request that is valid (parsed, and encodable unless it is a bit write) is in exactly
   one packet of the multi write plan; merged bit writes appear once each inside their RMW packet *)
Theorem write_multi_partition conn reqs :
  Permutation (plan_ids (write_build_multi conn reqs)) (map w_id (wvalid reqs)).
Proof.
  apply (Permutation_count_occ Z.eq_dec). intros x.
  unfold write_build_multi. pose proof (write_scan_ids conn reqs x [] [] []) as H.
  destruct (write_scan conn reqs [] [] []) as [[bw frags] wr]. cbn [bw_ids flat_map map count_occ] in H.
  rewrite !plan_ids_app, plan_ids_multi, plan_ids_fragid, plan_ids_rmw, concat_filter_nonnil, groups_concat.
  rewrite !cnt_app. lia.
Qed.

Lemma write_scan_wr_fit conn reqs : forall bw frags wr,
  Forall (fun p => OVH + snd p <= conn) wr ->
  let '(_, _, wr') := write_scan conn reqs bw frags wr in Forall (fun p => OVH + snd p <= conn) wr'.
Proof.
  induction reqs as [|w rest IH]; intros bw frags wr Hwr; cbn [write_scan].
  - apply Forall_rev, Hwr.
  - destruct (w_err w); [apply IH, Hwr|]. destruct (w_bit w); [apply IH, Hwr|].
    destruct (w_enc_err w); [apply IH, Hwr|]. destruct (w_fragm conn w) eqn:E; [apply IH, Hwr|].
    apply IH. constructor; [|exact Hwr]. cbn [snd]. unfold w_fragm in E. lia.
Qed.

(* C04: every multi-service write packet fits: OVH + sum of len(message) of its requests <= conn,
   and that sum IS the size of the connected data item (10 = 2 sequence + 6 service/path + 2 count;
   each request contributes 2 (offset) + len(message) - 2 (its own sequence count is not sent)) *)
Theorem write_multi_groups_fit conn reqs :
  let '(_, _, wr) := write_scan conn reqs [] [] [] in
  Forall (fun g => OVH + sum_sz g <= conn \/ g = []) (groups_sized conn wr).
Proof.
  pose proof (write_scan_wr_fit conn reqs [] [] [] (Forall_nil _)) as H.
  destruct (write_scan conn reqs [] [] []) as [[bw frags] wr]. apply groups_sized_fit, H.
Qed.

(* ---- fragmented write: the segments tile the value *)
Lemma chunks_concat n : (0 < n)%nat -> forall fuel value, (length value <= fuel)%nat -> concat (chunks fuel n value) = value.
Proof.
  intros Hn. induction fuel as [|f IH]; intros value Hl.
  - destruct value; [reflexivity|cbn in Hl; lia].
  - cbn [chunks]. destruct value as [|b v]; [reflexivity|]. cbn [concat].
    rewrite IH; [apply firstn_skipn|]. rewrite skipn_length. cbn [length] in *. lia.
Qed.

Lemma chunks_bound n : (0 < n)%nat -> forall fuel value,
  Forall (fun s => (0 < length s <= n)%nat) (chunks fuel n value).
Proof.
  intros Hn. induction fuel as [|f IH]; intros value; [constructor|].
  cbn [chunks]. destruct value as [|b v]; [constructor|]. constructor; [|apply IH].
  rewrite firstn_length. cbn [length]. lia.
Qed.

Lemma offsets_from_length o segs : length (offsets_from o segs) = length segs.
Proof. revert o. induction segs as [|s r IH]; intros o; [reflexivity|]. cbn [offsets_from length]. rewrite IH. reflexivity. Qed.

(* the k-th offset is the total length of the segments before it: contiguous, non-overlapping, from 0 *)
Lemma offsets_from_nth segs : forall o k, (k < length segs)%nat ->
  nth k (offsets_from o segs) 0 = o + Z.of_nat (length (concat (firstn k segs))).
Proof.
  induction segs as [|s r IH]; intros o k Hk; [cbn in Hk; lia|].
  destruct k as [|k]; cbn [offsets_from nth firstn concat length]; [lia|].
  rewrite IH by (cbn [length] in Hk; lia). rewrite app_length. lia.
Qed.

Lemma skipn_app_exact {A} (a b : list A) m : skipn (length a + m) (a ++ b) = skipn m b.
Proof. induction a as [|x a IH]; [reflexivity|]. cbn [length app Nat.add skipn]. exact IH. Qed.

Lemma nth_concat_slice (segs : list bytes) : forall k, (k < length segs)%nat ->
  nth k segs [] = firstn (length (nth k segs [])) (skipn (length (concat (firstn k segs))) (concat segs)).
Proof.
  induction segs as [|s r IH]; intros k Hk; [cbn in Hk; lia|].
  destruct k as [|k].
  - cbn [nth firstn concat length skipn]. rewrite firstn_app, Nat.sub_diag, firstn_all. cbn [firstn]. rewrite app_nil_r. reflexivity.
  - cbn [nth firstn concat]. rewrite app_length, skipn_app_exact. apply IH. cbn [length] in Hk. lia.
Qed.

Theorem write_frag_tiles conn ovh value :
  0 < conn - ovh ->
  let frs := write_fragments conn ovh value in
  concat (map snd frs) = value
  /\ Forall (fun '(o, s) => s <> [] /\ ovh + Z.of_nat (length s) <= conn) frs
  /\ (forall k, (k < length frs)%nat ->
        fst (nth k frs (0, [])) = Z.of_nat (length (concat (firstn k (map snd frs)))))
  /\ (forall k, (k < length frs)%nat ->
        snd (nth k frs (0, [])) = firstn (length (snd (nth k frs (0, [])))) (skipn (Z.to_nat (fst (nth k frs (0, [])))) value)).
Proof.
  intros Hpos frs. unfold frs, write_fragments.
  set (n := Z.to_nat (conn - ovh)). set (segs := chunks (length value) n value).
  assert (Hn : (0 < n)%nat) by (unfold n; lia).
  assert (Hlen : length (offsets_from 0 segs) = length segs) by apply offsets_from_length.
  assert (Hsnd : map snd (combine (offsets_from 0 segs) segs) = segs).
  { clear -Hlen. revert Hlen. generalize (offsets_from 0 segs). induction segs as [|s r IH]; intros os H.
    - destruct os; reflexivity.
    - destruct os as [|o os]; [discriminate|]. cbn [combine map snd]. f_equal. apply IH. cbn in H. lia. }
  assert (Hcc : concat segs = value) by (apply chunks_concat; [exact Hn|lia]).
  assert (Hfst : forall k, (k < length segs)%nat ->
            fst (nth k (combine (offsets_from 0 segs) segs) (0, [])) = Z.of_nat (length (concat (firstn k segs)))).
  { intros k Hk. rewrite combine_nth by exact Hlen. cbn [fst]. rewrite offsets_from_nth by exact Hk. lia. }
  rewrite Hsnd. split; [exact Hcc|]. split; [|split].
  - pose proof (chunks_bound n Hn (length value) value) as B. fold segs in B.
    apply Forall_forall. intros [o s] Hin. apply in_combine_r in Hin.
    rewrite Forall_forall in B. specialize (B s Hin). split; [destruct s; [cbn in B; lia|discriminate]|]. unfold n in B. lia.
  - intros k Hk. rewrite combine_length, Hlen, Nat.min_id in Hk. apply Hfst, Hk.
  - intros k Hk. rewrite combine_length, Hlen, Nat.min_id in Hk. rewrite Hfst by exact Hk.
    rewrite combine_nth by exact Hlen. cbn [snd]. rewrite Nat2Z.id.
    rewrite <- Hcc at 1. apply nth_concat_slice, Hk.
Qed.

(* ---- fragmented read: every follow-up request asks for the number of bytes received so far *)
Lemma read_fragments_spec init : forall last off acc_off acc,
  read_fragments (map (fun f => (f, true)) init ++ [(last, false)]) off acc_off acc
  = Some (rev acc_off ++ offsets_from off (init ++ [last]), acc ++ concat init ++ last).
Proof.
  induction init as [|f init IH]; intros last off acc_off acc; cbn [map app read_fragments].
  - cbn [offsets_from rev concat app]. reflexivity.
  - rewrite IH. cbn [rev offsets_from concat app]. rewrite <- !app_assoc. reflexivity.
Qed.

Theorem read_frag_offsets init last :
  let r := read_fragments (map (fun f => (f, true)) init ++ [(last, false)]) 0 [] [] in
  r = Some (offsets_from 0 (init ++ [last]), concat init ++ last)
  /\ forall k, (k < length (init ++ [last]))%nat ->
       nth k (offsets_from 0 (init ++ [last])) 0 = Z.of_nat (length (concat (firstn k (init ++ [last])))).
Proof.
  split; [apply read_fragments_spec|]. intros k Hk. rewrite offsets_from_nth by exact Hk. lia.
Qed.

(* a peer that keeps answering "more" never lets the loop finish: the model waits (None), it does
   not invent data *)
Lemma read_fragments_all_more frs : forall off ao acc,
  read_fragments (map (fun f => (f, true)) frs) off ao acc = None.
Proof. induction frs as [|f r IH]; intros; cbn [map read_fragments]; [reflexivity|apply IH]. Qed.

(* ---- negotiation: the size the target was asked for (and granted) is the size the planners use *)
Lemma land_small a m : 0 <= a <= m -> (m = 65535 \/ m = 511) -> Z.land a m = a.
Proof.
  intros Ha [->| ->].
  - change 65535 with (Z.ones 16). rewrite Z.land_ones by lia. apply Z.mod_small. change (2 ^ 16) with 65536. lia.
  - change 511 with (Z.ones 9). rewrite Z.land_ones by lia. apply Z.mod_small. change (2 ^ 9) with 512. lia.
Qed.

Theorem negotiate_size_agrees st al astd :
  0 <= fo_csize st <= (if fo_ext st then 65535 else 511) ->
  let '(attempts, st', opened) := negotiate st al astd in
  opened = true ->
  (* the last attempt is the one that succeeded: its size field is the driver's connection size *)
  snd (last attempts (false, 0)) = fo_csize st' /\ fst (last attempts (false, 0)) = fo_ext st'
  (* a standard Forward Open after a refused Large one asks for 500 *)
  /\ (fo_ext st = true -> al = false -> attempts = [(true, fo_csize st); (false, 500)] /\ fo_csize st' = 500).
Proof.
  intros Hr. unfold negotiate, fo_size_field. destruct (fo_ext st) eqn:E.
  - assert (L : Z.land (fo_csize st) 65535 = fo_csize st) by (apply land_small; [lia|auto]).
    rewrite L. destruct al.
    + intros _. cbn [last snd fst]. rewrite E. repeat split; congruence.
    + intros _. cbn [last snd fst fo_ext fo_csize].
      change (Z.land 500 511) with 500. repeat split; reflexivity.
  - assert (L : Z.land (fo_csize st) 511 = fo_csize st) by (apply land_small; [lia|auto]).
    rewrite L. intros _. cbn [last snd fst]. rewrite E. repeat split; congruence.
Qed.
