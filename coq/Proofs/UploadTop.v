(* Proofs/UploadTop.v — C05: LogixDriver.get_tag_list(None) and get_tag_list("*") of a fresh
   driver against the reference target, whole:
   * the bookkeeping of programs, routines and tasks ([book_ctrl], [book_prog], [book_all]);
   * [upload_scopes]: controller scope, then every program scope: the uploaded tags are the visible
     tags of those scopes, each with the expected observation; every structure reachable from
     them — and no other — is in data_types, with the expected observation. *)
From Coq Require Import ZifyBool String Sorted Permutation.
From PV Require Import Base.Bytes Base.BytesLemmas Base.Proto Base.PyStr Base.Res.
From PV Require Import Spec.EncapParser Spec.MRParser Spec.TargetIface Spec.TargetCore Spec.Project Spec.Expect Spec.TargetLogix Spec.UploadObs.
From PV Require Import Model.LogixUpload.
From PV Require Import Proofs.UploadDefs Proofs.UploadParse Proofs.UploadFilter Proofs.UploadTemplate Proofs.UploadBlob
  Proofs.UploadObsP Proofs.UploadTarget Proofs.UploadMirror Proofs.UploadScope.
Open Scope string_scope.
Open Scope list_scope.
Open Scope Z_scope.

(* ================================================================ dictionaries keyed by names *)
Lemma tdict_get_app_none {V} (d : list (text * V)) k k' v :
  PyStr.text_eqb k' k = false -> dict_get PyStr.text_eqb (d ++ [(k', v)]) k = dict_get PyStr.text_eqb d k.
Proof.
  intros Hk. induction d as [|[a b] d IH]; cbn [app dict_get]; [rewrite Hk; reflexivity|].
  destruct (PyStr.text_eqb a k); [reflexivity | exact IH].
Qed.

Lemma tdict_get_notin {V} (d : list (text * V)) k : ~ In k (map fst d) -> dict_get PyStr.text_eqb d k = None.
Proof.
  induction d as [|[a b] d IH]; intros H; [reflexivity|]. cbn [dict_get].
  destruct (PyStr.text_eqb a k) eqn:E.
  - exfalso. apply H. left. cbn. apply text_eqb_eq in E. exact E.
  - apply IH. intros Hin. apply H. right. exact Hin.
Qed.

Lemma tdict_set_present {V} (d : list (text * V)) k v :
  map fst (dict_set PyStr.text_eqb d k v) = map fst d \/ map fst (dict_set PyStr.text_eqb d k v) = map fst d ++ [k].
Proof.
  induction d as [|[a b] d IH]; [right; reflexivity|]. cbn [dict_set].
  destruct (PyStr.text_eqb a k) eqn:E; [left; reflexivity|].
  cbn [map fst]. destruct IH as [-> | ->]; [left | right]; reflexivity.
Qed.

(* d[k] = f(d[k]) for a key that is present, with distinct keys *)
Lemma tdict_update {V} (d : list (text * V)) k v0 v :
  NoDup (map fst d) -> dict_get PyStr.text_eqb d k = Some v0 ->
  dict_set PyStr.text_eqb d k v = map (fun kv => if PyStr.text_eqb (fst kv) k then (fst kv, v) else kv) d.
Proof.
  induction d as [|[a b] d IH]; intros Hnd Hget; [discriminate|].
  cbn [map fst] in Hnd. inversion Hnd as [|? ? Hn Hnd']; subst.
  cbn [dict_get dict_set map fst] in *.
  destruct (PyStr.text_eqb a k) eqn:E.
  - f_equal. apply text_eqb_eq in E. subst a.
    rewrite <- (map_id d) at 1. apply map_ext_in. intros [a' b'] Hin. cbn [fst].
    destruct (PyStr.text_eqb a' k) eqn:E'; [|reflexivity].
    exfalso. apply Hn. apply text_eqb_eq in E'. subst a'. apply (in_map fst) in Hin. exact Hin.
  - f_equal. apply IH; assumption.
Qed.

(* ================================================================ programs, routines, tasks *)
Definition is_prog (g : tagdef) : bool := starts_with txt_Program (g_name g).
Definition is_routine (g : tagdef) : bool := starts_with txt_Routine (g_name g).
Definition is_task (g : tagdef) : bool := starts_with txt_Task (g_name g).

Definition prog_entry (g : tagdef) : text * (Z * list text) := (skipn 8 (g_name g), (g_inst g, [])).
Definition task_entry (g : tagdef) : text * Z := (skipn 5 (g_name g), g_inst g).
Definition routines_in (gs : list tagdef) : list text := map (fun g => skipn 8 (g_name g)) (filter is_routine gs).

Lemma task_not_prog g : is_task g = true -> is_prog g = false /\ is_routine g = false.
Proof.
  unfold is_task, is_prog, is_routine, txt_Task, txt_Program, txt_Routine. intros H.
  split; eapply starts_with_first_char; try exact H; lia.
Qed.
Lemma routine_not_prog g : is_routine g = true -> is_prog g = false.
Proof.
  unfold is_prog, is_routine. intros H.
  apply (starts_with_disjoint_8 txt_Routine txt_Program (g_name g) H); [reflexivity | reflexivity | discriminate].
Qed.

Section Book.
  Variable p : project.
  Variable cap : Z.
  Hypothesis Htagdom : Forall (tag_dom cap) (p_tags p).

  Lemma classify_sym g : In g (p_tags p) ->
    classify (g_name g) (sym_type_word g)
    = if is_prog g then IsoProgram (skipn 8 (g_name g))
      else if is_routine g then IsoRoutine (skipn 8 (g_name g))
      else if is_task g then IsoTask (skipn 5 (g_name g))
      else classify (g_name g) (sym_type_word g).
  Proof.
    intros Hin. rewrite Forall_forall in Htagdom. destruct (Htagdom g Hin) as (_ & _ & _ & _ & HP & HR & HT).
    unfold is_prog, is_routine, is_task.
    destruct (starts_with txt_Program (g_name g)) eqn:EP.
    { destruct (HP eq_refl) as (_ & _ & Hc & _). apply classify_program; assumption. }
    destruct (starts_with txt_Routine (g_name g)) eqn:ER.
    { apply classify_routine; [exact ER | exact (HR eq_refl)]. }
    destruct (starts_with txt_Task (g_name g)) eqn:ET.
    { destruct (HT eq_refl) as (_ & Hc). apply classify_task; assumption. }
    reflexivity.
  Qed.

  Lemma classify_other g : is_prog g = false -> is_routine g = false -> is_task g = false ->
    classify (g_name g) (sym_type_word g) = IsoSkip \/ classify (g_name g) (sym_type_word g) = IsoKeep.
  Proof.
    unfold is_prog, is_routine, is_task, classify. rewrite txt_Program_eq, txt_Routine_eq, txt_Task_eq.
    intros -> -> ->. repeat match goal with |- context [if ?b then _ else _] => destruct b end; auto.
  Qed.

  (* the controller scope: programs and tasks are recorded, in order *)
  Lemma book_ctrl : forall gs P T,
    (forall g, In g gs -> In g (p_tags p)) ->
    NoDup (map fst P ++ map (fun g => skipn 8 (g_name g)) (filter is_prog gs)) ->
    NoDup (map fst T ++ map (fun g => skipn 5 (g_name g)) (filter is_task gs)) ->
    book None (P, T) gs = (P ++ map prog_entry (filter is_prog gs), T ++ map task_entry (filter is_task gs)).
  Proof.
    induction gs as [|g gs IH]; intros P T Hin HP HT.
    - cbn. rewrite !app_nil_r. reflexivity.
    - change (book None (P, T) (g :: gs)) with (book None (book_step None (P, T) g) gs). unfold book_step.
      rewrite (classify_sym g (Hin g (or_introl eq_refl))).
      assert (Hin' : forall g0, In g0 gs -> In g0 (p_tags p)) by (intros g0 H0; apply Hin; right; exact H0).
      cbn [filter] in *.
      destruct (is_prog g) eqn:EP.
      + assert (is_task g = false) as ET.
        { destruct (is_task g) eqn:E; [|reflexivity]. destruct (task_not_prog g E). congruence. }
        rewrite ET in *. cbn [map fst snd] in *.
        rewrite dict_set_absent.
        2:{ apply tdict_get_notin. apply NoDup_remove_2 in HP. intros H. apply HP. apply in_or_app. left. exact H. }
        rewrite IH; [rewrite <- app_assoc; reflexivity | exact Hin' | | exact HT].
        rewrite map_app. cbn [map fst prog_entry]. rewrite <- app_assoc. cbn [app]. exact HP.
      + destruct (is_routine g) eqn:ER.
        * assert (is_task g = false) as ET.
          { destruct (is_task g) eqn:E; [|reflexivity]. destruct (task_not_prog g E). congruence. }
          rewrite ET in *. cbn [fst snd]. apply IH; assumption.
        * destruct (is_task g) eqn:ET.
          -- cbn [map fst snd] in *.
             rewrite dict_set_absent.
             2:{ apply tdict_get_notin. apply NoDup_remove_2 in HT. intros H. apply HT. apply in_or_app. left. exact H. }
             rewrite IH; [rewrite <- app_assoc; reflexivity | exact Hin' | exact HP |].
             rewrite map_app. cbn [map fst task_entry]. rewrite <- app_assoc. cbn [app]. exact HT.
          -- destruct (classify_other g EP ER ET) as [-> | ->]; apply IH; assumption.
  Qed.

  Definition upd_routines (pn : text) (i : Z) (rs : list text) (kv : text * (Z * list text)) : text * (Z * list text) :=
    if PyStr.text_eqb (fst kv) pn then (fst kv, (i, rs)) else kv.

  Lemma upd_keys pn i rs P : map fst (map (upd_routines pn i rs) P) = map fst P.
  Proof. rewrite map_map. apply map_ext. intros [a b]. unfold upd_routines. cbn [fst]. destruct (PyStr.text_eqb a pn); reflexivity. Qed.

  Lemma upd_get pn i rs : forall P v0, dict_get PyStr.text_eqb P pn = Some v0 ->
    dict_get PyStr.text_eqb (map (upd_routines pn i rs) P) pn = Some (i, rs).
  Proof.
    induction P as [|[a b] P IH]; intros v0 H; [discriminate|]. cbn [map dict_get] in *. unfold upd_routines at 1. cbn [fst].
    destruct (PyStr.text_eqb a pn) eqn:E; cbn [fst]; rewrite E; [reflexivity | eapply IH; exact H].
  Qed.

  Lemma upd_upd pn i rs rs' P : map (upd_routines pn i rs') (map (upd_routines pn i rs) P) = map (upd_routines pn i rs') P.
  Proof.
    rewrite map_map. apply map_ext. intros [a b]. unfold upd_routines. cbn [fst].
    destruct (PyStr.text_eqb a pn) eqn:E; cbn [fst]; rewrite E; reflexivity.
  Qed.

  Lemma upd_same pn i rs : forall P, NoDup (map fst P) -> dict_get PyStr.text_eqb P pn = Some (i, rs) ->
    map (upd_routines pn i rs) P = P.
  Proof.
    induction P as [|[a b] P IH]; intros Hnd Hget; [reflexivity|].
    cbn [map fst] in Hnd. inversion Hnd as [|? ? Hn Hnd']; subst.
    cbn [map dict_get] in *. unfold upd_routines at 1. cbn [fst].
    destruct (PyStr.text_eqb a pn) eqn:E.
    - injection Hget as ->. f_equal.
      rewrite <- (map_id P) at 2. apply map_ext_in. intros [a' b'] Hin'. unfold upd_routines. cbn [fst].
      destruct (PyStr.text_eqb a' pn) eqn:E'; [|reflexivity].
      exfalso. apply Hn. apply text_eqb_eq in E, E'. subst. apply (in_map fst) in Hin'. exact Hin'.
    - f_equal. apply IH; assumption.
  Qed.

  (* a program scope: its routines are appended to the program's entry *)
  Lemma book_prog pn : forall gs P T i rs,
    (forall g, In g gs -> In g (p_tags p) /\ is_prog g = false /\ is_task g = false) ->
    NoDup (map fst P) -> dict_get PyStr.text_eqb P pn = Some (i, rs) ->
    book (Some pn) (P, T) gs = (map (upd_routines pn i (rs ++ routines_in gs)) P, T).
  Proof.
    induction gs as [|g gs IH]; intros P T i rs Hgs Hnd Hget.
    - cbn [book fold_left routines_in filter map]. rewrite app_nil_r. f_equal. symmetry. apply upd_same; assumption.
    - change (book (Some pn) (P, T) (g :: gs)) with (book (Some pn) (book_step (Some pn) (P, T) g) gs). unfold book_step.
      destruct (Hgs g (or_introl eq_refl)) as (Hin & EP & ET).
      assert (Hgs' : forall g0, In g0 gs -> In g0 (p_tags p) /\ is_prog g0 = false /\ is_task g0 = false)
        by (intros g0 H0; apply Hgs; right; exact H0).
      rewrite (classify_sym g Hin), EP, ET. unfold routines_in. cbn [filter].
      destruct (is_routine g) eqn:ER.
      + cbn [fst snd map]. rewrite Hget.
        pose proof (tdict_update P pn (i, rs) (i, rs ++ [skipn 8 (g_name g)]) Hnd Hget) as Hu.
        match goal with |- book _ (?X, _) _ = _ =>
          replace X with (map (upd_routines pn i (rs ++ [skipn 8 (g_name g)])) P) by (symmetry; exact Hu) end.
        rewrite (IH _ T i (rs ++ [skipn 8 (g_name g)]) Hgs').
        * rewrite upd_upd, <- app_assoc. reflexivity.
        * rewrite upd_keys. exact Hnd.
        * eapply upd_get. exact Hget.
      + destruct (classify_other g EP ER ET) as [-> | ->]; apply IH; assumption.
  Qed.
End Book.

Lemma upd_get_other pn i rs k : PyStr.text_eqb pn k = false -> forall P,
  dict_get PyStr.text_eqb (map (upd_routines pn i rs) P) k = dict_get PyStr.text_eqb P k.
Proof.
  intros Hk. induction P as [|[a b] P IH]; [reflexivity|]. cbn [map dict_get]. unfold upd_routines at 1. cbn [fst].
  destruct (PyStr.text_eqb a pn) eqn:E; cbn [fst].
  - apply text_eqb_eq in E. subst a. rewrite Hk. exact IH.
  - destruct (PyStr.text_eqb a k); [reflexivity | exact IH].
Qed.

(* two dictionaries with the same keys (distinct) and the same values are the same list *)
Lemma dict_ext {V} : forall (a b : list (text * V)),
  map fst a = map fst b -> NoDup (map fst a) ->
  (forall k, In k (map fst a) -> dict_get PyStr.text_eqb a k = dict_get PyStr.text_eqb b k) -> a = b.
Proof.
  induction a as [|[k v] a IH]; intros [|[k' v'] b] Hk Hnd Hget; try discriminate; [reflexivity|].
  cbn [map fst] in Hk, Hnd. injection Hk as <- Hk. inversion Hnd as [|? ? Hn Hnd']; subst.
  pose proof (Hget k (or_introl eq_refl)) as H0. cbn [dict_get] in H0. rewrite text_eqb_refl in H0. injection H0 as <-.
  f_equal. apply IH; [exact Hk | exact Hnd'|].
  intros k0 Hk0. specialize (Hget k0 (or_intror Hk0)). cbn [dict_get] in Hget.
  rewrite text_eqb_neq in Hget by (intros ->; contradiction). exact Hget.
Qed.

(* ================================================================ the domain *)
Record upload_dom (p : project) (cap : Z) : Prop := {
  d_cap : 34 <= cap <= 65535;
  d_sorted : sorted_by_inst (p_tags p) = true;
  d_tags : Forall (tag_dom cap) (p_tags p);
  d_templates : Forall tmpl_dom (p_templates p);
  d_display : NoDup (map (fun t => display_name (t_name t)) (p_templates p));
  (* a tag's scope names its program exactly as the program symbol does *)
  d_scope_exact : forall g pn, In g (p_tags p) -> In pn (program_names p) ->
                               scope_eqb (g_scope g) (ScProg pn) = true -> g_scope g = ScProg pn;
  d_scope_known : forall g pn, In g (p_tags p) -> g_scope g = ScProg pn -> In pn (program_names p);
  d_prog_names : NoDup (program_names p);
  d_task_names : NoDup (map (fun g => skipn 5 (g_name g)) (filter is_task (scope_tags p ScCtrl)))
}.

Lemma contains_false_starts p s : contains_str p s = false -> starts_with p s = false.
Proof.
  unfold contains_str, find. destruct s as [|c s]; cbn [find_from]; destruct (starts_with p _); try reflexivity; discriminate.
Qed.

(* ================================================================ the whole upload *)
Section Top.
  Variable p : project.
  Variable pol : policy.
  Variable cap rev_major : Z.

  Let ts := p_templates p.
  Let st0 : lstate := target_state p pol.
  Let wa := with_access rev_major.

  Hypothesis Hwf : wf_project p = true.
  Hypothesis Hdom : upload_dom p cap.

  Lemma wf_templates : templates_ok [] ts = true.
  Proof. unfold wf_project in Hwf. split_andb. assumption. Qed.
  Lemma wf_tags : forallb (tag_ok p) (p_tags p) = true.
  Proof. unfold wf_project in Hwf. split_andb. assumption. Qed.

  Definition vis (gs : list tagdef) : list tagdef := filter (fun g => negb (hidden_symbol g)) gs.
  Definition tagrel (g : tagdef) (mt : mtag) : Prop :=
    tag_obs_ok p rev_major g (otag_of_mtag wa mt) /\ tg_name mt = full_name g.

  Definition ctrl : list tagdef := scope_tags p ScCtrl.

  Lemma ctrl_scope g : In g ctrl -> In g (p_tags p) /\ g_scope g = ScCtrl.
  Proof.
    unfold ctrl, scope_tags. intros H. apply filter_In in H. destruct H as [H1 H2]. split; [exact H1|].
    destruct (g_scope g); [reflexivity | discriminate].
  Qed.

  Lemma program_names_eq : program_names p = map (fun g => skipn 8 (g_name g)) (filter is_prog ctrl).
  Proof.
    unfold program_names, ctrl, scope_tags. induction (p_tags p) as [|g l IH]; [reflexivity|].
    cbn [flat_map filter]. unfold is_program_symbol at 1. destruct (g_scope g); cbn [scope_eqb filter].
    - unfold is_prog at 1. destruct (starts_with txt_Program (g_name g)); cbn [app map]; rewrite IH; reflexivity.
    - exact IH.
  Qed.

  Lemma prog_scope_arg pn : In pn (program_names p) -> scope_arg_ok p (Some pn) (ScProg pn).
  Proof.
    intros Hin. pose proof Hin as Hin0. rewrite program_names_eq in Hin. apply in_map_iff in Hin. destruct Hin as (g & <- & Hg).
    apply filter_In in Hg. destruct Hg as [Hg Hp]. destruct (ctrl_scope g Hg) as [Hin _].
    pose proof (d_tags p cap Hdom) as Htd. rewrite Forall_forall in Htd. destruct (Htd g Hin) as (_ & _ & _ & _ & HP & _).
    destruct (HP Hp) as (_ & Hne & Hc & Hl).
    cbn [scope_arg_ok]. split; [reflexivity|]. split; [exact Hne|]. split; [apply contains_false_starts; exact Hc|].
    split; [exact Hl | exact Hin0].
  Qed.

  Lemma prog_scope_tags pn g : In pn (program_names p) -> In g (scope_tags p (ScProg pn)) ->
    In g (p_tags p) /\ g_scope g = ScProg pn /\ is_prog g = false /\ is_task g = false.
  Proof.
    intros Hpn Hg. unfold scope_tags in Hg. apply filter_In in Hg. destruct Hg as [Hin Hsc].
    pose proof (d_scope_exact p cap Hdom g pn Hin Hpn Hsc) as Hex.
    pose proof (d_tags p cap Hdom) as Htd. rewrite Forall_forall in Htd. destruct (Htd g Hin) as (_ & _ & _ & _ & HP & _ & HT).
    split; [exact Hin|]. split; [exact Hex|]. unfold is_prog, is_task. split.
    - destruct (starts_with txt_Program (g_name g)) eqn:E; [|reflexivity]. destruct (HP eq_refl) as (Hc & _). congruence.
    - destruct (starts_with txt_Task (g_name g)) eqn:E; [|reflexivity]. destruct (HT eq_refl) as (Hc & _). congruence.
  Qed.

  Section WithRoots.
    Variable R : Z -> Prop.

    (* one scope: pager, filter, tag records, structures *)
    Lemma scope_ok prog sc fuel u :
      scope_arg_ok p prog sc -> (fuel_bound p <= fuel)%nat -> Inv p R u ->
      (forall g, In g (scope_tags p sc) ->
                 In g (p_tags p) /\ match prog with None => g_scope g = ScCtrl | Some pn => g_scope g = ScProg pn end) ->
      (forall g tid, In g (scope_tags p sc) -> hidden_symbol g = false -> g_ty g = BStruct tid -> R tid) ->
      exists u' new,
        get_tag_list_scope lstate (target_call cap) rev_major fuel u st0 prog = (st0, u', Done new)
        /\ Forall2 tagrel (vis (scope_tags p sc)) new
        /\ Inv p R u' /\ incl (keys u) (keys u')
        /\ (forall g tid, In g (scope_tags p sc) -> hidden_symbol g = false -> g_ty g = BStruct tid -> In tid (keys u'))
        /\ (u_programs u', u_tasks u') = book prog (u_programs u, u_tasks u) (scope_tags p sc).
    Proof.
      intros Harg Hfuel Hinv Hgs HR. unfold get_tag_list_scope.
      pose proof (d_cap p cap Hdom) as Hcap.
      pose proof (scope_symbols p pol cap rev_major wf_templates Hcap wf_tags (d_sorted p cap Hdom) (d_tags p cap Hdom) prog sc fuel Harg
                                ltac:(unfold fuel_bound in Hfuel; lia)) as Esym.
      fold st0 in Esym. rewrite Esym.
      destruct (isolate_ok p pol cap rev_major wf_templates wf_tags (d_tags p cap Hdom) R ltac:(lia) (d_templates p cap Hdom)
                           (d_display p cap Hdom) prog (scope_tags p sc) Hgs HR fuel u [])
        as (u' & new & E & HF & Hi & Hk & Hp & Hb).
      { unfold fuel_bound in Hfuel. lia. }
      { exact Hinv. }
      exists u', new. fold st0 in E. unfold raw_of_tag in E. fold wa in E |- *. rewrite E. cbn [app].
      split; [reflexivity|]. split; [exact HF|]. auto.
    Qed.

    Definition prog_vis (l : list text) : list tagdef := flat_map (fun pn => vis (scope_tags p (ScProg pn))) l.
    Definition add_routines (k : text) (v : Z * list text) : Z * list text :=
      (fst v, snd v ++ routines_in (scope_tags p (ScProg k))).

    (* every program scope, in the order of the programs dictionary *)
    Lemma progs_ok fuel : (fuel_bound p <= fuel)%nat -> forall l u acc,
      NoDup l -> (forall pn, In pn l -> In pn (program_names p)) ->
      (forall pn, In pn l -> exists v, dict_get PyStr.text_eqb (u_programs u) pn = Some v) ->
      NoDup (map fst (u_programs u)) -> Inv p R u ->
      (forall pn g tid, In pn l -> In g (scope_tags p (ScProg pn)) -> hidden_symbol g = false -> g_ty g = BStruct tid -> R tid) ->
      exists u' new,
        program_tag_lists lstate (target_call cap) rev_major fuel u st0 l acc = (st0, u', Done (acc ++ new))
        /\ Forall2 tagrel (prog_vis l) new
        /\ Inv p R u' /\ incl (keys u) (keys u')
        /\ (forall pn g tid, In pn l -> In g (scope_tags p (ScProg pn)) -> hidden_symbol g = false -> g_ty g = BStruct tid ->
                              In tid (keys u'))
        /\ map fst (u_programs u') = map fst (u_programs u) /\ u_tasks u' = u_tasks u
        /\ (forall k, dict_get PyStr.text_eqb (u_programs u') k
                      = if existsb (PyStr.text_eqb k) l then option_map (add_routines k) (dict_get PyStr.text_eqb (u_programs u) k)
                        else dict_get PyStr.text_eqb (u_programs u) k).
    Proof.
      intros Hfuel. induction l as [|pn r IH]; intros u acc Hnd Hnames Hget Hkeys Hinv HR.
      - exists u, []. cbn [program_tag_lists prog_vis flat_map existsb]. rewrite app_nil_r.
        split; [reflexivity|]. split; [constructor|]. split; [exact Hinv|]. split; [apply incl_refl|].
        split; [intros ? ? ? []|]. auto.
      - inversion Hnd as [|? ? Hnotin Hnd']; subst.
        pose proof (Hnames pn (or_introl eq_refl)) as Hpn.
        destruct (scope_ok (Some pn) (ScProg pn) fuel u (prog_scope_arg pn Hpn) Hfuel Hinv) as (u1 & new1 & E1 & HF1 & Hi1 & Hk1 & Hp1 & Hb1).
        { intros g Hg. destruct (prog_scope_tags pn g Hpn Hg) as (H1 & H2 & _). auto. }
        { intros g tid Hg. apply (HR pn g tid (or_introl eq_refl) Hg). }
        destruct (Hget pn (or_introl eq_refl)) as ([i rs] & Eget).
        rewrite (book_prog p cap (d_tags p cap Hdom) pn (scope_tags p (ScProg pn)) (u_programs u) (u_tasks u) i rs) in Hb1.
        2:{ intros g Hg. destruct (prog_scope_tags pn g Hpn Hg) as (H1 & _ & H3 & H4). auto. }
        2:{ exact Hkeys. }
        2:{ exact Eget. }
        injection Hb1 as Hprogs1 Htasks1.
        cbn [program_tag_lists]. rewrite E1.
        rewrite Hprogs1, map_length, Nat.eqb_refl. cbn [negb].
        destruct (IH u1 (acc ++ new1) Hnd') as (u' & new & E & HF & Hi & Hk & Hp & Hkk & Htt & Hlook).
        { intros pn' H'. apply Hnames. right. exact H'. }
        { intros pn' H'. rewrite Hprogs1. rewrite upd_get_other.
          - apply Hget. right. exact H'.
          - apply text_eqb_neq. intros ->. contradiction. }
        { rewrite Hprogs1, upd_keys. exact Hkeys. }
        { exact Hi1. }
        { intros pn' g tid H'. apply HR. right. exact H'. }
        exists u', (new1 ++ new). rewrite E, <- app_assoc. split; [reflexivity|].
        split; [unfold prog_vis; cbn [flat_map]; apply Forall2_app; assumption|].
        split; [exact Hi|]. split; [eapply incl_tran; eassumption|].
        split.
        { intros pn' g tid [<- | H'] Hg Hv Ht; [apply Hk; eapply Hp1; eassumption | eapply Hp; eassumption]. }
        split; [rewrite Hkk, Hprogs1, upd_keys; reflexivity|]. split; [congruence|].
        intros k. rewrite Hlook, Hprogs1. cbn [existsb].
        destruct (PyStr.text_eqb k pn) eqn:Ek.
        + apply text_eqb_eq in Ek. subst k. cbn [orb].
          replace (existsb (PyStr.text_eqb pn) r) with false.
          2:{ symmetry. apply not_true_is_false. intros Hex. apply existsb_exists in Hex. destruct Hex as (x & Hx & Ex).
              apply text_eqb_eq in Ex. subst x. contradiction. }
          rewrite (upd_get pn i _ (u_programs u) (i, rs) Eget), Eget. reflexivity.
        + cbn [orb]. rewrite upd_get_other; [reflexivity|].
          destruct (PyStr.text_eqb pn k) eqn:E'; [|reflexivity]. apply text_eqb_eq in E'. subst k. rewrite text_eqb_refl in Ek. discriminate.
    Qed.
  End WithRoots.

  (* ---------------------------------------------------------------- the roots: structure types of the visible tags *)
  Definition R_ctrl (tid : Z) : Prop :=
    exists g, In g ctrl /\ hidden_symbol g = false /\ g_ty g = BStruct tid.
  Definition R_star (tid : Z) : Prop :=
    exists g, In g (p_tags p) /\ hidden_symbol g = false /\ g_ty g = BStruct tid.

  Lemma Inv_init R : Inv p R init_ustate.
  Proof.
    constructor; unfold keys; cbn [init_ustate u_udts u_structs u_data_types map dict_get].
    - discriminate.
    - discriminate.
    - constructor.
    - reflexivity.
    - intros ? ? ? [].
    - intros ? [].
  Qed.

  Lemma dict_get_entries {V} (f : tagdef -> V) (nm : tagdef -> text) : forall (l : list tagdef) g,
    NoDup (map nm l) -> In g l -> dict_get PyStr.text_eqb (map (fun x => (nm x, f x)) l) (nm g) = Some (f g).
  Proof.
    induction l as [|x l IH]; intros g Hnd Hin; [destruct Hin|].
    cbn [map] in Hnd. inversion Hnd as [|? ? Hn Hnd']; subst. cbn [map dict_get].
    destruct Hin as [<- | Hin]; [rewrite text_eqb_refl; reflexivity|].
    rewrite text_eqb_neq; [apply IH; assumption|]. intros E. apply Hn. rewrite E. apply in_map. exact Hin.
  Qed.

  Definition nm8 (g : tagdef) : text := skipn 8 (g_name g).
  Definition PS : list tagdef := filter is_prog ctrl.

  Lemma PS_names : map nm8 PS = program_names p.
  Proof. symmetry. apply program_names_eq. Qed.

  Lemma ctrl_book :
    book None ([], []) ctrl = (map prog_entry PS, map task_entry (filter is_task ctrl)).
  Proof.
    pose proof (book_ctrl p cap (d_tags p cap Hdom) ctrl [] []) as H. cbn [app map fst] in H. apply H.
    - intros g Hg. apply (ctrl_scope g Hg).
    - fold PS. change (map (fun g => skipn 8 (g_name g)) PS) with (map nm8 PS).
      rewrite PS_names. exact (d_prog_names p cap Hdom).
    - exact (d_task_names p cap Hdom).
  Qed.

  (* ---------------------------------------------------------------- get_tag_list(None) *)
  Theorem upload_none fuel : (fuel_bound p <= fuel)%nat ->
    exists r, upload_target cap rev_major fuel p pol ArgNone = Done r
      /\ Forall2 tagrel (vis ctrl) (res_tags r)
      /\ Inv p R_ctrl (res_state r)
      /\ (forall g tid, In g ctrl -> hidden_symbol g = false -> g_ty g = BStruct tid -> In tid (keys (res_state r)))
      /\ u_programs (res_state r) = map prog_entry PS
      /\ u_tasks (res_state r) = map task_entry (filter is_task ctrl).
  Proof.
    intros Hfuel. unfold upload_target, get_tag_list.
    change (set_data_types [] (set_tasks [] (set_programs [] (set_udts [] (set_structs [] init_ustate))))) with init_ustate.
    destruct (scope_ok R_ctrl None ScCtrl fuel init_ustate eq_refl Hfuel (Inv_init R_ctrl)) as (u' & new & E & HF & Hi & Hk & Hp & Hb).
    { intros g Hg. exact (ctrl_scope g Hg). }
    { intros g tid Hg Hv Ht. exists g. auto. }
    fold st0. rewrite E. cbn [snd].
    eexists. split; [reflexivity|]. cbn [res_tags res_state].
    fold ctrl in Hb. cbn [init_ustate u_programs u_tasks] in Hb. rewrite ctrl_book in Hb. injection Hb as Hb1 Hb2.
    split; [exact HF|]. split; [exact Hi|]. split; [exact Hp|]. auto.
  Qed.

  (* ---------------------------------------------------------------- get_tag_list("*") *)
  Definition star_tags : list tagdef := vis ctrl ++ flat_map (fun pn => vis (scope_tags p (ScProg pn))) (program_names p).
  Definition star_programs : list (text * (Z * list text)) :=
    map (fun g => (nm8 g, (g_inst g, routines_in (scope_tags p (ScProg (nm8 g)))))) PS.

  Theorem upload_star fuel : (fuel_bound p <= fuel)%nat ->
    exists r, upload_target cap rev_major fuel p pol ArgStar = Done r
      /\ Forall2 tagrel star_tags (res_tags r)
      /\ Inv p R_star (res_state r)
      /\ (forall g tid, In g star_tags -> g_ty g = BStruct tid -> In tid (keys (res_state r)))
      /\ u_programs (res_state r) = star_programs
      /\ u_tasks (res_state r) = map task_entry (filter is_task ctrl).
  Proof.
    intros Hfuel. unfold upload_target, get_tag_list.
    change (set_data_types [] (set_tasks [] (set_programs [] (set_udts [] (set_structs [] init_ustate))))) with init_ustate.
    destruct (scope_ok R_star None ScCtrl fuel init_ustate eq_refl Hfuel (Inv_init R_star)) as (u1 & new1 & E1 & HF1 & Hi1 & Hk1 & Hp1 & Hb1).
    { intros g Hg. exact (ctrl_scope g Hg). }
    { intros g tid Hg Hv Ht. exists g. split; [apply (ctrl_scope g Hg) | auto]. }
    fold st0. rewrite E1.
    fold ctrl in Hb1. cbn [init_ustate u_programs u_tasks] in Hb1. rewrite ctrl_book in Hb1. injection Hb1 as Hb1 Hb2.
    assert (Hk : map fst (u_programs u1) = program_names p).
    { rewrite Hb1, map_map. cbn [prog_entry fst]. exact PS_names. }
    rewrite Hk.
    destruct (progs_ok R_star fuel Hfuel (program_names p) u1 new1 (d_prog_names p cap Hdom)) as (u' & new & E & HF & Hi & Hkk & Hp & Hks & Htt & Hlook).
    { auto. }
    { intros pn Hpn. rewrite Hb1. rewrite <- PS_names in Hpn. apply in_map_iff in Hpn. destruct Hpn as (g & <- & Hg).
      exists (g_inst g, []). unfold prog_entry.
      apply (dict_get_entries (fun x => (g_inst x, @nil text)) nm8 PS g); [rewrite PS_names; exact (d_prog_names p cap Hdom) | exact Hg]. }
    { rewrite Hk. exact (d_prog_names p cap Hdom). }
    { exact Hi1. }
    { intros pn g tid Hpn Hg Hv Ht. exists g. destruct (prog_scope_tags pn g Hpn Hg) as (H1 & _). auto. }
    rewrite E. cbn [snd]. eexists. split; [reflexivity|]. cbn [res_tags res_state].
    split; [unfold star_tags; cbn [app]; apply Forall2_app; assumption|].
    split; [exact Hi|].
    split.
    { intros g tid Hg Ht. unfold star_tags in Hg. apply in_app_iff in Hg. destruct Hg as [Hg | Hg].
      - apply filter_In in Hg. destruct Hg as [Hg Hv]. apply Hkk. eapply Hp1; [exact Hg | | exact Ht].
        destruct (hidden_symbol g); [discriminate | reflexivity].
      - apply in_flat_map in Hg. destruct Hg as (pn & Hpn & Hg). apply filter_In in Hg. destruct Hg as [Hg Hv].
        eapply Hp; [exact Hpn | exact Hg | | exact Ht]. destruct (hidden_symbol g); [discriminate | reflexivity]. }
    split; [|congruence].
    (* the programs dictionary *)
    apply dict_ext.
    - rewrite Hks, Hk. unfold star_programs. rewrite map_map. cbn [fst]. symmetry. exact PS_names.
    - rewrite Hks, Hk. exact (d_prog_names p cap Hdom).
    - intros k Hkin. rewrite Hks, Hk in Hkin. rewrite Hlook.
      replace (existsb (PyStr.text_eqb k) (program_names p)) with true.
      2:{ symmetry. apply existsb_exists. exists k. split; [exact Hkin | apply text_eqb_refl]. }
      rewrite <- PS_names in Hkin. apply in_map_iff in Hkin. destruct Hkin as (g & <- & Hg).
      assert (Hnd : NoDup (map nm8 PS)) by (rewrite PS_names; exact (d_prog_names p cap Hdom)).
      assert (L1 : dict_get PyStr.text_eqb (map prog_entry PS) (nm8 g) = Some (g_inst g, []))
        by exact (dict_get_entries (fun x => (g_inst x, @nil text)) nm8 PS g Hnd Hg).
      assert (L2 : dict_get PyStr.text_eqb star_programs (nm8 g) = Some (g_inst g, routines_in (scope_tags p (ScProg (nm8 g)))))
        by exact (dict_get_entries (fun x => (g_inst x, routines_in (scope_tags p (ScProg (nm8 x))))) nm8 PS g Hnd Hg).
      rewrite Hb1, L1, L2. reflexivity.
  Qed.
End Top.
