(* Proofs/IdentityHex.v — the serial number: Python's f"{n:08x}" (Model: [fmt_08x], digits produced
   least-significant first by repeated division, then zero-padded to a MINIMUM width of 8) is, for
   every 0 <= n < 2^32, exactly the eight lower-case hex digits of the Spec ([hex8], positional
   arithmetic), by induction and arithmetic — no enumeration of n.  Reading back: [unhex],
   bytes.fromhex + int.from_bytes. Only per-DIGIT facts (16 digits, character codes < 103) are swept. *)
From Coq Require Import String ZifyBool.
From PV Require Import Base.Bytes Base.BytesLemmas Base.Res Base.Proto Base.PyStr Model.Identity Spec.IdentitySpec.
From PV Require Import Proofs.IdentityPrim.
Open Scope Z_scope.
Ltac Zify.zify_post_hook ::= Z.to_euclidean_division_equations.

(* ------------------------------------------------------------------ per-digit facts (finite) *)
Lemma hexdigit_hexchar d : 0 <= d < 16 -> hexdigit d = hexchar d.
Proof.
  intros H. apply Z.eqb_eq.
  apply (forallb_upto (fun d => hexdigit d =? hexchar d) 16); [vm_compute; reflexivity|lia].
Qed.
Lemma index_hexchar d : 0 <= d < 16 -> index_of (hexchar d) hexchars 0 = Some d.
Proof.
  intros H.
  assert (E : (match index_of (hexchar d) hexchars 0 with Some x => x =? d | None => false end) = true).
  { apply (forallb_upto (fun d => match index_of (hexchar d) hexchars 0 with Some x => x =? d | None => false end) 16);
      [vm_compute; reflexivity|lia]. }
  destruct (index_of (hexchar d) hexchars 0); [f_equal; lia|discriminate].
Qed.
Lemma hexval_hexchar d : 0 <= d < 16 -> hexval (hexchar d) = Some d.
Proof.
  intros H.
  assert (E : (match hexval (hexchar d) with Some x => x =? d | None => false end) = true).
  { apply (forallb_upto (fun d => match hexval (hexchar d) with Some x => x =? d | None => false end) 16);
      [vm_compute; reflexivity|lia]. }
  destruct (hexval (hexchar d)); [f_equal; lia|discriminate].
Qed.
Lemma is_space_hexchar d : 0 <= d < 16 -> is_space (hexchar d) = false.
Proof.
  intros H. apply negb_true_iff.
  apply (forallb_upto (fun d => negb (is_space (hexchar d))) 16); [vm_compute; reflexivity|lia].
Qed.

(* lower-case hex characters and their digit *)
Definition lower_hex (c : Z) : bool := ((48 <=? c) && (c <=? 57)) || ((97 <=? c) && (c <=? 102)).
Definition digit_of (c : Z) : Z := if c <=? 57 then c - 48 else c - 87.
Lemma lower_hex_hexchar d : 0 <= d < 16 -> lower_hex (hexchar d) = true.
Proof.
  intros H. apply (forallb_upto (fun d => lower_hex (hexchar d)) 16); [vm_compute; reflexivity|lia].
Qed.
Lemma hexchar_digit_of c : lower_hex c = true -> hexchar (digit_of c) = c /\ 0 <= digit_of c < 16.
Proof.
  intros H. assert (Hc : 0 <= c < 103) by (unfold lower_hex in H; lia).
  assert (E : (if lower_hex c then (hexchar (digit_of c) =? c) && (0 <=? digit_of c) && (digit_of c <? 16) else true) = true).
  { apply (forallb_upto (fun c => if lower_hex c then (hexchar (digit_of c) =? c) && (0 <=? digit_of c) && (digit_of c <? 16) else true) 103);
      [vm_compute; reflexivity|lia]. }
  rewrite H in E. lia.
Qed.

(* ------------------------------------------------------------------ hex_fixed: k digits, most significant first *)
Lemma hex_fixed_length k n : length (hex_fixed k n) = k.
Proof.
  revert n; induction k as [|k IH]; intros n; cbn [hex_fixed]; [reflexivity|].
  rewrite app_length, IH. cbn [length]. lia.
Qed.

Lemma repeat_snoc {A} (x : A) j : repeat x j ++ [x] = x :: repeat x j.
Proof. induction j as [|j IH]; cbn [repeat app]; [reflexivity|]. now rewrite IH. Qed.

Lemma hex_fixed_zero j : hex_fixed j 0 = repeat 48 j.
Proof.
  induction j as [|j IH]; cbn [hex_fixed repeat]; [reflexivity|].
  change (0 / 16) with 0. change (hexdigit (0 mod 16)) with 48. rewrite IH. apply repeat_snoc.
Qed.

Lemma pow16_S k : 16 ^ Z.of_nat (S k) = 16 * 16 ^ Z.of_nat k.
Proof. rewrite Nat2Z.inj_succ, Z.pow_succ_r; lia. Qed.
Lemma pow16_pos k : 0 < 16 ^ Z.of_nat k.
Proof. apply Z.pow_pos_nonneg; lia. Qed.

(* a number below 16^k written on j + k digits starts with j zeros *)
Lemma hex_fixed_pad j k n : 0 <= n < 16 ^ Z.of_nat k -> hex_fixed (j + k) n = repeat 48 j ++ hex_fixed k n.
Proof.
  revert n; induction k as [|k IH]; intros n H.
  - change (16 ^ Z.of_nat 0) with 1 in H. assert (n = 0) by lia. subst n.
    rewrite Nat.add_0_r, hex_fixed_zero. cbn [hex_fixed]. now rewrite app_nil_r.
  - rewrite pow16_S in H. pose proof (pow16_pos k) as Hp.
    rewrite Nat.add_succ_r. cbn [hex_fixed]. rewrite IH by lia. now rewrite app_assoc.
Qed.

(* ------------------------------------------------------------------ format(n, "x") *)
(* the division loop yields the MINIMAL number of digits k >= 1 *)
Lemma hex_digits_spec fuel : forall n acc, (0 < fuel)%nat -> 0 <= n < 16 ^ Z.of_nat fuel ->
  exists k, (1 <= k <= fuel)%nat /\ n < 16 ^ Z.of_nat k /\ (k = 1%nat \/ 16 ^ Z.of_nat (k - 1) <= n)
            /\ hex_digits fuel n acc = hex_fixed k n ++ acc.
Proof.
  induction fuel as [|f IH]; intros n acc Hf Hn; [lia|].
  cbn [hex_digits]. destruct (n <? 16) eqn:E.
  - exists 1%nat. split; [lia|]. split; [change (16 ^ Z.of_nat 1) with 16; lia|]. split; [now left|reflexivity].
  - rewrite pow16_S in Hn.
    assert (Hf' : (0 < f)%nat).
    { destruct f; [|lia]. change (16 ^ Z.of_nat 0) with 1 in Hn. lia. }
    destruct (IH (n / 16) (hexdigit (n mod 16) :: acc) Hf') as (k & Hk & Hlt & Hmin & Heq).
    { pose proof (pow16_pos f). lia. }
    exists (S k). split; [lia|]. split; [rewrite pow16_S; pose proof (pow16_pos k); lia|]. split.
    + right. replace (S k - 1)%nat with k by lia.
      destruct Hmin as [->|Hmin]; [change (16 ^ Z.of_nat 1) with 16; lia|].
      replace k with (S (k - 1)) by lia. rewrite pow16_S. pose proof (pow16_pos (k - 1)). lia.
    + rewrite Heq. cbn [hex_fixed]. now rewrite <- app_assoc.
Qed.

Lemma log2_fuel n : 0 <= n -> n < 16 ^ Z.of_nat (S (Z.to_nat (Z.log2 n))).
Proof.
  intros H. rewrite Nat2Z.inj_succ, Z2Nat.id by apply Z.log2_nonneg.
  destruct (Z.eq_dec n 0) as [->|Hn]; [vm_compute; reflexivity|].
  assert (Hlt : n < 2 ^ Z.succ (Z.log2 n)) by (apply Z.log2_spec; lia).
  assert (2 ^ Z.succ (Z.log2 n) <= 16 ^ Z.succ (Z.log2 n)).
  { apply Z.pow_le_mono_l. pose proof (Z.log2_nonneg n). lia. }
  lia.
Qed.

Lemma pow16_8 : 16 ^ Z.of_nat 8 = 4294967296. Proof. reflexivity. Qed.

Lemma pow16_mono a b : (a <= b)%nat -> 16 ^ Z.of_nat a <= 16 ^ Z.of_nat b.
Proof. intros H. apply Z.pow_le_mono_r; lia. Qed.

Lemma fmt_08x_fixed n : 0 <= n < 4294967296 -> fmt_08x n = hex_fixed 8 n.
Proof.
  intros H. unfold fmt_08x, py_hex.
  destruct (hex_digits_spec (S (Z.to_nat (Z.log2 n))) n []) as (k & Hk & Hlt & Hmin & Heq);
    [lia|split; [lia|apply log2_fuel; lia]|].
  rewrite Heq, app_nil_r, hex_fixed_length.
  assert (Hk8 : (k <= 8)%nat).
  { destruct Hmin as [->|Hmin]; [lia|].
    destruct (le_lt_dec k 8) as [?|Hgt]; [assumption|exfalso].
    pose proof (pow16_mono 8 (k - 1) ltac:(lia)) as Hm. rewrite pow16_8 in Hm. lia. }
  replace 8%nat with ((8 - k) + k)%nat at 2 by lia.
  symmetry. apply hex_fixed_pad. lia.
Qed.

(* positional form: the digit at weight 16^j is (n / 16^j) mod 16 *)
Lemma hex_fixed_8 n : 0 <= n < 4294967296 -> hex_fixed 8 n = hex8 n.
Proof.
  intros H. cbn [hex_fixed app]. unfold hex8.
  rewrite !hexdigit_hexchar by lia.
  repeat (apply (f_equal2 (@cons Z)); [f_equal; lia|]). reflexivity.
Qed.

(* f"{serial:08x}" is the Spec's eight digits *)
Theorem fmt_08x_hex8 n : 0 <= n < 4294967296 -> fmt_08x n = hex8 n.
Proof. intros H. rewrite fmt_08x_fixed, hex_fixed_8 by assumption. reflexivity. Qed.

(* ------------------------------------------------------------------ hex8 itself *)
Lemma hex8_length n : length (hex8 n) = 8%nat.
Proof. reflexivity. Qed.

Lemma hex8_lower n : 0 <= n < 4294967296 -> forallb lower_hex (hex8 n) = true.
Proof.
  intros H. unfold hex8. cbn [forallb]. rewrite !lower_hex_hexchar by lia. reflexivity.
Qed.

Theorem hex8_roundtrip n : 0 <= n < 4294967296 -> length (hex8 n) = 8%nat /\ unhex (hex8 n) = Some n.
Proof.
  intros H. split; [reflexivity|].
  unfold unhex, hex8. cbn [fold_left]. rewrite !index_hexchar by lia. f_equal. lia.
Qed.

Lemma hex8_inj a b : 0 <= a < 4294967296 -> 0 <= b < 4294967296 -> hex8 a = hex8 b -> a = b.
Proof.
  intros Ha Hb E. destruct (hex8_roundtrip a Ha) as [_ Ua]. destruct (hex8_roundtrip b Hb) as [_ Ub].
  rewrite E in Ua. congruence.
Qed.

(* every text of eight lower-case hex digits is hex8 of its value *)
Definition is_hex8 (s : list Z) : bool := (length s =? 8)%nat && forallb lower_hex s.
Lemma is_hex8_hex8 n : 0 <= n < 4294967296 -> is_hex8 (hex8 n) = true.
Proof. intros H. unfold is_hex8. rewrite hex8_lower by assumption. reflexivity. Qed.

Lemma is_hex8_value s : is_hex8 s = true -> exists n, 0 <= n < 4294967296 /\ s = hex8 n.
Proof.
  unfold is_hex8. intros H. apply andb_true_iff in H as [Hl Hc]. apply Nat.eqb_eq in Hl.
  destruct s as [|c7 [|c6 [|c5 [|c4 [|c3 [|c2 [|c1 [|c0 [|? ?]]]]]]]]]; cbn [length] in Hl; try lia.
  cbn [forallb] in Hc. repeat (apply andb_true_iff in Hc as [? Hc]).
  destruct (hexchar_digit_of c7) as [E7 R7]; [assumption|]. destruct (hexchar_digit_of c6) as [E6 R6]; [assumption|].
  destruct (hexchar_digit_of c5) as [E5 R5]; [assumption|]. destruct (hexchar_digit_of c4) as [E4 R4]; [assumption|].
  destruct (hexchar_digit_of c3) as [E3 R3]; [assumption|]. destruct (hexchar_digit_of c2) as [E2 R2]; [assumption|].
  destruct (hexchar_digit_of c1) as [E1 R1]; [assumption|]. destruct (hexchar_digit_of c0) as [E0 R0]; [assumption|].
  set (d7 := digit_of c7) in *. set (d6 := digit_of c6) in *. set (d5 := digit_of c5) in *. set (d4 := digit_of c4) in *.
  set (d3 := digit_of c3) in *. set (d2 := digit_of c2) in *. set (d1 := digit_of c1) in *. set (d0 := digit_of c0) in *.
  exists (268435456 * d7 + 16777216 * d6 + 1048576 * d5 + 65536 * d4 + 4096 * d3 + 256 * d2 + 16 * d1 + d0).
  split; [lia|]. unfold hex8.
  rewrite <- E7 at 1. rewrite <- E6 at 1. rewrite <- E5 at 1. rewrite <- E4 at 1.
  rewrite <- E3 at 1. rewrite <- E2 at 1. rewrite <- E1 at 1. rewrite <- E0 at 1.
  clearbody d7 d6 d5 d4 d3 d2 d1 d0.
  repeat (apply (f_equal2 (@cons Z)); [f_equal; lia|]). reflexivity.
Qed.

(* ------------------------------------------------------------------ bytes.fromhex / int.from_bytes *)
Lemma fromhex_pair a b r : 0 <= a < 16 -> 0 <= b < 16 ->
  bytes_fromhex (hexchar a :: hexchar b :: r) = (let* t := bytes_fromhex r in Ok (16 * a + b :: t)).
Proof.
  intros Ha Hb. cbn [bytes_fromhex]. rewrite is_space_hexchar, !hexval_hexchar by assumption. reflexivity.
Qed.

Lemma fromhex_hex8 n : 0 <= n < 4294967296 -> bytes_fromhex (hex8 n) = Ok (spec_u32be n).
Proof.
  intros H. unfold hex8. rewrite !fromhex_pair by lia. cbn [bytes_fromhex bind].
  unfold spec_u32be. f_equal. list_lia.
Qed.

Lemma int_from_u32be n : int_from_bytes_big (spec_u32be n) = n.
Proof. unfold int_from_bytes_big, spec_u32be. cbn [fold_left]. lia. Qed.
