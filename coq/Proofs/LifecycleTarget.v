(* Proofs/LifecycleTarget.v — what one frame can do to the reference target's session and
   connection tables (Spec/TargetCore.tstep, any handler), as needed by the lifecycle theorems (C10):
   [frame_effect] classifies a frame with the target's own strict parsers; [tstep_effect] says what
   each class does to the tables and which replies it can produce. *)
From Coq Require Import ZifyBool.
From PV Require Import Base.Bytes Base.BytesLemmas Spec.EncapParser Spec.MRParser Spec.TargetIface Spec.TargetCore.
From PV Require Import Proofs.TargetCoreP.
Open Scope Z_scope.
Ltac Zify.zify_post_hook ::= Z.to_euclidean_division_equations.

(* ================================================================ "nothing but the log / application changed" *)
(* error injections: only their countdown changes, some are consumed *)
Definition inj_sub (l' l : list injection) : Prop :=
  forall Q : Z -> Prop, Forall (fun i => Q (inj_status i)) l -> Forall (fun i => Q (inj_status i)) l'.

Lemma inj_sub_refl l : inj_sub l l.
Proof. intros Q H. exact H. Qed.
Lemma inj_sub_trans a b c : inj_sub a b -> inj_sub b c -> inj_sub a c.
Proof. intros H1 H2 Q H. apply H1, H2, H. Qed.

Record same_tables {S} (st' st : tstate S) : Prop := {
  st_sessions : t_sessions st' = t_sessions st;
  st_conns : t_conns st' = t_conns st;
  st_cfg : t_cfg st' = t_cfg st;
  st_inj : inj_sub (t_inject st') (t_inject st) }.

Lemma same_refl {S} (st : tstate S) : same_tables st st.
Proof. split; try reflexivity. apply inj_sub_refl. Qed.
Lemma same_trans {S} (a b c : tstate S) : same_tables a b -> same_tables b c -> same_tables a c.
Proof.
  intros [A1 A2 A3 A4] [B1 B2 B3 B4]. split; try congruence. eapply inj_sub_trans; eassumption.
Qed.
Lemma same_logs {S} evs (st : tstate S) : same_tables (logs evs st) st.
Proof. split; try reflexivity. apply inj_sub_refl. Qed.
Lemma same_set_app {S} a (st : tstate S) : same_tables (set_app a st) st.
Proof. split; try reflexivity. apply inj_sub_refl. Qed.
Lemma same_logs_l {S} evs (a b : tstate S) : same_tables a b -> same_tables (logs evs a) b.
Proof. intros H. eapply same_trans; [apply same_logs | exact H]. Qed.

Lemma take_injection_sub svc : forall l fired, inj_sub (snd (take_injection svc l fired)) l.
Proof.
  induction l as [| i r IH]; intros fired Q H; cbn [take_injection].
  - exact H.
  - inversion H as [| ? ? Hi Hr]; subst.
    destruct (inj_service i =? svc).
    + destruct fired as [f |].
      * specialize (IH (Some f) Q Hr). destruct (take_injection svc r (Some f)) as [f' r']. cbn [snd] in *.
        constructor; [exact Hi | exact IH].
      * destruct (inj_left i <=? 0).
        -- apply IH. exact Hr.
        -- specialize (IH None Q Hr). destruct (take_injection svc r None) as [f' r']. cbn [snd] in *.
           constructor; [exact Hi | exact IH].
    + specialize (IH fired Q Hr). destruct (take_injection svc r fired) as [f' r']. cbn [snd] in *.
      constructor; [exact Hi | exact IH].
Qed.

Lemma take_injection_fired svc (Q : Z -> Prop) : forall l fired i,
  Forall (fun j => Q (inj_status j)) l -> (forall f, fired = Some f -> Q (inj_status f)) ->
  fst (take_injection svc l fired) = Some i -> Q (inj_status i).
Proof.
  induction l as [| j r IH]; intros fired i H Hf; cbn [take_injection].
  - cbn [fst]. intros ->. apply Hf. reflexivity.
  - inversion H as [| ? ? Hj Hr]; subst.
    destruct (inj_service j =? svc).
    + destruct fired as [f |].
      * specialize (IH (Some f) i Hr Hf). destruct (take_injection svc r (Some f)) as [f' r']. exact IH.
      * destruct (inj_left j <=? 0).
        -- apply IH; [exact Hr |]. intros f Hs. inversion Hs; subst. exact Hj.
        -- specialize (IH None i Hr Hf). destruct (take_injection svc r None) as [f' r']. exact IH.
    + specialize (IH fired i Hr Hf). destruct (take_injection svc r fired) as [f' r']. exact IH.
Qed.

Lemma same_set_inject {S} svc (st : tstate S) fired :
  same_tables (set_inject (snd (take_injection svc (t_inject st) fired)) st) st.
Proof. split; try reflexivity. cbn [set_inject t_inject]. apply take_injection_sub. Qed.

(* [with_injection]: either the injection fired (tables unchanged, its status/ext answered) or [k] ran on a
   state with the same tables *)
Lemma with_injection_cases {S} (st : tstate S) svc k :
  (exists i, fst (take_injection svc (t_inject st) None) = Some i
             /\ same_tables (fst (with_injection st svc k)) st
             /\ snd (with_injection st svc k) = mr_error (inj_status i) (inj_ext i))
  \/ (exists s, same_tables s st /\ with_injection st svc k = k s).
Proof.
  unfold with_injection.
  pose proof (same_set_inject svc st None) as Hs.
  destruct (take_injection svc (t_inject st) None) as [[i |] rest] eqn:E; cbn [snd] in Hs.
  - left. exists i. cbn [fst snd]. split; [reflexivity |]. split; [| reflexivity].
    apply same_logs_l. exact Hs.
  - right. eexists. split; [exact Hs | reflexivity].
Qed.

Lemma with_injection_same {S} (st : tstate S) svc k :
  (forall s, same_tables s st -> same_tables (fst (k s)) st) ->
  same_tables (fst (with_injection st svc k)) st.
Proof.
  intros Hk. destruct (with_injection_cases st svc k) as [(i & _ & H & _) | (s & Hs & ->)]; [exact H | now apply Hk].
Qed.

Ltac break_match_goal :=
  match goal with
  | |- context [match ?x with _ => _ end] => destruct x eqn:?
  | |- context [if ?x then _ else _] => destruct x eqn:?
  end.

Lemma dispatch_one_same {S} (h : handler S) tr cap seq st rq :
  same_tables (fst (dispatch_one h tr cap seq st rq)) st.
Proof.
  unfold dispatch_one.
  eapply same_trans; [| apply (same_logs [EvRequest tr seq rq] st)].
  apply with_injection_same. intros s Hs.
  repeat break_match_goal; cbn [fst]; try exact Hs;
    repeat (first [apply same_logs_l | eapply same_trans; [apply same_set_app |]]); exact Hs.
Qed.

Lemma multi_one_same {S} (h : handler S) tr cap seq st it :
  same_tables (fst (multi_one h tr cap seq st it)) st.
Proof.
  unfold multi_one. destruct (parse_mr it) as [rq | c]; [| apply same_logs].
  destruct (is_multi_request rq); [apply same_logs |].
  pose proof (dispatch_one_same h tr cap seq st rq) as H.
  destruct (dispatch_one h tr cap seq st rq) as [st1 rp].
  destruct (fit cap (mr_service rq) (mr_bytes (mr_service rq) rp)) as [bs evs]. cbn [fst] in *.
  apply same_logs_l. exact H.
Qed.

Lemma multi_run_same {S} (h : handler S) tr seq items : forall left later st acc,
  same_tables (fst (multi_run h tr seq left later items st acc)) st.
Proof.
  induction items as [| it rest IH]; intros left later st acc; cbn [multi_run]; [apply same_refl |].
  pose proof (multi_one_same h tr (left - 4 * (later - 1)) seq st it) as H1.
  destruct (multi_one h tr (left - 4 * (later - 1)) seq st it) as [st1 bs].
  eapply same_trans; [apply IH | exact H1].
Qed.

Lemma multi_service_same {S} (h : handler S) tr cap seq st rq :
  same_tables (fst (multi_service h tr cap seq st rq)) st.
Proof.
  unfold multi_service.
  eapply same_trans; [| apply (same_logs [EvRequest tr seq rq] st)].
  apply with_injection_same. intros s Hs.
  destruct (negb (cf_multi_service (t_cfg s))); [exact Hs |].
  destruct (parse_multi (mr_data rq)) as [items | c]; [| apply same_logs_l; exact Hs].
  pose proof (multi_run_same h tr seq items (cap - 6 - 2 * zlen items) (zlen items) s []) as H.
  destruct (multi_run h tr seq (cap - 6 - 2 * zlen items) (zlen items) items s []) as [st3 reps].
  cbn [fst] in *. eapply same_trans; eassumption.
Qed.

Lemma finish_reply_same {S} cap svc (p : tstate S * mr_reply) st :
  same_tables (fst p) st -> same_tables (fst (finish_reply cap svc p)) st.
Proof.
  intros H. unfold finish_reply. destruct p as [st1 rp].
  destruct (fit cap svc (mr_bytes svc rp)) as [bs evs]. cbn [fst] in *. apply same_logs_l. exact H.
Qed.

Lemma dispatch_same {S} (h : handler S) tr cap seq st rq :
  same_tables (fst (dispatch h tr cap seq st rq)) st.
Proof.
  unfold dispatch. apply finish_reply_same.
  destruct (is_multi_request rq); [apply multi_service_same | apply dispatch_one_same].
Qed.

(* ================================================================ replies as the client reads them *)
(* the general status byte of a message-router reply *)
Lemma mr_bytes_status svc rp : nth 2 (mr_bytes svc rp) 0 = rp_status rp mod 256.
Proof. reflexivity. Qed.

(* statuses whose byte is not 0: what every refusal of the target carries *)
Definition nz (s : Z) : Prop := s mod 256 <> 0.
Definition inj_ok (l : list injection) : Prop := Forall (fun i => nz (inj_status i)) l.

(* the reply bytes [finish_reply] produces from an error reply have a non-zero status byte *)
Lemma fit_status cap svc rp : nz (rp_status rp) -> nth 2 (fst (fit cap svc (mr_bytes svc rp))) 0 <> 0.
Proof.
  intros H. unfold fit. destruct (blen (mr_bytes svc rp) <=? cap); cbn [fst].
  - rewrite mr_bytes_status. exact H.
  - cbn. lia.
Qed.

Lemma finish_reply_bytes {S} cap svc (p : tstate S * mr_reply) :
  snd (finish_reply cap svc p) = fst (fit cap svc (mr_bytes svc (snd p))).
Proof.
  unfold finish_reply. destruct p as [st1 rp]. cbn [snd].
  destruct (fit cap svc (mr_bytes svc rp)) as [bs evs]. reflexivity.
Qed.

(* ================================================================ Forward Open / Forward Close *)
Definition in32 (v : Z) : Prop := 1 <= v < 4294967296.
Lemma norm32_in v : in32 (norm32 v).
Proof. unfold in32, norm32. destruct (v mod 4294967296 =? 0) eqn:E; lia. Qed.
Definition in32z (v : Z) : Prop := 0 <= v < 4294967296.     (* connection ids: 0 included *)
Lemma wrap32_in v : in32z (wrap32 v).
Proof. unfold in32z, wrap32. lia. Qed.

(* the success reply data of a Forward Open starts with the O->T connection id *)
Definition fo_granted {S} (session : Z) (st st' : tstate S) (rp : mr_reply) : Prop :=
  exists c rest, t_conns st' = c :: t_conns st /\ c_session c = session /\ in32z (c_ot_id c)
                 /\ rp = mr_ok (le_enc 4 (c_ot_id c) ++ rest) /\ blen rest = 22.

Lemma forward_open_spec {S} large session (st : tstate S) rq :
  let r := forward_open large session st rq in
  t_sessions (fst r) = t_sessions st /\ t_cfg (fst r) = t_cfg st /\ t_inject (fst r) = t_inject st
  /\ ((t_conns (fst r) = t_conns st /\ nz (rp_status (snd r))) \/ fo_granted session st (fst r) (snd r)).
Proof.
  cbv zeta. unfold forward_open.
  repeat break_match_goal; cbn [fst snd logs set_conns t_sessions t_cfg t_inject t_conns rp_status mr_error];
    (split; [reflexivity | split; [reflexivity | split; [reflexivity |]]]);
    try (left; split; [reflexivity | unfold nz; cbn; lia]).
  all: right; eexists; eexists; (split; [reflexivity |]); cbn [c_session c_ot_id];
    (split; [reflexivity |]); (split; [first [apply wrap32_in | apply norm32_in] |]); (split; [reflexivity |]);
    rewrite !blen_app, !blen_le_enc; reflexivity.
Qed.

Lemma forward_close_spec {S} (st : tstate S) rq :
  let r := forward_close st rq in
  t_sessions (fst r) = t_sessions st /\ t_cfg (fst r) = t_cfg st /\ t_inject (fst r) = t_inject st
  /\ exists P, t_conns (fst r) = filter P (t_conns st).
Proof.
  cbv zeta. unfold forward_close.
  assert (exists P, t_conns st = filter P (t_conns st)) as Hid.
  { exists (fun _ => true). induction (t_conns st) as [| c l IH]; [reflexivity | cbn [filter]; now rewrite <- IH]. }
  repeat break_match_goal; cbn [fst snd logs set_conns t_sessions t_cfg t_inject t_conns];
    (split; [reflexivity | split; [reflexivity | split; [reflexivity |]]]); try exact Hid.
  eexists. reflexivity.
Qed.

(* ================================================================ classification of a frame *)
Inductive effect := ENone | ERegister | EUnregister | EFo (large : bool) | EFClose.

(* what a message-router request that arrives over UCMM asks of the connection manager *)
Definition msg_effect (data : bytes) : effect :=
  match parse_mr data with
  | RcOk rq =>
      match path_cia (mr_path rq) with
      | Some (6, 1, None) =>
          if mr_service rq =? 84 then EFo false
          else if mr_service rq =? 91 then EFo true
          else if mr_service rq =? 78 then EFClose
          else ENone
      | _ => ENone
      end
  | RcErr _ => ENone
  end.

Definition parsed_effect (f : frame) : effect :=
  match f_body f with
  | BRegister => ERegister
  | BEmpty => if f_cmd f =? CMD_UNREGISTER then EUnregister else ENone
  | BCpf _ AddrNull _ data => msg_effect data
  | _ => ENone
  end.

Definition frame_effect (bs : bytes) : effect :=
  match parse_frame bs with
  | RcOk f => parsed_effect f
  | RcErr _ => ENone
  end.

(* a user message is any byte string that does not ask the connection manager to open or close a connection *)
Definition user_ok (msg : bytes) : bool := match msg_effect msg with ENone => true | _ => false end.

(* ---------------------------------------------------------------- UCMM *)
Lemma ucmm_none {S} (h : handler S) session st rq :
  match path_cia (mr_path rq) with
  | Some (6, 1, None) => negb ((mr_service rq =? 84) || (mr_service rq =? 91) || (mr_service rq =? 78))
  | _ => true
  end = true ->
  same_tables (fst (ucmm h session st rq)) st.
Proof.
  intros H. unfold ucmm.
  destruct (path_cia (mr_path rq)) as [[[c i] oa] |] eqn:Ep; [| apply dispatch_same].
  assert (forall p : tstate S * mr_reply, same_tables (fst p) st ->
            same_tables (fst (finish_reply UCMM_CAPACITY (mr_service rq) p)) st) as Hfin
    by (intros p Hp; now apply finish_reply_same).
  cbv zeta.
  repeat break_match_goal; try apply dispatch_same; try (apply Hfin; cbn [fst]; apply same_logs); try lia.
Qed.

Lemma inj_ok_fired svc l i : inj_ok l -> fst (take_injection svc l None) = Some i -> nz (inj_status i).
Proof.
  intros H E. eapply (take_injection_fired svc nz l None i); [exact H | discriminate | exact E].
Qed.

Lemma same_inj_ok {S} (a b : tstate S) : same_tables a b -> inj_ok (t_inject b) -> inj_ok (t_inject a).
Proof. intros H Hb. apply (st_inj _ _ H nz). exact Hb. Qed.

(* a Forward Open that reached the connection manager: granted (a connection of this session is added
   and the reply starts with its O->T id) or answered with a non-zero status byte, tables unchanged *)
Lemma fo_finish {S} session (st0 st : tstate S) rq large svc :
  same_tables st0 st -> inj_ok (t_inject st) ->
  let r := finish_reply UCMM_CAPACITY svc (with_injection st0 svc (fun s => forward_open large session s rq)) in
  t_sessions (fst r) = t_sessions st /\ t_cfg (fst r) = t_cfg st /\ inj_sub (t_inject (fst r)) (t_inject st)
  /\ ((t_conns (fst r) = t_conns st /\ nth 2 (snd r) 0 <> 0)
      \/ exists c rest, t_conns (fst r) = c :: t_conns st /\ c_session c = session /\ in32z (c_ot_id c)
                        /\ snd r = reply_service svc :: 0 :: 0 :: 0 :: le_enc 4 (c_ot_id c) ++ rest).
Proof.
  intros H0 Hinj. cbv zeta.
  destruct (with_injection_cases st0 svc (fun s => forward_open large session s rq))
    as [(i & Hi & Hsame & Hrp) | (s & Hs0 & Heq)].
  - (* an injected error *)
    assert (same_tables (fst (with_injection st0 svc (fun s => forward_open large session s rq))) st) as Hst
      by (eapply same_trans; eassumption).
    pose proof (finish_reply_same UCMM_CAPACITY svc _ st Hst) as Hf.
    destruct Hf as [F1 F2 F3 F4].
    split; [exact F1 |]. split; [exact F3 |]. split; [exact F4 |].
    left. split; [exact F2 |].
    rewrite finish_reply_bytes, Hrp. apply fit_status. cbn [rp_status mr_error].
    eapply inj_ok_fired; [| exact Hi]. exact (same_inj_ok st0 st H0 Hinj).
  - rewrite Heq.
    assert (same_tables s st) as Hss by (eapply same_trans; eassumption).
    pose proof (forward_open_spec large session s rq) as Hfo. cbv zeta in Hfo.
    destruct (forward_open large session s rq) as [s1 rp] eqn:Efo. cbn [fst snd] in Hfo.
    destruct Hfo as (Fs & Fc & Fi & Fconn).
    destruct Hss as [S1 S2 S3 S4].
    pose proof (finish_reply_same UCMM_CAPACITY svc (s1, rp) s1 (same_refl _)) as [G1 G2 G3 G4].
    cbn [fst] in G1, G2, G3, G4.
    split; [congruence |]. split; [congruence |].
    split; [eapply inj_sub_trans; [exact G4 |]; rewrite Fi; exact S4 |].
    destruct Fconn as [[Fsame Fnz] | (c & rest & Fadd & Fses & Fid & Frp & Flen)].
    + left. split; [congruence |].
      rewrite finish_reply_bytes. cbn [snd]. apply fit_status. exact Fnz.
    + right. exists c. exists rest. split; [congruence |].
      split; [exact Fses |]. split; [exact Fid |].
      rewrite finish_reply_bytes. cbn [snd]. subst rp.
      unfold fit.
      assert (blen (mr_bytes svc (mr_ok (le_enc 4 (c_ot_id c) ++ rest))) = 30) as Hl.
      { unfold mr_bytes, mr_ok. cbn [rp_ext rp_data rp_status flat_map app].
        rewrite !blen_cons, blen_app, blen_le_enc. lia. }
      rewrite Hl. reflexivity.
Qed.

Lemma ucmm_fo {S} (h : handler S) session st rq (large : bool) :
  path_cia (mr_path rq) = Some (6, 1, None) -> mr_service rq = (if large then 91 else 84) ->
  inj_ok (t_inject st) ->
  let r := ucmm h session st rq in
  t_sessions (fst r) = t_sessions st /\ t_cfg (fst r) = t_cfg st /\ inj_sub (t_inject (fst r)) (t_inject st)
  /\ ((t_conns (fst r) = t_conns st /\ nth 2 (snd r) 0 <> 0)
      \/ exists c rest, t_conns (fst r) = c :: t_conns st /\ c_session c = session /\ in32z (c_ot_id c)
                        /\ snd r = reply_service (mr_service rq) :: 0 :: 0 :: 0 :: le_enc 4 (c_ot_id c) ++ rest).
Proof.
  intros Hp Hs Hinj. cbv zeta. unfold ucmm. rewrite Hp. cbv zeta. rewrite Hs.
  destruct large; cbn [Z.eqb Pos.eqb]; apply fo_finish; try assumption; apply same_logs.
Qed.

Lemma ucmm_fclose {S} (h : handler S) session st rq :
  path_cia (mr_path rq) = Some (6, 1, None) -> mr_service rq = 78 ->
  let r := ucmm h session st rq in
  t_sessions (fst r) = t_sessions st /\ t_cfg (fst r) = t_cfg st /\ inj_sub (t_inject (fst r)) (t_inject st)
  /\ exists P, t_conns (fst r) = filter P (t_conns st).
Proof.
  intros Hp Hs. cbv zeta. unfold ucmm. rewrite Hp, Hs. cbn [Z.eqb Pos.eqb].
  set (st0 := logs [EvRequest TUcmm None rq] st).
  assert (same_tables st0 st) as H0 by apply same_logs.
  assert (exists P, t_conns st = filter P (t_conns st)) as Hid.
  { exists (fun _ => true). induction (t_conns st) as [| c l IH]; [reflexivity | cbn [filter]; now rewrite <- IH]. }
  destruct (with_injection_cases st0 78 (fun s => forward_close s rq)) as [(i & Hi & Hsame & Hrp) | (s & Hs0 & Heq)].
  - assert (same_tables (fst (with_injection st0 78 (fun s => forward_close s rq))) st) as Hst
      by (eapply same_trans; eassumption).
    destruct (finish_reply_same UCMM_CAPACITY 78 _ st Hst) as [F1 F2 F3 F4].
    repeat split; try assumption. destruct Hid as [P HP]. exists P. congruence.
  - rewrite Heq.
    assert (same_tables s st) as [S1 S2 S3 S4] by (eapply same_trans; eassumption).
    pose proof (forward_close_spec s rq) as Hfc. cbv zeta in Hfc.
    destruct (forward_close s rq) as [s1 rp]. cbn [fst snd] in Hfc.
    destruct Hfc as (Fs & Fc & Fi & (P & FP)).
    destruct (finish_reply_same UCMM_CAPACITY 78 (s1, rp) s1 (same_refl _)) as [G1 G2 G3 G4]. cbn [fst] in *.
    split; [congruence |]. split; [congruence |].
    split; [eapply inj_sub_trans; [exact G4 |]; rewrite Fi; exact S4 |].
    exists P. congruence.
Qed.

(* ================================================================ the strict parser, inverted *)
Lemma parse_frame_inv bs f : parse_frame bs = RcOk f ->
  exists hd body, parse_header bs = Some (hd, body) /\ f_cmd f = h_cmd hd /\ f_session f = h_session hd
                  /\ f_context f = h_context hd /\ parse_body (h_cmd hd) body = RcOk (f_body f)
                  /\ known_command (h_cmd hd) = true /\ bytes_ok bs = true.
Proof.
  unfold parse_frame. destruct (bytes_ok bs) eqn:Eok; cbn [negb]; [| discriminate].
  destruct (parse_header bs) as [[hd body] |]; [| discriminate].
  destruct (negb (h_len hd =? blen body)); [discriminate |].
  destruct (known_command (h_cmd hd)) eqn:Ek; cbn [negb]; [| discriminate].
  destruct (negb (h_status hd =? 0)); [discriminate |].
  destruct (negb (h_options hd =? 0)); [discriminate |].
  destruct (parse_body (h_cmd hd) body) as [b | c] eqn:Eb; [| discriminate].
  intros H. inversion H; subst f; clear H. exists hd, body. cbn [f_cmd f_session f_context f_body].
  repeat split; try reflexivity; assumption.
Qed.

Lemma parse_header_ctx bs hd body : parse_header bs = Some (hd, body) -> List.length (h_context hd) = 8%nat.
Proof.
  unfold parse_header.
  do 24 (destruct bs as [| ? bs]; [discriminate |]).
  intros H. inversion H; subst. reflexivity.
Qed.

Lemma parse_header_cmd bs hd body : parse_header bs = Some (hd, body) -> h_cmd hd = u16 (nth 0 bs 0) (nth 1 bs 0).
Proof.
  unfold parse_header.
  do 24 (destruct bs as [| ? bs]; [discriminate |]).
  intros H. inversion H; subst. reflexivity.
Qed.

Lemma parse_body_empty cmd body : parse_body cmd body = RcOk BEmpty -> known_command cmd = true ->
  cmd = CMD_LIST_SERVICES \/ cmd = CMD_LIST_IDENTITY \/ cmd = CMD_LIST_INTERFACES \/ cmd = CMD_UNREGISTER.
Proof.
  unfold parse_body, known_command.
  destruct (cmd =? CMD_NOP) eqn:E0; [discriminate |].
  destruct (cmd =? CMD_REGISTER) eqn:E1.
  { repeat (match goal with |- context [match ?x with _ => _ end] => destruct x end; try discriminate). }
  destruct ((cmd =? CMD_RRDATA) || (cmd =? CMD_UNITDATA)) eqn:E2.
  { unfold parse_cpf.
    repeat (match goal with
            | |- context [match ?x with _ => _ end] => destruct x
            | |- context [if ?x then _ else _] => destruct x
            end; try discriminate). }
  intros _ Hk. unfold CMD_NOP, CMD_REGISTER, CMD_RRDATA, CMD_UNITDATA, CMD_LIST_SERVICES, CMD_LIST_IDENTITY,
    CMD_LIST_INTERFACES, CMD_UNREGISTER in *. lia.
Qed.

(* a SendUnitData frame carries a connected address item; a SendRRData frame the null address item *)
Lemma parse_body_cpf cmd body t a dt d : parse_body cmd body = RcOk (BCpf t a dt d) ->
  (cmd = CMD_RRDATA /\ a = AddrNull) \/ (cmd = CMD_UNITDATA /\ exists cid, a = AddrConn cid).
Proof.
  unfold parse_body.
  destruct (cmd =? CMD_NOP) eqn:E0; [discriminate |].
  destruct (cmd =? CMD_REGISTER) eqn:E1.
  { repeat (match goal with |- context [match ?x with _ => _ end] => destruct x end; try discriminate). }
  destruct ((cmd =? CMD_RRDATA) || (cmd =? CMD_UNITDATA)) eqn:E2.
  2: { destruct body; discriminate. }
  unfold parse_cpf.
  repeat (match goal with
          | |- context [match ?x with _ => _ end] => destruct x eqn:?
          | |- context [if ?x then _ else _] => destruct x eqn:?
          end; try discriminate);
    intros H; inversion H; subst; clear H;
    unfold CMD_RRDATA, CMD_UNITDATA, ITEM_NULL, ITEM_CONN_ADDR in *.
  all: try (left; split; [lia | reflexivity]).
  all: try (right; split; [lia | eexists; reflexivity]).
  all: try lia.
  all: destruct (cmd =? 111) eqn:E111;
    [left; split; [lia | try reflexivity; exfalso; lia] | right; split; [lia | try (eexists; reflexivity); exfalso; lia]].
Qed.

(* ================================================================ one frame, the tables and the reply *)
Definition tables_eq {S} (a b : tstate S) : Prop := t_sessions a = t_sessions b /\ t_conns a = t_conns b.

(* replies the originator of a request cannot take for a success: a bare 24-byte header, or an
   unconnected data item whose general status byte is not 0 *)
Definition rr_refusal (raw : bytes) : Prop :=
  List.length raw = 24%nat
  \/ exists cmd ses ctx bs, List.length ctx = 8%nat
                             /\ raw = encap_reply cmd ses 0 ctx (mk_cpf 0 AddrNull ITEM_UNCONN_DATA bs) /\ nth 2 bs 0 <> 0.
(* the success reply of a Forward Open: status 0, no extended status, data = O->T id ... *)
Definition fo_success (raw : bytes) (otid : Z) : Prop :=
  exists cmd ses ctx svcb rest, List.length ctx = 8%nat /\ 128 <= svcb
    /\ raw = encap_reply cmd ses 0 ctx (mk_cpf 0 AddrNull ITEM_UNCONN_DATA (svcb :: 0 :: 0 :: 0 :: le_enc 4 otid ++ rest)).

Lemma encap_reply_len cmd ses status ctx body :
  List.length ctx = 8%nat -> List.length (encap_reply cmd ses status ctx body) = (24 + List.length body)%nat.
Proof.
  intros H. unfold encap_reply, mk_header. rewrite !app_length, !le_enc_length, H. lia.
Qed.

Lemma msg_effect_cases d : msg_effect d = ENone \/ (exists l, msg_effect d = EFo l) \/ msg_effect d = EFClose.
Proof.
  unfold msg_effect. repeat break_match_goal; auto; right; left; eexists; reflexivity.
Qed.

Lemma filter_true {A} (l : list A) : l = filter (fun _ => true) l.
Proof. induction l as [| c l IH]; [reflexivity | cbn [filter]; now rewrite <- IH]. Qed.

(* what [tstep_effect] promises for a frame of class [e] *)
Definition effect_post {S} (e : effect) (bs : bytes) (st : tstate S) (r : tstate S * option bytes) : Prop :=
  t_cfg (fst r) = t_cfg st /\ inj_ok (t_inject (fst r)) /\
  match e with
  | ENone => tables_eq (fst r) st
  | ERegister => t_conns (fst r) = t_conns st
                 /\ (t_sessions (fst r) = t_sessions st \/ exists hd, t_sessions (fst r) = hd :: t_sessions st)
  | EUnregister => snd r = None
                   /\ (tables_eq (fst r) st
                       \/ exists ses, t_sessions (fst r) = filter (fun x => negb (x =? ses)) (t_sessions st)
                                      /\ t_conns (fst r) = filter (fun c => negb (c_session c =? ses)) (t_conns st))
  | EFo large =>
      t_sessions (fst r) = t_sessions st
      /\ ((t_conns (fst r) = t_conns st /\ forall raw, snd r = Some raw -> rr_refusal raw)
          \/ exists c f raw, parse_frame bs = RcOk f /\ t_conns (fst r) = c :: t_conns st /\ c_session c = f_session f
                             /\ mem_z (f_session f) (t_sessions st) = true /\ in32z (c_ot_id c)
                             /\ snd r = Some raw /\ fo_success raw (c_ot_id c))
  | EFClose => t_sessions (fst r) = t_sessions st /\ exists P, t_conns (fst r) = filter P (t_conns st)
  end.

Lemma effect_post_same {S} bs (st : tstate S) r : inj_ok (t_inject st) -> same_tables (fst r) st -> effect_post ENone bs st r.
Proof.
  intros Hinj [A1 A2 A3 A4]. split; [exact A3 |]. split; [apply (A4 nz); exact Hinj |]. split; assumption.
Qed.

(* connected frames never touch the tables *)
Lemma step_frame_conn_same {S} (h : handler S) st f t cid dt d :
  f_body f = BCpf t (AddrConn cid) dt d -> same_tables (fst (step_frame h st f)) st.
Proof.
  intros Eb. unfold step_frame. rewrite Eb.
  destruct (negb (mem_z (f_session f) (t_sessions st))); [apply same_logs |].
  destruct (find _ (t_conns st)) as [c |]; [| apply same_logs].
  destruct d as [| s0 [| s1 req]]; try apply same_refl.
  cbv zeta. destruct (c_ot_size c <? blen (s0 :: s1 :: req)); [apply same_logs |].
  destruct (parse_mr req) as [rq | e]; [| apply same_logs].
  pose proof (dispatch_same h (TConnected (c_serial c)) (c_to_size c - 2) (Some (u16 s0 s1)) st rq) as Hd.
  destruct (dispatch h (TConnected (c_serial c)) (c_to_size c - 2) (Some (u16 s0 s1)) st rq) as [st1 bs0].
  exact Hd.
Qed.

(* the data item of a SendRRData frame *)
Lemma ucmm_item_effect {S} (h : handler S) (st st' : tstate S) bs f t dt d :
  inj_ok (t_inject st') -> same_tables st st' ->
  parse_frame bs = RcOk f -> f_body f = BCpf t AddrNull dt d -> List.length (f_context f) = 8%nat ->
  mem_z (f_session f) (t_sessions st') = true ->
  effect_post (msg_effect d) bs st'
    (match ucmm_item h (f_session f) st d with
     | (st1, Some bs1) => (st1, Some (encap_reply (f_cmd f) (f_session f) 0 (f_context f) (mk_cpf 0 AddrNull ITEM_UNCONN_DATA bs1)))
     | (st1, None) => (st1, Some (encap_reply (f_cmd f) (f_session f) 3 (f_context f) []))
     end).
Proof.
  intros Hinj' H0 Ep Ebody Hctx Emem.
  assert (inj_ok (t_inject st)) as Hinj by (eapply same_inj_ok; eassumption).
  assert (forall r : tstate S * option bytes, same_tables (fst r) st -> effect_post ENone bs st' r) as Hsame.
  { intros r Hr. apply effect_post_same; [exact Hinj' | eapply same_trans; eassumption]. }
  unfold ucmm_item, msg_effect.
  destruct (parse_mr d) as [rq | c] eqn:Emr.
  2: { cbv zeta. destruct (c =? 1); apply Hsame; cbn [fst]; repeat apply same_logs_l; apply same_refl. }
  assert (match path_cia (mr_path rq) with
          | Some (6, 1, None) => negb ((mr_service rq =? 84) || (mr_service rq =? 91) || (mr_service rq =? 78))
          | _ => true
          end = true ->
          effect_post ENone bs st'
            (let '(st1, ob) := (let '(st1, bs1) := ucmm h (f_session f) st rq in (st1, Some bs1)) in
             match ob with
             | Some bs1 => (st1, Some (encap_reply (f_cmd f) (f_session f) 0 (f_context f) (mk_cpf 0 AddrNull ITEM_UNCONN_DATA bs1)))
             | None => (st1, Some (encap_reply (f_cmd f) (f_session f) 3 (f_context f) []))
             end)) as Hnone.
  { intros Hc. pose proof (ucmm_none h (f_session f) st rq Hc) as Hn.
    destruct (ucmm h (f_session f) st rq) as [st1 bs1]. apply Hsame. exact Hn. }
  destruct (path_cia (mr_path rq)) as [[[cl inst] oa] |] eqn:Epath; [| apply Hnone; reflexivity].
  destruct (Z.eq_dec cl 6) as [-> | Ncl].
  2: { destruct cl as [| p | p]; try (apply Hnone; reflexivity).
       do 3 (destruct p as [p | p |]; try (apply Hnone; reflexivity)). exfalso. apply Ncl. reflexivity. }
  destruct (Z.eq_dec inst 1) as [-> | Ninst].
  2: { destruct inst as [| p | p]; try (apply Hnone; reflexivity).
       destruct p; try (apply Hnone; reflexivity). exfalso. apply Ninst. reflexivity. }
  destruct oa as [att |]; [apply Hnone; reflexivity |].
  assert (forall large : bool, mr_service rq = (if large then 91 else 84) ->
            effect_post (EFo large) bs st'
              (let '(st1, ob) := (let '(st1, bs1) := ucmm h (f_session f) st rq in (st1, Some bs1)) in
               match ob with
               | Some bs1 => (st1, Some (encap_reply (f_cmd f) (f_session f) 0 (f_context f) (mk_cpf 0 AddrNull ITEM_UNCONN_DATA bs1)))
               | None => (st1, Some (encap_reply (f_cmd f) (f_session f) 3 (f_context f) []))
               end)) as Hfo.
  { intros large Hsvc.
    pose proof (ucmm_fo h (f_session f) st rq large Epath Hsvc Hinj) as Hfo. cbv zeta in Hfo.
    destruct (ucmm h (f_session f) st rq) as [st1 bs1]. cbn [fst snd] in *.
    destruct Hfo as (G1 & G2 & G3 & G4). destruct H0 as [B1 B2 B3 B4].
    split; [cbn [fst]; congruence |]. split; [cbn [fst]; apply (G3 nz); exact Hinj |].
    cbn [fst snd]. split; [congruence |].
    destruct G4 as [[Gc Gnz] | (c & rest & Gc & Gs & Gid & Gb)].
    - left. split; [congruence |]. intros raw H. inversion H; subst. right. do 4 eexists. split; [exact Hctx |]. split; [reflexivity | exact Gnz].
    - right. exists c, f. eexists. split; [exact Ep |]. split; [congruence |]. split; [exact Gs |].
      split; [exact Emem |]. split; [exact Gid |]. split; [reflexivity |].
      subst bs1. do 5 eexists. split; [exact Hctx |]. split; [| reflexivity].
      unfold reply_service. lia. }
  destruct (mr_service rq =? 84) eqn:E84; [apply (Hfo false); lia |].
  destruct (mr_service rq =? 91) eqn:E91; [apply (Hfo true); lia |].
  destruct (mr_service rq =? 78) eqn:E78.
  { assert (mr_service rq = 78) as Hsvc by lia.
    pose proof (ucmm_fclose h (f_session f) st rq Epath Hsvc) as Hfc. cbv zeta in Hfc.
    destruct (ucmm h (f_session f) st rq) as [st1 bs1]. cbn [fst snd] in *.
    destruct Hfc as (G1 & G2 & G3 & (P & G4)). destruct H0 as [B1 B2 B3 B4].
    split; [cbn [fst]; congruence |]. split; [cbn [fst]; apply (G3 nz); exact Hinj |].
    cbn [fst]. split; [congruence |]. exists P. congruence. }
  apply Hnone. reflexivity.
Qed.

Theorem tstep_effect {S} (h : handler S) st bs : inj_ok (t_inject st) ->
  effect_post (frame_effect bs) bs st (tstep h st bs).
Proof.
  intros Hinj. unfold tstep, frame_effect.
  destruct (parse_header bs) as [[hd body] |] eqn:Eh.
  2: { assert (exists c, parse_frame bs = RcErr c) as [c Hc].
       { unfold parse_frame. rewrite Eh. destruct (negb (bytes_ok bs)); eexists; reflexivity. }
       rewrite Hc. apply effect_post_same; [exact Hinj | apply same_logs]. }
  set (st0 := logs [EvFrame (h_cmd hd) (h_session hd) (List.length bs)] st).
  assert (same_tables st0 st) as H0 by apply same_logs.
  destruct (parse_frame bs) as [f | c] eqn:Ep.
  2: { apply effect_post_same; [exact Hinj | cbn [fst]; apply same_logs_l; exact H0]. }
  destruct (parse_frame_inv bs f Ep) as (hd' & body' & Eh' & Fcmd & Fses & Fctx & Fbody & Fknown & Fok).
  rewrite Eh in Eh'. inversion Eh'; subst hd' body'; clear Eh'.
  assert (List.length (f_context f) = 8%nat) as Hctx by (rewrite Fctx; eapply parse_header_ctx; exact Eh).
  unfold parsed_effect.
  destruct (f_body f) as [d | | | t a dt d] eqn:Ebody.
  - (* NOP *) unfold step_frame. rewrite Ebody. apply effect_post_same; [exact Hinj | exact H0].
  - (* no data *)
    unfold step_frame. rewrite Ebody. rewrite Fcmd in *.
    destruct (parse_body_empty _ _ Fbody Fknown) as [E | [E | [E | E]]]; rewrite E;
      cbn [Z.eqb Pos.eqb CMD_LIST_SERVICES CMD_LIST_IDENTITY CMD_LIST_INTERFACES CMD_UNREGISTER];
      try (apply effect_post_same; [exact Hinj | exact H0]).
    destruct (mem_z (f_session f) (t_sessions st0)).
    + split; [reflexivity |]. split; [exact Hinj |]. split; [reflexivity |].
      right. exists (f_session f). split; reflexivity.
    + split; [reflexivity |]. split; [exact Hinj |]. split; [reflexivity |]. left. split; reflexivity.
  - (* RegisterSession *)
    unfold step_frame. rewrite Ebody.
    destruct (cf_accept_session (t_cfg st0)).
    + split; [reflexivity |]. split; [exact Hinj |]. split; [reflexivity |]. right. eexists. reflexivity.
    + split; [reflexivity |]. split; [exact Hinj |]. split; [reflexivity |]. left. reflexivity.
  - (* common packet format *)
    destruct (parse_body_cpf _ _ _ _ _ _ Fbody) as [[Ecmd Ea] | [Ecmd [cid Ea]]]; subst a.
    2: { apply effect_post_same; [exact Hinj |].
         eapply same_trans; [eapply step_frame_conn_same; exact Ebody | exact H0]. }
    unfold step_frame. rewrite Ebody.
    destruct (mem_z (f_session f) (t_sessions st0)) eqn:Emem; cbn [negb].
    2: { (* session not registered *)
         split; [reflexivity |]. split; [exact Hinj |].
         assert (forall raw, (if f_cmd f =? CMD_RRDATA then Some (encap_reply (f_cmd f) (f_session f) 100 (f_context f) []) else None) = Some raw
                             -> rr_refusal raw) as Href.
         { intros raw. destruct (f_cmd f =? CMD_RRDATA); [| discriminate].
           intros H; inversion H; subst. left. rewrite encap_reply_len by exact Hctx. reflexivity. }
         cbn [fst snd].
         destruct (msg_effect_cases d) as [-> | [[large ->] | ->]].
         - split; reflexivity.
         - split; [reflexivity |]. left. split; [reflexivity | exact Href].
         - split; [reflexivity |]. exists (fun _ => true). apply filter_true. }
    apply (ucmm_item_effect h st0 st bs f t dt d Hinj H0 Ep Ebody Hctx). exact Emem.
Qed.
