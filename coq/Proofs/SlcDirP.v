(* Proofs/SlcDirP.v — round trip of the data-file directory: the model of _parse_file0 applied to
   the spec-side image of a directory returns exactly that directory.  Induction over the rows
   (any number of files); the type-byte residues (15 types, 256 byte values) are vm_compute sweeps. *)
From PV Require Import Base.Bytes Base.BytesLemmas Base.Proto Base.Res Base.PyStr Gen.SlcTables.
From PV Require Import Model.Slc Model.SlcDir Spec.SlcDirSpec.
From PV Require Import Proofs.EnumMapP Proofs.ConnPathStr Proofs.IdentityPrim.
From Coq Require Import ZifyBool.
Ltac Zify.zify_post_hook ::= Z.to_euclidean_division_equations.
Open Scope Z_scope.

(* ---------------------------------------------------------------- the spec's tables are the code's *)
Lemma type_of_code_known t : type_of_code [type_code t] = Some (type_letters t).
Proof. destruct t; vm_compute; reflexivity. Qed.

Lemma size_of_type_known t : size_of_type (type_letters t) = elem_size t.
Proof. destruct t; vm_compute; reflexivity. Qed.

Lemma elem_size_pos t : 0 < elem_size t.
Proof. destruct t; cbn; lia. Qed.

Definition foreign_ok (c : Z) : bool :=
  if is_known_code c then true else match type_of_code [c] with None => true | Some _ => false end.
Lemma foreign_sweep : forallb foreign_ok (zrange 256) = true.
Proof. vm_compute. reflexivity. Qed.
Lemma type_of_code_foreign c : 0 <= c < 256 -> is_known_code c = false -> type_of_code [c] = None.
Proof.
  intros Hc Hk. pose proof (forallb_zrange foreign_ok 256 foreign_sweep c Hc) as H.
  unfold foreign_ok in H. rewrite Hk in H. destruct (type_of_code [c]); [discriminate|reflexivity].
Qed.
Lemma type_of_code_reserved : type_of_code [RESERVED_CODE] = None.
Proof. vm_compute. reflexivity. Qed.

(* ---------------------------------------------------------------- names are injective *)
Definition nodigit (s : text) : bool := forallb (fun c => negb (is_ascii_digit c)) s.
Lemma letters_nodigit t : nodigit (type_letters t) = true.
Proof. destruct t; vm_compute; reflexivity. Qed.

Lemma split_at_digits : forall l1 l2 d1 d2,
  nodigit l1 = true -> nodigit l2 = true ->
  forallb is_ascii_digit d1 = true -> forallb is_ascii_digit d2 = true -> d1 <> [] -> d2 <> [] ->
  l1 ++ d1 = l2 ++ d2 -> d1 = d2.
Proof.
  induction l1 as [|c1 l1 IH]; intros l2 d1 d2 H1 H2 D1 D2 N1 N2 E.
  - destruct l2 as [|c2 l2]; [exact E|]. exfalso.
    cbn [app] in E. destruct d1 as [|x d1]; [congruence|]. injection E as Ex _. subst x.
    cbn [nodigit forallb] in H2. cbn [forallb] in D1.
    destruct (is_ascii_digit c2); cbn in H2, D1; congruence.
  - destruct l2 as [|c2 l2].
    + exfalso. cbn [app] in E. destruct d2 as [|x d2]; [congruence|]. injection E as Ex _. subst x.
      cbn [nodigit forallb] in H1. cbn [forallb] in D2.
      destruct (is_ascii_digit c1); cbn in H1, D2; congruence.
    + cbn [app] in E. injection E as _ E.
      cbn [nodigit forallb] in H1, H2. apply andb_prop in H1, H2.
      apply (IH l2 d1 d2); tauto.
Qed.

Lemma py_str_int_nonneg n : 0 <= n -> py_str_int n = print_nat_z n.
Proof. intros H. unfold py_str_int, print_int. destruct (n <? 0) eqn:E; [lia|reflexivity]. Qed.

Lemma name_inj t1 t2 m n : 0 <= m -> 0 <= n ->
  type_letters t1 ++ py_str_int m = type_letters t2 ++ py_str_int n -> m = n.
Proof.
  intros Hm Hn E. rewrite !py_str_int_nonneg in E by assumption.
  apply split_at_digits in E; try apply letters_nodigit; try apply print_nat_z_digits;
    try apply print_nat_z_nonempty.
  pose proof (print_nat_z_val m Hm) as Vm. pose proof (print_nat_z_val n Hn) as Vn.
  rewrite E in Vm. congruence.
Qed.

(* ---------------------------------------------------------------- the dict only grows *)
Definition conv (e : dir_entry) : text * fentry :=
  (fst e, {| fe_elements := fst (snd e); fe_length := snd (snd e) |}).

(* every key so far is the name of a file with a smaller number *)
Definition keys_below (n : Z) (acc : fdict) : Prop :=
  Forall (fun kv => exists t m, fst kv = type_letters t ++ py_str_int m /\ 0 <= m < n) acc.

Lemma keys_below_mono n n' acc : n <= n' -> keys_below n acc -> keys_below n' acc.
Proof.
  intros Hle H. unfold keys_below in *. eapply Forall_impl; [|exact H].
  intros kv [t [m [E Hm]]]. exists t, m. split; [exact E|lia].
Qed.

Lemma dict_set_fresh acc t n v : 0 <= n -> keys_below n acc ->
  dict_set acc (type_letters t ++ py_str_int n) v = acc ++ [(type_letters t ++ py_str_int n, v)].
Proof.
  intros Hn H. induction H as [|[k v'] acc [t' [m [E Hm]]] _ IH]; [reflexivity|].
  cbn [dict_set app]. cbn [fst] in E.
  destruct (text_eqb k (type_letters t ++ py_str_int n)) eqn:Ek.
  - exfalso. apply text_eqb_eq in Ek. rewrite E in Ek. apply name_inj in Ek; lia.
  - now rewrite IH.
Qed.

Lemma keys_below_snoc n acc t v : 0 <= n -> keys_below n acc ->
  keys_below (n + 1) (acc ++ [(type_letters t ++ py_str_int n, v)]).
Proof.
  intros Hn H. unfold keys_below. apply Forall_app. split.
  - apply (keys_below_mono n); [lia|exact H].
  - constructor; [|constructor]. exists t, n. split; [reflexivity|lia].
Qed.

(* ---------------------------------------------------------------- rows *)
Lemma skipn_row r rest : skipn (length (row_bytes r)) (row_bytes r ++ rest) = rest.
Proof. rewrite skipn_app, skipn_all, Nat.sub_diag. reflexivity. Qed.

Lemma parse_rows_number : forall rows rs fuel n acc rest_fuel,
  Forall (wf_row rs) rows -> fuel = (length rows + S rest_fuel)%nat -> 0 <= n -> keys_below n acc ->
  parse_rows fuel rs (flat_map row_bytes rows) n acc = DOk (acc ++ map conv (number_rows n rows)).
Proof.
  induction rows as [|r rows IH]; intros rs fuel n acc rf Hwf Hf Hn Hk.
  - subst fuel. cbn. now rewrite app_nil_r.
  - inversion Hwf as [|? ? Hr0 Hwf']; subst. destruct Hr0 as [Hlen Hr].
    cbn [flat_map length Nat.add].
    pose proof (skipn_row r (flat_map row_bytes rows)) as Hskip. rewrite Hlen in Hskip.
    destruct r as [t e fill|fill|c fill].
    + destruct Hr as [He Hlt].
      cbn [row_bytes app] in *. cbn [parse_rows].
      rewrite type_of_code_known. cbn [UINT_decode app].
      rewrite size_of_type_known.
      pose proof (elem_size_pos t) as Hs.
      replace ((e * elem_size t) mod 256 + 256 * (e * elem_size t / 256)) with (e * elem_size t) by lia.
      rewrite Z.div_mul by lia.
      rewrite Hskip. rewrite dict_set_fresh by assumption.
      rewrite (IH rs _ (n + 1) _ rf Hwf' eq_refl); [|lia|apply keys_below_snoc; assumption].
      cbn [number_rows map]. rewrite <- app_assoc. reflexivity.
    + cbn [row_bytes app] in *. cbn [parse_rows].
      rewrite type_of_code_reserved. rewrite Hskip.
      replace (RESERVED_CODE =? 129) with true by reflexivity.
      rewrite (IH rs _ (n + 1) _ rf Hwf' eq_refl); [|lia|apply (keys_below_mono n); [lia|assumption]].
      reflexivity.
    + destruct Hr as [Hc [Hk' Hne]].
      cbn [row_bytes app] in *. cbn [parse_rows].
      rewrite type_of_code_foreign by assumption. rewrite Hskip.
      unfold RESERVED_CODE in Hne. destruct (c =? 129) eqn:Ec; [lia|].
      rewrite (IH rs _ n _ rf Hwf' eq_refl); [|lia|assumption].
      reflexivity.
Qed.

(* the rows cannot outnumber the bytes *)
Lemma rows_le_bytes rows : (length rows <= length (flat_map row_bytes rows))%nat.
Proof.
  induction rows as [|r rows IH]; [cbn; lia|].
  cbn [flat_map length]. rewrite app_length. destruct r; cbn [row_bytes length]; lia.
Qed.

(* round trip, row level: any header of the directory's position (at least 53 bytes) *)
Theorem parse_file0_rows pos rs hdr rows :
  length hdr = pos -> (53 <= pos)%nat -> Forall (wf_row rs) rows ->
  parse_file0_at pos rs (encode_rows hdr rows) = DOk (map conv (number_rows 0 rows)).
Proof.
  intros Hh Hp Hwf. unfold parse_file0_at, encode_rows.
  rewrite app_length. destruct (length hdr + length (flat_map row_bytes rows) <=? 52)%nat eqn:E; [lia|].
  rewrite <- Hh. rewrite skipn_app, skipn_all, Nat.sub_diag. cbn [skipn app].
  pose proof (rows_le_bytes rows) as Hle.
  rewrite (parse_rows_number rows rs _ 0 []
             (length hdr + length (flat_map row_bytes rows) - length rows)%nat Hwf);
    [reflexivity|lia|lia|constructor].
Qed.

(* ---------------------------------------------------------------- file lists *)
Lemma number_reserved k fill n rest :
  number_rows n (repeat (RReserved fill) k ++ rest) = number_rows (n + Z.of_nat k) rest.
Proof.
  revert n. induction k as [|k IH]; intros n.
  - cbn. f_equal. lia.
  - cbn [repeat app number_rows]. rewrite IH. f_equal. lia.
Qed.

Lemma number_rows_of_files rs : forall fs next, wf_files next fs ->
  number_rows next (rows_of_files rs next fs) = dir_view fs.
Proof.
  induction fs as [|f fs IH]; intros next Hwf; [reflexivity|].
  cbn [wf_files] in Hwf. destruct Hwf as [Hn [He [Hl Hwf]]].
  cbn [rows_of_files dir_view map]. rewrite number_reserved. cbn [number_rows].
  replace (next + Z.of_nat (Z.to_nat (d_num f - next))) with (d_num f) by lia.
  f_equal. apply IH. exact Hwf.
Qed.

Lemma wf_rows_of_files rs : (3 <= rs)%nat -> forall fs next, wf_files next fs ->
  Forall (wf_row rs) (rows_of_files rs next fs).
Proof.
  intros Hrs. induction fs as [|f fs IH]; intros next Hwf; [constructor|].
  cbn [wf_files] in Hwf. destruct Hwf as [Hn [He [Hl Hwf]]].
  cbn [rows_of_files]. apply Forall_app. split.
  - apply Forall_forall. intros r Hr. apply repeat_spec in Hr. subst r.
    split; [|exact I]. cbn [row_bytes length]. rewrite zeros_length. lia.
  - constructor; [|apply IH; exact Hwf].
    split; [|split; assumption]. cbn [row_bytes length]. rewrite zeros_length. lia.
Qed.

(* _get_sys0_info places the directory where the family has it *)
Lemma sys0_of_family cat :
  Z.to_nat (s_file_position (get_sys0_info cat)) = fam_position (family_of_catalog cat)
  /\ Z.to_nat (s_row_size (get_sys0_info cat)) = fam_row (family_of_catalog cat).
Proof.
  unfold get_sys0_info, family_of_catalog, cat_1761, cat_1100s, cat_1766, t1761, t1762, t1763, t1764, t1766.
  cbn [existsb].
  destruct (text_eqb (firstn 4 cat) [49; 55; 54; 49]); [split; reflexivity|].
  destruct (text_eqb (firstn 4 cat) [49; 55; 54; 51]);
    destruct (text_eqb (firstn 4 cat) [49; 55; 54; 50]);
    destruct (text_eqb (firstn 4 cat) [49; 55; 54; 52]); cbn [orb]; try (split; reflexivity).
  destruct (text_eqb (firstn 4 cat) [49; 55; 54; 54]); split; reflexivity.
Qed.

(* round trip, directory level: for every family, every catalog string of the family, every
   header of the family's length and every well-formed list of files *)
Theorem dir_roundtrip cat hdr fs :
  length hdr = fam_position (family_of_catalog cat) -> wf_files 0 fs ->
  parse_file0 (get_sys0_info cat) (encode_dir (family_of_catalog cat) hdr fs) = DOk (map conv (dir_view fs)).
Proof.
  intros Hh Hwf. unfold parse_file0, encode_dir.
  destruct (sys0_of_family cat) as [Hp Hr]. rewrite Hp, Hr.
  rewrite (parse_file0_rows _ _ hdr _ Hh).
  - rewrite number_rows_of_files by exact Hwf. reflexivity.
  - destruct (family_of_catalog cat); cbn; lia.
  - apply wf_rows_of_files; [destruct (family_of_catalog cat); cbn; lia|exact Hwf].
Qed.

(* both levels in one statement (Props/C18.v) *)
Definition dir_roundtrip_stmt : Prop :=
  (forall cat hdr fs,
     length hdr = fam_position (family_of_catalog cat) -> wf_files 0 fs ->
     parse_file0 (get_sys0_info cat) (encode_dir (family_of_catalog cat) hdr fs) = DOk (map conv (dir_view fs)))
  /\ (forall pos rs hdr rows,
        length hdr = pos -> (53 <= pos)%nat -> Forall (wf_row rs) rows ->
        parse_file0_at pos rs (encode_rows hdr rows) = DOk (map conv (number_rows 0 rows))).
Theorem dir_roundtrip_all : dir_roundtrip_stmt.
Proof. split; [exact dir_roundtrip|exact parse_file0_rows]. Qed.
