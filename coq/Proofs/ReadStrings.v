(* Proofs/ReadStrings.v — from request STRINGS to the structured requests of Proofs/ReadResolve2.v.
   [plain_request p cfg s] is a computable predicate of the string and the project: the string is split
   ([struct_core]: count, '.', Program: prefix, bit, '[' ... ']' — no proof about the splitter is needed),
   the tag is looked up by its exact name, the structured request is rendered back and compared with the
   string, and the side conditions of [item_ok] / [item_wf] are checked by boolean functions.
     plain_item    plain_request s = true, Expect.parse_request s = Some r, the request exists, can be built,
                   travels and is outside the guard  ->  s = item_text x, r = item_ast x, item_ok x
   No axioms. *)
From Coq Require Import ZifyBool String.
From PV Require Import Base.Bytes Base.BytesLemmas Base.Res Base.Proto Base.PyStr.
From PV Require Import Gen.Consts Gen.PathTables Model.Path Model.Reply Model.LogixPlan Model.LogixRead.
From PV Require Import Spec.EncapParser Spec.MRParser Spec.TargetIface Spec.TargetCore Spec.Project Spec.Expect Spec.TargetLogix.
From PV Require Import Proofs.PathStr Proofs.TargetCoreP Proofs.TargetLogixP Proofs.ReadBits Proofs.ReadDecode Proofs.ReadTarget
  Proofs.ReadValue Proofs.ReadFrag Proofs.ReadMulti Proofs.ReadPlan Proofs.ReadCorrect Proofs.ReadResolve Proofs.ReadResolve1
  Proofs.ReadResolve2.
Open Scope list_scope.
Open Scope Z_scope.

(* ================================================================ splitting a request string *)
(* a decimal field: digits, at most sys.int_max_str_digits = 4300 of them *)
Definition okd (t : text) : bool := isdigit t && (Path.len t <=? 4300).

Fixpoint vals (ids : list text) : option (list Z) :=
  match ids with
  | [] => Some []
  | t :: r => match digits_val t 0, vals r with Some v, Some vs => Some (v :: vs) | _, _ => None end
  end.

Definition opt_of (o : option text) : option (option (text * Z)) :=
  match o with
  | None => Some None
  | Some t => match digits_val t 0 with Some v => Some (Some (t, v)) | None => None end
  end.

Definition seg_split (part : text) : text * list text :=
  match split_chr 91 part with
  | [n; rest] => (n, split_chr 44 (removelast rest))
  | _ => (part, [])
  end.

Definition mk_part (nl : text * list text) : option ppart :=
  match vals (snd nl) with Some idv => Some (fst nl, snd nl, idv) | None => None end.
Fixpoint mk_parts (l : list (text * list text)) : option (list ppart) :=
  match l with
  | [] => Some []
  | x :: r => match mk_part x, mk_parts r with Some a, Some b => Some (a :: b) | _, _ => None end
  end.

Definition cnt_split (s : text) : text * option text :=
  if ends_with [125] s then
    match split_chr 123 s with [b; c] => (b, Some (removelast c)) | _ => (s, None) end
  else (s, None).

Definition prog_split (parts : list text) : option text * list text :=
  match parts with
  | p0 :: r => if starts_with txt_Program_ p0 then (Some (skipn 8 p0), r) else (None, parts)
  | [] => (None, [])
  end.

Definition bit_split (parts1 : list text) : option text * list text :=
  match rev parts1 with
  | l :: (x :: ri) => if isdigit l then (Some l, rev (x :: ri)) else (None, parts1)
  | _ => (None, parts1)
  end.

Definition core := (option text * ppart * list ppart * option (text * Z) * option (text * Z))%type.

Definition struct_core (s : text) : option core :=
  let bc := cnt_split s in
  let pp := prog_split (split_chr 46 (fst bc)) in
  let bp := bit_split (snd pp) in
  match snd bp with
  | [] => None
  | s1 :: ms =>
      match mk_part (seg_split s1), mk_parts (map seg_split ms), opt_of (fst bp), opt_of (snd bc) with
      | Some x1, Some more, Some bit, Some cnt => Some (fst pp, x1, more, bit, cnt)
      | _, _, _, _ => None
      end
  end.

Definition vals_ok (x : ppart) : Prop := vals (snd (fst x)) = Some (pp_idv x).
Definition optc (o : option (text * Z)) : Prop := match o with Some (t, v) => digits_val t 0 = Some v | None => True end.

Lemma mk_part_ok nl x : mk_part nl = Some x -> vals_ok x.
Proof. unfold mk_part, vals_ok. destruct (vals (snd nl)) eqn:E; [|discriminate]. intros H. injection H as <-. exact E. Qed.

Lemma mk_parts_ok l : forall xs, mk_parts l = Some xs -> Forall vals_ok xs.
Proof.
  induction l as [|a r IH]; intros xs H; cbn [mk_parts] in H; [injection H as <-; constructor|].
  destruct (mk_part a) as [x|] eqn:Ea; [|discriminate]. destruct (mk_parts r) as [b|] eqn:Eb; [|discriminate].
  injection H as <-. constructor; [exact (mk_part_ok _ _ Ea)|exact (IH _ eq_refl)].
Qed.

Lemma opt_of_ok o r : opt_of o = Some r -> optc r.
Proof.
  unfold opt_of. destruct o as [t|]; [|intros H; injection H as <-; exact I].
  destruct (digits_val t 0) eqn:E; [|discriminate]. intros H. injection H as <-. exact E.
Qed.

Lemma struct_core_ok s prog x1 more bit cnt : struct_core s = Some (prog, x1, more, bit, cnt) ->
  vals_ok x1 /\ Forall vals_ok more /\ optc bit /\ optc cnt.
Proof.
  unfold struct_core. cbv zeta.
  destruct (snd (bit_split (snd (prog_split (split_chr 46 (fst (cnt_split s))))))) as [|s1 ms]; [discriminate|].
  destruct (mk_part (seg_split s1)) as [a|] eqn:E1; [|discriminate].
  destruct (mk_parts (map seg_split ms)) as [b|] eqn:E2; [|discriminate].
  destruct (opt_of (fst (bit_split _))) as [c|] eqn:E3; [|discriminate].
  destruct (opt_of (snd (cnt_split s))) as [d|] eqn:E4; [|discriminate].
  intros H. injection H as _ <- <- <- <-.
  split; [exact (mk_part_ok _ _ E1)|]. split; [exact (mk_parts_ok _ _ E2)|]. split; [exact (opt_of_ok _ _ E3)|exact (opt_of_ok _ _ E4)].
Qed.

(* ================================================================ boolean side conditions *)
Definition in32 (i : Z) : bool := (0 <=? i) && (i <? 4294967296).
Definition ppart_okb (x : ppart) : bool :=
  pname (pp_name x) && forallb okd (snd (fst x)) && forallb in32 (pp_idv x) && Nat.leb (length (pp_idv x)) 3.
Definition optb (o : option (text * Z)) : bool := match o with Some (t, _) => okd t | None => true end.
Definition dims32b (g : tagdef) : bool := forallb (fun d => d <=? 4294967296) (g_dims g).

Lemma vals_num_ok ids : forall idv, vals ids = Some idv -> forallb okd ids = true -> Forall2 num_ok ids idv.
Proof.
  induction ids as [|t r IH]; intros idv H Hb; cbn [vals] in H; [injection H as <-; constructor|].
  destruct (digits_val t 0) as [v|] eqn:Ev; [|discriminate]. destruct (vals r) as [vs|] eqn:Er; [|discriminate].
  injection H as <-. cbn [forallb] in Hb. apply andb_prop in Hb. destruct Hb as [Ht Hr].
  constructor; [|exact (IH _ eq_refl Hr)]. unfold okd in Ht. apply andb_prop in Ht. destruct Ht as [Hd Hl].
  unfold num_ok. split; [exact Hd|]. split; [unfold int_max_str_digits; lia|exact Ev].
Qed.

Lemma ppart_okb_ok x : ppart_okb x = true -> vals_ok x -> ppart_ok x /\ (length (pp_idv x) <= 3)%nat /\ idx32 (pp_idv x).
Proof.
  unfold ppart_okb. intros H Hv. apply andb_prop in H. destruct H as [H H3]. apply andb_prop in H. destruct H as [H H32].
  apply andb_prop in H. destruct H as [Hn Hd].
  assert (Hi : idx32 (pp_idv x)).
  { unfold idx32. apply Forall_forall. intros i Hin. pose proof (forallb_In _ _ _ H32 Hin) as Hx. unfold in32 in Hx. lia. }
  split; [|split; [apply Nat.leb_le; exact H3|exact Hi]].
  split; [exact Hn|]. split; [exact (vals_num_ok _ _ Hv Hd)|exact Hi].
Qed.

Lemma optb_ok o : optb o = true -> optc o -> opt_ok o.
Proof.
  destruct o as [[t v]|]; [|intros; exact I]. cbn [optb optc opt_ok]. intros Ht Hv.
  unfold okd in Ht. apply andb_prop in Ht. destruct Ht as [Hd Hl].
  unfold num_ok. split; [exact Hd|]. split; [unfold int_max_str_digits; lia|exact Hv].
Qed.

Lemma dims32b_ok g : dims32b g = true -> Forall (fun d => d <= 4294967296) (g_dims g).
Proof. unfold dims32b. intros H. apply Forall_forall. intros d Hin. pose proof (forallb_In _ _ _ H Hin) as Hx. cbv beta in Hx. lia. Qed.

(* member names spelled as the templates spell them *)
Fixpoint exact_membersb (p : project) (pl : place) (more : list ppart) : bool :=
  match more with
  | [] => true
  | y :: r =>
      match pl with
      | PlData _ _ (BStruct tid) _ _ =>
          match find_template (p_templates p) tid with
          | Some t =>
              match find_member (t_members t) (pp_name y) with
              | Some m => text_eqb (m_name m) (pp_name y)
                          && match member_place p pl (pp_name y) with
                             | Some pl2 => match index_place p pl2 (pp_idv y) with
                                           | Some pl3 => exact_membersb p pl3 r
                                           | None => true
                                           end
                             | None => true
                             end
              | None => true
              end
          | None => true
          end
      | _ => true
      end
  end.

Lemma exact_membersb_ok p : forall more pl, exact_membersb p pl more = true -> exact_members p pl more.
Proof.
  induction more as [|y r IH]; intros pl H; [exact I|]. cbn [exact_membersb exact_members] in *.
  destruct pl as [inst off ty dims av| |]; try exact I. destruct ty as [|tid|]; try exact I.
  destruct (find_template (p_templates p) tid) as [t|]; [|exact I].
  destruct (find_member (t_members t) (pp_name y)) as [m|]; [|exact I].
  apply andb_prop in H. destruct H as [Hn Hr]. split; [apply teqb_eq; exact Hn|].
  destruct (member_place p (PlData inst off (BStruct tid) dims av) (pp_name y)) as [pl2|]; [|exact I].
  destruct (index_place p pl2 (pp_idv y)) as [pl3|]; [|exact I]. apply IH. exact Hr.
Qed.

Definition sreq_shapeb (x : sreq) : bool :=
  match g_ty (sr_g x) with
  | BAtom c =>
      if c =? C_BOOL then
        match sr_ids x, sr_bit x, sr_cnt x with [], None, None => true | _, _, _ => false end
      else if c =? C_DWORD then
        match sr_bit x with None => Nat.leb (length (sr_idv x)) (length (g_dims (sr_g x))) | Some _ => false end
      else dims32b (sr_g x)
  | BStruct _ => dims32b (sr_g x)
  | BOpaque _ => false
  end.

Lemma sreq_shapeb_ok x : sreq_shapeb x = true -> sreq_shape x.
Proof.
  unfold sreq_shapeb, sreq_shape. destruct (g_ty (sr_g x)) as [c|tid|w]; [| |discriminate].
  - destruct (c =? C_BOOL).
    + destruct (sr_ids x); [|discriminate]. destruct (sr_bit x); [discriminate|]. destruct (sr_cnt x); [discriminate|].
      intros _. repeat split; reflexivity.
    + destruct (c =? C_DWORD).
      * destruct (sr_bit x); [discriminate|]. intros H. split; [reflexivity|apply Nat.leb_le; exact H].
      * apply dims32b_ok.
  - apply dims32b_ok.
Qed.

(* ================================================================ the predicate *)
Definition scope_exact (a b : scope) : bool :=
  match a, b with ScCtrl, ScCtrl => true | ScProg x, ScProg y => text_eqb x y | _, _ => false end.
Lemma scope_exact_eq a b : scope_exact a b = true -> a = b.
Proof. destruct a, b; cbn; try discriminate; [reflexivity|]. intros H. f_equal. apply teqb_eq. exact H. Qed.

Definition core_item (p : project) (c : core) : option ritem :=
  let '(prog, x1, more, bit, cnt) := c in
  let sc := match prog with Some P => ScProg P | None => ScCtrl end in
  match List.find (fun g => scope_exact (g_scope g) sc && text_eqb (g_name g) (pp_name x1)) (visible_tags p) with
  | Some g => Some (match prog, more with
                    | None, [] => inl (mkSreq g (snd (fst x1)) (pp_idv x1) bit cnt)
                    | _, _ => inr (mkGreq g x1 more bit cnt)
                    end)
  | None => None
  end.

Definition nonempty_prog (sc : scope) : bool := match sc with ScProg [] => false | _ => true end.

Definition item_okb (p : project) (x : ritem) : bool :=
  match x with
  | inl a => plain_name (g_name (sr_g a)) && forallb okd (sr_ids a) && forallb in32 (sr_idv a)
             && Nat.leb (length (sr_idv a)) 3 && optb (sr_bit a) && optb (sr_cnt a) && sreq_shapeb a
  | inr b => forallb ppart_okb (prog_parts (g_scope (gq_g b)) ++ gq_x1 b :: gq_more b)
             && negb (starts_with txt_Program_ (seg_txt (gq_x1 b)))
             && forallb (fun y => negb (isdigit (seg_txt y))) (gq_more b)
             && optb (gq_bit b) && optb (gq_cnt b) && dims32b (gq_g b) && nonempty_prog (g_scope (gq_g b))
             && match tag_place (gq_g b) with
                | Some pl0 => match index_place p pl0 (pp_idv (gq_x1 b)) with
                              | Some pl1 => exact_membersb p pl1 (gq_more b)
                              | None => true
                              end
                | None => true
                end
  end.

Definition plain_request (p : project) (s : text) : bool :=
  match struct_core s with
  | Some c => match core_item p c with
              | Some x => text_eqb (item_text x) s && item_okb p x
              | None => false
              end
  | None => false
  end.

Lemma sreq_parse_request a : plain_name (g_name (sr_g a)) = true -> Forall2 num_ok (sr_ids a) (sr_idv a) ->
  opt_ok (sr_bit a) -> opt_ok (sr_cnt a) -> (length (sr_idv a) <= 3)%nat -> idx32 (sr_idv a) ->
  parse_request (sreq_text a) = Some (sreq_ast a).
Proof.
  intros Hname Hids Hbit Hcnt H3 H32. unfold sreq_text, sreq_ast, single_req.
  pose proof (parse_request_gtext ScCtrl (g_name (sr_g a), sr_ids a, sr_idv a) [] (sr_bit a) (sr_cnt a)) as H.
  unfold g_text, g_body0, g_base in H. cbn [prog_of prog_parts app map join seg_ast pp_name pp_idv fst snd] in H.
  unfold seg_txt in H at 2 3. cbn [pp_name fst snd] in H. rewrite <- app_assoc in H. apply H; try assumption.
  - constructor; [|constructor]. split; [apply plain_pname; exact Hname|]. split; assumption.
  - constructor; [exact H3|constructor].
  - exact I.
  - apply (body0_not_program _ _ _ Hname Hids).
  - reflexivity.
Qed.

Theorem plain_item p mem cfg fuel s r :
  plain_request p s = true -> parse_request s = Some r -> ref_read p mem r <> None ->
  (exists q path, parse_tag_request (client_tags p) s = Ok q /\ read_path (c_use_ids cfg) q = Ok path
                  /\ fits (c_conn cfg) fuel q path) ->
  exists x, item_text x = s /\ item_ast x = r /\ item_ok p mem cfg fuel x.
Proof.
  intros Hp Hpr Href (q0 & path0 & Hq0 & Hrp0 & Hfit0). unfold plain_request in Hp.
  destruct (struct_core s) as [c|] eqn:Ec; [|discriminate].
  destruct (core_item p c) as [x|] eqn:Ei; [|discriminate].
  apply andb_prop in Hp. destruct Hp as [Htxt Hokb]. apply teqb_eq in Htxt.
  destruct c as [[[[prog x1] more] bit] cnt].
  destruct (struct_core_ok s prog x1 more bit cnt Ec) as (Hv1 & Hvm & Hcb & Hcc).
  unfold core_item in Ei.
  destruct (List.find _ (visible_tags p)) as [g|] eqn:Ef; [|discriminate].
  destruct (List.find_some _ _ Ef) as [Hvis Hpred]. apply andb_prop in Hpred. destruct Hpred as [Hsc Hnm].
  apply scope_exact_eq in Hsc. apply teqb_eq in Hnm.
  assert (Hdet : forall q, parse_tag_request (client_tags p) s = Ok q -> q = q0) by (intros q Hq; congruence).
  exists x. split; [exact Htxt|].
  destruct prog as [P|]; [|destruct more as [|y ys]]; injection Ei as <-.
  - (* program scope *)
    cbn [item_okb gq_g gq_x1 gq_more gq_bit gq_cnt] in Hokb. repeat (apply andb_prop in Hokb; destruct Hokb as [Hokb ?]).
    rewrite Hsc in *. cbn [prog_parts nonempty_prog] in *.
    assert (HFv : Forall vals_ok ((txt_Program_ ++ P, [], []) :: x1 :: more)) by (constructor; [reflexivity|constructor; assumption]).
    assert (HF : Forall (fun z => ppart_ok z /\ (length (pp_idv z) <= 3)%nat /\ idx32 (pp_idv z)) ((txt_Program_ ++ P, [], []) :: x1 :: more)).
    { apply Forall_forall. intros z Hz. rewrite Forall_forall in HFv. apply ppart_okb_ok; [exact (forallb_In _ _ _ Hokb Hz)|exact (HFv z Hz)]. }
    assert (HFok : Forall ppart_ok ((txt_Program_ ++ P, [], []) :: x1 :: more)) by (eapply Forall_impl; [|exact HF]; cbv beta; tauto).
    assert (HF3 : Forall (fun z => (length (pp_idv z) <= 3)%nat) (x1 :: more)).
    { inversion HF; subst. eapply Forall_impl; [|eassumption]. cbv beta. tauto. }
    assert (Hast : parse_request (item_text (inr (mkGreq g x1 more bit cnt))) = Some (item_ast (inr (mkGreq g x1 more bit cnt)))).
    { cbn [item_text item_ast]. unfold gq_text, gq_ast, greq_text, greq_ast. cbn [gq_g gq_x1 gq_more gq_bit gq_cnt]. rewrite Hsc.
      apply parse_request_gtext; try assumption.
      - destruct P; [discriminate|discriminate].
      - apply negb_true_iff. assumption.
      - apply optb_ok; assumption.
      - apply optb_ok; assumption. }
    rewrite Htxt, Hpr in Hast. injection Hast as Hr. split; [symmetry; exact Hr|].
    cbn [item_ok]. unfold greq_ok. cbn [gq_g gq_x1 gq_more gq_bit gq_cnt]. rewrite Hsc. cbn [prog_parts app].
    split; [exact Hvis|]. split; [symmetry; exact Hnm|]. split; [exact HFok|].
    split; [apply negb_true_iff; assumption|]. split; [assumption|].
    split; [apply optb_ok; assumption|]. split; [apply optb_ok; assumption|]. split; [apply dims32b_ok; assumption|].
    split; [right; left; discriminate|].
    split.
    { intros pl0 pl1 E0 E1. rewrite E0, E1 in *. apply exact_membersb_ok. assumption. }
    cbn [item_ast] in Hr. split; [rewrite <- Hr; exact Href|].
    cbn [item_text] in Htxt. rewrite Htxt.
    split; [intros q Hq; rewrite (Hdet q Hq); eauto|].
    intros q path Hq Hrp. rewrite (Hdet q Hq) in *. replace path with path0 by congruence. exact Hfit0.
  - (* a single controller-scope segment *)
    cbn [item_okb sr_g sr_ids sr_idv sr_bit sr_cnt] in Hokb. remember (plain_name (g_name g)) as pn eqn:Epn.
    repeat (apply andb_prop in Hokb; destruct Hokb as [Hokb ?]). subst pn.
    assert (Hids : Forall2 num_ok (snd (fst x1)) (pp_idv x1)) by (apply vals_num_ok; assumption).
    assert (H32 : idx32 (pp_idv x1)).
    { unfold idx32. apply Forall_forall. intros i Hin. match goal with Hx : forallb in32 _ = true |- _ => pose proof (forallb_In _ _ _ Hx Hin) as Hy end.
      unfold in32 in Hy. lia. }
    assert (Hast : parse_request (sreq_text (mkSreq g (snd (fst x1)) (pp_idv x1) bit cnt)) = Some (sreq_ast (mkSreq g (snd (fst x1)) (pp_idv x1) bit cnt))).
    { apply sreq_parse_request; cbn [sr_g sr_ids sr_idv sr_bit sr_cnt]; try assumption.
      - apply optb_ok; assumption.
      - apply optb_ok; assumption.
      - apply Nat.leb_le. assumption. }
    cbn [item_text] in Htxt. rewrite Htxt, Hpr in Hast. injection Hast as Hr. split; [symmetry; exact Hr|].
    cbn [item_ok]. unfold sreq_ok. cbn [sr_g sr_ids sr_idv sr_bit sr_cnt].
    split; [exact Hvis|]. split; [exact Hsc|]. split; [assumption|]. split; [exact Hids|].
    split; [apply optb_ok; assumption|]. split; [apply optb_ok; assumption|].
    split; [apply sreq_shapeb_ok; assumption|]. split; [rewrite <- Hr; exact Href|].
    rewrite Htxt. intros q path Hq Hrp. rewrite (Hdet q Hq) in *. replace path with path0 by congruence. exact Hfit0.
  - (* a member path *)
    cbn [item_okb gq_g gq_x1 gq_more gq_bit gq_cnt] in Hokb. repeat (apply andb_prop in Hokb; destruct Hokb as [Hokb ?]).
    rewrite Hsc in *. cbn [prog_parts nonempty_prog app] in *.
    assert (HFv : Forall vals_ok (x1 :: y :: ys)) by (constructor; assumption).
    assert (HF : Forall (fun z => ppart_ok z /\ (length (pp_idv z) <= 3)%nat /\ idx32 (pp_idv z)) (x1 :: y :: ys)).
    { apply Forall_forall. intros z Hz. rewrite Forall_forall in HFv. apply ppart_okb_ok; [exact (forallb_In _ _ _ Hokb Hz)|exact (HFv z Hz)]. }
    assert (HFok : Forall ppart_ok (x1 :: y :: ys)) by (eapply Forall_impl; [|exact HF]; cbv beta; tauto).
    assert (HF3 : Forall (fun z => (length (pp_idv z) <= 3)%nat) (x1 :: y :: ys)) by (eapply Forall_impl; [|exact HF]; cbv beta; tauto).
    assert (Hast : parse_request (item_text (inr (mkGreq g x1 (y :: ys) bit cnt))) = Some (item_ast (inr (mkGreq g x1 (y :: ys) bit cnt)))).
    { cbn [item_text item_ast]. unfold gq_text, gq_ast, greq_text, greq_ast. cbn [gq_g gq_x1 gq_more gq_bit gq_cnt]. rewrite Hsc.
      apply parse_request_gtext; try assumption.
      - exact I.
      - apply negb_true_iff. assumption.
      - apply optb_ok; assumption.
      - apply optb_ok; assumption. }
    rewrite Htxt, Hpr in Hast. injection Hast as Hr. split; [symmetry; exact Hr|].
    cbn [item_ok]. unfold greq_ok. cbn [gq_g gq_x1 gq_more gq_bit gq_cnt]. rewrite Hsc. cbn [prog_parts app].
    split; [exact Hvis|]. split; [symmetry; exact Hnm|]. split; [exact HFok|].
    split; [apply negb_true_iff; assumption|]. split; [assumption|].
    split; [apply optb_ok; assumption|]. split; [apply optb_ok; assumption|]. split; [apply dims32b_ok; assumption|].
    split; [left; discriminate|].
    split.
    { intros pl0 pl1 E0 E1. rewrite E0, E1 in *. apply exact_membersb_ok. assumption. }
    cbn [item_ast] in Hr. split; [rewrite <- Hr; exact Href|].
    cbn [item_text] in Htxt. rewrite Htxt.
    split; [intros q Hq; rewrite (Hdet q Hq); eauto|].
    intros q path Hq Hrp. rewrite (Hdet q Hq) in *. replace path with path0 by congruence. exact Hfit0.
Qed.

Print Assumptions plain_item.
