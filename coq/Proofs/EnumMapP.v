(* Proofs/EnumMapP.v — generic lemmas about the EnumMap model (C19). The unbounded part (every
   letter-casing of every name, every key) is proved here for any table; the finite residue is a
   boolean check [table_ok] evaluated on the regenerated tables in Props/C19.v. *)
From PV Require Import Base.Bytes Base.Proto Model.EnumMapDefs Model.EnumMap.
Open Scope Z_scope.

Lemma zs_eqb_refl a : zs_eqb a a = true.
Proof. induction a as [|x a IH]; cbn; [reflexivity|]. now rewrite Z.eqb_refl, IH. Qed.

Lemma zs_eqb_eq a b : zs_eqb a b = true <-> a = b.
Proof.
  revert b; induction a as [|x a IH]; intros [|y b]; cbn; split; intros H; try congruence; try reflexivity.
  - apply andb_true_iff in H as [H1 H2]. apply Z.eqb_eq in H1. apply IH in H2. congruence.
  - injection H as -> ->. now rewrite Z.eqb_refl, zs_eqb_refl.
Qed.

Lemma key_eqb_eq a b : key_eqb a b = true <-> a = b.
Proof.
  destruct a, b; cbn; split; intros H; try congruence;
    try (apply zs_eqb_eq in H; congruence); try (injection H as ->; apply zs_eqb_refl).
  - apply Z.eqb_eq in H; congruence.
  - injection H as ->. apply Z.eqb_refl.
Qed.

(* case mapping: ASCII *)
Lemma lower_c_idem c : lower_c (lower_c c) = lower_c c.
Proof. unfold lower_c. destruct ((65 <=? c) && (c <=? 90)) eqn:E; [|now rewrite E].
  destruct ((65 <=? c + 32) && (c + 32 <=? 90)) eqn:E2; lia. Qed.
Lemma lower_upper_c c : lower_c (upper_c c) = lower_c c.
Proof. unfold lower_c, upper_c.
  destruct ((97 <=? c) && (c <=? 122)) eqn:E1; destruct ((65 <=? c) && (c <=? 90)) eqn:E2;
  try destruct ((65 <=? c - 32) && (c - 32 <=? 90)) eqn:E3; lia. Qed.
Lemma lower_idem s : lower (lower s) = lower s.
Proof. unfold lower. rewrite map_map. apply map_ext, lower_c_idem. Qed.
Lemma lower_upper s : lower (upper s) = lower s.
Proof. unfold lower, upper. rewrite map_map. apply map_ext, lower_upper_c. Qed.
(* any per-character re-casing of a name has the same lower-casing *)
Lemma lower_recase s n : Forall2 (fun a b => lower_c a = lower_c b) s n -> lower s = lower n.
Proof. unfold lower. induction 1 as [|a b s n H _ IH]; cbn; congruence. Qed.

Definition okey_eqb (a b : option key) : bool :=
  match a, b with Some x, Some y => key_eqb x y | None, None => true | _, _ => false end.
Lemma okey_eqb_eq a b : okey_eqb a b = true <-> a = b.
Proof. destruct a, b; cbn; split; intros H; try congruence; try reflexivity.
  - apply key_eqb_eq in H; congruence.
  - injection H as ->. now apply key_eqb_eq. Qed.

Section Generic.
  Variable tc : list (list Z * Z).

  (* the finite check, one boolean per member *)
  Definition name_ok (t : table) (m : list Z * key) : bool :=
    let '(n, v) := m in okey_eqb (getitem tc t (KStr (lower n))) (Some v).
  Definition code_ok (t : table) (m : list Z * key) : bool :=
    let '(n, v) := m in
    match getitem tc t (vkey tc t v) with
    | Some (KStr n') => match getitem tc t (KStr n') with
                        | Some v' => key_eqb (vkey tc t v') (vkey tc t v) && mem_name (t_members t) (lower n')
                        | None => false
                        end
    | _ => false
    end.
  Definition table_ok (t : table) : bool :=
    forallb (name_ok t) (t_members t) && (negb (t_bidir t) || forallb (code_ok t) (t_members t)).

  Lemma getitem_any_case t s : getitem tc t (KStr s) = getitem tc t (KStr (lower s)).
  Proof. unfold getitem. cbn [norm_key]. now rewrite lower_idem. Qed.
  Lemma get_is_getitem t k : get tc t k None = getitem tc t k.
  Proof. unfold get, getitem. destruct (lookup _ _); reflexivity. Qed.
  Lemma contains_iff t k : contains tc t k = true <-> getitem tc t k <> None.
  Proof. unfold contains, getitem. destruct (lookup _ _); cbn; split; congruence. Qed.
  Lemma get_default t k d : getitem tc t k = None -> get tc t k (Some d) = Some (caps t d).
  Proof. unfold get, getitem. destruct (lookup _ _); cbn; congruence. Qed.

  Lemma by_name_any_case t n v s :
    table_ok t = true -> In (n, v) (t_members t) -> lower s = lower n ->
    getitem tc t (KStr s) = Some v /\ get tc t (KStr s) None = Some v /\ contains tc t (KStr s) = true.
  Proof.
    intros Hok Hin Hs. unfold table_ok in Hok. apply andb_true_iff in Hok as [Hn _].
    rewrite forallb_forall in Hn. specialize (Hn _ Hin). cbn in Hn. apply okey_eqb_eq in Hn.
    assert (G : getitem tc t (KStr s) = Some v) by (rewrite getitem_any_case, Hs; exact Hn).
    repeat split; [exact G | rewrite get_is_getitem; exact G | apply contains_iff; congruence].
  Qed.

  Lemma by_code t n v :
    table_ok t = true -> t_bidir t = true -> In (n, v) (t_members t) ->
    exists n' v', getitem tc t (vkey tc t v) = Some (KStr n')
                  /\ getitem tc t (KStr n') = Some v' /\ vkey tc t v' = vkey tc t v
                  /\ mem_name (t_members t) (lower n') = true.
  Proof.
    intros Hok Hb Hin. unfold table_ok in Hok. apply andb_true_iff in Hok as [_ Hc].
    rewrite Hb in Hc. cbn in Hc. rewrite forallb_forall in Hc. specialize (Hc _ Hin). cbn in Hc.
    destruct (getitem tc t (vkey tc t v)) as [[n'| | |]|]; try discriminate.
    destruct (getitem tc t (KStr n')) as [v'|] eqn:E; try discriminate.
    apply andb_true_iff in Hc as [H1 H2]. apply key_eqb_eq in H1. exists n', v'. auto.
  Qed.
End Generic.

(* finite sweep over 0..n-1 lifted to a universally quantified statement *)
Fixpoint zrange (n : nat) : list Z := match n with O => [] | S k => zrange k ++ [Z.of_nat k] end.
Lemma zrange_in n i : 0 <= i < Z.of_nat n -> In i (zrange n).
Proof.
  induction n as [|k IH]; intros H; [lia|]. cbn. apply in_or_app.
  destruct (Z.eq_dec i (Z.of_nat k)) as [->|Hne]; [right; now left|left; apply IH; lia].
Qed.
Lemma forallb_zrange (P : Z -> bool) n : forallb P (zrange n) = true -> forall i, 0 <= i < Z.of_nat n -> P i = true.
Proof. intros H i Hi. rewrite forallb_forall in H. apply H, zrange_in, Hi. Qed.

(* sub-list containment, for "the message contains the hex code" *)
Fixpoint prefix_b (p s : list Z) : bool :=
  match p, s with
  | [], _ => true
  | x :: p', y :: s' => (x =? y) && prefix_b p' s'
  | _, [] => false
  end.
Fixpoint contains_sub (p s : list Z) : bool :=
  prefix_b p s || match s with [] => false | _ :: s' => contains_sub p s' end.
