(* Proofs/CodecWireBase.v — C07: the reference's arithmetic (Spec/Wire.v: div/mod, sums of powers,
   positional sums) against the model's primitives (Base/Bytes.v le_enc/le_dec: iterated division;
   Model/Codec.v bits_value/value_bits: iterated doubling/halving; dict and key functions).  Proved
   once; the induction on types (CodecWireEnc.v, CodecWireDec.v) only rewrites with these. *)
From PV Require Import Base.Bytes Base.BytesLemmas Base.Res Model.Codec Spec.WireFloat Spec.Wire.
From Coq Require Import ZifyBool.
Open Scope Z_scope.
Ltac Zify.zify_post_hook ::= Z.to_euclidean_division_equations.

(* ------------------------------------------------------------------ integers *)
Lemma wpow_pow256 w : wpow w = pow256 w.
Proof.
  unfold wpow, pow256. replace 256 with (2 ^ 8) by reflexivity. rewrite <- Z.pow_mul_r by lia. reflexivity.
Qed.

Lemma seq_shift_map {A} (f : nat -> A) a n : map f (seq (S a) n) = map (fun i => f (S i)) (seq a n).
Proof. rewrite <- seq_shift, map_map. reflexivity. Qed.

Lemma le_enc_digits w y : map (fun i => (y / 256 ^ Z.of_nat i) mod 256) (seq 0 w) = le_enc w y.
Proof.
  revert y. induction w as [|w IH]; intros y; [reflexivity|].
  cbn [seq map le_enc]. f_equal.
  - cbn. now rewrite Z.div_1_r.
  - rewrite seq_shift_map, <- IH. apply map_ext. intros i.
    rewrite Nat2Z.inj_succ, Z.pow_succ_r by lia. rewrite Z.div_div by lia. reflexivity.
Qed.

Lemma spec_le_le_enc w z : spec_le w z = le_enc w z.
Proof.
  unfold spec_le, spec_byte. rewrite le_enc_digits, wpow_pow256. apply le_enc_mod.
Qed.

Lemma spec_le_val_from_le_dec i bs : spec_le_val_from i bs = 256 ^ Z.of_nat i * le_dec bs.
Proof.
  revert i. induction bs as [|b r IH]; intros i; cbn [spec_le_val_from le_dec]; [now rewrite Z.mul_0_r|].
  rewrite IH, Nat2Z.inj_succ, Z.pow_succ_r by lia. ring.
Qed.

Lemma spec_le_val_le_dec bs : spec_le_val bs = le_dec bs.
Proof. unfold spec_le_val. rewrite spec_le_val_from_le_dec. change (Z.of_nat 0) with 0. now rewrite Z.pow_0_r, Z.mul_1_l. Qed.

Lemma half_pow w : (0 < w)%nat -> 2 ^ (8 * Z.of_nat w - 1) = pow256 w / 2.
Proof.
  intros Hw.
  assert (H : wpow w = 2 * 2 ^ (8 * Z.of_nat w - 1)).
  { unfold wpow. rewrite <- Z.pow_succ_r by lia. f_equal. lia. }
  rewrite <- wpow_pow256, H. rewrite (Z.mul_comm 2), Z.div_mul by lia. reflexivity.
Qed.

Lemma spec_int_range_model sg w z : (0 < w)%nat -> spec_int_range sg w z = int_in_range sg w z.
Proof.
  intros Hw. unfold spec_int_range, int_in_range, in_srange, in_urange.
  rewrite half_pow by exact Hw. rewrite wpow_pow256. reflexivity.
Qed.

Lemma spec_int_val_model sg w bs :
  (0 < w)%nat -> spec_int_val sg w bs = if sg then to_signed w (le_dec bs) else le_dec bs.
Proof.
  intros Hw. unfold spec_int_val, to_signed. rewrite spec_le_val_le_dec, half_pow, wpow_pow256 by exact Hw.
  destruct sg; cbn [andb]; [|reflexivity].
  destruct (pow256 w / 2 <=? le_dec bs) eqn:E1, (le_dec bs <? pow256 w / 2) eqn:E2; try reflexivity; lia.
Qed.

Lemma spec_int_model sg w z bs :
  (0 < w)%nat -> spec_int w sg z = Some bs -> int_in_range sg w z = true /\ bs = le_enc w z.
Proof.
  intros Hw. unfold spec_int. rewrite spec_int_range_model by exact Hw.
  destruct (int_in_range sg w z); [|discriminate]. intros H. injection H as <-. split; [reflexivity|apply spec_le_le_enc].
Qed.

(* ------------------------------------------------------------------ lists *)
Lemma zeros_repeat n : zeros n = repeat 0 n.
Proof. induction n; cbn; congruence. Qed.

Lemma blen_zlen {A} (l : list A) : blen l = zlen l.
Proof. reflexivity. Qed.

(* ------------------------------------------------------------------ keys and dicts *)
Lemma stext_eqb_model a b : stext_eqb a b = text_eqb a b.
Proof. revert b. induction a as [|c a IH]; intros [|d b]; cbn [stext_eqb text_eqb]; try reflexivity; now rewrite IH. Qed.

Lemma skey_eqb_model a b : skey_eqb a b = keyb a b.
Proof. destruct a, b; cbn [skey_eqb keyb]; try reflexivity; apply stext_eqb_model. Qed.

Lemma slookup_model d k :
  dict_get d k = match slookup d k with Some v => Ok v | None => Err (Foreign KeyError) end.
Proof.
  induction d as [|[k' v] d IH]; cbn [dict_get slookup]; [reflexivity|].
  change (skey_eqb k' k) with (keyb k' k). destruct (keyb k' k); [reflexivity|exact IH].
Qed.

Lemma skey_in_model k priv : skey_in k priv = key_in k priv.
Proof.
  destruct k as [s|]; cbn; [|reflexivity]. unfold mem_text.
  induction priv as [|p r IH]; cbn [existsb]; [reflexivity|]. change (stext_eqb s p) with (text_eqb s p). now rewrite IH.
Qed.

Lemma sunnamed_model k : sunnamed k = match k with None => true | Some [] => true | Some _ => false end.
Proof. reflexivity. Qed.

(* ------------------------------------------------------------------ floats: NaN canonicalisation *)
Lemma sp_is_nan64_model b : 0 <= b < 2 ^ 64 -> sp_is_nan64 b = is_nan64 b.
Proof.
  intros Hb. unfold sp_is_nan64, is_nan64, exp64, man64.
  change (2 ^ 63) with 9223372036854775808. change (2 ^ 52) with 4503599627370496. change (2 ^ 11) with 2048.
  change (2 ^ 64) with 18446744073709551616 in Hb.
  lia.
Qed.

Lemma sp_canon64_model b : 0 <= b < 2 ^ 64 -> sp_canon64 b = canon64 b.
Proof. intros Hb. unfold sp_canon64, canon64. now rewrite sp_is_nan64_model. Qed.

Lemma sp_f64_ok_canon b : sp_f64_ok b = true -> 0 <= b < 2 ^ 64 /\ canon64 b = b.
Proof.
  unfold sp_f64_ok. intros H. apply andb_prop in H as [H H3]. apply andb_prop in H as [H1 H2].
  assert (Hb : 0 <= b < 2 ^ 64) by lia. split; [exact Hb|].
  unfold canon64. rewrite <- sp_is_nan64_model by exact Hb.
  destruct (sp_is_nan64 b); [|reflexivity]. cbn in H3. unfold sp_nan64 in H3. unfold nan64. lia.
Qed.

(* ------------------------------------------------------------------ bit strings: encoding *)
Fixpoint bval (bl : list bool) : Z :=
  match bl with [] => 0 | b :: r => (if b then 1 else 0) + 2 * bval r end.

Lemma bools_of_vbools l bl : bools_of l = Some bl -> l = map VBool bl.
Proof.
  revert bl. induction l as [|v l IH]; intros bl; cbn [bools_of].
  - intros H. injection H as <-. reflexivity.
  - destruct v; try discriminate. destruct (bools_of l) as [bl'|]; [|discriminate].
    cbn [option_map]. intros H. injection H as <-. cbn [map]. f_equal. now apply IH.
Qed.

Lemma bools_of_map bl : bools_of (map VBool bl) = Some bl.
Proof. induction bl as [|b r IH]; cbn [map bools_of]; [reflexivity|]. now rewrite IH. Qed.

Lemma bits_value_vbools bl : bits_value (map VBool bl) = bval bl.
Proof. induction bl as [|b r IH]; cbn [map bits_value bval truthy]; [reflexivity|]. now rewrite IH. Qed.

Lemma bval_range bl : 0 <= bval bl < 2 ^ Z.of_nat (length bl).
Proof.
  induction bl as [|b r IH]; [cbn; lia|].
  cbn [bval length]. rewrite Nat2Z.inj_succ, Z.pow_succ_r by lia. destruct b; lia.
Qed.

Lemma spec_bits_byte_skip8 b0 b1 b2 b3 b4 b5 b6 b7 r k :
  spec_bits_byte (b0 :: b1 :: b2 :: b3 :: b4 :: b5 :: b6 :: b7 :: r) (S k) = spec_bits_byte r k.
Proof.
  unfold spec_bits_byte. f_equal. apply map_ext. intros j.
  replace (8 * S k + j)%nat with (8 + (8 * k + j))%nat by lia. reflexivity.
Qed.

Lemma le_enc_bval w bl : length bl = (8 * w)%nat -> le_enc w (bval bl) = spec_bits w bl.
Proof.
  revert bl. induction w as [|w IH]; intros bl Hl.
  - reflexivity.
  - destruct bl as [|b0 [|b1 [|b2 [|b3 [|b4 [|b5 [|b6 [|b7 r]]]]]]]]; cbn [length] in Hl; try lia.
    unfold spec_bits. cbn [seq map le_enc]. f_equal.
    + cbn [bval]. unfold spec_bits_byte. cbn [seq map fold_right nth Nat.mul Nat.add].
      change (2 ^ Z.of_nat 0) with 1. change (2 ^ Z.of_nat 1) with 2. change (2 ^ Z.of_nat 2) with 4.
      change (2 ^ Z.of_nat 3) with 8. change (2 ^ Z.of_nat 4) with 16. change (2 ^ Z.of_nat 5) with 32.
      change (2 ^ Z.of_nat 6) with 64. change (2 ^ Z.of_nat 7) with 128.
      destruct b0, b1, b2, b3, b4, b5, b6, b7; lia.
    + rewrite seq_shift_map.
      rewrite (map_ext _ (spec_bits_byte r)) by (intros k; apply spec_bits_byte_skip8).
      change (map (spec_bits_byte r) (seq 0 w)) with (spec_bits w r).
      rewrite <- (IH r) by lia. f_equal. cbn [bval].
      destruct b0, b1, b2, b3, b4, b5, b6, b7; lia.
Qed.

Lemma spec_bits_byte_app1 a b k : (8 * k + 8 <= length a)%nat -> spec_bits_byte (a ++ b) k = spec_bits_byte a k.
Proof.
  intros H. unfold spec_bits_byte. f_equal. apply map_ext_in. intros j Hj. apply in_seq in Hj.
  rewrite app_nth1 by lia. reflexivity.
Qed.

Lemma spec_bits_byte_app2 a b k w1 : length a = (8 * w1)%nat -> spec_bits_byte (a ++ b) (w1 + k) = spec_bits_byte b k.
Proof.
  intros H. unfold spec_bits_byte. f_equal. apply map_ext. intros j.
  rewrite app_nth2 by lia. replace (8 * (w1 + k) + j - length a)%nat with (8 * k + j)%nat by lia. reflexivity.
Qed.

Lemma seq_add_map a n : seq a n = map (fun k => (a + k)%nat) (seq 0 n).
Proof.
  induction a as [|a IH]; [now rewrite map_id|].
  rewrite <- seq_shift, IH, map_map. reflexivity.
Qed.

Lemma spec_bits_split w1 w2 a b :
  length a = (8 * w1)%nat -> spec_bits (w1 + w2) (a ++ b) = spec_bits w1 a ++ spec_bits w2 b.
Proof.
  intros Ha. unfold spec_bits. rewrite seq_app, map_app. f_equal.
  - apply map_ext_in. intros k Hk. apply in_seq in Hk. apply spec_bits_byte_app1. lia.
  - cbn [Nat.add]. rewrite (seq_add_map w1), map_map. apply map_ext. intros k. now apply spec_bits_byte_app2.
Qed.

(* ------------------------------------------------------------------ bit strings: decoding *)
Lemma value_bits_map n z :
  value_bits n z = map (fun i => VBool (Z.odd (z / 2 ^ Z.of_nat i))) (seq 0 n).
Proof.
  revert z. induction n as [|n IH]; intros z; [reflexivity|].
  cbn [value_bits seq map]. f_equal.
  - cbn. now rewrite Z.div_1_r.
  - rewrite IH, seq_shift_map. apply map_ext. intros i.
    rewrite Nat2Z.inj_succ, Z.pow_succ_r by lia. rewrite Z.div_div by lia. reflexivity.
Qed.

Lemma odd_low_bits b z i : 0 <= b -> 0 <= i < 8 -> Z.odd ((b + 256 * z) / 2 ^ i) = Z.odd (b / 2 ^ i).
Proof.
  intros Hb Hi.
  assert (H256 : 256 = 2 ^ i * (2 * 2 ^ (7 - i))).
  { rewrite <- Z.pow_succ_r by lia. rewrite <- Z.pow_add_r by lia. replace (i + Z.succ (7 - i)) with 8 by lia. reflexivity. }
  rewrite H256. replace (b + 2 ^ i * (2 * 2 ^ (7 - i)) * z) with (b + (2 * 2 ^ (7 - i) * z) * 2 ^ i) by ring.
  rewrite Z.div_add by (apply Z.pow_nonzero; lia).
  replace (b / 2 ^ i + 2 * 2 ^ (7 - i) * z) with (b / 2 ^ i + 2 * (2 ^ (7 - i) * z)) by ring.
  now rewrite Z.odd_add_mul_2.
Qed.

Lemma spec_bits_dec_cons b r :
  spec_bits_dec (b :: r)
  = map (fun i => VBool (Z.odd (b / 2 ^ Z.of_nat i))) (seq 0 8) ++ spec_bits_dec r.
Proof.
  unfold spec_bits_dec. cbn [length]. replace (8 * S (length r))%nat with (8 + 8 * length r)%nat by lia.
  rewrite seq_app, map_app. apply (f_equal2 (@app val)).
  - reflexivity.
  - cbn [Nat.add]. rewrite (seq_add_map 8), map_map. apply map_ext. intros i.
    unfold spec_bit_at.
    replace ((8 + i) / 8)%nat with (S (i / 8)).
    2:{ replace (8 + i)%nat with (i + 1 * 8)%nat by lia. rewrite Nat.div_add by lia. lia. }
    replace ((8 + i) mod 8)%nat with (i mod 8)%nat.
    2:{ replace (8 + i)%nat with (i + 1 * 8)%nat by lia. now rewrite Nat.mod_add by lia. }
    reflexivity.
Qed.

Lemma value_bits_spec d : bytes_ok d = true -> value_bits (8 * length d) (le_dec d) = spec_bits_dec d.
Proof.
  induction d as [|b r IH]; intros Hok; [reflexivity|].
  rewrite bytes_ok_cons in Hok. apply andb_prop in Hok as [Hb Hr]. apply byte_ok_iff in Hb.
  rewrite spec_bits_dec_cons, <- (IH Hr). rewrite !value_bits_map.
  cbn [length le_dec]. replace (8 * S (length r))%nat with (8 + 8 * length r)%nat by lia.
  rewrite seq_app, map_app. apply (f_equal2 (@app val)).
  - apply map_ext_in. intros i Hi. apply in_seq in Hi. f_equal. apply odd_low_bits; lia.
  - cbn [Nat.add]. rewrite (seq_add_map 8), map_map. apply map_ext. intros i. f_equal. f_equal.
    rewrite Nat2Z.inj_add, Z.pow_add_r by lia. change (2 ^ Z.of_nat 8) with 256.
    rewrite <- Z.div_div by lia. f_equal. lia.
Qed.

Lemma spec_bit_at_testbit raw off bit b :
  (bit < 8)%nat -> nth_error raw off = Some b -> spec_bit_at raw (8 * off + bit) = Z.testbit b (Z.of_nat bit).
Proof.
  intros Hb Hn. unfold spec_bit_at.
  replace ((8 * off + bit) / 8)%nat with off.
  2:{ replace (8 * off + bit)%nat with (bit + off * 8)%nat by lia. rewrite Nat.div_add by lia. rewrite Nat.div_small by lia. reflexivity. }
  replace ((8 * off + bit) mod 8)%nat with bit.
  2:{ replace (8 * off + bit)%nat with (bit + off * 8)%nat by lia. rewrite Nat.mod_add by lia. now rewrite Nat.mod_small by lia. }
  rewrite (nth_error_nth raw off 0 Hn).
  rewrite Z.testbit_odd, Z.shiftr_div_pow2 by lia. reflexivity.
Qed.

(* ------------------------------------------------------------------ characters *)
Lemma wpow_1 : wpow 1 = 256. Proof. reflexivity. Qed.
Lemma wpow_2 : wpow 2 = 65536. Proof. reflexivity. Qed.
Lemma wpow_4 : wpow 4 = 4294967296. Proof. reflexivity. Qed.

Lemma char_ok_scalar cw c : char_ok cw c = true -> scalar_ok c = true /\ 0 <= c < wpow cw.
Proof. unfold char_ok, is_surr, scalar_ok, is_surrogate. lia. Qed.

Lemma le_enc_1 c : 0 <= c < 256 -> le_enc 1 c = [c].
Proof. intros H. cbn [le_enc]. f_equal. lia. Qed.

Lemma Some_inj {A} (a b : A) : Some a = Some b -> a = b.
Proof. congruence. Qed.

Lemma char_width_size e cw : char_width e = Some cw -> enc_char_size e = Z.of_nat cw.
Proof. destruct e; cbn; intros H; try discriminate; injection H as <-; reflexivity. Qed.

(* one character on its documented width (a surrogate pair on 2-byte characters) is what str.encode produces *)
Lemma enc_char_spec e cw c bs :
  char_width e = Some cw -> spec_char cw c = Some bs -> enc_char e c = Some bs.
Proof.
  intros He. unfold spec_char. destruct (char_ok cw c) eqn:Hc.
  - intros H. apply Some_inj in H. subst bs. apply char_ok_scalar in Hc as [Hs Hr]. rewrite spec_le_le_enc.
    destruct e; cbn [char_width] in He; try discriminate; injection He as <-; cbn [enc_char].
    + rewrite wpow_1 in Hr. replace ((0 <=? c) && (c <? 256)) with true by lia. now rewrite le_enc_1.
    + rewrite wpow_2 in Hr. rewrite Hs. cbn [negb]. destruct (c <? 65536) eqn:E; [reflexivity|lia].
    + now rewrite Hs.
  - destruct ((cw =? 2)%nat && (65536 <=? c) && (c <=? 1114111)) eqn:Hp; [|discriminate].
    intros H. apply Some_inj in H. subst bs. apply andb_prop in Hp as [Hp H3]. apply andb_prop in Hp as [H1 H2].
    apply Nat.eqb_eq in H1. subst cw. destruct e; cbn [char_width] in He; try discriminate. cbn [enc_char].
    assert (Hs : scalar_ok c = true) by (unfold scalar_ok, is_surrogate; lia). rewrite Hs. cbn [negb].
    destruct (c <? 65536) eqn:E; [lia|]. now rewrite !spec_le_le_enc.
Qed.

Lemma text_encode_spec e cw s bs :
  char_width e = Some cw -> spec_chars cw s = Some bs -> text_encode e s = Ok bs.
Proof.
  intros He. revert bs. induction s as [|c s IH]; intros bs H; cbn [spec_chars] in H.
  - injection H as <-. reflexivity.
  - destruct (spec_char cw c) as [a|] eqn:Ha; [|discriminate]. destruct (spec_chars cw s) as [b|] eqn:Hb; [|discriminate].
    injection H as <-. cbn [text_encode]. rewrite (enc_char_spec e cw c a He Ha), (IH b eq_refl). reflexivity.
Qed.

Lemma spec_char_ok cw c bs : spec_char cw c = Some bs -> bytes_ok bs = true.
Proof.
  unfold spec_char. destruct (char_ok cw c).
  - intros H. apply Some_inj in H. subst bs. rewrite spec_le_le_enc. apply le_enc_ok.
  - destruct ((cw =? 2)%nat && (65536 <=? c) && (c <=? 1114111)); [|discriminate].
    intros H. apply Some_inj in H. subst bs. now rewrite bytes_ok_app, !spec_le_le_enc, !le_enc_ok.
Qed.

Lemma spec_chars_bytes_ok cw s bs : spec_chars cw s = Some bs -> bytes_ok bs = true.
Proof.
  revert bs. induction s as [|c s IH]; intros bs H; cbn [spec_chars] in H.
  - injection H as <-. reflexivity.
  - destruct (spec_char cw c) as [a|] eqn:Ha; [|discriminate]. destruct (spec_chars cw s) as [b|] eqn:Hb; [|discriminate].
    injection H as <-. now rewrite bytes_ok_app, (spec_char_ok _ _ _ Ha), (IH b eq_refl).
Qed.

Lemma spec_chars_1 s bs : spec_chars 1 s = Some bs -> bs = s.
Proof.
  revert bs. induction s as [|c s IH]; intros bs H; cbn [spec_chars] in H.
  - injection H as <-. reflexivity.
  - unfold spec_char in H. destruct (char_ok 1 c) eqn:Hc; [|discriminate H].
    destruct (spec_chars 1 s) as [b|] eqn:Hb; [|discriminate]. apply Some_inj in H. subst bs.
    apply char_ok_scalar in Hc as [_ Hr]. rewrite wpow_1 in Hr.
    rewrite spec_le_le_enc, le_enc_1 by lia. cbn [app]. f_equal. now apply IH.
Qed.

(* ---- decoding: bytes.decode of the three fixed-unit encodings *)
Lemma spec_chars_dec_latin1 d fuel :
  bytes_ok d = true -> (length d <= fuel)%nat -> spec_chars_dec 1 fuel d = Some d.
Proof.
  revert fuel. induction d as [|b r IH]; intros fuel Hok Hf; [destruct fuel; reflexivity|].
  destruct fuel as [|f]; [cbn in Hf; lia|].
  rewrite bytes_ok_cons in Hok. apply andb_prop in Hok as [Hb Hr]. apply byte_ok_iff in Hb.
  cbn [spec_chars_dec length firstn skipn]. cbn [Nat.ltb Nat.leb Nat.eqb andb].
  rewrite spec_le_val_le_dec. cbn [le_dec]. replace (b + 256 * 0) with b by lia.
  assert (Hc : char_ok 1 b = true) by (unfold char_ok, is_surr; rewrite wpow_1; lia).
  rewrite Hc, IH by (try exact Hr; cbn in Hf; lia). reflexivity.
Qed.

Lemma spec_chars_dec_utf16 d fuel :
  bytes_ok d = true -> spec_chars_dec 2 fuel d = utf16_decode fuel d.
Proof.
  revert d. induction fuel as [|f IH]; intros d Hok.
  - destruct d; reflexivity.
  - destruct d as [|l0 [|h0 r0]]; [reflexivity|reflexivity|].
    rewrite !bytes_ok_cons in Hok. apply andb_prop in Hok as [Hl Hok]. apply andb_prop in Hok as [Hh Hr0].
    apply byte_ok_iff in Hl, Hh.
    cbn [spec_chars_dec utf16_decode length firstn skipn]. cbn [Nat.ltb Nat.leb Nat.eqb andb].
    rewrite spec_le_val_le_dec. cbn [le_dec]. replace (l0 + 256 * (h0 + 256 * 0)) with (l0 + 256 * h0) by lia.
    set (u := l0 + 256 * h0).
    destruct ((55296 <=? u) && (u <=? 56319)) eqn:Ehi.
    + destruct r0 as [|l1 [|h1 r1]]; [reflexivity|reflexivity|].
      rewrite !bytes_ok_cons in Hr0. apply andb_prop in Hr0 as [Hl1 Hr0]. apply andb_prop in Hr0 as [Hh1 Hr1].
      cbn [length Nat.ltb Nat.leb firstn skipn]. rewrite spec_le_val_le_dec. cbn [le_dec].
      replace (l1 + 256 * (h1 + 256 * 0)) with (l1 + 256 * h1) by lia.
      destruct ((56320 <=? l1 + 256 * h1) && (l1 + 256 * h1 <=? 57343)); [|reflexivity]. now rewrite IH.
    + destruct ((56320 <=? u) && (u <=? 57343)) eqn:Elo.
      * assert (Hc : char_ok 2 u = false) by (unfold char_ok, is_surr; lia). now rewrite Hc.
      * assert (Hc : char_ok 2 u = true) by (unfold char_ok, is_surr; rewrite wpow_2; unfold u; lia).
        rewrite Hc. now rewrite IH.
Qed.

Lemma spec_chars_dec_utf32 d fuel :
  bytes_ok d = true -> spec_chars_dec 4 fuel d = utf32_decode fuel d.
Proof.
  revert d. induction fuel as [|f IH]; intros d Hok.
  - destruct d; reflexivity.
  - destruct d as [|b0 [|b1 [|b2 [|b3 r]]]]; try reflexivity.
    assert (Hr : bytes_ok r = true) by (rewrite !bytes_ok_cons in Hok; repeat (apply andb_prop in Hok as [_ Hok]); exact Hok).
    assert (Hd : bytes_ok [b0; b1; b2; b3] = true).
    { rewrite !bytes_ok_cons in Hok |- *. repeat (apply andb_prop in Hok as [?H Hok]). now rewrite H, H0, H1, H2. }
    cbn [spec_chars_dec utf32_decode length firstn skipn]. cbn [Nat.ltb Nat.leb Nat.eqb andb].
    rewrite spec_le_val_le_dec. set (c := le_dec [b0; b1; b2; b3]).
    pose proof (le_dec_range _ Hd) as Hc. fold c in Hc. change (pow256 (length [b0; b1; b2; b3])) with 4294967296 in Hc.
    assert (Heq : char_ok 4 c = scalar_ok c) by (unfold char_ok, is_surr, scalar_ok, is_surrogate; rewrite wpow_4; lia).
    rewrite Heq. destruct (scalar_ok c); [|reflexivity]. now rewrite IH.
Qed.

Lemma text_decode_spec e cw d :
  char_width e = Some cw -> bytes_ok d = true ->
  text_decode e d = match spec_chars_dec cw (length d) d with Some s => Ok s | None => Err (Foreign UnicodeError) end.
Proof.
  intros He Hok. destruct e; cbn [char_width] in He; try discriminate; injection He as <-; cbn [text_decode].
  - now rewrite spec_chars_dec_latin1.
  - now rewrite spec_chars_dec_utf16.
  - now rewrite spec_chars_dec_utf32.
Qed.
