(* Proofs/CodecWireEnc.v — C07: the library's encoders produce the reference bytes.
   [encode_is_spec_gen]: for every type the reference defines ([wire_ty]) and every value the
   reference encodes, outside the deviation classes of Proofs/CodecWireDefs.v ([enc_dev] = 0), the
   model's [encode] returns exactly [spec_encode]'s bytes.  Induction on [ty]; leaves by the
   arithmetic lemmas of CodecWireBase.v; StructTag by the pointwise reading of the splice folds
   ([structtag_layout]). *)
From PV Require Import Base.Bytes Base.BytesLemmas Base.Res Gen.Types Gen.CodecFacts Model.Codec.
From PV Require Import Spec.WireFloat Spec.Wire Proofs.CodecWireDefs Proofs.CodecWireBase.
From Coq Require Import ZifyBool.
Open Scope Z_scope.
Ltac Zify.zify_post_hook ::= Z.to_euclidean_division_equations.

(* ------------------------------------------------------------------ induction on type terms *)
Section TyInd.
  Variable P : ty -> Prop.
  Hypothesis HBool : P TBool.
  Hypothesis HInt : forall sg w, P (TInt sg w).
  Hypothesis HReal : forall dbl, P (TReal dbl).
  Hypothesis HDateTime : P TDateTime.
  Hypothesis HStr : forall lsg lw enc, P (TStr lsg lw enc).
  Hypothesis HStringN : P TStringN.
  Hypothesis HStringI : P TStringI.
  Hypothesis HNBytes : forall n, P (TNBytes n).
  Hypothesis HBits : forall w, P (TBits w).
  Hypothesis HArrFixed : forall n e, P e -> P (TArrFixed n e).
  Hypothesis HArrPrefix : forall inst lt e, P lt -> P e -> P (TArrPrefix inst lt e).
  Hypothesis HArrAll : forall e, P e -> P (TArrAll e).
  Hypothesis HStruct : forall k ms, Forall (fun m => P (snd m)) ms -> P (TStruct k ms).
  Hypothesis HFixedStr : forall size lsg lw cap, P (TFixedStr size lsg lw cap).
  Hypothesis HStructTag : forall ms bits priv size, Forall (fun m => P (snd m)) ms -> P (TStructTag ms bits priv size).
  Hypothesis HIPAddr : P TIPAddr.
  Hypothesis HPcccAscii : P TPcccAscii.
  Hypothesis HPcccString : P TPcccString.

  Fixpoint wire_ty_ind (t : ty) : P t :=
    match t with
    | TBool => HBool
    | TInt sg w => HInt sg w
    | TReal dbl => HReal dbl
    | TDateTime => HDateTime
    | TStr a b c => HStr a b c
    | TStringN => HStringN
    | TStringI => HStringI
    | TNBytes n => HNBytes n
    | TBits w => HBits w
    | TArrFixed n e => HArrFixed n e (wire_ty_ind e)
    | TArrPrefix i lt e => HArrPrefix i lt e (wire_ty_ind lt) (wire_ty_ind e)
    | TArrAll e => HArrAll e (wire_ty_ind e)
    | TStruct k ms =>
        HStruct k ms ((fix go (l : list (key * ty)) : Forall (fun m => P (snd m)) l :=
                         match l with
                         | [] => Forall_nil _
                         | m :: r => Forall_cons m (wire_ty_ind (snd m)) (go r)
                         end) ms)
    | TFixedStr a b c d => HFixedStr a b c d
    | TStructTag ms bits priv size =>
        HStructTag ms bits priv size
          ((fix go (l : list ((key * nat) * ty)) : Forall (fun m => P (snd m)) l :=
              match l with
              | [] => Forall_nil _
              | m :: r => Forall_cons m (wire_ty_ind (snd m)) (go r)
              end) ms)
    | TIPAddr => HIPAddr
    | TPcccAscii => HPcccAscii
    | TPcccString => HPcccString
    end.
End TyInd.

(* ------------------------------------------------------------------ small facts *)
Lemma first_nz_zero a b : first_nz a b = 0 <-> a = 0 /\ b = 0.
Proof. unfold first_nz. destruct (a =? 0) eqn:E; lia. Qed.

Lemma first_dev_zero {A} (f : A -> Z) l : first_dev f l = 0 <-> Forall (fun x => f x = 0) l.
Proof.
  induction l as [|x r IH]; cbn [first_dev]; [split; [constructor|reflexivity]|].
  rewrite first_nz_zero, IH. split.
  - intros [H1 H2]. now constructor.
  - intros H. inversion H; subst. now split.
Qed.

Lemma pub_encode_ok f v bs : f v = Ok bs -> pub_encode f v = Ok bs.
Proof. unfold pub_encode. now intros ->. Qed.

Lemma int_row_UINT : int_row n_UINT = Some (false, 2%nat). Proof. reflexivity. Qed.
Lemma int_row_UDINT : int_row n_UDINT = Some (false, 4%nat). Proof. reflexivity. Qed.
Lemma fss_enc_latin1 : fss_enc = Some Latin1. Proof. reflexivity. Qed.
Lemma stringn_enc_1 : stringn_enc 1 = Some Latin1. Proof. reflexivity. Qed.

Lemma int_encode_ok sg w z :
  int_in_range sg w z = true -> int_encode sg w (VInt z) = Ok (le_enc w z).
Proof. intros H. unfold int_encode, pub_encode, pack_int. now rewrite H. Qed.

Lemma spec_int_encode sg w z bs :
  (0 < w)%nat -> spec_int w sg z = Some bs -> int_encode sg w (VInt z) = Ok bs.
Proof. intros Hw H. apply spec_int_model in H as [Hr ->]; [|exact Hw]. now apply int_encode_ok. Qed.

Lemma spec_int_length sg w z bs : spec_int w sg z = Some bs -> length bs = w.
Proof.
  unfold spec_int. destruct (spec_int_range sg w z); [|discriminate]. intros H. injection H as <-.
  rewrite spec_le_le_enc. apply le_enc_length.
Qed.

Lemma spec_le_ok w z : bytes_ok (spec_le w z) = true.
Proof. rewrite spec_le_le_enc. apply le_enc_ok. Qed.

Lemma spec_int_ok sg w z bs : spec_int w sg z = Some bs -> bytes_ok bs = true.
Proof.
  unfold spec_int. destruct (spec_int_range sg w z); [|discriminate]. intros H. injection H as <-. apply spec_le_ok.
Qed.

Lemma spec_chars_ok cw s bs : spec_chars cw s = Some bs -> bytes_ok bs = true.
Proof. apply spec_chars_bytes_ok. Qed.

Lemma repeat0_ok n : bytes_ok (repeat 0 n) = true.
Proof. induction n; cbn; auto. Qed.

(* what ENC says of a type: on the reference's domain, outside the deviation classes, the library
   returns the reference bytes (also as a member of a join), which are bytes, of the type's width *)
Definition ENC (t : ty) : Prop :=
  wire_ty t = true -> forall v bs, spec_encode t v = Some bs -> enc_dev t v = 0 ->
  encode t v = Ok bs /\ as_member t (encode t) v = Ok bs /\ bytes_ok bs = true
  /\ (forall w, sfixed t = Some w -> length bs = w).

Lemma as_member_plain t v : as_member t (encode t) v = encode t v.
Proof. reflexivity. Qed.

Ltac enc_split := split; [|split; [|split]].

(* ------------------------------------------------------------------ leaves *)
Lemma enc_TBool : ENC TBool.
Proof.
  intros _ v bs Hs _. cbn [spec_encode] in Hs. unfold spec_bool_enc in Hs. destruct v; try discriminate.
  injection Hs as <-. enc_split.
  - reflexivity.
  - reflexivity.
  - destruct b; reflexivity.
  - cbn [sfixed]. intros w H. injection H as <-. reflexivity.
Qed.

Lemma enc_TInt sg w : ENC (TInt sg w).
Proof.
  intros Hw v bs Hs _. cbn [wire_ty] in Hw. cbn [spec_encode] in Hs. destruct v; try discriminate.
  assert (Hw' : (0 < w)%nat) by lia. enc_split.
  - cbn [encode]. now apply spec_int_encode.
  - cbn [as_member encode]. now apply spec_int_encode.
  - eapply spec_int_ok; eassumption.
  - cbn [sfixed]. intros w' H. injection H as <-. eapply spec_int_length; eassumption.
Qed.

Section WithFloat.
  (* the agreement of the model's integer rounding with Flocq's, proved in Proofs/CodecWireFloat.v *)
  Hypothesis round32_spec : forall b, sp_f64_ok b = true -> round32 b = spec_real32_of_64 b.

  Lemma enc_TReal dbl : ENC (TReal dbl).
  Proof.
    intros _ v bs Hs _. cbn [spec_encode] in Hs. unfold spec_real_enc in Hs. destruct v; try discriminate.
    destruct (sp_f64_ok bits) eqn:Hok; [|discriminate].
    pose proof (sp_f64_ok_canon bits Hok) as [Hr Hc].
    assert (He : encode (TReal dbl) (VFloat bits) = Ok bs).
    { cbn [encode]. unfold real_encode. apply pub_encode_ok. unfold pack_real. cbn [as_float bind].
      destruct dbl.
      - injection Hs as <-. now rewrite Hc, spec_le_le_enc.
      - rewrite (round32_spec bits Hok). destruct (spec_real32_of_64 bits) as [s|]; [|discriminate].
        injection Hs as <-. now rewrite spec_le_le_enc. }
    enc_split; [exact He|exact He| |].
    - destruct dbl; [injection Hs as <-; apply spec_le_ok|].
      destruct (spec_real32_of_64 bits); [|discriminate]. injection Hs as <-. apply spec_le_ok.
    - cbn [sfixed]. intros w H. injection H as <-.
      destruct dbl; [injection Hs as <-; now rewrite spec_le_le_enc, le_enc_length|].
      destruct (spec_real32_of_64 bits); [|discriminate]. injection Hs as <-. now rewrite spec_le_le_enc, le_enc_length.
  Qed.
End WithFloat.

Lemma int_row_UDINT' : int_row n_UDINT = Some (false, 4%nat). Proof. reflexivity. Qed.
Lemma enc_TDateTime : ENC TDateTime.
Proof.
  intros _ v bs Hs _. cbn [spec_encode] in Hs.
  destruct v as [| | | | | |l|l| |]; try discriminate. destruct l as [|[| |a| | | | | | |] [|[| |b| | | | | | |] [|? ?]]]; try discriminate.
  unfold spec_datetime_enc in Hs.
  destruct (spec_int 4 false a) as [pa|] eqn:Ha; [|discriminate].
  destruct (spec_int 2 false b) as [pb|] eqn:Hb; [|discriminate]. apply Some_inj in Hs. subst bs.
  assert (He : encode TDateTime (VTuple [VInt a; VInt b]) = Ok (pa ++ pb)).
  { cbn [encode]. unfold datetime_encode, datetime_encode2. cbn [py_iter bind fst snd].
    unfold named_int_encode. rewrite int_row_UDINT', int_row_UINT.
    rewrite (spec_int_encode false 4 a pa ltac:(lia) Ha). cbn [bind].
    rewrite (spec_int_encode false 2 b pb ltac:(lia) Hb). reflexivity. }
  enc_split; [exact He|exact He| |].
  - now rewrite bytes_ok_app, (spec_int_ok _ _ _ _ Ha), (spec_int_ok _ _ _ _ Hb).
  - cbn [sfixed]. intros w H. injection H as <-. rewrite app_length, (spec_int_length _ _ _ _ Ha), (spec_int_length _ _ _ _ Hb). reflexivity.
Qed.

Lemma enc_TStr lsg lw e : ENC (TStr lsg lw e).
Proof.
  intros Hw v bs Hs _. cbn [wire_ty] in Hw. cbn [spec_encode] in Hs.
  destruct (char_width e) as [cw|] eqn:Hcw; [|lia]. destruct lsg; [cbn in Hw; lia|].
  unfold spec_str_enc in Hs. destruct v; try discriminate.
  destruct (spec_chars cw s) as [d|] eqn:Hd; [|discriminate].
  destruct (spec_int lw false (blen d / Z.of_nat cw)) as [p|] eqn:Hp; [|discriminate]. apply Some_inj in Hs. subst bs.
  assert (Hlw : (0 < lw)%nat) by lia.
  assert (He : encode (TStr false lw e) (VStr s) = Ok (p ++ d)).
  { cbn [encode]. unfold str_encode. apply pub_encode_ok.
    rewrite (text_encode_spec _ _ _ _ Hcw Hd). cbn [bind]. rewrite (char_width_size _ _ Hcw).
    change (zlen d) with (blen d). rewrite (spec_int_encode _ _ _ _ Hlw Hp). reflexivity. }
  enc_split; [exact He|exact He| |].
  - rewrite bytes_ok_app. now rewrite (spec_int_ok _ _ _ _ Hp), (spec_chars_ok _ _ _ Hd).
  - cbn [sfixed]. discriminate.
Qed.

Lemma named_int_encode_UINT z bs :
  spec_int 2 false z = Some bs -> named_int_encode n_UINT (VInt z) = Ok bs.
Proof. intros H. unfold named_int_encode. rewrite int_row_UINT. apply spec_int_encode; [lia|exact H]. Qed.

Lemma enc_TStringN : ENC TStringN.
Proof.
  intros _ v bs Hs _. cbn [spec_encode] in Hs. unfold spec_stringn_enc in Hs. destruct v; try discriminate.
  destruct (spec_chars 1 s) as [d|] eqn:Hc; [|discriminate].
  destruct (spec_int 2 false (blen d)) as [p|] eqn:Hp; [|discriminate]. apply Some_inj in Hs. subst bs.
  assert (He : encode TStringN (VStr s) = Ok (spec_le 2 1 ++ p ++ d)).
  { cbn [encode]. unfold stringn_encode, stringn_encode_cs. cbn [as_int]. rewrite stringn_enc_1.
    assert (Hcw : char_width Latin1 = Some 1%nat) by reflexivity.
    rewrite (text_encode_spec _ _ _ _ Hcw Hc). cbn [bind].
    assert (H1 : spec_int 2 false 1 = Some (spec_le 2 1)) by reflexivity.
    rewrite (named_int_encode_UINT _ _ H1). cbn [bind]. rewrite Z.div_1_r. change (zlen d) with (blen d).
    rewrite (named_int_encode_UINT _ _ Hp). reflexivity. }
  enc_split; [exact He|exact He| |].
  - assert (Hb : bytes_ok (spec_le 2 1 ++ p ++ d) = true).
    { rewrite !bytes_ok_app, spec_le_ok, (spec_int_ok _ _ _ _ Hp), (spec_chars_ok _ _ _ Hc). reflexivity. }
    exact Hb.
  - cbn [sfixed]. discriminate.
Qed.

Lemma ztake_self {A} (l : list A) : ztake (zlen l) l = l.
Proof. unfold ztake. rewrite Z.min_id. unfold zlen. rewrite Nat2Z.id. apply firstn_all. Qed.

Lemma enc_TNBytes n : ENC (TNBytes n).
Proof.
  intros Hw v bs Hs _. cbn [wire_ty] in Hw. cbn [spec_encode] in Hs. unfold spec_nbytes_enc in Hs.
  destruct v; try discriminate.
  destruct (bytes_ok b && ((n =? -1) || (blen b =? n))) eqn:Hc; [|discriminate]. injection Hs as <-.
  apply andb_prop in Hc as [Hok Hn].
  assert (He : encode (TNBytes n) (VBytes b) = Ok b).
  { cbn [encode]. unfold nbytes_encode. apply pub_encode_ok.
    destruct (n =? -1) eqn:E1; [reflexivity|]. cbn [orb] in Hn.
    unfold slice_to. assert (n = zlen b) by (unfold blen, zlen in *; lia). subst n.
    destruct (0 <=? zlen b) eqn:E2; [|unfold zlen in E2; lia]. now rewrite ztake_self. }
  enc_split; [exact He|exact He|exact Hok|].
  cbn [sfixed]. intros w H. destruct (0 <? n) eqn:E; [|discriminate]. injection H as <-.
  destruct (n =? -1) eqn:E1; [lia|]. cbn [orb] in Hn. unfold blen in Hn. lia.
Qed.

Lemma bits_encode_vbools w bl :
  length bl = (8 * w)%nat -> bits_encode w (VList (map VBool bl)) = Ok (spec_bits w bl).
Proof.
  intros Hl. unfold bits_encode. apply pub_encode_ok. cbn [py_len bind].
  unfold zlen. rewrite map_length, Hl.
  replace (Z.of_nat (8 * w) =? 8 * Z.of_nat w) with true by lia. cbn [negb py_iter bind pack_int].
  rewrite bits_value_vbools.
  assert (Hr : int_in_range false w (bval bl) = true).
  { cbn [int_in_range]. unfold in_urange. pose proof (bval_range bl) as H. rewrite Hl in H.
    rewrite <- wpow_pow256. unfold wpow. replace (8 * Z.of_nat w) with (Z.of_nat (8 * w)) by lia. lia. }
  rewrite Hr. now rewrite le_enc_bval.
Qed.

Lemma spec_bits_ok w bl : length bl = (8 * w)%nat -> bytes_ok (spec_bits w bl) = true.
Proof. intros Hl. rewrite <- le_enc_bval by exact Hl. apply le_enc_ok. Qed.

Lemma spec_bits_length w bl : length (spec_bits w bl) = w.
Proof. unfold spec_bits. now rewrite map_length, seq_length. Qed.

Lemma enc_TBits w : ENC (TBits w).
Proof.
  intros _ v bs Hs _. cbn [spec_encode] in Hs. unfold spec_bits_enc in Hs. destruct v; try discriminate.
  destruct (bools_of l) as [bl|] eqn:Hb; [|discriminate].
  destruct (length bl =? 8 * w)%nat eqn:Hl; [|discriminate]. injection Hs as <-.
  apply bools_of_vbools in Hb. subst l. apply Nat.eqb_eq in Hl.
  enc_split.
  - cbn [encode]. now apply bits_encode_vbools.
  - cbn [as_member encode]. now apply bits_encode_vbools.
  - now apply spec_bits_ok.
  - cbn [sfixed]. intros w' H. injection H as <-. apply spec_bits_length.
Qed.

Lemma enc_TFixedStr size lsg lw cap : ENC (TFixedStr size lsg lw cap).
Proof.
  intros Hw v bs Hs _. cbn [wire_ty] in Hw. cbn [spec_encode] in Hs. destruct lsg; [cbn in Hw; lia|].
  unfold spec_fixedstr_enc in Hs. destruct v; try discriminate.
  destruct (spec_int lw false (blen (firstn cap s))) as [p|] eqn:Hp; [|discriminate].
  destruct (spec_chars 1 (firstn cap s)) as [d|] eqn:Hc; [|discriminate].
  destruct (length (firstn cap s) <=? size)%nat eqn:Hsz; [|discriminate]. injection Hs as <-.
  assert (Hlw : (0 < lw)%nat) by lia.
  pose proof (spec_chars_1 _ _ Hc) as Hd. 
  assert (He : encode (TFixedStr size false lw cap) (VStr s) = Ok (p ++ d ++ repeat 0 (size - length (firstn cap s)))).
  { cbn [encode]. unfold fixedstr_encode. apply pub_encode_ok. rewrite fss_enc_latin1.
    cbn [py_slice bind]. unfold slice. rewrite Nat.sub_0_r. cbn [skipn py_len bind].
    change (zlen (firstn cap s)) with (blen (firstn cap s)). rewrite (spec_int_encode _ _ _ _ Hlw Hp). cbn [bind].
    assert (Hcw : char_width Latin1 = Some 1%nat) by reflexivity.
    rewrite (text_encode_spec _ _ _ _ Hcw Hc). cbn [bind]. now rewrite zeros_repeat. }
  enc_split; [exact He|exact He| |].
  - rewrite !bytes_ok_app, (spec_int_ok _ _ _ _ Hp), (spec_chars_ok _ _ _ Hc), repeat0_ok. reflexivity.
  - cbn [sfixed]. intros w H. injection H as <-. rewrite !app_length, (spec_int_length _ _ _ _ Hp), repeat_length.
    subst d. apply Nat.leb_le in Hsz. lia.
Qed.

(* ------------------------------------------------------------------ arrays *)
Lemma skipn_nth_error {A} (l : list A) i x : nth_error l i = Some x -> skipn i l = x :: skipn (S i) l.
Proof.
  revert i. induction l as [|a l IH]; intros [|i]; cbn; try discriminate.
  - intros H. injection H as <-. reflexivity.
  - intros H. now apply IH.
Qed.

(* what an element encoder must satisfy: [fw] is the element type's constant width, if any *)
Definition elem_ok (enc : val -> res bytes) (senc : val -> option bytes) (dev : val -> Z) (fw : option nat) (x : val) : Prop :=
  forall b, senc x = Some b -> dev x = 0 ->
  enc x = Ok b /\ bytes_ok b = true /\ (forall w, fw = Some w -> length b = w).

Lemma encode_items_spec enc senc dev fw l :
  Forall (elem_ok enc senc dev fw) l ->
  forall n i bs, (i + n <= length l)%nat ->
  spec_enc_list senc (firstn n (skipn i l)) = Some bs ->
  first_dev dev (firstn n (skipn i l)) = 0 ->
  encode_items enc (VList l) i n = Ok bs /\ bytes_ok bs = true /\ (forall w, fw = Some w -> length bs = (n * w)%nat).
Proof.
  intros Hall. induction n as [|n IH]; intros i bs Hle Hs Hd.
  - cbn [firstn spec_enc_list] in Hs. injection Hs as <-. split; [reflexivity|split; [reflexivity|intros w _; reflexivity]].
  - destruct (nth_error l i) as [x|] eqn:Hn; [|apply nth_error_None in Hn; lia].
    rewrite (skipn_nth_error _ _ _ Hn) in Hs, Hd. cbn [firstn spec_enc_list first_dev] in Hs, Hd.
    destruct (senc x) as [a|] eqn:Ha; [|discriminate].
    destruct (spec_enc_list senc (firstn n (skipn (S i) l))) as [b|] eqn:Hb; [|discriminate].
    injection Hs as <-. apply first_nz_zero in Hd as [Hd1 Hd2].
    pose proof (proj1 (Forall_forall _ _) Hall x (nth_error_In _ _ Hn) a Ha Hd1) as (He & Hok & Hlen).
    destruct (IH (S i) b ltac:(lia) Hb Hd2) as (He' & Hok' & Hlen').
    cbn [encode_items py_index]. rewrite Hn. cbn [bind]. rewrite He. cbn [bind]. rewrite He'. cbn [bind].
    split; [reflexivity|split].
    + now rewrite bytes_ok_app, Hok, Hok'.
    + intros w Hw. rewrite app_length, (Hlen w Hw), (Hlen' w Hw). lia.
Qed.

Lemma spec_encode_arr_plain n e :
  is_bitstr e = false ->
  spec_encode (TArrFixed n e)
  = fun v => match v with
             | VList l => if (n <=? length l)%nat then spec_enc_list (spec_encode e) (firstn n l) else None
             | _ => None
             end.
Proof. destruct e; try reflexivity; discriminate. Qed.

Lemma spec_encode_all_plain e :
  is_bitstr e = false ->
  spec_encode (TArrAll e) = fun v => match v with VList l => spec_enc_list (spec_encode e) l | _ => None end.
Proof. destruct e; try reflexivity; discriminate. Qed.

Lemma enc_dev_arr_plain n e v :
  is_bitstr e = false ->
  enc_dev (TArrFixed n e) v = match v with VList l => first_dev (enc_dev e) (firstn n l) | _ => 0 end.
Proof. destruct e; try reflexivity; discriminate. Qed.

Lemma enc_dev_all_plain e v :
  is_bitstr e = false ->
  enc_dev (TArrAll e) v = match v with VList l => first_dev (enc_dev e) l | _ => 0 end.
Proof. destruct e; try reflexivity; discriminate. Qed.

Lemma bits_width_plain e : is_bitstr e = false -> bits_width e = None.
Proof. destruct e; try reflexivity; discriminate. Qed.


Lemma elem_ok_of_ENC e l :
  ENC e -> wire_ty e = true ->
  Forall (elem_ok (as_member e (encode e)) (spec_encode e) (enc_dev e) (sfixed e)) l.
Proof.
  intros He Hw. apply Forall_forall. intros x _ b Hs Hd.
  destruct (He Hw x b Hs Hd) as (_ & H2 & H3 & H4). auto.
Qed.

Lemma enc_TArrFixed_plain n e :
  is_bitstr e = false -> ENC e -> ENC (TArrFixed n e).
Proof.
  intros Hnb He Hw v bs Hs Hd. cbn [wire_ty] in Hw. apply andb_prop in Hw as [Hwe _].
  rewrite spec_encode_arr_plain in Hs by exact Hnb. rewrite enc_dev_arr_plain in Hd by assumption.
  destruct v; try discriminate. destruct (n <=? length l)%nat eqn:Hn; [|discriminate]. apply Nat.leb_le in Hn.
  destruct (encode_items_spec _ _ _ _ l (elem_ok_of_ENC e l He Hwe) n 0%nat bs ltac:(lia) Hs Hd) as (H1 & H2 & H3).
  assert (Henc : encode (TArrFixed n e) (VList l) = Ok bs).
  { cbn [encode]. unfold array_encode. cbn [py_len bind].
    destruct (zlen l <? Z.of_nat n) eqn:E; [unfold zlen in E; lia|]. cbn [bind].
    rewrite (bits_width_plain e Hnb). now rewrite H1. }
  enc_split; [exact Henc|exact Henc|exact H2|].
  cbn [sfixed]. intros w Hw. destruct (sfixed e) as [we|] eqn:Hf; [|discriminate]. injection Hw as <-. now apply H3.
Qed.

Lemma enc_TArrAll_plain e :
  is_bitstr e = false -> ENC e -> ENC (TArrAll e).
Proof.
  intros Hnb He Hw v bs Hs Hd. cbn [wire_ty] in Hw. apply andb_prop in Hw as [Hw _]. apply andb_prop in Hw as [Hwe _].
  rewrite spec_encode_all_plain in Hs by exact Hnb. rewrite enc_dev_all_plain in Hd by assumption.
  destruct v; try discriminate.
  rewrite <- (firstn_all l) in Hs, Hd.
  destruct (encode_items_spec _ _ _ _ l (elem_ok_of_ENC e l He Hwe) (length l) 0%nat bs ltac:(lia) Hs Hd) as (H1 & H2 & H3).
  assert (Henc : encode (TArrAll e) (VList l) = Ok bs).
  { cbn [encode]. unfold array_encode. cbn [py_len bind].
    rewrite (bits_width_plain e Hnb). unfold zlen. rewrite Nat2Z.id. now rewrite H1. }
  enc_split; [exact Henc|exact Henc|exact H2|].
  cbn [sfixed]. discriminate.
Qed.

(* ---- arrays of bit strings: the flat bit list is cut into elements *)
Fixpoint chunks_of {A} (m c : nat) (l : list A) : list (list A) :=
  match m with O => [] | S m' => firstn c l :: chunks_of m' c (skipn c l) end.

Lemma skipn_add {A} a b (l : list A) : skipn a (skipn b l) = skipn (b + a) l.
Proof.
  revert l. induction b as [|b IH]; intros l; [reflexivity|].
  destruct l as [|x l]; [now rewrite !skipn_nil|]. cbn [skipn Nat.add]. apply IH.
Qed.

Lemma chunk_vals_spec c l :
  (0 < c)%nat -> forall m i fuel, length l = (i + m * c)%nat -> (m < fuel)%nat ->
  chunk_vals fuel c (VList l) i (length l) = Ok (map VList (chunks_of m c (skipn i l))).
Proof.
  intros Hc. induction m as [|m IH]; intros i fuel Hl Hf; (destruct fuel as [|fuel]; [lia|]); cbn [chunk_vals].
  - replace (length l <=? i)%nat with true by (symmetry; apply Nat.leb_le; lia). reflexivity.
  - replace (length l <=? i)%nat with false by (symmetry; apply Nat.leb_gt; lia).
    cbn [py_slice bind]. replace (i + c - i)%nat with c by lia.
    rewrite (IH (i + c)%nat fuel) by lia. cbn [bind chunks_of map].
    rewrite skipn_add. reflexivity.
Qed.

Lemma encode_chunks w :
  (0 < w)%nat -> forall m bl pre, length bl = (m * (8 * w))%nat ->
  encode_items (as_member (TBits w) (encode (TBits w)))
               (VList (pre ++ map VList (chunks_of m (8 * w) (map VBool bl)))) (length pre) m
  = Ok (spec_bits (m * w) bl).
Proof.
  intros Hw.
  assert (Henc : forall a, length a = (8 * w)%nat ->
                 as_member (TBits w) (encode (TBits w)) (VList (map VBool a)) = Ok (spec_bits w a)).
  { intros a Ha. cbn [as_member encode]. now apply bits_encode_vbools. }
  set (enc := as_member (TBits w) (encode (TBits w))) in *.
  induction m as [|m IH]; intros bl pre Hl.
  - reflexivity.
  - cbn [chunks_of map encode_items py_index].
    rewrite nth_error_app2, Nat.sub_diag by lia. cbn [nth_error bind].
    rewrite firstn_map. rewrite Henc by (rewrite firstn_length_le; lia). cbn [bind].
    specialize (IH (skipn (8 * w) bl) (pre ++ [VList (map VBool (firstn (8 * w) bl))])).
    rewrite app_length in IH. cbn [length] in IH. rewrite Nat.add_1_r in IH.
    rewrite <- app_assoc in IH. cbn [app] in IH. rewrite skipn_map.
    rewrite IH by (rewrite skipn_length; lia). cbn [bind].
    rewrite <- spec_bits_split by (rewrite firstn_length_le; lia).
    now rewrite firstn_skipn.
Qed.

Lemma match_pos {A} (c : nat) (a b : A) : (0 < c)%nat -> match c with O => a | S _ => b end = b.
Proof. destruct c; [lia|reflexivity]. Qed.

Lemma array_encode_bits fixed w bl m :
  (0 < w)%nat -> length bl = (m * (8 * w))%nat ->
  match fixed with Some n => (n <= length bl)%nat | None => True end ->
  array_encode fixed (Some w) (as_member (TBits w) (encode (TBits w))) (VList (map VBool bl))
  = Ok (spec_bits (m * w) bl).
Proof.
  intros Hw Hl Hfix. unfold array_encode. cbn [py_len bind]. unfold zlen. rewrite map_length.
  assert (Hlen0 : exists n0, (match fixed with
                              | Some n => if Z.of_nat (length bl) <? Z.of_nat n then Err DataError else Ok n
                              | None => Ok (Z.to_nat (Z.of_nat (length bl)))
                              end) = Ok n0).
  { destruct fixed as [n|]; [|eexists; reflexivity].
    destruct (Z.of_nat (length bl) <? Z.of_nat n) eqn:E; [lia|]. eexists; reflexivity. }
  destruct Hlen0 as [n0 ->]. cbn [bind].
  rewrite match_pos by lia. rewrite Nat2Z.id.
  replace (Z.to_nat (Z.of_nat (length bl) / Z.of_nat (w * 8))) with m.
  2:{ rewrite Hl. replace (Z.of_nat (m * (8 * w))) with (Z.of_nat m * Z.of_nat (w * 8)) by lia.
      rewrite Z.div_mul by lia. lia. }
  pose proof (chunk_vals_spec (w * 8) (map VBool bl) ltac:(lia) m 0%nat (S (length bl))) as Hc.
  assert (Hm : (m <= length bl)%nat) by (rewrite Hl; nia).
  rewrite map_length in Hc. rewrite Hc by lia. cbn [bind skipn].
  rewrite (Nat.mul_comm w 8). pose proof (encode_chunks w Hw m bl [] Hl) as He. cbn [app length] in He. now rewrite He.
Qed.

Lemma enc_TArrFixed_bits n w : ENC (TArrFixed n (TBits w)).
Proof.
  intros Hw v bs Hs Hd. cbn [wire_ty sgreedy] in Hw. assert (Hw' : (0 < w)%nat) by lia.
  cbn [spec_encode] in Hs. unfold spec_bitarr_enc in Hs. destruct v; try discriminate.
  destruct (bools_of l) as [bl|] eqn:Hb; [|discriminate].
  destruct (n * (8 * w) <=? length bl)%nat eqn:Hn; [|discriminate].
  apply bools_of_vbools in Hb. subst l.
  cbn [enc_dev] in Hd. rewrite map_length in Hd.
  destruct (length bl =? n * (8 * w))%nat eqn:Hl; [|discriminate]. apply Nat.eqb_eq in Hl.
  rewrite <- Hl, firstn_all in Hs. injection Hs as <-.
  assert (Henc : encode (TArrFixed n (TBits w)) (VList (map VBool bl)) = Ok (spec_bits (n * w) bl)).
  { cbn [encode bits_width]. apply array_encode_bits; [exact Hw'|exact Hl|]. rewrite Hl. nia. }
  enc_split; [exact Henc|exact Henc| |].
  - apply spec_bits_ok. lia.
  - cbn [sfixed]. intros w0 H. injection H as <-. apply spec_bits_length.
Qed.

Lemma enc_TArrAll_bits w : ENC (TArrAll (TBits w)).
Proof.
  intros Hw v bs Hs _. cbn [spec_encode] in Hs. unfold spec_bitarr_enc in Hs. destruct v; try discriminate.
  destruct (bools_of l) as [bl|] eqn:Hb; [|discriminate].
  destruct ((0 <? w)%nat && (length bl mod (8 * w) =? 0)%nat) eqn:Hc; [|discriminate].
  apply andb_prop in Hc as [Hw' Hm]. apply Nat.ltb_lt in Hw'. apply Nat.eqb_eq in Hm.
  apply bools_of_vbools in Hb. subst l.
  set (m := (length bl / (8 * w))%nat).
  assert (Hl : length bl = (m * (8 * w))%nat).
  { unfold m. rewrite Nat.mul_comm. apply Nat.div_exact; lia. }
  assert (H8 : (length bl / 8 = m * w)%nat).
  { rewrite Hl. replace (m * (8 * w))%nat with (m * w * 8)%nat by lia. now rewrite Nat.div_mul by lia. }
  rewrite H8 in Hs. injection Hs as <-.
  assert (Henc : encode (TArrAll (TBits w)) (VList (map VBool bl)) = Ok (spec_bits (m * w) bl)).
  { cbn [encode bits_width]. now apply array_encode_bits. }
  enc_split; [exact Henc|exact Henc| |].
  - apply spec_bits_ok. lia.
  - cbn [sfixed]. discriminate.
Qed.

(* ------------------------------------------------------------------ Struct *)
Definition enc_ms (ms : list (key * ty)) := map (fun m : key * ty => (fst m, as_member (snd m) (encode (snd m)))) ms.
Definition senc_ms (ms : list (key * ty)) := map (fun m : key * ty => (fst m, spec_encode (snd m))) ms.

Lemma struct_dict_spec ms d :
  Forall (fun m : key * ty => ENC (snd m)) ms -> forallb (fun m : key * ty => wire_ty (snd m)) ms = true ->
  forall bs, spec_struct_dict (senc_ms ms) d = Some bs ->
  first_dev (fun m : key * ty => match slookup d (fst m) with Some x => enc_dev (snd m) x | None => 0 end) ms = 0 ->
  struct_encode_dict (enc_ms ms) d = Ok bs /\ bytes_ok bs = true
  /\ (forall w, sum_widths (map (fun m : key * ty => sfixed (snd m)) ms) = Some w -> length bs = w).
Proof.
  intros Hall. induction Hall as [|[k t] ms Ht _ IH]; intros Hw bs Hs Hd.
  - cbn in Hs. injection Hs as <-. split; [reflexivity|split; [reflexivity|]]. cbn. intros w H. injection H as <-. reflexivity.
  - cbn [snd] in Ht. cbn [forallb fst snd] in Hw. apply andb_prop in Hw as [Hwt Hwr].
    cbn [senc_ms map spec_struct_dict fst snd] in Hs. cbn [first_dev fst snd] in Hd.
    destruct (slookup d k) as [x|] eqn:Hx; [|discriminate].
    destruct (spec_encode t x) as [a|] eqn:Ha; [|discriminate].
    fold (senc_ms ms) in Hs. destruct (spec_struct_dict (senc_ms ms) d) as [b|] eqn:Hb; [|discriminate].
    injection Hs as <-. apply first_nz_zero in Hd as [Hd1 Hd2].
    destruct (Ht Hwt x a Ha Hd1) as (_ & He & Hok & Hlen).
    destruct (IH Hwr b eq_refl Hd2) as (He' & Hok' & Hlen').
    cbn [enc_ms map struct_encode_dict fst snd]. fold (enc_ms ms).
    rewrite slookup_model, Hx. cbn [bind]. rewrite He. cbn [bind]. rewrite He'. cbn [bind].
    split; [reflexivity|split].
    + now rewrite bytes_ok_app, Hok, Hok'.
    + cbn [map sum_widths snd]. intros w H. destruct (sfixed t) as [wt|] eqn:Hf; [|discriminate].
      destruct (sum_widths (map (fun m : key * ty => sfixed (snd m)) ms)) as [wr|] eqn:Hr; [|discriminate].
      injection H as <-. rewrite app_length, (Hlen wt eq_refl), (Hlen' wr eq_refl). reflexivity.
Qed.

Lemma struct_seq_spec ms :
  Forall (fun m : key * ty => ENC (snd m)) ms -> forallb (fun m : key * ty => wire_ty (snd m)) ms = true ->
  forall l bs, spec_struct_seq (senc_ms ms) l = Some bs ->
  first_dev2 (fun (m : key * ty) x => enc_dev (snd m) x) ms l = 0 ->
  struct_encode_seq (enc_ms ms) l = Ok bs /\ bytes_ok bs = true
  /\ (forall w, sum_widths (map (fun m : key * ty => sfixed (snd m)) ms) = Some w -> length bs = w).
Proof.
  intros Hall. induction Hall as [|[k t] ms Ht _ IH]; intros Hw l bs Hs Hd.
  - destruct l; [|discriminate]. cbn in Hs. injection Hs as <-. split; [reflexivity|split; [reflexivity|]].
    cbn. intros w H. injection H as <-. reflexivity.
  - cbn [snd] in Ht. cbn [forallb fst snd] in Hw. apply andb_prop in Hw as [Hwt Hwr].
    destruct l as [|x l]; [discriminate|].
    cbn [senc_ms map spec_struct_seq fst snd] in Hs. cbn [first_dev2 fst snd] in Hd.
    destruct (spec_encode t x) as [a|] eqn:Ha; [|discriminate].
    fold (senc_ms ms) in Hs. destruct (spec_struct_seq (senc_ms ms) l) as [b|] eqn:Hb; [|discriminate].
    injection Hs as <-. apply first_nz_zero in Hd as [Hd1 Hd2].
    destruct (Ht Hwt x a Ha Hd1) as (_ & He & Hok & Hlen).
    destruct (IH Hwr l b Hb Hd2) as (He' & Hok' & Hlen').
    cbn [enc_ms map struct_encode_seq fst snd]. fold (enc_ms ms).
    rewrite He. cbn [bind]. rewrite He'. cbn [bind].
    split; [reflexivity|split].
    + now rewrite bytes_ok_app, Hok, Hok'.
    + cbn [map sum_widths snd]. intros w H. destruct (sfixed t) as [wt|] eqn:Hf; [|discriminate].
      destruct (sum_widths (map (fun m : key * ty => sfixed (snd m)) ms)) as [wr|] eqn:Hr; [|discriminate].
      injection H as <-. rewrite app_length, (Hlen wt eq_refl), (Hlen' wr eq_refl). reflexivity.
Qed.

Lemma spec_struct_seq_length (sms : list (key * (val -> option bytes))) l bs :
  spec_struct_seq sms l = Some bs -> length l = length sms.
Proof.
  revert l bs. induction sms as [|[k f] sms IH]; intros [|x l] bs H; cbn [spec_struct_seq] in H; try discriminate; [reflexivity|].
  destruct (f x); [|discriminate]. destruct (spec_struct_seq sms l) as [b2|] eqn:Hb; [|discriminate].
  cbn [length]. f_equal. eapply IH; eassumption.
Qed.

Lemma enc_TStruct k ms : Forall (fun m : key * ty => ENC (snd m)) ms -> ENC (TStruct k ms).
Proof.
  intros Hall Hw v bs Hs Hd. destruct k; try discriminate Hw.
  cbn [wire_ty] in Hw. apply andb_prop in Hw as [Hw _]. apply andb_prop in Hw as [Hwm _].
  cbn [spec_encode] in Hs. fold (senc_ms ms) in Hs. cbn [enc_dev] in Hd.
  assert (H : struct_encode_inner (enc_ms ms) v = Ok bs /\ bytes_ok bs = true
              /\ (forall w, sum_widths (map (fun m : key * ty => sfixed (snd m)) ms) = Some w -> length bs = w)).
  { destruct v; try discriminate.
    - cbn [struct_encode_inner py_iter bind]. pose proof (spec_struct_seq_length _ _ _ Hs) as Hl.
      unfold enc_ms, senc_ms in *. rewrite map_length in *. rewrite Hl, Nat.ltb_irrefl.
      fold (enc_ms ms). fold (senc_ms ms) in Hs. now apply struct_seq_spec.
    - cbn [struct_encode_inner]. now apply struct_dict_spec. }
  destruct H as (He & Hok & Hlen).
  assert (Henc : encode (TStruct SPlain ms) v = Ok bs).
  { cbn [encode]. fold (enc_ms ms). unfold struct_encode. now apply pub_encode_ok. }
  enc_split; [exact Henc|exact Henc|exact Hok|exact Hlen].
Qed.

(* ------------------------------------------------------------------ StructTag: the layout *)
Lemma nth_firstn_lt {A} (l : list A) n j d : (j < n)%nat -> nth j (firstn n l) d = nth j l d.
Proof.
  revert n j. induction l as [|x l IH]; intros n j H; [now rewrite firstn_nil|].
  destruct n; [lia|]. destruct j; [reflexivity|]. cbn [firstn nth]. apply IH. lia.
Qed.

Lemma nth_skipn_add {A} (l : list A) n j d : nth j (skipn n l) d = nth (n + j) l d.
Proof.
  revert n. induction l as [|x l IH]; intros n; [rewrite skipn_nil; now destruct j, n|].
  destruct n; [reflexivity|]. cbn [skipn Nat.add nth]. apply IH.
Qed.

Lemma splice_length buf a e : (a + length e <= length buf)%nat -> length (splice buf a e) = length buf.
Proof. intros H. unfold splice. rewrite !app_length, firstn_length_le, skipn_length by lia. lia. Qed.

Lemma splice_nth buf a e j :
  (a + length e <= length buf)%nat ->
  nth j (splice buf a e) 0 = if (a <=? j)%nat && (j <? a + length e)%nat then nth (j - a) e 0 else nth j buf 0.
Proof.
  intros H. unfold splice.
  destruct (a <=? j)%nat eqn:E1; cbn [andb].
  - apply Nat.leb_le in E1. rewrite app_nth2 by (rewrite firstn_length_le; lia). rewrite firstn_length_le by lia.
    destruct (j <? a + length e)%nat eqn:E2.
    + apply Nat.ltb_lt in E2. now rewrite app_nth1 by lia.
    + apply Nat.ltb_ge in E2. rewrite app_nth2 by lia. rewrite nth_skipn_add. f_equal. lia.
  - apply Nat.leb_gt in E1. rewrite app_nth1 by (rewrite firstn_length_le; lia). now apply nth_firstn_lt.
Qed.

Definition put (buf : bytes) (p : nat * bytes) : bytes := splice buf (fst p) (snd p).

Lemma piece_fold ps : forall buf,
  Forall (fun p : nat * bytes => (fst p + length (snd p) <= length buf)%nat) ps ->
  length (fold_left put ps buf) = length buf
  /\ forall j, nth j (fold_left put ps buf) 0
               = fold_left (fun acc (p : nat * bytes) =>
                              let '(off, e) := p in
                              if (off <=? j)%nat && (j <? off + length e)%nat then nth (j - off) e 0 else acc) ps (nth j buf 0).
Proof.
  induction ps as [|[off e] ps IH]; intros buf Hall; [split; reflexivity|].
  inversion Hall as [|? ? H1 H2]; subst. cbn [fst snd] in H1.
  cbn [fold_left]. unfold put at 2 4. cbn [fst snd].
  assert (Hl : length (splice buf off e) = length buf) by now apply splice_length.
  destruct (IH (splice buf off e)) as [IH1 IH2].
  { rewrite Hl. exact H2. }
  split; [now rewrite IH1|]. intros j. rewrite IH2, splice_nth by exact H1. reflexivity.
Qed.

Lemma nth_zeros j n : nth j (zeros n) 0 = 0.
Proof. revert j. induction n as [|n IH]; intros [|j]; cbn; auto. Qed.

Lemma list_by_nth (l : bytes) n : length l = n -> l = map (fun j => nth j l 0) (seq 0 n).
Proof.
  revert n. induction l as [|x l IH]; intros n H; subst n; [reflexivity|].
  cbn [length seq map nth]. f_equal. rewrite seq_shift_map. cbn [nth]. now apply IH.
Qed.

(* ---- the member pieces *)
Definition enc_sms (ms : list ((key * nat) * ty)) := map (fun m : (key * nat) * ty => (fst m, as_member (snd m) (encode (snd m)))) ms.
Definition senc_sms (ms : list ((key * nat) * ty)) := map (fun m : (key * nat) * ty => (fst m, spec_encode (snd m))) ms.
Definition inside (size : nat) (m : (key * nat) * ty) : bool :=
  match sfixed (snd m) with Some w => (snd (fst m) + w <=? size)%nat | None => false end.

Lemma stag_members_spec size ms priv d :
  Forall (fun m : (key * nat) * ty => ENC (snd m)) ms ->
  forallb (fun m : (key * nat) * ty => wire_ty (snd m)) ms = true ->
  forallb (inside size) ms = true ->
  forall ps, stag_pieces (senc_sms ms) priv d = Some ps ->
  first_dev (fun m : (key * nat) * ty =>
               if skey_in (fst (fst m)) priv then 0
               else match slookup d (fst (fst m)) with Some x => enc_dev (snd m) x | None => 0 end) ms = 0 ->
  (forall buf, stag_encode_members (enc_sms ms) priv d buf = Ok (fold_left put ps buf))
  /\ Forall (fun p : nat * bytes => (fst p + length (snd p) <= size)%nat /\ bytes_ok (snd p) = true) ps.
Proof.
  intros Hall. induction Hall as [|[[k off] t] ms Ht _ IH]; intros Hw Hin ps Hs Hd.
  - cbn in Hs. injection Hs as <-. split; [reflexivity|constructor].
  - cbn [snd] in Ht. cbn [forallb fst snd] in Hw, Hin. apply andb_prop in Hw as [Hwt Hwr]. apply andb_prop in Hin as [Hit Hir].
    cbn [senc_sms map stag_pieces fst snd] in Hs. fold (senc_sms ms) in Hs. cbn [first_dev fst snd] in Hd.
    apply first_nz_zero in Hd as [Hd1 Hd2].
    cbn [enc_sms map stag_encode_members fst snd]. fold (enc_sms ms). rewrite <- skey_in_model.
    destruct (skey_in k priv) eqn:Hp.
    + destruct (IH Hwr Hir ps Hs Hd2) as [IH1 IH2]. split; [exact IH1|exact IH2].
    + destruct (slookup d k) as [x|] eqn:Hx; [|discriminate].
      destruct (spec_encode t x) as [e|] eqn:He; [|discriminate].
      destruct (stag_pieces (senc_sms ms) priv d) as [ps'|] eqn:Hps; [|discriminate].
      injection Hs as <-.
      destruct (Ht Hwt x e He Hd1) as (_ & Hm & Hok & Hlen).
      destruct (IH Hwr Hir ps' eq_refl Hd2) as [IH1 IH2].
      split.
      * intros buf. rewrite slookup_model, Hx. cbn [bind]. rewrite Hm. cbn [bind]. rewrite IH1. reflexivity.
      * constructor; [|exact IH2]. cbn [fst snd]. unfold inside in Hit. cbn [fst snd] in Hit.
        destruct (sfixed t) as [w|] eqn:Hf; [|discriminate]. apply Nat.leb_le in Hit.
        rewrite (Hlen w eq_refl). split; [lia|exact Hok].
Qed.

(* ---- the bit members *)
Lemma set_nth_spec buf off f :
  (off < length buf)%nat ->
  exists buf', set_nth buf off f = Some buf' /\ length buf' = length buf
               /\ forall j, nth j buf' 0 = if (j =? off)%nat then f (nth off buf 0) else nth j buf 0.
Proof.
  revert off. induction buf as [|b r IH]; intros off H; [cbn in H; lia|].
  destruct off as [|off].
  - exists (f b :: r). split; [reflexivity|split; [reflexivity|]]. intros [|j]; reflexivity.
  - destruct (IH off) as (r' & H1 & H2 & H3); [cbn in H; lia|].
    exists (b :: r'). cbn [set_nth]. rewrite H1. split; [reflexivity|split; [cbn; lia|]].
    intros [|j]; [reflexivity|]. cbn [nth]. rewrite H3. reflexivity.
Qed.

Definition byte_bit_ok (b bit : Z) : bool :=
  (Z.lor b (2 ^ bit) =? set_bit b (Z.to_nat bit) true)
  && (Z.land b (Z.lnot (2 ^ bit)) =? set_bit b (Z.to_nat bit) false)
  && (0 <=? set_bit b (Z.to_nat bit) true) && (set_bit b (Z.to_nat bit) true <? 256)
  && (0 <=? set_bit b (Z.to_nat bit) false) && (set_bit b (Z.to_nat bit) false <? 256).

Lemma byte_bit_sweep :
  forallb (fun b => forallb (fun bit => byte_bit_ok (Z.of_nat b) (Z.of_nat bit)) (seq 0 8)) (seq 0 256) = true.
Proof. vm_compute. reflexivity. Qed.

Lemma byte_bit b bit :
  0 <= b < 256 -> (bit < 8)%nat ->
  Z.lor b (2 ^ Z.of_nat bit) = set_bit b bit true /\ Z.land b (Z.lnot (2 ^ Z.of_nat bit)) = set_bit b bit false
  /\ 0 <= set_bit b bit true < 256 /\ 0 <= set_bit b bit false < 256.
Proof.
  intros Hb Hbit. pose proof byte_bit_sweep as H. rewrite forallb_forall in H.
  specialize (H (Z.to_nat b)). rewrite forallb_forall in H.
  assert (H1 : In (Z.to_nat b) (seq 0 256)) by (apply in_seq; lia).
  assert (H2 : In bit (seq 0 8)) by (apply in_seq; lia).
  specialize (H H1 bit H2). rewrite Z2Nat.id in H by lia. unfold byte_bit_ok in H. rewrite Nat2Z.id in H. lia.
Qed.

Lemma nth_bytes_ok buf j : bytes_ok buf = true -> 0 <= nth j buf 0 < 256.
Proof.
  revert j. induction buf as [|b r IH]; intros j H; [destruct j; cbn; lia|].
  rewrite bytes_ok_cons in H. apply andb_prop in H as [Hb Hr]. apply byte_ok_iff in Hb.
  destruct j; [exact Hb|]. cbn [nth]. now apply IH.
Qed.

Lemma bytes_ok_by_nth buf : (forall j, 0 <= nth j buf 0 < 256) -> bytes_ok buf = true.
Proof.
  induction buf as [|b r IH]; intros H; [reflexivity|].
  rewrite bytes_ok_cons. apply andb_true_intro. split.
  - apply byte_ok_iff. exact (H 0%nat).
  - apply IH. intros j. exact (H (S j)).
Qed.

Lemma stag_bits_spec bits d :
  forall bv buf, stag_bitvals bits d = Some bv -> bytes_ok buf = true ->
  forallb (fun b : text * (nat * nat) => (fst (snd b) <? length buf)%nat && (snd (snd b) <? 8)%nat) bits = true ->
  exists buf', stag_encode_bits bits d buf = Ok buf' /\ length buf' = length buf /\ bytes_ok buf' = true
               /\ forall j, nth j buf' 0 = bits_byte bv j (nth j buf 0).
Proof.
  induction bits as [|[name [off bit]] bits IH]; intros bv buf Hs Hok Hin.
  - cbn in Hs. injection Hs as <-. exists buf. repeat split; auto.
  - cbn [stag_bitvals] in Hs. destruct (slookup d (Some name)) as [x|] eqn:Hx; [|discriminate].
    destruct x; try discriminate. destruct (stag_bitvals bits d) as [bv'|] eqn:Hbv; [|discriminate].
    cbn [option_map] in Hs. injection Hs as <-.
    cbn [forallb fst snd] in Hin. apply andb_prop in Hin as [Hin1 Hin2]. apply andb_prop in Hin1 as [Hoff Hbit].
    apply Nat.ltb_lt in Hoff, Hbit.
    destruct (nth_error buf off) as [b0|] eqn:Hn; [|apply nth_error_None in Hn; lia].
    pose proof (nth_error_nth buf off 0 Hn) as Hnth.
    pose proof (nth_bytes_ok buf off Hok) as Hb0. rewrite Hnth in Hb0.
    destruct (byte_bit b0 bit Hb0 Hbit) as (Hor & Hand & Hr1 & Hr2).
    cbn [stag_encode_bits]. rewrite slookup_model, Hx. cbn [bind truthy].
    assert (Htail : forall buf1, length buf1 = length buf -> bytes_ok buf1 = true ->
              (forall j, nth j buf1 0 = if (j =? off)%nat then set_bit b0 bit b else nth j buf 0) ->
              exists buf', stag_encode_bits bits d buf1 = Ok buf' /\ length buf' = length buf /\ bytes_ok buf' = true
                           /\ forall j, nth j buf' 0 = bits_byte (((off, bit), b) :: bv') j (nth j buf 0)).
    { intros buf1 L1 O1 N1.
      destruct (IH bv' buf1 eq_refl O1) as (buf' & R1 & R2 & R3 & R4).
      { rewrite L1. exact Hin2. }
      exists buf'. split; [exact R1|]. split; [lia|]. split; [exact R3|].
      intros j. rewrite R4, N1. cbn [bits_byte fold_left]. rewrite (Nat.eqb_sym off j).
      destruct (j =? off)%nat eqn:Ej; [|reflexivity]. apply Nat.eqb_eq in Ej. subst j. now rewrite Hnth. }
    destruct b.
    + rewrite Hn. cbv zeta. rewrite Hor. destruct (set_bit b0 bit true <? 256) eqn:E; [|lia].
      destruct (set_nth_spec buf off (fun _ => set_bit b0 bit true) Hoff) as (buf1 & S1 & S2 & S3).
      rewrite S1. apply Htail; [exact S2| |exact S3].
      apply bytes_ok_by_nth. intros j. rewrite S3. destruct (j =? off)%nat; [exact Hr1|now apply nth_bytes_ok].
    + destruct (set_nth_spec buf off (fun b1 => Z.land b1 (Z.lnot (2 ^ Z.of_nat bit))) Hoff) as (buf1 & S1 & S2 & S3).
      rewrite S1. apply Htail; [exact S2| |].
      * apply bytes_ok_by_nth. intros j. rewrite S3. destruct (j =? off)%nat; [rewrite Hnth, Hand; exact Hr2|now apply nth_bytes_ok].
      * intros j. rewrite S3, Hnth, Hand. reflexivity.
Qed.

Lemma tmpl_inside_aux size ms exts :
  all_some (map (extent_of size) ms) = Some exts -> forallb (inside size) ms = true.
Proof.
  revert exts. induction ms as [|m ms IH]; intros exts H; [reflexivity|].
  cbn [map all_some] in H. unfold extent_of at 1 in H. cbn [forallb]. unfold inside at 1.
  destruct (sfixed (snd m)) as [w|]; [|discriminate].
  destruct (snd (fst m) + w <=? size)%nat; [|discriminate].
  destruct (all_some (map (extent_of size) ms)) as [r|] eqn:E; [|discriminate]. cbn [andb]. now apply (IH r).
Qed.

Lemma tmpl_inside ms bits priv size : tmpl_ok ms bits priv size = true -> forallb (inside size) ms = true.
Proof.
  unfold tmpl_ok. intros H. apply andb_prop in H as [H _]. apply andb_prop in H as [H _]. apply andb_prop in H as [H _]. apply andb_prop in H as [H _].
  destruct (all_some (map (extent_of size) ms)) as [exts|] eqn:E; [|discriminate]. now apply (tmpl_inside_aux size ms exts).
Qed.

Lemma step_fold_range ps j acc :
  Forall (fun p : nat * bytes => bytes_ok (snd p) = true) ps -> 0 <= acc < 256 ->
  0 <= fold_left (fun acc (p : nat * bytes) =>
                    let '(off, e) := p in
                    if (off <=? j)%nat && (j <? off + length e)%nat then nth (j - off) e 0 else acc) ps acc < 256.
Proof.
  revert acc. induction ps as [|[off e] ps IH]; intros acc Hall Hacc; [exact Hacc|].
  inversion Hall; subst. cbn [fold_left]. apply IH; [assumption|].
  destruct ((off <=? j)%nat && (j <? off + length e)%nat); [|exact Hacc]. now apply nth_bytes_ok.
Qed.

Lemma enc_TStructTag ms bits priv size :
  Forall (fun m : (key * nat) * ty => ENC (snd m)) ms -> ENC (TStructTag ms bits priv size).
Proof.
  intros Hall Hw v bs Hs Hd. cbn [wire_ty] in Hw. apply andb_prop in Hw as [Hwm Htm].
  cbn [spec_encode] in Hs. fold (senc_sms ms) in Hs. cbn [enc_dev] in Hd.
  destruct v; try discriminate.
  destruct (stag_pieces (senc_sms ms) priv d) as [ps|] eqn:Hps; [|discriminate].
  destruct (stag_bitvals bits d) as [bv|] eqn:Hbv; [|discriminate]. injection Hs as <-.
  destruct (stag_members_spec size ms priv d Hall Hwm (tmpl_inside _ _ _ _ Htm) ps Hps Hd) as [M1 M2].
  destruct (piece_fold ps (zeros size)) as [P1 P2].
  { rewrite zeros_length. eapply Forall_impl; [|exact M2]. intros p [H _]. exact H. }
  rewrite zeros_length in P1.
  set (buf0 := fold_left put ps (zeros size)) in *.
  assert (Hok0 : bytes_ok buf0 = true).
  { apply bytes_ok_by_nth. intros j. rewrite P2, nth_zeros. apply step_fold_range; [|lia].
    eapply Forall_impl; [|exact M2]. intros p [_ H]. exact H. }
  destruct (stag_bits_spec bits d bv buf0 Hbv Hok0) as (buf' & B1 & B2 & B3 & B4).
  { rewrite P1. unfold tmpl_ok in Htm. apply andb_prop in Htm as [Htm _]. apply andb_prop in Htm as [Htm _]. apply andb_prop in Htm as [Htm _]. apply andb_prop in Htm as [_ Hb].
    rewrite forallb_forall in Hb. apply forallb_forall. intros b Hin. specialize (Hb b Hin).
    apply andb_prop in Hb as [Hb _]. exact Hb. }
  assert (Hbs : spec_image size ps bv = buf').
  { rewrite (list_by_nth buf' size) by lia. unfold spec_image. apply map_ext. intros j.
    rewrite B4, P2, nth_zeros. reflexivity. }
  rewrite Hbs.
  assert (Henc : encode (TStructTag ms bits priv size) (VDict d) = Ok buf').
  { cbn [encode]. fold (enc_sms ms). unfold structtag_encode. apply pub_encode_ok.
    rewrite M1. cbn [bind]. exact B1. }
  enc_split; [exact Henc|exact Henc|exact B3|].
  cbn [sfixed]. intros w H. injection H as <-. lia.
Qed.

(* ------------------------------------------------------------------ the theorem *)
Section Main.
  Hypothesis round32_spec : forall b, sp_f64_ok b = true -> round32 b = spec_real32_of_64 b.

  Lemma ENC_all : forall t, ENC t.
  Proof.
    apply wire_ty_ind.
    - exact enc_TBool.
    - exact enc_TInt.
    - exact (enc_TReal round32_spec).
    - exact enc_TDateTime.
    - exact enc_TStr.
    - exact enc_TStringN.
    - intros Hw. discriminate Hw.
    - exact enc_TNBytes.
    - exact enc_TBits.
    - intros n e He. destruct (is_bitstr e) eqn:Hb.
      + destruct e; try discriminate. apply enc_TArrFixed_bits.
      + now apply enc_TArrFixed_plain.
    - intros inst lt e _ _ Hw. discriminate Hw.
    - intros e He. destruct (is_bitstr e) eqn:Hb.
      + destruct e; try discriminate. apply enc_TArrAll_bits.
      + now apply enc_TArrAll_plain.
    - exact enc_TStruct.
    - exact enc_TFixedStr.
    - exact enc_TStructTag.
    - intros Hw. discriminate Hw.
    - intros Hw. discriminate Hw.
    - intros Hw. discriminate Hw.
  Qed.

  (* every value the reference encodes is encoded by the library to the reference bytes *)
  Theorem encode_is_spec_gen t v bs :
    wire_ty t = true -> spec_encode t v = Some bs -> enc_dev t v = 0 -> encode t v = Ok bs.
  Proof. intros Hw Hs Hd. exact (proj1 (ENC_all t Hw v bs Hs Hd)). Qed.

  (* StructTag: the image is [size] bytes; byte j is the visible member covering j (0 when none)
     with the BOOL members of that byte applied *)
  Theorem structtag_layout_gen ms bits priv size d ps bv :
    wire_ty (TStructTag ms bits priv size) = true ->
    stag_pieces (senc_sms ms) priv d = Some ps -> stag_bitvals bits d = Some bv ->
    enc_dev (TStructTag ms bits priv size) (VDict d) = 0 ->
    exists image, encode (TStructTag ms bits priv size) (VDict d) = Ok image /\ length image = size
                  /\ forall j, (j < size)%nat -> nth j image 0 = bits_byte bv j (piece_byte ps j).
  Proof.
    intros Hw Hps Hbv Hd.
    assert (Hs : spec_encode (TStructTag ms bits priv size) (VDict d) = Some (spec_image size ps bv)).
    { cbn [spec_encode]. fold (senc_sms ms). now rewrite Hps, Hbv. }
    destruct (ENC_all _ Hw _ _ Hs Hd) as (He & _ & _ & Hl).
    exists (spec_image size ps bv). split; [exact He|]. split; [apply Hl; reflexivity|].
    intros j Hj. unfold spec_image.
    rewrite (nth_indep _ 0 (bits_byte bv 0%nat (piece_byte ps 0%nat))) by (rewrite map_length, seq_length; exact Hj).
    rewrite (map_nth (fun j => bits_byte bv j (piece_byte ps j)) (seq 0 size) 0%nat j), seq_nth by exact Hj. reflexivity.
  Qed.
End Main.
