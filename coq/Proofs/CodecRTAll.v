(* Proofs/CodecRTAll.v — C06: the round-trip theorem, by nested induction on type terms. *)
From PV Require Import Base.Bytes Base.BytesLemmas Base.Res Base.Proto.
From PV Require Import Gen.Types Gen.CodecFacts Model.Codec Model.CodecDom.
From PV Require Import Proofs.CodecRTBase Proofs.CodecRT Proofs.CodecRTDict Proofs.CodecRTComp.
Open Scope Z_scope.

Definition PRT (t : ty) : Prop := RT t /\ EM t.

Lemma Forall_PRT_RT {A} (f : A -> ty) ms : Forall (fun m => PRT (f m)) ms -> Forall (fun m => RT (f m)) ms.
Proof. induction 1; constructor; [now destruct H|assumption]. Qed.
Lemma Forall_PRT_EM {A} (f : A -> ty) ms : Forall (fun m => PRT (f m)) ms -> Forall (fun m => EM (f m)) ms.
Proof. induction 1; constructor; [now destruct H|assumption]. Qed.

Lemma em_trivial t : consumes t = false -> EM t.
Proof. intros H _ Hc. congruence. Qed.

Section WithStructTag.
  Hypothesis rt_TStructTag :
    forall ms bits priv size, Forall (fun m => PRT (snd m)) ms -> RT (TStructTag ms bits priv size).

  Lemma prt_all : forall t, PRT t.
  Proof.
    apply ty_nested_ind.
    - split; [apply rt_TBool|apply em_TBool].
    - intros; split; [apply rt_TInt|apply em_TInt].
    - intros; split; [apply rt_TReal|apply em_TReal].
    - split; [intros H; discriminate H|now apply em_trivial].
    - intros; split; [apply rt_TStr|apply em_TStr].
    - split; [apply rt_TStringN|apply em_TStringN].
    - split; [apply rt_TStringI|apply em_TStringI].
    - intros; split; [apply rt_TNBytes|now apply em_trivial].
    - intros; split; [apply rt_TBits|apply em_TBits].
    - intros n e [Hrt Hem]. split; [now apply rt_TArrFixed|now apply em_TArrFixed].
    - intros. split; [intros H'; discriminate H'|now apply em_trivial].
    - intros e [Hrt Hem]. split; [|now apply em_trivial].
      apply rt_TArrAll; [exact Hrt|now apply ne_of_rt_em|exact Hem].
    - intros k ms H. split; [apply rt_TStruct; now apply Forall_PRT_RT|apply em_TStruct; now apply Forall_PRT_EM].
    - intros; split; [apply rt_TFixedStr|apply em_TFixedStr].
    - intros ms bits priv size H. split; [now apply rt_TStructTag|apply em_TStructTag; now apply Forall_PRT_EM].
    - split; [apply rt_TIPAddr|apply em_TIPAddr].
    - split; [apply rt_TPcccAscii|now apply em_trivial].
    - split; [apply rt_TPcccString|now apply em_trivial].
  Qed.
End WithStructTag.

(* type terms without StructTag (the StructTag case is Proofs/CodecRTStag.v) *)
Fixpoint no_stag (t : ty) : bool :=
  match t with
  | TArrFixed _ e | TArrAll e => no_stag e
  | TArrPrefix _ lt e => no_stag lt && no_stag e
  | TStruct _ ms => forallb (fun m => no_stag (snd m)) ms
  | TStructTag _ _ _ _ => false
  | _ => true
  end.

Lemma Forall_no_stag {A} (f : A -> ty) (P : ty -> Prop) ms :
  Forall (fun m => no_stag (f m) = true -> P (f m)) ms -> forallb (fun m => no_stag (f m)) ms = true ->
  Forall (fun m => P (f m)) ms.
Proof.
  induction 1 as [|m ms Hm _ IH]; intros Hn; constructor; cbn [forallb] in Hn; apply andb_prop in Hn as [H1 H2].
  - now apply Hm.
  - now apply IH.
Qed.

Lemma prt_no_stag : forall t, no_stag t = true -> PRT t.
Proof.
  apply (ty_nested_ind (fun t => no_stag t = true -> PRT t)).
  - split; [apply rt_TBool|apply em_TBool].
  - intros; split; [apply rt_TInt|apply em_TInt].
  - intros; split; [apply rt_TReal|apply em_TReal].
  - split; [intros H'; discriminate H'|now apply em_trivial].
  - intros; split; [apply rt_TStr|apply em_TStr].
  - split; [apply rt_TStringN|apply em_TStringN].
  - split; [apply rt_TStringI|apply em_TStringI].
  - intros; split; [apply rt_TNBytes|now apply em_trivial].
  - intros; split; [apply rt_TBits|apply em_TBits].
  - intros n e IH Hn. destruct (IH Hn) as [Hrt Hem]. split; [now apply rt_TArrFixed|now apply em_TArrFixed].
  - intros. split; [intros H'; discriminate H'|now apply em_trivial].
  - intros e IH Hn. destruct (IH Hn) as [Hrt Hem]. split; [|now apply em_trivial].
    apply rt_TArrAll; [exact Hrt|now apply ne_of_rt_em|exact Hem].
  - intros k ms H Hn. cbn [no_stag] in Hn. pose proof (Forall_no_stag snd PRT ms H Hn) as H'.
    split; [apply rt_TStruct; now apply Forall_PRT_RT|apply em_TStruct; now apply Forall_PRT_EM].
  - intros; split; [apply rt_TFixedStr|apply em_TFixedStr].
  - intros ms bits priv size _ Hn. discriminate Hn.
  - split; [apply rt_TIPAddr|apply em_TIPAddr].
  - split; [apply rt_TPcccAscii|now apply em_trivial].
  - split; [apply rt_TPcccString|now apply em_trivial].
Qed.

(* ------------------------------------------------------------------ the theorems in fuel-free form *)
Lemma decode_of_fuel t bs v rest :
  decode_fuel (S (length bs)) t bs = DOk v rest -> decode t bs = Ok (v, rest).
Proof. unfold decode. now intros ->. Qed.

Theorem roundtrip_no_stag t v rest :
  no_stag t = true -> wf_ty t = true -> in_dom t v = true -> (greedy t = true -> rest = []) ->
  exists bs, encode t v = Ok bs /\ decode t (bs ++ rest) = Ok (norm t v, rest).
Proof.
  intros Hn Hwf Hd Hg. destruct (prt_no_stag t Hn) as [Hrt _].
  destruct (Hrt Hwf v rest Hd Hg) as (bs & He & Hdec). exists bs. split; [exact He|].
  apply decode_of_fuel. apply Hdec. rewrite app_length. lia.
Qed.

(* encoding a structure from a dict or from the positional sequence of its values: identical bytes
   (for EVERY value, in or out of the domain), when the dict's keys are the member names in order *)
Lemma dict_get_nth (kvs : list (key * val)) pre k x post :
  kvs = pre ++ (k, x) :: post -> has_key pre k = false -> dict_get kvs k = Ok x.
Proof.
  intros -> H. induction pre as [|[k' v'] pre IH]; cbn [app dict_get].
  - now rewrite keyb_refl.
  - rewrite has_key_cons in H. apply orb_false_elim in H as [H1 H2]. cbn [fst] in H1. rewrite H1. now apply IH.
Qed.

Lemma struct_dict_positional_gen (encs : list (key * (val -> res bytes))) (pre kvs : list (key * val)) :
  map fst kvs = map fst encs ->
  dkeys_nodup (pre ++ kvs) = true ->
  struct_encode_dict encs (pre ++ kvs) = struct_encode_seq encs (map snd kvs).
Proof.
  revert pre kvs. induction encs as [|[k enc] encs IH]; intros pre kvs Hk Hnd.
  - destruct kvs; [reflexivity|discriminate].
  - destruct kvs as [|[k' x] kvs]; [discriminate|]. cbn [map fst] in Hk. injection Hk as -> Hk.
    cbn [struct_encode_dict struct_encode_seq map snd].
    assert (Hfresh : has_key pre k = false).
    { clear -Hnd. induction pre as [|kv pre IHp]; [reflexivity|].
      cbn [app dkeys_nodup] in Hnd. apply andb_prop in Hnd as [H1 H2]. rewrite has_key_cons.
      rewrite (IHp H2), orb_false_r. apply negb_true_iff in H1. rewrite has_key_app, has_key_cons in H1.
      apply orb_false_elim in H1 as [_ H1]. apply orb_false_elim in H1 as [H1 _]. cbn [fst] in H1.
      destruct (keyb (fst kv) k) eqn:E; [|reflexivity]. apply keyb_eq in E. subst k.
      now rewrite keyb_refl in H1. }
    rewrite (dict_get_nth _ pre k x kvs eq_refl Hfresh). cbn [bind]. destruct (enc x); [|reflexivity]. cbn [bind].
    specialize (IH (pre ++ [(k, x)]) kvs Hk). rewrite <- app_assoc in IH. cbn [app] in IH. now rewrite IH.
Qed.

Lemma keyb_sym a b : keyb a b = keyb b a.
Proof.
  destruct (keyb a b) eqn:E.
  - apply keyb_eq in E. subst. now rewrite keyb_refl.
  - destruct (keyb b a) eqn:E2; [|reflexivity]. apply keyb_eq in E2. subst. now rewrite keyb_refl in E.
Qed.

Lemma existsb_keys kvs k : existsb (keyb k) (map fst kvs) = has_key kvs k.
Proof.
  induction kvs as [|kv kvs IH]; [reflexivity|]. cbn [map existsb]. rewrite has_key_cons, IH. now rewrite keyb_sym.
Qed.

Lemma keys_nodup_dkeys kvs : keys_nodup (map fst kvs) = true -> dkeys_nodup kvs = true.
Proof.
  induction kvs as [|kv kvs IH]; [reflexivity|]. cbn [map keys_nodup dkeys_nodup]. intros H.
  apply andb_prop in H as [H1 H2]. rewrite (IH H2), andb_true_r. now rewrite <- existsb_keys.
Qed.

Theorem struct_dict_positional ms kvs :
  map fst kvs = map fst ms -> keys_nodup (map fst ms) = true ->
  encode (TStruct SPlain ms) (VDict kvs) = encode (TStruct SPlain ms) (VList (map snd kvs)).
Proof.
  intros Hk Hnd. cbn [encode]. unfold struct_encode, pub_encode. f_equal.
  cbn [struct_encode_inner py_iter bind].
  apply (struct_dict_positional_gen _ [] kvs).
  - rewrite map_map. cbn [fst]. exact Hk.
  - cbn [app]. rewrite <- Hk in Hnd. now apply keys_nodup_dkeys.
Qed.
