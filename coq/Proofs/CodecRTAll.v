(* Proofs/CodecRTAll.v — C06: the round-trip theorem, by nested induction on type terms. *)
From PV Require Import Base.Bytes Base.BytesLemmas Base.Res Base.Proto.
From PV Require Import Gen.Types Gen.CodecFacts Model.Codec Model.CodecDom.
From PV Require Import Proofs.CodecRTBase Proofs.CodecRT Proofs.CodecRTDict Proofs.CodecRTComp Proofs.CodecRTStag.
Open Scope Z_scope.

(* the induction invariant: the round-trip law, BufferEmptyError on the empty buffer (for
   Array(None, T)), constant encoded width and totality of decoding (for StructTag layouts) *)
Definition PRT (t : ty) : Prop := RT t /\ EM t /\ FW t /\ AD t.

Lemma Forall_proj {A} (f : A -> ty) (P Q : ty -> Prop) ms :
  (forall t, P t -> Q t) -> Forall (fun m => P (f m)) ms -> Forall (fun m => Q (f m)) ms.
Proof. intros H. induction 1; constructor; [now apply H|assumption]. Qed.

Lemma em_trivial t : consumes t = false -> EM t.
Proof. intros H _ Hc. congruence. Qed.

Ltac four := split; [|split; [|split]].

Lemma prt_all : forall t, PRT t.
Proof.
  apply ty_nested_ind.
  - four; [apply rt_TBool|apply em_TBool|apply fw_TBool|apply ad_TBool].
  - intros; four; [apply rt_TInt|apply em_TInt|apply fw_TInt|apply ad_TInt].
  - intros; four; [apply rt_TReal|apply em_TReal|apply fw_TReal|apply ad_TReal].
  - four; [apply rt_TDateTime|apply em_TDateTime|apply fw_TDateTime|apply ad_TDateTime].
  - intros; four; [apply rt_TStr|apply em_TStr|now apply fw_none|now apply ad_none].
  - four; [apply rt_TStringN|apply em_TStringN|now apply fw_none|now apply ad_none].
  - four; [apply rt_TStringI|apply em_TStringI|now apply fw_none|now apply ad_none].
  - intros; four; [apply rt_TNBytes|apply em_TNBytes|apply fw_TNBytes|apply ad_TNBytes].
  - intros; four; [apply rt_TBits|apply em_TBits|apply fw_TBits|apply ad_TBits].
  - intros n e (Hrt & Hem & Hfw & Had).
    four; [now apply rt_TArrFixed|now apply em_TArrFixed|now apply fw_TArrFixed|now apply ad_TArrFixed].
  - intros. four; [intros H'; discriminate H'|now apply em_trivial|now apply fw_none|now apply ad_none].
  - intros e (Hrt & Hem & _ & _). four; [|now apply em_trivial|now apply fw_none|now apply ad_none].
    apply rt_TArrAll; [exact Hrt|now apply ne_of_rt_em|exact Hem].
  - intros k ms H. four; [|apply em_TStruct|now apply fw_none|now apply ad_none].
    + apply rt_TStruct. revert H. apply Forall_proj. now intros t (H & _).
    + revert H. apply Forall_proj. now intros t (_ & H & _).
  - intros; four; [apply rt_TFixedStr|apply em_TFixedStr|apply fw_TFixedStr|now apply ad_none].
  - intros ms bits priv size H.
    assert (Hmp : Forall (fun m => MP (snd m)) ms).
    { revert H. apply Forall_proj. intros t (H1 & _ & H3 & H4). split; [exact H1|split; [exact H3|exact H4]]. }
    four; [now apply rt_TStructTag| |now apply fw_TStructTag|now apply ad_none].
    apply em_TStructTag. revert H. apply Forall_proj. now intros t (_ & H & _).
  - four; [apply rt_TIPAddr|apply em_TIPAddr|apply fw_TIPAddr|apply ad_TIPAddr].
  - four; [apply rt_TPcccAscii|now apply em_trivial|apply fw_TPcccAscii|now apply ad_none].
  - four; [apply rt_TPcccString|now apply em_trivial|now apply fw_none|now apply ad_none].
Qed.

(* ------------------------------------------------------------------ the theorems in fuel-free form *)
Lemma decode_of_fuel t bs v rest :
  decode_fuel (S (length bs)) t bs = DOk v rest -> decode t bs = Ok (v, rest).
Proof. unfold decode. now intros ->. Qed.

Theorem roundtrip t v rest :
  wf_ty t = true -> in_dom t v = true -> (greedy t = true -> rest = []) ->
  exists bs, encode t v = Ok bs /\ decode t (bs ++ rest) = Ok (norm t v, rest).
Proof.
  intros Hwf Hd Hg. destruct (prt_all t) as [Hrt _].
  destruct (Hrt Hwf v rest Hd Hg) as (bs & He & Hdec). exists bs. split; [exact He|].
  apply decode_of_fuel. apply Hdec. rewrite app_length. lia.
Qed.

(* decoding consumes exactly the encoding: the unread rest is what followed it *)
Corollary decode_consumes_exactly t v rest bs :
  wf_ty t = true -> in_dom t v = true -> (greedy t = true -> rest = []) -> encode t v = Ok bs ->
  exists v', decode t (bs ++ rest) = Ok (v', rest).
Proof.
  intros Hwf Hd Hg He. destruct (roundtrip t v rest Hwf Hd Hg) as (bs' & He' & Hdec).
  rewrite He in He'. injection He' as <-. eauto.
Qed.

(* encoding a structure from a dict or from the positional sequence of its values: identical bytes
   (for EVERY value, in or out of the domain), when the dict's keys are the member names in order *)
Lemma dict_get_nth (kvs : list (key * val)) pre k x post :
  kvs = pre ++ (k, x) :: post -> has_key pre k = false -> dict_get kvs k = Ok x.
Proof.
  intros -> H. induction pre as [|[k' v'] pre IH]; cbn [app dict_get].
  - now rewrite keyb_refl.
  - rewrite has_key_cons in H. apply orb_false_elim in H as [H1 H2]. cbn [fst] in H1. rewrite H1. now apply IH.
Qed.

Lemma struct_dict_positional_gen (encs : list (key * (val -> res bytes))) (pre kvs : list (key * val)) :
  map fst kvs = map fst encs ->
  dkeys_nodup (pre ++ kvs) = true ->
  struct_encode_dict encs (pre ++ kvs) = struct_encode_seq encs (map snd kvs).
Proof.
  revert pre kvs. induction encs as [|[k enc] encs IH]; intros pre kvs Hk Hnd.
  - destruct kvs; [reflexivity|discriminate].
  - destruct kvs as [|[k' x] kvs]; [discriminate|]. cbn [map fst] in Hk. injection Hk as -> Hk.
    cbn [struct_encode_dict struct_encode_seq map snd].
    assert (Hfresh : has_key pre k = false).
    { clear -Hnd. induction pre as [|kv pre IHp]; [reflexivity|].
      cbn [app dkeys_nodup] in Hnd. apply andb_prop in Hnd as [H1 H2]. rewrite has_key_cons.
      rewrite (IHp H2), orb_false_r. apply negb_true_iff in H1. rewrite has_key_app, has_key_cons in H1.
      apply orb_false_elim in H1 as [_ H1]. apply orb_false_elim in H1 as [H1 _]. cbn [fst] in H1.
      destruct (keyb (fst kv) k) eqn:E; [|reflexivity]. apply keyb_eq in E. subst k.
      now rewrite keyb_refl in H1. }
    rewrite (dict_get_nth _ pre k x kvs eq_refl Hfresh). cbn [bind]. destruct (enc x); [|reflexivity]. cbn [bind].
    specialize (IH (pre ++ [(k, x)]) kvs Hk). rewrite <- app_assoc in IH. cbn [app] in IH. now rewrite IH.
Qed.

Lemma keyb_sym a b : keyb a b = keyb b a.
Proof.
  destruct (keyb a b) eqn:E.
  - apply keyb_eq in E. subst. now rewrite keyb_refl.
  - destruct (keyb b a) eqn:E2; [|reflexivity]. apply keyb_eq in E2. subst. now rewrite keyb_refl in E.
Qed.

Lemma existsb_keys kvs k : existsb (keyb k) (map fst kvs) = has_key kvs k.
Proof.
  induction kvs as [|kv kvs IH]; [reflexivity|]. cbn [map existsb]. rewrite has_key_cons, IH. now rewrite keyb_sym.
Qed.

Lemma keys_nodup_dkeys kvs : keys_nodup (map fst kvs) = true -> dkeys_nodup kvs = true.
Proof.
  induction kvs as [|kv kvs IH]; [reflexivity|]. cbn [map keys_nodup dkeys_nodup]. intros H.
  apply andb_prop in H as [H1 H2]. rewrite (IH H2), andb_true_r. now rewrite <- existsb_keys.
Qed.

Theorem struct_dict_positional ms kvs :
  map fst kvs = map fst ms -> keys_nodup (map fst ms) = true ->
  encode (TStruct SPlain ms) (VDict kvs) = encode (TStruct SPlain ms) (VList (map snd kvs)).
Proof.
  intros Hk Hnd. cbn [encode]. unfold struct_encode, pub_encode. f_equal.
  cbn [struct_encode_inner py_iter bind].
  assert (Hlen : length (map snd kvs) = length ms).
  { rewrite map_length. rewrite <- (map_length fst kvs), Hk. apply map_length. }
  rewrite Hlen, map_length, Nat.ltb_irrefl.
  apply (struct_dict_positional_gen _ [] kvs).
  - rewrite map_map. cbn [fst]. exact Hk.
  - cbn [app]. rewrite <- Hk in Hnd. now apply keys_nodup_dkeys.
Qed.

(* Array(<length type>, T): encode writes NO length prefix (documented), so decode (encode v) is not
   v; what holds is the documented decode: the count, encoded with the length type, followed by the
   encoding, decodes to the value and leaves what follows untouched. *)
Theorem roundtrip_prefixed inst lsg lw e l rest :
  (0 < lw)%nat -> is_bits e = false -> wf_ty (TArrFixed (length l) e) = true ->
  in_dom (TArrFixed (length l) e) (VList l) = true ->
  int_in_range lsg lw (zlen l) = true -> zlen l <= count_limit ->
  exists p bs, encode (TInt lsg lw) (VInt (zlen l)) = Ok p
               /\ encode (TArrPrefix inst (TInt lsg lw) e) (VList l) = Ok bs
               /\ decode (TArrPrefix inst (TInt lsg lw) e) (p ++ bs ++ rest) = Ok (norm (TArrFixed (length l) e) (VList l), rest).
Proof.
  intros Hlw Hnb Hwf Hd Hr Hlim. destruct (prt_all e) as (Hrt & _).
  destruct (arr_plain_form (length l) e l Hnb Hrt Hwf Hd) as (bss & Hbss & Hdd & Hlen & He).
  rewrite firstn_all in Hbss, Hdd.
  exists (le_enc lw (zlen l)), (concat bss). split; [|split].
  - cbn [encode]. now apply int_encode_ok.
  - cbn [encode]. unfold array_encode. cbn [py_len bind].
    replace (bits_width e) with (@None nat) by (destruct e; try reflexivity; discriminate Hnb).
    replace (Z.to_nat (zlen l)) with (length l) by (unfold zlen; lia).
    rewrite encode_items_list by lia. cbn [skipn]. rewrite firstn_all.
    now rewrite (enc_all_good _ _ _ Hbss Hdd).
  - apply decode_of_fuel. cbn [decode_fuel]. unfold array_decode_prefix.
    rewrite int_decode_ok by assumption. cbn [dbind].
    replace (Z.to_nat (Z.min (zlen l) count_limit)) with (length l) by (unfold zlen in *; lia).
    rewrite (decode_n_good e l bss _ rest Hbss) by (rewrite !app_length; lia).
    destruct (count_limit <? zlen l) eqn:E; [lia|]. rewrite Hnb. cbn [array_flatten dwrap norm].
    rewrite firstn_all. destruct e; try reflexivity. discriminate Hnb.
Qed.

(* ------------------------------------------------------------------ dict input is read BY NAME *)
(* Struct._encode does `values[typ.name]` per member: the bytes depend only on the name -> value
   lookups of the member names — not on the order of the dict, nor on other keys *)
From Coq Require Import Permutation.

Lemma struct_encode_dict_ext (encs : list (key * (val -> res bytes))) (d d' : list (key * val)) :
  (forall m, In m encs -> dict_get d (fst m) = dict_get d' (fst m)) ->
  struct_encode_dict encs d = struct_encode_dict encs d'.
Proof.
  induction encs as [|[k enc] encs IH]; intros H; [reflexivity|].
  cbn [struct_encode_dict]. pose proof (H (k, enc) (or_introl eq_refl)) as Hk. cbn [fst] in Hk. rewrite Hk.
  destruct (dict_get d' k) as [x|]; [|reflexivity]. cbn [bind]. destruct (enc x); [|reflexivity]. cbn [bind].
  rewrite IH; [reflexivity|]. intros m Hin. apply H. now right.
Qed.

Theorem struct_dict_lookup ms kvs kvs' :
  (forall m, In m ms -> dict_get kvs (fst m) = dict_get kvs' (fst m)) ->
  encode (TStruct SPlain ms) (VDict kvs) = encode (TStruct SPlain ms) (VDict kvs').
Proof.
  intros H. cbn [encode]. unfold struct_encode, pub_encode. f_equal. cbn [struct_encode_inner].
  apply struct_encode_dict_ext. intros m Hin. apply in_map_iff in Hin as (m0 & <- & Hin0). cbn [fst]. now apply H.
Qed.

Lemma dict_get_not_in d k : ~ In k (map fst d) -> dict_get d k = Err (Foreign KeyError).
Proof.
  induction d as [|[k' v] d IH]; intros H; [reflexivity|]. cbn [dict_get].
  destruct (keyb k' k) eqn:E.
  - apply keyb_eq in E. subst. exfalso. apply H. now left.
  - apply IH. intros Hin. apply H. now right.
Qed.

Lemma dict_get_perm d d' k : Permutation d d' -> NoDup (map fst d) -> dict_get d k = dict_get d' k.
Proof.
  induction 1 as [|[k1 v1] d d' Hp IH|[k1 v1] [k2 v2] d|d1 d2 d3 H12 IH12 H23 IH23]; intros Hnd.
  - reflexivity.
  - cbn [dict_get]. destruct (keyb k1 k); [reflexivity|]. apply IH. now inversion Hnd.
  - cbn [dict_get]. destruct (keyb k2 k) eqn:E2, (keyb k1 k) eqn:E1; try reflexivity.
    apply keyb_eq in E1, E2. subst. exfalso. cbn [map fst] in Hnd. inversion Hnd as [|? ? Hn _]. apply Hn. now left.
  - rewrite IH12 by exact Hnd. apply IH23. eapply Permutation_NoDup; [|exact Hnd]. now apply Permutation_map.
Qed.

(* the order of the dict does not matter *)
Theorem struct_dict_permutation ms kvs kvs' :
  Permutation kvs kvs' -> NoDup (map fst kvs) ->
  encode (TStruct SPlain ms) (VDict kvs) = encode (TStruct SPlain ms) (VDict kvs').
Proof. intros Hp Hnd. apply struct_dict_lookup. intros m _. now apply dict_get_perm. Qed.

(* a key that is no member's name does not matter *)
Theorem struct_dict_extra_key ms pre k x post :
  (forall m, In m ms -> fst m <> k) ->
  encode (TStruct SPlain ms) (VDict (pre ++ (k, x) :: post)) = encode (TStruct SPlain ms) (VDict (pre ++ post)).
Proof.
  intros Hk. apply struct_dict_lookup. intros m Hin. specialize (Hk m Hin).
  induction pre as [|[k' v'] pre IH]; cbn [app dict_get].
  - destruct (keyb k (fst m)) eqn:E; [apply keyb_eq in E; congruence|reflexivity].
  - destruct (keyb k' (fst m)); [reflexivity|exact IH].
Qed.

(* a member whose name is missing from the dict: DataError (KeyError inside the wrapper) *)
Theorem struct_dict_missing_key ms kvs m :
  In m ms -> ~ In (fst m) (map fst kvs) -> encode (TStruct SPlain ms) (VDict kvs) = Err DataError.
Proof.
  intros Hin Hk. cbn [encode]. unfold struct_encode, pub_encode. cbn [struct_encode_inner].
  assert (H : exists e, struct_encode_dict (map (fun m0 => (fst m0, as_member (snd m0) (encode (snd m0)))) ms) kvs = Err e).
  { induction ms as [|m0 ms IH]; [destruct Hin|]. cbn [map struct_encode_dict fst].
    destruct Hin as [->|Hin].
    - rewrite (dict_get_not_in _ _ Hk). cbn [bind]. eauto.
    - destruct (dict_get kvs (fst m0)) as [x|]; cbn [bind]; [|eauto].
      destruct (as_member (snd m0) (encode (snd m0)) x); cbn [bind]; [|eauto].
      destruct (IH Hin) as (e & ->). cbn [bind]. eauto. }
  destruct H as (e & ->). reflexivity.
Qed.

(* ------------------------------------------------------------------ DATE_AND_TIME: the two call forms *)
(* encode(time, date) and encode((time, date)) are the same function of the pair, for EVERY integer
   time and date (0 included; out-of-range values give the same DataError) *)
Theorem datetime_call_forms t d :
  encode_args TDateTime [VInt t; VInt d] = encode TDateTime (VTuple [VInt t; VInt d]).
Proof. reflexivity. Qed.

Corollary datetime_positional_roundtrip t d rest :
  in_urange 4 t = true -> in_urange 2 d = true ->
  exists bs, encode_args TDateTime [VInt t; VInt d] = Ok bs
             /\ decode TDateTime (bs ++ rest) = Ok (VTuple [VInt t; VInt d], rest).
Proof.
  intros Ht Hd. rewrite datetime_call_forms.
  apply (roundtrip TDateTime (VTuple [VInt t; VInt d]) rest eq_refl); [|discriminate].
  cbn [in_dom]. now rewrite Ht, Hd.
Qed.
