(* Proofs/CodecWireDec.v — C07: the library's decoders return what the reference decodes.
   For every type of [wire_ty] and EVERY byte string:
     reference SOk v rest   ->  the model's decode returns v and leaves rest
     reference SBad         ->  DataError
     reference SEnd         ->  BufferEmptyError
     reference STrunc       ->  no claim (an unbounded array whose last element is cut short ends
                                silently before it: Props/C07.v witness)
   Induction on [ty] over the stream semantics ([decode_fuel], [dres]). *)
From PV Require Import Base.Bytes Base.BytesLemmas Base.Res Gen.Types Gen.CodecFacts Model.Codec Model.CodecDom.
From PV Require Import Spec.WireFloat Spec.Wire Proofs.CodecWireDefs Proofs.CodecWireBase Proofs.CodecWireEnc Proofs.CodecRTDict.
From Coq Require Import ZifyBool.
Open Scope Z_scope.
Ltac Zify.zify_post_hook ::= Z.to_euclidean_division_equations.

Definition Rel (s : sres) (d : dres) : Prop :=
  match s with
  | SOk v r => d = DOk v r
  | SBad => d = DErr DataError
  | SEnd => exists r, d = DEmpty r
  | STrunc => True
  end.

(* ------------------------------------------------------------------ byte lists and the stream *)
Lemma bytes_ok_firstn n bs : bytes_ok bs = true -> bytes_ok (firstn n bs) = true.
Proof.
  revert n. induction bs as [|b r IH]; intros n H; [now rewrite firstn_nil|].
  destruct n; [reflexivity|]. rewrite bytes_ok_cons in H. apply andb_prop in H as [Hb Hr].
  cbn [firstn]. now rewrite bytes_ok_cons, Hb, IH.
Qed.

Lemma bytes_ok_skipn n bs : bytes_ok bs = true -> bytes_ok (skipn n bs) = true.
Proof.
  revert n. induction bs as [|b r IH]; intros n H; [now rewrite skipn_nil|].
  destruct n; [exact H|]. rewrite bytes_ok_cons in H. apply andb_prop in H as [Hb Hr]. cbn [skipn]. now apply IH.
Qed.

Lemma bytes_ok_suffix p r : bytes_ok (p ++ r) = true -> bytes_ok r = true.
Proof. rewrite bytes_ok_app. intros H. now apply andb_prop in H as [_ H]. Qed.

Lemma stream_read_nil n k : n <> 0 -> stream_read n [] k = DEmpty [].
Proof.
  intros Hn. unfold stream_read, stream_take. destruct (n =? 0) eqn:E; [lia|]. destruct (n <? 0); [reflexivity|].
  unfold ztake, zdrop. cbn. now rewrite firstn_nil, skipn_nil.
Qed.

Lemma stream_read_short n bs k : bs <> [] -> blen bs < n -> stream_read n bs k = DErr DataError.
Proof.
  intros Hne Hlt. unfold stream_read, stream_take. unfold blen in Hlt.
  destruct (n <? 0) eqn:E; [lia|]. unfold ztake, zdrop, zlen.
  replace (Z.to_nat (Z.min n (Z.of_nat (length bs)))) with (length bs) by lia.
  rewrite firstn_all, skipn_all. destruct bs as [|b bs']; [congruence|].
  destruct (Z.of_nat (length (b :: bs')) <? n) eqn:E2; [reflexivity|lia].
Qed.

Lemma stream_read_full n bs k :
  0 < n -> n <= blen bs -> stream_read n bs k = k (firstn (Z.to_nat n) bs) (skipn (Z.to_nat n) bs).
Proof.
  intros Hn Hle. unfold stream_read, stream_take. unfold blen in Hle.
  destruct (n <? 0) eqn:E; [lia|]. unfold ztake, zdrop, zlen.
  replace (Z.to_nat (Z.min n (Z.of_nat (length bs)))) with (Z.to_nat n) by lia.
  assert (Hl : length (firstn (Z.to_nat n) bs) = Z.to_nat n) by (apply firstn_length_le; lia).
  destruct (firstn (Z.to_nat n) bs) as [|x d] eqn:F; [cbn in Hl; lia|].
  destruct (Z.of_nat (length (x :: d)) <? n) eqn:E2; [lia|reflexivity].
Qed.

(* ------------------------------------------------------------------ fixed-width scalars *)
Lemma elem_rel size unpack f :
  (0 < size)%nat ->
  (forall d, length d = size -> unpack d = Ok (f d)) ->
  (forall d, (0 < length d < size)%nat -> exists e, unpack d = Err e) ->
  forall bs, Rel (sfield (Z.of_nat size) bs (fun d r => SOk (f d) r)) (elem_decode size unpack bs).
Proof.
  intros Hs Hok Hbad bs. unfold sfield, elem_decode.
  destruct bs as [|b0 bs'] eqn:Hbs.
  - rewrite stream_read_nil by lia. cbn. eexists; reflexivity.
  - rewrite <- Hbs. assert (Hne : bs <> []) by (subst; discriminate).
    destruct (blen bs <? Z.of_nat size) eqn:E.
    + rewrite stream_read_short by (try exact Hne; lia). reflexivity.
    + rewrite stream_read_full by lia. rewrite Nat2Z.id.
      rewrite Hok by (rewrite firstn_length_le; unfold blen in E; lia). reflexivity.
Qed.

Lemma unpack_int_bad sg w d : length d <> w -> unpack_int sg w d = Err (Foreign StructError).
Proof. intros H. unfold unpack_int. destruct (length d =? w)%nat eqn:E; [apply Nat.eqb_eq in E; lia|reflexivity]. Qed.

Lemma int_rel sg w bs : (0 < w)%nat -> Rel (sdec_int sg w bs) (int_decode sg w bs).
Proof.
  intros Hw. unfold sdec_int, int_decode.
  apply (elem_rel w (unpack_int sg w) (fun d => VInt (spec_int_val sg w d)) Hw).
  - intros d Hd. unfold unpack_int. rewrite Hd, Nat.eqb_refl. now rewrite spec_int_val_model.
  - intros d Hd. eexists. apply unpack_int_bad. lia.
Qed.

Lemma bool_rel bs : Rel (sdec_bool bs) (bool_decode bs).
Proof.
  unfold sdec_bool, bool_decode.
  refine (elem_rel 1 _ (fun d => VBool (negb (spec_le_val d =? 0))) _ _ _ bs).
  - lia.
  - intros d Hd. destruct d as [|x [|y d]]; try discriminate. rewrite spec_le_val_le_dec. cbn [le_dec].
    replace (x + 256 * 0) with x by lia. destruct x; reflexivity.
  - intros d Hd. lia.
Qed.

Section WithFloat.
  Hypothesis widen32_spec : forall u, 0 <= u < 2 ^ 32 -> widen32 u = spec_real64_of_32 u.

  Lemma real_rel dbl bs : bytes_ok bs = true -> Rel (sdec_real dbl bs) (real_decode dbl bs).
  Proof.
    intros Hok. unfold sdec_real, real_decode. destruct dbl.
    - (* the values agree only on byte strings: compare after restricting to the bytes read *)
      unfold sfield, elem_decode.
      destruct bs as [|b0 bs'] eqn:Hbs; [rewrite stream_read_nil by (cbn; lia); cbn; eexists; reflexivity|].
      rewrite <- Hbs in *. assert (Hne : bs <> []) by (subst; discriminate).
      change (Z.of_nat 8) with 8 in *. destruct (blen bs <? 8) eqn:E.
      + rewrite stream_read_short by (try exact Hne; lia). reflexivity.
      + rewrite stream_read_full by lia. change (Z.to_nat 8) with 8%nat. unfold unpack_real.
        assert (Hl : length (firstn 8 bs) = 8%nat) by (rewrite firstn_length_le; unfold blen in E; lia).
        rewrite Hl. cbn [Nat.eqb dres_of_res dwrap]. rewrite spec_le_val_le_dec.
        rewrite sp_canon64_model; [reflexivity|].
        pose proof (le_dec_range (firstn 8 bs) (bytes_ok_firstn 8 bs Hok)) as Hr. rewrite Hl in Hr. exact Hr.
    - unfold sfield, elem_decode.
      destruct bs as [|b0 bs'] eqn:Hbs; [rewrite stream_read_nil by (cbn; lia); cbn; eexists; reflexivity|].
      rewrite <- Hbs in *. assert (Hne : bs <> []) by (subst; discriminate).
      change (Z.of_nat 4) with 4 in *. destruct (blen bs <? 4) eqn:E.
      + rewrite stream_read_short by (try exact Hne; lia). reflexivity.
      + rewrite stream_read_full by lia. change (Z.to_nat 4) with 4%nat. unfold unpack_real.
        assert (Hl : length (firstn 4 bs) = 4%nat) by (rewrite firstn_length_le; unfold blen in E; lia).
        rewrite Hl. cbn [Nat.eqb dres_of_res dwrap]. rewrite spec_le_val_le_dec.
        rewrite widen32_spec; [reflexivity|].
        pose proof (le_dec_range (firstn 4 bs) (bytes_ok_firstn 4 bs Hok)) as Hr. rewrite Hl in Hr. exact Hr.
  Qed.
End WithFloat.

Lemma bits_rel w bs : (0 < w)%nat -> bytes_ok bs = true -> Rel (sdec_bits w bs) (bits_decode w bs).
Proof.
  intros Hw Hok. unfold sdec_bits, bits_decode, int_decode, sfield, elem_decode.
  destruct bs as [|b0 bs'] eqn:Hbs; [rewrite stream_read_nil by lia; cbn; eexists; reflexivity|].
  rewrite <- Hbs in *. assert (Hne : bs <> []) by (subst; discriminate).
  destruct (blen bs <? Z.of_nat w) eqn:E.
  - rewrite stream_read_short by (try exact Hne; lia). reflexivity.
  - rewrite stream_read_full by lia. rewrite Nat2Z.id. unfold unpack_int.
    assert (Hl : length (firstn w bs) = w) by (rewrite firstn_length_le; unfold blen in E; lia).
    rewrite Hl, Nat.eqb_refl. cbn [dres_of_res dwrap dbind as_int].
    rewrite <- (value_bits_spec (firstn w bs)) by now apply bytes_ok_firstn. now rewrite Hl.
Qed.

(* ------------------------------------------------------------------ (A) what the reference consumes *)
Definition SUF (t : ty) : Prop :=
  wire_ty t = true -> forall bs v r, spec_decode t bs = SOk v r ->
  exists p, bs = p ++ r /\ (sconsumes t = true -> p <> []) /\ (forall w, sfixed t = Some w -> length p = w).

Lemma sfield_inv n bs k v r :
  sfield n bs k = SOk v r ->
  bs <> [] /\ n <= blen bs /\ k (firstn (Z.to_nat n) bs) (skipn (Z.to_nat n) bs) = SOk v r.
Proof.
  unfold sfield. destruct bs as [|b bs']; [discriminate|].
  destruct (blen (b :: bs') <? n) eqn:E; [discriminate|]. intros H. split; [discriminate|]. split; [lia|exact H].
Qed.

Lemma sblock_inv n bs k v r :
  sblock n bs k = SOk v r ->
  bs <> [] /\ n <= blen bs /\ k (firstn (Z.to_nat n) bs) (skipn (Z.to_nat n) bs) = SOk v r.
Proof.
  unfold sblock. destruct bs as [|b bs']; [discriminate|].
  destruct (blen (b :: bs') <? n) eqn:E; [discriminate|]. intros H. split; [discriminate|]. split; [lia|exact H].
Qed.

Lemma split_at n (bs : bytes) : (n <= length bs)%nat -> bs = firstn n bs ++ skipn n bs /\ length (firstn n bs) = n.
Proof. intros H. split; [now rewrite firstn_skipn|now apply firstn_length_le]. Qed.

(* a scalar field: the prefix read has exactly n bytes *)
Lemma sfield_suf n bs g v r :
  0 <= n -> sfield n bs (fun d r => SOk (g d) r) = SOk v r ->
  exists p, bs = p ++ r /\ length p = Z.to_nat n /\ v = g p /\ bs <> [].
Proof.
  intros Hn H. apply sfield_inv in H as (Hne & Hle & Hk). injection Hk as <- <-.
  destruct (split_at (Z.to_nat n) bs) as [H1 H2]; [unfold blen in Hle; lia|].
  exists (firstn (Z.to_nat n) bs). auto.
Qed.

Lemma sdec_int_suf sg w bs v r :
  sdec_int sg w bs = SOk v r -> exists p, bs = p ++ r /\ length p = w /\ v = VInt (spec_int_val sg w p) /\ bs <> [].
Proof.
  unfold sdec_int. intros H. apply sfield_suf in H as (p & H1 & H2 & H3 & H4); [|lia].
  exists p. rewrite Nat2Z.id in H2. auto.
Qed.

Lemma nonempty_length {A} (p : list A) : (0 < length p)%nat -> p <> [].
Proof. destruct p; cbn; [lia|discriminate]. Qed.

Lemma suf_scalar n t g :
  (0 < n)%nat -> sfixed t = Some n ->
  (forall bs, spec_decode t bs = sfield (Z.of_nat n) bs (fun d r => SOk (g d) r)) -> SUF t.
Proof.
  intros Hn Hf Hd _ bs v r H. rewrite Hd in H. apply sfield_suf in H as (p & H1 & H2 & _); [|lia].
  rewrite Nat2Z.id in H2. exists p. split; [exact H1|]. split; [intros _; apply nonempty_length; lia|].
  intros w Hw. rewrite Hf in Hw. injection Hw as <-. exact H2.
Qed.

Lemma suf_TBool : SUF TBool.
Proof. apply (suf_scalar 1 TBool (fun d => VBool (negb (spec_le_val d =? 0)))); [lia|reflexivity|reflexivity]. Qed.
Lemma suf_TInt sg w : SUF (TInt sg w).
Proof.
  intros Hw. assert (Hw' := Hw). cbn [wire_ty] in Hw'. revert Hw.
  apply (suf_scalar w (TInt sg w) (fun d => VInt (spec_int_val sg w d))); [lia|reflexivity|reflexivity].
Qed.
Lemma suf_TReal dbl : SUF (TReal dbl).
Proof.
  destruct dbl.
  - apply (suf_scalar 8 (TReal true) (fun d => VFloat (sp_canon64 (spec_le_val d)))); [lia|reflexivity|reflexivity].
  - apply (suf_scalar 4 (TReal false) (fun d => VFloat (spec_real64_of_32 (spec_le_val d)))); [lia|reflexivity|reflexivity].
Qed.
Lemma suf_TBits w : SUF (TBits w).
Proof.
  intros Hw. assert (Hw' := Hw). cbn [wire_ty] in Hw'. revert Hw.
  apply (suf_scalar w (TBits w) (fun d => VList (spec_bits_dec d))); [lia|reflexivity|reflexivity].
Qed.

Lemma suf_TDateTime : SUF TDateTime.
Proof.
  intros _ bs v r H. cbn [spec_decode] in H. unfold sdec_datetime in H.
  destruct (sdec_int false 4 bs) as [t r1| | |] eqn:H1; try discriminate. cbn [sbind] in H.
  destruct (sdec_int false 2 r1) as [d r2| | |] eqn:H2; try discriminate. cbn [sbind] in H. injection H as <- <-.
  apply sdec_int_suf in H1 as (p1 & E1 & L1 & _). apply sdec_int_suf in H2 as (p2 & E2 & L2 & _).
  exists (p1 ++ p2). subst bs r1. split; [now rewrite app_assoc|]. split.
  - intros _. apply nonempty_length. rewrite app_length. lia.
  - cbn [sfixed]. intros w Hw. injection Hw as <-. rewrite app_length. lia.
Qed.

Lemma sdec_chars_suf cw n bs v r :
  sdec_chars cw n bs = SOk v r -> exists p, bs = p ++ r.
Proof.
  unfold sdec_chars. intros H. apply sblock_inv in H as (_ & Hle & Hk).
  destruct (spec_chars_dec cw _ _); [|discriminate]. injection Hk as <- <-.
  exists (firstn (Z.to_nat (n * Z.of_nat cw)) bs). now rewrite firstn_skipn.
Qed.

Lemma suf_TStr lsg lw e : SUF (TStr lsg lw e).
Proof.
  intros Hw bs v r H. cbn [wire_ty] in Hw. cbn [spec_decode] in H.
  destruct (char_width e) as [cw|]; [|discriminate]. destruct lsg; [cbn in Hw; lia|].
  unfold sdec_str in H. destruct (sdec_int false lw bs) as [n r1| | |] eqn:H1; try discriminate. cbn [sbind] in H.
  apply sdec_int_suf in H1 as (p1 & E1 & L1 & -> & _).
  assert (Hp1 : p1 <> []) by (apply nonempty_length; lia).
  destruct (spec_int_val false lw p1 =? 0).
  - injection H as <- <-. exists p1. split; [exact E1|]. split; [auto|]. cbn [sfixed]. discriminate.
  - apply sdec_chars_suf in H as (p2 & E2). exists (p1 ++ p2). subst. split; [now rewrite app_assoc|].
    split; [intros _; destruct p1; [congruence|discriminate]|]. cbn [sfixed]. discriminate.
Qed.

Lemma suf_TStringN : SUF TStringN.
Proof.
  intros _ bs v r H. cbn [spec_decode] in H. unfold sdec_stringn in H.
  destruct (sdec_int false 2 bs) as [cs r1| | |] eqn:H1; try discriminate. cbn [sbind] in H.
  destruct (sdec_int false 2 r1) as [cnt r2| | |] eqn:H2; try discriminate. cbn [sbind] in H.
  apply sdec_int_suf in H1 as (p1 & E1 & L1 & -> & _). apply sdec_int_suf in H2 as (p2 & E2 & L2 & -> & _).
  assert (Hp1 : p1 <> []) by (apply nonempty_length; lia).
  destruct ((spec_int_val false 2 p1 =? 1) || (spec_int_val false 2 p1 =? 2) || (spec_int_val false 2 p1 =? 4)); [|discriminate].
  destruct (spec_int_val false 2 p2 =? 0).
  - injection H as <- <-. exists (p1 ++ p2). subst. split; [now rewrite app_assoc|].
    split; [intros _; destruct p1; [congruence|discriminate]|]. cbn [sfixed]. discriminate.
  - apply sdec_chars_suf in H as (p3 & E3). exists (p1 ++ p2 ++ p3). subst. split; [now rewrite !app_assoc|].
    split; [intros _; destruct p1; [congruence|discriminate]|]. cbn [sfixed]. discriminate.
Qed.

Lemma suf_TNBytes n : SUF (TNBytes n).
Proof.
  intros Hw bs v r H. cbn [wire_ty] in Hw. cbn [spec_decode] in H. unfold sdec_nbytes in H.
  destruct (n =? -1) eqn:E.
  - destruct bs as [|b bs']; [discriminate|]. injection H as <- <-. exists (b :: bs'). split; [now rewrite app_nil_r|].
    split; [discriminate|]. cbn [sfixed]. destruct (0 <? n) eqn:E2; [lia|discriminate].
  - apply sblock_inv in H as (Hne & Hle & Hk). injection Hk as <- <-.
    destruct (split_at (Z.to_nat n) bs) as [H1 H2]; [unfold blen in Hle; lia|].
    exists (firstn (Z.to_nat n) bs). split; [exact H1|]. split.
    + intros _. apply nonempty_length. lia.
    + cbn [sfixed]. intros w Hw'. destruct (0 <? n); [|discriminate]. injection Hw' as <-. exact H2.
Qed.

Lemma suf_TFixedStr size lsg lw cap : SUF (TFixedStr size lsg lw cap).
Proof.
  intros Hw bs v r H. cbn [wire_ty] in Hw. cbn [spec_decode] in H. destruct lsg; [cbn in Hw; lia|].
  unfold sdec_fixedstr in H. destruct (sdec_int false lw bs) as [n r1| | |] eqn:H1; try discriminate. cbn [sbind] in H.
  apply sdec_int_suf in H1 as (p1 & E1 & L1 & -> & _).
  apply sblock_inv in H as (Hne & Hle & Hk). injection Hk as <- <-. rewrite Nat2Z.id in *.
  destruct (split_at size r1) as [S1 S2]; [unfold blen in Hle; lia|].
  exists (p1 ++ firstn size r1). split; [rewrite <- app_assoc, <- S1; exact E1|]. split.
  - intros _. apply nonempty_length. rewrite app_length. lia.
  - cbn [sfixed]. intros w Hw'. injection Hw' as <-. rewrite app_length. lia.
Qed.

(* ---- composites *)
Lemma sdec_n_vlist dec n bs vs r : sdec_n dec n bs = SOk vs r -> exists l, vs = VList l.
Proof.
  destruct n; cbn [sdec_n]; intros H.
  - injection H as <- _. eexists; reflexivity.
  - destruct (dec bs) as [v r1| | |]; try discriminate. cbn [sbind] in H.
    destruct (sdec_n dec n r1) as [vs' r2| | |]; try discriminate. cbn [sbind] in H.
    unfold scons in H. destruct vs'; try discriminate. injection H as <- _. eexists; reflexivity.
Qed.

Lemma sdec_n_suf dec n (fw : option nat) (cons : bool) :
  (forall bs v r, dec bs = SOk v r ->
     exists p, bs = p ++ r /\ (cons = true -> p <> []) /\ (forall w, fw = Some w -> length p = w)) ->
  forall bs vs r, sdec_n dec n bs = SOk vs r ->
  exists p, bs = p ++ r /\ ((0 < n)%nat -> cons = true -> p <> []) /\ (forall w, fw = Some w -> length p = (n * w)%nat).
Proof.
  intros Hdec. induction n as [|n IH]; intros bs vs r H; cbn [sdec_n] in H.
  - injection H as _ <-. exists []. split; [reflexivity|]. split; [lia|]. intros w _. reflexivity.
  - destruct (dec bs) as [v r1| | |] eqn:H1; try discriminate. cbn [sbind] in H.
    destruct (sdec_n dec n r1) as [vs' r2| | |] eqn:H2; try discriminate. cbn [sbind] in H.
    unfold scons in H. destruct vs'; try discriminate. injection H as _ <-.
    destruct (Hdec _ _ _ H1) as (p1 & E1 & C1 & F1). destruct (IH _ _ _ H2) as (p2 & E2 & _ & F2).
    exists (p1 ++ p2). subst. split; [now rewrite app_assoc|]. split.
    + intros _ Hc. specialize (C1 Hc). destruct p1; [congruence|discriminate].
    + intros w Hw. rewrite app_length, (F1 w Hw), (F2 w Hw). lia.
Qed.

Lemma sflatten_inv s vs r : sflatten s = SOk vs r -> exists vs0, s = SOk vs0 r.
Proof.
  unfold sflatten. destruct s as [v0 r0| | |]; try discriminate. cbn [sbind].
  destruct v0; try discriminate. destruct (concat_vlists l); [|discriminate]. intros H. injection H as _ <-. eexists; reflexivity.
Qed.

Lemma sfixed_arr n e : sfixed (TArrFixed n e) = match sfixed e with Some w => Some (n * w)%nat | None => None end.
Proof. reflexivity. Qed.

Lemma suf_TArrFixed n e : SUF e -> SUF (TArrFixed n e).
Proof.
  intros He Hw bs v r H. cbn [wire_ty] in Hw. apply andb_prop in Hw as [Hwe _].
  assert (Hn : exists vs, sdec_n (spec_decode e) n bs = SOk vs r).
  { destruct e; cbn [spec_decode] in H; try (eexists; exact H). apply sflatten_inv in H. exact H. }
  destruct Hn as [vs Hn].
  destruct (sdec_n_suf (spec_decode e) n (sfixed e) (sconsumes e) (He Hwe) _ _ _ Hn) as (p & E & C & F).
  exists p. split; [exact E|]. split.
  - cbn [sconsumes]. intros Hc. apply andb_prop in Hc as [Hn0 Hc]. apply C; [lia|exact Hc].
  - rewrite sfixed_arr. intros w Hw'. destruct (sfixed e) as [we|]; [|discriminate]. injection Hw' as <-. now apply F.
Qed.

Lemma sdec_all_rest dec fuel bs vs r : sdec_all dec fuel bs = SOk vs r -> r = [].
Proof.
  revert bs vs r. induction fuel as [|f IH]; intros bs vs r H; destruct bs as [|b bs']; cbn [sdec_all] in H;
    try (injection H as _ <-; reflexivity); try discriminate.
  destruct (dec (b :: bs')) as [v r1| | |]; try discriminate.
  destruct (length r1 <? length (b :: bs'))%nat; [|discriminate].
  destruct (sdec_all dec f r1) as [vs' r2| | |] eqn:H2; try discriminate. cbn [sbind] in H.
  unfold scons in H. destruct vs'; try discriminate. injection H as _ <-. eapply IH; eassumption.
Qed.

Lemma suf_TArrAll e : SUF (TArrAll e).
Proof.
  intros _ bs v r H.
  assert (Hr : r = []).
  { destruct e; cbn [spec_decode] in H; try (eapply sdec_all_rest; exact H).
    apply sflatten_inv in H as [vs0 H]. eapply sdec_all_rest; exact H. }
  subst r. exists bs. split; [now rewrite app_nil_r|]. split; [discriminate|]. cbn [sfixed]. discriminate.
Qed.

Definition sdec_ms (ms : list (key * ty)) := map (fun m : key * ty => (fst m, spec_decode (snd m))) ms.

Lemma sdec_members_suf ms :
  Forall (fun m : key * ty => SUF (snd m)) ms -> forallb (fun m : key * ty => wire_ty (snd m)) ms = true ->
  forall bs v r, sdec_members (sdec_ms ms) bs = SOk v r ->
  exists p, bs = p ++ r /\ (sheadb (fun m : key * ty => sconsumes (snd m)) ms = true -> p <> [])
            /\ (forall w, sum_widths (map (fun m : key * ty => sfixed (snd m)) ms) = Some w -> length p = w)
            /\ exists l, v = VDict l.
Proof.
  intros Hall. induction Hall as [|[k t] ms Ht _ IH]; intros Hw bs v r H.
  - cbn in H. injection H as <- <-. exists []. split; [reflexivity|]. split; [discriminate|]. split.
    + cbn. intros w Hw'. injection Hw' as <-. reflexivity.
    + eexists; reflexivity.
  - cbn [snd] in Ht. cbn [forallb snd] in Hw. apply andb_prop in Hw as [Hwt Hwr].
    cbn [sdec_ms map sdec_members fst snd] in H. fold (sdec_ms ms) in H.
    destruct (spec_decode t bs) as [x r1| | |] eqn:H1; try discriminate. cbn [sbind] in H.
    destruct (sdec_members (sdec_ms ms) r1) as [d r2| | |] eqn:H2; try discriminate. cbn [sbind] in H.
    destruct (Ht Hwt _ _ _ H1) as (p1 & E1 & C1 & F1).
    destruct (IH Hwr _ _ _ H2) as (p2 & E2 & _ & F2 & (l & ->)).
    unfold sadd in H. injection H as <- <-.
    exists (p1 ++ p2). subst. split; [now rewrite app_assoc|]. split; [|split].
    + cbn [sheadb snd]. intros Hc. specialize (C1 Hc). destruct p1; [congruence|discriminate].
    + cbn [map sum_widths snd]. intros w Hw'. destruct (sfixed t) as [wt|]; [|discriminate].
      destruct (sum_widths (map (fun m : key * ty => sfixed (snd m)) ms)) as [wr|]; [|discriminate].
      injection Hw' as <-. rewrite app_length, (F1 wt eq_refl), (F2 wr eq_refl). reflexivity.
    + eexists; reflexivity.
Qed.

Lemma suf_TStruct k ms : Forall (fun m : key * ty => SUF (snd m)) ms -> SUF (TStruct k ms).
Proof.
  intros Hall Hw bs v r H. destruct k; try discriminate Hw.
  cbn [wire_ty] in Hw. apply andb_prop in Hw as [Hw _]. apply andb_prop in Hw as [Hwm _].
  cbn [spec_decode] in H. fold (sdec_ms ms) in H.
  destruct (sdec_members_suf ms Hall Hwm _ _ _ H) as (p & E & C & F & _).
  exists p. split; [exact E|]. split; [exact C|exact F].
Qed.

Lemma suf_TStructTag ms bits priv size : SUF (TStructTag ms bits priv size).
Proof.
  intros _ bs v r H. cbn [spec_decode] in H. unfold sdec_stag in H.
  destruct bs as [|b0 bs'] eqn:Hbs; [discriminate|]. rewrite <- Hbs in *. clear Hbs b0 bs'.
  destruct (length bs <? size)%nat eqn:E; [discriminate|]. apply Nat.ltb_ge in E.
  destruct (sdec_stag_members _ priv (firstn size bs)) as [d r0| | |]; try discriminate. cbn [sbind] in H.
  destruct d; try discriminate. injection H as _ <-.
  destruct (split_at size bs E) as [S1 S2]. exists (firstn size bs). split; [exact S1|]. split.
  - cbn [sconsumes]. intros Hc. apply andb_prop in Hc as [Hs _]. apply nonempty_length. apply Nat.ltb_lt in Hs. lia.
  - cbn [sfixed]. intros w Hw. injection Hw as <-. exact S2.
Qed.

Lemma SUF_all : forall t, SUF t.
Proof.
  apply wire_ty_ind.
  - exact suf_TBool.
  - exact suf_TInt.
  - exact suf_TReal.
  - exact suf_TDateTime.
  - exact suf_TStr.
  - exact suf_TStringN.
  - intros Hw. discriminate Hw.
  - exact suf_TNBytes.
  - exact suf_TBits.
  - exact suf_TArrFixed.
  - intros inst lt e _ _ Hw. discriminate Hw.
  - intros e _. exact (suf_TArrAll e).
  - exact suf_TStruct.
  - exact suf_TFixedStr.
  - intros ms bits priv size _. exact (suf_TStructTag ms bits priv size).
  - intros Hw. discriminate Hw.
  - intros Hw. discriminate Hw.
  - intros Hw. discriminate Hw.
Qed.

(* ------------------------------------------------------------------ (C) the empty buffer *)
Definition EMP (t : ty) : Prop :=
  wire_ty t = true -> sconsumes t = true -> forall fuel, decode_fuel fuel t [] = DEmpty [].

Lemma elem_decode_nil size unpack : (0 < size)%nat -> elem_decode size unpack [] = DEmpty [].
Proof. intros H. unfold elem_decode. now rewrite stream_read_nil by lia. Qed.
Lemma int_decode_nil sg w : (0 < w)%nat -> int_decode sg w [] = DEmpty [].
Proof. apply elem_decode_nil. Qed.
Lemma named_int_decode_nil_UINT : named_int_decode n_UINT [] = DEmpty [].
Proof. unfold named_int_decode. rewrite int_row_UINT. apply int_decode_nil. lia. Qed.
Lemma named_int_decode_nil_UDINT : named_int_decode n_UDINT [] = DEmpty [].
Proof. unfold named_int_decode. rewrite int_row_UDINT. apply int_decode_nil. lia. Qed.

Lemma emp_TBool : EMP TBool.
Proof. intros _ _ fuel. cbn [decode_fuel]. apply elem_decode_nil. lia. Qed.
Lemma emp_TInt sg w : EMP (TInt sg w).
Proof. intros Hw _ fuel. cbn [wire_ty] in Hw. cbn [decode_fuel]. apply int_decode_nil. lia. Qed.
Lemma emp_TReal dbl : EMP (TReal dbl).
Proof. intros _ _ fuel. cbn [decode_fuel]. apply elem_decode_nil. destruct dbl; lia. Qed.
Lemma emp_TDateTime : EMP TDateTime.
Proof. intros _ _ fuel. cbn [decode_fuel]. unfold datetime_decode. now rewrite named_int_decode_nil_UDINT. Qed.
Lemma emp_TStr a b c : EMP (TStr a b c).
Proof. intros Hw _ fuel. cbn [wire_ty] in Hw. cbn [decode_fuel]. unfold str_decode. now rewrite int_decode_nil by lia. Qed.
Lemma emp_TStringN : EMP TStringN.
Proof. intros _ _ fuel. cbn [decode_fuel]. unfold stringn_decode. now rewrite named_int_decode_nil_UINT. Qed.
Lemma emp_TNBytes n : EMP (TNBytes n).
Proof. intros Hw _ fuel. cbn [wire_ty] in Hw. cbn [decode_fuel]. unfold nbytes_decode. now rewrite stream_read_nil by lia. Qed.
Lemma emp_TBits w : EMP (TBits w).
Proof. intros Hw _ fuel. cbn [wire_ty] in Hw. cbn [decode_fuel]. unfold bits_decode. now rewrite int_decode_nil by lia. Qed.
Lemma emp_TFixedStr a b c d : EMP (TFixedStr a b c d).
Proof.
  intros Hw _ fuel. cbn [wire_ty] in Hw. cbn [decode_fuel]. unfold fixedstr_decode. rewrite fss_enc_latin1.
  now rewrite int_decode_nil by lia.
Qed.

Lemma emp_TArrFixed n e : EMP e -> EMP (TArrFixed n e).
Proof.
  intros He Hw Hc fuel. cbn [wire_ty] in Hw. apply andb_prop in Hw as [Hwe _].
  cbn [sconsumes] in Hc. apply andb_prop in Hc as [Hn Hce]. destruct n; [discriminate|].
  cbn [decode_fuel]. unfold array_decode_fixed. cbn [decode_n]. now rewrite (He Hwe Hce fuel).
Qed.

Lemma emp_TStruct k ms : Forall (fun m : key * ty => EMP (snd m)) ms -> EMP (TStruct k ms).
Proof.
  intros Hall Hw Hc fuel. destruct k; try discriminate Hw.
  cbn [wire_ty] in Hw. apply andb_prop in Hw as [Hw _]. apply andb_prop in Hw as [Hwm _].
  destruct ms as [|[k t] ms]; [discriminate|]. cbn [sconsumes sheadb snd] in Hc.
  cbn [forallb snd] in Hwm. apply andb_prop in Hwm as [Hwt _].
  inversion Hall as [|? ? Ht _]; subst. cbn [snd] in Ht.
  cbn [decode_fuel map fst snd]. unfold struct_decode, struct_decode_inner. cbn [struct_decode_members].
  now rewrite (Ht Hwt Hc fuel).
Qed.

Lemma emp_TStructTag ms bits priv size : Forall (fun m : (key * nat) * ty => EMP (snd m)) ms -> EMP (TStructTag ms bits priv size).
Proof.
  intros Hall Hw Hc fuel. cbn [wire_ty] in Hw. apply andb_prop in Hw as [Hwm _].
  cbn [sconsumes] in Hc. apply andb_prop in Hc as [Hs Hc].
  destruct ms as [|[[k off] t] ms]; [discriminate|]. cbn [sheadb snd] in Hc.
  cbn [forallb snd] in Hwm. apply andb_prop in Hwm as [Hwt _].
  inversion Hall as [|? ? Ht _]; subst. cbn [snd] in Ht.
  cbn [decode_fuel map fst snd]. unfold structtag_decode. rewrite firstn_nil, skipn_nil.
  cbn [length Nat.eqb negb andb stag_decode_members]. rewrite skipn_nil, (Ht Hwt Hc fuel). reflexivity.
Qed.

Lemma EMP_all : forall t, EMP t.
Proof.
  apply wire_ty_ind.
  - exact emp_TBool.
  - exact emp_TInt.
  - exact emp_TReal.
  - exact emp_TDateTime.
  - exact emp_TStr.
  - exact emp_TStringN.
  - intros Hw. discriminate Hw.
  - exact emp_TNBytes.
  - exact emp_TBits.
  - exact emp_TArrFixed.
  - intros inst lt e _ _ Hw. discriminate Hw.
  - intros e _ _ Hc. discriminate Hc.
  - exact emp_TStruct.
  - exact emp_TFixedStr.
  - exact emp_TStructTag.
  - intros Hw. discriminate Hw.
  - intros Hw. discriminate Hw.
  - intros Hw. discriminate Hw.
Qed.

(* ------------------------------------------------------------------ (B) the decoders *)
Lemma rel_dwrap s d : Rel s d -> Rel s (dwrap d).
Proof.
  destruct s; cbn [Rel]; intros H; try exact I.
  - now subst.
  - now subst.
  - destruct H as [r ->]. eexists; reflexivity.
Qed.

Lemma rel_bind s d f g :
  Rel s d -> (forall v r, s = SOk v r -> Rel (f v r) (dwrap (g v r))) -> Rel (sbind s f) (dwrap (dbind d g)).
Proof.
  intros H Hk. destruct s as [v r| | |]; cbn [Rel] in H; cbn [sbind].
  - subst d. cbn [dbind]. now apply Hk.
  - subst d. reflexivity.
  - destruct H as [r ->]. cbn. eexists; reflexivity.
  - exact I.
Qed.

Lemma rel_bind_nowrap s d f g :
  Rel s d -> (forall v r, s = SOk v r -> Rel (f v r) (g v r)) -> Rel (sbind s f) (dbind d g).
Proof.
  intros H Hk. destruct s as [v r| | |]; cbn [Rel] in H; cbn [sbind].
  - subst d. cbn [dbind]. now apply Hk.
  - subst d. reflexivity.
  - destruct H as [r ->]. cbn. eexists; reflexivity.
  - exact I.
Qed.

Lemma block_rel n bs ks km :
  0 < n ->
  (n <= blen bs -> Rel (ks (firstn (Z.to_nat n) bs) (skipn (Z.to_nat n) bs)) (km (firstn (Z.to_nat n) bs) (skipn (Z.to_nat n) bs))) ->
  Rel (sblock n bs ks) (stream_read n bs km).
Proof.
  intros Hn Hk. unfold sblock. destruct bs as [|b0 bs'] eqn:Hbs.
  - rewrite stream_read_nil by lia. cbn. eexists; reflexivity.
  - rewrite <- Hbs in *. assert (Hne : bs <> []) by (subst; discriminate). destruct (blen bs <? n) eqn:E.
    + rewrite stream_read_short by (try exact Hne; lia). reflexivity.
    + rewrite stream_read_full by lia. apply Hk. lia.
Qed.

Definition DEC (t : ty) : Prop :=
  wire_ty t = true -> forall fuel bs, bytes_ok bs = true -> (length bs < fuel)%nat ->
  Rel (spec_decode t bs) (decode_fuel fuel t bs).

Lemma named_int_decode_UINT bs : named_int_decode n_UINT bs = int_decode false 2 bs.
Proof. unfold named_int_decode. now rewrite int_row_UINT. Qed.
Lemma named_int_decode_UDINT bs : named_int_decode n_UDINT bs = int_decode false 4 bs.
Proof. unfold named_int_decode. now rewrite int_row_UDINT. Qed.

Lemma dec_TDateTime : DEC TDateTime.
Proof.
  intros _ fuel bs Hok _. cbn [spec_decode decode_fuel]. unfold sdec_datetime, datetime_decode.
  rewrite named_int_decode_UDINT. apply rel_bind; [apply int_rel; lia|]. intros t r1 _.
  rewrite named_int_decode_UINT. apply rel_bind; [apply int_rel; lia|]. intros d r2 _. reflexivity.
Qed.

Lemma spec_int_val_unsigned w p : bytes_ok p = true -> 0 <= spec_int_val false w p.
Proof.
  intros H. unfold spec_int_val. cbn [andb]. rewrite spec_le_val_le_dec. pose proof (le_dec_range p H). lia.
Qed.

Lemma bytes_ok_app_l p r : bytes_ok (p ++ r) = true -> bytes_ok p = true.
Proof. rewrite bytes_ok_app. intros H. now apply andb_prop in H as [H _]. Qed.

(* the characters of a string: [n] units of [cw] bytes, decoded as the encoding says *)
Lemma chars_rel e cw n r1 :
  char_width e = Some cw -> 0 < n -> bytes_ok r1 = true ->
  Rel (sdec_chars cw n r1)
      (dwrap (stream_read (n * enc_char_size e) r1 (fun data r2 =>
                match text_decode e data with Ok s => DOk (VStr s) r2 | Err err => DErr err end))).
Proof.
  intros He Hn Hok. unfold sdec_chars, sblock. rewrite (char_width_size _ _ He).
  assert (Hcw : 0 < Z.of_nat cw) by (destruct e; cbn in He; try discriminate; injection He as <-; lia).
  set (N := n * Z.of_nat cw). assert (HN : 0 < N) by (unfold N; nia).
  destruct r1 as [|b0 r'] eqn:Hr.
  - rewrite stream_read_nil by lia. cbn. eexists; reflexivity.
  - rewrite <- Hr in *. assert (Hne : r1 <> []) by (subst; discriminate). destruct (blen r1 <? N) eqn:E.
    + rewrite stream_read_short by (try exact Hne; lia). reflexivity.
    + rewrite stream_read_full by lia.
      rewrite (text_decode_spec e cw _ He) by now apply bytes_ok_firstn.
      destruct (spec_chars_dec cw _ _); reflexivity.
Qed.

Lemma rel_err_wrap s e : Rel s (DErr e) -> Rel s (dwrap (DErr e)).
Proof. apply rel_dwrap. Qed.

Lemma dec_TStr lsg lw e : DEC (TStr lsg lw e).
Proof.
  intros Hw fuel bs Hok _. cbn [wire_ty] in Hw.
  destruct (char_width e) as [cw|] eqn:Hcw; [|lia]. destruct lsg; [cbn in Hw; lia|]. assert (Hlw : (0 < lw)%nat) by lia.
  cbn [spec_decode decode_fuel]. rewrite Hcw. unfold sdec_str, str_decode.
  apply rel_bind; [now apply int_rel|]. intros v r1 Hv.
  apply sdec_int_suf in Hv as (p & E & L & -> & _). cbn [as_int].
  assert (Hp : bytes_ok p = true) by (subst bs; now apply bytes_ok_app_l in Hok).
  assert (Hr1 : bytes_ok r1 = true) by (subst bs; now apply bytes_ok_suffix in Hok).
  pose proof (spec_int_val_unsigned lw p Hp) as Hn.
  destruct (spec_int_val false lw p =? 0) eqn:E0; [reflexivity|].
  exact (chars_rel e cw (spec_int_val false lw p) r1 Hcw ltac:(lia) Hr1).
Qed.

Lemma stringn_enc_sizes :
  stringn_enc 1 = Some Latin1 /\ stringn_enc 2 = Some Utf16 /\ stringn_enc 4 = Some Utf32.
Proof. repeat split; reflexivity. Qed.
Lemma stringn_enc_other c : c <> 1 -> c <> 2 -> c <> 4 -> stringn_enc c = None.
Proof.
  intros H1 H2 H4. unfold stringn_enc. cbn [Gen.CodecFacts.stringn_encodings zlookup].
  destruct (1 =? c) eqn:E1; [lia|]. destruct (2 =? c) eqn:E2; [lia|]. destruct (4 =? c) eqn:E4; [lia|]. reflexivity.
Qed.

Lemma dec_TStringN : DEC TStringN.
Proof.
  intros _ fuel bs Hok _. cbn [spec_decode decode_fuel]. unfold sdec_stringn, stringn_decode.
  rewrite named_int_decode_UINT. apply rel_bind; [apply int_rel; lia|]. intros cs r1 Hcs.
  apply sdec_int_suf in Hcs as (p1 & E1 & L1 & -> & _).
  assert (Hr1 : bytes_ok r1 = true) by (subst bs; now apply bytes_ok_suffix in Hok).
  rewrite named_int_decode_UINT.
  apply rel_bind; [apply int_rel; lia|]. intros cnt r2 Hcnt.
  apply sdec_int_suf in Hcnt as (p2 & E2 & L2 & -> & _). cbn [as_int].
  assert (Hp2 : bytes_ok p2 = true) by (subst r1; now apply bytes_ok_app_l in Hr1).
  assert (Hr2 : bytes_ok r2 = true) by (subst r1; now apply bytes_ok_suffix in Hr1).
  pose proof (spec_int_val_unsigned 2 p2 Hp2) as Hn.
  set (c := spec_int_val false 2 p1). set (n := spec_int_val false 2 p2) in *.
  destruct stringn_enc_sizes as (S1 & S2 & S4).
  destruct ((c =? 1) || (c =? 2) || (c =? 4)) eqn:Ec.
  - assert (Hcase : exists e cw, stringn_enc c = Some e /\ char_width e = Some cw /\ Z.of_nat cw = c).
    { destruct (c =? 1) eqn:C1; [exists Latin1, 1%nat; replace c with 1 by lia; auto|].
      destruct (c =? 2) eqn:C2; [exists Utf16, 2%nat; replace c with 2 by lia; auto|].
      exists Utf32, 4%nat. replace c with 4 by lia. auto. }
    destruct Hcase as (e & cw & He & Hcw & Hc). rewrite He.
    destruct (n =? 0) eqn:E0; [reflexivity|].
    replace (Z.to_nat c) with cw by lia.
    pose proof (chars_rel e cw n r2 Hcw ltac:(lia) Hr2) as Hr. rewrite (char_width_size _ _ Hcw), Hc in Hr. exact Hr.
  - rewrite stringn_enc_other by lia. reflexivity.
Qed.

Lemma dec_TNBytes n : DEC (TNBytes n).
Proof.
  intros Hw fuel bs Hok _. cbn [wire_ty] in Hw. cbn [spec_decode decode_fuel]. unfold sdec_nbytes, nbytes_decode.
  apply rel_dwrap. destruct (n =? -1) eqn:E.
  - assert (n = -1) by lia. subst n. unfold stream_read, stream_take. cbn [Z.ltb Z.compare Z.eqb].
    destruct bs as [|b bs']; [cbn; eexists; reflexivity|].
    destruct (zlen (b :: bs') <? -1) eqn:E2; [unfold zlen in E2; lia|reflexivity].
  - apply block_rel; [lia|]. intros _. reflexivity.
Qed.

Lemma dec_TFixedStr size lsg lw cap : DEC (TFixedStr size lsg lw cap).
Proof.
  intros Hw fuel bs Hok _. cbn [wire_ty] in Hw. destruct lsg; [cbn in Hw; lia|]. assert (Hlw : (0 < lw)%nat) by lia.
  cbn [spec_decode decode_fuel]. unfold sdec_fixedstr, fixedstr_decode. rewrite fss_enc_latin1.
  apply rel_bind; [now apply int_rel|]. intros v r1 Hv.
  apply sdec_int_suf in Hv as (p & E & L & -> & _). cbn [as_int].
  assert (Hp : bytes_ok p = true) by (subst bs; now apply bytes_ok_app_l in Hok).
  pose proof (spec_int_val_unsigned lw p Hp) as Hn.
  apply rel_dwrap. apply block_rel; [lia|]. intros Hle. rewrite Nat2Z.id. cbn [text_decode].
  unfold slice_to. destruct (0 <=? spec_int_val false lw p) eqn:E0; [|lia].
  unfold ztake, zlen. rewrite firstn_length_le by (unfold blen in Hle; lia). reflexivity.
Qed.

(* ---- arrays *)
Lemma sdec_all_vlist dec fuel bs vs r : sdec_all dec fuel bs = SOk vs r -> exists l, vs = VList l.
Proof.
  destruct fuel as [|f]; destruct bs as [|b bs']; cbn [sdec_all]; intros H;
    try (injection H as <- _; eexists; reflexivity); try discriminate.
  destruct (dec (b :: bs')) as [v r1| | |]; try discriminate.
  destruct (length r1 <? length (b :: bs'))%nat; [|discriminate].
  destruct (sdec_all dec f r1) as [vs' r2| | |]; try discriminate. cbn [sbind] in H.
  unfold scons in H. destruct vs'; try discriminate. injection H as <- _. eexists; reflexivity.
Qed.

Lemma suffix_facts (bs p r : bytes) : bs = p ++ r -> bytes_ok bs = true -> bytes_ok r = true /\ (length r <= length bs)%nat.
Proof. intros -> H. split; [now apply bytes_ok_suffix in H|rewrite app_length; lia]. Qed.

Section Elem.
  Variables (sdec : bytes -> sres) (mdec : bytes -> dres) (fuel : nat).
  Hypothesis Hrel : forall bs, bytes_ok bs = true -> (length bs < fuel)%nat -> Rel (sdec bs) (mdec bs).
  Hypothesis Hsuf : forall bs v r, sdec bs = SOk v r -> exists p, bs = p ++ r.

  Lemma decode_n_rel n : forall bs, bytes_ok bs = true -> (length bs < fuel)%nat -> Rel (sdec_n sdec n bs) (decode_n mdec n bs).
  Proof.
    induction n as [|n IH]; intros bs Hok Hf; [reflexivity|].
    cbn [sdec_n decode_n]. apply rel_bind_nowrap; [now apply Hrel|]. intros v r1 Hv.
    destruct (Hsuf _ _ _ Hv) as [p E]. destruct (suffix_facts _ _ _ E Hok) as [Hok1 Hl1].
    apply rel_bind_nowrap; [apply IH; [exact Hok1|lia]|]. intros vs r2 Hvs.
    apply sdec_n_vlist in Hvs as [l ->]. reflexivity.
  Qed.

  Hypothesis Hprog : forall bs v r, sdec bs = SOk v r -> (length r < length bs)%nat.
  Hypothesis Hemp : mdec [] = DEmpty [].

  Lemma decode_all_rel sf : forall f bs,
    bytes_ok bs = true -> (length bs < fuel)%nat -> (length bs < f)%nat -> (length bs <= sf)%nat ->
    Rel (sdec_all sdec sf bs) (decode_all mdec f bs).
  Proof.
    induction sf as [|sf IH]; intros f bs Hok Hfu Hf Hsf.
    - destruct bs; [|cbn in Hsf; lia]. destruct f; [lia|]. cbn [sdec_all decode_all]. now rewrite Hemp.
    - destruct f as [|f]; [lia|]. destruct bs as [|b bs'] eqn:Hbs.
      + cbn [sdec_all decode_all]. now rewrite Hemp.
      + rewrite <- Hbs in *. assert (Hsd : sdec_all sdec (S sf) bs =
                 match sdec bs with
                 | SOk v r => if (length r <? length bs)%nat then sbind (sdec_all sdec sf r) (scons v) else SBad
                 | SEnd => STrunc
                 | x => x
                 end) by (rewrite Hbs; reflexivity).
        rewrite Hsd. cbn [decode_all]. pose proof (Hrel bs Hok Hfu) as Hr.
        destruct (sdec bs) as [v r| | |] eqn:Hs; cbn [Rel] in Hr.
        * rewrite Hr. pose proof (Hprog _ _ _ Hs) as Hp.
          replace (length r =? length bs)%nat with false by (symmetry; apply Nat.eqb_neq; lia).
          apply Nat.ltb_lt in Hp. rewrite Hp. apply Nat.ltb_lt in Hp.
          destruct (Hsuf _ _ _ Hs) as [p E]. destruct (suffix_facts _ _ _ E Hok) as [Hok1 _].
          apply rel_bind_nowrap; [apply IH; [exact Hok1|lia|lia|lia]|]. intros vs r2 Hvs.
          apply sdec_all_vlist in Hvs as [l ->]. reflexivity.
        * now rewrite Hr.
        * exact I.
        * exact I.
  Qed.
End Elem.

Lemma is_bits_bitstr e : is_bits e = is_bitstr e.
Proof. destruct e; reflexivity. Qed.

Lemma spec_decode_arr_plain n e : is_bitstr e = false -> spec_decode (TArrFixed n e) = sdec_n (spec_decode e) n.
Proof. destruct e; try reflexivity; discriminate. Qed.
Lemma spec_decode_all_plain e :
  is_bitstr e = false -> spec_decode (TArrAll e) = fun bs => sdec_all (spec_decode e) (length bs) bs.
Proof. destruct e; try reflexivity; discriminate. Qed.

Lemma suf_weak e : wire_ty e = true -> forall bs v r, spec_decode e bs = SOk v r -> exists p, bs = p ++ r.
Proof. intros Hw bs v r H. destruct (SUF_all e Hw bs v r H) as (p & E & _). now exists p. Qed.

Lemma array_flatten_plain vs rest : array_flatten false vs rest = DOk vs rest.
Proof. reflexivity. Qed.

Lemma rel_flatten_plain s d : Rel s d -> Rel s (dwrap (dbind d (array_flatten false))).
Proof.
  destruct s as [v r| | |]; cbn [Rel]; intros H; try exact I.
  - now subst.
  - now subst.
  - destruct H as [r ->]. eexists; reflexivity.
Qed.

Lemma dec_TArrFixed_plain n e : is_bitstr e = false -> DEC e -> DEC (TArrFixed n e).
Proof.
  intros Hnb He Hw fuel bs Hok Hf. cbn [wire_ty] in Hw. apply andb_prop in Hw as [Hwe _].
  rewrite spec_decode_arr_plain by exact Hnb. cbn [decode_fuel]. unfold array_decode_fixed.
  rewrite is_bits_bitstr, Hnb. apply rel_flatten_plain.
  exact (decode_n_rel (spec_decode e) (decode_fuel fuel e) fuel (fun b Hb Hl => He Hwe fuel b Hb Hl) (suf_weak e Hwe) n bs Hok Hf).
Qed.

Lemma elem_progress e : wire_ty e = true -> sconsumes e = true ->
  forall b v r, spec_decode e b = SOk v r -> (length r < length b)%nat.
Proof.
  intros Hwe Hc b v r H. destruct (SUF_all e Hwe b v r H) as (p & E & C & _). specialize (C Hc). subst b.
  rewrite app_length. destruct p; [congruence|cbn; lia].
Qed.

Lemma dec_TArrAll_plain e : is_bitstr e = false -> DEC e -> DEC (TArrAll e).
Proof.
  intros Hnb He Hw fuel bs Hok Hf. cbn [wire_ty] in Hw. apply andb_prop in Hw as [Hw Hc]. apply andb_prop in Hw as [Hwe _].
  rewrite spec_decode_all_plain by exact Hnb. cbn [decode_fuel]. unfold array_decode_all.
  rewrite is_bits_bitstr, Hnb. apply rel_flatten_plain.
  apply (decode_all_rel (spec_decode e) (decode_fuel fuel e) fuel (fun b Hb Hl => He Hwe fuel b Hb Hl) (suf_weak e Hwe)); try lia; try exact Hok.
  - exact (elem_progress e Hwe Hc).
  - exact (EMP_all e Hwe Hc fuel).
Qed.

(* ---- arrays of bit strings: decoded element by element, then flattened *)
Lemma concat_chain l f : concat_vlists l = Some f -> chain_vals l = Ok f.
Proof.
  revert f. induction l as [|v l IH]; intros f H; cbn [concat_vlists] in H.
  - injection H as <-. reflexivity.
  - destruct v; try discriminate. destruct (concat_vlists l) as [f'|]; [|discriminate].
    cbn [option_map] in H. injection H as <-. cbn [chain_vals py_iter bind]. now rewrite (IH f' eq_refl).
Qed.

Lemma sdec_bits_vlist w bs v r : sdec_bits w bs = SOk v r -> exists l, v = VList l.
Proof. unfold sdec_bits. intros H. apply sfield_inv in H as (_ & _ & H). injection H as <- _. eexists; reflexivity. Qed.

Lemma sdec_n_bits_lists w n bs l r :
  sdec_n (sdec_bits w) n bs = SOk (VList l) r -> exists f, concat_vlists l = Some f.
Proof.
  revert bs l r. induction n as [|n IH]; intros bs l r H; cbn [sdec_n] in H.
  - injection H as <- _. eexists; reflexivity.
  - destruct (sdec_bits w bs) as [v r1| | |] eqn:H1; try discriminate. cbn [sbind] in H.
    destruct (sdec_n (sdec_bits w) n r1) as [vs r2| | |] eqn:H2; try discriminate. cbn [sbind] in H.
    unfold scons in H. destruct vs; try discriminate. injection H as <- _.
    destruct (IH _ _ _ H2) as [f Hf]. destruct (sdec_bits_vlist _ _ _ _ H1) as [a ->].
    cbn [concat_vlists]. rewrite Hf. eexists; reflexivity.
Qed.

Lemma sdec_all_bits_lists w fuel bs l r :
  sdec_all (sdec_bits w) fuel bs = SOk (VList l) r -> exists f, concat_vlists l = Some f.
Proof.
  revert bs l r. induction fuel as [|f IH]; intros bs l r H; destruct bs as [|b bs']; cbn [sdec_all] in H;
    try (injection H as <- _; eexists; reflexivity); try discriminate.
  destruct (sdec_bits w (b :: bs')) as [v r1| | |] eqn:H1; try discriminate.
  destruct (length r1 <? length (b :: bs'))%nat; [|discriminate].
  destruct (sdec_all (sdec_bits w) f r1) as [vs r2| | |] eqn:H2; try discriminate. cbn [sbind] in H.
  unfold scons in H. destruct vs; try discriminate. injection H as <- _.
  destruct (IH _ _ _ H2) as [fl Hf]. destruct (sdec_bits_vlist _ _ _ _ H1) as [a ->].
  cbn [concat_vlists]. rewrite Hf. eexists; reflexivity.
Qed.

(* flattening on both sides, once the element lists are known to be lists of lists *)
Lemma rel_flatten_bits s d :
  Rel s d -> (forall vs r, s = SOk vs r -> exists l f, vs = VList l /\ concat_vlists l = Some f) ->
  Rel (sflatten s) (dwrap (dbind d (array_flatten true))).
Proof.
  intros H Hl. unfold sflatten. destruct s as [vs r| | |]; cbn [Rel sbind] in H |- *; try exact I.
  - subst d. destruct (Hl vs r eq_refl) as (l & f & -> & Hf). cbn [dbind array_flatten]. rewrite Hf, (concat_chain _ _ Hf). reflexivity.
  - now subst.
  - destruct H as [r ->]. eexists; reflexivity.
Qed.

Lemma wire_TBits w : (0 < w)%nat -> wire_ty (TBits w) = true.
Proof. intros H. cbn [wire_ty]. now apply Nat.ltb_lt. Qed.

Lemma dec_TArrFixed_bits n w : DEC (TArrFixed n (TBits w)).
Proof.
  intros Hw fuel bs Hok Hf. cbn [wire_ty sgreedy] in Hw. assert (Hw' : (0 < w)%nat) by lia.
  cbn [spec_decode decode_fuel is_bits]. unfold array_decode_fixed.
  apply rel_flatten_bits.
  - exact (decode_n_rel (sdec_bits w) (bits_decode w) fuel (fun b Hb _ => bits_rel w b Hw' Hb)
             (suf_weak (TBits w) (wire_TBits w Hw')) n bs Hok Hf).
  - intros vs r Hs. destruct (sdec_n_vlist _ _ _ _ _ Hs) as [l ->].
    destruct (sdec_n_bits_lists _ _ _ _ _ Hs) as [f Hfl]. now exists l, f.
Qed.

Lemma dec_TArrAll_bits w : DEC (TArrAll (TBits w)).
Proof.
  intros Hw fuel bs Hok Hf. cbn [wire_ty sgreedy sconsumes] in Hw. assert (Hw' : (0 < w)%nat) by lia.
  cbn [spec_decode decode_fuel is_bits]. unfold array_decode_all.
  apply rel_flatten_bits.
  - apply (decode_all_rel (sdec_bits w) (bits_decode w) fuel (fun b Hb _ => bits_rel w b Hw' Hb)
             (suf_weak (TBits w) (wire_TBits w Hw'))); try lia; try exact Hok.
    + apply (elem_progress (TBits w) (wire_TBits w Hw')). cbn [sconsumes]. now apply Nat.ltb_lt.
    + unfold bits_decode. now rewrite int_decode_nil.
  - intros vs r Hs. destruct (sdec_all_vlist _ _ _ _ _ Hs) as [l ->].
    destruct (sdec_all_bits_lists _ _ _ _ _ Hs) as [f Hfl]. now exists l, f.
Qed.

(* ---- Struct *)
Definition mdec_ms (fuel : nat) (ms : list (key * ty)) := map (fun m : key * ty => (fst m, decode_fuel fuel (snd m))) ms.
Definition named_keys (ms : list (key * ty)) : list key := filter (fun k => negb (sunnamed k)) (map fst ms).

Lemma existsb_false_forall {A} (f : A -> bool) l : existsb f l = false -> forall x, In x l -> f x = false.
Proof.
  intros H x Hin. destruct (f x) eqn:E; [|reflexivity].
  assert (existsb f l = true) by (apply existsb_exists; now exists x). congruence.
Qed.

Lemma fresh_after_set acc k x ks :
  forallb (fun k' => negb (has_key acc k')) ks = true ->
  (forall k', In k' ks -> keyb k k' = false) ->
  forallb (fun k' => negb (has_key (dict_set acc k x) k')) ks = true.
Proof.
  intros Hf Hk. apply forallb_forall. intros k' Hin. rewrite forallb_forall in Hf. specialize (Hf k' Hin).
  rewrite has_key_dict_set. apply negb_true_iff in Hf. rewrite Hf, (Hk k' Hin). reflexivity.
Qed.

Lemma members_rel fuel ms :
  Forall (fun m : key * ty => DEC (snd m)) ms ->
  forallb (fun m : key * ty => wire_ty (snd m)) ms = true ->
  forall acc bs, bytes_ok bs = true -> (length bs < fuel)%nat -> dkeys_nodup acc = true ->
  skeys_distinct (named_keys ms) = true ->
  forallb (fun k => negb (has_key acc k)) (named_keys ms) = true ->
  match sdec_members (sdec_ms ms) bs with
  | SOk v r => exists l final, v = VDict l /\ struct_decode_members (mdec_ms fuel ms) acc bs = DOk (VDict final) r
                               /\ dkeys_nodup final = true /\ strip final = strip acc ++ l
  | SBad => struct_decode_members (mdec_ms fuel ms) acc bs = DErr DataError
  | SEnd => exists r, struct_decode_members (mdec_ms fuel ms) acc bs = DEmpty r
  | STrunc => True
  end.
Proof.
  intros Hall. induction Hall as [|[k t] ms Ht _ IH]; intros Hw acc bs Hok Hf Hnd Hdist Hfresh.
  - cbn. exists [], acc. repeat split; auto. now rewrite app_nil_r.
  - cbn [snd] in Ht. cbn [forallb snd] in Hw. apply andb_prop in Hw as [Hwt Hwr].
    cbn [sdec_ms mdec_ms map sdec_members struct_decode_members fst snd]. fold (sdec_ms ms). fold (mdec_ms fuel ms).
    pose proof (Ht Hwt fuel bs Hok Hf) as Hr.
    destruct (spec_decode t bs) as [x r1| | |] eqn:Hs; cbn [Rel] in Hr; cbn [sbind].
    + rewrite Hr. cbn [dbind].
      destruct (suf_weak t Hwt _ _ _ Hs) as [p E]. destruct (suffix_facts _ _ _ E Hok) as [Hok1 Hl1].
      unfold named_keys in Hdist, Hfresh. cbn [map filter fst] in Hdist, Hfresh.
      assert (Hpre : dkeys_nodup (dict_set acc k x) = true /\ skeys_distinct (named_keys ms) = true
                     /\ forallb (fun k' => negb (has_key (dict_set acc k x) k')) (named_keys ms) = true
                     /\ strip (dict_set acc k x) = strip acc ++ (if sunnamed k then [] else [(k, x)])).
      { split; [now apply dkeys_nodup_dict_set|].
        destruct (sunnamed k) eqn:Eu; cbn [negb] in Hdist, Hfresh.
        - split; [exact Hdist|]. split.
          + apply fresh_after_set; [exact Hfresh|]. intros k' Hin. apply filter_In in Hin as [_ Hn].
            destruct (keyb k k') eqn:E2; [|reflexivity]. apply keyb_eq in E2. subst k'. rewrite Eu in Hn. discriminate.
          + rewrite app_nil_r. now apply strip_dict_set_unnamed.
        - cbn [skeys_distinct] in Hdist. apply andb_prop in Hdist as [Hd1 Hd2]. cbn [forallb] in Hfresh.
          apply andb_prop in Hfresh as [Hf1 Hf2]. apply negb_true_iff in Hd1, Hf1.
          split; [exact Hd2|]. split.
          + apply fresh_after_set; [exact Hf2|]. intros k' Hin. exact (existsb_false_forall _ _ Hd1 k' Hin).
          + now apply strip_dict_set_named. }
      destruct Hpre as (P1 & P2 & P3 & P4).
      specialize (IH Hwr (dict_set acc k x) r1 Hok1 ltac:(lia) P1 P2 P3).
      destruct (sdec_members (sdec_ms ms) r1) as [v r| | |]; cbn [sbind].
      * destruct IH as (l & final & -> & I1 & I2 & I3). unfold sadd.
        exists (if sunnamed k then l else (k, x) :: l), final. split; [reflexivity|]. split; [exact I1|]. split; [exact I2|].
        rewrite I3, P4, <- app_assoc. destruct (sunnamed k); reflexivity.
      * exact IH.
      * exact IH.
      * exact I.
    + now rewrite Hr.
    + destruct Hr as [r ->]. eexists; reflexivity.
    + exact I.
Qed.

Lemma dec_TStruct k ms : Forall (fun m : key * ty => DEC (snd m)) ms -> DEC (TStruct k ms).
Proof.
  intros Hall Hw fuel bs Hok Hf. destruct k; try discriminate Hw.
  cbn [wire_ty] in Hw. apply andb_prop in Hw as [Hw Hdist]. apply andb_prop in Hw as [Hwm _].
  cbn [spec_decode decode_fuel]. fold (sdec_ms ms). fold (mdec_ms fuel ms).
  unfold struct_decode, struct_decode_inner.
  pose proof (members_rel fuel ms Hall Hwm [] bs Hok Hf eq_refl Hdist) as Hr.
  assert (Hfresh : forallb (fun k => negb (has_key [] k)) (named_keys ms) = true) by (apply forallb_forall; reflexivity).
  specialize (Hr Hfresh).
  destruct (sdec_members (sdec_ms ms) bs) as [v r| | |]; cbn [Rel].
  - destruct Hr as (l & final & -> & H1 & H2 & H3). rewrite H1. cbn [dbind dwrap].
    rewrite (final_dict_strip final H2), H3. reflexivity.
  - now rewrite Hr.
  - destruct Hr as [r ->]. eexists; reflexivity.
  - exact I.
Qed.

(* ---- StructTag *)
Definition mdec_sms (fuel : nat) (ms : list ((key * nat) * ty)) :=
  map (fun m : (key * nat) * ty => (fst m, decode_fuel fuel (snd m))) ms.
Definition sdec_sms (ms : list ((key * nat) * ty)) := map (fun m : (key * nat) * ty => (fst m, spec_decode (snd m))) ms.
Definition mkeys_of (ms : list ((key * nat) * ty)) : list key := map (fun m : (key * nat) * ty => fst (fst m)) ms.
Definition vis (priv : list text) (kv : key * val) : bool := negb (key_in (fst kv) priv).

Lemma sfield_full n bs g :
  0 < n -> n <= blen bs -> sfield n bs (fun d r => SOk (g d) r) = SOk (g (firstn (Z.to_nat n) bs)) (skipn (Z.to_nat n) bs).
Proof.
  intros Hn Hle. unfold sfield. destruct bs as [|b bs'] eqn:Hbs; [unfold blen in Hle; cbn in Hle; lia|].
  rewrite <- Hbs in *. destruct (blen bs <? n) eqn:E; [lia|reflexivity].
Qed.

Lemma stotal_spec t w bs :
  stotal t = true -> wire_ty t = true -> sfixed t = Some w -> (w <= length bs)%nat ->
  exists v, spec_decode t bs = SOk v (skipn w bs).
Proof.
  intros Ht Hw Hf Hl. destruct t; try discriminate Ht; cbn [sfixed] in Hf; injection Hf as <-; cbn [spec_decode wire_ty] in *.
  - unfold sdec_bool. rewrite sfield_full by (unfold blen; lia). eexists; reflexivity.
  - unfold sdec_int. rewrite sfield_full by (unfold blen; lia). rewrite Nat2Z.id. eexists; reflexivity.
  - unfold sdec_real. destruct dbl; rewrite sfield_full by (unfold blen; lia); eexists; reflexivity.
  - unfold sdec_bits. rewrite sfield_full by (unfold blen; lia). rewrite Nat2Z.id. eexists; reflexivity.
Qed.

Lemma has_key_keys E k : has_key E k = existsb (fun k' => keyb k' k) (map fst E).
Proof. unfold has_key. induction E as [|kv E IH]; cbn; [reflexivity|]. now rewrite IH. Qed.

Lemma vis_of_skey priv k v : vis priv (k, v) = negb (skey_in k priv).
Proof. reflexivity. Qed.

Lemma stag_members_rel fuel priv size raw :
  length raw = size -> bytes_ok raw = true -> (size < fuel)%nat ->
  forall ms, Forall (fun m : (key * nat) * ty => DEC (snd m)) ms ->
  forallb (fun m : (key * nat) * ty => wire_ty (snd m)) ms = true ->
  forallb (fun m : (key * nat) * ty => negb (skey_in (fst (fst m)) priv) || stotal (snd m)) ms = true ->
  forallb (inside size) ms = true ->
  forall acc,
  skeys_distinct (mkeys_of ms) = true ->
  forallb (fun k => negb (has_key acc k)) (mkeys_of ms) = true ->
  match sdec_stag_members (sdec_sms ms) priv raw with
  | SOk v _ => exists E sub', v = VDict (filter (vis priv) E)
                              /\ stag_decode_members (mdec_sms fuel ms) acc raw = DOk (VDict (acc ++ E)) sub'
                              /\ map fst E = mkeys_of ms
  | SBad => stag_decode_members (mdec_sms fuel ms) acc raw = DErr DataError
  | SEnd => exists r, stag_decode_members (mdec_sms fuel ms) acc raw = DEmpty r
  | STrunc => True
  end.
Proof.
  intros Hlen Hok Hfuel ms Hall. induction Hall as [|[[k off] t] ms Ht _ IH];
    intros Hw Hp Hin acc Hdist Hfresh.
  - cbn. exists [], []. repeat split. now rewrite app_nil_r.
  - cbn [snd] in Ht. cbn [forallb fst snd] in Hw, Hp, Hin.
    apply andb_prop in Hw as [Hwt Hwr]. apply andb_prop in Hp as [Hpt Hpr]. apply andb_prop in Hin as [Hit Hir].
    unfold inside in Hit. cbn [fst snd] in Hit.
    destruct (sfixed t) as [w|] eqn:Hfw; [|discriminate]. apply Nat.leb_le in Hit.
    cbn [mkeys_of map fst] in Hdist, Hfresh. fold (mkeys_of ms) in Hdist, Hfresh.
    cbn [skeys_distinct] in Hdist. apply andb_prop in Hdist as [Hd1 Hd2]. apply negb_true_iff in Hd1.
    cbn [forallb] in Hfresh. apply andb_prop in Hfresh as [Hf1 Hf2]. apply negb_true_iff in Hf1.
    cbn [mdec_sms map stag_decode_members fst snd]. fold (mdec_sms fuel ms).
    set (bsm := skipn off raw).
    assert (Hokm : bytes_ok bsm = true) by now apply bytes_ok_skipn.
    assert (Hlm : length bsm = (size - off)%nat) by (unfold bsm; rewrite skipn_length; lia).
    pose proof (Ht Hwt fuel bsm Hokm ltac:(lia)) as Hr.
    (* what happens once this member has been decoded to v *)
    assert (Hnext : forall v,
              match sdec_stag_members (sdec_sms ms) priv raw with
              | SOk v' _ => exists E' sub', v' = VDict (filter (vis priv) E')
                    /\ stag_decode_members (mdec_sms fuel ms) (dict_set acc k v) raw = DOk (VDict (acc ++ (k, v) :: E')) sub'
                    /\ map fst E' = mkeys_of ms
              | SBad => stag_decode_members (mdec_sms fuel ms) (dict_set acc k v) raw = DErr DataError
              | SEnd => exists r, stag_decode_members (mdec_sms fuel ms) (dict_set acc k v) raw = DEmpty r
              | STrunc => True
              end).
    { intros v.
      assert (Hfr : forallb (fun k' => negb (has_key (dict_set acc k v) k')) (mkeys_of ms) = true).
      { apply fresh_after_set; [exact Hf2|]. intros k' Hin'. exact (existsb_false_forall _ _ Hd1 k' Hin'). }
      specialize (IH Hwr Hpr Hir (dict_set acc k v) Hd2 Hfr).
      rewrite (dict_set_fresh acc k v Hf1) in *.
      destruct (sdec_stag_members (sdec_sms ms) priv raw) as [v' r'| | |]; try exact IH.
      destruct IH as (E' & sub' & -> & I1 & I2). exists E', sub'. split; [reflexivity|]. split; [|exact I2].
      rewrite I1. now rewrite <- app_assoc. }
    cbn [sdec_sms map sdec_stag_members fst snd]. fold (sdec_sms ms). fold bsm.
    destruct (skey_in k priv) eqn:Hpk.
    + (* hidden host: the reference skips it, the library decodes it (always succeeds) *)
      cbn [negb orb] in Hpt.
      destruct (stotal_spec t w bsm Hpt Hwt Hfw ltac:(lia)) as [v Hv]. rewrite Hv in Hr. cbn [Rel] in Hr.
      rewrite Hr. cbn [dbind]. specialize (Hnext v).
      destruct (sdec_stag_members (sdec_sms ms) priv raw) as [v' r'| | |]; try exact Hnext.
      destruct Hnext as (E' & sub' & -> & N1 & N2). exists ((k, v) :: E'), sub'.
      split; [|split; [exact N1|cbn [map fst mkeys_of]; now rewrite N2]].
      cbn [filter]. rewrite vis_of_skey, Hpk. reflexivity.
    + destruct (spec_decode t bsm) as [v r2| | |] eqn:Hs; cbn [Rel] in Hr; cbn [sbind].
      * rewrite Hr. cbn [dbind]. specialize (Hnext v).
        destruct (sdec_stag_members (sdec_sms ms) priv raw) as [v' r'| | |]; cbn [sbind]; try exact Hnext.
        destruct Hnext as (E' & sub' & -> & N1 & N2). exists ((k, v) :: E'), sub'.
        split; [|split; [exact N1|cbn [map fst mkeys_of]; now rewrite N2]].
        cbn [filter]. rewrite vis_of_skey, Hpk. reflexivity.
      * now rewrite Hr.
      * destruct Hr as [r ->]. eexists; reflexivity.
      * exact I.
Qed.

Lemma stag_bits_dec_spec raw bits : forall acc,
  forallb (fun b : text * (nat * nat) => (fst (snd b) <? length raw)%nat && (snd (snd b) <? 8)%nat) bits = true ->
  skeys_distinct (map (fun b : text * (nat * nat) => Some (fst b)) bits) = true ->
  forallb (fun k => negb (has_key acc k)) (map (fun b : text * (nat * nat) => Some (fst b)) bits) = true ->
  stag_decode_bits bits raw acc
  = Ok (acc ++ map (fun b : text * (nat * nat) => (Some (fst b), VBool (spec_bit_at raw (8 * fst (snd b) + snd (snd b))))) bits).
Proof.
  induction bits as [|[name [off bit]] bits IH]; intros acc Hin Hdist Hfresh.
  - cbn. now rewrite app_nil_r.
  - cbn [forallb fst snd] in Hin. apply andb_prop in Hin as [Hin1 Hin2]. apply andb_prop in Hin1 as [Hoff Hbit].
    apply Nat.ltb_lt in Hoff, Hbit.
    cbn [map fst skeys_distinct] in Hdist. apply andb_prop in Hdist as [Hd1 Hd2]. apply negb_true_iff in Hd1.
    cbn [map fst forallb] in Hfresh. apply andb_prop in Hfresh as [Hf1 Hf2]. apply negb_true_iff in Hf1.
    cbn [stag_decode_bits]. destruct (nth_error raw off) as [b|] eqn:Hn; [|apply nth_error_None in Hn; lia].
    rewrite (dict_set_fresh acc _ _ Hf1).
    rewrite IH; [|exact Hin2|exact Hd2|].
    + cbn [map fst snd]. rewrite <- app_assoc. cbn [app]. now rewrite (spec_bit_at_testbit raw off bit b Hbit Hn).
    + rewrite <- (dict_set_fresh acc _ (VBool (Z.testbit b (Z.of_nat bit))) Hf1).
      apply fresh_after_set; [exact Hf2|]. intros k' Hin'. exact (existsb_false_forall _ _ Hd1 k' Hin').
Qed.

Lemma skeys_distinct_app a b :
  skeys_distinct (a ++ b) = true ->
  skeys_distinct a = true /\ skeys_distinct b = true /\ forall x, In x a -> existsb (skey_eqb x) b = false.
Proof.
  induction a as [|x a IH]; cbn [app skeys_distinct]; intros H.
  - repeat split; auto. intros x [].
  - apply andb_prop in H as [H1 H2]. apply negb_true_iff in H1. rewrite existsb_app in H1. apply orb_false_elim in H1 as [H1a H1b].
    destruct (IH H2) as (I1 & I2 & I3). repeat split; auto.
    + now rewrite H1a, I1.
    + intros y [<-|Hy]; [exact H1b|now apply I3].
Qed.

Lemma filter_bits_vis priv (bits : list (text * (nat * nat))) (f : text * (nat * nat) -> val) :
  (forall b, In b bits -> negb (existsb (stext_eqb (fst b)) priv) = true) ->
  filter (fun kv : key * val => negb (key_in (fst kv) priv)) (map (fun b => (Some (fst b), f b)) bits)
  = map (fun b => (Some (fst b), f b)) bits.
Proof.
  induction bits as [|b bits IH]; intros H; [reflexivity|].
  cbn [map filter fst]. assert (Hb := H b (or_introl eq_refl)).
  change (key_in (Some (fst b)) priv) with (existsb (stext_eqb (fst b)) priv). rewrite Hb.
  f_equal. apply IH. intros x Hx. apply H. now right.
Qed.

Lemma dec_TStructTag ms bits priv size :
  Forall (fun m : (key * nat) * ty => DEC (snd m)) ms -> DEC (TStructTag ms bits priv size).
Proof.
  intros Hall Hw fuel bs Hok Hf. pose proof Hw as Hw0. cbn [wire_ty] in Hw. apply andb_prop in Hw as [Hwm Htm].
  pose proof (tmpl_inside _ _ _ _ Htm) as Hins.
  cbn [spec_decode decode_fuel]. fold (sdec_sms ms). fold (mdec_sms fuel ms). unfold sdec_stag, structtag_decode.
  unfold tmpl_ok in Htm. apply andb_prop in Htm as [Htm Hhid]. apply andb_prop in Htm as [Htm Hhead].
  apply andb_prop in Htm as [Htm Hkeys]. apply andb_prop in Htm as [Hext Hbits].
  destruct bs as [|b0 bs'] eqn:Hbs.
  - (* the empty buffer: the first member reports it *)
    rewrite firstn_nil, skipn_nil. cbn [length Nat.eqb negb andb].
    assert (Hc : sconsumes (TStructTag ms bits priv size) = true) by (cbn [sconsumes]; exact Hhead).
    pose proof (EMP_all _ Hw0 Hc fuel) as He. cbn [decode_fuel] in He. fold (mdec_sms fuel ms) in He.
    unfold structtag_decode in He. rewrite firstn_nil, skipn_nil in He. cbn [length Nat.eqb negb andb] in He.
    rewrite He. cbn. eexists; reflexivity.
  - rewrite <- Hbs in *. assert (Hne : (0 < length bs)%nat) by (subst bs; cbn; lia). clear Hbs b0 bs'.
    destruct (length bs <? size)%nat eqn:E.
    + apply Nat.ltb_lt in E. rewrite firstn_all2 by lia.
      replace (negb (length bs =? 0)%nat && (length bs <? size)%nat) with true; [reflexivity|].
      symmetry. apply andb_true_intro. split; [apply negb_true_iff, Nat.eqb_neq; lia|apply Nat.ltb_lt; lia].
    + apply Nat.ltb_ge in E.
      set (raw := firstn size bs). assert (Hlen : length raw = size) by (unfold raw; now apply firstn_length_le).
      assert (Hokr : bytes_ok raw = true) by (unfold raw; now apply bytes_ok_firstn).
      rewrite Hlen, Nat.ltb_irrefl, andb_false_r.
      fold (mkeys_of ms) in Hkeys. destruct (skeys_distinct_app _ _ Hkeys) as (K1 & K2 & K3).
      pose proof (stag_members_rel fuel priv size raw Hlen Hokr ltac:(lia) ms Hall Hwm Hhid Hins [] K1) as Hr.
      assert (Hfresh0 : forallb (fun k => negb (has_key [] k)) (mkeys_of ms) = true) by (apply forallb_forall; reflexivity).
      specialize (Hr Hfresh0). cbn [app] in Hr.
      destruct (sdec_stag_members (sdec_sms ms) priv raw) as [v r0| | |]; cbn [sbind Rel].
      * destruct Hr as (E0 & sub' & -> & M1 & M2). rewrite M1.
        rewrite (stag_bits_dec_spec raw bits E0).
        -- cbn [dwrap Rel]. rewrite filter_app, filter_bits_vis; [reflexivity|].
           intros b Hb. rewrite forallb_forall in Hbits. specialize (Hbits b Hb). apply andb_prop in Hbits as [_ Hbits]. exact Hbits.
        -- rewrite Hlen. apply forallb_forall. intros b Hb. rewrite forallb_forall in Hbits. specialize (Hbits b Hb).
           apply andb_prop in Hbits as [Hbits _]. exact Hbits.
        -- exact K2.
        -- apply forallb_forall. intros k Hk. apply negb_true_iff. rewrite has_key_keys, M2.
           destruct (existsb (fun k' => keyb k' k) (mkeys_of ms)) eqn:Ex; [|reflexivity].
           apply existsb_exists in Ex as (k' & Hk' & Heq). apply keyb_eq in Heq. subst k'.
           specialize (K3 k Hk'). pose proof (existsb_false_forall _ _ K3 k Hk) as Hc.
           change (skey_eqb k k) with (keyb k k) in Hc. rewrite keyb_refl in Hc. discriminate.
      * now rewrite Hr.
      * destruct Hr as [r ->]. eexists; reflexivity.
      * exact I.
Qed.

(* ------------------------------------------------------------------ the theorem *)
Section Main.
  Hypothesis widen32_spec : forall u, 0 <= u < 2 ^ 32 -> widen32 u = spec_real64_of_32 u.

  Lemma DEC_all : forall t, DEC t.
  Proof.
    apply wire_ty_ind.
    - intros _ fuel bs _ _. apply bool_rel.
    - intros sg w Hw fuel bs _ _. cbn [wire_ty] in Hw. apply int_rel. lia.
    - intros dbl _ fuel bs Hok _. now apply real_rel.
    - exact dec_TDateTime.
    - exact dec_TStr.
    - exact dec_TStringN.
    - intros Hw. discriminate Hw.
    - exact dec_TNBytes.
    - intros w Hw fuel bs Hok _. cbn [wire_ty] in Hw. apply bits_rel; [lia|exact Hok].
    - intros n e He. destruct (is_bitstr e) eqn:Hb.
      + destruct e; try discriminate. apply dec_TArrFixed_bits.
      + now apply dec_TArrFixed_plain.
    - intros inst lt e _ _ Hw. discriminate Hw.
    - intros e He. destruct (is_bitstr e) eqn:Hb.
      + destruct e; try discriminate. apply dec_TArrAll_bits.
      + now apply dec_TArrAll_plain.
    - exact dec_TStruct.
    - exact dec_TFixedStr.
    - exact dec_TStructTag.
    - intros Hw. discriminate Hw.
    - intros Hw. discriminate Hw.
    - intros Hw. discriminate Hw.
  Qed.

  (* the fuel-free view: decode t bs = res_of_dres (decode_fuel (S (length bs)) t bs) *)
  Theorem decode_is_spec_gen t bs :
    wire_ty t = true -> bytes_ok bs = true ->
    match spec_decode t bs with
    | SOk v rest => decode t bs = Ok (v, rest)
    | SBad => decode t bs = Err DataError
    | SEnd => decode t bs = Err BufferEmpty
    | STrunc => True
    end.
  Proof.
    intros Hw Hok. unfold decode.
    pose proof (DEC_all t Hw (S (length bs)) bs Hok ltac:(lia)) as Hr.
    destruct (spec_decode t bs) as [v r| | |]; cbn [Rel] in Hr.
    - now rewrite Hr.
    - now rewrite Hr.
    - destruct Hr as [r ->]. reflexivity.
    - exact I.
  Qed.
End Main.
