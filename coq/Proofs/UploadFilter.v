(* Proofs/UploadFilter.v — C05: the symbol filter and the tag record of the upload model against
   the project ADT of the reference target (Spec/Project.v):
   * [create_tag_fields]: from the symbol type word Spec/Project.sym_type_word builds, for ALL
     in-range fields, _create_tag recovers the struct flag, the number of dimensions, the template
     id / the elementary type code, the BOOL bit position; the alias flag from attribute 6; and the
     product of the dimensions;
   * [isolate_filter_exact]: _isolate_user_tags keeps a symbol iff Spec/Project.hidden_symbol says it
     is user-visible, on the names of the Logix naming rules ([colon_regular], [opaque_marked]);
     [filter_differs_outside_rules] shows the two differ outside them (model = code, see the
     correspondence stream `classify`), so the hypothesis is needed;
   * program / routine / task names recovered by str.replace. *)
From Coq Require Import ZifyBool String.
Open Scope string_scope.
From PV Require Import Base.Bytes Base.BytesLemmas Base.Proto Base.PyStr Base.Res.
From PV Require Import Spec.Project Spec.Expect Spec.TargetLogix Model.LogixUpload.
From PV Require Gen.Consts.
Open Scope Z_scope.

(* ================================================================ bit fields *)
Lemma shiftr_land_field x s w : 0 <= x -> 0 <= s -> 0 <= w ->
  Z.shiftr (Z.land x (Z.shiftl (Z.ones w) s)) s = (x / 2 ^ s) mod 2 ^ w.
Proof.
  intros Hx Hs Hw.
  rewrite Z.shiftr_land, Z.shiftr_shiftl_l by lia. rewrite Z.sub_diag, Z.shiftl_0_r.
  rewrite Z.land_ones by lia. rewrite Z.shiftr_div_pow2 by lia. reflexivity.
Qed.

Lemma land_low x w : 0 <= w -> Z.land x (Z.ones w) = x mod 2 ^ w.
Proof. intros. apply Z.land_ones. lia. Qed.

Lemma land_bit_zero x n : 0 <= x -> 0 <= n -> (Z.land x (2 ^ n) =? 0) = ((x / 2 ^ n) mod 2 =? 0).
Proof.
  intros Hx Hn.
  assert (E1 : Z.shiftl (Z.ones 1) n = 2 ^ n) by (change (Z.ones 1) with 1; apply Z.shiftl_1_l).
  assert (E : Z.land x (2 ^ n) = Z.shiftl ((x / 2 ^ n) mod 2) n).
  { pose proof (shiftr_land_field x n 1 Hx Hn ltac:(lia)) as F. rewrite E1 in F. change (2 ^ 1) with 2 in F.
    rewrite <- F.
    symmetry. apply Z.bits_inj'. intros k Hk.
    destruct (Z.ltb_spec k n).
    - rewrite Z.shiftl_spec_low by lia. rewrite Z.land_spec, Z.pow2_bits_eqb by lia.
      destruct (Z.eqb_spec n k); [lia|]. symmetry. apply andb_false_r.
    - rewrite Z.shiftl_spec by lia. rewrite Z.shiftr_spec by lia. f_equal. lia. }
  rewrite E, Z.shiftl_mul_pow2 by lia.
  assert (0 < 2 ^ n) by (apply Z.pow_pos_nonneg; lia).
  destruct (Z.eqb_spec ((x / 2 ^ n) mod 2) 0) as [-> | Hne]; [reflexivity|].
  apply Z.eqb_neq. nia.
Qed.

(* the masks of _create_tag / _isolate_user_tags as arithmetic *)
Lemma sym_dim_eq x : 0 <= x -> sym_dim x = (x / 8192) mod 4.
Proof. intros. unfold sym_dim. exact (shiftr_land_field x 13 2 ltac:(lia) ltac:(lia) ltac:(lia)). Qed.
Lemma sym_bit_position_eq x : 0 <= x -> sym_bit_position x = (x / 256) mod 8.
Proof. intros. unfold sym_bit_position. exact (shiftr_land_field x 8 3 ltac:(lia) ltac:(lia) ltac:(lia)). Qed.
Lemma sym_template_id_eq x : sym_template_id x = x mod 4096.
Proof. unfold sym_template_id. exact (land_low x 12 ltac:(lia)). Qed.
Lemma sym_atomic_code_eq x : sym_atomic_code x = x mod 256.
Proof. unfold sym_atomic_code. exact (land_low x 8 ltac:(lia)). Qed.
Lemma sym_is_struct_eq x : 0 <= x -> sym_is_struct x = negb ((x / 32768) mod 2 =? 0).
Proof.
  intros. unfold sym_is_struct. pose proof (land_bit_zero x 15 H ltac:(lia)) as E.
  change (2 ^ 15) with 32768 in E. rewrite E. reflexivity.
Qed.
Lemma system_bit_eq x : 0 <= x -> (Z.land x SYSTEM_BIT =? 0) = ((x / 4096) mod 2 =? 0).
Proof. intros. exact (land_bit_zero x 12 ltac:(lia) ltac:(lia)). Qed.

Lemma sym_alias_eq a : 0 <= a -> sym_alias a = negb (Z.testbit a 26).
Proof.
  intros Ha. unfold sym_alias. change Consts.BASE_TAG_BIT with (2 ^ 26).
  rewrite (land_bit_zero a 26) by lia.
  pose proof (Z.testbit_spec' a 26 ltac:(lia)) as T.
  destruct (Z.testbit a 26); cbn [Z.b2z] in T; rewrite <- T; reflexivity.
Qed.

(* ================================================================ the symbol type word of a project tag *)
Ltac split_andb :=
  repeat match goal with H : _ && _ = true |- _ => apply andb_prop in H; destruct H end.

Definition word_fields_ok (g : tagdef) : Prop :=
  (length (g_dims g) <= 3)%nat /\
  match g_ty g with
  | BAtom c => 0 <= c < 256 /\ 0 <= g_bitpos g < 8 /\ (c <> C_BOOL -> g_bitpos g = 0)
  | BStruct tid => 0 <= tid < 4096
  | BOpaque w => 0 <= w < 65536
  end.

Lemma atom_size_range c s : atom_size c = Some s -> 193 <= c <= 212.
Proof.
  unfold atom_size, C_BOOL, C_SINT, C_USINT, C_BYTE, C_INT, C_UINT, C_WORD, C_DINT, C_UDINT, C_REAL, C_DWORD,
    C_LINT, C_ULINT, C_LREAL, C_LWORD.
  intros H.
  repeat match type of H with (if ?b then _ else _) = _ => destruct b eqn:? end; try discriminate; lia.
Qed.

Lemma find_template_in ts tid t : find_template ts tid = Some t -> In t ts /\ t_id t = tid.
Proof.
  induction ts as [|a ts IH]; [discriminate|]. cbn [find_template].
  destruct (t_id a =? tid) eqn:E.
  - intros H. injection H as <-. split; [left; reflexivity | lia].
  - intros H. destruct (IH H). split; [right|]; assumption.
Qed.

Lemma templates_ok_ids : forall ts earlier t, templates_ok earlier ts = true -> In t ts -> 0 < t_id t < 4096.
Proof.
  induction ts as [|a ts IH]; intros earlier t H Hin; [destruct Hin|].
  cbn [templates_ok] in H. apply andb_prop in H. destruct H as [Ha Hr].
  destruct Hin as [<- | Hin]; [|eapply IH; eassumption].
  unfold template_ok in Ha. split_andb. lia.
Qed.

Lemma tag_ok_word_fields p g : templates_ok [] (p_templates p) = true -> tag_ok p g = true -> word_fields_ok g.
Proof.
  intros Hts H. unfold tag_ok in H. unfold word_fields_ok.
  apply andb_prop in H. destruct H as [H Hty]. split_andb.
  split; [match goal with H : Nat.leb _ _ = true |- _ => apply Nat.leb_le in H; exact H end|].
  destruct (g_ty g) as [c|tid|w].
  - split_andb. destruct (atom_size c) as [s0|] eqn:Es; [|discriminate].
    apply atom_size_range in Es. unfold C_BOOL in *. lia.
  - split_andb. destruct (find_template (p_templates p) tid) as [t|] eqn:Ef; [|discriminate].
    apply find_template_in in Ef. destruct Ef as [Hin <-].
    pose proof (templates_ok_ids _ _ _ Hts Hin). lia.
  - split_andb. lia.
Qed.

Definition nd (g : tagdef) : Z := Z.of_nat (length (g_dims g)).

(* the fields _create_tag reads, for every in-range combination *)
Theorem create_tag_fields g :
  word_fields_ok g ->
  let w := sym_type_word g in
  0 <= w /\
  match g_ty g with
  | BAtom c =>
      sym_is_struct w = false /\ sym_dim w = nd g /\ sym_atomic_code w = c
      /\ (c = C_BOOL -> sym_bit_position w = g_bitpos g)
      /\ ((Z.land w SYSTEM_BIT =? 0) = negb (g_system g))
  | BStruct tid =>
      sym_is_struct w = true /\ sym_dim w = nd g /\ sym_template_id w = tid
      /\ ((Z.land w SYSTEM_BIT =? 0) = negb (g_system g))
  | BOpaque _ => True
  end.
Proof.
  intros (Hd & Hty). unfold sym_type_word, nd. cbv zeta.
  set (n := Z.of_nat (length (g_dims g))).
  assert (Hn : 0 <= n <= 3) by (subst n; lia).
  set (sys := if g_system g then 4096 else 0).
  assert (Hsys : (sys = 4096 /\ g_system g = true) \/ (sys = 0 /\ g_system g = false))
    by (subst sys; destruct (g_system g); auto).
  destruct (g_ty g) as [c|tid|w].
  - destruct Hty as (Hc & Hb & Hb0).
    set (bp := if c =? C_BOOL then 256 * g_bitpos g else 0).
    assert (Hbp : 0 <= bp <= 1792 /\ bp mod 256 = 0 /\ (c = C_BOOL -> bp = 256 * g_bitpos g))
      by (subst bp; destruct (c =? C_BOOL) eqn:E; lia).
    assert (Hw : 0 <= c + bp + 8192 * n + sys) by lia.
    split; [exact Hw|].
    rewrite sym_is_struct_eq, sym_dim_eq, sym_atomic_code_eq, system_bit_eq by exact Hw.
    split; [|split; [|split; [|split]]].
    + destruct Hsys as [[-> _]|[-> _]]; destruct ((c + bp + 8192 * n + _) / 32768 mod 2 =? 0) eqn:E; try reflexivity; lia.
    + destruct Hsys as [[-> _]|[-> _]]; lia.
    + destruct Hsys as [[-> _]|[-> _]]; lia.
    + intros Ec. rewrite sym_bit_position_eq by exact Hw. destruct Hbp as (_ & _ & Hbp). rewrite (Hbp Ec).
      destruct Hsys as [[-> _]|[-> _]]; lia.
    + destruct Hsys as [[-> ->]|[-> ->]]; cbn [negb]; lia.
  - assert (Hw : 0 <= 32768 + tid + 8192 * n + sys) by lia.
    split; [exact Hw|].
    rewrite sym_is_struct_eq, sym_dim_eq, sym_template_id_eq, system_bit_eq by exact Hw.
    split; [|split; [|split]].
    + destruct Hsys as [[-> _]|[-> _]]; destruct ((32768 + tid + 8192 * n + _) / 32768 mod 2 =? 0) eqn:E; try reflexivity; lia.
    + destruct Hsys as [[-> _]|[-> _]]; lia.
    + destruct Hsys as [[-> _]|[-> _]]; lia.
    + destruct Hsys as [[-> ->]|[-> ->]]; cbn [negb]; lia.
  - split; [lia | exact I].
Qed.

(* reduce(operator.mul, dimensions[:dim], 1) over the three wire dimensions = the number of elements *)
Lemma fold_left_mul l a : fold_left Z.mul l a = a * fold_right Z.mul 1 l.
Proof.
  revert a. induction l as [|x l IH]; intros a; cbn [fold_left fold_right]; [lia|].
  rewrite IH. lia.
Qed.

Lemma firstn_pad3 (dims : list Z) : (length dims <= 3)%nat -> firstn (length dims) (pad3 3 dims) = dims.
Proof.
  intros H. destruct dims as [|a [|b [|c [|d r]]]]; cbn in *; try reflexivity. lia.
Qed.

Theorem total_elements_dims (dims : list Z) :
  (length dims <= 3)%nat ->
  total_elements (Z.of_nat (length dims)) (pad3 3 dims) = dims_count dims.
Proof.
  intros H. unfold total_elements, dims_count. rewrite Nat2Z.id, firstn_pad3 by exact H.
  rewrite fold_left_mul. lia.
Qed.

Theorem alias_flag_eq g : 0 <= g_attr6 g -> sym_alias (g_attr6 g) = alias_flag g.
Proof. intros. unfold alias_flag. apply sym_alias_eq. assumption. Qed.

(* ================================================================ str.replace of a prefix *)
Lemma txt_Program_eq : txt_Program_ = txt_Program. Proof. reflexivity. Qed.
Lemma txt_Routine_eq : txt_Routine_ = txt_Routine. Proof. reflexivity. Qed.
Lemma txt_Task_eq : txt_Task_ = txt_Task. Proof. reflexivity. Qed.

Lemma find_from_none_cons p c s i : find_from p (c :: s) i = None -> starts_with p (c :: s) = false /\ find_from p s (S i) = None.
Proof. cbn [find_from]. destruct (starts_with p (c :: s)); [discriminate|]. auto. Qed.

Lemma find_from_none_any p : forall s i j, find_from p s i = None -> find_from p s j = None.
Proof.
  induction s as [|d s IH]; intros i j; cbn [find_from].
  - destruct (starts_with p []); [discriminate | reflexivity].
  - destruct (starts_with p (d :: s)); [discriminate|]. apply IH.
Qed.

Lemma contains_str_cons_false p c s : contains_str p (c :: s) = false -> starts_with p (c :: s) = false /\ contains_str p s = false.
Proof.
  unfold contains_str, find. destruct (find_from p (c :: s) 0) eqn:E; [discriminate|]. intros _.
  apply find_from_none_cons in E. destruct E as [E1 E2]. split; [exact E1|].
  rewrite (find_from_none_any p s 1 0 E2). reflexivity.
Qed.

Lemma replace_no_occurrence p q : forall s fuel, contains_str p s = false -> replace_str_fuel fuel p q s = s.
Proof.
  induction s as [|c s IH]; intros fuel H; destruct fuel as [|f]; try reflexivity.
  cbn [replace_str_fuel]. apply contains_str_cons_false in H. destruct H as [H1 H2].
  rewrite H1. rewrite IH by exact H2. reflexivity.
Qed.

Lemma starts_with_app p r : starts_with p (p ++ r) = true.
Proof. induction p as [|a p IH]; [reflexivity|]. cbn. rewrite Z.eqb_refl, IH. reflexivity. Qed.

Lemma starts_with_split p : forall s, starts_with p s = true -> s = p ++ skipn (length p) s.
Proof.
  induction p as [|a p IH]; intros s H; [reflexivity|].
  destruct s as [|b s]; [discriminate|]. cbn in H. apply andb_prop in H. destruct H as [E H].
  cbn [length skipn app]. rewrite <- (IH s H). f_equal. lia.
Qed.

Lemma replace_at_prefix a p' q r f :
  replace_str_fuel (S f) (a :: p') q ((a :: p') ++ r) = q ++ replace_str_fuel f (a :: p') q r.
Proof.
  change ((a :: p') ++ r) with (a :: (p' ++ r)). cbn [replace_str_fuel].
  change (a :: p' ++ r) with ((a :: p') ++ r). rewrite starts_with_app.
  rewrite skipn_app, Nat.sub_diag, skipn_all. reflexivity.
Qed.

(* name.replace(prefix, "") of a name that starts with the prefix, when the rest does not contain it *)
Lemma replace_prefix p n :
  p <> [] -> starts_with p n = true -> contains_str p (skipn (length p) n) = false ->
  replace_str p [] n = skipn (length p) n.
Proof.
  intros Hp Hs Hc. unfold replace_str. destruct p as [|a p']; [contradiction|].
  rewrite (starts_with_split (a :: p') n Hs) at 1 2.
  rewrite replace_at_prefix. cbn [app].
  apply replace_no_occurrence. exact Hc.
Qed.

(* ================================================================ the filter *)
(* the names on which the code's substring test for module I/O tags (":I" ":O" ":C" ":S" anywhere)
   and the reference's structural test (Name:Kind / Name:slot:Kind) agree; names without ':' and
   the reserved prefixes are always in *)
Definition colon_regular (n : text) : bool :=
  negb (contains_chr COLON n)
  || starts_with txt_Program n || starts_with txt_Routine n || starts_with txt_Task n
  || contains_str txt_Map n || contains_str txt_Cxn n
  || Bool.eqb (io_like n) (module_io_name n).

(* a symbol that is not data is recognisable as such: by its name, or by the system bit *)
Definition opaque_marked (g : tagdef) : bool :=
  match g_ty g with
  | BOpaque w =>
      let n := g_name g in
      starts_with txt_Program n || starts_with txt_Routine n || starts_with txt_Task n
      || contains_str txt_Map n || contains_str txt_Cxn n || starts_with txt_UU n
      || (contains_chr COLON n && negb (io_like n))
      || negb (Z.land w SYSTEM_BIT =? 0)
  | _ => true
  end.

Definition kept (c : iso_class) : bool := match c with IsoKeep => true | _ => false end.

Theorem isolate_filter_exact g :
  word_fields_ok g -> colon_regular (g_name g) = true -> opaque_marked g = true ->
  kept (classify (g_name g) (sym_type_word g)) = negb (hidden_symbol g).
Proof.
  intros Hw Hreg Hop.
  pose proof (create_tag_fields g Hw) as Hf. cbv zeta in Hf. destruct Hf as [_ Hf].
  unfold classify, hidden_symbol, colon_regular, opaque_marked in *.
  rewrite txt_Program_eq, txt_Routine_eq, txt_Task_eq.
  change (T "Map:") with txt_Map. change (T "Cxn:") with txt_Cxn. change (T "__") with txt_UU. change 58 with COLON.
  set (n := g_name g) in *.
  destruct (starts_with txt_Program n) eqn:EP; [cbn; rewrite ?orb_true_r; reflexivity|].
  destruct (starts_with txt_Routine n) eqn:ER; [cbn; rewrite ?orb_true_r; reflexivity|].
  destruct (starts_with txt_Task n) eqn:ET; [cbn; rewrite ?orb_true_r; reflexivity|].
  destruct (contains_str txt_Map n) eqn:EM; [cbn; rewrite ?orb_true_r; reflexivity|].
  destruct (contains_str txt_Cxn n) eqn:EC; [cbn; rewrite ?orb_true_r; reflexivity|].
  cbn [orb] in *.
  destruct (starts_with txt_UU n) eqn:EU; [rewrite !orb_true_r; cbn; rewrite ?orb_true_r; reflexivity|].
  rewrite !orb_false_r in *.
  destruct (contains_chr COLON n) eqn:ECo; cbn [negb orb andb] in *.
  - (* a name with ':' *)
    apply eqb_prop in Hreg. rewrite <- Hreg.
    destruct (io_like n) eqn:EI; cbn [negb orb andb] in *.
    + destruct (g_ty g) as [c|tid|w] eqn:Ety.
      * destruct Hf as (_ & _ & _ & _ & Hs). rewrite Hs. destruct (g_system g); reflexivity.
      * destruct Hf as (_ & _ & _ & Hs). rewrite Hs. destruct (g_system g); reflexivity.
      * unfold sym_type_word. rewrite Ety. cbn [orb andb negb] in Hop. rewrite Hop. cbn. rewrite !orb_true_r. reflexivity.
    + rewrite !orb_true_r. reflexivity.
  - rewrite ?andb_false_r. cbv iota.
    destruct (g_ty g) as [c|tid|w] eqn:Ety.
    + destruct Hf as (_ & _ & _ & _ & Hs). rewrite Hs. destruct (g_system g); reflexivity.
    + destruct Hf as (_ & _ & _ & Hs). rewrite Hs. destruct (g_system g); reflexivity.
    + unfold sym_type_word. rewrite Ety. cbn [orb andb negb] in Hop. rewrite Hop. cbn. rewrite !orb_true_r. reflexivity.
Qed.

(* outside the naming rules the two tests differ: "A:B:Ix" is not of the form Name:slot:Kind (B is
   not a slot number) yet contains ":I": the code keeps it, the reference hides it.  (Likewise the
   real driver keeps a symbol named "Trend:Speed" because it contains ":S".)  Logix tag names are
   identifiers, so such symbols do not occur in a project; hence a hypothesis, not a finding. *)
Example filter_differs_outside_rules :
  let g := mkTag [65; 58; 66; 58; 73; 120] 1 ScCtrl (BAtom C_DINT) [] 0 false 0 0 0 0 in
  colon_regular (g_name g) = false
  /\ kept (classify (g_name g) (sym_type_word g)) = true /\ hidden_symbol g = true.
Proof. vm_compute. auto. Qed.

Example colon_regular_module_io : colon_regular [76; 111; 99; 97; 108; 58; 49; 58; 73] = true.   (* Local:1:I *)
Proof. reflexivity. Qed.

Lemma colon_regular_no_colon n : contains_chr COLON n = false -> colon_regular n = true.
Proof. intros H. unfold colon_regular. rewrite H. reflexivity. Qed.

(* ---------------------------------------------------------------- the recorded names *)
Lemma classify_program n w :
  starts_with txt_Program n = true -> contains_str txt_Program (skipn 8 n) = false ->
  classify n w = IsoProgram (skipn 8 n).
Proof.
  intros H1 H2. unfold classify. rewrite txt_Program_eq, H1.
  rewrite (replace_prefix txt_Program n) by (try discriminate; assumption). reflexivity.
Qed.

Lemma starts_with_disjoint_8 a b n :
  starts_with a n = true -> length a = 8%nat -> length b = 8%nat -> a <> b -> starts_with b n = false.
Proof.
  intros Ha La Lb Hne. destruct (starts_with b n) eqn:Eb; [|reflexivity]. exfalso. apply Hne.
  apply starts_with_split in Ha. apply starts_with_split in Eb.
  rewrite La in Ha. rewrite Lb in Eb.
  assert (E : firstn 8 n = a) by (rewrite Ha, <- La at 1; apply firstn_app_exact).
  assert (E' : firstn 8 n = b) by (rewrite Eb, <- Lb at 1; apply firstn_app_exact).
  congruence.
Qed.

Lemma classify_routine n w :
  starts_with txt_Routine n = true -> contains_str txt_Routine (skipn 8 n) = false ->
  classify n w = IsoRoutine (skipn 8 n).
Proof.
  intros H1 H2. unfold classify. rewrite txt_Program_eq, txt_Routine_eq.
  rewrite (starts_with_disjoint_8 txt_Routine txt_Program n H1) by (reflexivity || discriminate).
  rewrite H1. rewrite (replace_prefix txt_Routine n) by (try discriminate; assumption). reflexivity.
Qed.

Lemma starts_with_first_char a b n x y :
  starts_with (x :: a) n = true -> x <> y -> starts_with (y :: b) n = false.
Proof.
  destruct n as [|c n]; [discriminate|]. cbn. intros H Hne.
  apply andb_prop in H. destruct H as [E _].
  destruct (y =? c) eqn:E2; [lia | reflexivity].
Qed.

Lemma classify_task n w :
  starts_with txt_Task n = true -> contains_str txt_Task (skipn 5 n) = false ->
  classify n w = IsoTask (skipn 5 n).
Proof.
  intros H1 H2. unfold classify. rewrite txt_Program_eq, txt_Routine_eq, txt_Task_eq.
  unfold txt_Program, txt_Routine. unfold txt_Task in H1.
  rewrite (starts_with_first_char _ _ n 84 80 H1) by lia.
  rewrite (starts_with_first_char _ _ n 84 82 H1) by lia.
  fold txt_Task in H1. rewrite H1.
  rewrite (replace_prefix txt_Task n) by (try discriminate; assumption). reflexivity.
Qed.
