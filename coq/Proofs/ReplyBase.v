(* Proofs/ReplyBase.v — list, slice and elementary-decode lemmas used by the C13 proofs; the finite
   facts about the regenerated tables (types, Services, MULTI_PACKET_SERVICES, SERVICE_STATUS). *)
From Coq Require Import String ZifyBool.
From PV Require Import Base.Bytes Base.BytesLemmas Base.Res Base.Proto Base.PyStr.
From PV Require Import Gen.Tables Gen.Types Gen.Status Gen.Consts Gen.ReplyTables.
From PV Require Import Model.EnumMapDefs Model.EnumMap Model.Reply Spec.ReplyReader.
From PV Require Import Proofs.EnumMapP.
Open Scope Z_scope.
Ltac Zify.zify_post_hook ::= Z.to_euclidean_division_equations.

(* ---------------------------------------------------------------- lists *)
Lemma nth_error_skipn_add {A} n (l : list A) i : nth_error (skipn n l) i = nth_error l (n + i).
Proof.
  revert l; induction n as [|n IH]; intros l; [reflexivity|].
  destruct l as [|x l]; cbn [skipn Nat.add nth_error]; [now destruct i|apply IH].
Qed.

Lemma skipn_hd {A} n (l : list A) : nth_error l n = hd_error (skipn n l).
Proof. rewrite <- (Nat.add_0_r n) at 1. rewrite <- nth_error_skipn_add. now destruct (skipn n l). Qed.

Lemma slice1 a (l : bytes) : slice a (S a) l = match nth_error l a with Some b => [b] | None => [] end.
Proof.
  unfold slice. replace (S a - a)%nat with 1%nat by lia. rewrite skipn_hd.
  destruct (skipn a l) as [|x r]; reflexivity.
Qed.

Lemma nth_error_some_lt {A} (l : list A) n x : nth_error l n = Some x -> (n < length l)%nat.
Proof. intros H. apply nth_error_Some. congruence. Qed.

Lemma nth_error_bytes_ok l n b : bytes_ok l = true -> nth_error l n = Some b -> 0 <= b < 256.
Proof.
  intros Hok H. apply nth_error_In in H. unfold bytes_ok in Hok. rewrite forallb_forall in Hok.
  apply byte_ok_iff, Hok, H.
Qed.

Lemma bytes_ok_skipn n l : bytes_ok l = true -> bytes_ok (skipn n l) = true.
Proof.
  unfold bytes_ok. rewrite !forallb_forall. intros H x Hx. apply H.
  rewrite <- (firstn_skipn n l). apply in_or_app. now right.
Qed.
Lemma bytes_ok_firstn n l : bytes_ok l = true -> bytes_ok (firstn n l) = true.
Proof.
  unfold bytes_ok. rewrite !forallb_forall. intros H x Hx. apply H.
  rewrite <- (firstn_skipn n l). apply in_or_app. now left.
Qed.

(* ---------------------------------------------------------------- the elementary types (Gen/Types.v rows) *)
Lemma USINT_eq : USINT_t = {| ety_name := T "USINT"; ety_size := 1; ety_signed := false |}.
Proof. reflexivity. Qed.
Lemma UINT_eq : UINT_t = {| ety_name := T "UINT"; ety_size := 2; ety_signed := false |}.
Proof. reflexivity. Qed.
Lemma UDINT_eq : UDINT_t = {| ety_name := T "UDINT"; ety_size := 4; ety_signed := false |}.
Proof. reflexivity. Qed.
Lemma DINT_eq : DINT_t = {| ety_name := T "DINT"; ety_size := 4; ety_signed := true |}.
Proof. reflexivity. Qed.

(* decode of a bytes buffer: outcome by the number of bytes available *)
Definition is_err {A} (r : rm A) : bool := match r with RErr _ _ => true | ROk _ => false end.
Definition rm_lib {A} (r : rm A) : Prop :=
  match r with ROk _ => True | RErr e _ => e = DataError \/ e = BufferEmpty end.

Lemma decode_elem_short t buf : (length buf < ety_size t)%nat -> is_err (decode_elem t buf) = true /\ rm_lib (decode_elem t buf).
Proof.
  intros H. unfold decode_elem.
  destruct (firstn (ety_size t) buf) as [|x r] eqn:E; [cbn; auto|].
  assert (Hl : length (firstn (ety_size t) buf) = length buf) by (rewrite firstn_length; lia).
  rewrite E in Hl.
  destruct (length (x :: r) <? ety_size t)%nat eqn:E2; [cbn; auto|].
  apply Nat.ltb_ge in E2. lia.
Qed.

Lemma decode_elem_full t buf : (0 < ety_size t <= length buf)%nat ->
  decode_elem t buf = ROk (elem_value t (firstn (ety_size t) buf)).
Proof.
  intros H. unfold decode_elem.
  assert (Hl : length (firstn (ety_size t) buf) = ety_size t) by (rewrite firstn_length; lia).
  destruct (firstn (ety_size t) buf) as [|x r] eqn:E; [cbn in Hl; lia|].
  destruct (length (x :: r) <? ety_size t)%nat eqn:E2; [apply Nat.ltb_lt in E2; lia|reflexivity].
Qed.

Lemma decode_elem_lib t buf : rm_lib (decode_elem t buf).
Proof.
  unfold decode_elem. destruct (firstn (ety_size t) buf); [cbn; auto|].
  destruct (_ <? _)%nat; cbn; auto.
Qed.

Lemma decode_elem_stream_lib t w r : rm_lib (decode_elem_stream t w r).
Proof.
  unfold decode_elem_stream. destruct (firstn (ety_size t) r); [cbn; auto|].
  destruct (_ <? _)%nat; cbn; auto.
Qed.

Lemma decode_elem_stream_full t w r : (0 < ety_size t <= length r)%nat ->
  decode_elem_stream t w r = ROk (elem_value t (firstn (ety_size t) r), skipn (ety_size t) r).
Proof.
  intros H. unfold decode_elem_stream.
  assert (Hl : length (firstn (ety_size t) r) = ety_size t) by (rewrite firstn_length; lia).
  destruct (firstn (ety_size t) r) as [|x q] eqn:E; [cbn in Hl; lia|].
  destruct (length (x :: q) <? ety_size t)%nat eqn:E2; [apply Nat.ltb_lt in E2; lia|reflexivity].
Qed.

(* USINT on a one-byte slice *)
Lemma decode_usint_slice a raw :
  decode_elem USINT_t (slice a (S a) raw) =
  match nth_error raw a with Some b => ROk b | None => RErr BufferEmpty [] end.
Proof.
  rewrite slice1. destruct (nth_error raw a) as [b|]; [|reflexivity].
  rewrite USINT_eq. unfold decode_elem, elem_value. cbn [ety_size ety_signed ety_name firstn length Nat.ltb Nat.leb le_dec].
  f_equal. lia.
Qed.

(* ---------------------------------------------------------------- u16 / u32 readers of the Spec vs le_dec *)
Lemma u32_at_skipn i raw :
  u32_at i raw = match skipn i raw with
                 | a :: b :: c :: d :: _ => Some (a + 256 * b + 65536 * c + 16777216 * d)
                 | _ => None
                 end.
Proof.
  unfold u32_at, byte_at.
  replace (nth_error raw i) with (nth_error (skipn i raw) 0) by (rewrite nth_error_skipn_add; f_equal; lia).
  rewrite <- !(nth_error_skipn_add i raw).
  destruct (skipn i raw) as [|a [|b [|c [|d r]]]]; reflexivity.
Qed.
Lemma u16_at_skipn i raw :
  u16_at i raw = match skipn i raw with a :: b :: _ => Some (a + 256 * b) | _ => None end.
Proof.
  unfold u16_at, byte_at.
  replace (nth_error raw i) with (nth_error (skipn i raw) 0) by (rewrite nth_error_skipn_add; f_equal; lia).
  rewrite <- !(nth_error_skipn_add i raw).
  destruct (skipn i raw) as [|a [|b r]]; reflexivity.
Qed.

Lemma u32_range i raw e : bytes_ok raw = true -> u32_at i raw = Some e -> 0 <= e < 4294967296.
Proof.
  intros Hok. rewrite u32_at_skipn. pose proof (bytes_ok_skipn i raw Hok) as Hs.
  destruct (skipn i raw) as [|a [|b [|c [|d r]]]]; try discriminate.
  intros H. assert (He : e = a + 256 * b + 65536 * c + 16777216 * d) by congruence.
  rewrite !bytes_ok_cons in Hs. unfold byte_ok in Hs. lia.
Qed.
Lemma u16_range i raw e : bytes_ok raw = true -> u16_at i raw = Some e -> 0 <= e < 65536.
Proof.
  intros Hok. rewrite u16_at_skipn. pose proof (bytes_ok_skipn i raw Hok) as Hs.
  destruct (skipn i raw) as [|a [|b r]]; try discriminate.
  intros H. assert (He : e = a + 256 * b) by congruence.
  rewrite !bytes_ok_cons in Hs. unfold byte_ok in Hs. lia.
Qed.

(* DINT.decode(raw[8:12]) against the Spec's u32 reader *)
Lemma decode_dint_slice i raw :
  match u32_at i raw with
  | Some e => decode_elem DINT_t (slice i (i + 4) raw) = ROk (to_signed 4 e)
  | None => is_err (decode_elem DINT_t (slice i (i + 4) raw)) = true
  end.
Proof.
  rewrite u32_at_skipn. unfold slice. replace (i + 4 - i)%nat with 4%nat by lia.
  rewrite DINT_eq.
  destruct (skipn i raw) as [|a [|b [|c [|d r]]]]; try reflexivity.
  unfold decode_elem, elem_value. cbn [ety_size ety_signed ety_name firstn length Nat.ltb Nat.leb le_dec].
  do 2 f_equal. lia.
Qed.
Lemma decode_udint_slice i raw :
  match u32_at i raw with
  | Some e => decode_elem UDINT_t (slice i (i + 4) raw) = ROk e
  | None => is_err (decode_elem UDINT_t (slice i (i + 4) raw)) = true
  end.
Proof.
  rewrite u32_at_skipn. unfold slice. replace (i + 4 - i)%nat with 4%nat by lia.
  rewrite UDINT_eq.
  destruct (skipn i raw) as [|a [|b [|c [|d r]]]]; try reflexivity.
  unfold decode_elem, elem_value. cbn [ety_size ety_signed ety_name firstn length Nat.ltb Nat.leb le_dec].
  f_equal. lia.
Qed.

Lemma to_signed4_zero e : 0 <= e < 4294967296 -> (to_signed 4 e =? 0) = (e =? 0).
Proof. intros H. unfold to_signed. change (pow256 4) with 4294967296. destruct (e <? 4294967296 / 2) eqn:E; lia. Qed.

(* ---------------------------------------------------------------- finite facts about the regenerated tables *)
(* self.service for a reply-service byte 128 + c *)
Definition svc_of (c : Z) : option key := services_get (services_get (Some (KBytes [c]))).

Lemma multi_sweep : forallb (fun c => Bool.eqb (in_multi_packet_services (svc_of c)) (continues c)) (zrange 128) = true.
Proof. vm_compute. reflexivity. Qed.
Lemma multi_services_agree c : 0 <= c < 128 -> in_multi_packet_services (svc_of c) = continues c.
Proof. intros H. apply Bool.eqb_prop. exact (forallb_zrange _ 128 multi_sweep c H). Qed.

Lemma encode_usint_ok v : 0 <= v < 256 -> encode_usint v = ROk [v].
Proof. intros H. unfold encode_usint. destruct ((0 <=? v) && (v <? 256)) eqn:E; [reflexivity|lia]. Qed.
Lemma encode_usint_neg v : v < 0 -> is_err (encode_usint v) = true.
Proof. intros H. unfold encode_usint. destruct ((0 <=? v) && (v <? 256)) eqn:E; [lia|reflexivity]. Qed.

Lemma from_reply_slice a raw (Hok : bytes_ok raw = true) :
  match nth_error raw a with
  | Some s => if 128 <=? s then from_reply (slice a (S a) raw) = ROk (services_get (Some (KBytes [s - 128])))
              else is_err (from_reply (slice a (S a) raw)) = true
  | None => is_err (from_reply (slice a (S a) raw)) = true
  end.
Proof.
  unfold from_reply. rewrite decode_usint_slice.
  destruct (nth_error raw a) as [s|] eqn:E; [|reflexivity].
  pose proof (nth_error_bytes_ok raw a s Hok E) as Hs.
  destruct (128 <=? s) eqn:E2.
  - rewrite encode_usint_ok by lia. reflexivity.
  - pose proof (encode_usint_neg (s - 128)) as Hn. destruct (encode_usint (s - 128)); [cbn in Hn; lia|reflexivity].
Qed.
Lemma from_reply_lib b : rm_lib (from_reply b).
Proof.
  unfold from_reply. pose proof (decode_elem_lib USINT_t b) as H.
  destruct (decode_elem USINT_t b) as [v|e m]; [|exact H].
  unfold encode_usint. destruct ((0 <=? v - 128) && (v - 128 <? 256)); cbn; auto.
Qed.
