(* Proofs/GenericPath.v — the request path generic_message emits (Model/Path.v request_path) is read
   back by the target's class/instance/attribute reader (Spec/MRParser.v path_cia). *)
From Coq Require Import String ZifyBool.
From PV Require Import Base.Bytes Base.BytesLemmas Base.Res Base.Proto Base.PyStr Gen.PathTables Model.Path.
From PV Require Import Spec.EncapParser Spec.MRParser Spec.TargetIface Proofs.TargetCoreP.
Open Scope Z_scope.
Ltac Zify.zify_post_hook ::= Z.to_euclidean_division_equations.

(* the integer an id argument denotes *)
Definition lval_value (v : lval) : Z := match v with LInt z => z | LBytes b => le_dec b end.

(* ids the statement quantifies over: int below 2^(8 wmax) or bytes of length 1 / 2 (/ 4 when wmax = 4) *)
Definition id_ok (wmax : Z) (v : lval) : bool :=
  match v with
  | LInt z => (0 <=? z) && (z <? (if wmax =? 4 then 4294967296 else 65536))
  | LBytes b => bytes_ok b && ((blen b =? 1) || (blen b =? 2) || ((wmax =? 4) && (blen b =? 4)))
  end.

Lemma uint_encode_ok w z : 0 <= z < pow256 w -> uint_encode w z = Ok (le_enc w z).
Proof.
  intros H. unfold uint_encode, in_urange.
  destruct ((0 <=? z) && (z <? pow256 w)) eqn:E; [reflexivity | lia].
Qed.

Lemma pow256_1 : pow256 1 = 256. Proof. reflexivity. Qed.
Lemma pow256_2 : pow256 2 = 65536. Proof. reflexivity. Qed.
Lemma pow256_4 : pow256 4 = 4294967296. Proof. reflexivity. Qed.

Lemma logical_format_1 : assoc_z 1 logical_format = Some 0. Proof. reflexivity. Qed.
Lemma logical_format_2 : assoc_z 2 logical_format = Some 1. Proof. reflexivity. Qed.
Lemma logical_format_4 : assoc_z 4 logical_format = Some 2. Proof. reflexivity. Qed.
Lemma logical_segment_type_v : logical_segment_type = 32. Proof. reflexivity. Qed.

(* the value bytes of an id: 1, 2 or (when allowed) 4 bytes denoting the id *)
Lemma value_bytes_spec wmax v : id_ok wmax v = true ->
  exists vb, logical_value_bytes v = Ok vb /\ bytes_ok vb = true /\ le_dec vb = lval_value v
             /\ (List.length vb = 1%nat \/ List.length vb = 2%nat \/ (wmax = 4 /\ List.length vb = 4%nat)).
Proof.
  intros Hid. destruct v as [z | bs]; cbn [id_ok lval_value logical_value_bytes] in *.
  - destruct (z <=? 255) eqn:E1.
    + exists (le_enc 1 z). unfold USINT_encode. rewrite uint_encode_ok by (rewrite pow256_1; lia).
      repeat split; [apply le_enc_ok | apply le_dec_enc_id; rewrite pow256_1; lia | left; reflexivity].
    + destruct (z <=? 65535) eqn:E2.
      * exists (le_enc 2 z). unfold UINT_encode. rewrite uint_encode_ok by (rewrite pow256_2; lia).
        repeat split; [apply le_enc_ok | apply le_dec_enc_id; rewrite pow256_2; lia | right; left; reflexivity].
      * destruct (wmax =? 4) eqn:Ew; [| lia].
        destruct (z <=? 4294967295) eqn:E3; [| lia].
        exists (le_enc 4 z). unfold UDINT_encode. rewrite uint_encode_ok by (rewrite pow256_4; lia).
        repeat split; [apply le_enc_ok | apply le_dec_enc_id; rewrite pow256_4; lia | right; right; split; [lia | reflexivity]].
  - apply andb_prop in Hid as [Hok Hl]. exists bs. repeat split; [exact Hok |]. unfold blen in Hl. lia.
Qed.

(* one logical segment, for a logical type number lt in 0..4 (bits 4..2 of the segment byte) *)
Lemma enc_logical_spec t lt wmax v :
  assoc_text t logical_types = Some (4 * lt) -> 0 <= lt <= 4 -> (wmax = 4 -> 1 <= lt <= 3) ->
  id_ok wmax v = true ->
  exists b r, encode_seg true (Logical t v) = Ok (b :: r)
    /\ (forall tl, parse_logical b (r ++ tl) = Some (lt, lval_value v, tl))
    /\ bytes_ok (b :: r) = true /\ Z.even (blen (b :: r)) = true /\ blen (b :: r) <= 6.
Proof.
  intros Ht Hlt Hw Hid.
  destruct (value_bytes_spec wmax v Hid) as (vb & Hvb & Hok & Hval & Hlen).
  unfold encode_seg, encode_logical, encode_logical_with. rewrite Ht, Hvb. cbn [bind]. rewrite <- Hval.
  assert (Hb8 : forall f, 0 <= f <= 3 -> Z.lor (Z.lor 32 (4 * lt)) f = 32 + 4 * lt + f).
  { intros f Hf. assert (lt = 0 \/ lt = 1 \/ lt = 2 \/ lt = 3 \/ lt = 4) as [-> | [-> | [-> | [-> | ->]]]] by lia;
    assert (f = 0 \/ f = 1 \/ f = 2 \/ f = 3) as [-> | [-> | [-> | ->]]] by lia; reflexivity. }
  rewrite logical_segment_type_v. unfold len.
  destruct Hlen as [H1 | [H2 | [H4w H4]]].
  - destruct vb as [| a [| ? ?]]; try discriminate. cbn [List.length]. change (Z.of_nat 1) with 1.
    rewrite logical_format_1, Hb8 by lia.
    replace (byte_ok (32 + 4 * lt + 0)) with true by (unfold byte_ok; lia).
    cbn [Nat.odd Nat.even Nat.add andb app wrap_all].
    cbn [bytes_ok forallb] in Hok. unfold byte_ok in Hok.
    exists (32 + 4 * lt + 0), [a]. split; [reflexivity |]. split; [| split; [| split]].
    + intros tl. unfold parse_logical.
      replace ((32 + 4 * lt + 0) / 32 =? 1) with true by lia.
      replace (4 <? (32 + 4 * lt + 0) / 4 mod 8) with false by lia.
      replace ((32 + 4 * lt + 0) mod 4 =? 0) with true by lia.
      cbn [negb app le_dec]. f_equal. f_equal. f_equal; lia.
    + cbn [bytes_ok forallb]. unfold byte_ok. lia.
    + reflexivity.
    + cbn. lia.
  - destruct vb as [| a [| b [| ? ?]]]; try discriminate. cbn [List.length]. change (Z.of_nat 2) with 2.
    rewrite logical_format_2, Hb8 by lia.
    replace (byte_ok (32 + 4 * lt + 1)) with true by (unfold byte_ok; lia).
    cbn [Nat.odd Nat.even Nat.add andb app wrap_all].
    cbn [bytes_ok forallb] in Hok. unfold byte_ok in Hok.
    exists (32 + 4 * lt + 1), [0; a; b]. split; [reflexivity |]. split; [| split; [| split]].
    + intros tl. unfold parse_logical.
      replace ((32 + 4 * lt + 1) / 32 =? 1) with true by lia.
      replace (4 <? (32 + 4 * lt + 1) / 4 mod 8) with false by lia.
      replace ((32 + 4 * lt + 1) mod 4 =? 0) with false by lia.
      replace ((32 + 4 * lt + 1) mod 4 =? 1) with true by lia.
      cbn [negb app le_dec]. unfold u16. f_equal. f_equal. f_equal; lia.
    + cbn [bytes_ok forallb]. unfold byte_ok. lia.
    + reflexivity.
    + cbn. lia.
  - specialize (Hw H4w).
    destruct vb as [| a [| b [| c [| d [| ? ?]]]]]; try discriminate. cbn [List.length]. change (Z.of_nat 4) with 4.
    rewrite logical_format_4, Hb8 by lia.
    replace (byte_ok (32 + 4 * lt + 2)) with true by (unfold byte_ok; lia).
    cbn [Nat.odd Nat.even Nat.add andb app wrap_all].
    cbn [bytes_ok forallb] in Hok. unfold byte_ok in Hok.
    exists (32 + 4 * lt + 2), [0; a; b; c; d]. split; [reflexivity |]. split; [| split; [| split]].
    + intros tl. unfold parse_logical.
      replace ((32 + 4 * lt + 2) / 32 =? 1) with true by lia.
      replace (4 <? (32 + 4 * lt + 2) / 4 mod 8) with false by lia.
      replace ((32 + 4 * lt + 2) mod 4 =? 0) with false by lia.
      replace ((32 + 4 * lt + 2) mod 4 =? 1) with false by lia.
      replace ((32 + 4 * lt + 2) mod 4 =? 2) with true by lia.
      replace ((1 <=? (32 + 4 * lt + 2) / 4 mod 8) && ((32 + 4 * lt + 2) / 4 mod 8 <=? 3)) with true by lia.
      cbn [negb app le_dec]. unfold u32. f_equal. f_equal. f_equal; lia.
    + cbn [bytes_ok forallb]. unfold byte_ok. lia.
    + reflexivity.
    + cbn. lia.
Qed.

(* ---------------------------------------------------------------- request_path *)
Definition att_ok (a : option lval) : bool :=
  match a with None => true | Some v => negb (lval_truthy v) || id_ok 2 v end.
(* attribute 0 / b"" (the default) = no attribute segment *)
Definition att_value (a : option lval) : option Z :=
  match a with
  | Some v => if lval_truthy v then Some (lval_value v) else None
  | None => None
  end.

Lemma lt_class : assoc_text (txt "class_id") logical_types = Some (4 * 0). Proof. reflexivity. Qed.
Lemma lt_instance : assoc_text (txt "instance_id") logical_types = Some (4 * 1). Proof. reflexivity. Qed.
Lemma lt_attribute : assoc_text (txt "attribute_id") logical_types = Some (4 * 4). Proof. reflexivity. Qed.

Lemma usint_small z : 0 <= z < 256 -> USINT_encode z = Ok [z].
Proof.
  intros H. unfold USINT_encode. rewrite uint_encode_ok by (rewrite pow256_1; lia).
  cbn [le_enc]. f_equal. f_equal. lia.
Qed.

Lemma blen_pos_cons (x : Z) l : 0 < blen (x :: l).
Proof. rewrite blen_cons. pose proof (blen_nonneg l). lia. Qed.

Lemma even_add a b : Z.even a = true -> Z.even b = true -> Z.even (a + b) = true.
Proof. rewrite Z.even_add. intros -> ->. reflexivity. Qed.

Theorem request_path_cia cls ins att :
  id_ok 2 cls = true -> id_ok 4 ins = true -> att_ok att = true ->
  exists p, request_path cls ins att = Ok ((blen p / 2) :: p)
    /\ path_cia p = Some (lval_value cls, lval_value ins, att_value att)
    /\ bytes_ok p = true /\ Z.even (blen p) = true /\ 0 < blen p <= 18.
Proof.
  intros Hc Hi Ha.
  destruct (enc_logical_spec (txt "class_id") 0 2 cls lt_class ltac:(lia) ltac:(lia) Hc)
    as (b1 & r1 & E1 & P1 & O1 & V1 & L1).
  destruct (enc_logical_spec (txt "instance_id") 1 4 ins lt_instance ltac:(lia) ltac:(lia) Hi)
    as (b2 & r2 & E2 & P2 & O2 & V2 & L2).
  unfold request_path, request_path_segs, epath_encode.
  change padded_PADDED_EPATH with true.
  pose proof (blen_pos_cons b1 r1) as Q1. pose proof (blen_pos_cons b2 r2) as Q2.
  assert (Hnoatt : att_value att = None ->
            (match att with Some a => if lval_truthy a then [Logical (txt "attribute_id") a] else [] | None => [] end) = []).
  { destruct att as [a |]; cbn [att_value]; [destruct (lval_truthy a); [discriminate | reflexivity] | reflexivity]. }
  destruct (att_value att) as [av |] eqn:Eav.
  - (* with an attribute segment *)
    destruct att as [a |]; cbn [att_value] in Eav; [| discriminate].
    destruct (lval_truthy a) eqn:Et; [| discriminate]. injection Eav as <-.
    cbn [att_ok] in Ha. rewrite Et in Ha. cbn [negb orb] in Ha.
    destruct (enc_logical_spec (txt "attribute_id") 4 2 a lt_attribute ltac:(lia) ltac:(lia) Ha)
      as (b3 & r3 & E3 & P3 & O3 & V3 & L3).
    pose proof (blen_pos_cons b3 r3) as Q3.
    cbn [app encode_segs]. rewrite E1, E2, E3. cbn [bind].
    set (p := (b1 :: r1) ++ (b2 :: r2) ++ (b3 :: r3) ++ []).
    assert (Hlen : blen p = blen (b1 :: r1) + blen (b2 :: r2) + blen (b3 :: r3)).
    { unfold p. rewrite !blen_app, blen_nil. lia. }
    assert (Hev : Z.even (blen p) = true) by (rewrite Hlen; repeat apply even_add; assumption).
    change (len p) with (blen p). rewrite usint_small by lia. cbn [bind app wrap_all].
    exists p. split; [reflexivity |]. split; [| split; [| split]]; [| | exact Hev | lia].
    + unfold path_cia.
      assert (Hf : exists f, List.length p = S (S (S f))).
      { unfold blen in *. cbn [List.length] in *. destruct (List.length p) as [| [| [| f]]]; try lia. now exists f. }
      destruct Hf as (f & ->). unfold p.
      cbn [app parse_logicals]. rewrite P1.
      cbn [app parse_logicals]. rewrite P2.
      cbn [app parse_logicals]. rewrite P3.
      destruct f; reflexivity.
    + unfold p. rewrite !bytes_ok_app, O1, O2, O3. reflexivity.
  - (* class and instance only *)
    rewrite (Hnoatt eq_refl).
    cbn [app encode_segs]. rewrite E1, E2. cbn [bind].
    set (p := (b1 :: r1) ++ (b2 :: r2) ++ []).
    assert (Hlen : blen p = blen (b1 :: r1) + blen (b2 :: r2)).
    { unfold p. rewrite !blen_app, blen_nil. lia. }
    assert (Hev : Z.even (blen p) = true) by (rewrite Hlen; repeat apply even_add; assumption).
    change (len p) with (blen p). rewrite usint_small by lia. cbn [bind app wrap_all].
    exists p. split; [reflexivity |]. split; [| split; [| split]]; [| | exact Hev | lia].
    + unfold path_cia.
      assert (Hf : exists f, List.length p = S (S f)).
      { unfold blen in *. cbn [List.length] in *. destruct (List.length p) as [| [| f]]; try lia. now exists f. }
      destruct Hf as (f & ->). unfold p.
      cbn [app parse_logicals]. rewrite P1.
      cbn [app parse_logicals]. rewrite P2.
      destruct f; reflexivity.
    + unfold p. rewrite !bytes_ok_app, O1, O2. reflexivity.
Qed.
