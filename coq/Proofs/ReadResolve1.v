(* Proofs/ReadResolve1.v — the string layer for every single-segment controller-scope request:
       name            name[i]  name[i,j]  name[i,j,k]         (decimal indices, leading zeros allowed)
       ... .b          an integer bit
       ... {n}         n elements
   on data tags of any element type (atomic, arrays, structures, strings), and on BOOL arrays
   name / name[i] / name{n} / name[i]{n} (index -> DWORD index 0, bit offset, ceil((bit+n)/32) DWORDs).
     parse_single_data / parse_single_bools   _parse_tag_request on such a string
     path_single          tag_request_path: bytes that the target's path parser reads back as the tag
                          segment (symbolic or symbol instance) followed by one member segment per index
     index_data / index_dword                 reference (Expect.index_place) and target (apply_idx) index alike
     single_data_request_ok, single_bools_request_ok, sreq_request_ok
                          such a request that exists [request_ok]s: C01's conclusion holds for it
   Not covered: structure-member paths (tag.member...), program-scoped tags, `[i]` on a scalar DWORD tag
   (Expect.index_place gives it a place; the client sends name[0], which the target rejects).  No axioms. *)
From Coq Require Import ZifyBool String.
From PV Require Import Base.Bytes Base.BytesLemmas Base.Res Base.Proto Base.PyStr.
From PV Require Import Gen.Consts Gen.PathTables Model.Path Model.Reply Model.LogixPlan Model.LogixRead.
From PV Require Import Spec.EncapParser Spec.MRParser Spec.TargetIface Spec.TargetCore Spec.Project Spec.Expect Spec.TargetLogix.
From PV Require Import Proofs.PathStr Proofs.TargetCoreP Proofs.TargetLogixP Proofs.ReadBits Proofs.ReadDecode Proofs.ReadTarget
  Proofs.ReadValue Proofs.ReadFrag Proofs.ReadMulti Proofs.ReadPlan Proofs.ReadCorrect Proofs.ReadResolve.
Open Scope list_scope.
Open Scope Z_scope.
Ltac Zify.zify_post_hook ::= Z.to_euclidean_division_equations.

(* ================================================================ decimal fields *)
Definition num_ok (ds : text) (v : Z) : Prop :=
  isdigit ds = true /\ Path.len ds <= int_max_str_digits /\ digits_val ds 0 = Some v.

Lemma num_int ds v : num_ok ds v -> py_int_full ds = Ok v.
Proof. intros (H1 & H2 & H3). apply py_int_full_digits; assumption. Qed.

Lemma num_nonneg ds v : num_ok ds v -> 0 <= v.
Proof. intros (_ & _ & H). apply (digits_val_nonneg ds 0 v); [lia|exact H]. Qed.

Lemma digit_nosep c ds : isdigit ds = true -> (c < 48 \/ 57 < c) -> nosep c ds = true.
Proof.
  intros H Hc. destruct (isdigit_all ds H) as [Ha _]. unfold nosep, all_digits in *.
  apply forallb_forall. intros x Hx. rewrite forallb_forall in Ha. specialize (Ha x Hx). unfold is_ascii_digit in Ha. lia.
Qed.

Lemma num_nosep c ds v : num_ok ds v -> (c < 48 \/ 57 < c) -> nosep c ds = true.
Proof. intros (H & _) Hc. apply digit_nosep; assumption. Qed.

Lemma nosep_app c a b : nosep c (a ++ b) = nosep c a && nosep c b.
Proof. unfold nosep. apply forallb_app. Qed.

Lemma nosep_join c sep parts : forallb (nosep c) parts = true -> nosep c sep = true -> nosep c (join sep parts) = true.
Proof.
  intros Hp Hs. induction parts as [|x r IH]; [reflexivity|]. cbn [forallb] in Hp. apply andb_prop in Hp. destruct Hp as [Hx Hr].
  cbn [join]. destruct r as [|y r']; [exact Hx|]. rewrite !nosep_app, Hx, Hs. cbn [andb]. apply IH. exact Hr.
Qed.

(* ================================================================ the request string *)
Definition idx_txt (ids : list text) : text :=
  match ids with [] => [] | _ => [91] ++ join [44] ids ++ [93] end.
Definition bit_txt (bit : option (text * Z)) : text := match bit with Some (b, _) => 46 :: b | None => [] end.
Definition cnt_txt (cnt : option (text * Z)) : text := match cnt with Some (c, _) => [123] ++ c ++ [125] | None => [] end.
Definition single_req (n : text) (ids : list text) (bit cnt : option (text * Z)) : text :=
  (n ++ idx_txt ids) ++ bit_txt bit ++ cnt_txt cnt.

Definition opt_ok (o : option (text * Z)) : Prop := match o with Some (t, v) => num_ok t v | None => True end.
Definition opt_val (o : option (text * Z)) : option Z := match o with Some (_, v) => Some v | None => None end.

Lemma ends_with_snoc c s : ends_with [c] (s ++ [c]) = true.
Proof. unfold ends_with. rewrite rev_app_distr. cbn. rewrite Z.eqb_refl. reflexivity. Qed.

Lemma ends_with_app_nosep c a b : b <> [] -> nosep c b = true -> ends_with [c] (a ++ b) = false.
Proof.
  intros Hne Hb. unfold ends_with. rewrite rev_app_distr. cbn [rev app].
  assert (Hr : nosep c (rev b) = true).
  { unfold nosep in *. rewrite forallb_forall in *. intros x Hx. apply Hb. apply in_rev. exact Hx. }
  destruct (rev b) as [|y r] eqn:E.
  - apply (f_equal (@rev _)) in E. rewrite rev_involutive in E. cbn in E. congruence.
  - cbn [app starts_with]. unfold nosep in Hr. cbn [forallb] in Hr. apply andb_prop in Hr. destruct Hr as [Hy _].
    replace (c =? y) with false by lia. reflexivity.
Qed.

Lemma contains_chr_app c a b : contains_chr c (a ++ b) = contains_chr c a || contains_chr c b.
Proof. unfold contains_chr. apply existsb_app. Qed.

Lemma split2 c a b : nosep c a = true -> nosep c b = true -> split_chr c (a ++ c :: b) = [a; b].
Proof. intros Ha Hb. change (a ++ c :: b) with (join [c] [a; b]). apply split_join; [exact Ha|cbn; rewrite Hb; reflexivity]. Qed.

Lemma rsplit1_nosep c b : nosep c b = true -> rsplit1_aux c b = None.
Proof.
  induction b as [|x b IH]; intros H; [reflexivity|]. unfold nosep in H. cbn [forallb] in H. apply andb_prop in H. destruct H as [Hx Hb].
  cbn [rsplit1_aux]. rewrite (IH Hb). replace (x =? c) with false by lia. reflexivity.
Qed.

Lemma rsplit1_app c a b : nosep c b = true -> rsplit1_aux c (a ++ c :: b) = Some (a, b).
Proof.
  intros Hb. induction a as [|x a IH].
  - cbn [app rsplit1_aux]. rewrite (rsplit1_nosep c b Hb), Z.eqb_refl. reflexivity.
  - cbn [app rsplit1_aux]. rewrite IH. reflexivity.
Qed.

Lemma idx_txt_nosep c l : forallb (nosep c) l = true -> c <> 91 -> c <> 93 -> c <> 44 -> nosep c (idx_txt l) = true.
Proof.
  intros Hl H1 H2 H3. unfold idx_txt. destruct l as [|i0 ir] eqn:E; [reflexivity|]. rewrite <- E in *.
  assert (S1 : forall x, x <> c -> nosep c [x] = true).
  { intros x Hx. unfold nosep. cbn [forallb]. replace (x =? c) with false by lia. reflexivity. }
  rewrite !nosep_app. rewrite nosep_join; [|exact Hl|apply S1; lia].
  rewrite !S1 by lia. reflexivity.
Qed.

Section Single.
  Variables (n : text) (ids : list text) (idv : list Z) (bit cnt : option (text * Z)).
  Hypothesis Hn : plain_name n = true.
  Hypothesis Hids : Forall2 num_ok ids idv.
  Hypothesis Hbit : opt_ok bit.
  Hypothesis Hcnt : opt_ok cnt.

  Let body0 := n ++ idx_txt ids.
  Let body := body0 ++ bit_txt bit.
  Let req := single_req n ids bit cnt.

  Lemma Hpc : forallb plain_char n = true.
  Proof. pose proof Hn as H. unfold plain_name in H. apply andb_prop in H. destruct H as [H _]. apply andb_prop in H. tauto. Qed.

  Lemma ids_nosep c : (c < 48 \/ 57 < c) -> forallb (nosep c) ids = true.
  Proof.
    intros Hc. pose proof Hids as HF. revert HF. generalize idv. generalize ids.
    intros l. induction l as [|t ts IH]; intros vs HF; [reflexivity|]. inversion HF as [|t' v ts' vs' H HF']; subst. cbn [forallb].
    rewrite (num_nosep c t v H Hc), (IH vs' HF'). reflexivity.
  Qed.

  (* the name[idx] part has no '.', '{', '}' *)
  Lemma body0_nosep c : (c = 46 \/ c = 123 \/ c = 125) -> nosep c body0 = true.
  Proof.
    intros Hc. unfold body0. rewrite nosep_app. rewrite (plain_nosep c n Hpc) by tauto. cbn [andb].
    apply idx_txt_nosep; [apply ids_nosep; lia|lia|lia|lia].
  Qed.

  Lemma body_nosep c : (c = 123 \/ c = 125) -> nosep c body = true.
  Proof.
    intros Hc. unfold body. rewrite nosep_app, body0_nosep by tauto. cbn [andb]. unfold bit_txt.
    destruct bit as [[b bv]|]; [|reflexivity]. cbn [nosep forallb]. replace (46 =? c) with false by lia. cbn [negb andb].
    apply (num_nosep c b bv Hbit). lia.
  Qed.

  Lemma body_nonempty : body <> [].
  Proof.
    unfold body, body0. pose proof Hn as H. unfold plain_name in H. destruct n; [discriminate|discriminate].
  Qed.

  (* step 1: the {n} suffix *)
  Lemma split_count_ok :
    (if ends_with [125] req && contains_chr 123 req then
       match split_chr 123 req with
       | [t; tmp] => let* k := py_int_full (removelast tmp) in Ok (t, k, false)
       | _ => Err (Foreign ValueError)
       end
     else Ok (req, 1, true))
    = Ok (body, match cnt with Some (_, v) => v | None => 1 end, match cnt with Some _ => false | None => true end).
  Proof.
    unfold req, single_req. fold body0. rewrite app_assoc. fold body. unfold cnt_txt.
    destruct cnt as [[c cv]|].
    - replace (body ++ [123] ++ c ++ [125]) with ((body ++ 123 :: c) ++ [125]) by (rewrite <- app_assoc; reflexivity).
      rewrite ends_with_snoc. rewrite <- app_assoc. cbn [app].
      rewrite contains_chr_app. cbn [contains_chr existsb Z.eqb Pos.eqb orb]. rewrite orb_true_r. cbn [andb].
      rewrite split2.
      + rewrite removelast_snoc. rewrite (num_int c cv Hcnt). reflexivity.
      + apply body_nosep. tauto.
      + rewrite nosep_app. rewrite (num_nosep 123 c cv Hcnt) by lia. reflexivity.
    - rewrite app_nil_r. rewrite <- (app_nil_l body). rewrite ends_with_app_nosep; [reflexivity|apply body_nonempty|apply body_nosep; tauto].
  Qed.

  (* step 2: '.'-split, the bit, strip_array *)
  Lemma body_split : split_chr 46 body = body0 :: match bit with Some (b, _) => [b] | None => [] end.
  Proof.
    unfold body, bit_txt. destruct bit as [[b bv]|].
    - apply split2; [apply body0_nosep; tauto|apply (num_nosep 46 b bv Hbit); lia].
    - rewrite app_nil_r. apply split_nosep. apply body0_nosep. tauto.
  Qed.

  Lemma body0_not_program : starts_with txt_Program_ body0 = false.
  Proof.
    destruct (starts_with txt_Program_ body0) eqn:E; [|reflexivity]. exfalso.
    (* the 8th character of "Program:" is ':'; body0's first characters are the name's, then '[' *)
    apply starts_with_app in E. destruct E as [rest E].
    assert (Hc : nosep 58 body0 = true).
    { unfold body0. rewrite nosep_app, (plain_nosep 58 n Hpc) by tauto. apply idx_txt_nosep; [apply ids_nosep; lia|lia|lia|lia]. }
    rewrite E in Hc. unfold nosep in Hc. rewrite forallb_app in Hc. apply andb_prop in Hc. destruct Hc as [Hc _].
    vm_compute in Hc. discriminate.
  Qed.

  Lemma strip_body0 : strip_array body0 = n.
  Proof.
    unfold strip_array, body0, idx_txt. pose proof (plain_nosep 91 n Hpc) as Hns.
    destruct ids as [|i0 ir] eqn:E.
    - rewrite app_nil_r. rewrite find_nosep by (apply Hns; tauto). reflexivity.
    - cbn [app]. unfold find. rewrite find_from_nosep by (apply Hns; tauto). cbn [Nat.add].
      rewrite firstn_app_exact. reflexivity.
  Qed.

  Definition cnt_val : Z := match cnt with Some (_, v) => v | None => 1 end.

  (* everything up to the DWORD test *)
  Lemma parse_head tags info : dget n tags = Some info ->
    parse_tag_request tags req =
    wrap_all RequestError
      (if negb (ti_struct info) && text_eqb (ti_dtname info) txt_DWORD then
         let* (t, idx) := get_array_index body0 in
         let tag2 := match idx with Some _ => t ++ zs_of_string "[0]" | None => body0 end in
         let bools := if (match cnt with Some _ => false | None => true end) || (cnt_val =? 1) then None else Some cnt_val in
         let total := (match idx with Some b => b | None => 0 end) + cnt_val in
         let elements' := total / 32 + (if total mod 32 =? 0 then 0 else 1) in
         Ok (mkPreq body tag2 idx elements' bools info)
       else Ok (mkPreq body body0 (opt_val bit) cnt_val None info)).
  Proof.
    intros Hg. unfold parse_tag_request. fold req. rewrite split_count_ok. cbn [bind].
    rewrite body_split. rewrite body0_not_program. cbn [bind].
    unfold get_tag_info. rewrite strip_body0, Hg. fold cnt_val.
    destruct bit as [[b bv]|] eqn:Eb.
    - cbn [rev app]. destruct Hbit as (Hd & Hl & Hv). rewrite Hd. rewrite (num_int b bv Hbit). cbn [bind rev].
      unfold dot_join. cbn [join bind opt_val]. reflexivity.
    - cbn [rev bind opt_val].
      assert (E : body = body0) by (unfold body, bit_txt; apply app_nil_r). rewrite E. reflexivity.
  Qed.

  Theorem parse_single_data tags info : dget n tags = Some info ->
    negb (ti_struct info) && text_eqb (ti_dtname info) txt_DWORD = false ->
    parse_tag_request tags req = Ok (mkPreq body body0 (opt_val bit) cnt_val None info).
  Proof. intros Hg Hnd. rewrite (parse_head tags info Hg), Hnd. reflexivity. Qed.
End Single.

(* ================================================================ the request path: member (element) segments *)
Definition mem_seg_bytes (i : Z) : bytes :=
  if i <=? 255 then [40; i] else if i <=? 65535 then 41 :: 0 :: le_enc 2 i else 42 :: 0 :: le_enc 4 i.
Definition mems_bytes (idv : list Z) : bytes := concat (map mem_seg_bytes idv).
Definition idx32 (idv : list Z) : Prop := Forall (fun i => 0 <= i < 4294967296) idv.

Lemma encode_member_seg i : 0 <= i < 4294967296 ->
  encode_logical true (txt "member_id") (LInt i) = Ok (mem_seg_bytes i).
Proof.
  intros H. unfold encode_logical, encode_logical_with, mem_seg_bytes.
  change (assoc_text (txt "member_id") logical_types) with (Some 8). cbv iota beta.
  unfold logical_value_bytes.
  destruct (i <=? 255) eqn:E1.
  - rewrite (uint_encode_1 i) by lia. cbn [bind]. change (Path.len [i]) with 1.
    change (assoc_z 1 logical_format) with (Some 0). cbv iota beta.
    change (Z.lor (Z.lor logical_segment_type 8) 0) with 40. reflexivity.
  - destruct (i <=? 65535) eqn:E2.
    + unfold UINT_encode, uint_encode, in_urange. change (pow256 2) with 65536.
      replace ((0 <=? i) && (i <? 65536)) with true by lia. cbn [bind].
      change (Path.len (le_enc 2 i)) with 2. change (assoc_z 2 logical_format) with (Some 1). cbv iota beta.
      change (Z.lor (Z.lor logical_segment_type 8) 1) with 41. reflexivity.
    + replace (i <=? 4294967295) with true by lia.
      unfold UDINT_encode, uint_encode, in_urange. change (pow256 4) with 4294967296.
      replace ((0 <=? i) && (i <? 4294967296)) with true by lia. cbn [bind].
      change (Path.len (le_enc 4 i)) with 4. change (assoc_z 4 logical_format) with (Some 2). cbv iota beta.
      change (Z.lor (Z.lor logical_segment_type 8) 2) with 42. reflexivity.
Qed.

Lemma encode_member_segs idv : idx32 idv -> encode_segs true (member_segs idv) = Ok (mems_bytes idv).
Proof.
  induction 1 as [|i r Hi Hr IH]; [reflexivity|].
  unfold member_segs in *. cbn [map encode_segs encode_seg]. rewrite (encode_member_seg i Hi). cbn [wrap_all bind].
  rewrite IH. reflexivity.
Qed.

Lemma mem_seg_len i : Path.len (mem_seg_bytes i) = 2 \/ Path.len (mem_seg_bytes i) = 4 \/ Path.len (mem_seg_bytes i) = 6.
Proof. unfold mem_seg_bytes. destruct (i <=? 255); [left; reflexivity|]. destruct (i <=? 65535); [right; left|right; right]; reflexivity. Qed.

Lemma mems_len idv : Z.even (Path.len (mems_bytes idv)) = true
  /\ 2 * Z.of_nat (length idv) <= Path.len (mems_bytes idv) <= 6 * Z.of_nat (length idv).
Proof.
  induction idv as [|i r IH]; [split; [reflexivity|cbn; lia]|].
  unfold mems_bytes in *. cbn [map concat]. unfold Path.len in *. rewrite app_length. cbn [length].
  destruct IH as [He Hb]. pose proof (mem_seg_len i) as Hl. unfold Path.len in Hl.
  rewrite Nat2Z.inj_add. split; [|lia].
  rewrite Z.even_add. rewrite He. destruct Hl as [->|[->| ->]]; reflexivity.
Qed.

(* the target's path parser reads them back *)
Lemma pl_40 v r : parse_logical 40 (v :: r) = Some (2, v, r).
Proof. reflexivity. Qed.
Lemma pl_41 lo hi r : parse_logical 41 (0 :: lo :: hi :: r) = Some (2, u16 lo hi, r).
Proof. reflexivity. Qed.
Lemma pl_42 b0 b1 b2 b3 r : parse_logical 42 (0 :: b0 :: b1 :: b2 :: b3 :: r) = Some (2, u32 b0 b1 b2 b3, r).
Proof. reflexivity. Qed.

Lemma parse_logical_mem i rest : 0 <= i < 4294967296 ->
  exists b r, mem_seg_bytes i ++ rest = b :: r /\ (b =? 145) = false /\ parse_logical b r = Some (2, i, rest).
Proof.
  intros H. unfold mem_seg_bytes. destruct (i <=? 255) eqn:E1.
  - exists 40, (i :: rest). repeat split.
  - destruct (i <=? 65535) eqn:E2.
    + eexists 41, _. cbn [le_enc app]. split; [reflexivity|]. split; [reflexivity|]. rewrite pl_41, u16_enc by lia. reflexivity.
    + eexists 42, _. cbn [le_enc app]. split; [reflexivity|]. split; [reflexivity|]. rewrite pl_42, u32_enc by lia. reflexivity.
Qed.

Lemma parse_psegs_mems idv : idx32 idv -> forall f, (length idv <= f)%nat ->
  parse_psegs f (mems_bytes idv) = Some (map (PLog 2) idv).
Proof.
  induction 1 as [|i r Hi Hr IH]; intros f Hf; [destruct f; reflexivity|].
  destruct f as [|f]; [cbn in Hf; lia|]. unfold mems_bytes in *. cbn [map concat].
  destruct (parse_logical_mem i (concat (map mem_seg_bytes r)) Hi) as (b & rr & -> & Hb & Hp).
  cbn [parse_psegs]. rewrite (pseg_log b rr Hb), Hp. rewrite IH by (cbn in Hf; lia). reflexivity.
Qed.

Lemma parse_logicals_mems idv : idx32 idv -> forall f, (length idv <= f)%nat ->
  parse_logicals f (mems_bytes idv) = Some (map (fun i => (2, i)) idv).
Proof.
  induction 1 as [|i r Hi Hr IH]; intros f Hf; [destruct f; reflexivity|].
  destruct f as [|f]; [cbn in Hf; lia|]. unfold mems_bytes in *. cbn [map concat].
  destruct (parse_logical_mem i (concat (map mem_seg_bytes r)) Hi) as (b & rr & -> & Hb & Hp).
  cbn [parse_logicals]. rewrite Hp. rewrite IH by (cbn in Hf; lia). reflexivity.
Qed.

Lemma parse_psegs_mono f : forall f' bs l, parse_psegs f bs = Some l -> (f <= f')%nat -> parse_psegs f' bs = Some l.
Proof.
  induction f as [|f IH]; intros f' bs l H Hle; destruct bs as [|b r]; cbn [parse_psegs] in *;
    try discriminate; try (destruct f'; exact H).
  destruct f' as [|f']; [lia|]. cbn [parse_psegs]. destruct (parse_pseg b r) as [[s r']|]; [|discriminate].
  destruct (parse_psegs f r') as [l0|] eqn:E; [|discriminate]. rewrite (IH f' r' l0 E) by lia. exact H.
Qed.

Lemma parse_logicals_mono f : forall f' bs l, parse_logicals f bs = Some l -> (f <= f')%nat -> parse_logicals f' bs = Some l.
Proof.
  induction f as [|f IH]; intros f' bs l H Hle; destruct bs as [|b r]; cbn [parse_logicals] in *;
    try discriminate; try (destruct f'; exact H).
  destruct f' as [|f']; [lia|]. cbn [parse_logicals]. destruct (parse_logical b r) as [[[lt v] r']|]; [|discriminate].
  destruct (parse_logicals f r') as [l0|] eqn:E; [|discriminate]. rewrite (IH f' r' l0 E) by lia. exact H.
Qed.

Lemma parse_psegs_sym n f rest : 1 <= Path.len n < 256 ->
  parse_psegs (S f) (sym_seg_bytes n ++ rest)
  = match parse_psegs f rest with Some l => Some (PSym n :: l) | None => None end.
Proof.
  intros Hl. unfold sym_seg_bytes. cbn [app parse_psegs]. unfold parse_pseg. cbn [Z.eqb Pos.eqb].
  replace (Path.len n =? 0) with false by lia. rewrite <- app_assoc.
  assert (Htake : takez (Path.len n) (n ++ ((if odd_len n then [0] else []) ++ rest))
                  = Some (n, (if odd_len n then [0] else []) ++ rest)) by apply takez_app.
  rewrite Htake.
  assert (Hodd : Z.odd (Path.len n) = odd_len n) by (unfold Path.len, odd_len; apply Zodd_of_nat).
  rewrite Hodd. destruct (odd_len n); cbn [app]; reflexivity.
Qed.

Lemma parse_logicals_sym n f rest : parse_logicals (S f) (sym_seg_bytes n ++ rest) = None.
Proof. reflexivity. Qed.

Lemma parse_psegs_inst inst f rest : 0 < inst < 4294967296 ->
  parse_psegs (S (S f)) (inst_seg_bytes inst ++ rest)
  = match parse_psegs f rest with Some l => Some (PLog 0 107 :: PLog 1 inst :: l) | None => None end.
Proof.
  intros Hi. unfold inst_seg_bytes. destruct (inst <=? 255) eqn:E1.
  - cbn [app parse_psegs]. rewrite (pseg_log 32) by reflexivity. rewrite pl_32.
    rewrite (pseg_log 36) by reflexivity. rewrite pl_36. destruct (parse_psegs f rest); reflexivity.
  - destruct (inst <=? 65535) eqn:E2.
    + cbn [app le_enc parse_psegs]. rewrite (pseg_log 32) by reflexivity. rewrite pl_32.
      rewrite (pseg_log 37) by reflexivity. rewrite pl_37, u16_enc by lia. destruct (parse_psegs f rest); reflexivity.
    + cbn [app le_enc parse_psegs]. rewrite (pseg_log 32) by reflexivity. rewrite pl_32.
      rewrite (pseg_log 38) by reflexivity. rewrite pl_38, u32_enc by lia. destruct (parse_psegs f rest); reflexivity.
Qed.

Lemma parse_logicals_inst inst f rest : 0 < inst < 4294967296 ->
  parse_logicals (S (S f)) (inst_seg_bytes inst ++ rest)
  = match parse_logicals f rest with Some l => Some ((0, 107) :: (1, inst) :: l) | None => None end.
Proof.
  intros Hi. unfold inst_seg_bytes. destruct (inst <=? 255) eqn:E1.
  - cbn [app parse_logicals]. rewrite pl_32, pl_36. destruct (parse_logicals f rest); reflexivity.
  - destruct (inst <=? 65535) eqn:E2.
    + cbn [app le_enc parse_logicals]. rewrite pl_32, pl_37, u16_enc by lia. destruct (parse_logicals f rest); reflexivity.
    + cbn [app le_enc parse_logicals]. rewrite pl_32, pl_38, u32_enc by lia. destruct (parse_logicals f rest); reflexivity.
Qed.

Lemma inst_seg_len inst : Path.len (inst_seg_bytes inst) = 4 \/ Path.len (inst_seg_bytes inst) = 6 \/ Path.len (inst_seg_bytes inst) = 8.
Proof. unfold inst_seg_bytes. destruct (inst <=? 255); [left; reflexivity|]. destruct (inst <=? 65535); [right; left|right; right]; reflexivity. Qed.

Section SinglePath.
  Variables (n : text) (ids : list text) (idv : list Z).
  Hypothesis Hn : plain_name n = true.
  Hypothesis Hids : Forall2 num_ok ids idv.
  Hypothesis H32 : idx32 idv.
  Hypothesis Hlen3 : (length idv <= 3)%nat.
  Let body0 := n ++ idx_txt ids.

  Lemma sp_pc : forallb plain_char n = true.
  Proof. exact (Hpc n Hn). Qed.

  Lemma sp_ids44 : forallb (nosep 44) ids = true.
  Proof. apply (ids_nosep ids idv Hids). lia. Qed.

  Lemma find_tag_index_body0 : find_tag_index body0 = (n, ids).
  Proof.
    unfold find_tag_index, body0, idx_txt. pose proof (plain_nosep 91 n sp_pc) as Hns.
    pose proof sp_ids44 as H44. revert H44. generalize ids as l. intros l H44.
    destruct l as [|i0 ir].
    - rewrite app_nil_r. rewrite (contains_chr_nosep 91 n) by (apply Hns; tauto). reflexivity.
    - rewrite contains_chr_app. cbn [app contains_chr existsb Z.eqb Pos.eqb orb]. rewrite orb_true_r.
      replace (n ++ 91 :: join [44] (i0 :: ir) ++ [93]) with ((n ++ 91 :: join [44] (i0 :: ir)) ++ [93])
        by (rewrite <- app_assoc; reflexivity).
      rewrite removelast_snoc. unfold find. rewrite find_from_nosep by (apply Hns; tauto). cbn [Nat.add].
      rewrite firstn_app_exact.
      replace (skipn (S (length n)) (n ++ 91 :: join [44] (i0 :: ir))) with (join [44] (i0 :: ir)).
      + cbn [forallb] in H44. apply andb_prop in H44. destruct H44 as [H0 Hr].
        rewrite split_join by assumption. reflexivity.
      + change (n ++ 91 :: join [44] (i0 :: ir)) with (n ++ [91] ++ join [44] (i0 :: ir)). rewrite app_assoc.
        replace (S (length n)) with (length (n ++ [91])) by (rewrite app_length; cbn; lia).
        rewrite skipn_app_exact. reflexivity.
  Qed.

  Lemma map_res_ids : map_res py_int_full ids = Ok idv.
  Proof.
    assert (G : forall l vs, Forall2 num_ok l vs -> map_res py_int_full l = Ok vs).
    { induction 1 as [|t v ts vs H HF IH]; [reflexivity|].
      cbn [map_res]. rewrite (num_int t v H). cbn [bind]. rewrite IH. reflexivity. }
    exact (G _ _ Hids).
  Qed.

  Lemma sp_split : split_chr 46 body0 = [body0].
  Proof. apply split_nosep. apply (body0_nosep n ids idv Hn Hids). tauto. Qed.

  Lemma tag_segments_body0 inst use_ids : 0 < inst ->
    tag_segments body0 (Some inst) use_ids
    = Ok (Some ((if use_ids then [Logical (txt "class_id") (LBytes class_symbol_object); Logical (txt "instance_id") (LInt inst)]
                 else [DataSym n]) ++ member_segs idv)).
  Proof.
    intros Hi. unfold tag_segments. rewrite sp_split, find_tag_index_body0.
    change (txt "Program:") with txt_Program_. unfold body0. rewrite (body0_not_program n ids idv Hn Hids).
    replace (inst =? 0) with false by lia. rewrite map_res_ids. cbn [negb andb attr_segments bind].
    rewrite andb_true_r, app_nil_r. destruct use_ids; reflexivity.
  Qed.
  Definition first_bytes (inst : Z) (use_ids : bool) : bytes := if use_ids then inst_seg_bytes inst else sym_seg_bytes n.
  Definition first_psegs (inst : Z) (use_ids : bool) : list pseg := if use_ids then [PLog 0 107; PLog 1 inst] else [PSym n].

  Lemma sp_len_n : 1 <= Path.len n < 256.
  Proof.
    pose proof Hn as Hp. unfold plain_name in Hp. apply andb_prop in Hp. destruct Hp as [Hp Hlen]. apply andb_prop in Hp. destruct Hp as [_ Hne].
    destruct n; [discriminate|unfold Path.len in *; cbn [length] in *; lia].
  Qed.

  Lemma sp_first_len inst use_ids : 0 < inst ->
    Z.even (Path.len (first_bytes inst use_ids)) = true /\ 4 <= Path.len (first_bytes inst use_ids) <= 258.
  Proof.
    intros Hi. unfold first_bytes. destruct use_ids.
    - destruct (inst_seg_len inst) as [->|[->| ->]]; split; try reflexivity; lia.
    - split; [apply even_len_sym|]. destruct (path_symbolic n inst Hn Hi) as (_ & _ & _ & _ & H4). rewrite blen_len in H4.
      pose proof sp_len_n. split; [exact H4|].
      unfold sym_seg_bytes, Path.len in *. rewrite !app_length. cbn [length]. destruct (odd_len n); cbn [length]; lia.
  Qed.

  Lemma sp_encode inst (use_ids : bool) : 0 < inst < 4294967296 ->
    encode_segs true ((if use_ids then [Logical (txt "class_id") (LBytes class_symbol_object); Logical (txt "instance_id") (LInt inst)]
                       else [DataSym n]) ++ member_segs idv)
    = Ok (first_bytes inst use_ids ++ mems_bytes idv).
  Proof.
    intros Hi. unfold first_bytes. destruct use_ids.
    - cbn [app encode_segs encode_seg bind]. rewrite encode_class_seg. cbn [wrap_all bind]. rewrite (encode_inst_seg inst Hi).
      cbn [wrap_all bind]. rewrite (encode_member_segs idv H32). cbn [bind]. unfold inst_seg_bytes. rewrite <- app_assoc. reflexivity.
    - cbn [app encode_segs encode_seg bind]. unfold encode_data_sym. rewrite (utf8_encode_ascii n (plain_ascii n sp_pc)). cbn [bind].
      change (Z.lor data_segment_type data_extended_symbol) with 145. pose proof sp_len_n.
      rewrite (uint_encode_1 145) by lia. cbn [bind]. rewrite (uint_encode_1 (Path.len n)) by lia. cbn [bind wrap_all].
      rewrite (encode_member_segs idv H32). cbn [bind]. unfold sym_seg_bytes. reflexivity.
  Qed.

  Theorem path_single inst use_ids : 0 < inst < 4294967296 ->
    let pb := first_bytes inst use_ids ++ mems_bytes idv in
    tag_request_path body0 (Some inst) use_ids = Ok (Some ((Path.len pb / 2) :: pb))
    /\ path_wf ((Path.len pb / 2) :: pb) pb
    /\ parse_psegs (length pb) pb = Some (first_psegs inst use_ids ++ map (PLog 2) idv)
    /\ tag_cia pb /\ 4 <= EncapParser.blen pb.
  Proof.
    intros Hi pb.
    destruct (sp_first_len inst use_ids (proj1 Hi)) as [Hfe Hfl]. destruct (mems_len idv) as [Hme Hml].
    assert (Hpl : Path.len pb = Path.len (first_bytes inst use_ids) + Path.len (mems_bytes idv)).
    { unfold pb, Path.len. rewrite app_length. lia. }
    assert (Hpe : Z.even (Path.len pb) = true) by (rewrite Hpl, Z.even_add, Hfe, Hme; reflexivity).
    assert (Hl3 : Z.of_nat (length idv) <= 3) by lia.
    split; [|split; [|split; [|split]]].
    - unfold tag_request_path. rewrite (tag_segments_body0 inst use_ids (proj1 Hi)). cbn [bind].
      unfold epath_encode. change padded_PADDED_EPATH with true. rewrite (sp_encode inst use_ids Hi). cbn [bind]. fold pb.
      rewrite (uint_encode_1 (Path.len pb / 2)) by lia. reflexivity.
    - unfold path_wf. change (EncapParser.blen pb) with (Path.len pb). split; [reflexivity|]. split; [exact Hpe|lia].
    - assert (Hm : parse_psegs (length idv) (mems_bytes idv) = Some (map (PLog 2) idv)) by (apply parse_psegs_mems; [exact H32|lia]).
      unfold pb, first_bytes, first_psegs. destruct use_ids.
      + apply (parse_psegs_mono (S (S (length idv)))).
        * rewrite (parse_psegs_inst inst (length idv) _ Hi), Hm. reflexivity.
        * unfold Path.len in *. rewrite app_length. unfold first_bytes in Hfl. lia.
      + apply (parse_psegs_mono (S (length idv))).
        * rewrite (parse_psegs_sym n (length idv) _ sp_len_n), Hm. reflexivity.
        * unfold Path.len in *. rewrite app_length. unfold first_bytes in Hfl. lia.
    - unfold tag_cia, path_cia, pb, first_bytes. destruct use_ids.
      + assert (Hm : parse_logicals (length idv) (mems_bytes idv) = Some (map (fun i => (2, i)) idv))
          by (apply parse_logicals_mems; [exact H32|lia]).
        assert (Hp : parse_logicals (length (inst_seg_bytes inst ++ mems_bytes idv)) (inst_seg_bytes inst ++ mems_bytes idv)
                     = Some ((0, 107) :: (1, inst) :: map (fun i => (2, i)) idv)).
        { apply (parse_logicals_mono (S (S (length idv)))).
          - rewrite (parse_logicals_inst inst (length idv) _ Hi), Hm. reflexivity.
          - unfold Path.len in *. rewrite app_length. unfold first_bytes in Hfl. lia. }
        rewrite Hp. destruct idv as [|i0 [|i1 ir]]; [right; exists inst, None; reflexivity|left; reflexivity|left; reflexivity].
      + left. destruct (length (sym_seg_bytes n ++ mems_bytes idv)) eqn:E; [|reflexivity].
        unfold sym_seg_bytes in E. cbn in E. discriminate.
    - change (EncapParser.blen pb) with (Path.len pb). lia.
  Qed.
End SinglePath.

(* ================================================================ the target walks the element segments *)
Lemma resolve_segs_mems p l idv : forall acc, resolve_segs p l acc (map (PLog 2) idv) = apply_idx p l (rev acc ++ idv).
Proof.
  induction idv as [|i r IH]; intros acc; cbn [map resolve_segs].
  - rewrite app_nil_r. reflexivity.
  - rewrite IH. cbn [rev]. rewrite <- app_assoc. reflexivity.
Qed.

Lemma flat_index_len dims : forall idx acc k, flat_index dims idx acc = Some k -> length idx = length dims.
Proof.
  induction dims as [|d dr IH]; intros [|i ir] acc k H; cbn [flat_index] in H; try discriminate; [reflexivity|].
  destruct ((0 <=? i) && (i <? d)); [|discriminate]. cbn [length]. f_equal. exact (IH _ _ _ H).
Qed.

Lemma flat_index_bound dims : forallb (fun d => 0 <? d) dims = true -> forall idx acc k, 0 <= acc ->
  flat_index dims idx acc = Some k ->
  acc * dims_count dims <= k < (acc + 1) * dims_count dims /\ Forall2 (fun i d => 0 <= i < d) idx dims.
Proof.
  induction dims as [|d dr IH]; intros Hd [|i ir] acc k Ha H; cbn [flat_index] in H; try discriminate.
  - injection H as <-. unfold dims_count. cbn. split; [lia|constructor].
  - cbn [forallb] in Hd. apply andb_prop in Hd. destruct Hd as [Hd0 Hdr].
    destruct ((0 <=? i) && (i <? d)) eqn:E; [|discriminate].
    assert (Ha' : 0 <= acc * d + i) by nia.
    destruct (IH Hdr ir (acc * d + i) k Ha' H) as [Hb HF].
    pose proof (dims_count_pos dr Hdr) as Hc.
    unfold dims_count in *. cbn [fold_right]. split; [nia|constructor; [lia|exact HF]].
Qed.

(* reference and target index a data place alike *)
Lemma index_data p inst ty dims idv sz pl1 :
  is_dword ty = false -> forallb (fun d => 0 <? d) dims = true -> base_size p ty = Some sz -> 0 < sz ->
  index_place p (PlData inst 0 ty dims (dims_count dims)) idv = Some pl1 ->
  exists off av dl dw,
    pl1 = PlData inst off ty dl av
    /\ apply_idx p (mkWLoc inst 0 ty dims (dims_count dims) None) idv = ROk (mkWLoc inst off ty dw av None)
    /\ 0 <= off /\ 1 <= av
    /\ ((idv = [] /\ av = dims_count dims) \/ Forall2 (fun i d => 0 <= i < d) idv dims).
Proof.
  intros Hnd Hpos Hsz Hsp H. unfold index_place in H. rewrite Hnd in H.
  pose proof (dims_count_pos dims Hpos) as Hc.
  destruct idv as [|i ir].
  - injection H as <-. exists 0, (dims_count dims), dims, dims. repeat split; try reflexivity; try lia. left. split; reflexivity.
  - destruct (flat_index dims (i :: ir) 0) as [k|] eqn:Ef; [|discriminate]. rewrite Hsz in H. injection H as <-.
    destruct (flat_index_bound dims Hpos (i :: ir) 0 k (Z.le_refl 0) Ef) as [Hb HF].
    pose proof (flat_index_len dims _ _ _ Ef) as Hlen.
    exists (0 + k * sz), (dims_count dims - k), [], []. split; [reflexivity|]. split.
    + unfold apply_idx. cbn [w_bit w_dims w_ty w_inst w_off].
      destruct dims as [|d dr]; [cbn in Ef; discriminate|].
      rewrite Hlen, Nat.eqb_refl. cbn [negb]. rewrite Ef, Hsz. reflexivity.
    + split; [nia|]. split; [lia|]. right. exact HF.
Qed.

Lemma forall2_nil_r {A B} (R : A -> B -> Prop) l : Forall2 R l [] -> l = [].
Proof. intros H. inversion H. reflexivity. Qed.

Lemma forall2_single {A B} (R : A -> B -> Prop) l b : Forall2 R l [b] -> exists a, l = [a] /\ R a b.
Proof.
  intros H. inversion H as [|a b' l' bs Hab HF]; subst. inversion HF; subst. exists a. split; [reflexivity|assumption].
Qed.

Lemma tag_ok_dims p g : tag_ok p g = true ->
  (length (g_dims g) <= 3)%nat /\ forallb (fun d => 0 <? d) (g_dims g) = true.
Proof.
  unfold tag_ok. intros H. repeat (apply andb_prop in H; destruct H as [H ?]).
  split; [apply Nat.leb_le; assumption|assumption].
Qed.

(* ================================================================ name[i,j,k].b{n} on a data tag is sound *)
Section SingleData.
  Variables (p : project) (mem : Project.mem) (cfg : ccfg) (fuel : nat) (g : tagdef)
            (ids : list text) (idv : list Z) (bit cnt : option (text * Z)).
  Hypothesis Hwf : wf_project p = true.
  Hypothesis Hwm : wf_mem p mem = true.
  Hypothesis Hlay : layout_ok p = true.
  Hypothesis Hup : upload_ok p = true.
  Hypothesis Hvis : In g (visible_tags p).
  Hypothesis Hsc : g_scope g = ScCtrl.
  Hypothesis Hname : plain_name (g_name g) = true.
  Hypothesis Hids : Forall2 num_ok ids idv.
  Hypothesis Hbit : opt_ok bit.
  Hypothesis Hcnt : opt_ok cnt.
  (* not a BOOL tag, not a BOOL array: those are [plain_request_ok] and (arrays) not covered *)
  Hypothesis Hdata : match g_ty g with BAtom c => (c =? C_BOOL) = false /\ (c =? C_DWORD) = false | _ => True end.
  (* a member segment carries 32 bits *)
  Hypothesis Hdims32 : Forall (fun d => d <= 4294967296) (g_dims g).

  Let n := g_name g.
  Let s := single_req n ids bit cnt.
  Let r := mkReq None [mkSeg n idv] (opt_val bit) (opt_val cnt).

  Lemma sd_type_facts info : tag_info p g = Some info ->
    exists sz, base_size p (g_ty g) = Some sz /\ 0 < sz /\ info_for p (g_ty g) sz info
      /\ negb (ti_struct info) && text_eqb (ti_dtname info) txt_DWORD = false
      /\ text_eqb (ti_dtname info) txt_DWORD = false
      /\ is_dword (g_ty g) = false
      /\ tag_place g = Some (PlData (g_inst g) 0 (g_ty g) (g_dims g) (tag_elems g))
      /\ tag_wloc g = ROk (mkWLoc (g_inst g) 0 (g_ty g) (g_dims g) (tag_elems g) None)
      /\ (info_is_arr info = false -> g_dims g = []).
  Proof.
    intros Hinfo. destruct (pl_wf p g Hwf Hvis) as (Hok & _ & _).
    unfold tag_ok in Hok. repeat (apply andb_prop in Hok; destruct Hok as [Hok ?]).
    unfold tag_info in Hinfo. unfold tag_place, tag_wloc.
    pose proof Hdata as Hd. destruct (g_ty g) as [c|tid|w] eqn:Ety; [| |discriminate].
    - destruct Hd as [Eb Edw].
      apply andb_prop in H. destruct H as [H Hbooldims]. apply andb_prop in H. destruct H as [H Hbp]. apply andb_prop in H. destruct H as [Hsz Hbp0].
      destruct (atom_size c) as [sz|] eqn:Esz; [|discriminate].
      destruct (atom_client_name c sz Esz) as (nm & k & Hcls & Hnm & Hcn & Hdw & Hbool).
      rewrite Hcls in Hinfo. injection Hinfo as <-. rewrite Eb.
      exists sz. cbn [base_size is_dword ti_struct ti_dtname negb andb]. rewrite Hdw, Edw.
      split; [exact Esz|]. split; [destruct (atom_size_cases c sz Esz) as [|[|[|]]]; lia|].
      split.
      { unfold info_for. cbn [ti_esize ti_dtname ti_struct].
        split; [exists 1%nat; unfold info_elem; cbn [ti_class elem_tc]; rewrite Hcls; destruct (g_dims g); reflexivity|].
        split; [reflexivity|]. split; [exists nm; split; [exact Hnm|symmetry; exact Hcn]|reflexivity]. }
      repeat split; try reflexivity.
      unfold info_is_arr. cbn [ti_class]. destruct (g_dims g); [reflexivity|discriminate].
    - apply andb_prop in H. destruct H as [Hft Hbp0].
      destruct (find_template (p_templates p) tid) as [t|] eqn:Eft; [|discriminate].
      destruct (struct_dtype (client_fuel p) p tid) as [[[[[nm tc] sz] attrs] mem']|] eqn:Esd; [|discriminate].
      injection Hinfo as <-.
      unfold client_fuel in Esd. rewrite struct_dtype_S in Esd. rewrite Eft in Esd.
      destruct (member_infos (struct_dtype (S (length (p_templates p))) p) (t_members t)) as [infos|] eqn:Emi;
        try rewrite Emi in Esd; cbv beta iota in Esd; [|discriminate].
      injection Esd as Hnm Htc Hsz Hattrs Hmem.
      destruct (find_template_in _ _ _ Eft) as [Hint Htid].
      assert (Hlt : tmpl_layout_ok p t = true) by (apply (forallb_In _ (p_templates p)); assumption).
      assert (Htc_notarr : info_elem (TI true nm (match g_dims g with [] => tc | _ :: _ => KArr (dims_count (g_dims g)) tc end)
                                        sz (Some (g_inst g)) attrs mem') = tc).
      { unfold info_elem. cbn [ti_class]. destruct (g_dims g); [|reflexivity].
        rewrite <- Htc. unfold dtype_of. destruct (is_string_dtype _); reflexivity. }
      assert (Hndw : text_eqb nm txt_DWORD = false).
      { rewrite <- Hnm.
        pose proof Hup as Hup'. unfold upload_ok in Hup'. apply andb_prop in Hup'. destruct Hup' as [_ Hnd].
        pose proof (forallb_In _ _ _ Hnd Hint) as Hx. cbv beta in Hx. apply negb_true_iff in Hx. exact Hx. }
      exists (t_size t). cbn [base_size is_dword ti_struct ti_dtname negb andb]. rewrite Eft.
      split; [reflexivity|]. split; [apply (sc_lay p t Hlt)|]. split.
      { unfold info_for.
        split; [exists (client_fuel p); rewrite Htc_notarr; cbn [elem_tc]; unfold client_fuel; rewrite struct_dtype_S;
                rewrite Eft, Emi; cbn [option_map]; rewrite <- Htc; reflexivity|].
        split; [cbn [ti_esize]; rewrite <- Hsz; reflexivity|].
        split; [exists (t_name t); cbn [ty_name ti_dtname]; rewrite Eft; split; [reflexivity|rewrite <- Hnm; reflexivity]|].
        cbn [ti_struct ti_attrs]. split; [reflexivity|]. exists t. split; [exact Eft|].
        rewrite <- Hattrs. unfold dtype_of. cbn [fst snd].
        rewrite (sc_scan p _ t infos Hlt Emi). cbn [sc_attrs]. apply (sc_attrs_visible p _ t infos Hlt Emi). }
      split; [reflexivity|]. split; [exact Hndw|]. repeat split; try reflexivity.
      unfold info_is_arr. cbn [ti_class]. destruct (g_dims g) eqn:Ed; [reflexivity|discriminate].
  Qed.
  (* the target resolves both spellings of the path *)
  Lemma sd_resolve_path l : tag_wloc g = ROk l -> idx32 idv -> (length idv <= 3)%nat ->
    resolve_path p false (first_bytes n (g_inst g) (c_use_ids cfg) ++ mems_bytes idv) = of_rres (apply_idx p l idv).
  Proof.
    intros Hl H32 Hlen3.
    pose proof (pl_inst_range p mem g Hwf Hvis) as Hir.
    destruct (path_single n ids idv Hname Hids H32 Hlen3 (g_inst g) (c_use_ids cfg) Hir) as (_ & _ & Hps & _ & _).
    unfold resolve_path. rewrite Hps. unfold first_psegs. destruct (c_use_ids cfg).
    - cbn [app]. unfold resolve_in_scope. rewrite (pl_find_inst p g Hwf Hvis), Hsc. cbn [scope_eqb]. rewrite Hl.
      rewrite resolve_segs_mems. cbn [rev app]. destruct (map (PLog 2) idv); reflexivity.
    - cbn [app]. change txt_Program with txt_Program_. rewrite (starts_with_program n (Hpc n Hname)).
      unfold resolve_in_scope. unfold n. rewrite (pl_find_name p g Hwf Hvis Hsc), Hl. fold n.
      rewrite resolve_segs_mems. cbn [rev app]. destruct (map (PLog 2) idv); reflexivity.
  Qed.

  Theorem single_data_request_ok :
    ref_read p mem r <> None ->
    (forall q path, parse_tag_request (client_tags p) s = Ok q -> read_path (c_use_ids cfg) q = Ok path ->
                    fits (c_conn cfg) fuel q path) ->
    request_ok p mem cfg fuel s r.
  Proof.
    intros Href Hfits.
    destruct (pl_info p g Hup Hvis Hsc) as (info & Hinfo & Hget). fold n in Hget.
    destruct (sd_type_facts info Hinfo) as (sz & Hsz & Hszpos & Hifor & Hnd & Hndw & Hisd & Htp & Htw & Harr).
    destruct (pl_wf p g Hwf Hvis) as (Hok & _ & _).
    destruct (tag_ok_dims p g Hok) as [Hd3 Hdpos].
    (* the reference place *)
    assert (Hres : exists pl1, index_place p (PlData (g_inst g) 0 (g_ty g) (g_dims g) (tag_elems g)) idv = Some pl1
                               /\ resolve p r = Some pl1).
    { unfold ref_read in Href. destruct (resolve p r) as [pl1|] eqn:E; [|congruence]. exists pl1. split; [|reflexivity].
      unfold resolve in E. cbn [r_segs r req_scope r_prog s_name s_idx] in E. unfold n in E.
      rewrite (pl_find_name p g Hwf Hvis Hsc), Htp in E.
      destruct (index_place p (PlData (g_inst g) 0 (g_ty g) (g_dims g) (tag_elems g)) idv) as [pl2|]; [|discriminate].
      cbn [walk_members] in E. exact E. }
    destruct Hres as (pl1 & Hip & Hres).
    destruct (index_data p (g_inst g) (g_ty g) (g_dims g) idv sz pl1 Hisd Hdpos Hsz Hszpos Hip)
      as (off & av & dl & dw & Hpl1 & Hai & Hoff & Hav & Hshape).
    assert (H32 : idx32 idv /\ (length idv <= 3)%nat).
    { destruct Hshape as [[-> _]|HF]; [split; [constructor|cbn; lia]|].
      split.
      - clear - HF Hdims32. induction HF as [|i d ir dr Hi HF IH]; [constructor|].
        inversion Hdims32; subst. constructor; [lia|apply IH; assumption].
      - pose proof (forall2_len _ _ _ HF). lia. }
    destruct H32 as [H32 Hlen3].
    pose proof (pl_inst_range p mem g Hwf Hvis) as Hir.
    destruct (path_single n ids idv Hname Hids H32 Hlen3 (g_inst g) (c_use_ids cfg) Hir) as (Hpath & Hpw & _ & Hcia & Hpb4).
    pose proof (parse_single_data n ids idv bit cnt Hname Hids Hbit Hcnt (client_tags p) info Hget Hnd) as Hparse.
    fold s in Hparse.
    set (q := mkPreq ((n ++ idx_txt ids) ++ bit_txt bit) (n ++ idx_txt ids) (opt_val bit) (cnt_val cnt) None info) in *.
    set (pb := first_bytes n (g_inst g) (c_use_ids cfg) ++ mems_bytes idv) in *.
    assert (Hrp : read_path (c_use_ids cfg) q = Ok ((Path.len pb / 2) :: pb)).
    { unfold read_path, q. cbn [pq_plc pq_info]. rewrite (tag_info_inst p g info Hinfo), Hpath. reflexivity. }
    exists q, ((Path.len pb / 2) :: pb). split; [|split; [exact (Hfits _ _ Hparse Hrp)|split]].
    - exists pl1, pb, (mkWLoc (g_inst g) off (g_ty g) dw av None).
      split; [exact Hres|]. split; [exact Hparse|]. split; [exact Hrp|]. split; [exact Hpw|]. split; [exact Hcia|].
      split; [exact Hpb4|]. split.
      { unfold pb. rewrite (sd_resolve_path _ Htw H32 Hlen3). unfold tag_elems. rewrite Hai. reflexivity. }
      rewrite Hpl1. cbn [agree pq_bit pq_bools pq_elements pq_info w_inst w_off w_bit w_ty w_avail r_bit r_count r q].
      split; [exact Hisd|]. repeat split; try reflexivity; try assumption.
      + destruct cnt as [[c cv]|]; reflexivity.
      + exists sz. split; assumption.
      + intros Hna. specialize (Harr Hna).
        (* a scalar tag: no index, one element *)
        assert (Hav1 : av = 1).
        { destruct Hshape as [[_ ->]|HF]; [rewrite Harr; reflexivity|].
          rewrite Harr in HF. pose proof (forall2_nil_r _ _ HF) as Hidv.
          rewrite Hidv, Hpl1 in Hip. unfold index_place in Hip. rewrite Hisd in Hip. injection Hip as _ _ Hav'.
          rewrite <- Hav'. unfold tag_elems. rewrite Harr. reflexivity. }
        rewrite Hav1 in *.
        unfold ref_read in Href. rewrite Hres, Hpl1 in Href. cbn [place_inst] in Href.
        destruct (mem_get mem (g_inst g)) as [img|]; [|congruence].
        unfold read_place in Href. rewrite Hsz in Href. cbn [r_bit r_count r] in Href.
        destruct cnt as [[c cv]|]; [|left; reflexivity]. right. cbn [opt_val] in *.
        destruct (opt_val bit); [congruence|].
        destruct ((1 <=? cv) && (cv <=? 1)) eqn:E; [|congruence]. f_equal. lia.
    - unfold image_covers. rewrite Hres, Hpl1. exact I.
    - exact Href.
  Qed.
End SingleData.

Print Assumptions single_data_request_ok.

(* ================================================================ BOOL arrays: name, name[i], name{n}, name[i]{n} *)
Section SingleBoolsParse.
  Variables (n : text) (ids : list text) (idv : list Z) (cnt : option (text * Z)).
  Hypothesis Hn : plain_name n = true.
  Hypothesis Hids : Forall2 num_ok ids idv.
  Hypothesis Hcnt : opt_ok cnt.
  Hypothesis Hlen1 : (length idv <= 1)%nat.

  Definition bools_plc : text := match idv with [] => n | _ => n ++ zs_of_string "[0]" end.
  Definition bools_start : option Z := match idv with [] => None | i :: _ => Some i end.

  Lemma get_array_index_body0 :
    get_array_index (n ++ idx_txt ids) = Ok (n, bools_start).
  Proof.
    unfold get_array_index, bools_start. pose proof (Hpc n Hn) as Hpc0.
    pose proof Hids as HF. pose proof Hlen1 as Hl. revert HF Hl. generalize idv as vs, ids as l. intros vs l HF Hl.
    destruct HF as [|t v ts vs' Hv HF].
    - cbn [idx_txt]. rewrite app_nil_r. rewrite (ends_with_nosep 93 n) by (apply plain_nosep; [exact Hpc0|tauto]). reflexivity.
    - destruct HF; [|cbn in Hl; lia]. unfold idx_txt. cbn [join].
      replace (n ++ [91] ++ t ++ [93]) with ((n ++ 91 :: t) ++ [93]) by (rewrite <- !app_assoc; reflexivity).
      rewrite ends_with_snoc. rewrite <- app_assoc. cbn [app].
      rewrite contains_chr_app. cbn [contains_chr existsb Z.eqb Pos.eqb orb]. rewrite orb_true_r. cbn [andb].
      assert (Hns : nosep 91 (t ++ [93]) = true).
      { rewrite nosep_app, (num_nosep 91 t v Hv) by lia. reflexivity. }
      rewrite (rsplit1_app 91 n (t ++ [93]) Hns). rewrite removelast_snoc, (num_int t v Hv). reflexivity.
  Qed.

  Theorem parse_single_bools tags info : dget n tags = Some info ->
    negb (ti_struct info) && text_eqb (ti_dtname info) txt_DWORD = true ->
    parse_tag_request tags (single_req n ids None cnt)
    = Ok (mkPreq (n ++ idx_txt ids) bools_plc bools_start
                 (dword_elements (match bools_start with Some b => b | None => 0 end) (cnt_val cnt))
                 (bools_of_cnt (opt_val cnt)) info).
  Proof.
    intros Hg Hd. rewrite (parse_head n ids idv None cnt Hn Hids I Hcnt tags info Hg), Hd.
    assert (Hplc : match bools_start with Some _ => n ++ zs_of_string "[0]" | None => n ++ idx_txt ids end = bools_plc).
    { unfold bools_start, bools_plc. pose proof Hids as HF. revert HF. generalize idv as vs, ids as l. intros vs l HF.
      destruct HF; [cbn [idx_txt]; apply app_nil_r|reflexivity]. }
    rewrite get_array_index_body0. cbn [bind bit_txt]. rewrite Hplc, app_nil_r.
    unfold wrap_all. unfold dword_elements, bools_of_cnt, cnt_val.
    destruct cnt as [[c cv]|]; cbn [opt_val orb]; [|reflexivity]. destruct (cv =? 1); reflexivity.
  Qed.
End SingleBoolsParse.

Lemma num_ok_zero : Forall2 num_ok [[48]] [0].
Proof. constructor; [|constructor]. unfold num_ok. repeat split; vm_compute; congruence. Qed.

Lemma cnt_val_n cnt : cnt_val cnt = cnt_n (opt_val cnt).
Proof. destruct cnt as [[c cv]|]; reflexivity. Qed.

Lemma index_dword p inst off dims av idv pl1 :
  index_place p (PlData inst off (BAtom C_DWORD) dims av) idv = Some pl1 -> (length idv <= length dims)%nat ->
  (idv = [] /\ pl1 = PlBools inst off (32 * dims_count dims) 0)
  \/ (exists kk i, dims = [kk] /\ idv = [i] /\ 0 <= i /\ pl1 = PlBools inst off (32 * kk) i).
Proof.
  unfold index_place. change (is_dword (BAtom C_DWORD)) with true. cbv iota. intros H Hl.
  destruct dims as [|kk [|k2 dr]]; destruct idv as [|i [|i2 ir]]; cbn [length] in Hl; try lia; try discriminate.
  - left. injection H as <-. split; reflexivity.
  - left. injection H as <-. split; [reflexivity|]. unfold dims_count. cbn [fold_right]. rewrite Z.mul_1_r. reflexivity.
  - destruct ((0 <=? i) && (i <? 32 * kk)) eqn:E; [|discriminate]. injection H as <-.
    right. exists kk, i. repeat split; try reflexivity. lia.
Qed.

Theorem single_bools_request_ok p mem cfg fuel g ids idv cnt :
  wf_project p = true -> wf_mem p mem = true -> layout_ok p = true -> upload_ok p = true ->
  In g (visible_tags p) -> g_scope g = ScCtrl -> plain_name (g_name g) = true ->
  Forall2 num_ok ids idv -> opt_ok cnt -> g_ty g = BAtom C_DWORD -> (length idv <= length (g_dims g))%nat ->
  let s := single_req (g_name g) ids None cnt in
  let r := mkReq None [mkSeg (g_name g) idv] None (opt_val cnt) in
  ref_read p mem r <> None ->
  (forall q path, parse_tag_request (client_tags p) s = Ok q -> read_path (c_use_ids cfg) q = Ok path ->
                  fits (c_conn cfg) fuel q path) ->
  request_ok p mem cfg fuel s r.
Proof.
  intros Hwf Hwm Hlay Hup Hvis Hsc Hname Hids Hcnt Hty Hshape s r Href Hfits.
  destruct (pl_info p g Hup Hvis Hsc) as (info & Hinfo & Hget).
  destruct (pl_wf p g Hwf Hvis) as (Hok & _ & _). destruct (tag_ok_dims p g Hok) as [Hd3 Hdpos].
  pose proof (pl_inst_range p mem g Hwf Hvis) as Hir.
  pose proof (tag_info_inst p g info Hinfo) as Hinst.
  unfold tag_info in Hinfo. rewrite Hty in Hinfo.
  change (atom_class C_DWORD) with (Some (txt_DWORD, 4, ABits 4)) in Hinfo. injection Hinfo as Hinfo.
  assert (Hdw : negb (ti_struct info) && text_eqb (ti_dtname info) txt_DWORD = true) by (rewrite <- Hinfo; reflexivity).
  assert (Htw : tag_wloc g = ROk (mkWLoc (g_inst g) 0 (BAtom C_DWORD) (g_dims g) (tag_elems g) None)).
  { unfold tag_wloc. rewrite Hty. reflexivity. }
  assert (Hres : exists pl1, index_place p (PlData (g_inst g) 0 (BAtom C_DWORD) (g_dims g) (tag_elems g)) idv = Some pl1
                             /\ resolve p r = Some pl1).
  { unfold ref_read in Href. destruct (resolve p r) as [pl1|] eqn:E; [|congruence]. exists pl1. split; [|reflexivity].
    unfold resolve in E. cbn [r_segs r req_scope r_prog s_name s_idx] in E.
    rewrite (pl_find_name p g Hwf Hvis Hsc) in E. unfold tag_place in E. rewrite Hty in E.
    change (C_DWORD =? C_BOOL) with false in E. cbv iota in E.
    destruct (index_place p (PlData (g_inst g) 0 (BAtom C_DWORD) (g_dims g) (tag_elems g)) idv) as [pl2|]; [|discriminate].
    cbn [walk_members] in E. exact E. }
  destruct Hres as (pl1 & Hip & Hres).
  assert (Hts : tag_size p g = Some (4 * tag_elems g)) by (unfold tag_size; rewrite Hty; reflexivity).
  assert (Hetc : exists f1, elem_tc f1 p (BAtom C_DWORD) = Some (info_elem info)).
  { exists 1%nat. rewrite <- Hinfo. unfold info_elem. cbn [ti_class]. destruct (g_dims g); reflexivity. }
  assert (Hcases : (idv = [] /\ ids = [] /\ pl1 = PlBools (g_inst g) 0 (32 * tag_elems g) 0)
                   \/ (exists kk i t, g_dims g = [kk] /\ idv = [i] /\ ids = [t] /\ num_ok t i /\ 0 <= i
                                      /\ pl1 = PlBools (g_inst g) 0 (32 * kk) i)).
  { destruct (index_dword p _ _ _ _ _ _ Hip Hshape) as [[-> ->]|(kk & i & Ed & -> & Hi0 & ->)].
    - left. inversion Hids. repeat split; reflexivity.
    - right. destruct (forall2_single _ _ _ Hids) as (t & -> & Hti).
      exists kk, i, t. split; [exact Ed|]. split; [reflexivity|]. split; [reflexivity|]. split; [exact Hti|]. split; [exact Hi0|reflexivity]. }
  destruct Hcases as [(-> & -> & ->)|(kk & i & t & Ed & -> & -> & Hti & Hi0 & ->)].
  - (* the array from its first bit *)
    pose proof (parse_single_bools (g_name g) [] [] cnt Hname (Forall2_nil _) Hcnt (Nat.le_0_l _) (client_tags p) info Hget Hdw) as Hparse.
    fold s in Hparse. cbn [bools_plc bools_start idx_txt] in Hparse. rewrite app_nil_r in Hparse.
    destruct (path_single (g_name g) [] [] Hname (Forall2_nil _) (Forall_nil _) (Nat.le_0_l _) (g_inst g) (c_use_ids cfg) Hir)
      as (Hpath & Hpw & _ & Hcia & Hpb4).
    cbn [idx_txt] in Hpath. rewrite app_nil_r in Hpath.
    set (pb := first_bytes (g_name g) (g_inst g) (c_use_ids cfg) ++ mems_bytes []) in *.
    set (q := mkPreq (g_name g) (g_name g) None (dword_elements 0 (cnt_val cnt)) (bools_of_cnt (opt_val cnt)) info) in *.
    assert (Hrp : read_path (c_use_ids cfg) q = Ok ((Path.len pb / 2) :: pb)).
    { unfold read_path, q. cbn [pq_plc pq_info]. rewrite Hinst, Hpath. reflexivity. }
    exists q, ((Path.len pb / 2) :: pb). split; [|split; [exact (Hfits _ _ Hparse Hrp)|split]].
    + exists (PlBools (g_inst g) 0 (32 * tag_elems g) 0), pb, (mkWLoc (g_inst g) 0 (BAtom C_DWORD) (g_dims g) (tag_elems g) None).
      split; [exact Hres|]. split; [exact Hparse|]. split; [exact Hrp|]. split; [exact Hpw|]. split; [exact Hcia|].
      split; [exact Hpb4|]. split.
      { unfold pb. rewrite (sd_resolve_path p mem cfg g [] [] Hwf Hvis Hsc Hname (Forall2_nil _) _ Htw (Forall_nil _) (Nat.le_0_l _)).
        reflexivity. }
      cbn [agree pq_bit pq_bools pq_elements pq_info w_inst w_off w_bit w_ty w_avail r_bit r_count r q].
      rewrite cnt_val_n. repeat split; try reflexivity; try lia.
      * right. split; reflexivity.
      * exact Hetc.
      * rewrite <- Hinfo. unfold info_is_arr, tag_elems. cbn [ti_class]. destruct (g_dims g); [reflexivity|discriminate].
      * rewrite <- Hinfo. reflexivity.
      * rewrite <- Hinfo. reflexivity.
    + unfold image_covers. rewrite Hres. destruct (mem_get mem (g_inst g)) as [img|] eqn:Emem; [|exact I].
      pose proof (wf_mem_size p mem g _ img Hwm (pl_in_tags p g Hvis) Hts Emem) as Hl. lia.
    + exact Href.
  - (* from bit i: the client reads from DWORD 0 *)
    assert (Hkk : 0 < kk) by (rewrite Ed in Hdpos; cbn [forallb] in Hdpos; lia).
    assert (Hte : tag_elems g = kk) by (unfold tag_elems, dims_count; rewrite Ed; cbn [fold_right]; lia).
    assert (Hl1 : (length [i] <= 1)%nat) by (cbn; lia).
    pose proof (parse_single_bools (g_name g) [t] [i] cnt Hname (Forall2_cons _ _ Hti (Forall2_nil _)) Hcnt Hl1 (client_tags p) info Hget Hdw) as Hparse.
    fold s in Hparse. cbn [bools_plc bools_start] in Hparse.
    assert (H32 : idx32 [0]) by (constructor; [lia|constructor]).
    assert (Hlen3 : (length [0] <= 3)%nat) by (cbn; lia).
    destruct (path_single (g_name g) [[48]] [0] Hname num_ok_zero H32 Hlen3 (g_inst g) (c_use_ids cfg) Hir)
      as (Hpath & Hpw & _ & Hcia & Hpb4).
    change (g_name g ++ idx_txt [[48]]) with (g_name g ++ zs_of_string "[0]") in Hpath.
    set (pb := first_bytes (g_name g) (g_inst g) (c_use_ids cfg) ++ mems_bytes [0]) in *.
    set (q := mkPreq (g_name g ++ idx_txt [t]) (g_name g ++ zs_of_string "[0]") (Some i) (dword_elements i (cnt_val cnt))
                     (bools_of_cnt (opt_val cnt)) info) in *.
    assert (Hrp : read_path (c_use_ids cfg) q = Ok ((Path.len pb / 2) :: pb)).
    { unfold read_path, q. cbn [pq_plc pq_info]. rewrite Hinst, Hpath. reflexivity. }
    assert (Hai : apply_idx p (mkWLoc (g_inst g) 0 (BAtom C_DWORD) (g_dims g) (tag_elems g) None) [0]
                  = ROk (mkWLoc (g_inst g) 0 (BAtom C_DWORD) [] kk None)).
    { unfold apply_idx. cbn [w_bit w_dims w_ty w_inst w_off]. rewrite Ed. cbn [length Nat.eqb negb flat_index].
      replace ((0 <=? 0) && (0 <? kk)) with true by lia. cbn [base_size]. change (atom_size C_DWORD) with (Some 4).
      unfold dims_count. cbn [fold_right]. f_equal. f_equal; lia. }
    exists q, ((Path.len pb / 2) :: pb). split; [|split; [exact (Hfits _ _ Hparse Hrp)|split]].
    + exists (PlBools (g_inst g) 0 (32 * kk) i), pb, (mkWLoc (g_inst g) 0 (BAtom C_DWORD) [] kk None).
      split; [exact Hres|]. split; [exact Hparse|]. split; [exact Hrp|]. split; [exact Hpw|]. split; [exact Hcia|].
      split; [exact Hpb4|]. split.
      { unfold pb. rewrite (sd_resolve_path p mem cfg g [[48]] [0] Hwf Hvis Hsc Hname num_ok_zero _ Htw H32 Hlen3), Hai. reflexivity. }
      cbn [agree pq_bit pq_bools pq_elements pq_info w_inst w_off w_bit w_ty w_avail r_bit r_count r q].
      rewrite cnt_val_n. repeat split; try reflexivity; try lia.
      * left. reflexivity.
      * exact Hetc.
      * rewrite <- Hinfo. unfold info_is_arr. cbn [ti_class]. rewrite Ed. discriminate.
      * rewrite <- Hinfo. reflexivity.
      * rewrite <- Hinfo. reflexivity.
    + unfold image_covers. rewrite Hres. destruct (mem_get mem (g_inst g)) as [img|] eqn:Emem; [|exact I].
      pose proof (wf_mem_size p mem g _ img Hwm (pl_in_tags p g Hvis) Hts Emem) as Hl. lia.
    + exact Href.
Qed.

Print Assumptions single_bools_request_ok.

(* ================================================================ every single-segment controller-scope request *)
Record sreq := mkSreq {
  sr_g : tagdef; sr_ids : list text; sr_idv : list Z; sr_bit : option (text * Z); sr_cnt : option (text * Z) }.
Definition sreq_text (x : sreq) : text := single_req (g_name (sr_g x)) (sr_ids x) (sr_bit x) (sr_cnt x).
Definition sreq_ast (x : sreq) : request_ast :=
  mkReq None [mkSeg (g_name (sr_g x)) (sr_idv x)] (opt_val (sr_bit x)) (opt_val (sr_cnt x)).

(* which decorations go with which tag type *)
Definition sreq_shape (x : sreq) : Prop :=
  match g_ty (sr_g x) with
  | BAtom c =>
      if c =? C_BOOL then sr_ids x = [] /\ sr_bit x = None /\ sr_cnt x = None
      else if c =? C_DWORD then sr_bit x = None /\ (length (sr_idv x) <= length (g_dims (sr_g x)))%nat
      else Forall (fun d => d <= 4294967296) (g_dims (sr_g x))
  | BStruct _ => Forall (fun d => d <= 4294967296) (g_dims (sr_g x))
  | BOpaque _ => False
  end.

Definition sreq_ok (p : project) (mem : Project.mem) (cfg : ccfg) (fuel : nat) (x : sreq) : Prop :=
  In (sr_g x) (visible_tags p) /\ g_scope (sr_g x) = ScCtrl /\ plain_name (g_name (sr_g x)) = true
  /\ Forall2 num_ok (sr_ids x) (sr_idv x) /\ opt_ok (sr_bit x) /\ opt_ok (sr_cnt x) /\ sreq_shape x
  /\ ref_read p mem (sreq_ast x) <> None
  /\ (forall q path, parse_tag_request (client_tags p) (sreq_text x) = Ok q -> read_path (c_use_ids cfg) q = Ok path ->
                     fits (c_conn cfg) fuel q path).

Theorem sreq_request_ok p mem cfg fuel x :
  wf_project p = true -> wf_mem p mem = true -> layout_ok p = true -> upload_ok p = true ->
  sreq_ok p mem cfg fuel x -> request_ok p mem cfg fuel (sreq_text x) (sreq_ast x).
Proof.
  intros Hwf Hwm Hlay Hup H. destruct x as [g ids idv bit cnt].
  unfold sreq_ok, sreq_shape, sreq_text, sreq_ast in *. cbn [sr_g sr_ids sr_idv sr_bit sr_cnt] in *.
  destruct H as (Hvis & Hsc & Hname & Hids & Hbit & Hcnt & Hshape & Href & Hfits).
  destruct (g_ty g) as [c|tid|w] eqn:Ety.
  - destruct (c =? C_BOOL) eqn:Eb.
    + destruct Hshape as (-> & -> & ->). inversion Hids. subst.
      assert (E : single_req (g_name g) [] None None = g_name g) by (unfold single_req; cbn; rewrite !app_nil_r; reflexivity).
      rewrite E in *. cbn [opt_val] in *. apply plain_request_ok; assumption.
    + destruct (c =? C_DWORD) eqn:Ed.
      * destruct Hshape as [-> Hlen]. assert (c = C_DWORD) by lia. subst c. cbn [opt_val] in *.
        apply single_bools_request_ok; assumption.
      * apply single_data_request_ok; try assumption. rewrite Ety. split; assumption.
  - apply single_data_request_ok; try assumption. rewrite Ety. exact I.
  - contradiction.
Qed.

Print Assumptions sreq_request_ok.
