(* Proofs/LifecycleUpload.v — the tag upload of LogixDriver.open(init_tags=True) (get_tag_list: symbol
   pages, template attributes, template reads — any number of @with_forward_open calls, each sending
   any number of connected requests) is abstracted to [ConnectedCall] operations.  Whatever the
   number of calls, their requests and the target's replies (any handler), the sequence preserves the
   reachability invariant [Good] and the lifecycle invariant [Inv], produces only library outcomes,
   and every SendUnitData frame it delivers is covered by the trace clauses of [Inv]. *)
From PV Require Import Base.Bytes Base.Res.
From PV Require Import Spec.TargetIface Spec.TargetCore.
From PV Require Import Proofs.LifecycleTarget Model.Lifecycle Proofs.LifecycleP Proofs.LifecycleInv.
Open Scope Z_scope.

Section Upload.
Context {S : Type} (h : handler S).

Definition upload_ops (calls : list (list (Z * bytes) * Z)) : list op :=
  map (fun c => Simple (ConnectedCall (fst c) (snd c))) calls.

Lemma upload_ops_ok calls : Forall op_ok (upload_ops calls).
Proof. unfold upload_ops. apply Forall_forall. intros o Ho. apply in_map_iff in Ho. destruct Ho as (c & <- & _). exact I. Qed.

(* k connected calls, any k: by induction over the calls (run_ops_good / run_ops_inv) *)
Theorem upload_preserves cfg0 logix flt calls (s : st (S := S)) :
  Good h cfg0 s -> Inv h s ->
  let r := run_ops h logix flt s (upload_ops calls) in
  Good h cfg0 (fst r) /\ Inv h (fst r) /\ Forall (fun o => lib_outcome (o_out o)) (snd r).
Proof.
  intros G I1. cbv zeta.
  pose proof (run_ops_good h cfg0 logix flt (upload_ops calls) s G) as (G1 & F1). cbv zeta in G1, F1.
  split; [exact G1 |]. split; [apply (run_ops_inv h cfg0 flt logix (upload_ops calls) s G I1 (upload_ops_ok calls)) |].
  eapply Forall_impl; [| exact F1]. intros o [_ L]. exact L.
Qed.

(* LogixDriver.open with the upload: the modelled open() followed by the upload's calls *)
Corollary open_with_upload_preserves cfg0 flt calls (s : st (S := S)) :
  Good h cfg0 s -> Inv h s ->
  let r := run_ops h true flt s (Simple Open :: upload_ops calls) in
  Good h cfg0 (fst r) /\ Inv h (fst r).
Proof.
  intros G I1. cbv zeta.
  assert (Forall op_ok (Simple Open :: upload_ops calls)) as Hok by (constructor; [exact I | apply upload_ops_ok]).
  pose proof (run_ops_good h cfg0 true flt (Simple Open :: upload_ops calls) s G) as (G1 & _).
  split; [exact G1 | apply (run_ops_inv h cfg0 flt true _ s G I1 Hok)].
Qed.
End Upload.
