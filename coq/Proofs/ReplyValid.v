(* Proofs/ReplyValid.v — what the response parsers compute, in terms of the wire bytes, and the
   classification theorems: validity == the Spec's status-word rule for ALL byte strings. *)
From Coq Require Import String ZifyBool.
From PV Require Import Base.Bytes Base.BytesLemmas Base.Res Base.Proto Base.PyStr.
From PV Require Import Gen.Tables Gen.Types Gen.Status Gen.Consts Gen.ReplyTables.
From PV Require Import Model.EnumMapDefs Model.EnumMap Model.Reply Spec.ReplyReader.
From PV Require Import Proofs.EnumMapP Proofs.ReplyBase.
Open Scope Z_scope.
Ltac Zify.zify_post_hook ::= Z.to_euclidean_division_equations.

(* ---------------------------------------------------------------- ResponsePacket._parse_reply *)
Lemma parse_base_spec raw :
  let r := parse_base raw in
  r_raw r = Some raw /\ r_command r = Some (firstn 2 raw) /\ r_service r = None /\ r_service_status r = None
  /\ r_data r = None /\ r_session r = None
  /\ r_command_status r = option_map (to_signed 4) (u32_at 8 raw)
  /\ is_some (r_error r) = is_none (u32_at 8 raw).
Proof.
  unfold parse_base. pose proof (decode_dint_slice 8 raw) as H. change (8 + 4)%nat with 12%nat in H.
  destruct (u32_at 8 raw) as [e|].
  - rewrite H. cbn. repeat split; reflexivity.
  - destruct (decode_elem DINT_t (slice 8 12 raw)) as [v|x m]; [discriminate|]. cbn. repeat split; reflexivity.
Qed.

(* ---------------------------------------------------------------- SendUnitData / SendRRData _parse_reply *)
Lemma parse_cip_spec o1 o2 o3 raw : bytes_ok raw = true ->
  let r := parse_cip o1 o2 o3 raw in
  r_raw r = Some raw /\ r_command r = Some (firstn 2 raw) /\ r_session r = None
  /\ r_command_status r = option_map (to_signed 4) (u32_at 8 raw)
  /\ match nth_error raw o1, nth_error raw o2 with
     | Some s, Some g =>
         if 128 <=? s then
           r_service r = svc_of (s - 128) /\ r_service_status r = Some g /\ r_data r = Some (skipn o3 raw)
           /\ is_some (r_error r) = is_none (u32_at 8 raw)
         else is_some (r_error r) = true /\ r_data r = None /\ r_service_status r = None
     | _, _ => is_some (r_error r) = true /\ r_data r = None /\ r_service_status r = None
     end.
Proof.
  intros Hok. unfold parse_cip.
  destruct (parse_base_spec raw) as (B1 & B2 & B3 & B4 & B5 & B6 & B7 & B8).
  pose proof (from_reply_slice o1 raw Hok) as HF.
  pose proof (decode_usint_slice o2 raw) as HS.
  destruct (nth_error raw o1) as [s|].
  - destruct (128 <=? s) eqn:Es.
    + rewrite HF. rewrite HS.
      destruct (nth_error raw o2) as [g|]; cbn [set_error set_service set_status_data r_raw r_error r_command r_command_status r_service r_service_status r_data r_session is_some].
      * repeat split; auto.
      * repeat split; auto.
    + destruct (from_reply (slice o1 (S o1) raw)) as [v|x m]; [discriminate|].
      cbn [set_error r_raw r_error r_command r_command_status r_service r_service_status r_data r_session is_some].
      destruct (nth_error raw o2); repeat split; auto.
  - destruct (from_reply (slice o1 (S o1) raw)) as [v|x m]; [discriminate|].
    cbn [set_error r_raw r_error r_command r_command_status r_service r_service_status r_data r_session is_some].
    repeat split; auto.
Qed.

Lemma is_none_some_neg {A} (o : option A) : is_none o = negb (is_some o).
Proof. now destruct o. Qed.

(* validity of a CIP reply == the Spec's rule, for every byte string *)
Lemma cip_valid_iff (partial : bool) L raw : bytes_ok raw = true ->
  let r := parse_cip (l_svc L) (l_status L) (l_data L) raw in
  is_valid_base r && (opt_is (r_service_status r) SUCCESS
                      || (partial && (opt_is (r_service_status r) INSUFFICIENT_PACKETS && in_multi_packet_services (r_service r))))
  = spec_success partial L raw.
Proof.
  intros Hok r.
  destruct (parse_cip_spec (l_svc L) (l_status L) (l_data L) raw Hok) as (P1 & P2 & P3 & P4 & P5).
  fold r in P1, P2, P3, P4, P5.
  unfold is_valid_base, spec_success, status_ok, status_words, reply_bit, encap_status, byte_at.
  rewrite is_none_some_neg, P2, P4.
  destruct (nth_error raw (l_svc L)) as [s|] eqn:E1.
  2:{ destruct P5 as (Q1 & Q2 & Q3). rewrite Q1. cbn. destruct (u32_at 8 raw); reflexivity. }
  pose proof (nth_error_bytes_ok raw _ s Hok E1) as Hs.
  destruct (nth_error raw (l_status L)) as [g|] eqn:E2.
  2:{ destruct P5 as (Q1 & Q2 & Q3). rewrite Q1. cbn. destruct (u32_at 8 raw); cbn; [|reflexivity]. reflexivity. }
  destruct (128 <=? s) eqn:Es.
  2:{ destruct P5 as (Q1 & Q2 & Q3). rewrite Q1. cbn. destruct (u32_at 8 raw); cbn; [|reflexivity]. now rewrite andb_false_r. }
  destruct P5 as (Q1 & Q2 & Q3 & Q4). rewrite Q1, Q2, Q4.
  destruct (u32_at 8 raw) as [e|] eqn:E3; cbn [is_none negb andb is_some option_map opt_is]; [|reflexivity].
  pose proof (u32_range 8 raw e Hok E3) as He.
  unfold SUCCESS, INSUFFICIENT_PACKETS.
  rewrite (to_signed4_zero e He). rewrite (multi_services_agree (s - 128)) by lia.
  replace (s mod 128) with (s - 128) by lia.
  rewrite andb_true_r, andb_assoc. reflexivity.
Qed.

Theorem unit_valid_iff raw : bytes_ok raw = true ->
  is_valid KUnit (parse_unit raw) = spec_success true unit_layout raw.
Proof. intros Hok. rewrite <- (cip_valid_iff true unit_layout raw Hok). reflexivity. Qed.

Theorem rr_valid_iff raw : bytes_ok raw = true ->
  is_valid KRR (parse_rr raw) = spec_success false rr_layout raw.
Proof.
  intros Hok. rewrite <- (cip_valid_iff false rr_layout raw Hok). cbn [is_valid andb orb].
  unfold parse_rr. cbn [l_svc l_status l_data rr_layout]. now rewrite orb_false_r.
Qed.

(* "too short to contain its status words is never success": the -> direction, spelled out *)
Corollary unit_valid_needs_words raw : bytes_ok raw = true -> is_valid KUnit (parse_unit raw) = true ->
  (49 <= length raw)%nat /\ encap_status raw = Some 0 /\ exists s g, byte_at 46 raw = Some s /\ 128 <= s
    /\ byte_at 48 raw = Some g /\ (g = 0 \/ (g = 6 /\ continues (s mod 128) = true)).
Proof.
  intros Hok. rewrite (unit_valid_iff raw Hok).
  unfold spec_success, status_ok, status_words, reply_bit. cbn [l_svc l_status unit_layout].
  destruct (encap_status raw) as [e|]; [|discriminate].
  destruct (byte_at 46 raw) as [s|] eqn:E1; [|discriminate].
  destruct (byte_at 48 raw) as [g|] eqn:E2; [|discriminate].
  intros H. assert (Hl : (49 <= length raw)%nat) by (unfold byte_at in E2; apply nth_error_some_lt in E2; clear H; lia).
  split; [exact Hl|]. clear Hl.
  apply andb_true_iff in H as [H H2]. apply andb_true_iff in H as [H0 H1].
  split; [f_equal; lia|]. exists s, g. repeat split; auto; try lia.
  apply orb_true_iff in H1 as [H1|H1]; [left; lia|right].
  cbn [andb] in H1. apply andb_true_iff in H1 as [H1 H3]. split; [lia|exact H3].
Qed.
Corollary rr_valid_needs_words raw : bytes_ok raw = true -> is_valid KRR (parse_rr raw) = true ->
  (43 <= length raw)%nat /\ encap_status raw = Some 0 /\ exists s, byte_at 40 raw = Some s /\ 128 <= s /\ byte_at 42 raw = Some 0.
Proof.
  intros Hok. rewrite (rr_valid_iff raw Hok).
  unfold spec_success, status_ok, status_words, reply_bit. cbn [l_svc l_status rr_layout].
  destruct (encap_status raw) as [e|]; [|discriminate].
  destruct (byte_at 40 raw) as [s|] eqn:E1; [|discriminate].
  destruct (byte_at 42 raw) as [g|] eqn:E2; [|discriminate].
  intros H. assert (Hl : (43 <= length raw)%nat) by (unfold byte_at in E2; apply nth_error_some_lt in E2; clear H; lia).
  split; [exact Hl|]. clear Hl.
  apply andb_true_iff in H as [H H2]. apply andb_true_iff in H as [H0 H1].
  cbn [andb] in H1. rewrite orb_false_r in H1.
  split; [f_equal; lia|]. exists s. repeat split; auto; try lia. f_equal; lia.
Qed.

(* ---------------------------------------------------------------- RegisterSession / plain responses *)
Definition encap_zero (raw : bytes) : bool := match encap_status raw with Some e => e =? 0 | None => false end.

Lemma base_valid_iff raw : bytes_ok raw = true -> is_valid KBase (parse_base raw) = encap_zero raw.
Proof.
  intros Hok. destruct (parse_base_spec raw) as (B1 & B2 & B3 & B4 & B5 & B6 & B7 & B8).
  unfold is_valid, is_valid_base, encap_zero, encap_status. rewrite is_none_some_neg, B8, B2, B7.
  destruct (u32_at 8 raw) as [e|] eqn:E; cbn; [|reflexivity].
  unfold SUCCESS. now rewrite (to_signed4_zero e (u32_range 8 raw e Hok E)).
Qed.

Lemma parse_register_spec raw : bytes_ok raw = true ->
  is_valid KRegister (parse_register raw) = encap_zero raw
  /\ (encap_zero raw = true -> r_session (parse_register raw) = u32_at 4 raw /\ u32_at 4 raw <> None).
Proof.
  intros Hok. destruct (parse_base_spec raw) as (B1 & B2 & B3 & B4 & B5 & B6 & B7 & B8).
  unfold parse_register. pose proof (decode_udint_slice 4 raw) as H. change (4 + 4)%nat with 8%nat in H.
  unfold is_valid, is_valid_base, encap_zero, encap_status.
  destruct (u32_at 8 raw) as [e|] eqn:E.
  - (* 12 bytes present: the session field is present too *)
    assert (exists s, u32_at 4 raw = Some s) as [s Hs].
    { rewrite u32_at_skipn in E. rewrite u32_at_skipn.
      assert (Hl : (12 <= length raw)%nat).
      { destruct (skipn 8 raw) as [|a [|b [|c [|d q]]]] eqn:Ek; try discriminate.
        assert (length (skipn 8 raw) = length raw - 8)%nat by apply skipn_length. rewrite Ek in H0. cbn in H0. lia. }
      assert (Hl2 : (length (skipn 4 raw) >= 4)%nat) by (rewrite skipn_length; lia).
      destruct (skipn 4 raw) as [|a [|b [|c [|d q]]]]; cbn in Hl2; try lia. eauto. }
    rewrite Hs in H. rewrite H.
    cbn [set_session r_error r_command r_command_status r_session is_some is_none].
    rewrite is_none_some_neg, B8, B2, B7. cbn. unfold SUCCESS.
    rewrite (to_signed4_zero e (u32_range 8 raw e Hok E)), andb_true_r.
    split; [reflexivity|]. intros _. split; congruence.
  - split; [|discriminate].
    destruct (decode_elem UDINT_t (slice 4 8 raw)) as [v|x m];
      cbn [set_session set_error r_error r_command r_command_status r_session is_some is_none];
      rewrite ?is_none_some_neg, ?B8, ?B2, ?B7; cbn; reflexivity.
Qed.

Theorem register_valid_iff raw : bytes_ok raw = true -> is_valid KRegister (parse_register raw) = encap_zero raw.
Proof. intros Hok. apply (parse_register_spec raw Hok). Qed.
