(* Proofs/UploadReach.v — C05, the reference side: Spec/Expect.reach computes the closure.
   * [reach_spec]: with the fuel abstract_view gives it, the set is closed under "structure type of
     a member" and holds exactly the template ids reachable from the roots (a pigeonhole argument:
     every round that does not stop adds a new template id, and there are only so many);
   * [odef_of] (Spec/UploadObs) on the types of a view: determined by [Exp] and defined for every
     type of a closed, definition-ordered list. *)
From Coq Require Import ZifyBool String Sorted Permutation.
From PV Require Import Base.Bytes Base.BytesLemmas Base.Proto Base.PyStr Base.Res.
From PV Require Import Spec.Project Spec.Expect Spec.UploadObs Model.LogixUpload.
From PV Require Import Proofs.UploadDefs Proofs.UploadFilter Proofs.UploadObsP Proofs.UploadMirror.
Open Scope string_scope.
Open Scope list_scope.
Open Scope Z_scope.

Lemma zmem_In x l : zmem x l = true <-> In x l.
Proof.
  unfold zmem. rewrite existsb_exists. split.
  - intros (y & Hy & E). apply Z.eqb_eq in E. subst. exact Hy.
  - intros H. exists x. split; [exact H | apply Z.eqb_refl].
Qed.

Lemma member_struct_found e t m tid :
  member_ok (mkProject e []) t m = true -> m_ty m = BStruct tid -> exists t', find_template e tid = Some t'.
Proof.
  unfold member_ok. intros H Hty. apply andb_prop in H. destruct H as [_ H].
  unfold is_bool_member in H. rewrite Hty in H.
  apply andb_prop in H. destruct H as [_ H]. unfold member_size, base_size in H. rewrite Hty in H. cbn [p_templates] in H.
  destruct (find_template e tid); [eauto | discriminate].
Qed.

Lemma NoDup_app_intro {A} (a b : list A) :
  NoDup a -> NoDup b -> (forall x, In x a -> In x b -> False) -> NoDup (a ++ b).
Proof.
  induction a as [|x a IH]; intros Ha Hb Hd; [exact Hb|].
  inversion Ha as [|? ? Hn Ha']; subst. cbn [app]. constructor.
  - intros Hin. apply in_app_iff in Hin. destruct Hin as [Hin | Hin]; [contradiction|]. apply (Hd x); [left; reflexivity | exact Hin].
  - apply IH; [exact Ha' | exact Hb|]. intros y Hy Hy'. apply (Hd y); [right; exact Hy | exact Hy'].
Qed.

Section ReachSec.
  Variable p : project.
  Let ts := p_templates p.
  Hypothesis Hts : templates_ok [] ts = true.

  Definition tids : list Z := map t_id ts.

  Lemma member_ids_known t tid' : In t ts -> In tid' (struct_ids_of_members t) -> In tid' tids.
  Proof.
    intros Hin Hm. apply in_split in Hin. destruct Hin as (e & l & Hsplit).
    pose proof (templates_ok_at e [] t l) as Hok. rewrite <- Hsplit in Hok. specialize (Hok Hts). cbn [app] in Hok.
    unfold struct_ids_of_members in Hm. apply in_flat_map in Hm. destruct Hm as (m & Hm & Hx).
    destruct (m_ty m) as [c|tid|w] eqn:Ety; [destruct Hx | | destruct Hx]. destruct Hx as [<- | []].
    unfold template_ok in Hok. split_andb.
    match goal with H : forallb (member_ok _ t) _ = true |- _ => rewrite forallb_forall in H; pose proof (H m Hm) as Hmo end.
    destruct (member_struct_found e t m tid Hmo Ety) as (t' & Ef). apply find_template_in in Ef. destruct Ef as [Hin' <-].
    unfold tids. apply in_map. rewrite Hsplit. apply in_or_app. left. exact Hin'.
  Qed.

  Definition closed (S : list Z) : Prop :=
    forall tid t tid', In tid S -> find_template ts tid = Some t -> In tid' (struct_ids_of_members t) -> In tid' S.

  Definition more_of (seen : list Z) : list Z :=
    flat_map (fun t => if zmem (t_id t) seen then struct_ids_of_members t else []) ts.

  Lemma more_spec seen x : In x (more_of seen) <-> exists t, In t ts /\ In (t_id t) seen /\ In x (struct_ids_of_members t).
  Proof.
    unfold more_of. rewrite in_flat_map. split.
    - intros (t & Ht & Hx). destruct (zmem (t_id t) seen) eqn:E; [|destruct Hx]. apply zmem_In in E. eauto.
    - intros (t & Ht & Hs & Hx). exists t. split; [exact Ht|]. apply zmem_In in Hs. rewrite Hs. exact Hx.
  Qed.

  Lemma reach_unfold f seen :
    reach (S f) ts seen
    = match filter (fun x => negb (zmem x seen)) (more_of seen) with
      | [] => seen
      | new => reach f ts (seen ++ nodup Z.eq_dec new)
      end.
  Proof. cbn [reach]. fold (more_of seen). destruct (filter _ (more_of seen)); reflexivity. Qed.

  Variable roots : list Z.
  Hypothesis Hroots : incl roots tids.

  Definition Rr (x : Z) : Prop := In x roots.

  Lemma reach_spec : forall fuel seen,
    NoDup seen -> incl seen tids -> incl roots seen -> (forall x, In x seen -> Reach p Rr x) ->
    (length tids < fuel + length seen)%nat ->
    let r := reach fuel ts seen in
    closed r /\ incl roots r /\ NoDup r /\ (forall x, In x r -> Reach p Rr x) /\ incl r tids.
  Proof.
    induction fuel as [|f IH]; intros seen Hnd Hincl Hr Hreach Hlen.
    - exfalso. pose proof (NoDup_incl_length Hnd Hincl). lia.
    - cbv zeta. rewrite reach_unfold.
      destruct (filter (fun x => negb (zmem x seen)) (more_of seen)) as [|n0 new0] eqn:Enew.
      + split; [|auto 6].
        intros tid t tid' Hs Hf Hm.
        assert (Hmore : In tid' (more_of seen)).
        { apply more_spec. apply find_template_in in Hf. destruct Hf as [Ht <-]. eauto. }
        destruct (zmem tid' seen) eqn:Ez; [apply zmem_In; exact Ez|].
        exfalso. assert (In tid' (filter (fun x => negb (zmem x seen)) (more_of seen))) as Hin.
        { apply filter_In. rewrite Ez. auto. }
        rewrite Enew in Hin. destruct Hin.
      + set (new := n0 :: new0) in *.
        assert (Hnew : forall x, In x new -> In x (more_of seen) /\ ~ In x seen).
        { intros x Hx. rewrite <- Enew in Hx. apply filter_In in Hx. destruct Hx as [H1 H2]. split; [exact H1|].
          intros Hs. apply zmem_In in Hs. rewrite Hs in H2. discriminate. }
        apply IH.
        * apply NoDup_app_intro; [exact Hnd | apply NoDup_nodup |].
          intros x Hs Hn. apply nodup_In in Hn. destruct (Hnew x Hn) as [_ H]. contradiction.
        * intros x Hx. apply in_app_iff in Hx. destruct Hx as [Hx | Hx]; [apply Hincl; exact Hx|].
          apply nodup_In in Hx. destruct (Hnew x Hx) as [Hm _]. apply more_spec in Hm. destruct Hm as (t & Ht & _ & Hx').
          eapply member_ids_known; eassumption.
        * intros x Hx. apply in_or_app. left. apply Hr. exact Hx.
        * intros x Hx. apply in_app_iff in Hx. destruct Hx as [Hx | Hx]; [apply Hreach; exact Hx|].
          apply nodup_In in Hx. destruct (Hnew x Hx) as [Hm _]. apply more_spec in Hm. destruct Hm as (t & Ht & Hs & Hx').
          eapply Reach_step; [apply Hreach; exact Hs | | exact Hx'].
          (* find_template ts (t_id t) = Some t *)
          apply in_split in Ht. destruct Ht as (e & l & Hsplit).
          pose proof (templates_ok_at e [] t l) as Hok. rewrite <- Hsplit in Hok. specialize (Hok Hts). cbn [app] in Hok.
          pose proof (find_template_skip e t l (t_id t) (template_ok_fresh e t Hok) eq_refl) as [Hf _].
          fold ts. rewrite Hsplit. exact Hf.
        * rewrite app_length.
          assert (1 <= length (nodup Z.eq_dec new))%nat.
          { destruct (nodup Z.eq_dec new) eqn:E; [|cbn; lia].
            exfalso. assert (In n0 (nodup Z.eq_dec new)) by (apply nodup_In; left; reflexivity). rewrite E in H. destruct H. }
          lia.
  Qed.
End ReachSec.

(* ================================================================ odef_of on the types of a view *)
Lemma find_vtype_map l tid : find_vtype (map view_type l) tid = option_map view_type (find_template l tid).
Proof.
  induction l as [|t l IH]; [reflexivity|]. cbn [map find_vtype find_template view_type vy_id].
  destruct (t_id t =? tid); [reflexivity | exact IH].
Qed.

Lemma find_template_filter keep : forall l tid t,
  find_template l tid = Some t -> keep t = true -> find_template (filter keep l) tid = Some t.
Proof.
  induction l as [|x l IH]; intros tid t Hf Hk; [discriminate|]. cbn [find_template filter] in *.
  destruct (t_id x =? tid) eqn:E.
  - injection Hf as <-. rewrite Hk. cbn [find_template]. rewrite E. reflexivity.
  - destruct (keep x); [cbn [find_template]; rewrite E|]; apply IH; assumption.
Qed.

Lemma all_some_Forall2 {A B} (g : A -> option B) : forall l r,
  Forall2 (fun a b => g a = Some b) l r -> all_some (map g l) = Some r.
Proof. induction 1 as [|a b l r H _ IH]; [reflexivity|]. cbn [map all_some]. rewrite H, IH. reflexivity. Qed.

Lemma Forall2_impl_in {A B} (P Q : A -> B -> Prop) : forall l r,
  (forall a b, In a l -> In b r -> P a b -> Q a b) -> Forall2 P l r -> Forall2 Q l r.
Proof.
  intros l r H HF. induction HF as [|a b l r Hab _ IH]; [constructor|].
  constructor; [apply H; [left; reflexivity | left; reflexivity | exact Hab]|].
  apply IH. intros a' b' Ha Hb. apply H; right; assumption.
Qed.

Section OdefSec.
  Variable p : project.
  Let ts := p_templates p.
  Hypothesis Hts : templates_ok [] ts = true.

  Variable keep : template -> bool.        (* the types of the view *)
  Hypothesis keep_closed :
    forall t tid' t', In t ts -> keep t = true -> In tid' (struct_ids_of_members t) ->
                      find_template ts tid' = Some t' -> keep t' = true.

  Let types := map view_type (filter keep ts).

  Lemma split_find e t l : ts = e ++ t :: l -> find_template ts (t_id t) = Some t.
  Proof.
    intros Hsplit. pose proof (templates_ok_at e [] t l) as Hok. rewrite <- Hsplit in Hok. specialize (Hok Hts). cbn [app] in Hok.
    destruct (find_template_skip e t l (t_id t) (template_ok_fresh e t Hok) eq_refl) as [Hf _]. rewrite Hsplit. exact Hf.
  Qed.

  (* the definition of a kept type, with enough fuel for its position among the kept types *)
  Lemma odef_of_exp : forall f e t l od,
    ts = e ++ t :: l -> keep t = true -> (length (filter keep e) < f)%nat ->
    Exp ts (t_id t) od -> odef_of f types (t_id t) = Some od.
  Proof.
    induction f as [|f IH]; intros e t l od Hsplit Hk Hf Hexp; [lia|].
    pose proof (split_find e t l Hsplit) as Hfind.
    inversion Hexp as [tid t0 ms Hf0 HF]; subst. rewrite Hfind in Hf0. injection Hf0 as <-.
    cbn [odef_of]. unfold types. rewrite find_vtype_map, (find_template_filter keep ts (t_id t) t Hfind Hk).
    cbn [option_map view_type vy_members vy_name vy_handle vy_size vy_defsize vy_count vy_string]. rewrite map_map.
    assert (Hok : template_ok e t = true).
    { pose proof (templates_ok_at e [] t l) as H. rewrite <- Hsplit in H. exact (H Hts). }
    assert (Hin : In t ts) by (rewrite Hsplit; apply in_or_app; right; left; reflexivity).
    erewrite all_some_Forall2.
    - unfold str_obs. destruct (string_shape t); rewrite ?map_map; reflexivity.
    - eapply Forall2_impl_in; [|exact HF]. intros m o Hm _ Hmo. cbn [view_member vm_ty vm_name vm_arr vm_off vm_bit].
      apply in_visible in Hm.
      inversion Hmo as [m0 c Hty | m0 tid' d Hty Hd]; subst.
      + rewrite Hty. reflexivity.
      + rewrite Hty.
        unfold template_ok in Hok. split_andb.
        match goal with H : forallb (member_ok _ t) _ = true |- _ => rewrite forallb_forall in H; pose proof (H m Hm) as Hmo' end.
        destruct (member_struct_found e t m tid' Hmo' Hty) as (t' & Ef'). apply find_template_in in Ef'. destruct Ef' as [Hin' Hid'].
        apply in_split in Hin'. destruct Hin' as (e1 & e2 & He).
        assert (Hsplit' : ts = e1 ++ t' :: (e2 ++ t :: l)) by (rewrite Hsplit, He, <- app_assoc; reflexivity).
        pose proof (split_find e1 t' _ Hsplit') as Hfind'.
        assert (Hk' : keep t' = true).
        { eapply (keep_closed t tid' t' Hin Hk); [eapply in_struct_ids; eassumption | rewrite <- Hid'; exact Hfind']. }
        rewrite <- Hid' in Hd |- *.
        fold types. rewrite (IH e1 t' _ d Hsplit' Hk'); [reflexivity | | exact Hd].
        rewrite He, filter_app in Hf. cbn [filter] in Hf. rewrite Hk' in Hf. rewrite app_length in Hf. cbn [length] in Hf. lia.
  Qed.
End OdefSec.
