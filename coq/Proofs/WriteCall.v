(* Proofs/WriteCall.v — the whole call (C02): what LogixDriver.write sends, executed by the
   reference target through its message router.

     multi_message_layout   MultiServiceRequestPacket.build_message: sequence count, service 0x0A, the
                            message-router path, count, offset table, the embedded requests
     multi_unwrap           the target's parse_multi recovers exactly the embedded requests from it
     dispatch_multi         (the lemma over TargetCore.dispatch) a Multiple Service Packet is executed as
                            its embedded requests, in order, each handed to the application handler;
                            the application state and the executed-write log are those of running the
                            embedded requests one after the other
     logix_write_cap_indep  the Logix write services do not depend on the reply capacity
     frag_transfer_correct  a fragmented transfer end to end: the fragments _send_write_fragmented
                            emits, executed in order by Write Tag Fragmented, leave the image one store
                            of the whole value leaves; one EvApp 1 per fragment, at the running offset *)
From Coq Require Import ZifyBool String.
From PV Require Import Base.Bytes Base.BytesLemmas Base.Res Base.Proto Base.PyStr Gen.PathTables Model.Path Model.LogixPlan Model.LogixWrite.
From PV Require Import Spec.EncapParser Spec.MRParser Spec.TargetIface Spec.TargetCore Spec.Project Spec.Expect Spec.TargetLogix.
From PV Require Import Proofs.TargetCoreP Proofs.TargetLogixP Proofs.PlanP Proofs.WriteMsg Proofs.WriteCorrect.
Open Scope Z_scope.
Ltac Zify.zify_post_hook ::= Z.to_euclidean_division_equations.

(* ================================================================ the multi-service message *)
Lemma msg_router_path : request_path (LBytes class_message_router) (LInt 1) None = Ok [2; 32; 2; 36; 1].
Proof. vm_compute. reflexivity. Qed.

(* offsets the builder computes: cur, cur + |m1|, ... *)
Fixpoint offset_vals (cur : Z) (msgs : list bytes) : list Z :=
  match msgs with
  | [] => []
  | m :: r => cur :: offset_vals (cur + LogixWrite.zlen m) r
  end.

Lemma multi_offsets_vals msgs : forall cur offs, multi_offsets cur msgs = Ok offs ->
  offs = map (le_enc 2) (offset_vals cur msgs) /\ Forall (fun o => 0 <= o < 65536) (offset_vals cur msgs).
Proof.
  induction msgs as [|m r IH]; intros cur offs H; cbn [multi_offsets offset_vals] in *.
  - injection H as <-. split; [reflexivity|constructor].
  - unfold UINT_encode, uint_encode in H. destruct (in_urange 2 cur) eqn:E; [|discriminate].
    destruct (multi_offsets (cur + LogixWrite.zlen m) r) as [os|] eqn:E2; [|discriminate]. injection H as <-.
    destruct (IH _ _ E2) as [-> F]. split; [reflexivity|]. constructor; [|exact F].
    unfold in_urange in E. change (pow256 2) with 65536 in E. lia.
Qed.

Theorem multi_message_layout seq members m :
  multi_message seq members = Ok m ->
  exists msgs, map_res tag_only_message members = Ok msgs
    /\ 0 <= LogixWrite.zlen members < 65536
    /\ Forall (fun o => 0 <= o < 65536) (offset_vals (2 + 2 * LogixWrite.zlen members) msgs)
    /\ m = le_enc 2 seq ++ [10] ++ [2; 32; 2; 36; 1]
           ++ (le_enc 2 (LogixWrite.zlen members) ++ concat (map (le_enc 2) (offset_vals (2 + 2 * LogixWrite.zlen members) msgs)) ++ concat msgs).
Proof.
  unfold multi_message. rewrite msg_router_path.
  unfold UINT_encode at 1 2, uint_encode.
  destruct (in_urange 2 seq) eqn:E1; [|discriminate].
  destruct (in_urange 2 (LogixWrite.zlen members)) eqn:E2; [|discriminate].
  destruct (map_res tag_only_message members) as [msgs|] eqn:E3; [|discriminate].
  destruct (multi_offsets (2 + 2 * LogixWrite.zlen members) msgs) as [offs|] eqn:E4; [|discriminate].
  intros H; injection H as <-. destruct (multi_offsets_vals _ _ _ E4) as [-> F].
  exists msgs. split; [reflexivity|]. split; [unfold in_urange in E2; change (pow256 2) with 65536 in E2; lia|]. split; [exact F|].
  reflexivity.
Qed.

(* ================================================================ the target unwraps it *)
Lemma rd_offsets_enc vals : forall rest, Forall (fun o => 0 <= o < 65536) vals ->
  rd_offsets (length vals) (concat (map (le_enc 2) vals) ++ rest) = Some vals.
Proof.
  induction vals as [|v r IH]; intros rest F; [reflexivity|].
  inversion F as [|? ? Hv Hr]; subst. cbn [length map concat].
  change (le_enc 2 v) with [v mod 256; (v / 256) mod 256]. cbn [app rd_offsets]. rewrite (IH rest Hr). rewrite u16_enc by exact Hv. reflexivity.
Qed.

Lemma cut_slices_msgs msgs : forall cur, msgs <> [] -> Forall (fun m => m <> []) msgs ->
  cut_slices cur (tl (offset_vals cur msgs)) (concat msgs) = Some msgs.
Proof.
  induction msgs as [|m r IH]; intros cur Hne F; [congruence|].
  inversion F as [|? ? Hm Hr]; subst.
  destruct r as [|m2 r2].
  - cbn [offset_vals tl cut_slices concat]. rewrite app_nil_r. destruct m; [congruence|reflexivity].
  - cbn [offset_vals tl]. cbn [cut_slices concat].
    assert (Hl : 0 < LogixWrite.zlen m) by (unfold LogixWrite.zlen; destruct m; [congruence|cbn [length]; lia]).
    replace (cur + LogixWrite.zlen m <=? cur) with false by lia.
    replace (cur + LogixWrite.zlen m - cur) with (EncapParser.blen m) by (unfold EncapParser.blen, LogixWrite.zlen; lia).
    rewrite takez_app.
    specialize (IH (cur + LogixWrite.zlen m) ltac:(discriminate) Hr). cbn [offset_vals tl] in IH. cbn [concat] in IH.
    rewrite IH. reflexivity.
Qed.

Lemma offset_vals_length cur msgs : length (offset_vals cur msgs) = length msgs.
Proof. revert cur. induction msgs as [|m r IH]; intros cur; [reflexivity|]. cbn [offset_vals length]. rewrite IH. reflexivity. Qed.

Lemma skipn_app_len {A} (a b : list A) n : n = length a -> skipn n (a ++ b) = b.
Proof. intros ->. apply BytesLemmas.skipn_app_exact. Qed.

Theorem multi_unwrap msgs :
  msgs <> [] -> Forall (fun m => m <> []) msgs -> LogixWrite.zlen msgs < 65536 ->
  Forall (fun o => 0 <= o < 65536) (offset_vals (2 + 2 * LogixWrite.zlen msgs) msgs) ->
  parse_multi (le_enc 2 (LogixWrite.zlen msgs) ++ concat (map (le_enc 2) (offset_vals (2 + 2 * LogixWrite.zlen msgs) msgs)) ++ concat msgs)
  = RcOk msgs.
Proof.
  intros Hne Fne Hn Fo. set (n := LogixWrite.zlen msgs) in *.
  assert (Hn0 : 0 < n) by (unfold n, LogixWrite.zlen; destruct msgs; [congruence|cbn [length]; lia]).
  unfold parse_multi. change (le_enc 2 n) with [n mod 256; (n / 256) mod 256]. cbn [app]. rewrite (u16_enc n) by lia.
  replace (n =? 0) with false by lia.
  assert (Hlen : Z.to_nat n = length (offset_vals (2 + 2 * n) msgs)) by (rewrite offset_vals_length; unfold n, LogixWrite.zlen; apply Nat2Z.id).
  rewrite Hlen, (rd_offsets_enc _ (concat msgs) Fo).
  destruct msgs as [|m0 r0] eqn:EM; [congruence|]. rewrite <- EM in *.
  assert (Ho : offset_vals (2 + 2 * n) msgs = (2 + 2 * n) :: tl (offset_vals (2 + 2 * n) msgs)) by (rewrite EM; reflexivity).
  rewrite Ho at 1. rewrite Z.eqb_refl. cbn [negb].
  rewrite skipn_app_len.
  2:{ assert (G : forall l : list Z, length (concat (map (le_enc 2) l)) = (2 * length l)%nat).
      { induction l as [|x l IH]; [reflexivity|]. cbn [map concat length]. rewrite app_length, le_enc_length, IH. lia. }
      rewrite G. cbn [length]. rewrite ?offset_vals_length. rewrite offset_vals_length in Hlen. lia. }
  rewrite (cut_slices_msgs msgs (2 + 2 * n) Hne Fne). reflexivity.
Qed.

(* ================================================================ dispatch of a Multiple Service Packet *)
Section Dispatch.
  Context {S : Type} (h : handler S) (tr : transport) (seq : option Z).

  (* a request the core hands to the application handler (not the Identity / Message Router objects) *)
  Definition to_handler (r : mr_request) : bool :=
    negb (is_multi_request r)
    && match path_cia (mr_path r) with Some (1, _, _) => false | Some (2, _, _) => false | _ => true end.

  (* the embedded requests run one after the other on the application state: state and handler events *)
  Fixpoint run_items (a : S) (items : list (mr_request * Z)) : S * list tevent :=
    match items with
    | [] => (a, [])
    | (r, cap) :: rest =>
        match h_request h a tr cap r with
        | Some (a', _, evs) => let '(a2, e2) := run_items a' rest in (a2, evs ++ e2)
        | None => run_items a rest
        end
    end.

  Definition is_write_ev (e : tevent) : bool := match e with EvApp 1 _ _ => true | _ => false end.
  (* executed writes in the log, newest first *)
  Definition writes_logged (st : tstate S) : list tevent := filter is_write_ev (t_log st).

  Lemma filter_rev_append {A} (f : A -> bool) a : forall b, filter f (rev_append a b) = rev (filter f a) ++ filter f b.
  Proof.
    induction a as [|x a IH]; intros b; [reflexivity|]. cbn [rev_append filter]. rewrite IH. cbn [filter].
    destruct (f x); cbn [rev]; [rewrite <- app_assoc; reflexivity|reflexivity].
  Qed.

  Lemma writes_logs evs st : writes_logged (logs evs st) = rev (filter is_write_ev evs) ++ writes_logged st.
  Proof. unfold writes_logged, logs. cbn [t_log]. apply filter_rev_append. Qed.

  Lemma with_injection_none (st : tstate S) svc k : t_inject st = [] -> with_injection st svc k = k (set_inject [] st).
  Proof. intros H. unfold with_injection. rewrite H. reflexivity. Qed.

  Lemma dispatch_one_handler cap st r : t_inject st = [] -> to_handler r = true ->
    let st' := fst (dispatch_one h tr cap seq st r) in
    t_inject st' = [] /\ t_cfg st' = t_cfg st
    /\ match h_request h (t_app st) tr cap r with
       | Some (a', _, evs) => t_app st' = a' /\ writes_logged st' = rev (filter is_write_ev evs) ++ writes_logged st
       | None => t_app st' = t_app st /\ writes_logged st' = writes_logged st
       end.
  Proof.
    intros Hi Ht. unfold dispatch_one. rewrite with_injection_none by exact Hi.
    unfold to_handler in Ht. apply andb_true_iff in Ht as [_ Ht].
    assert (G : forall st2 : tstate S, t_inject st2 = [] -> t_cfg st2 = t_cfg st -> t_app st2 = t_app st -> writes_logged st2 = writes_logged st ->
              let st' := fst (match h_request h (t_app st2) tr cap r with
                              | Some (app', rp, evs) => (logs evs (set_app app' st2), rp)
                              | None => (st2, mr_error 5 [])
                              end) in
              t_inject st' = [] /\ t_cfg st' = t_cfg st
              /\ match h_request h (t_app st) tr cap r with
                 | Some (a', _, evs) => t_app st' = a' /\ writes_logged st' = rev (filter is_write_ev evs) ++ writes_logged st
                 | None => t_app st' = t_app st /\ writes_logged st' = writes_logged st
                 end).
    { intros st2 H1 H2 H3 H4. rewrite H3. destruct (h_request h (t_app st) tr cap r) as [[[a' rp] evs]|]; cbn [fst].
      - split; [exact H1|]. split; [exact H2|]. split; [reflexivity|]. rewrite writes_logs. unfold writes_logged at 1. cbn [t_log set_app]. fold (writes_logged st2). rewrite H4. reflexivity.
      - auto. }
    set (st2 := set_inject [] (logs [EvRequest tr seq r] st)).
    assert (W : writes_logged st2 = writes_logged st) by (unfold st2, writes_logged; cbn [t_log set_inject logs rev_append filter is_write_ev]; reflexivity).
    destruct (path_cia (mr_path r)) as [[[c i] oa]|].
    - destruct c as [|c|c]; try (apply G; [reflexivity|reflexivity|reflexivity|exact W]).
      destruct c as [c|c|]; try (apply G; [reflexivity|reflexivity|reflexivity|exact W]); try discriminate.
      destruct c as [c|c|]; try (apply G; [reflexivity|reflexivity|reflexivity|exact W]); discriminate.
    - apply G; [reflexivity|reflexivity|reflexivity|exact W].
  Qed.

  Lemma multi_one_handler cap st it r : t_inject st = [] -> parse_mr it = RcOk r -> to_handler r = true ->
    let st' := fst (multi_one h tr cap seq st it) in
    t_inject st' = [] /\ t_cfg st' = t_cfg st
    /\ match h_request h (t_app st) tr cap r with
       | Some (a', _, evs) => t_app st' = a' /\ writes_logged st' = rev (filter is_write_ev evs) ++ writes_logged st
       | None => t_app st' = t_app st /\ writes_logged st' = writes_logged st
       end.
  Proof.
    intros Hi Hp Ht. unfold multi_one. rewrite Hp.
    pose proof Ht as Ht2. unfold to_handler in Ht2. apply andb_true_iff in Ht2 as [Hm _].
    destruct (is_multi_request r); [discriminate|].
    pose proof (dispatch_one_handler cap st r Hi Ht) as D. cbn zeta in D.
    destruct (dispatch_one h tr cap seq st r) as [st1 rp]. cbn [fst] in D.
    destruct (fit cap (mr_service r) (mr_bytes (mr_service r) rp)) as [bs evs] eqn:EF. cbn [fst].
    assert (Hev : filter is_write_ev evs = []).
    { unfold fit in EF. destruct (EncapParser.blen (mr_bytes (mr_service r) rp) <=? cap); injection EF as _ <-; reflexivity. }
    destruct D as (D1 & D2 & D3). split; [exact D1|]. split; [exact D2|].
    destruct (h_request h (t_app st) tr cap r) as [[[a' rp'] evs']|]; destruct D3 as [D3 D4]; (split; [exact D3|]);
      rewrite writes_logs, Hev; exact D4.
  Qed.

  (* multi_run = the embedded requests, in order, at SOME capacities *)
  Lemma multi_run_items items : forall left later st acc reqs,
    t_inject st = [] ->
    Forall2 (fun it r => parse_mr it = RcOk r /\ to_handler r = true) items reqs ->
    exists caps, length caps = length reqs
      /\ let st' := fst (multi_run h tr seq left later items st acc) in
         t_inject st' = [] /\ t_cfg st' = t_cfg st
         /\ t_app st' = fst (run_items (t_app st) (combine reqs caps))
         /\ writes_logged st' = rev (filter is_write_ev (snd (run_items (t_app st) (combine reqs caps)))) ++ writes_logged st.
  Proof.
    induction items as [|it rest IH]; intros left later st acc reqs Hi F.
    - inversion F; subst. exists []. cbn. auto.
    - inversion F as [|? r ? reqs' [Hp Ht] Fr]; subst.
      cbn [multi_run].
      pose proof (multi_one_handler (left - 4 * (later - 1)) st it r Hi Hp Ht) as M. cbn zeta in M.
      destruct (multi_one h tr (left - 4 * (later - 1)) seq st it) as [st1 bs]. cbn [fst] in M.
      destruct M as (M1 & M2 & M3).
      destruct (IH (left - EncapParser.blen bs) (later - 1) st1 (bs :: acc) reqs' M1 Fr) as (caps & Hl & I).
      exists ((left - 4 * (later - 1)) :: caps). split; [cbn [length]; lia|].
      cbn zeta in *. destruct I as (I1 & I2 & I3 & I4). split; [exact I1|]. split; [congruence|].
      cbn [combine run_items].
      destruct (h_request h (t_app st) tr (left - 4 * (later - 1)) r) as [[[a' rp'] evs']|]; destruct M3 as [M3 M4].
      + rewrite M3 in I3, I4. destruct (run_items a' (combine reqs' caps)) as [a2 e2]. cbn [fst snd] in *.
        split; [exact I3|]. rewrite I4, M4, filter_app, rev_app_distr, <- app_assoc. reflexivity.
      + rewrite M3 in I3, I4. split; [exact I3|]. rewrite I4, M4. reflexivity.
  Qed.

  (* THE LEMMA OVER dispatch: a Multiple Service Packet addressed to the message router, whose data
     parse_multi splits into [items], each a message-router request for the application handler, is
     executed as those requests one after the other (no injection pending, multi-service enabled) *)
  Theorem dispatch_multi cap st rq items reqs :
    t_inject st = [] -> cf_multi_service (t_cfg st) = true ->
    is_multi_request rq = true -> parse_multi (mr_data rq) = RcOk items ->
    Forall2 (fun it r => parse_mr it = RcOk r /\ to_handler r = true) items reqs ->
    exists caps, length caps = length reqs
      /\ let st' := fst (dispatch h tr cap seq st rq) in
         t_app st' = fst (run_items (t_app st) (combine reqs caps))
         /\ writes_logged st' = rev (filter is_write_ev (snd (run_items (t_app st) (combine reqs caps)))) ++ writes_logged st.
  Proof.
    intros Hi Hc Hm Hp F. unfold dispatch. rewrite Hm. unfold multi_service.
    rewrite with_injection_none by exact Hi.
    set (st2 := set_inject [] (logs [EvRequest tr seq rq] st)).
    assert (Hc2 : cf_multi_service (t_cfg st2) = true) by exact Hc. rewrite Hc2. cbn [negb]. rewrite Hp.
    destruct (multi_run_items items (cap - 6 - 2 * TargetCore.zlen items) (TargetCore.zlen items) st2 [] reqs eq_refl F) as (caps & Hl & I).
    exists caps. split; [exact Hl|]. cbn zeta in *.
    destruct (multi_run h tr seq (cap - 6 - 2 * TargetCore.zlen items) (TargetCore.zlen items) items st2 []) as [st3 reps]. cbn [fst] in I.
    destruct I as (_ & _ & I3 & I4).
    unfold finish_reply.
    match goal with |- context [fit ?c ?s ?b] => destruct (fit c s b) as [bs evs] eqn:EF end. cbn [fst].
    assert (Hev : filter is_write_ev (evs ++ [EvReply (reply_status bs) (length bs)]) = []).
    { unfold fit in EF. match type of EF with context [if ?c then _ else _] => destruct c end; injection EF as _ <-; reflexivity. }
    split; [exact I3|]. rewrite writes_logs, Hev. cbn [rev app]. rewrite I4.
    unfold st2, writes_logged. cbn [t_log set_inject logs rev_append filter is_write_ev]. reflexivity.
  Qed.
End Dispatch.

(* the Logix write services do not look at the reply capacity *)
Theorem logix_write_cap_indep st tr c1 c2 rq l :
  resolve_path (ls_proj st) (mr_service rq =? 85) (mr_path rq) = TgTag l ->
  mr_service rq = 77 \/ mr_service rq = 78 \/ mr_service rq = 83 ->
  logix_request st tr c1 rq = logix_request st tr c2 rq.
Proof.
  intros Hr Hs. unfold logix_request. rewrite Hr. unfold TargetLogix.tag_service.
  destruct (mem_get (ls_mem st) (w_inst l)); [|reflexivity].
  destruct Hs as [-> | [-> | ->]]; reflexivity.
Qed.

(* ================================================================ a fragmented transfer, end to end *)
Lemma mem_set_set m i a b : mem_set (mem_set m i a) i b = mem_set m i b.
Proof.
  induction m as [|[k w] r IH]; cbn [mem_set].
  - rewrite Z.eqb_refl. reflexivity.
  - destruct (k =? i) eqn:E; cbn [mem_set]; rewrite E; [reflexivity|]. rewrite IH. reflexivity.
Qed.

(* Write Tag Fragmented executed for each (offset, segment), in order, on the memory *)
Fixpoint run_frags (p : project) (l : wloc) (pt : bytes) (n : Z) (m : mem) (frs : list (Z * bytes))
  : option (mem * list tevent) :=
  match frs with
  | [] => Some (m, [])
  | (o, sg) :: rest =>
      match mem_get m (w_inst l) with
      | None => None
      | Some img =>
          let '(m', rp, evs) := svc_write_frag p m img l (frag_data pt n o sg) in
          if rp_status rp =? 0 then
            match run_frags p l pt n m' rest with
            | Some (m2, e2) => Some (m2, evs ++ e2)
            | None => None
            end
          else None
      end
  end.

Definition is_store_ev (e : tevent) : bool := match e with EvApp 1 _ _ => true | _ => false end.

Lemma mem_set_same m i v : mem_get m i = Some v -> mem_set m i v = m.
Proof.
  induction m as [|[k w] r IH]; cbn [mem_get mem_set]; [discriminate|].
  destruct (k =? i) eqn:E; [intros H; injection H as ->; reflexivity|]. intros H. rewrite (IH H). reflexivity.
Qed.

Lemma filter_store_extra extra : Forall (fun e => match e with EvApp 3 _ _ => True | _ => False end) extra -> filter is_store_ev extra = [].
Proof.
  induction 1 as [|e r He Hr IH]; [reflexivity|]. cbn [filter]. rewrite IH.
  destruct e as [| | | | | | |tag args data]; try contradiction. destruct tag as [|q|q]; try contradiction.
  destruct q as [q|q|]; try contradiction. destruct q as [q|q|]; try contradiction. reflexivity.
Qed.

Lemma run_frags_from p l pt ty n s segs : forall m img o,
  (forall r, parse_wtype (pt ++ r) = Some (ty, r)) -> type_matches p l ty = true -> loc_esize p l = Some s ->
  w_bit l = None -> 1 <= n <= w_avail l -> n < 65536 -> n * s < 4294967296 ->
  mem_get m (w_inst l) = Some img -> 0 <= o ->
  Forall (fun sg => sg <> []) segs -> o + Expect.blen (concat segs) <= n * s ->
  forall img', store_frags img (w_off l) (combine (offsets_from o segs) segs) = Some img' ->
  exists evs, run_frags p l pt n m (combine (offsets_from o segs) segs) = Some (mem_set m (w_inst l) img', evs)
    /\ filter is_store_ev evs
       = map (fun os => EvApp 1 [w_inst l; w_off l + fst os; 83] (snd os)) (combine (offsets_from o segs) segs).
Proof.
  induction segs as [|sg r IH]; intros m img o Hpt Htm Hs Hb Hn Hn2 Hns Hmem Ho Fne Htot img' Hst.
  - cbn [offsets_from combine store_frags run_frags map] in *. injection Hst as <-.
    exists []. rewrite (mem_set_same _ _ _ Hmem). split; reflexivity.
  - inversion Fne as [|? ? Hsg Hr]; subst.
    cbn [offsets_from combine store_frags run_frags map fst snd] in *.
    destruct (put_bytes img (w_off l + o) sg) as [i1|] eqn:Hp; [|discriminate].
    rewrite Hmem.
    assert (Hlen : 1 <= Expect.blen sg) by (unfold Expect.blen; destruct sg; [congruence|cbn [length]; lia]).
    cbn [concat] in Htot. rewrite blen_app in Htot. pose proof (blen_nonneg (concat r)) as Hcr.
    destruct (svc_write_frag_accepts p m img l (frag_data pt n o sg) ty n o sg s
                (Hpt _) Htm Hs Hn Hn2 ltac:(lia) Hlen ltac:(lia) ltac:(lia)) as (A1 & extra & A2 & A3).
    rewrite (do_store_plain 83 m img l o sg i1 Hb Hp) in A1, A2. cbn [fst snd] in A1, A2.
    destruct (svc_write_frag p m img l (frag_data pt n o sg)) as [[m' rp] evs]. cbn [fst snd] in A1, A2.
    injection A1 as -> ->. subst evs. cbn [rp_status mr_ok]. rewrite Z.eqb_refl.
    destruct (IH (mem_set m (w_inst l) i1) i1 (o + Z.of_nat (length sg)) Hpt Htm Hs Hb Hn Hn2 Hns
                 (mem_get_set_same _ _ _) ltac:(lia) Hr ltac:(unfold Expect.blen in *; lia) img' Hst) as (e2 & R & F).
    rewrite R. eexists. split; [rewrite mem_set_set; reflexivity|].
    rewrite !filter_app, (filter_store_extra extra A3), F. reflexivity.
Qed.

(* The fragments _send_write_fragmented emits for a value (segments of conn - overhead bytes at
   offsets 0, |s1|, |s1|+|s2|, ...), each executed by the target's Write Tag Fragmented in order:
   every one is accepted, the memory afterwards is the memory ONE store of the whole value at the
   addressed place leaves, and the log holds exactly one executed write per fragment, at its offset. *)
Theorem frag_transfer_correct p m l img pt ty n s conn ovh value img' :
  (forall r, parse_wtype (pt ++ r) = Some (ty, r)) -> type_matches p l ty = true -> loc_esize p l = Some s ->
  w_bit l = None -> 1 <= n <= w_avail l -> n < 65536 -> Expect.blen value = n * s -> n * s < 4294967296 ->
  mem_get m (w_inst l) = Some img -> 0 < conn - ovh -> value <> [] ->
  put_bytes img (w_off l) value = Some img' ->
  let frs := write_fragments conn ovh value in
  exists evs, run_frags p l pt n m frs = Some (mem_set m (w_inst l) img', evs)
    /\ filter is_store_ev evs = map (fun os => EvApp 1 [w_inst l; w_off l + fst os; 83] (snd os)) frs.
Proof.
  intros Hpt Htm Hs Hb Hn Hn2 Hv Hns Hmem Hpos Hne Hput frs.
  pose proof (frag_stores_compose img (w_off l) conn ovh value Hpos Hne) as C. rewrite Hput in C.
  unfold frs, write_fragments in *.
  set (segs := LogixPlan.chunks (length value) (Z.to_nat (conn - ovh)) value) in *.
  assert (Hc : concat segs = value) by (apply chunks_concat; lia).
  assert (Fne : Forall (fun sg => sg <> []) segs).
  { pose proof (chunks_bound (Z.to_nat (conn - ovh)) ltac:(lia) (length value) value) as B. fold segs in B.
    eapply Forall_impl; [|exact B]. cbn. intros sg H E. rewrite E in H. cbn in H. lia. }
  apply (run_frags_from p l pt ty n s segs m img 0 Hpt Htm Hs Hb Hn Hn2 Hns Hmem ltac:(lia) Fne); [rewrite Hc; lia|exact C].
Qed.

(* ================================================================ the model's multi-service packet, executed *)
Lemma map_res_length {A B} (f : A -> res B) l l' : map_res f l = Ok l' -> length l' = length l.
Proof.
  revert l'. induction l as [|a r IH]; intros l' H; cbn [map_res] in H; [injection H as <-; reflexivity|].
  destruct (f a); [|discriminate]. destruct (map_res f r) as [bs|]; [|discriminate]. injection H as <-.
  cbn [length]. rewrite (IH bs eq_refl). reflexivity.
Qed.

(* What MultiServiceRequestPacket.build_message puts on the connection (after the sequence count) is
   a message-router request the target parses as service 0x0A to the message router, unwraps into
   exactly the embedded tag_only_message()s, and executes one after the other: the application state
   and the executed-write log are those of the embedded requests run in order. *)
Theorem multi_packet_executes {S : Type} (h : handler S) tr cap sq (st : tstate S) seq members m reqs :
  multi_message seq members = Ok m -> members <> [] ->
  t_inject st = [] -> cf_multi_service (t_cfg st) = true ->
  (forall msgs, map_res tag_only_message members = Ok msgs ->
     Forall2 (fun it r => parse_mr it = RcOk r /\ to_handler r = true) msgs reqs) ->
  exists rq caps, parse_mr (skipn 2 m) = RcOk rq /\ length caps = length reqs
    /\ let st' := fst (dispatch h tr cap sq st rq) in
       t_app st' = fst (run_items h tr (t_app st) (combine reqs caps))
       /\ writes_logged st' = rev (filter is_write_ev (snd (run_items h tr (t_app st) (combine reqs caps)))) ++ writes_logged st.
Proof.
  intros Hm Hne Hi Hc Hreqs.
  destruct (multi_message_layout seq members m Hm) as (msgs & Hmsgs & Hn & Fo & ->).
  specialize (Hreqs msgs Hmsgs).
  pose proof (map_res_length _ _ _ Hmsgs) as Hl.
  assert (Hz : LogixWrite.zlen msgs = LogixWrite.zlen members) by (unfold LogixWrite.zlen; rewrite Hl; reflexivity).
  assert (Hmne : msgs <> []) by (intros E; rewrite E in Hl; destruct members; [congruence|discriminate]).
  assert (Fne : Forall (fun m0 => m0 <> []) msgs).
  { clear -Hreqs. induction Hreqs as [|it r a b [Hp _] _ IH]; constructor; [|exact IH]. intros E. rewrite E in Hp. discriminate. }
  set (data := le_enc 2 (LogixWrite.zlen members) ++ concat (map (le_enc 2) (offset_vals (2 + 2 * LogixWrite.zlen members) msgs)) ++ concat msgs).
  assert (Hp : parse_mr (skipn 2 (le_enc 2 seq ++ [10] ++ [2; 32; 2; 36; 1] ++ data))
               = RcOk {| mr_service := 10; mr_path := [32; 2; 36; 1]; mr_data := data |}).
  { replace (skipn 2 (le_enc 2 seq ++ [10] ++ [2; 32; 2; 36; 1] ++ data)) with ([10] ++ [2; 32; 2; 36; 1] ++ data) by reflexivity.
    apply parse_mr_message; [lia|]. exists 2. split; reflexivity. }
  assert (Hpm : parse_multi data = RcOk msgs).
  { assert (Hlt : LogixWrite.zlen msgs < 65536) by (rewrite Hz; exact (proj2 Hn)).
    assert (Fo' : Forall (fun o : Z => 0 <= o < 65536) (offset_vals (2 + 2 * LogixWrite.zlen msgs) msgs)) by (rewrite Hz; exact Fo).
    unfold data. rewrite <- Hz. exact (multi_unwrap msgs Hmne Fne Hlt Fo'). }
  destruct (dispatch_multi h tr sq cap st {| mr_service := 10; mr_path := [32; 2; 36; 1]; mr_data := data |} msgs reqs
              Hi Hc eq_refl Hpm Hreqs) as (caps & Hlc & D).
  eexists _, caps. split; [exact Hp|]. split; [exact Hlc|exact D].
Qed.
