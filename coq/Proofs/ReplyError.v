(* Proofs/ReplyError.v — falsy replies carry a non-empty error text that names the CIP status
   (table text or two-digit hex code) and the extended status when the table has a text for it.
   The unbounded parts (arbitrary reply bytes, 16/32-bit extended status values) are structural
   lemmas; the finite residue is a sweep over the 256 general status values and a no-duplicate-keys
   check of the regenerated tables. *)
From Coq Require Import String ZifyBool.
From PV Require Import Base.Bytes Base.BytesLemmas Base.Res Base.Proto Base.PyStr.
From PV Require Import Gen.Tables Gen.Types Gen.Status Gen.Consts Gen.ReplyTables.
From PV Require Import Model.EnumMapDefs Model.EnumMap Model.Reply Spec.ReplyReader.
From PV Require Import Proofs.EnumMapP Proofs.ReplyBase Proofs.ReplyValid.
Open Scope Z_scope.
Ltac Zify.zify_post_hook ::= Z.to_euclidean_division_equations.

(* ---------------------------------------------------------------- containment *)
Lemma is_prefix_app p r : is_prefix p (p ++ r) = true.
Proof. induction p as [|x p IH]; cbn; [reflexivity|]. now rewrite Z.eqb_refl, IH. Qed.
Lemma is_prefix_app_l p s r : is_prefix p s = true -> is_prefix p (s ++ r) = true.
Proof.
  revert s; induction p as [|x p IH]; intros s H; [reflexivity|].
  destruct s as [|y s]; [discriminate|]. cbn in *. apply andb_true_iff in H as [H1 H2].
  now rewrite H1, (IH s H2).
Qed.
Lemma contains_unfold p s : contains p s = is_prefix p s || match s with [] => false | _ :: s' => contains p s' end.
Proof. destruct s; reflexivity. Qed.
Lemma contains_app_l p s r : contains p s = true -> contains p (s ++ r) = true.
Proof.
  induction s as [|y s IH]; intros H.
  - rewrite contains_unfold in H. rewrite orb_false_r in H. destruct p; [|discriminate].
    rewrite contains_unfold. reflexivity.
  - rewrite contains_unfold in H. cbn [app]. rewrite contains_unfold.
    apply orb_true_iff in H as [H|H].
    + change (y :: s ++ r) with ((y :: s) ++ r). now rewrite (is_prefix_app_l p (y :: s) r H).
    + rewrite (IH H). apply orb_true_r.
Qed.
Lemma contains_app_r p a s : contains p s = true -> contains p (a ++ s) = true.
Proof.
  induction a as [|y a IH]; intros H; [exact H|].
  cbn [app]. rewrite contains_unfold. rewrite (IH H). apply orb_true_r.
Qed.
Lemma contains_self p r : contains p (p ++ r) = true.
Proof. rewrite contains_unfold. now rewrite is_prefix_app. Qed.
Lemma contains_mid t a b : contains t (a ++ t ++ b) = true.
Proof. apply contains_app_r, contains_self. Qed.

(* ---------------------------------------------------------------- first-binding vs last-binding lookups *)
Fixpoint nodupb (ks : list Z) : bool :=
  match ks with [] => true | k :: r => negb (existsb (Z.eqb k) r) && nodupb r end.


Lemma ilookup_none d k : existsb (Z.eqb k) (map fst d) = false -> ilookup d k = None.
Proof.
  induction d as [|[k' v] r IH]; [reflexivity|]. cbn [map fst existsb ilookup]. intros H.
  apply orb_false_iff in H as [H1 H2]. rewrite (IH H2).
  destruct (k' =? k) eqn:E; [lia|reflexivity].
Qed.
Lemma ilookup_tlookup d k : nodupb (map fst d) = true -> ilookup d k = tlookup d k.
Proof.
  induction d as [|[k' v] r IH]; [reflexivity|]. cbn [map fst nodupb ilookup tlookup]. intros H.
  apply andb_true_iff in H as [H1 H2]. rewrite (IH H2).
  destruct (k' =? k) eqn:E.
  - assert (k' = k) by lia. subst k'. rewrite <- (IH H2).
    rewrite ilookup_none; [reflexivity|]. now apply negb_true_iff in H1.
  - destruct (tlookup r k); reflexivity.
Qed.
Lemma ilookup2_none d k : existsb (Z.eqb k) (map fst d) = false -> ilookup2 d k = None.
Proof.
  induction d as [|[k' v] r IH]; [reflexivity|]. cbn [map fst existsb ilookup2]. intros H.
  apply orb_false_iff in H as [H1 H2]. rewrite (IH H2).
  destruct (k' =? k) eqn:E; [lia|reflexivity].
Qed.
Lemma ilookup2_tlookup2 d k : nodupb (map fst d) = true -> ilookup2 d k = tlookup2 d k.
Proof.
  induction d as [|[k' v] r IH]; [reflexivity|]. cbn [map fst nodupb ilookup2 tlookup2]. intros H.
  apply andb_true_iff in H as [H1 H2]. rewrite (IH H2).
  destruct (k' =? k) eqn:E.
  - assert (k' = k) by lia. subst k'. rewrite <- (IH H2).
    rewrite ilookup2_none; [reflexivity|]. now apply negb_true_iff in H1.
  - destruct (tlookup2 r k); reflexivity.
Qed.
Lemma tlookup2_in d k sub : tlookup2 d k = Some sub -> In sub (map snd d).
Proof.
  induction d as [|[k' v] r IH]; [discriminate|]. cbn [tlookup2 map snd].
  destruct (k' =? k); [intros [= <-]; now left|intros H; right; auto].
Qed.

(* the regenerated tables have no duplicate keys (finite checks) *)
Lemma service_status_nodup : nodupb (map fst service_status) = true.
Proof. vm_compute. reflexivity. Qed.
Lemma extend_codes_nodup : nodupb (map fst extend_codes) = true.
Proof. vm_compute. reflexivity. Qed.
Lemma extend_codes_sub_nodup : forallb (fun sub => nodupb (map fst sub)) (map snd extend_codes) = true.
Proof. vm_compute. reflexivity. Qed.

Lemma extend_text_spec g x :
  extend_text g x = match tlookup2 extend_codes g with Some sub => tlookup sub x | None => None end.
Proof.
  unfold extend_text. rewrite (ilookup2_tlookup2 extend_codes g extend_codes_nodup).
  destruct (tlookup2 extend_codes g) as [sub|] eqn:E; [|reflexivity].
  apply ilookup_tlookup. pose proof extend_codes_sub_nodup as H. rewrite forallb_forall in H.
  apply H. eapply tlookup2_in; eauto.
Qed.

(* ---------------------------------------------------------------- the status text: 256-value sweep *)
Definition names1 (g : Z) (text : list Z) : bool :=
  match tlookup service_status g with Some t => contains t text | None => contains (hex_fixed 2 g) text end.
Lemma names1_sweep : forallb (fun g => names1 g (get_service_status_z g)) (zrange 256) = true.
Proof. vm_compute. reflexivity. Qed.
Lemma names1_status g r : 0 <= g < 256 -> names1 g (get_service_status_z g ++ r) = true.
Proof.
  intros H. pose proof (forallb_zrange _ 256 names1_sweep g H) as Hs. cbv beta in Hs.
  unfold names1 in *. destruct (tlookup service_status g); now apply contains_app_l.
Qed.

Lemma texts_nonempty : forallb (fun '(_, v) => match v with [] => false | _ => true end) service_status = true.
Proof. vm_compute. reflexivity. Qed.
Lemma ilookup_in d k v : ilookup d k = Some v -> In (k, v) d.
Proof.
  induction d as [|[k' v'] r IH]; [discriminate|]. cbn [ilookup].
  destruct (ilookup r k) as [w|].
  - intros [= <-]. right. now apply IH.
  - destruct (k' =? k) eqn:E; [|discriminate]. intros [= <-]. left. f_equal. lia.
Qed.
Lemma service_status_text_nonempty z : get_service_status_z z <> [].
Proof.
  unfold get_service_status_z. destruct (ilookup service_status z) as [s|] eqn:E.
  - apply ilookup_in in E. pose proof texts_nonempty as H. rewrite forallb_forall in H.
    specialize (H _ E). cbv beta iota in H. destruct s; [discriminate|discriminate].
  - unfold unknown_error_prefix. cbn. discriminate.
Qed.

Lemma with_ext_nonempty s e : s <> [] -> with_ext s e <> [].
Proof.
  intros H. unfold with_ext. destruct e as [[|x e]|]; auto.
  destruct s; [congruence|discriminate].
Qed.
Lemma with_ext_prefix s e : exists r, with_ext s e = s ++ r.
Proof.
  unfold with_ext. destruct e as [[|x e]|]; [exists []; now rewrite app_nil_r|eexists; reflexivity|exists []; now rewrite app_nil_r].
Qed.

(* ---------------------------------------------------------------- get_extended_status on a well-formed reply *)
Definition fmt_ext (status ext : Z) : option text :=
  match extend_text status ext with
  | Some t => Some (t ++ T "  (" ++ hex_min2_z status ++ T ", " ++ hex_min2_z ext ++ T ")")
  | None => None
  end.
Definition ext_result (g n : Z) (raw : bytes) (d : nat) : option text :=
  if n =? 0 then fmt_ext g 0
  else if n =? 1 then match u16_at d raw with Some x => fmt_ext g x | None => None end
  else if n =? 2 then match u32_at d raw with Some x => fmt_ext g x | None => None end
  else Some ext_size_unknown.

Lemma skipn_cons_nth {A} n (l : list A) x : nth_error l n = Some x -> skipn n l = x :: skipn (S n) l.
Proof.
  revert l; induction n as [|n IH]; intros [|y l] H; try discriminate.
  - now injection H as ->.
  - cbn [nth_error] in H. cbn [skipn]. now apply IH.
Qed.

Lemma ges_wf raw st g n : bytes_ok raw = true ->
  nth_error raw st = Some g -> nth_error raw (S st) = Some n ->
  (S (S st) + 2 * Z.to_nat n <= length raw)%nat ->
  get_extended_status raw st = ROk (ext_result g n raw (S (S st))).
Proof.
  intros Hok Hg Hn Hlen.
  pose proof (nth_error_bytes_ok raw _ n Hok Hn) as Hnr.
  unfold get_extended_status. rewrite (skipn_cons_nth st raw g Hg), (skipn_cons_nth (S st) raw n Hn).
  set (rest := skipn (S (S st)) raw).
  assert (Hrl : length rest = (length raw - S (S st))%nat) by apply skipn_length.
  rewrite USINT_eq.
  unfold decode_elem_stream at 1. cbn [ety_size ety_signed ety_name firstn length Nat.ltb Nat.leb skipn elem_value le_dec].
  unfold decode_elem_stream at 1. cbn [ety_size ety_signed ety_name firstn length Nat.ltb Nat.leb skipn elem_value le_dec].
  replace (g + 256 * 0) with g by lia. replace (n + 256 * 0) with n by lia.
  unfold ext_result.
  destruct (n =? 0) eqn:E0.
  { replace (n * 2 =? 0) with true by lia. reflexivity. }
  replace (n * 2 =? 0) with false by lia. replace (n * 2 =? 1) with false by lia.
  destruct (n =? 1) eqn:E1.
  { replace (n * 2 =? 2) with true by lia.
    rewrite UINT_eq. rewrite decode_elem_stream_full by (cbn [ety_size]; lia).
    cbn [ety_size ety_signed elem_value]. rewrite u16_at_skipn. fold rest.
    destruct rest as [|a [|b r]]; cbn [length] in Hrl; try lia.
    cbn [firstn le_dec]. replace (a + 256 * (b + 256 * 0)) with (a + 256 * b) by lia. reflexivity. }
  replace (n * 2 =? 2) with false by lia.
  destruct (n =? 2) eqn:E2.
  { replace (n * 2 =? 4) with true by lia.
    rewrite UDINT_eq. rewrite decode_elem_stream_full by (cbn [ety_size]; lia).
    cbn [ety_size ety_signed elem_value]. rewrite u32_at_skipn. fold rest.
    destruct rest as [|a [|b [|c [|d r]]]]; cbn [length] in Hrl; try lia.
    cbn [firstn le_dec].
    replace (a + 256 * (b + 256 * (c + 256 * (d + 256 * 0)))) with (a + 256 * b + 65536 * c + 16777216 * d) by lia.
    reflexivity. }
  replace (n * 2 =? 4) with false by lia. reflexivity.
Qed.

(* the extended-status part of the text names the extended status the Spec reads *)
Lemma ext_named (L : layout) raw g n s :
  l_extsize L = S (l_status L) -> l_data L = S (S (l_status L)) ->
  nth_error raw (S (l_status L)) = Some n -> 0 <= n < 256 ->
  (match ext_value (ext_status L raw) with
   | Some x => match tlookup2 extend_codes g with
               | Some sub => match tlookup sub x with
                             | Some t => contains t (with_ext s (ext_result g n raw (S (S (l_status L)))))
                             | None => true
                             end
               | None => true
               end
   | None => true
   end) = true.
Proof.
  intros He Hd Hn Hr. unfold ext_status, byte_at. rewrite He, Hn, Hd.
  assert (Hfmt : forall x, match tlookup2 extend_codes g with
                           | Some sub => match tlookup sub x with
                                         | Some t => contains t (with_ext s (fmt_ext g x))
                                         | None => true
                                         end
                           | None => true
                           end = true).
  { intros x. unfold fmt_ext. rewrite extend_text_spec.
    destruct (tlookup2 extend_codes g) as [sub|]; [|reflexivity].
    destruct (tlookup sub x) as [t|]; [|reflexivity].
    unfold with_ext. destruct (t ++ T "  (" ++ hex_min2_z g ++ T ", " ++ hex_min2_z x ++ T ")") as [|c q] eqn:E.
    - destruct t; discriminate.
    - rewrite <- E. rewrite app_assoc. apply contains_app_r. apply contains_self. }
  unfold ext_result.
  destruct n as [|p|p]; [reflexivity| |lia].
  destruct p as [p|p|]; cbn [ext_value Z.eqb Pos.eqb];
    try (destruct p as [p|p|]; cbn [ext_value Z.eqb Pos.eqb]; try reflexivity).
  - (* n = 2 *) destruct (u32_at (S (S (l_status L))) raw) as [x|]; [apply Hfmt|reflexivity].
  - (* n = 1 *) destruct (u16_at (S (S (l_status L))) raw) as [x|]; [apply Hfmt|reflexivity].
Qed.

(* ---------------------------------------------------------------- the error text of a well-formed, non-success reply *)
Definition parse_k (k : rkind) (raw : bytes) : resp := match k with KRR => parse_rr raw | _ => parse_unit raw end.
Definition partial_k (k : rkind) : bool := match k with KRR => false | _ => true end.

Lemma error_text_gen k L raw :
  (k = KUnit /\ L = unit_layout) \/ (k = KRR /\ L = rr_layout) ->
  bytes_ok raw = true -> wf_cip_reply L raw = true -> spec_success (partial_k k) L raw = false ->
  exists t, error k (parse_k k raw) = ROk (Some t) /\ t <> []
    /\ (encap_status raw = Some 0 ->
        exists gs, byte_at (l_status L) raw = Some gs /\ gs <> 0
          /\ names_status service_status extend_codes gs (ext_value (ext_status L raw)) t = true).
Proof.
  intros HkL Hok Hwf Hns.
  assert (HL : l_extsize L = S (l_status L) /\ l_data L = S (S (l_status L))
               /\ parse_k k raw = parse_cip (l_svc L) (l_status L) (l_data L) raw
               /\ (forall r c, extended_status k r c =
                     match r_raw r with
                     | None => RErr DataError (T "unreachable: status without raw")
                     | Some raw0 => match get_extended_status raw0 (l_status L) with
                                    | RErr e m => RErr e m
                                    | ROk ext => ROk (with_ext (get_service_status_z c) ext)
                                    end
                     end)
               /\ is_valid k (parse_k k raw) = spec_success (partial_k k) L raw).
  { destruct HkL as [[-> ->]|[-> ->]]; (split; [reflexivity|split; [reflexivity|split; [reflexivity|split; [reflexivity|]]]]).
    - apply unit_valid_iff, Hok.
    - apply rr_valid_iff, Hok. }
  destruct HL as (He & Hd & Hp & Hx & Hv).
  (* the words are present *)
  unfold wf_cip_reply in Hwf.
  destruct (encap_status raw) as [e|] eqn:Ee; [|discriminate].
  destruct (byte_at (l_extsize L) raw) as [n|] eqn:En; [|discriminate].
  apply andb_true_iff in Hwf as [Hrb Hlen].
  unfold reply_bit in Hrb. destruct (byte_at (l_svc L) raw) as [s|] eqn:Es; [|discriminate].
  unfold byte_at in *. rewrite He in En.
  pose proof (nth_error_bytes_ok raw _ n Hok En) as Hnr.
  assert (Hlen' : (S (S (l_status L)) + 2 * Z.to_nat n <= length raw)%nat) by (rewrite Hd in Hlen; lia).
  assert (exists g, nth_error raw (l_status L) = Some g) as [g Eg].
  { destruct (nth_error raw (l_status L)) eqn:E; [eauto|]. apply nth_error_None in E. lia. }
  pose proof (nth_error_bytes_ok raw _ g Hok Eg) as Hgr.
  pose proof (u32_range 8 raw e Hok Ee) as Her.
  destruct (parse_cip_spec (l_svc L) (l_status L) (l_data L) raw Hok) as (P1 & P2 & P3 & P4 & P5).
  rewrite Es, Eg, Hrb in P5. destruct P5 as (Q1 & Q2 & Q3 & Q4).
  unfold encap_status in Ee. rewrite Ee in P4, Q4. cbn [option_map is_none] in P4, Q4.
  rewrite <- Hp in *. set (r := parse_k k raw) in *.
  assert (Herr : r_error r = None) by (destruct (r_error r); [discriminate|reflexivity]).
  pose proof (ges_wf raw (l_status L) g n Hok Eg En Hlen') as Hges.
  unfold error. rewrite Hv, Hns, Herr, P4, Q2. cbn [not_none_or_success].
  unfold SUCCESS. rewrite (to_signed4_zero e Her).
  destruct (e =? 0) eqn:E0.
  - (* encapsulation status 0: the CIP status decides *)
    assert (Hg0 : g <> 0).
    { intros ->. unfold spec_success, status_ok, status_words, reply_bit, encap_status, byte_at in Hns.
      rewrite Ee, Es, Eg, Hrb, E0 in Hns. cbn in Hns. discriminate. }
    replace (g =? 0) with false by lia.
    rewrite Hx, P1, Hges. cbn [some_text].
    eexists. split; [reflexivity|]. split; [apply with_ext_nonempty, service_status_text_nonempty|].
    intros _. exists g. split; [exact Eg|]. split; [exact Hg0|].
    unfold names_status. apply andb_true_iff. split.
    + destruct (with_ext_prefix (get_service_status_z g) (ext_result g n raw (S (S (l_status L))))) as [q ->].
      exact (names1_status g q Hgr).
    + apply (ext_named L raw g n); auto.
  - rewrite Hx, P1, Hges. cbn [some_text].
    eexists. split; [reflexivity|]. split; [apply with_ext_nonempty, service_status_text_nonempty|].
    intros [= ->]. lia.
Qed.

Theorem error_text_unit raw :
  bytes_ok raw = true -> wf_cip_reply unit_layout raw = true -> spec_success true unit_layout raw = false ->
  exists t, error KUnit (parse_unit raw) = ROk (Some t) /\ t <> []
    /\ (encap_status raw = Some 0 ->
        exists gs, byte_at 48 raw = Some gs /\ gs <> 0
          /\ names_status service_status extend_codes gs (ext_value (ext_status unit_layout raw)) t = true).
Proof. intros. apply (error_text_gen KUnit unit_layout raw); auto. Qed.

Theorem error_text_rr raw :
  bytes_ok raw = true -> wf_cip_reply rr_layout raw = true -> spec_success false rr_layout raw = false ->
  exists t, error KRR (parse_rr raw) = ROk (Some t) /\ t <> []
    /\ (encap_status raw = Some 0 ->
        exists gs, byte_at 42 raw = Some gs /\ gs <> 0
          /\ names_status service_status extend_codes gs (ext_value (ext_status rr_layout raw)) t = true).
Proof. intros. apply (error_text_gen KRR rr_layout raw); auto. Qed.

(* ---------------------------------------------------------------- header-only encapsulation errors *)
Theorem header_only_error k raw : k = KUnit \/ k = KRR ->
  bytes_ok raw = true -> wf_header_only_error raw = true ->
  is_valid k (parse_k k raw) = false /\ exists t, error k (parse_k k raw) = ROk (Some t) /\ t <> [].
Proof.
  intros Hk Hok Hwf. unfold wf_header_only_error in Hwf. apply andb_true_iff in Hwf as [Hl He].
  apply Nat.eqb_eq in Hl.
  assert (Hnone : forall i, (24 <= i)%nat -> nth_error raw i = None) by (intros i Hi; apply nth_error_None; lia).
  assert (H : exists o1 o2 o3, (24 <= o1)%nat /\ parse_k k raw = parse_cip o1 o2 o3 raw).
  { destruct Hk as [->| ->]; [exists 46%nat, 48%nat, 50%nat|exists 40%nat, 42%nat, 44%nat]; split; try reflexivity; lia. }
  destruct H as (o1 & o2 & o3 & Ho & Hp).
  destruct (parse_cip_spec o1 o2 o3 raw Hok) as (P1 & P2 & P3 & P4 & P5).
  rewrite (Hnone o1 Ho) in P5. destruct P5 as (Q1 & Q2 & Q3).
  rewrite <- Hp in *. set (r := parse_k k raw) in *.
  assert (Hv : is_valid k r = false).
  { assert (is_valid_base r = false) as Hb.
    { unfold is_valid_base. rewrite is_none_some_neg, Q1. reflexivity. }
    destruct Hk as [->| ->]; cbn [is_valid]; now rewrite Hb. }
  split; [exact Hv|]. unfold error. rewrite Hv.
  destruct (r_error r) as [t|] eqn:E; [|discriminate].
  exists t. split; [reflexivity|].
  (* the recorded text starts with "Failed to parse reply - " *)
  subst r. rewrite Hp in E. unfold parse_cip in E.
  pose proof (from_reply_slice o1 raw Hok) as HF. rewrite (Hnone o1 Ho) in HF.
  destruct (from_reply (slice o1 (S o1) raw)) as [v|x m]; [discriminate|].
  cbn [set_error r_error] in E. injection E as <-. discriminate.
Qed.
