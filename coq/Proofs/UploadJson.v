(* Proofs/UploadJson.v — C05: tags_json is JSON-serialisable.
   [tags_json_serialisable]: for EVERY list of uploaded tags (whatever the peer sent), the value
   tags_json builds contains no object json cannot serialise — no type_class, no _struct_members —
   at any depth.  By induction on the nesting depth of the structure definitions. *)
From Coq Require Import ZifyBool String.
From PV Require Import Base.Bytes Base.Proto Base.PyStr Base.Res Model.LogixUpload.
Open Scope string_scope.
Open Scope Z_scope.

(* nesting depth of a structure definition *)
Fixpoint dt_depth (d : datatype) : nat :=
  match d with
  | MkDT _ internal _ _ _ _ _ =>
      S ((fix go (l : list (text * member)) : nat :=
            match l with
            | [] => O
            | nm :: r => Nat.max (match mm_dtype (snd nm) with DDef d' => dt_depth d' | _ => O end) (go r)
            end) internal)
  end.

Lemma dt_depth_member name internal attrs tmpl str sm tc n m d' :
  In (n, m) internal -> mm_dtype m = DDef d' ->
  (dt_depth d' < dt_depth (MkDT name internal attrs tmpl str sm tc))%nat.
Proof.
  intros Hin Hd. cbn [dt_depth]. apply Nat.lt_succ_r.
  induction internal as [|[n0 m0] r IH]; [destruct Hin|].
  destruct Hin as [E | Hin].
  - injection E as -> ->. cbn [snd]. rewrite Hd. apply Nat.le_max_l.
  - etransitivity; [apply IH; exact Hin | apply Nat.le_max_r].
Qed.

Lemma serialisable_strs l : forallb serialisable (map PStr l) = true.
Proof. induction l; [reflexivity | exact IHl]. Qed.
Lemma serialisable_ints l : forallb serialisable (map PInt l) = true.
Proof. induction l; [reflexivity | exact IHl]. Qed.
Lemma serialisable_ostr o : serialisable (ostr o) = true.
Proof. destruct o; reflexivity. Qed.
Lemma serialisable_oint o : serialisable (oint o) = true.
Proof. destruct o; reflexivity. Qed.

(* the dict of one member of internal_tags, as datatype_py writes it *)
Definition member_py_dict (m : member) : pyval :=
  PDict ([(K "offset", PInt (mm_offset m));
          (K "tag_type", if mm_struct m then K "struct" else K "atomic");
          (K "data_type", match mm_dtype m with
                          | DNone => PNone
                          | DName x => PStr x
                          | DDef d' => datatype_py d'
                          end);
          (K "data_type_name", ostr (mm_dtname m))]
         ++ (match mm_bit m with Some b => [(K "bit", PInt b)] | None => [] end)
         ++ (match mm_array m with Some a => [(K "array", PInt a)] | None => [] end)
         ++ [(K "type_class", tclass_py (mm_tclass m))]).

Lemma datatype_py_eq name internal attrs tmpl str sm tc :
  datatype_py (MkDT name internal attrs tmpl str sm tc)
  = PDict ([(K "name", ostr name);
            (K "internal_tags", PDict (map (fun nm => (PStr (fst nm), member_py_dict (snd nm))) internal));
            (K "attributes", PList (map PStr attrs));
            (K "template", template_py tmpl)]
           ++ (match str with Some c => [(K "string", PInt c)] | None => [] end)
           ++ (match sm with Some x => [(K "_struct_members", struct_members_py x)] | None => [] end)
           ++ [(K "type_class", tclass_py tc)]).
Proof.
  cbn [datatype_py].
  repeat match goal with |- map _ _ = map _ _ => fail 1 | |- _ => f_equal end.
  apply map_ext. intros [n m]. reflexivity.
Qed.

Lemma datatype_py_is_dict d : exists kvs, datatype_py d = PDict kvs.
Proof. destruct d. rewrite datatype_py_eq. eauto. Qed.

(* ---------------------------------------------------------------- _copy_datatype, entry by entry *)
Definition copy_entry (kv : pyval * pyval) : list (pyval * pyval) :=
  let '(k, v) := kv in
  if is_key "type_class" k || is_key "_struct_members" k then []
  else if is_key "data_type" k then [(k, match v with PDict _ => copy_datatype v | _ => v end)]
  else if is_key "internal_tags" k then
    [(k, match v with
         | PDict its => PDict (map (fun kv2 : pyval * pyval => let '(k2, v2) := kv2 in (k2, copy_datatype v2)) its)
         | _ => py_raises
         end)]
  else [(k, v)].

Lemma copy_datatype_dict kvs : copy_datatype (PDict kvs) = PDict (flat_map copy_entry kvs).
Proof. reflexivity. Qed.

Definition okkv (kv : pyval * pyval) : bool := json_key (fst kv) && serialisable (snd kv).
Definition entry_ok (kv : pyval * pyval) : bool := forallb okkv (copy_entry kv).

Lemma forallb_flat_map {A B} (p : B -> bool) (f : A -> list B) l :
  forallb p (flat_map f l) = forallb (fun x => forallb p (f x)) l.
Proof. induction l as [|x l IH]; [reflexivity|]. cbn [flat_map forallb]. rewrite forallb_app, IH. reflexivity. Qed.

Lemma copy_dict_serialisable kvs : serialisable (copy_datatype (PDict kvs)) = forallb entry_ok kvs.
Proof. rewrite copy_datatype_dict. cbn [serialisable]. apply (forallb_flat_map okkv copy_entry). Qed.

Definition plain_key (k : pyval) : bool :=
  negb (is_key "type_class" k || is_key "_struct_members" k || is_key "data_type" k || is_key "internal_tags" k)
  && json_key k.

Lemma entry_ok_plain k v : plain_key k = true -> serialisable v = true -> entry_ok (k, v) = true.
Proof.
  unfold plain_key, entry_ok, copy_entry. intros Hk Hv.
  apply andb_prop in Hk. destruct Hk as [Hk Hj]. apply negb_true_iff in Hk.
  apply orb_false_iff in Hk. destruct Hk as [Hk H4]. apply orb_false_iff in Hk. destruct Hk as [Hk H3].
  rewrite Hk, H3, H4. unfold okkv. cbn [forallb fst snd]. rewrite Hj, Hv. reflexivity.
Qed.

Lemma entry_ok_dropped1 v : entry_ok (K "type_class", v) = true.
Proof. reflexivity. Qed.
Lemma entry_ok_dropped2 v : entry_ok (K "_struct_members", v) = true.
Proof. reflexivity. Qed.
Lemma entry_ok_data_type_dict kvs :
  serialisable (copy_datatype (PDict kvs)) = true -> entry_ok (K "data_type", PDict kvs) = true.
Proof.
  intros H. unfold entry_ok, copy_entry.
  change (is_key "type_class" (K "data_type") || is_key "_struct_members" (K "data_type")) with false.
  change (is_key "data_type" (K "data_type")) with true. cbv iota.
  unfold okkv, K. cbn [forallb fst snd json_key]. rewrite H. reflexivity.
Qed.
Lemma entry_ok_data_type_atom v :
  match v with PDict _ => false | _ => true end = true -> serialisable v = true -> entry_ok (K "data_type", v) = true.
Proof.
  intros Hd H. unfold entry_ok, copy_entry.
  change (is_key "type_class" (K "data_type") || is_key "_struct_members" (K "data_type")) with false.
  change (is_key "data_type" (K "data_type")) with true. cbv iota.
  unfold okkv, K. destruct v; try discriminate; cbn [forallb fst snd json_key]; rewrite ?H; reflexivity.
Qed.
Lemma entry_ok_internal_tags its :
  forallb (fun kv => json_key (fst kv) && serialisable (copy_datatype (snd kv))) its = true ->
  entry_ok (K "internal_tags", PDict its) = true.
Proof.
  intros H. unfold entry_ok, copy_entry.
  change (is_key "type_class" (K "internal_tags") || is_key "_struct_members" (K "internal_tags")) with false.
  change (is_key "data_type" (K "internal_tags")) with false.
  change (is_key "internal_tags" (K "internal_tags")) with true. cbv iota.
  unfold okkv, K. cbn [forallb fst snd json_key serialisable andb]. rewrite ?andb_true_r.
  rewrite forallb_forall in H. apply forallb_forall. intros kv Hkv. apply in_map_iff in Hkv.
  destruct Hkv as ([k2 v2] & <- & Hin). exact (H _ Hin).
Qed.

Ltac plain := apply entry_ok_plain; [reflexivity | cbn [serialisable]; rewrite ?serialisable_ostr, ?serialisable_oint, ?serialisable_strs, ?serialisable_ints; try reflexivity].
Ltac entries :=
  cbn [app forallb];
  repeat match goal with |- _ && _ = true => apply andb_true_intro; split end;
  try reflexivity;
  try apply entry_ok_dropped1; try apply entry_ok_dropped2.

Lemma template_py_serialisable a : serialisable (template_py a) = true.
Proof. reflexivity. Qed.

Lemma copy_member_serialisable m :
  (forall d', mm_dtype m = DDef d' -> serialisable (copy_datatype (datatype_py d')) = true) ->
  serialisable (copy_datatype (member_py_dict m)) = true.
Proof.
  intros IH. unfold member_py_dict. rewrite copy_dict_serialisable.
  assert (Hdt : entry_ok (K "data_type", match mm_dtype m with
                                         | DNone => PNone
                                         | DName x => PStr x
                                         | DDef d' => datatype_py d'
                                         end) = true).
  { destruct (mm_dtype m) as [|x|d'] eqn:Ed.
    - apply entry_ok_data_type_atom; reflexivity.
    - apply entry_ok_data_type_atom; reflexivity.
    - specialize (IH d' eq_refl). destruct (datatype_py_is_dict d') as (kvs & Ek). rewrite Ek in *.
      apply entry_ok_data_type_dict. exact IH. }
  destruct (mm_bit m), (mm_array m), (mm_struct m); entries; try exact Hdt; plain.
Qed.

Theorem copy_datatype_serialisable : forall d, serialisable (copy_datatype (datatype_py d)) = true.
Proof.
  intros d. remember (dt_depth d) as n eqn:En. revert d En.
  induction n as [n IHn] using lt_wf_ind. intros [name internal attrs tmpl str sm tc] En.
  rewrite datatype_py_eq, copy_dict_serialisable.
  assert (Hmem : entry_ok (K "internal_tags",
                           PDict (map (fun nm : text * member => (PStr (fst nm), member_py_dict (snd nm))) internal)) = true).
  { apply entry_ok_internal_tags. apply forallb_forall. intros kv Hkv. apply in_map_iff in Hkv.
    destruct Hkv as ([n0 m0] & <- & Hin). cbn [fst snd json_key andb].
    apply copy_member_serialisable. intros d' Hd'.
    eapply IHn; [|reflexivity]. subst n. eapply dt_depth_member; eassumption. }
  destruct str, sm; entries; try exact Hmem; plain.
Qed.

Lemma copy_tag_serialisable t : serialisable (copy_datatype (tag_py t)) = true.
Proof.
  unfold tag_py. rewrite copy_dict_serialisable.
  assert (Hdt : entry_ok (K "data_type", dtype_py (tg_dtype t)) = true).
  { destruct (tg_dtype t) as [|x|d] eqn:Ed; cbn [dtype_py].
    - apply entry_ok_data_type_atom; reflexivity.
    - apply entry_ok_data_type_atom; reflexivity.
    - destruct (datatype_py_is_dict d) as (kvs & Ek). rewrite Ek.
      apply entry_ok_data_type_dict. rewrite <- Ek. apply copy_datatype_serialisable. }
  destruct (tg_struct t), (tg_bitpos t); entries; try exact Hdt; plain.
Qed.

(* json.dumps(drv.tags_json) cannot meet a type class, whatever was uploaded *)
Theorem tags_json_serialisable : forall tags, serialisable (tags_json tags) = true.
Proof.
  intros tags. unfold tags_json. cbn [serialisable].
  apply forallb_forall. intros kv Hkv. apply in_map_iff in Hkv. destruct Hkv as ([n t] & <- & _).
  cbn [fst snd json_key andb]. apply copy_tag_serialisable.
Qed.

(* the filter is needed: the dictionaries themselves are not serialisable *)
Example tags_py_not_serialisable :
  let t := mkMTag (T "x") 0 false 1 0 0 0 (T "Read/Write") [0; 0; 0] false None (DName (T "DINT")) (Some (T "DINT")) None (TcAtom (T "DINT")) in
  serialisable (tag_py t) = false /\ serialisable (copy_datatype (tag_py t)) = true.
Proof. vm_compute. auto. Qed.
