(* Proofs/CodecRTDict.v — C06: the insertion-ordered dict that Struct._decode builds
   ({typ.name: typ.decode(stream) for typ in members}, then pop("") and pop(None)) is the list of
   the NAMED members with their values, when the named members have distinct names. *)
From PV Require Import Base.Bytes Base.Res Model.Codec Model.CodecDom.
From Coq Require Import ZifyBool.
Open Scope Z_scope.

Lemma text_eqb_eq a b : text_eqb a b = true <-> a = b.
Proof.
  revert b. induction a as [|x a IH]; intros [|y b]; cbn [text_eqb]; split; intros H; try discriminate; try reflexivity.
  - apply andb_prop in H as [H1 H2]. apply IH in H2. f_equal; [lia|exact H2].
  - injection H as -> ->. rewrite Z.eqb_refl. cbn. now apply IH.
Qed.

Lemma keyb_eq a b : keyb a b = true <-> a = b.
Proof.
  destruct a as [a|], b as [b|]; cbn [keyb]; split; intros H; try discriminate; try reflexivity.
  - f_equal. now apply text_eqb_eq.
  - injection H as ->. now apply text_eqb_eq.
Qed.

Lemma keyb_refl a : keyb a a = true.
Proof. now apply keyb_eq. Qed.

Lemma keyb_neq a b : keyb a b = false <-> a <> b.
Proof.
  split.
  - intros H E. apply keyb_eq in E. congruence.
  - intros H. destruct (keyb a b) eqn:E; [|reflexivity]. apply keyb_eq in E. contradiction.
Qed.

Definition has_key (d : list (key * val)) (k : key) : bool := existsb (fun kv => keyb (fst kv) k) d.

Lemma has_key_cons kv d k : has_key (kv :: d) k = keyb (fst kv) k || has_key d k.
Proof. reflexivity. Qed.

Lemma dict_set_fresh d k v : has_key d k = false -> dict_set d k v = d ++ [(k, v)].
Proof.
  induction d as [|[k' v'] d IH]; cbn [has_key existsb dict_set app fst]; [reflexivity|].
  intros H. apply orb_false_elim in H as [H1 H2]. rewrite H1. f_equal. now apply IH.
Qed.

Lemma has_key_app d1 d2 k : has_key (d1 ++ d2) k = has_key d1 k || has_key d2 k.
Proof. unfold has_key. now rewrite existsb_app. Qed.

Lemma dict_get_app_fresh d k v : has_key d k = false -> dict_get (d ++ [(k, v)]) k = Ok v.
Proof.
  induction d as [|[k' v'] d IH]; cbn [has_key existsb dict_get app fst].
  - intros _. now rewrite keyb_refl.
  - intros H. apply orb_false_elim in H as [H1 H2]. rewrite H1. now apply IH.
Qed.

(* the named part of a dict *)
Definition strip (d : list (key * val)) : list (key * val) := filter (fun kv => negb (unnamed (fst kv))) d.

Fixpoint dkeys_nodup (d : list (key * val)) : bool :=
  match d with
  | [] => true
  | kv :: r => negb (has_key r (fst kv)) && dkeys_nodup r
  end.

Lemma dict_pop_filter d k :
  dkeys_nodup d = true -> dict_pop d k = filter (fun kv => negb (keyb (fst kv) k)) d.
Proof.
  induction d as [|[k' v'] d IH]; cbn [dkeys_nodup dict_pop filter fst]; [reflexivity|].
  intros H. apply andb_prop in H as [H1 H2].
  destruct (keyb k' k) eqn:E; cbn [negb].
  - apply keyb_eq in E. subst k'.
    clear IH. induction d as [|[k2 v2] d IHd]; [reflexivity|].
    cbn [has_key existsb fst] in H1. cbn [filter fst]. apply negb_true_iff in H1. apply orb_false_elim in H1 as [Ha Hb].
    rewrite Ha. cbn [negb]. f_equal. apply IHd.
    + unfold has_key. now rewrite Hb.
    + cbn [dkeys_nodup] in H2. now apply andb_prop in H2 as [_ H2].
  - f_equal. now apply IH.
Qed.

Lemma has_key_filter d k f : has_key (filter f d) k = true -> has_key d k = true.
Proof.
  induction d as [|kv d IH]; cbn [filter]; [trivial|].
  rewrite has_key_cons. destruct (f kv); [rewrite has_key_cons|]; intros H.
  - apply orb_true_iff in H as [H|H]; [now rewrite H|]. rewrite (IH H). now rewrite orb_true_r.
  - rewrite (IH H). now rewrite orb_true_r.
Qed.

Lemma dkeys_nodup_filter d f : dkeys_nodup d = true -> dkeys_nodup (filter f d) = true.
Proof.
  induction d as [|kv d IH]; cbn [filter dkeys_nodup]; [trivial|].
  intros H. apply andb_prop in H as [H1 H2]. destruct (f kv); cbn [dkeys_nodup]; [|now apply IH].
  rewrite (IH H2), andb_true_r. apply negb_true_iff. apply negb_true_iff in H1.
  destruct (has_key (filter f d) (fst kv)) eqn:E; [|reflexivity]. apply has_key_filter in E. congruence.
Qed.

Lemma unnamed_cases k : unnamed k = keyb k (Some []) || keyb k None.
Proof. destruct k as [[|c s]|]; reflexivity. Qed.

Lemma final_dict_strip d :
  dkeys_nodup d = true -> dict_pop (dict_pop d (Some [])) None = strip d.
Proof.
  intros H. rewrite (dict_pop_filter d _ H).
  rewrite dict_pop_filter by now apply dkeys_nodup_filter.
  unfold strip. clear H. induction d as [|kv d IH]; [reflexivity|].
  cbn [filter]. rewrite unnamed_cases.
  destruct (keyb (fst kv) (Some [])) eqn:E1; cbn [negb orb filter].
  - exact IH.
  - destruct (keyb (fst kv) None) eqn:E2; cbn [negb]; [exact IH|]. now rewrite IH.
Qed.

Lemma has_key_dict_set d k v k2 : has_key (dict_set d k v) k2 = has_key d k2 || keyb k k2.
Proof.
  induction d as [|[k' v'] d IH]; cbn [dict_set has_key existsb fst].
  - now rewrite orb_false_r.
  - destruct (keyb k' k) eqn:E; cbn [has_key existsb fst].
    + apply keyb_eq in E. subst k'. destruct (keyb k k2); cbn; [reflexivity|now rewrite orb_false_r].
    + fold (has_key (dict_set d k v) k2). rewrite IH. now rewrite orb_assoc.
Qed.

Lemma dkeys_nodup_dict_set d k v : dkeys_nodup d = true -> dkeys_nodup (dict_set d k v) = true.
Proof.
  induction d as [|[k' v'] d IH]; cbn [dict_set dkeys_nodup]; [reflexivity|].
  intros H. apply andb_prop in H as [H1 H2]. cbn [fst] in H1.
  destruct (keyb k' k) eqn:E; cbn [dkeys_nodup fst].
  - now rewrite H1, H2.
  - rewrite (IH H2), andb_true_r. rewrite has_key_dict_set. apply negb_true_iff in H1. rewrite H1. cbn [orb].
    apply negb_true_iff. destruct (keyb k k') eqn:E2; [|reflexivity].
    apply keyb_eq in E2. subst. now rewrite keyb_refl in E.
Qed.

Lemma strip_app a b : strip (a ++ b) = strip a ++ strip b.
Proof. unfold strip. now rewrite filter_app. Qed.

Lemma strip_dict_set_unnamed d k v : unnamed k = true -> strip (dict_set d k v) = strip d.
Proof.
  intros Hk. induction d as [|[k' v'] d IH]; cbn [dict_set strip filter fst].
  - now rewrite Hk.
  - destruct (keyb k' k) eqn:E.
    + apply keyb_eq in E. subst k'. cbn [filter fst]. now rewrite Hk.
    + cbn [filter fst]. fold (strip (dict_set d k v)). fold (strip d). now rewrite IH.
Qed.

Lemma strip_dict_set_named d k v :
  unnamed k = false -> has_key d k = false -> strip (dict_set d k v) = strip d ++ [(k, v)].
Proof.
  intros Hk Hf. rewrite dict_set_fresh by exact Hf. rewrite strip_app. f_equal.
  cbn [strip filter fst]. now rewrite Hk.
Qed.

Lemma strip_cons kv d : strip (kv :: d) = if negb (unnamed (fst kv)) then kv :: strip d else strip d.
Proof. reflexivity. Qed.

Lemma has_key_strip d k : unnamed k = false -> has_key (strip d) k = has_key d k.
Proof.
  intros Hk. induction d as [|[k' v'] d IH]; [reflexivity|].
  rewrite strip_cons, has_key_cons. cbn [fst]. destruct (unnamed k') eqn:E; cbn [negb].
  - rewrite IH. destruct (keyb k' k) eqn:E2; [|reflexivity]. apply keyb_eq in E2. subst. congruence.
  - rewrite has_key_cons. cbn [fst]. now rewrite IH.
Qed.
