(* Proofs/C15P.v — the headline lemmas of C15 (parse_sound, spellings_agree, the rejection
   theorems per class, never_bytes_on_error, the converse). *)
From Coq Require Import String.
From PV Require Import Base.Bytes Base.BytesLemmas Base.Proto Base.Res Base.PyStr Gen.PathTables Gen.Consts
     Model.Path Model.ConnPath Spec.ConnPathGrammar Proofs.ConnPathStr Proofs.ConnPathEnc Proofs.ConnPathRef Proofs.ConnPathRender.
From Coq Require Import ZifyBool.
Ltac Zify.zify_post_hook ::= Z.to_euclidean_division_equations.
Open Scope Z_scope.

(* ================================================================ I. headline lemmas of C15 *)
Lemma outcome_inr s auto pl h t b :
  outcome s auto pl = inr (h, t, b) <->
  exists segs, parse_connection_path s auto = Ok (h, t, segs) /\ encode_route segs pl = Ok b.
Proof.
  unfold outcome. split.
  - destruct (parse_connection_path s auto) as [[[h' t'] segs]|e]; [|discriminate].
    destruct (encode_route segs pl) as [b'|e] eqn:E; [|discriminate]. intros [= -> -> ->]. eauto.
  - intros [segs [-> ->]]. reflexivity.
Qed.

(* every spelling of every well-formed route yields the stated host, TCP port and route bytes
   (route = the reference wire form of the hops), for every CIP port number 1..65535 *)
Theorem parse_sound a sp auto pl hs :
  wf_route a = true -> wf_spelling sp a = true -> hops_of auto (r_shape a) = Some hs ->
  fits hs = true ->
  outcome (render sp a) auto pl = inr (r_host a, r_tcp a, route_wire pl hs).
Proof.
  intros Hwf Hsp Hh Hf. apply grammar_accepted.
  rewrite (ref_parse_render a sp auto Hwf Hsp), Hh. unfold must_accept. cbn [v_tcp v_route v_host].
  destruct (r_tcp a); cbn [tcp_reading]; now rewrite Hf.
Qed.

(* all spellings of one route give the same outcome - identical route bytes, or the same exception -
   for every port number, not only the small ones *)
Theorem spellings_agree a sp1 sp2 auto pl :
  wf_route a = true -> wf_spelling sp1 a = true -> wf_spelling sp2 a = true ->
  outcome (render sp1 a) auto pl = outcome (render sp2 a) auto pl.
Proof.
  intros Hwf H1 H2.
  pose proof (ref_parse_render a sp1 auto Hwf H1) as R1. pose proof (ref_parse_render a sp2 auto Hwf H2) as R2.
  destruct (hops_of auto (r_shape a)) as [hs|] eqn:Eh.
  - assert (Ht : forall t, tcp_value (tcp_reading t) = Some t) by (intros [p|]; reflexivity).
    destruct (outcome_of_reading (render sp1 a) auto pl (r_tcp a) hs) as [O1 _];
      [rewrite R1; apply Ht|now rewrite R1|].
    destruct (outcome_of_reading (render sp2 a) auto pl (r_tcp a) hs) as [O2 _];
      [rewrite R2; apply Ht|now rewrite R2|].
    rewrite O1, O2, R1, R2. reflexivity.
  - unfold outcome.
    rewrite (odd_segments_rejected (render sp1 a) auto) by now rewrite R1.
    rewrite (odd_segments_rejected (render sp2 a) auto) by now rewrite R2. reflexivity.
Qed.

(* the drivers: which of them enable the shortcuts is regenerated from their class bodies *)
Lemma driver_flags :
  auto_slot_of CIPDriver = false /\ auto_slot_of LogixDriver = true /\ auto_slot_of SLCDriver = true.
Proof. repeat split; reflexivity. Qed.

Theorem driver_init_sound d a sp hs :
  wf_route a = true -> wf_spelling sp a = true -> hops_of (auto_slot_of d) (r_shape a) = Some hs ->
  fits hs = true ->
  exists segs, driver_init d (render sp a)
               = Ok (mkCfg (r_host a) (match r_tcp a with Some p => p | None => TCP_DEFAULT end) segs)
               /\ forall pl, encode_route segs pl = Ok (route_wire pl hs).
Proof.
  intros Hwf Hsp Hh Hf.
  pose proof (parse_sound a sp (auto_slot_of d) true hs Hwf Hsp Hh Hf) as Ht.
  apply outcome_inr in Ht as [segs [Hp He]]. exists segs. split.
  - unfold driver_init. rewrite Hp. cbn [bind]. f_equal. f_equal.
    unfold wf_route in Hwf. apply andb_prop in Hwf as [Hwf _]. apply andb_prop in Hwf as [_ Ht].
    destruct (r_tcp a) as [p|]; [|reflexivity]. unfold wf_tcp in Ht.
    replace (p =? 0) with false by lia. reflexivity.
  - intros pl. pose proof (parse_sound a sp (auto_slot_of d) pl hs Hwf Hsp Hh Hf) as Ht'.
    apply outcome_inr in Ht' as [segs' [Hp' He']]. rewrite Hp in Hp'. injection Hp' as <-. exact He'.
Qed.

(* ---------------------------------------------------------------- rejection classes, stated on the
   fields of the string (split at / \ , and at ':'), each universally quantified *)
Fixpoint some_pair (P : text -> text -> bool) (fs : list text) : bool :=
  match fs with p :: l :: r => P p l || some_pair P r | _ => false end.
Definition route_fields (s : text) : list text := snd (fields is_sep s).
Definition tcp_fields (s : text) : list text := snd (fields is_colon (fst (fields is_sep s))).
Definition is_bad_hop (p l : text) : bool :=
  match classify_hop p l with HBad _ => true | _ => false end.

Lemma some_bad_pair fs : some_pair is_bad_hop fs = true -> exists c, classify_pairs fs = RouteReject c.
Proof.
  induction fs as [| a | p l r IH] using pairs_ind; cbn [some_pair]; try discriminate.
  intros H. cbn [classify_pairs]. unfold is_bad_hop in H.
  destruct (classify_hop p l) as [h| |c] eqn:Eh; cbn [orb] in H.
  - destruct (IH H) as [c Hc]. rewrite Hc. cbn. eauto.
  - destruct (IH H) as [c Hc]. rewrite Hc. cbn. eauto.
  - cbn. eauto.
Qed.

Definition rejected (s : text) (auto pl : bool) : Prop :=
  parse_connection_path s auto = Err RequestError
  \/ (exists h t segs, parse_connection_path s auto = Ok (h, t, segs) /\ encode_route segs pl = Err DataError).

Lemma rejected_outcome s auto pl : rejected s auto pl ->
  outcome s auto pl = inl RequestError \/ outcome s auto pl = inl DataError.
Proof. unfold outcome. intros [-> |[h [t [segs [-> ->]]]]]; auto. Qed.

Theorem odd_number_of_segments_rejected s auto :
  Nat.odd (List.length (route_fields s)) = true ->
  (auto = true -> List.length (route_fields s) <> 1%nat) ->
  parse_connection_path s auto = Err RequestError.
Proof.
  unfold route_fields. intros Ho Hn. apply odd_segments_rejected. rewrite ref_parse_eq. cbn [v_route].
  destruct (snd (fields is_sep s)) as [|a [|b r]]; [discriminate| |].
  - destruct auto; [exfalso; now apply Hn|reflexivity].
  - cbn [classify_route]. now rewrite Ho.
Qed.

Lemma even_pairs_route auto fs : (2 <= List.length fs)%nat -> Nat.even (List.length fs) = true ->
  classify_route auto fs = classify_pairs fs.
Proof.
  intros Hl He. destruct fs as [|a [|b r]]; cbn [List.length] in Hl; try lia.
  cbn [classify_route]. rewrite even_odd_len, He. reflexivity.
Qed.

Theorem bad_pair_rejected s auto pl :
  Nat.even (List.length (route_fields s)) = true -> some_pair is_bad_hop (route_fields s) = true ->
  rejected s auto pl.
Proof.
  unfold route_fields. intros He Hb. destruct (some_bad_pair _ Hb) as [c Hc].
  assert (Hl : (2 <= List.length (snd (fields is_sep s)))%nat).
  { destruct (snd (fields is_sep s)) as [|a [|b r]]; cbn in Hb; try discriminate. cbn. lia. }
  apply (bad_hop_rejected s auto pl c).
  - rewrite ref_parse_eq. cbn [v_route]. now rewrite (even_pairs_route auto _ Hl He).
  - intros ->. now apply (classify_pairs_not_odd _ He).
Qed.

(* unknown port name: neither a documented name nor a decimal number *)
Theorem unknown_port_name_rejected s auto pl :
  Nat.even (List.length (route_fields s)) = true ->
  some_pair (fun p _ => match lookup p doc_port_names with Some _ => false | None => negb (isdigit p) end)
            (route_fields s) = true ->
  rejected s auto pl.
Proof.
  intros He Hb. apply bad_pair_rejected; [exact He|].
  revert Hb. generalize (route_fields s). intros fs.
  induction fs as [| a | p l r IH] using pairs_ind; cbn [some_pair]; try discriminate.
  intros H. apply orb_prop in H as [H|H]; [|rewrite (IH H); apply orb_true_r].
  unfold is_bad_hop, classify_hop, classify_port.
  destruct (lookup p doc_port_names); [discriminate|]. destruct (isdigit p); [discriminate|]. reflexivity.
Qed.

(* link out of range: a decimal number above 255 (of any length the interpreter reads) *)
Theorem link_out_of_range_rejected s auto pl :
  Nat.even (List.length (route_fields s)) = true ->
  some_pair (fun _ l => isdigit l && numeral_ok l && (255 <? dval l)) (route_fields s) = true ->
  rejected s auto pl.
Proof.
  intros He Hb. apply bad_pair_rejected; [exact He|].
  revert Hb. generalize (route_fields s). intros fs.
  induction fs as [| a | p l r IH] using pairs_ind; cbn [some_pair]; try discriminate.
  intros H. apply orb_prop in H as [H|H]; [|rewrite (IH H); apply orb_true_r].
  apply andb_prop in H as [H H3]. apply andb_prop in H as [H1 H2].
  unfold is_bad_hop, classify_hop, classify_link. rewrite H1, H2. cbn [negb].
  replace (dval l <=? 255) with false by lia. destruct (classify_port p); reflexivity.
Qed.

(* a link that is neither a number nor a dotted quad (and has no ':') *)
Theorem malformed_link_rejected s auto pl :
  Nat.even (List.length (route_fields s)) = true ->
  some_pair (fun _ l => negb (isdigit l) && negb (existsb is_colon l) && negb (strict_quad l))
            (route_fields s) = true ->
  rejected s auto pl.
Proof.
  intros He Hb. apply bad_pair_rejected; [exact He|].
  revert Hb. generalize (route_fields s). intros fs.
  induction fs as [| a | p l r IH] using pairs_ind; cbn [some_pair]; try discriminate.
  intros H. apply orb_prop in H as [H|H]; [|rewrite (IH H); apply orb_true_r].
  apply andb_prop in H as [H H3]. apply andb_prop in H as [H1 H2].
  unfold is_bad_hop, classify_hop, classify_link.
  destruct (isdigit l); [discriminate|]. destruct (existsb is_colon l); [discriminate|].
  destruct (strict_quad l); [discriminate|]. destruct (classify_port p); reflexivity.
Qed.

(* the slot shortcut with a slot out of range / not a number *)
Theorem bad_slot_shortcut_rejected s pl l c :
  route_fields s = [l] -> classify_link l = LinkBad c -> rejected s true pl.
Proof.
  unfold route_fields. intros Hf Hl. apply (bad_hop_rejected s true pl c).
  - rewrite ref_parse_eq. cbn [v_route]. rewrite Hf. cbn [classify_route]. now rewrite Hl.
  - intros ->. now apply (classify_link_not_odd l).
Qed.

(* invalid TCP port *)
Theorem tcp_port_out_of_range_rejected s auto p :
  tcp_fields s = [p] -> isdigit p = true -> (dval p <= 0 \/ 65535 <= dval p) ->
  parse_connection_path s auto = Err RequestError.
Proof.
  unfold tcp_fields. intros Hf Hd Hr. apply bad_tcp_port_rejected. rewrite ref_parse_eq. cbn [v_tcp].
  rewrite Hf. cbn [classify_tcp]. rewrite Hd. unfold wf_tcp.
  replace ((1 <=? dval p) && (dval p <=? 65534)) with false by lia. reflexivity.
Qed.
Theorem tcp_port_non_numeric_rejected s auto p :
  tcp_fields s = [p] -> (existsb (fun c => negb (lenient_char c)) p = true \/ existsb is_ascii_digit p = false) ->
  parse_connection_path s auto = Err RequestError.
Proof.
  unfold tcp_fields. intros Hf Hc. apply bad_tcp_port_rejected. rewrite ref_parse_eq. cbn [v_tcp].
  rewrite Hf. cbn [classify_tcp].
  assert (Hd : isdigit p = false).
  { destruct (isdigit p) eqn:E; [|reflexivity]. exfalso. apply isdigit_forallb in E as [Hne Hd].
    destruct Hc as [Hc|Hc].
    - apply existsb_exists in Hc as [c [Hin Hc]]. rewrite forallb_forall in Hd. specialize (Hd c Hin).
      unfold lenient_char in Hc. rewrite Hd in Hc. discriminate.
    - destruct p as [|c r]; [contradiction|]. cbn [forallb existsb] in *. apply andb_prop in Hd as [Hd _].
      rewrite Hd in Hc. discriminate. }
  rewrite Hd. destruct Hc as [Hc|Hc].
  - replace (forallb lenient_char p) with false; [reflexivity|].
    symmetry. apply not_true_is_false. intros Hall. apply existsb_exists in Hc as [c [Hin Hc]].
    rewrite forallb_forall in Hall. rewrite (Hall c Hin) in Hc. discriminate.
  - rewrite Hc, andb_false_r. reflexivity.
Qed.
Theorem tcp_port_negative_rejected s auto p :
  tcp_fields s = [p] -> existsb (fun c => c =? 45) p = true ->
  parse_connection_path s auto = Err RequestError.
Proof.
  unfold tcp_fields. intros Hf Hm. apply bad_tcp_port_rejected. rewrite ref_parse_eq. cbn [v_tcp].
  rewrite Hf. cbn [classify_tcp].
  assert (Hd : isdigit p = false).
  { destruct (isdigit p) eqn:E; [|reflexivity]. exfalso. apply isdigit_forallb in E as [_ Hd].
    apply existsb_exists in Hm as [c [Hin Hc]]. rewrite forallb_forall in Hd. specialize (Hd c Hin).
    unfold is_ascii_digit in Hd. lia. }
  rewrite Hd, Hm. destruct (forallb lenient_char p && existsb is_ascii_digit p); reflexivity.
Qed.
Theorem several_colons_rejected s auto p q r :
  tcp_fields s = p :: q :: r -> parse_connection_path s auto = Err RequestError.
Proof.
  unfold tcp_fields. intros Hf. apply bad_tcp_port_rejected. rewrite ref_parse_eq. cbn [v_tcp].
  now rewrite Hf.
Qed.

(* ---------------------------------------------------------------- never bytes on error *)
Theorem never_bytes_on_error s auto pl :
  must_reject (ref_parse auto s) = true -> forall h t b, outcome s auto pl <> inr (h, t, b).
Proof. intros H h t b E. destruct (rejected_no_bytes s auto pl H) as [H'|H']; congruence. Qed.

(* ... nor on the other paths the stored route takes: Forward Open appends the message-router path *)
Lemma encode_segs_app segs more :
  encode_segs true (segs ++ more) =
  (let* a := encode_segs true segs in let* b := encode_segs true more in Ok (a ++ b)).
Proof.
  induction segs as [|x segs IH]; cbn [app encode_segs].
  - cbn [bind]. destruct (encode_segs true more); reflexivity.
  - rewrite IH. destruct (encode_seg true x); cbn [bind]; [|reflexivity].
    destruct (encode_segs true segs); cbn [bind]; [|reflexivity].
    destruct (encode_segs true more); cbn [bind]; [|reflexivity]. now rewrite app_assoc.
Qed.
Lemma USINT_encode_err z e : USINT_encode z = Err e -> z < 0 \/ 255 < z.
Proof.
  unfold USINT_encode, uint_encode, in_urange, pow256. change (256 ^ Z.of_nat 1) with 256.
  destruct ((0 <=? z) && (z <? 256)) eqn:E; [discriminate|]. intros _. lia.
Qed.
Lemma msg_router_bytes : encode_segs true msg_router_path = Ok [32; 2; 36; 1].
Proof. reflexivity. Qed.
Theorem forward_open_never_bytes_on_error segs pl e :
  encode_route segs pl = Err e -> forward_open_path segs pl = Err DataError.
Proof.
  unfold encode_route, forward_open_path, epath_encode, padded_PADDED_EPATH.
  rewrite encode_segs_app, msg_router_bytes.
  destruct (encode_segs true segs) as [path|e0]; cbn [bind wrap_all]; [|reflexivity].
  destruct (USINT_encode (len path / 2)) as [l|e1] eqn:E1; cbn [bind wrap_all]; [discriminate|].
  intros _. apply USINT_encode_err in E1.
  rewrite USINT_encode_big; [reflexivity|]. unfold len in *. rewrite app_length. cbn [List.length]. lia.
Qed.

(* ---------------------------------------------------------------- converse *)
Definition accepts (s : text) (auto pl : bool) : Prop := exists h t b, outcome s auto pl = inr (h, t, b).

Theorem accepts_in_grammar s auto pl : accepts s auto pl -> in_grammar auto s = true.
Proof.
  intros [h [t [b H]]]. unfold in_grammar. destruct (must_reject (ref_parse auto s)) eqn:E; [|reflexivity].
  exfalso. exact (never_bytes_on_error s auto pl E h t b H).
Qed.

(* the strict converse holds outside the zones about which the property is silent *)
Theorem accepts_in_grammar_strict_partial s auto pl :
  accepts s auto pl -> in_grammar_strict auto s = true \/ silent (ref_parse auto s) = true.
Proof.
  intros H. apply accepts_in_grammar in H. unfold in_grammar, must_reject in H.
  unfold in_grammar_strict, must_accept, silent.
  destruct (v_tcp (ref_parse auto s)); destruct (v_route (ref_parse auto s)) as [hs| |c];
    try discriminate; try (right; reflexivity); destruct (fits hs); auto.
Qed.

(* rendered strings are in the strict grammar *)
Theorem rendered_in_grammar a sp auto hs :
  wf_route a = true -> wf_spelling sp a = true -> hops_of auto (r_shape a) = Some hs -> fits hs = true ->
  in_grammar_strict auto (render sp a) = true.
Proof.
  intros Hwf Hsp Hh Hf. unfold in_grammar_strict, must_accept.
  rewrite (ref_parse_render a sp auto Hwf Hsp), Hh. cbn [v_tcp v_route].
  destruct (r_tcp a); cbn [tcp_reading]; now rewrite Hf.
Qed.

(* ---------------------------------------------------------------- side conditions discharged *)
(* every route of at most 25 hops has a wire form (the property speaks of 0-4 hops) *)
Lemma hop_bytes_len h : wf_hop h = true -> (List.length (hop_bytes h) <= 20)%nat.
Proof.
  unfold wf_hop. intros H. apply andb_prop in H as [_ Hl]. pose proof (link_bytes_len _ Hl) as Hlen.
  unfold hop_bytes. set (lb := link_bytes (h_link h)) in *.
  destruct (h_port h <? 15); destruct (1 <? tlen lb);
    repeat (rewrite app_length; cbn [List.length]);
    match goal with |- context [if ?b then _ else _] => destruct b end; cbn [List.length]; lia.
Qed.
Lemma hops_bytes_len hs : forallb wf_hop hs = true ->
  (List.length (hops_bytes hs) <= 20 * List.length hs)%nat.
Proof.
  induction hs as [|h hs IH]; cbn [forallb hops_bytes flat_map List.length]; [lia|].
  intros H. apply andb_prop in H as [H1 H2]. rewrite app_length.
  pose proof (hop_bytes_len h H1). specialize (IH H2). unfold hops_bytes in IH. lia.
Qed.
Theorem short_routes_fit hs : forallb wf_hop hs = true -> (List.length hs <= 25)%nat -> fits hs = true.
Proof.
  intros Hw Hl. pose proof (hops_bytes_len hs Hw). unfold fits, route_words, tlen. lia.
Qed.

(* every IPv4 address, given by its four octets, is a well-formed link *)
Lemma octet_print_sweep :
  forallb (fun k => octet (print_nat_z (Z.of_nat k))) (seq 0 256) = true.
Proof. vm_compute. reflexivity. Qed.
Lemma octet_print n : 0 <= n <= 255 -> octet (print_nat_z n) = true.
Proof.
  intros H. pose proof octet_print_sweep as S. rewrite forallb_forall in S.
  specialize (S (Z.to_nat n)). rewrite Z2Nat.id in S by lia. apply S. apply in_seq. lia.
Qed.
Lemma print_none_dot n : none_of is_dot (print_nat_z n) = true.
Proof.
  apply digits_none; [|apply print_nat_z_digits]. intros c. unfold is_ascii_digit, is_dot, DOT. lia.
Qed.
Theorem addr_of_octets_wf a b c d :
  0 <= a <= 255 -> 0 <= b <= 255 -> 0 <= c <= 255 -> 0 <= d <= 255 ->
  wf_link (Addr (addr_of_octets a b c d)) = true.
Proof.
  intros Ha Hb Hc Hd. cbn [wf_link]. unfold strict_quad, addr_of_octets. cbn [app].
  rewrite (fields_app_sep is_dot _ DOT _ (print_none_dot a) eq_refl).
  rewrite (fields_app_sep is_dot _ DOT _ (print_none_dot b) eq_refl).
  rewrite (fields_app_sep is_dot _ DOT _ (print_none_dot c) eq_refl).
  rewrite (fields_none is_dot _ (print_none_dot d)). cbn [fst snd].
  now rewrite !octet_print.
Qed.
