(* Proofs/SlcParseP.v — what parse_tag (Model/Slc.v) does on every spelled address.

   The texts are built from ARBITRARY digit runs (any digits, any leading zeros) within the length
   limits of the grammar; the regular-expression steps are discharged by the matcher lemmas of
   RegexP.v (greedy digit runs, first-character misses), never by enumerating addresses.  The only
   finite residues are the file letters and the timer/counter mnemonics in their letter cases.

   Per family of addresses (N/B/F/L word forms, S, I/O, Bf/n, T/C) the result is
       parse_tag text = if <the range checks of the code on the numbers the digit runs denote>
                        then PTag <fields> else PNone
   including the fall-through of a failed range check through the remaining patterns. *)
From Coq Require Import String.
From PV Require Import Base.Bytes Base.Proto Base.Res Base.PyStr Model.Regex Model.SlcVal Model.Slc.
From PV Require Import Gen.SlcTables Proofs.RegexP.
From Coq Require Import ZifyBool.
Open Scope Z_scope.
Ltac Zify.zify_post_hook ::= Z.to_euclidean_division_equations.

(* a digit run of at most [n] digits *)
Definition run (n : nat) (ds : text) : Prop := all_digits ds /\ ds <> [] /\ (length ds <= n)%nat.
(* any digit run *)
Definition anyrun (ds : text) : Prop := all_digits ds /\ ds <> [].

Lemma run_any n ds : run n ds -> anyrun ds.
Proof. intros (A & B & _). split; assumption. Qed.

Lemma run_len1 n ds : run n ds -> (1 <= length ds)%nat.
Proof. intros (_ & Hne & _). destruct ds; [congruence|cbn; lia]. Qed.

(* ---------------------------------------------------------------- character facts *)
Definition lcl (L x : Z) : Prop := lower_c L = x.        (* L is the letter x (given in lower case), in either case *)

Lemma digit_not_lit ic l d : is_ascii_digit d = true -> is_ascii_digit l = false -> (l < 65 \/ 90 < l) ->
  cc_match ic [CLit l] d = false.
Proof.
  intros Hd Hl Hr. cbn. rewrite orb_false_r. unfold is_ascii_digit in *.
  destruct ic; [unfold lower_c; destruct ((65 <=? d) && (d <=? 90)) eqn:E1; destruct ((65 <=? l) && (l <=? 90)) eqn:E2|]; lia.
Qed.

(* the patterns cannot start at a digit or at one of the punctuation characters of the grammar *)
Definition punct (c : Z) : Prop := c = 58 \/ c = 47 \/ c = 46 \/ c = 123 \/ c = 125.

Ltac cs_digit :=
  let d := fresh "d" in let H := fresh "H" in
  intros d H; unfold cannot_start; cbn; rewrite (lower_c_digit d H); unfold is_ascii_digit in H; lia.
Ltac cs_punct :=
  let c := fresh "c" in let H := fresh "H" in
  intros c H; unfold punct in H; unfold cannot_start;
  destruct H as [H|[H|[H|[H|H]]]]; subst c; reflexivity.

Lemma ct_digit : forall d, is_ascii_digit d = true -> cannot_start CT_RE d. Proof. cs_digit. Qed.
Lemma lfbn_digit : forall d, is_ascii_digit d = true -> cannot_start LFBN_RE d. Proof. cs_digit. Qed.
Lemma io_digit : forall d, is_ascii_digit d = true -> cannot_start IO_RE d. Proof. cs_digit. Qed.
Lemma st_digit : forall d, is_ascii_digit d = true -> cannot_start ST_RE d. Proof. cs_digit. Qed.
Lemma a_digit : forall d, is_ascii_digit d = true -> cannot_start A_RE d. Proof. cs_digit. Qed.
Lemma s_digit : forall d, is_ascii_digit d = true -> cannot_start S_RE d. Proof. cs_digit. Qed.
Lemma b_digit : forall d, is_ascii_digit d = true -> cannot_start B_RE d. Proof. cs_digit. Qed.
Lemma ct_punct : forall c, punct c -> cannot_start CT_RE c. Proof. cs_punct. Qed.
Lemma lfbn_punct : forall c, punct c -> cannot_start LFBN_RE c. Proof. cs_punct. Qed.
Lemma io_punct : forall c, punct c -> cannot_start IO_RE c. Proof. cs_punct. Qed.
Lemma st_punct : forall c, punct c -> cannot_start ST_RE c. Proof. cs_punct. Qed.
Lemma a_punct : forall c, punct c -> cannot_start A_RE c. Proof. cs_punct. Qed.
Lemma s_punct : forall c, punct c -> cannot_start S_RE c. Proof. cs_punct. Qed.
Lemma b_punct : forall c, punct c -> cannot_start B_RE c. Proof. cs_punct. Qed.

(* a letter, by its lower-case code *)
Ltac cs_letter := unfold cannot_start, lcl; intros; cbn; match goal with H : lower_c _ = _ |- _ => rewrite H end; reflexivity.

(* the alphabet of a spelled non-T/C address: its file letter aside, digits and punctuation *)
Definition body_char (c : Z) : Prop := is_ascii_digit c = true \/ punct c.

Lemma body_cannot_start rx :
  (forall d, is_ascii_digit d = true -> cannot_start rx d) -> (forall c, punct c -> cannot_start rx c) ->
  forall s, Forall body_char s -> Forall (cannot_start rx) s.
Proof.
  intros Hd Hp s H. eapply Forall_impl; [|exact H]. intros c [Hc|Hc]; auto.
Qed.

Lemma run_body n ds : run n ds -> Forall body_char ds.
Proof. intros (H & _). eapply Forall_impl; [|exact H]. intros c Hc. left. exact Hc. Qed.
Lemma anyrun_body ds : anyrun ds -> Forall body_char ds.
Proof. intros (H & _). eapply Forall_impl; [|exact H]. intros c Hc. left. exact Hc. Qed.

Ltac body :=
  repeat first
    [ apply Forall_nil
    | apply Forall_cons; [right; unfold punct; tauto|]
    | apply Forall_app; split
    | eapply run_body; eassumption
    | eapply anyrun_body; eassumption ].

(* search finds nothing in letter :: body when neither the letter nor the body can start the pattern *)
(* parse_tag applies the patterns with fullmatch (Gen/SlcTables.v: PARSE_TAG_FULLMATCH) *)
Lemma re_apply_full rx s : re_apply rx s = fullmatch rx s.
Proof. reflexivity. Qed.

(* the pattern does not match letter :: body when it cannot start at the letter *)
Lemma search_miss rx L s :
  nullable (rx_re rx) = false ->
  (forall d, is_ascii_digit d = true -> cannot_start rx d) -> (forall c, punct c -> cannot_start rx c) ->
  cannot_start rx L -> Forall body_char s -> re_apply rx (L :: s) = SNoMatch.
Proof. intros _ _ _ HL _. rewrite re_apply_full. apply fullmatch_first_miss. exact HL. Qed.

Lemma search_then_miss rx s k : re_apply rx s = SNoMatch -> search_then rx s k = PNone.
Proof. intros H. unfold search_then. rewrite H. reflexivity. Qed.
Lemma search_then_hit rx s k e g :
  fullmatch_here (S (length s)) rx s = Match e g -> search_then rx s k = k s g.
Proof. intros H. unfold search_then. rewrite re_apply_full, (fullmatch_hit _ _ _ _ H). reflexivity. Qed.

(* ---------------------------------------------------------------- tactics for a successful match *)
Ltac len_ok :=
  first [ assumption
        | match goal with H : run _ ?ds |- (1 <= length ?ds)%nat => exact (run_len1 _ _ H) end
        | match goal with H : run _ ?ds |- (length ?ds <= _)%nat => exact (proj2 (proj2 H)) end
        | lia ].
Ltac digits_ok :=
  match goal with
  | H : run _ ?ds |- all_digits ?ds => exact (proj1 H)
  | H : anyrun ?ds |- all_digits ?ds => exact (proj1 H)
  | H : run _ ?ds |- ?ds <> [] => exact (proj1 (proj2 H))
  | H : anyrun ?ds |- ?ds <> [] => exact (proj2 H)
  end.
Ltac end_ok := first [ right; exact I | right; reflexivity ].

Ltac rx1 :=
  first
    [ rewrite m_seq
    | rewrite m_group, m_chr_ok by (first [assumption | reflexivity]); cbv beta; rewrite ?span_cons1
    | rewrite m_chr_ok by reflexivity
    | eapply group_digits_ok; [digits_ok | len_ok | len_ok | end_ok | cbv beta]
    | eapply group_plus_digits_ok; [digits_ok | digits_ok | end_ok | len_ok | cbv beta]
    | rewrite m_opt_none by (first [apply first_miss; [lia | reflexivity] | apply empty_miss; [lia | reflexivity]])
    | apply m_opt_some; rewrite m_group; cbv beta
    | reflexivity ].
Ltac rx := repeat rx1.

(* ---------------------------------------------------------------- the pieces of a spelled address *)
Definition otext (o : option text) : text := match o with Some t => t | None => [] end.
Definition subpart (sub : option text) : text := match sub with Some w => 46 :: w | None => [] end.
Definition bitpart (bit : option text) : text := match bit with Some b => 47 :: b | None => [] end.
Definition cntpart (cnt : option text) : text := match cnt with Some c => 123 :: c ++ [125] | None => [] end.
Definition cnt_token (cnt : option text) : option text :=
  match cnt with Some c => Some (123 :: c ++ [125]) | None => None end.

Definition optrun (n : nat) (o : option text) : Prop := forall x, o = Some x -> run n x.
Definition optany (o : option text) : Prop := forall x, o = Some x -> anyrun x.
Definition optcnt (fuel : nat) (o : option text) : Prop := forall x, o = Some x -> anyrun x /\ (length x < fuel)%nat.

Ltac split_opts :=
  repeat match goal with
  | H : optrun _ (Some ?b) |- _ => pose proof (H b eq_refl); clear H
  | H : optrun _ None |- _ => clear H
  | H : optany (Some ?b) |- _ => pose proof (H b eq_refl); clear H
  | H : optany None |- _ => clear H
  | H : optcnt _ (Some ?c) |- _ => destruct (H c eq_refl); clear H
  | H : optcnt _ None |- _ => clear H
  end.

(* success-form steps as implications, applied only on the syntactic shape they are meant for
   (rewriting would also find instances modulo unfolding of [m]) *)
Lemma a_seq fuel ic a b s g k R :
  m fuel ic a s g (fun s' g' => m fuel ic b s' g' k) = R -> m fuel ic (Seq a b) s g k = R.
Proof. intros H. exact H. Qed.
Lemma a_group fuel ic i nm a s g k R :
  m fuel ic a s g (fun s' g' => k s' (gset i (span s s') g')) = R -> m fuel ic (Group i nm a) s g k = R.
Proof. intros H. exact H. Qed.
Lemma a_chr fuel ic cs c s g k R :
  cc_match ic cs c = true -> k s g = R -> m fuel ic (Chr cs) (c :: s) g k = R.
Proof. intros H1 H2. rewrite m_chr_ok by exact H1. exact H2. Qed.
Lemma a_group_chr fuel ic i nm cs c s g k R :
  cc_match ic cs c = true -> k s (gset i [c] g) = R -> m fuel ic (Group i nm (Chr cs)) (c :: s) g k = R.
Proof. intros H1 H2. rewrite m_group, m_chr_ok by exact H1. rewrite span_cons1. exact H2. Qed.
Lemma a_opt_none fuel ic a s g k R :
  m fuel ic a s g k = NoMatch -> k s g = R -> m fuel ic (Opt a) s g k = R.
Proof. intros H1 H2. rewrite m_opt_none by exact H1. exact H2. Qed.

Ltac rx1' :=
  lazymatch goal with
  | |- m _ _ (Seq _ _) _ _ _ = _ => apply a_seq
  | |- m _ _ (Group _ _ (Chr _)) (_ :: _) _ _ = _ => apply a_group_chr; [first [assumption | reflexivity] | cbv beta]
  | |- m _ _ (Chr _) (_ :: _) _ _ = _ => apply a_chr; [reflexivity | cbv beta]
  | |- m _ _ (Group _ _ (Rep _ _ (Chr [CDigit]))) _ _ _ = _ =>
      eapply group_digits_ok; [digits_ok | len_ok | len_ok | end_ok | cbv beta]
  | |- m _ _ (Group _ _ (Plus (Chr [CDigit]))) _ _ _ = _ =>
      eapply group_plus_digits_ok; [digits_ok | digits_ok | first [exact I | reflexivity] | len_ok | cbv beta]
  | |- m _ _ (Opt _) _ _ _ = _ =>
      first [ apply a_opt_none; [first [apply first_miss; [lia | reflexivity] | apply empty_miss; [lia | reflexivity]] | cbv beta]
            | apply m_opt_some ]
  | |- m _ _ (Group _ _ _) _ _ _ = _ => apply a_group
  | |- _ => reflexivity
  end.
Ltac rx' := repeat rx1'.
Ltac ggets := repeat split; cbn [gget gset Nat.eqb]; rewrite ?span_cons, ?span_nil; reflexivity.

Ltac cnt_fuel :=
  let c := fresh "c" in let Ec := fresh "Ec" in
  intros c Ec; split; [match goal with H : optany _ |- _ => exact (H _ Ec) end|];
  repeat match goal with x := _ |- _ => subst x end; subst; cbn [cntpart];
  repeat (rewrite app_length || cbn [length]); lia.

Lemma optcnt_of s (cnt : option text) pre post :
  optany cnt -> s = pre ++ cntpart cnt ++ post -> optcnt (S (length s)) cnt.
Proof.
  intros H E c Ec. split; [auto|]. subst cnt s. cbn [cntpart].
  repeat (rewrite app_length || cbn [length]). lia.
Qed.

(* ---------------------------------------------------------------- successful matches *)
Lemma lfbn_match fuel L f e bit cnt : (0 < fuel)%nat ->
  (lcl L 108 \/ lcl L 102 \/ lcl L 98 \/ lcl L 110) -> run 3 f -> run 3 e -> optrun 2 bit -> optcnt fuel cnt ->
  exists g, fullmatch_here fuel LFBN_RE (L :: f ++ 58 :: e ++ bitpart bit ++ cntpart cnt) = Match [] g
   /\ gget 1 g = Some [L] /\ gget 2 g = Some f /\ gget 4 g = Some e /\ gget 6 g = bit
   /\ gget 7 g = cnt_token cnt /\ gget 8 g = cnt.
Proof.
  intros Hfuel HL Hf He Hb Hc.
  assert (HLm : cc_match true [CLit 76; CLit 70; CLit 66; CLit 78] L = true).
  { unfold lcl in HL. cbn. destruct HL as [H|[H|[H|H]]]; rewrite H; reflexivity. }
  destruct bit as [b|]; destruct cnt as [c|]; split_opts;
    cbn [bitpart cntpart cnt_token app]; eexists;
    (split; [unfold fullmatch_here, LFBN_RE, LFBN_RE_ast; cbn [rx_re rx_ic]; rx' | ggets]).
Qed.

Lemma s_match fuel L e bit cnt : (0 < fuel)%nat ->
  lcl L 115 -> run 3 e -> optrun 2 bit -> optcnt fuel cnt ->
  exists g, fullmatch_here fuel S_RE (L :: 58 :: e ++ bitpart bit ++ cntpart cnt) = Match [] g
   /\ gget 1 g = Some [L] /\ gget 3 g = Some e /\ gget 5 g = bit /\ gget 6 g = cnt_token cnt /\ gget 7 g = cnt.
Proof.
  intros Hfuel HL He Hb Hc.
  assert (HLm : cc_match true [CLit 83] L = true) by (unfold lcl in HL; cbn; rewrite HL; reflexivity).
  destruct bit as [b|]; destruct cnt as [c|]; split_opts;
    cbn [bitpart cntpart cnt_token app]; eexists;
    (split; [unfold fullmatch_here, S_RE, S_RE_ast; cbn [rx_re rx_ic]; rx' | ggets]).
Qed.

Lemma io_match fuel L file e sub bit cnt : (0 < fuel)%nat ->
  (lcl L 105 \/ lcl L 111) -> optrun 3 file -> run 3 e -> optrun 3 sub -> optrun 2 bit -> optcnt fuel cnt ->
  exists g, fullmatch_here fuel IO_RE (L :: otext file ++ 58 :: e ++ subpart sub ++ bitpart bit ++ cntpart cnt) = Match [] g
   /\ gget 1 g = Some [L] /\ gget 4 g = Some e /\ gget 7 g = sub /\ gget 9 g = bit
   /\ gget 10 g = cnt_token cnt /\ gget 11 g = cnt /\ gget 2 g = file.
Proof.
  intros Hfuel HL Hfile He Hs Hb Hc.
  assert (HLm : cc_match true [CLit 73; CLit 79] L = true).
  { unfold lcl in HL. cbn. destruct HL as [H|H]; rewrite H; reflexivity. }
  destruct file as [fl|]; destruct sub as [w|]; destruct bit as [b|]; destruct cnt as [c|]; split_opts;
    cbn [otext subpart bitpart cntpart cnt_token app]; eexists;
    (split; [unfold fullmatch_here, IO_RE, IO_RE_ast; cbn [rx_re rx_ic]; rx' | ggets]).
Qed.

Lemma b_match fuel L f n cnt : (0 < fuel)%nat ->
  lcl L 98 -> run 3 f -> run 4 n -> optcnt fuel cnt ->
  exists g, fullmatch_here fuel B_RE (L :: f ++ 47 :: n ++ cntpart cnt) = Match [] g
   /\ gget 1 g = Some [L] /\ gget 2 g = Some f /\ gget 4 g = Some n /\ gget 5 g = cnt_token cnt /\ gget 6 g = cnt.
Proof.
  intros Hfuel HL Hf Hn Hc.
  assert (HLm : cc_match true [CLit 66] L = true) by (unfold lcl in HL; cbn; rewrite HL; reflexivity).
  destruct cnt as [c|]; split_opts; cbn [cntpart cnt_token app]; eexists;
    (split; [unfold fullmatch_here, B_RE, B_RE_ast; cbn [rx_re rx_ic]; rx' | ggets]).
Qed.

(* timer / counter mnemonics (the keys of PCCC_CT) in every letter case: a finite set *)
Fixpoint case_variants (t : text) : list text :=
  match t with
  | [] => [[]]
  | c :: r => flat_map (fun v => [upper_c c :: v; lower_c c :: v]) (case_variants r)
  end.
Definition mn_variants : list text := flat_map case_variants (map fst pccc_ct).

Lemma ct_match fuel L f e mn : (0 < fuel)%nat ->
  (lcl L 99 \/ lcl L 116) -> run 3 f -> run 3 e -> In mn mn_variants ->
  exists g, fullmatch_here fuel CT_RE (L :: f ++ 58 :: e ++ 46 :: mn) = Match [] g
   /\ gget 1 g = Some [L] /\ gget 2 g = Some f /\ gget 4 g = Some e /\ gget 6 g = Some mn.
Proof.
  intros Hfuel HL Hf He Hmn.
  assert (HLm : cc_match true [CLit 67; CLit 84] L = true).
  { unfold lcl in HL. cbn. destruct HL as [H|H]; rewrite H; reflexivity. }
  vm_compute in Hmn.
  repeat (destruct Hmn as [Hmn|Hmn]; [subst mn; eexists;
    (split; [unfold fullmatch_here, CT_RE, CT_RE_ast; cbn [rx_re rx_ic]; rx' | ggets])|]).
  contradiction.
Qed.

(* ---------------------------------------------------------------- group lookups by name *)
Lemma gi_ct g :
  gi CT_RE g "file_number" = Ok (gget 2 g) /\ gi CT_RE g "element_number" = Ok (gget 4 g) /\
  gi CT_RE g "file_type" = Ok (gget 1 g) /\ gi CT_RE g "sub_element" = Ok (gget 6 g).
Proof. repeat split; reflexivity. Qed.
Lemma gi_lfbn g :
  gi LFBN_RE g "_elem_cnt_token" = Ok (gget 7 g) /\ gi LFBN_RE g "sub_element" = Ok (gget 6 g) /\
  gi LFBN_RE g "file_number" = Ok (gget 2 g) /\ gi LFBN_RE g "element_number" = Ok (gget 4 g) /\
  gi LFBN_RE g "element_count" = Ok (gget 8 g) /\ gi LFBN_RE g "file_type" = Ok (gget 1 g).
Proof. repeat split; reflexivity. Qed.
Lemma gi_io g :
  gi IO_RE g "_elem_cnt_token" = Ok (gget 10 g) /\ gi IO_RE g "file_type" = Ok (gget 1 g) /\
  gi IO_RE g "position_number" = Ok (gget 7 g) /\ gi IO_RE g "sub_element" = Ok (gget 9 g) /\
  gi IO_RE g "element_number" = Ok (gget 4 g) /\ gi IO_RE g "element_count" = Ok (gget 11 g) /\
  gi IO_RE g "file_number" = Ok (gget 2 g).
Proof. repeat split; reflexivity. Qed.
Lemma gi_s g :
  gi S_RE g "_elem_cnt_token" = Ok (gget 6 g) /\ gi S_RE g "element_count" = Ok (gget 7 g) /\
  gi S_RE g "sub_element" = Ok (gget 5 g) /\ gi S_RE g "element_number" = Ok (gget 3 g) /\
  gi S_RE g "file_type" = Ok (gget 1 g).
Proof. repeat split; reflexivity. Qed.
Lemma gi_b g :
  gi B_RE g "file_number" = Ok (gget 2 g) /\ gi B_RE g "element_number" = Ok (gget 4 g) /\
  gi B_RE g "_elem_cnt_token" = Ok (gget 5 g) /\ gi B_RE g "element_count" = Ok (gget 6 g) /\
  gi B_RE g "file_type" = Ok (gget 1 g).
Proof. repeat split; reflexivity. Qed.

(* ---------------------------------------------------------------- the steps of parse_tag on a match *)
Definition mk (ft : text) (file el : Z) (pos sub : option Z) (af cnt : Z) (nm : text) : tagd :=
  {| t_file_type := ft; t_file_number := file; t_element_number := el; t_pos_number := pos;
     t_sub_element := sub; t_address_field := af; t_element_count := cnt; t_tag := nm |}.
Definition cntval (cnt : option text) : Z := match cnt with Some c => dval c | None => 1 end.
Definition optrange (lo hi : Z) (o : option text) : bool :=
  match o with Some b => in_range lo hi (dval b) | None => true end.
Definition optval (o : option text) : Z := match o with Some b => dval b | None => 0 end.
Definition af_of (bit : option text) : Z := match bit with Some _ => 3 | None => 2 end.

Ltac pyints :=
  repeat match goal with
  | H : run _ ?ds |- context [py_int ?ds] => rewrite (py_int_digits ds (proj1 H) (proj1 (proj2 H)))
  | H : anyrun ?ds |- context [py_int ?ds] => rewrite (py_int_digits ds (proj1 H) (proj2 H))
  end.

Definition lfbn (L : Z) : Prop := lcl L 108 \/ lcl L 102 \/ lcl L 98 \/ lcl L 110.
Definition io (L : Z) : Prop := lcl L 105 \/ lcl L 111.
Definition tc (L : Z) : Prop := lcl L 99 \/ lcl L 116.

Lemma step_lfbn_ok L f e bit cnt :
  lfbn L -> run 3 f -> run 3 e -> optrun 2 bit -> optany cnt ->
  let s := L :: f ++ 58 :: e ++ bitpart bit ++ cntpart cnt in
  step_lfbn s =
    if in_range 1 255 (dval f) && in_range 0 255 (dval e) && optrange 0 15 bit
    then PTag (mk (upper [L]) (dval f) (dval e) None (option_map dval bit) (af_of bit)
                  (cntval cnt) (tag_name_of s (cnt_token cnt)))
    else PNone.
Proof.
  intros HL Hf He Hb Hc s.
  destruct (lfbn_match (S (length s)) L f e bit cnt) as (g & Hm & G1 & G2 & G4 & G6 & G7 & G8); try assumption; [lia| |].
  { cnt_fuel. }
  unfold step_lfbn. fold s. rewrite (search_then_hit _ _ _ _ _ Hm).
  destruct (gi_lfbn g) as (E7 & E6 & E2 & E4 & E8 & E1). rewrite E7, E6, E2, E4, E8, E1, G1, G2, G4, G6, G7, G8.
  cbn [pbind int_of text_of]. pyints. cbn [pbind].
  destruct bit as [b|]; destruct cnt as [c|]; cbn [optrange option_map cntval count_of cnt_token af_of];
    split_opts; pyints; cbn [pbind int_of text_of];
    destruct (in_range 1 255 (dval f)); destruct (in_range 0 255 (dval e)); cbn [andb pbind]; pyints; cbn [pbind];
    try reflexivity; destruct (in_range 0 15 (dval b)); reflexivity.
Qed.

Lemma step_s_ok L e bit cnt :
  lcl L 115 -> run 3 e -> optrun 2 bit -> optany cnt ->
  let s := L :: 58 :: e ++ bitpart bit ++ cntpart cnt in
  step_s s =
    if in_range 0 255 (dval e) && optrange 0 15 bit
    then PTag (mk (upper [L]) 2 (dval e) None (option_map dval bit) (af_of bit) (cntval cnt)
                  (match bit with Some _ => s | None => tag_name_of s (cnt_token cnt) end))
    else PNone.
Proof.
  intros HL He Hb Hc s.
  destruct (s_match (S (length s)) L e bit cnt) as (g & Hm & G1 & G3 & G5 & G6 & G7); try assumption; [lia| |].
  { cnt_fuel. }
  unfold step_s. fold s. rewrite (search_then_hit _ _ _ _ _ Hm).
  destruct (gi_s g) as (E6 & E7 & E5 & E3 & E1). rewrite E6, E7, E5, E3, E1, G1, G3, G5, G6, G7.
  cbn [pbind int_of text_of]. pyints. cbn [pbind].
  destruct bit as [b|]; destruct cnt as [c|]; cbn [optrange option_map cntval count_of cnt_token af_of];
    split_opts; pyints; cbn [pbind int_of text_of];
    destruct (in_range 0 255 (dval e)); cbn [andb pbind]; pyints; cbn [pbind];
    try reflexivity; destruct (in_range 0 15 (dval b)); cbn [pbind count_of]; pyints; reflexivity.
Qed.

Definition io_file (L : Z) : Z := if text_eqb (upper [L]) [79] then 0 else 1.

(* the I/O branch: `return None` (PStop) when a spelled file number is not the I/O file's *)
Definition io_file_ok (L : Z) (file : option text) : bool :=
  match file with Some f => dval f =? io_file L | None => true end.

Lemma step_io_ok L file e sub bit cnt :
  io L -> optrun 3 file -> run 3 e -> optrun 3 sub -> optrun 2 bit -> optany cnt ->
  let s := L :: otext file ++ 58 :: e ++ subpart sub ++ bitpart bit ++ cntpart cnt in
  step_io s =
    if io_file_ok L file then
      if in_range 0 255 (dval e) && optrange 0 15 bit
      then PTag (mk (upper [L]) (io_file L) (dval e) (Some (optval sub)) (Some (optval bit)) (af_of bit)
                    (cntval cnt) (tag_name_of s (cnt_token cnt)))
      else PNone
    else PStop.
Proof.
  intros HL Hfile He Hs Hb Hc s.
  destruct (io_match (S (length s)) L file e sub bit cnt) as (g & Hm & G1 & G4 & G7 & G9 & G10 & G11 & G2); try assumption; [lia| |].
  { cnt_fuel. }
  unfold step_io. fold s. rewrite (search_then_hit _ _ _ _ _ Hm).
  destruct (gi_io g) as (E10 & E1 & E7 & E9 & E4 & E11 & E2). rewrite E10, E1, E7, E9, E4, E11, E2, G1, G2, G4, G7, G9, G10, G11.
  cbn [pbind int_of text_of]. fold (io_file L).
  assert (Hio : in_range 0 255 (io_file L) = true) by (unfold io_file; destruct (text_eqb (upper [L]) [79]); reflexivity).
  unfold io_file_ok.
  destruct file as [f|]; destruct sub as [w|]; destruct bit as [b|]; destruct cnt as [c|];
    cbn [optrange optval option_map cntval count_of cnt_token af_of];
    split_opts; pyints; cbn [pbind int_of text_of bind]; rewrite ?Hio;
    try (destruct (dval f =? io_file L); cbn [negb]; [|reflexivity]);
    destruct (in_range 0 255 (dval e)); cbn [andb pbind negb]; pyints; cbn [pbind];
    try reflexivity; destruct (in_range 0 15 (dval b)); cbn [pbind count_of]; pyints; reflexivity.
Qed.

Lemma step_b_ok L f n cnt :
  lcl L 98 -> run 3 f -> run 4 n -> optany cnt ->
  let s := L :: f ++ 47 :: n ++ cntpart cnt in
  step_b s =
    if in_range 1 255 (dval f) && in_range 0 4095 (dval n)
    then PTag (mk (upper [L]) (dval f) (dval n / 16) None (Some (dval n - dval n / 16 * 16)) 3
                  (cntval cnt) (tag_name_of s (cnt_token cnt)))
    else PNone.
Proof.
  intros HL Hf Hn Hc s.
  destruct (b_match (S (length s)) L f n cnt) as (g & Hm & G1 & G2 & G4 & G5 & G6); try assumption; [lia| |].
  { cnt_fuel. }
  unfold step_b. fold s. rewrite (search_then_hit _ _ _ _ _ Hm).
  destruct (gi_b g) as (E2 & E4 & E5 & E6 & E1). rewrite E2, E4, E5, E6, E1, G1, G2, G4, G5, G6.
  cbn [pbind int_of text_of]. pyints. cbn [pbind].
  destruct cnt as [c|]; cbn [cntval count_of cnt_token]; split_opts;
    destruct (in_range 1 255 (dval f)); cbn [andb pbind]; pyints; cbn [pbind]; try reflexivity;
    destruct (in_range 0 4095 (dval n)); cbn [pbind count_of]; pyints; reflexivity.
Qed.

Lemma mn_code mn : In mn mn_variants -> exists code, dict_get pccc_ct (upper mn) = Ok code.
Proof.
  intros H. vm_compute in H.
  repeat (destruct H as [H|H]; [subst mn; eexists; vm_compute; reflexivity|]). contradiction.
Qed.

Lemma step_ct_ok L f e mn code :
  tc L -> run 3 f -> run 3 e -> In mn mn_variants -> dict_get pccc_ct (upper mn) = Ok code ->
  let s := L :: f ++ 58 :: e ++ 46 :: mn in
  step_ct s =
    if in_range 1 255 (dval f) && in_range 0 255 (dval e)
    then PTag (mk (upper [L]) (dval f) (dval e) None (Some code) 3 1 s)
    else PNone.
Proof.
  intros HL Hf He Hmn Hcode s.
  destruct (ct_match (S (length s)) L f e mn) as (g & Hm & G1 & G2 & G4 & G6); try assumption; [lia|].
  unfold step_ct. fold s. rewrite (search_then_hit _ _ _ _ _ Hm).
  destruct (gi_ct g) as (E2 & E4 & E1 & E6). rewrite E2, E4, E1, E6, G1, G2, G4, G6.
  cbn [pbind int_of text_of]. pyints. cbn [pbind]. rewrite Hcode.
  destruct (in_range 1 255 (dval f)); cbn [andb pbind]; pyints; cbn [pbind]; try reflexivity;
    destruct (in_range 0 255 (dval e)); reflexivity.
Qed.

(* ---------------------------------------------------------------- patterns that find nothing *)
Lemma step_ct_none s : re_apply CT_RE s = SNoMatch -> step_ct s = PNone.
Proof. apply search_then_miss. Qed.
Lemma step_lfbn_none s : re_apply LFBN_RE s = SNoMatch -> step_lfbn s = PNone.
Proof. apply search_then_miss. Qed.
Lemma step_io_none s : re_apply IO_RE s = SNoMatch -> step_io s = PNone.
Proof. apply search_then_miss. Qed.
Lemma step_plain_none rx s : re_apply rx s = SNoMatch -> step_plain rx s = PNone.
Proof. apply search_then_miss. Qed.
Lemma step_s_none s : re_apply S_RE s = SNoMatch -> step_s s = PNone.
Proof. apply search_then_miss. Qed.
Lemma step_b_none s : re_apply B_RE s = SNoMatch -> step_b s = PNone.
Proof. apply search_then_miss. Qed.

Ltac cs_l H := unfold cannot_start; cbn; rewrite H; reflexivity.

(* [miss rx L] : the pattern cannot start at the letter L (L given by its lower-case code) *)
Ltac miss_simple :=
  match goal with
  | |- re_apply CT_RE _ = SNoMatch => apply search_miss; [reflexivity | exact ct_digit | exact ct_punct | | ]
  | |- re_apply LFBN_RE _ = SNoMatch => apply search_miss; [reflexivity | exact lfbn_digit | exact lfbn_punct | | ]
  | |- re_apply IO_RE _ = SNoMatch => apply search_miss; [reflexivity | exact io_digit | exact io_punct | | ]
  | |- re_apply ST_RE _ = SNoMatch => apply search_miss; [reflexivity | exact st_digit | exact st_punct | | ]
  | |- re_apply A_RE _ = SNoMatch => apply search_miss; [reflexivity | exact a_digit | exact a_punct | | ]
  | |- re_apply S_RE _ = SNoMatch => apply search_miss; [reflexivity | exact s_digit | exact s_punct | | ]
  | |- re_apply B_RE _ = SNoMatch => apply search_miss; [reflexivity | exact b_digit | exact b_punct | | ]
  end.

(* ST_RE on a status address: "S" matches, then ":" is not "T" *)
Lemma st_miss_status L rest : lcl L 115 -> Forall body_char rest -> re_apply ST_RE (L :: 58 :: rest) = SNoMatch.
Proof.
  intros HL Hr. rewrite re_apply_full. apply fullmatch_miss.
  unfold fullmatch_here, ST_RE, ST_RE_ast. cbn [rx_re rx_ic].
  apply a_seq, a_group, a_seq, a_chr; [unfold lcl in HL; cbn; rewrite HL; reflexivity|].
  cbv beta. apply m_chr_miss. reflexivity.
Qed.

(* LFBN_RE on Bf/n: after the file number comes "/", not ":" *)
Lemma lfbn_miss_flat L f rest : lcl L 98 -> anyrun f -> Forall body_char rest ->
  re_apply LFBN_RE (L :: f ++ 47 :: rest) = SNoMatch.
Proof.
  intros HL Hf Hr. rewrite re_apply_full. apply fullmatch_miss.
  unfold fullmatch_here, LFBN_RE, LFBN_RE_ast. cbn [rx_re rx_ic].
  apply a_seq, a_group_chr; [unfold lcl in HL; cbn; rewrite HL; reflexivity|]. cbv beta.
  apply group_digits_then_lit_miss; [exact (proj1 Hf) | reflexivity | reflexivity |].
  intros d Hd. apply digit_not_lit; [exact Hd | reflexivity | lia].
Qed.

(* B_RE on Bf:e : after the file number comes ":", not "/" *)
Lemma b_miss_colon L f rest : lcl L 98 -> anyrun f -> Forall body_char rest ->
  re_apply B_RE (L :: f ++ 58 :: rest) = SNoMatch.
Proof.
  intros HL Hf Hr. rewrite re_apply_full. apply fullmatch_miss.
  unfold fullmatch_here, B_RE, B_RE_ast. cbn [rx_re rx_ic].
  apply a_seq, a_group_chr; [unfold lcl in HL; cbn; rewrite HL; reflexivity|]. cbv beta.
  apply group_digits_then_lit_miss; [exact (proj1 Hf) | reflexivity | reflexivity |].
  intros d Hd. apply digit_not_lit; [exact Hd | reflexivity | lia].
Qed.

Lemma body_parts (sub bit cnt : option text) :
  optrun 3 sub -> optrun 2 bit -> optany cnt -> Forall body_char (subpart sub ++ bitpart bit ++ cntpart cnt).
Proof.
  intros Hs Hb Hc. destruct sub; destruct bit; destruct cnt; split_opts; cbn [subpart bitpart cntpart app]; body.
Qed.
Lemma body_parts2 (bit cnt : option text) :
  optrun 2 bit -> optany cnt -> Forall body_char (bitpart bit ++ cntpart cnt).
Proof. intros Hb Hc. apply (body_parts None bit cnt); [intros x Hx; discriminate | assumption | assumption]. Qed.
Lemma body_cnt (cnt : option text) : optany cnt -> Forall body_char (cntpart cnt).
Proof. intros Hc. destruct cnt; split_opts; cbn [cntpart]; body. Qed.

Ltac body2 :=
  repeat first
    [ apply Forall_nil
    | apply body_parts; assumption
    | apply body_parts2; assumption
    | apply body_cnt; assumption
    | assumption
    | apply Forall_cons; [right; unfold punct; tauto|]
    | apply Forall_app; split
    | eapply run_body; eassumption
    | eapply anyrun_body; eassumption ].

(* ---------------------------------------------------------------- the families *)
Definition keep (c : bool) (t : tagd) : pres := if c then PTag t else PNone.

Theorem parse_lfbn L f e bit cnt :
  lfbn L -> run 3 f -> run 3 e -> optrun 2 bit -> optany cnt ->
  let s := L :: f ++ 58 :: e ++ bitpart bit ++ cntpart cnt in
  parse_tag s =
    keep (in_range 1 255 (dval f) && in_range 0 255 (dval e) && optrange 0 15 bit)
         (mk (upper [L]) (dval f) (dval e) None (option_map dval bit) (af_of bit) (cntval cnt)
             (tag_name_of s (cnt_token cnt))).
Proof.
  intros HL Hf He Hb Hc s.
  assert (Hbody : Forall body_char (f ++ 58 :: e ++ bitpart bit ++ cntpart cnt)).
  { body2. }
  assert (Hrest : Forall body_char (e ++ bitpart bit ++ cntpart cnt)).
  { body2. }
  unfold parse_tag, orelse.
  rewrite step_ct_none by (miss_simple; [destruct HL as [H|[H|[H|H]]]; cs_l H | exact Hbody]).
  pose proof (step_lfbn_ok L f e bit cnt HL Hf He Hb Hc) as E. cbv zeta in E. fold s in E. rewrite E.
  unfold keep. destruct (in_range 1 255 (dval f) && in_range 0 255 (dval e) && optrange 0 15 bit); [reflexivity|].
  rewrite step_io_none by (miss_simple; [destruct HL as [H|[H|[H|H]]]; cs_l H | exact Hbody]).
  rewrite step_plain_none by (miss_simple; [destruct HL as [H|[H|[H|H]]]; cs_l H | exact Hbody]).
  rewrite step_plain_none by (miss_simple; [destruct HL as [H|[H|[H|H]]]; cs_l H | exact Hbody]).
  rewrite step_s_none by (miss_simple; [destruct HL as [H|[H|[H|H]]]; cs_l H | exact Hbody]).
  rewrite step_b_none; [reflexivity|].
  destruct HL as [H|[H|[H|H]]]; try (miss_simple; [cs_l H | exact Hbody]).
  apply b_miss_colon; [exact H|exact (run_any _ _ Hf)|exact Hrest].
Qed.

Theorem parse_s L e bit cnt :
  lcl L 115 -> run 3 e -> optrun 2 bit -> optany cnt ->
  let s := L :: 58 :: e ++ bitpart bit ++ cntpart cnt in
  parse_tag s =
    keep (in_range 0 255 (dval e) && optrange 0 15 bit)
         (mk (upper [L]) 2 (dval e) None (option_map dval bit) (af_of bit) (cntval cnt)
             (match bit with Some _ => s | None => tag_name_of s (cnt_token cnt) end)).
Proof.
  intros HL He Hb Hc s.
  assert (Hrest : Forall body_char (e ++ bitpart bit ++ cntpart cnt)).
  { body2. }
  assert (Hbody : Forall body_char (58 :: e ++ bitpart bit ++ cntpart cnt)) by body2.
  unfold parse_tag, orelse.
  rewrite step_ct_none by (miss_simple; [cs_l HL | exact Hbody]).
  rewrite step_lfbn_none by (miss_simple; [cs_l HL | exact Hbody]).
  rewrite step_io_none by (miss_simple; [cs_l HL | exact Hbody]).
  rewrite step_plain_none by (apply st_miss_status; assumption).
  rewrite step_plain_none by (miss_simple; [cs_l HL | exact Hbody]).
  pose proof (step_s_ok L e bit cnt HL He Hb Hc) as E. cbv zeta in E. fold s in E. rewrite E.
  unfold keep. destruct (in_range 0 255 (dval e) && optrange 0 15 bit); [reflexivity|].
  rewrite step_b_none; [reflexivity|]. miss_simple; [cs_l HL | exact Hbody].
Qed.

Theorem parse_io L file e sub bit cnt :
  io L -> optrun 3 file -> run 3 e -> optrun 3 sub -> optrun 2 bit -> optany cnt ->
  let s := L :: otext file ++ 58 :: e ++ subpart sub ++ bitpart bit ++ cntpart cnt in
  parse_tag s =
    keep (io_file_ok L file && (in_range 0 255 (dval e) && optrange 0 15 bit))
         (mk (upper [L]) (io_file L) (dval e) (Some (optval sub)) (Some (optval bit)) (af_of bit)
             (cntval cnt) (tag_name_of s (cnt_token cnt))).
Proof.
  intros HL Hfile He Hs Hb Hc s.
  assert (Hbody : Forall body_char (otext file ++ 58 :: e ++ subpart sub ++ bitpart bit ++ cntpart cnt)).
  { destruct file; split_opts; cbn [otext app]; body2. }
  unfold parse_tag, orelse.
  rewrite step_ct_none by (miss_simple; [destruct HL as [H|H]; cs_l H | exact Hbody]).
  rewrite step_lfbn_none by (miss_simple; [destruct HL as [H|H]; cs_l H | exact Hbody]).
  pose proof (step_io_ok L file e sub bit cnt HL Hfile He Hs Hb Hc) as E. cbv zeta in E. fold s in E. rewrite E.
  unfold keep. destruct (io_file_ok L file); [|reflexivity]. cbn [andb].
  destruct (in_range 0 255 (dval e) && optrange 0 15 bit); [reflexivity|].
  rewrite step_plain_none by (miss_simple; [destruct HL as [H|H]; cs_l H | exact Hbody]).
  rewrite step_plain_none by (miss_simple; [destruct HL as [H|H]; cs_l H | exact Hbody]).
  rewrite step_s_none by (miss_simple; [destruct HL as [H|H]; cs_l H | exact Hbody]).
  rewrite step_b_none; [reflexivity|]. miss_simple; [destruct HL as [H|H]; cs_l H | exact Hbody].
Qed.

Theorem parse_flat L f n cnt :
  lcl L 98 -> run 3 f -> run 4 n -> optany cnt ->
  let s := L :: f ++ 47 :: n ++ cntpart cnt in
  parse_tag s =
    keep (in_range 1 255 (dval f) && in_range 0 4095 (dval n))
         (mk (upper [L]) (dval f) (dval n / 16) None (Some (dval n - dval n / 16 * 16)) 3 (cntval cnt)
             (tag_name_of s (cnt_token cnt))).
Proof.
  intros HL Hf Hn Hc s.
  assert (Hrest : Forall body_char (n ++ cntpart cnt)) by body2.
  assert (Hbody : Forall body_char (f ++ 47 :: n ++ cntpart cnt)) by body2.
  unfold parse_tag, orelse.
  rewrite step_ct_none by (miss_simple; [cs_l HL | exact Hbody]).
  rewrite step_lfbn_none by (apply lfbn_miss_flat; [exact HL|exact (run_any _ _ Hf)|exact Hrest]).
  rewrite step_io_none by (miss_simple; [cs_l HL | exact Hbody]).
  rewrite step_plain_none by (miss_simple; [cs_l HL | exact Hbody]).
  rewrite step_plain_none by (miss_simple; [cs_l HL | exact Hbody]).
  rewrite step_s_none by (miss_simple; [cs_l HL | exact Hbody]).
  pose proof (step_b_ok L f n cnt HL Hf Hn Hc) as E. cbv zeta in E. fold s in E. rewrite E.
  unfold keep. destruct (in_range 1 255 (dval f) && in_range 0 4095 (dval n)); reflexivity.
Qed.

Lemma tc_search_miss rx L f e mn :
  In rx [LFBN_RE; IO_RE; ST_RE; A_RE; S_RE; B_RE] ->
  nullable (rx_re rx) = false ->
  (forall d, is_ascii_digit d = true -> cannot_start rx d) -> (forall c, punct c -> cannot_start rx c) ->
  cannot_start rx L -> run 3 f -> run 3 e -> In mn mn_variants ->
  re_apply rx (L :: f ++ 58 :: e ++ 46 :: mn) = SNoMatch.
Proof. intros _ _ _ _ HL _ _ _. rewrite re_apply_full. apply fullmatch_first_miss. exact HL. Qed.

Theorem parse_tc L f e mn code :
  tc L -> run 3 f -> run 3 e -> In mn mn_variants -> dict_get pccc_ct (upper mn) = Ok code ->
  let s := L :: f ++ 58 :: e ++ 46 :: mn in
  parse_tag s =
    keep (in_range 1 255 (dval f) && in_range 0 255 (dval e))
         (mk (upper [L]) (dval f) (dval e) None (Some code) 3 1 s).
Proof.
  intros HL Hf He Hmn Hcode s.
  unfold parse_tag, orelse.
  pose proof (step_ct_ok L f e mn code HL Hf He Hmn Hcode) as E. cbv zeta in E. fold s in E. rewrite E.
  unfold keep. destruct (in_range 1 255 (dval f) && in_range 0 255 (dval e)); [reflexivity|].
  rewrite step_lfbn_none by (apply tc_search_miss; try assumption;
    [cbn; tauto | reflexivity | exact lfbn_digit | exact lfbn_punct | destruct HL as [H|H]; cs_l H]).
  rewrite step_io_none by (apply tc_search_miss; try assumption;
    [cbn; tauto | reflexivity | exact io_digit | exact io_punct | destruct HL as [H|H]; cs_l H]).
  rewrite step_plain_none by (apply tc_search_miss; try assumption;
    [cbn; tauto | reflexivity | exact st_digit | exact st_punct | destruct HL as [H|H]; cs_l H]).
  rewrite step_plain_none by (apply tc_search_miss; try assumption;
    [cbn; tauto | reflexivity | exact a_digit | exact a_punct | destruct HL as [H|H]; cs_l H]).
  rewrite step_s_none by (apply tc_search_miss; try assumption;
    [cbn; tauto | reflexivity | exact s_digit | exact s_punct | destruct HL as [H|H]; cs_l H]).
  rewrite step_b_none; [reflexivity|]. apply tc_search_miss; try assumption;
    [cbn; tauto | reflexivity | exact b_digit | exact b_punct | destruct HL as [H|H]; cs_l H].
Qed.

(* ---------------------------------------------------------------- unsupported file letters *)
Definition supported_lower : list Z := [105; 111; 99; 116; 108; 102; 98; 110; 115; 97].   (* i o c t l f b n s a *)

Theorem parse_unsupported c rest :
  ~ In (lower_c c) supported_lower -> Forall body_char rest -> parse_tag (c :: rest) = PNone.
Proof.
  intros Hc Hr.
  assert (N : forall x, In x supported_lower -> (lower_c c =? x) = false).
  { intros x Hx. destruct (lower_c c =? x) eqn:E; [|reflexivity]. exfalso. apply Hc. replace (lower_c c) with x by lia. exact Hx. }
  assert (CS : forall rx, In rx [CT_RE; LFBN_RE; IO_RE; ST_RE; A_RE; S_RE; B_RE] -> cannot_start rx c).
  { intros rx Hrx. unfold cannot_start.
    repeat (destruct Hrx as [Hrx|Hrx]; [subst rx; cbn; rewrite ?N by (cbn; tauto); reflexivity|]). contradiction. }
  unfold parse_tag, orelse.
  rewrite step_ct_none by (miss_simple; [apply CS; cbn; tauto | exact Hr]).
  rewrite step_lfbn_none by (miss_simple; [apply CS; cbn; tauto | exact Hr]).
  rewrite step_io_none by (miss_simple; [apply CS; cbn; tauto | exact Hr]).
  rewrite step_plain_none by (miss_simple; [apply CS; cbn; tauto | exact Hr]).
  rewrite step_plain_none by (miss_simple; [apply CS; cbn; tauto | exact Hr]).
  rewrite step_s_none by (miss_simple; [apply CS; cbn; tauto | exact Hr]).
  rewrite step_b_none; [reflexivity|]. miss_simple; [apply CS; cbn; tauto | exact Hr].
Qed.

(* ---------------------------------------------------------------- a file number of more than three digits *)
Lemma search_pos0_miss rx L s :
  nullable (rx_re rx) = false ->
  (forall d, is_ascii_digit d = true -> cannot_start rx d) -> (forall c, punct c -> cannot_start rx c) ->
  Forall body_char s -> fullmatch_here (S (length (L :: s))) rx (L :: s) = NoMatch -> re_apply rx (L :: s) = SNoMatch.
Proof. intros _ _ _ _ Hm. rewrite re_apply_full. apply fullmatch_miss. exact Hm. Qed.

Lemma digit_not_colon : forall d, is_ascii_digit d = true -> cc_match true [CLit 58] d = false.
Proof. intros d H. apply digit_not_lit; [exact H|reflexivity|lia]. Qed.
Lemma digit_not_slash : forall d, is_ascii_digit d = true -> cc_match true [CLit 47] d = false.
Proof. intros d H. apply digit_not_lit; [exact H|reflexivity|lia]. Qed.

Lemma lfbn_long_file fuel L f rest : lfbn L -> all_digits f -> (3 < length f)%nat ->
  fullmatch_here fuel LFBN_RE (L :: f ++ rest) = NoMatch.
Proof.
  intros HL Hf Hl. unfold fullmatch_here, LFBN_RE, LFBN_RE_ast. cbn [rx_re rx_ic].
  apply a_seq, a_group_chr; [unfold lfbn, lcl in HL; cbn; destruct HL as [H|[H|[H|H]]]; rewrite H; reflexivity|]. cbv beta.
  apply group_digits_overlong; [exact Hf|exact Hl|exact digit_not_colon].
Qed.

Lemma b_long_file fuel L f rest : lcl L 98 -> all_digits f -> (3 < length f)%nat ->
  fullmatch_here fuel B_RE (L :: f ++ rest) = NoMatch.
Proof.
  intros HL Hf Hl. unfold fullmatch_here, B_RE, B_RE_ast. cbn [rx_re rx_ic].
  apply a_seq, a_group_chr; [unfold lcl in HL; cbn; rewrite HL; reflexivity|]. cbv beta.
  apply group_digits_overlong; [exact Hf|exact Hl|exact digit_not_slash].
Qed.

Lemma ct_long_file fuel L f rest : tc L -> all_digits f -> (3 < length f)%nat ->
  fullmatch_here fuel CT_RE (L :: f ++ rest) = NoMatch.
Proof.
  intros HL Hf Hl. unfold fullmatch_here, CT_RE, CT_RE_ast. cbn [rx_re rx_ic].
  apply a_seq, a_group_chr; [unfold tc, lcl in HL; cbn; destruct HL as [H|H]; rewrite H; reflexivity|]. cbv beta.
  apply group_digits_overlong; [exact Hf|exact Hl|exact digit_not_colon].
Qed.

Lemma io_long_file fuel L f rest : (0 < fuel)%nat -> io L -> all_digits f -> (3 < length f)%nat ->
  fullmatch_here fuel IO_RE (L :: f ++ rest) = NoMatch.
Proof.
  intros Hfu HL Hf Hl. unfold fullmatch_here, IO_RE, IO_RE_ast. cbn [rx_re rx_ic].
  apply a_seq, a_group_chr; [unfold io, lcl in HL; cbn; destruct HL as [H|H]; rewrite H; reflexivity|]. cbv beta.
  apply a_seq. apply a_opt_none.
  - match goal with |- m ?fu ?ic (Group ?i ?nm (Rep ?lo ?hi ?d)) ?s ?g (fun s' g' => m _ _ (Seq (Group ?j ?nm' (Chr [CLit ?w])) ?r) s' g' ?k) = _ =>
      change (m fu ic (Seq (Group i nm (Rep lo hi d)) (Seq (Group j nm' (Chr [CLit w])) r)) s g k = NoMatch) end.
    apply group_digits_overlong; [exact Hf|exact Hl|exact digit_not_colon].
  - cbv beta. destruct f as [|d f]; [cbn in Hl; lia|]. inversion Hf; subst. cbn [app].
    apply first_miss; [exact Hfu|]. cbn. rewrite lower_c_digit by assumption.
    match goal with H : is_ascii_digit d = true |- _ => unfold is_ascii_digit in H end. lia.
Qed.

Lemma tc_search_miss_any rx L f e mn :
  In rx [LFBN_RE; IO_RE; ST_RE; A_RE; S_RE; B_RE] ->
  nullable (rx_re rx) = false ->
  (forall d, is_ascii_digit d = true -> cannot_start rx d) -> (forall c, punct c -> cannot_start rx c) ->
  cannot_start rx L -> anyrun f -> anyrun e -> In mn mn_variants ->
  re_apply rx (L :: f ++ 58 :: e ++ 46 :: mn) = SNoMatch.
Proof. intros _ _ _ _ HL _ _ _. rewrite re_apply_full. apply fullmatch_first_miss. exact HL. Qed.

Lemma ct_long_search L f e mn : tc L -> anyrun f -> (3 < length f)%nat -> anyrun e -> In mn mn_variants ->
  re_apply CT_RE (L :: f ++ 58 :: e ++ 46 :: mn) = SNoMatch.
Proof.
  intros HL Hf Hl He Hmn. rewrite re_apply_full. apply fullmatch_miss.
  apply ct_long_file; [exact HL|exact (proj1 Hf)|exact Hl].
Qed.

(* a file number of more than three digits is never accepted, whatever follows *)
Theorem long_file_lfbn L f rest : lfbn L -> anyrun f -> (3 < length f)%nat -> Forall body_char rest ->
  parse_tag (L :: f ++ rest) = PNone.
Proof.
  intros HL Hf Hl Hr.
  assert (Hbody : Forall body_char (f ++ rest)) by body2.
  unfold parse_tag, orelse.
  rewrite step_ct_none by (miss_simple; [destruct HL as [H|[H|[H|H]]]; cs_l H | exact Hbody]).
  rewrite step_lfbn_none by (apply search_pos0_miss; [reflexivity|exact lfbn_digit|exact lfbn_punct|exact Hbody|
                              apply lfbn_long_file; [exact HL|exact (proj1 Hf)|exact Hl]]).
  rewrite step_io_none by (miss_simple; [destruct HL as [H|[H|[H|H]]]; cs_l H | exact Hbody]).
  rewrite step_plain_none by (miss_simple; [destruct HL as [H|[H|[H|H]]]; cs_l H | exact Hbody]).
  rewrite step_plain_none by (miss_simple; [destruct HL as [H|[H|[H|H]]]; cs_l H | exact Hbody]).
  rewrite step_s_none by (miss_simple; [destruct HL as [H|[H|[H|H]]]; cs_l H | exact Hbody]).
  rewrite step_b_none; [reflexivity|].
  destruct HL as [H|[H|[H|H]]]; try (miss_simple; [cs_l H | exact Hbody]).
  apply search_pos0_miss; [reflexivity|exact b_digit|exact b_punct|exact Hbody|].
  apply b_long_file; [exact H|exact (proj1 Hf)|exact Hl].
Qed.

Theorem long_file_io L f rest : io L -> anyrun f -> (3 < length f)%nat -> Forall body_char rest ->
  parse_tag (L :: f ++ rest) = PNone.
Proof.
  intros HL Hf Hl Hr.
  assert (Hbody : Forall body_char (f ++ rest)) by body2.
  unfold parse_tag, orelse.
  rewrite step_ct_none by (miss_simple; [destruct HL as [H|H]; cs_l H | exact Hbody]).
  rewrite step_lfbn_none by (miss_simple; [destruct HL as [H|H]; cs_l H | exact Hbody]).
  rewrite step_io_none by (apply search_pos0_miss; [reflexivity|exact io_digit|exact io_punct|exact Hbody|
                            apply io_long_file; [lia|exact HL|exact (proj1 Hf)|exact Hl]]).
  rewrite step_plain_none by (miss_simple; [destruct HL as [H|H]; cs_l H | exact Hbody]).
  rewrite step_plain_none by (miss_simple; [destruct HL as [H|H]; cs_l H | exact Hbody]).
  rewrite step_s_none by (miss_simple; [destruct HL as [H|H]; cs_l H | exact Hbody]).
  rewrite step_b_none; [reflexivity|]. miss_simple; [destruct HL as [H|H]; cs_l H | exact Hbody].
Qed.

Theorem long_file_tc L f e mn : tc L -> anyrun f -> (3 < length f)%nat -> anyrun e -> In mn mn_variants ->
  parse_tag (L :: f ++ 58 :: e ++ 46 :: mn) = PNone.
Proof.
  intros HL Hf Hl He Hmn.
  unfold parse_tag, orelse.
  rewrite step_ct_none by (apply ct_long_search; assumption).
  rewrite step_lfbn_none by (apply tc_search_miss_any; try assumption;
    [cbn; tauto | reflexivity | exact lfbn_digit | exact lfbn_punct | destruct HL as [H|H]; cs_l H]).
  rewrite step_io_none by (apply tc_search_miss_any; try assumption;
    [cbn; tauto | reflexivity | exact io_digit | exact io_punct | destruct HL as [H|H]; cs_l H]).
  rewrite step_plain_none by (apply tc_search_miss_any; try assumption;
    [cbn; tauto | reflexivity | exact st_digit | exact st_punct | destruct HL as [H|H]; cs_l H]).
  rewrite step_plain_none by (apply tc_search_miss_any; try assumption;
    [cbn; tauto | reflexivity | exact a_digit | exact a_punct | destruct HL as [H|H]; cs_l H]).
  rewrite step_s_none by (apply tc_search_miss_any; try assumption;
    [cbn; tauto | reflexivity | exact s_digit | exact s_punct | destruct HL as [H|H]; cs_l H]).
  rewrite step_b_none; [reflexivity|]. apply tc_search_miss_any; try assumption;
    [cbn; tauto | reflexivity | exact b_digit | exact b_punct | destruct HL as [H|H]; cs_l H].
Qed.

(* ---------------------------------------------------------------- element / word / bit runs longer than the grammar allows *)
(* With fullmatch nothing may be left over: after at most hi digits of a longer run the next
   character is a digit, which neither the next literal nor the end of the text accepts. *)
Definition longrun (n : nat) (ds : text) : Prop := all_digits ds /\ (n < length ds)%nat.

Ltac blind :=
  let d := fresh "d" in let s0 := fresh "s0" in let g0 := fresh "g0" in let Hd := fresh "Hd" in
  intros d s0 g0 Hd; cbv beta;
  repeat first
    [ reflexivity
    | apply first_miss; [lia | cbn; rewrite ?(lower_c_digit d Hd); unfold is_ascii_digit in Hd; lia]
    | apply m_skip; [lia | cbn; rewrite ?(lower_c_digit d Hd); unfold is_ascii_digit in Hd; lia | intros ?; cbv beta] ].

Ltac nod := first [exact I | reflexivity].

Ltac fl1 :=
  lazymatch goal with
  | |- m _ _ (Seq _ _) _ _ _ = _ => apply a_seq
  | |- m _ _ (Group _ _ (Chr _)) (_ :: _) _ _ = _ => apply a_group_chr; [first [assumption | reflexivity] | cbv beta]
  | |- m _ _ (Chr _) (_ :: _) _ _ = _ => apply a_chr; [reflexivity | cbv beta]
  | |- m _ _ (Group _ _ (Rep _ _ (Chr [CDigit]))) (?ds ++ _) _ _ = _ =>
      first [ apply group_digits_overlong_k; [match goal with H : longrun _ ds |- _ => exact (proj1 H) end
                                             | match goal with H : longrun _ ds |- _ => exact (proj2 H) end | blind]
            | apply a_group_digits; [digits_ok | len_ok | len_ok | nod | blind | cbv beta] ]
  | |- m _ _ (Opt _) _ _ _ = _ =>
      apply a_opt_none; [first [apply first_miss; [lia | reflexivity] | apply empty_miss; [lia | reflexivity] | idtac] | cbv beta]
  | |- m _ _ (Group _ _ _) _ _ _ = _ => apply a_group
  | |- at_end (_ :: _) _ = _ => reflexivity
  end.
Ltac fl := repeat fl1.

Lemma lfbn_letter_match L : lfbn L -> cc_match true [CLit 76; CLit 70; CLit 66; CLit 78] L = true.
Proof. unfold lfbn, lcl. intros HL. cbn. destruct HL as [H|[H|[H|H]]]; rewrite H; reflexivity. Qed.
Lemma io_letter_match L : io L -> cc_match true [CLit 73; CLit 79] L = true.
Proof. unfold io, lcl. intros HL. cbn. destruct HL as [H|H]; rewrite H; reflexivity. Qed.
Lemma tc_letter_match L : tc L -> cc_match true [CLit 67; CLit 84] L = true.
Proof. unfold tc, lcl. intros HL. cbn. destruct HL as [H|H]; rewrite H; reflexivity. Qed.

Lemma lfbn_long_elem fuel L f e rest : (0 < fuel)%nat -> lfbn L -> run 3 f -> longrun 3 e ->
  fullmatch_here fuel LFBN_RE (L :: f ++ 58 :: e ++ rest) = NoMatch.
Proof.
  intros Hfu HL Hf He. pose proof (lfbn_letter_match L HL) as HLm.
  unfold fullmatch_here, LFBN_RE, LFBN_RE_ast. cbn [rx_re rx_ic]. fl.
Qed.

Lemma lfbn_long_bit fuel L f e b rest : (0 < fuel)%nat -> lfbn L -> run 3 f -> run 3 e -> longrun 2 b ->
  fullmatch_here fuel LFBN_RE (L :: f ++ 58 :: e ++ 47 :: b ++ rest) = NoMatch.
Proof.
  intros Hfu HL Hf He Hb. pose proof (lfbn_letter_match L HL) as HLm.
  unfold fullmatch_here, LFBN_RE, LFBN_RE_ast. cbn [rx_re rx_ic]. fl.
Qed.

Lemma s_long_elem fuel L e rest : (0 < fuel)%nat -> lcl L 115 -> longrun 3 e ->
  fullmatch_here fuel S_RE (L :: 58 :: e ++ rest) = NoMatch.
Proof.
  intros Hfu HL He. assert (HLm : cc_match true [CLit 83] L = true) by (unfold lcl in HL; cbn; rewrite HL; reflexivity).
  unfold fullmatch_here, S_RE, S_RE_ast. cbn [rx_re rx_ic]. fl.
Qed.

Lemma s_long_bit fuel L e b rest : (0 < fuel)%nat -> lcl L 115 -> run 3 e -> longrun 2 b ->
  fullmatch_here fuel S_RE (L :: 58 :: e ++ 47 :: b ++ rest) = NoMatch.
Proof.
  intros Hfu HL He Hb. assert (HLm : cc_match true [CLit 83] L = true) by (unfold lcl in HL; cbn; rewrite HL; reflexivity).
  unfold fullmatch_here, S_RE, S_RE_ast. cbn [rx_re rx_ic]. fl.
Qed.

Lemma b_long_n fuel L f n rest : (0 < fuel)%nat -> lcl L 98 -> run 3 f -> longrun 4 n ->
  fullmatch_here fuel B_RE (L :: f ++ 47 :: n ++ rest) = NoMatch.
Proof.
  intros Hfu HL Hf Hn. assert (HLm : cc_match true [CLit 66] L = true) by (unfold lcl in HL; cbn; rewrite HL; reflexivity).
  unfold fullmatch_here, B_RE, B_RE_ast. cbn [rx_re rx_ic]. fl.
Qed.

(* an optional digit group that is present, on the way to a failure *)
Lemma a_opt_group_digits fuel ic i nm lo hi ds rest g k :
  all_digits ds -> (1 <= length ds)%nat -> (lo <= length ds)%nat -> (length ds <= hi)%nat -> nodigit_head rest ->
  digit_blind k -> k rest (gset i ds g) = NoMatch ->
  m fuel ic (Opt (Group i nm (Rep lo hi (Chr [CDigit])))) (ds ++ rest) g k = NoMatch.
Proof.
  intros Hd H1 Hlo Hhi Hend Hk HR. apply a_opt_none.
  - apply a_group_digits; assumption.
  - destruct ds as [|d ds]; [cbn in H1; lia|]. inversion Hd; subst. cbn [app]. apply Hk. assumption.
Qed.

Ltac fl1' :=
  lazymatch goal with
  | |- m _ _ (Opt (Group _ _ (Rep _ _ (Chr [CDigit])))) (?ds ++ _) _ _ = _ =>
      apply a_opt_group_digits; [digits_ok | len_ok | len_ok | len_ok | nod | blind | cbv beta]
  | |- _ => fl1
  end.
Ltac fl' := repeat fl1'.

Lemma io_long_elem fuel L file e rest : (0 < fuel)%nat -> io L -> optrun 3 file -> longrun 3 e ->
  fullmatch_here fuel IO_RE (L :: otext file ++ 58 :: e ++ rest) = NoMatch.
Proof.
  intros Hfu HL Hfile He. pose proof (io_letter_match L HL) as HLm.
  unfold fullmatch_here, IO_RE, IO_RE_ast. cbn [rx_re rx_ic].
  destruct file as [fl0|]; split_opts; cbn [otext app]; fl'.
Qed.

Lemma io_long_sub fuel L file e w rest : (0 < fuel)%nat -> io L -> optrun 3 file -> run 3 e -> longrun 3 w ->
  fullmatch_here fuel IO_RE (L :: otext file ++ 58 :: e ++ 46 :: w ++ rest) = NoMatch.
Proof.
  intros Hfu HL Hfile He Hw. pose proof (io_letter_match L HL) as HLm.
  unfold fullmatch_here, IO_RE, IO_RE_ast. cbn [rx_re rx_ic].
  destruct file as [fl0|]; split_opts; cbn [otext app]; fl'.
Qed.

Lemma io_long_bit fuel L file e sub b rest : (0 < fuel)%nat -> io L -> optrun 3 file -> run 3 e -> optrun 3 sub -> longrun 2 b ->
  fullmatch_here fuel IO_RE (L :: otext file ++ 58 :: e ++ subpart sub ++ 47 :: b ++ rest) = NoMatch.
Proof.
  intros Hfu HL Hfile He Hs Hb. pose proof (io_letter_match L HL) as HLm.
  unfold fullmatch_here, IO_RE, IO_RE_ast. cbn [rx_re rx_ic].
  destruct file as [fl0|]; destruct sub as [w|]; split_opts; cbn [otext subpart app]; fl'.
Qed.

(* T/C: after the element comes "any character" and a mnemonic; a fourth element digit is taken
   as that character and then the mnemonic does not start with a letter *)
Lemma ct_long_elem fuel L f e rest : (0 < fuel)%nat -> tc L -> run 3 f -> longrun 3 e ->
  fullmatch_here fuel CT_RE (L :: f ++ 58 :: e ++ 46 :: rest) = NoMatch.
Proof.
  intros Hfu HL Hf [He Hl]. pose proof (tc_letter_match L HL) as HLm.
  unfold fullmatch_here, CT_RE, CT_RE_ast. cbn [rx_re rx_ic].
  apply a_seq, a_group_chr; [exact HLm|]. cbv beta.
  apply a_seq, a_group_digits; [digits_ok | len_ok | len_ok | nod | blind |]. cbv beta.
  apply a_seq, a_group_chr; [reflexivity|]. cbv beta. apply a_seq.
  match goal with |- m ?fu ?ic (Group ?i ?nm (Rep ?lo ?hi _)) ?s ?g ?k = _ =>
    change (rep_loop (m fu ic (Chr [CDigit])) lo hi s g (fun s' g' => k s' (gset i (span s s') g')) = NoMatch) end.
  apply rep_loop_fail_idx with (P := fun n s => exists ds', all_digits ds' /\ (n < length ds')%nat /\ s = ds' ++ 46 :: rest).
  - intros n x s (ds' & Hds' & Hn & E) Hx. destruct ds' as [|d ds']; [cbn in Hn; lia|].
    cbn [app] in E. injection E as E1 E2. subst. inversion Hds'; subst. exists ds'. repeat split; [assumption|cbn in Hn; lia].
  - intros n s g0 (ds' & Hds' & Hn & E). subst s. cbv beta.
    destruct ds' as [|d ds']; [cbn in Hn; lia|]. inversion Hds' as [|? ? Hd Hds'']; subst. cbn [app].
    apply a_seq, a_group_chr; [cbn; unfold is_ascii_digit in Hd; destruct (d =? 10) eqn:E; [lia|reflexivity]|]. cbv beta.
    destruct ds' as [|d2 ds']; cbn [app].
    + apply first_miss; [lia|reflexivity].
    + inversion Hds'' as [|? ? Hd2 _]; subst. apply first_miss; [lia|].
      cbn. rewrite (lower_c_digit d2 Hd2). unfold is_ascii_digit in Hd2. lia.
  - exists e. repeat split; assumption.
Qed.

(* ---- the families: a run longer than the grammar allows makes parse_tag return None *)
Ltac other_miss HL Hbody := miss_simple; [first [cs_l HL | destruct HL as [H|[H|[H|H]]]; cs_l H | destruct HL as [H|H]; cs_l H] | exact Hbody].

Theorem long_lfbn L f rest body :
  lfbn L -> run 3 f -> Forall body_char body -> rest = 58 :: body ->
  fullmatch_here (S (length (L :: f ++ rest))) LFBN_RE (L :: f ++ rest) = NoMatch ->
  parse_tag (L :: f ++ rest) = PNone.
Proof.
  intros HL Hf Hb -> Hm.
  assert (Hbody : Forall body_char (f ++ 58 :: body)) by body2.
  unfold parse_tag, orelse.
  rewrite step_ct_none by (other_miss HL Hbody).
  rewrite step_lfbn_none by (rewrite re_apply_full; apply fullmatch_miss; exact Hm).
  rewrite step_io_none by (other_miss HL Hbody).
  rewrite step_plain_none by (other_miss HL Hbody).
  rewrite step_plain_none by (other_miss HL Hbody).
  rewrite step_s_none by (other_miss HL Hbody).
  rewrite step_b_none; [reflexivity|].
  destruct HL as [H|[H|[H|H]]]; try (miss_simple; [cs_l H | exact Hbody]).
  apply b_miss_colon; [exact H|exact (run_any _ _ Hf)|exact Hb].
Qed.

Theorem long_s L body :
  lcl L 115 -> Forall body_char body ->
  fullmatch_here (S (length (L :: 58 :: body))) S_RE (L :: 58 :: body) = NoMatch ->
  parse_tag (L :: 58 :: body) = PNone.
Proof.
  intros HL Hb Hm.
  assert (Hbody : Forall body_char (58 :: body)) by body2.
  unfold parse_tag, orelse.
  rewrite step_ct_none by (other_miss HL Hbody).
  rewrite step_lfbn_none by (other_miss HL Hbody).
  rewrite step_io_none by (other_miss HL Hbody).
  rewrite step_plain_none by (apply st_miss_status; assumption).
  rewrite step_plain_none by (other_miss HL Hbody).
  rewrite step_s_none by (rewrite re_apply_full; apply fullmatch_miss; exact Hm).
  rewrite step_b_none; [reflexivity|]. other_miss HL Hbody.
Qed.

Theorem long_io L body :
  io L -> Forall body_char body ->
  fullmatch_here (S (length (L :: body))) IO_RE (L :: body) = NoMatch ->
  parse_tag (L :: body) = PNone.
Proof.
  intros HL Hbody Hm.
  unfold parse_tag, orelse.
  rewrite step_ct_none by (other_miss HL Hbody).
  rewrite step_lfbn_none by (other_miss HL Hbody).
  rewrite step_io_none by (rewrite re_apply_full; apply fullmatch_miss; exact Hm).
  rewrite step_plain_none by (other_miss HL Hbody).
  rewrite step_plain_none by (other_miss HL Hbody).
  rewrite step_s_none by (other_miss HL Hbody).
  rewrite step_b_none; [reflexivity|]. other_miss HL Hbody.
Qed.

Theorem long_flat L f n rest :
  lcl L 98 -> run 3 f -> longrun 4 n -> Forall body_char rest ->
  parse_tag (L :: f ++ 47 :: n ++ rest) = PNone.
Proof.
  intros HL Hf Hn Hr.
  assert (Hrest : Forall body_char (n ++ rest)).
  { apply Forall_app. split; [|exact Hr]. eapply Forall_impl; [|exact (proj1 Hn)]. intros c Hc. left. exact Hc. }
  assert (Hbody : Forall body_char (f ++ 47 :: n ++ rest)) by body2.
  unfold parse_tag, orelse.
  rewrite step_ct_none by (other_miss HL Hbody).
  rewrite step_lfbn_none by (apply lfbn_miss_flat; [exact HL|exact (run_any _ _ Hf)|exact Hrest]).
  rewrite step_io_none by (other_miss HL Hbody).
  rewrite step_plain_none by (other_miss HL Hbody).
  rewrite step_plain_none by (other_miss HL Hbody).
  rewrite step_s_none by (other_miss HL Hbody).
  rewrite step_b_none; [reflexivity|]. rewrite re_apply_full. apply fullmatch_miss. apply b_long_n; [lia|assumption..].
Qed.

Theorem long_tc L f e mn :
  tc L -> run 3 f -> longrun 3 e -> In mn mn_variants ->
  parse_tag (L :: f ++ 58 :: e ++ 46 :: mn) = PNone.
Proof.
  intros HL Hf He Hmn.
  assert (Ae : anyrun e).
  { destruct He as [A B]. split; [exact A|]. destruct e; [cbn in B; lia|congruence]. }
  unfold parse_tag, orelse.
  rewrite step_ct_none by (rewrite re_apply_full; apply fullmatch_miss; apply ct_long_elem; [lia|assumption..]).
  rewrite step_lfbn_none by (apply tc_search_miss_any; try assumption; try exact (run_any _ _ Hf);
    [cbn; tauto | reflexivity | exact lfbn_digit | exact lfbn_punct | destruct HL as [H|H]; cs_l H]).
  rewrite step_io_none by (apply tc_search_miss_any; try assumption; try exact (run_any _ _ Hf);
    [cbn; tauto | reflexivity | exact io_digit | exact io_punct | destruct HL as [H|H]; cs_l H]).
  rewrite step_plain_none by (apply tc_search_miss_any; try assumption; try exact (run_any _ _ Hf);
    [cbn; tauto | reflexivity | exact st_digit | exact st_punct | destruct HL as [H|H]; cs_l H]).
  rewrite step_plain_none by (apply tc_search_miss_any; try assumption; try exact (run_any _ _ Hf);
    [cbn; tauto | reflexivity | exact a_digit | exact a_punct | destruct HL as [H|H]; cs_l H]).
  rewrite step_s_none by (apply tc_search_miss_any; try assumption; try exact (run_any _ _ Hf);
    [cbn; tauto | reflexivity | exact s_digit | exact s_punct | destruct HL as [H|H]; cs_l H]).
  rewrite step_b_none; [reflexivity|]. apply tc_search_miss_any; try assumption; try exact (run_any _ _ Hf);
    [cbn; tauto | reflexivity | exact b_digit | exact b_punct | destruct HL as [H|H]; cs_l H].
Qed.
