(* Proofs/TargetLogixP.v — lemmas about the Logix half of the reference target.
     put_get_bytes / put_bytes_outside      splice a value into an image: it reads back, nothing else moves
     atom_roundtrip                         decode_atom (encode_atom v) = v for the value types
     write_read_place_atom                  reference write then reference read at the same atomic
                                            place returns the written value; every other byte unchanged
     ref_write_read_atom                    the same at the level of ref_write / ref_read, other tags untouched
     svc_read_fits / svc_read_frag_fits     a Read Tag / Read Tag Fragmented reply (envelope included)
                                            never exceeds the capacity handed to the handler
   No axioms. *)
From Coq Require Import ZifyBool.
From PV Require Import Base.Bytes Base.BytesLemmas Base.PyStr Spec.EncapParser Spec.MRParser Spec.TargetIface
  Spec.TargetCore Spec.Project Spec.Expect Spec.TargetLogix.
Open Scope Z_scope.
Ltac Zify.zify_post_hook ::= Z.to_euclidean_division_equations.

Lemma some_inj {A} (x y : A) : Some x = Some y -> x = y.
Proof. congruence. Qed.

(* ------------------------------------------------------------------ byte splicing *)
Lemma blen_app a b : Expect.blen (a ++ b) = Expect.blen a + Expect.blen b.
Proof. unfold Expect.blen. rewrite app_length. lia. Qed.

Lemma blen_nonneg a : 0 <= Expect.blen a.
Proof. unfold Expect.blen. lia. Qed.

Lemma get_bytes_len img off n d : get_bytes img off n = Some d -> Expect.blen d = n.
Proof.
  unfold get_bytes. destruct ((0 <=? off) && (0 <=? n) && (off + n <=? Expect.blen img)) eqn:E; [|discriminate].
  intros H; injection H as <-. unfold Expect.blen in *.
  rewrite firstn_length, skipn_length. lia.
Qed.

Lemma put_bytes_len img off d img' : put_bytes img off d = Some img' -> length img' = length img.
Proof.
  unfold put_bytes. destruct ((0 <=? off) && (off + Expect.blen d <=? Expect.blen img)) eqn:E; [|discriminate].
  intros H; injection H as <-. unfold Expect.blen in *.
  rewrite !app_length, firstn_length, skipn_length. lia.
Qed.

Lemma put_get_bytes img off d img' :
  put_bytes img off d = Some img' -> get_bytes img' off (Expect.blen d) = Some d.
Proof.
  intros H. pose proof (put_bytes_len _ _ _ _ H) as L. revert H.
  unfold put_bytes, get_bytes.
  destruct ((0 <=? off) && (off + Expect.blen d <=? Expect.blen img)) eqn:E; [|discriminate].
  intros H; injection H as <-.
  assert (Hl : length (firstn (Z.to_nat off) img) = Z.to_nat off).
  { rewrite firstn_length. unfold Expect.blen in *. lia. }
  replace ((0 <=? off) && (0 <=? Expect.blen d)
           && (off + Expect.blen d <=? Expect.blen (firstn (Z.to_nat off) img ++ d ++ skipn (Z.to_nat off + length d) img)))
    with true.
  2:{ symmetry. unfold Expect.blen in *. rewrite L. lia. }
  f_equal.
  rewrite <- Hl at 1. rewrite skipn_app_exact.
  unfold Expect.blen. rewrite Nat2Z.id. apply firstn_app_exact.
Qed.

Lemma put_bytes_outside img off d img' k :
  put_bytes img off d = Some img' ->
  (k < Z.to_nat off \/ Z.to_nat off + length d <= k)%nat -> nth k img' 0 = nth k img 0.
Proof.
  unfold put_bytes. destruct ((0 <=? off) && (off + Expect.blen d <=? Expect.blen img)) eqn:E; [|discriminate].
  intros H; injection H as <-. unfold Expect.blen in *.
  assert (Hl : length (firstn (Z.to_nat off) img) = Z.to_nat off) by (rewrite firstn_length; lia).
  intros [Hk | Hk].
  - rewrite app_nth1 by lia. rewrite <- (firstn_skipn (Z.to_nat off) img) at 2.
    rewrite app_nth1 by lia. reflexivity.
  - rewrite app_nth2 by lia. rewrite app_nth2 by lia. rewrite Hl.
    rewrite <- (firstn_skipn (Z.to_nat off + length d) img) at 2.
    rewrite app_nth2 by (rewrite firstn_length; lia).
    rewrite firstn_length. f_equal. lia.
Qed.

(* ------------------------------------------------------------------ atoms *)
(* the elementary types whose reference value is a number (not BOOL, not a bit string) *)
Definition value_atom (c : Z) : bool := atom_signed c || atom_unsigned c || (c =? C_REAL) || (c =? C_LREAL).

Lemma in_urange_bounds w z : in_urange w z = true -> 0 <= z < pow256 w.
Proof. unfold in_urange. lia. Qed.

Lemma atom_size_cases c s : atom_size c = Some s -> s = 1 \/ s = 2 \/ s = 4 \/ s = 8.
Proof.
  unfold atom_size.
  repeat match goal with |- context [if ?b then _ else _] => destruct b end;
  intros H; inversion H; auto.
Qed.

Lemma encode_atom_len c v d s : atom_size c = Some s -> encode_atom c v = Some d -> value_atom c = true ->
  Expect.blen d = s.
Proof.
  intros Hs He Hv. unfold encode_atom in He. rewrite Hs in He.
  pose proof (atom_size_cases _ _ Hs) as Hc.
  assert (Hb : atom_bits c = false).
  { unfold value_atom, atom_signed, atom_unsigned, atom_bits, C_REAL, C_LREAL, C_SINT, C_INT, C_DINT, C_LINT,
      C_USINT, C_UINT, C_UDINT, C_ULINT, C_BYTE, C_WORD, C_DWORD, C_LWORD in *. lia. }
  assert (Hnb : (c =? C_BOOL) = false).
  { unfold value_atom, atom_signed, atom_unsigned, C_REAL, C_LREAL, C_SINT, C_INT, C_DINT, C_LINT,
      C_USINT, C_UINT, C_UDINT, C_ULINT, C_BOOL in *. lia. }
  unfold Expect.blen.
  destruct v; try discriminate.
  - destruct (atom_signed c).
    + destruct (in_srange (Z.to_nat s) z); [|discriminate]. injection He as <-. rewrite le_enc_length. lia.
    + destruct (atom_unsigned c); [|discriminate].
      destruct (in_urange (Z.to_nat s) z); [|discriminate]. injection He as <-. rewrite le_enc_length. lia.
  - rewrite Hnb in He. discriminate.
  - destruct ((c =? C_REAL) && in_urange 4 bits) eqn:E; [|discriminate]. apply some_inj in He. subst d.
    rewrite le_enc_length. unfold atom_size, C_REAL, C_BOOL, C_SINT, C_USINT, C_BYTE, C_INT, C_UINT, C_WORD in *.
    assert (c = 202) by lia. subst c. cbn in Hs. inversion Hs. reflexivity.
  - destruct ((c =? C_LREAL) && in_urange 8 bits) eqn:E; [|discriminate]. apply some_inj in He. subst d.
    rewrite le_enc_length. unfold C_LREAL in *.
    assert (c = 203) by lia. subst c. cbn in Hs. inversion Hs. reflexivity.
  - rewrite Hb in He. discriminate.
Qed.

Lemma atom_roundtrip c v d : value_atom c = true -> encode_atom c v = Some d -> decode_atom c d = Some v.
Proof.
  intros Hv He.
  destruct (atom_size c) as [s|] eqn:Hs; [|unfold encode_atom in He; rewrite Hs in He; discriminate].
  pose proof (encode_atom_len _ _ _ _ Hs He Hv) as Hl.
  pose proof (atom_size_cases _ _ Hs) as Hc.
  unfold decode_atom. rewrite Hs. rewrite Hl, Z.eqb_refl. cbn [negb].
  assert (Hnb : (c =? C_BOOL) = false).
  { unfold value_atom, atom_signed, atom_unsigned, C_REAL, C_LREAL, C_SINT, C_INT, C_DINT, C_LINT,
      C_USINT, C_UINT, C_UDINT, C_ULINT, C_BOOL in *. lia. }
  rewrite Hnb.
  unfold encode_atom in He. rewrite Hs in He.
  assert (Hw : (0 < Z.to_nat s)%nat) by lia.
  destruct v; try discriminate.
  - destruct (atom_signed c) eqn:Es.
    + destruct (in_srange (Z.to_nat s) z) eqn:Er; [|discriminate]. injection He as <-.
      rewrite le_dec_enc. rewrite Z.mod_small by apply of_signed_range.
      rewrite to_of_signed by assumption. reflexivity.
    + destruct (atom_unsigned c) eqn:Eu; [|discriminate].
      destruct (in_urange (Z.to_nat s) z) eqn:Er; [|discriminate]. injection He as <-.
      rewrite le_dec_enc_id by (apply in_urange_bounds; assumption). reflexivity.
  - rewrite Hnb in He. discriminate.
  - destruct ((c =? C_REAL) && in_urange 4 bits) eqn:E; [|discriminate]. apply some_inj in He. subst d.
    apply andb_prop in E. destruct E as [E1 E2].
    assert (Hc2 : c = 202) by (unfold C_REAL in *; lia). subst c.
    rewrite le_dec_enc_id by (apply in_urange_bounds; exact E2). reflexivity.
  - destruct ((c =? C_LREAL) && in_urange 8 bits) eqn:E; [|discriminate]. apply some_inj in He. subst d.
    apply andb_prop in E. destruct E as [E1 E2].
    assert (Hc2 : c = 203) by (unfold C_LREAL in *; lia). subst c.
    rewrite le_dec_enc_id by (apply in_urange_bounds; exact E2). reflexivity.
  - destruct (atom_bits c) eqn:Eb; [|discriminate].
    unfold value_atom, atom_signed, atom_unsigned, atom_bits, C_REAL, C_LREAL, C_SINT, C_INT, C_DINT, C_LINT,
      C_USINT, C_UINT, C_UDINT, C_ULINT, C_BYTE, C_WORD, C_DWORD, C_LWORD in *. lia.
Qed.

(* ------------------------------------------------------------------ reference write / read at one place *)
Lemma depth_fuel_S p : exists f, depth_fuel p = S f.
Proof. unfold depth_fuel. eauto. Qed.

Theorem write_read_place_atom p img inst off c dims avail v img' s :
  value_atom c = true -> atom_size c = Some s ->
  write_place p img (PlData inst off (BAtom c) dims avail) None None v = Some img' ->
  read_place p img' (PlData inst off (BAtom c) dims avail) None None = Some v
  /\ length img' = length img
  /\ forall k, (k < Z.to_nat off \/ Z.to_nat off + Z.to_nat s <= k)%nat -> nth k img' 0 = nth k img 0.
Proof.
  intros Hv Hs Hw. unfold write_place in Hw. cbn [base_size] in Hw. rewrite Hs in Hw.
  destruct (depth_fuel_S p) as [f Hf]. rewrite Hf in Hw. cbn [encode_val] in Hw.
  destruct (encode_atom c v) as [d|] eqn:He; [|discriminate].
  pose proof (encode_atom_len _ _ _ _ Hs He Hv) as Hl.
  rewrite Hl, Z.eqb_refl in Hw.
  split; [|split].
  - unfold read_place. cbn [base_size]. rewrite Hs.
    pose proof (put_get_bytes _ _ _ _ Hw) as Hg. rewrite Hl in Hg. rewrite Hg.
    rewrite Hf. cbn [decode_val]. apply atom_roundtrip; assumption.
  - eapply put_bytes_len; eassumption.
  - intros k Hk. eapply put_bytes_outside; [eassumption|].
    unfold Expect.blen in Hl. lia.
Qed.

(* ------------------------------------------------------------------ memory *)
Lemma mem_get_set_same m i v : mem_get (mem_set m i v) i = Some v.
Proof.
  induction m as [|[k w] r IH]; cbn.
  - rewrite Z.eqb_refl. reflexivity.
  - destruct (k =? i) eqn:E; cbn; rewrite ?E; auto.
Qed.

Lemma mem_get_set_other m i j v : i <> j -> mem_get (mem_set m i v) j = mem_get m j.
Proof.
  intros Hne. induction m as [|[k w] r IH]; cbn.
  - destruct (i =? j) eqn:E; [lia|reflexivity].
  - destruct (k =? i) eqn:E; cbn.
    + destruct (k =? j) eqn:E2; [lia|reflexivity].
    + destruct (k =? j); auto.
Qed.

(* a request that resolves to an atomic place (an atomic tag, an array element, an atomic member
   at any depth), read or written as one value *)
Theorem ref_write_read_atom p m r v m' inst off c dims avail s :
  resolve p r = Some (PlData inst off (BAtom c) dims avail) ->
  r_bit r = None -> r_count r = None ->
  value_atom c = true -> atom_size c = Some s ->
  ref_write p m r v = Some m' ->
  ref_read p m' r = Some v
  /\ (forall j, j <> inst -> mem_get m' j = mem_get m j)
  /\ exists img img', mem_get m inst = Some img /\ mem_get m' inst = Some img'
       /\ length img' = length img
       /\ forall k, (k < Z.to_nat off \/ Z.to_nat off + Z.to_nat s <= k)%nat -> nth k img' 0 = nth k img 0.
Proof.
  intros Hr Hb Hc Hv Hs Hw. unfold ref_write in Hw. rewrite Hr in Hw. cbn [place_inst] in Hw.
  destruct (mem_get m inst) as [img|] eqn:Hm; [|discriminate].
  rewrite Hb, Hc in Hw.
  destruct (write_place p img (PlData inst off (BAtom c) dims avail) None None v) as [img'|] eqn:Hp; [|discriminate].
  injection Hw as <-.
  destruct (write_read_place_atom _ _ _ _ _ _ _ _ _ _ Hv Hs Hp) as (H1 & H2 & H3).
  split; [|split].
  - unfold ref_read. rewrite Hr. cbn [place_inst]. rewrite mem_get_set_same, Hb, Hc. exact H1.
  - intros j Hj. apply mem_get_set_other. congruence.
  - exists img, img'. rewrite mem_get_set_same. auto.
Qed.

(* non-vacuity: a DINT tag in a one-tag project *)
Example ref_write_read_example :
  let g := mkTag [100] 7 ScCtrl (BAtom C_DINT) [] 0 false 0 0 0 0 in
  let p := mkProject [] [g] in
  let m := [(7, [1; 2; 3; 4])] in
  let r := mkReq None [mkSeg [100] []] None None in
  wf_project p = true /\ wf_mem p m = true
  /\ resolve p r = Some (PlData 7 0 (BAtom C_DINT) [] 1)
  /\ ref_write p m r (RInt (-2)) = Some [(7, [254; 255; 255; 255])]
  /\ ref_read p [(7, [254; 255; 255; 255])] r = Some (RInt (-2)).
Proof. vm_compute. repeat split; reflexivity. Qed.

(* ------------------------------------------------------------------ read replies fit *)
Definition reply_len (svc : Z) (rp : mr_reply) : Z := EncapParser.blen (mr_bytes svc rp).

Lemma reply_len_eq svc rp :
  reply_len svc rp = 4 + 2 * Z.of_nat (length (rp_ext rp)) + Z.of_nat (length (rp_data rp)).
Proof.
  unfold reply_len, mr_bytes, EncapParser.blen. cbn [length].
  rewrite app_length.
  assert (H : forall l : list Z, length (flat_map (le_enc 2) l) = (2 * length l)%nat).
  { induction l as [|x l IH]; cbn [flat_map length]; [reflexivity|].
    rewrite app_length, le_enc_length, IH. lia. }
  rewrite H. lia.
Qed.

(* every error constructor used by the read services *)
Definition small_err (e : rres unit) : Prop :=
  match e with ROk _ => True | RErr _ ext _ => (length ext <= 1)%nat end.

Lemma fail_len svc0 svc (e : rres unit) : small_err e -> reply_len svc0 (fst (fail svc e)) <= 6.
Proof.
  intros H. rewrite reply_len_eq. destruct e as [u|st ext why];
  unfold fail, mr_error, small_err in *; cbn [fst rp_ext rp_data length]; lia.
Qed.

Lemma loc_bytes_len pol img l from k d : loc_bytes pol img l from k = Some d -> 1 <= k -> Expect.blen d <= k.
Proof.
  unfold loc_bytes. destruct (w_bit l).
  - destruct (get_bytes img (w_off l) 1) as [[|x [|y t]]|]; try discriminate.
    intros H; injection H as <-. unfold Expect.blen. cbn. lia.
  - intros H _. apply get_bytes_len in H. lia.
Qed.

Lemma ok_reply_len svc more tb d :
  reply_len svc (reply6 more (tb ++ d)) = 4 + Expect.blen tb + Expect.blen d.
Proof. rewrite reply_len_eq. unfold reply6. cbn [rp_ext rp_data length]. rewrite app_length. unfold Expect.blen. lia. Qed.

Theorem svc_read_fits p pol img l cap data :
  6 <= cap -> reply_len 76 (fst (svc_read p pol img l cap data)) <= cap.
Proof.
  intros Hcap. unfold svc_read.
  assert (Hf : forall e, small_err e -> reply_len 76 (fst (fail 76 e)) <= cap).
  { intros e He. pose proof (fail_len 76 76 e He). lia. }
  destruct data as [|e0 [|e1 [|e2 rest]]].
  1,2,4: match goal with |- context [if ?b then _ else _] => destruct b end; apply Hf; cbn; lia.
  destruct (loc_esize p l) as [s|]; [|apply Hf; cbn; lia].
  destruct (type_bytes p l) as [tb|]; [|apply Hf; cbn; lia].
  destruct (s <? 1) eqn:Es; [apply Hf; cbn; lia|].
  destruct ((u16 e0 e1 <? 1) || (w_avail l <? u16 e0 e1)); [apply Hf; cbn; lia|].
  set (n := u16 e0 e1). set (total := n * s). set (room := cap - 4 - Expect.blen tb).
  set (k := if total <=? room then total
            else let whole := room / s * s in if (whole <? 1) && loc_is_struct l then room - room mod 4 else whole).
  assert (Hk : k <= room \/ k < 1).
  { subst k. destruct (total <=? room) eqn:E1; [lia|]. cbn zeta.
    destruct ((room / s * s <? 1) && loc_is_struct l); [left; lia|left; nia]. }
  destruct (k <? 1) eqn:Ek.
  { cbn [fst]. rewrite reply_len_eq. cbn. lia. }
  destruct (loc_bytes pol img l 0 k) as [d|] eqn:Hd.
  - cbn [fst]. rewrite ok_reply_len. pose proof (loc_bytes_len _ _ _ _ _ _ Hd).
    unfold room, Expect.blen, Expect.blen in *. lia.
  - cbn [fst]. rewrite reply_len_eq. cbn. lia.
Qed.

Theorem svc_read_frag_fits p pol img l cap data :
  6 <= cap -> reply_len 82 (fst (svc_read_frag p pol img l cap data)) <= cap.
Proof.
  intros Hcap. unfold svc_read_frag.
  assert (Hf : forall e, small_err e -> reply_len 82 (fst (fail 82 e)) <= cap).
  { intros e He. pose proof (fail_len 82 82 e He). lia. }
  destruct data as [|e0 [|e1 [|o0 [|o1 [|o2 [|o3 [|x rest]]]]]]].
  1-6,8: match goal with |- context [if ?b then _ else _] => destruct b end; apply Hf; cbn; lia.
  destruct (loc_esize p l) as [s|]; [|apply Hf; cbn; lia].
  destruct (type_bytes p l) as [tb|]; [|apply Hf; cbn; lia].
  destruct (s <? 1) eqn:Es; [apply Hf; cbn; lia|].
  destruct ((u16 e0 e1 <? 1) || (w_avail l <? u16 e0 e1)); [apply Hf; cbn; lia|].
  set (n := u16 e0 e1). set (off := u32 o0 o1 o2 o3). set (total := n * s).
  destruct (total <=? off) eqn:Eo; [apply Hf; cbn; lia|].
  destruct (negb (loc_is_struct l) && negb (off mod s =? 0)); [apply Hf; cbn; lia|].
  set (room := cap - 4 - Expect.blen tb).
  set (want := pol_entry (po_frag pol) off).
  set (lim0 := if want <=? 0 then room else Z.min want room).
  set (lim := if loc_is_struct l then Z.max 1 lim0 else Z.max s (lim0 - lim0 mod s)).
  assert (Hl1 : 1 <= lim) by (subst lim; destruct (loc_is_struct l); lia).
  destruct (room <? lim) eqn:Er.
  { cbn [fst]. rewrite reply_len_eq. cbn. lia. }
  set (k := Z.min (total - off) lim).
  destruct (loc_bytes pol img l off k) as [d|] eqn:Hd.
  - cbn [fst]. rewrite ok_reply_len. pose proof (loc_bytes_len _ _ _ _ _ _ Hd).
    unfold room, Expect.blen, Expect.blen in *. lia.
  - cbn [fst]. rewrite reply_len_eq. cbn. lia.
Qed.

Print Assumptions ref_write_read_atom.
Print Assumptions svc_read_fits.
Print Assumptions svc_read_frag_fits.
