(* Proofs/ReadResolve3.v — INVERSION of the reference request grammar (Spec/Expect.v parse_request).
   [ref_core s] follows parse_request step by step but keeps the TEXT of every decimal field
   ("a[007].03{010}" keeps "007", "03", "010" next to 7, 3, 10).
     ref_core_complete   parse_request s = Some r  ->  exists c, ref_core s = Some c /\ core_ast c = r
                         (every request the reference reads has a core, whose AST is the reference's)
     ref_core_render     ref_core s = Some c  ->  core_text c = s
                         (the string IS [Program:P.]tag[i..].member[j..]...[.bit][{n}] rendered from the core: the grammar
                          is inverted, for every string, with no condition on the characters of the names)
     core_item_text      core_item p c = Some x -> item_text x = core_text c
     request_item        parse_request s = Some r, the request exists / is built / fits, and the SEMANTIC side conditions
                         [sem_ok p s] (computable: the tag is found under its exact spelling among the visible tags, and
                         ReadStrings.item_okb) -> s = item_text x, r = item_ast x, item_ok x
   so the string-level hypothesis of ReadStrings.plain_request ("rendering the pieces back gives the string") is
   PROVED here instead of being checked, and what remains between C01_resolution_grammar and [resolution_sound] is
   exactly [sem_ok]: the classes out_case / out_digits / out_long_name / out_scalar_dword of Props/C01.v and the
   unproved (g).  No axioms. *)
From Coq Require Import ZifyBool String.
From PV Require Import Base.Bytes Base.BytesLemmas Base.Res Base.Proto Base.PyStr.
From PV Require Import Gen.Consts Gen.PathTables Model.Path Model.Reply Model.LogixPlan Model.LogixRead.
From PV Require Import Spec.EncapParser Spec.MRParser Spec.TargetIface Spec.TargetCore Spec.Project Spec.Expect Spec.TargetLogix.
From PV Require Import Proofs.PathStr Proofs.TargetCoreP Proofs.TargetLogixP Proofs.ReadBits Proofs.ReadDecode Proofs.ReadTarget
  Proofs.ReadValue Proofs.ReadFrag Proofs.ReadMulti Proofs.ReadPlan Proofs.ReadCorrect Proofs.ReadResolve Proofs.ReadResolve1
  Proofs.ReadResolve2 Proofs.ReadStrings.
Open Scope list_scope.
Open Scope Z_scope.

(* ================================================================ the reference splitter, keeping texts *)
Definition rseg_core (s : text) : option ppart :=
  match split_chr 91 s with
  | [n] => if nonempty n && negb (contains_chr 93 n) then Some (n, [], []) else None
  | [n; rest] =>
      match split_last rest with
      | Some (inner, c) =>
          if (c =? 93) && nonempty n && negb (contains_chr 93 inner) then
            match all_some (map parse_nat (split_chr 44 inner)) with
            | Some idx => if Nat.leb (length idx) 3 then Some (n, split_chr 44 inner, idx) else None
            | None => None
            end
          else None
      | None => None
      end
  | _ => None
  end.

Definition count_core (s : text) : option (text * option (text * Z)) :=
  match split_last s with
  | Some (s', c) =>
      if c =? 125 then
        match split_chr 123 s' with
        | [body; n] => match parse_nat n with Some z => Some (body, Some (n, z)) | None => None end
        | _ => None
        end
      else if contains_chr 123 s || contains_chr 125 s then None else Some (s, None)
  | None => None
  end.

Definition prog_step (parts : list text) : option text * list text :=
  match parts with
  | p0 :: r => if starts_with txt_Program p0 then (Some (skipn 8 p0), r) else (None, parts)
  | [] => (None, parts)
  end.

Definition bit_step (parts1 : list text) : option (option (text * Z)) * list text :=
  match split_last parts1 with
  | Some (init, l) =>
      if nonempty init && isdigit l
      then (match digits_val l 0 with Some v => Some (Some (l, v)) | None => None end, init)
      else (Some None, parts1)
  | None => (Some None, parts1)
  end.

Definition ref_core (s : text) : option core :=
  match count_core s with
  | None => None
  | Some (body, cnt) =>
      let pp := prog_step (split_chr 46 body) in
      if (match fst pp with Some [] => true | _ => false end) then None else
      let bp := bit_step (snd pp) in
      match fst bp, all_some (map rseg_core (snd bp)) with
      | Some b, Some (sg :: segs) => Some (fst pp, sg, segs, b, cnt)
      | _, _ => None
      end
  end.

Definition core_text (c : core) : text :=
  let '(prog, x1, more, bit, cnt) := c in g_text prog (seg_txt x1) (map seg_txt more) bit cnt.
Definition core_ast (c : core) : request_ast :=
  let '(prog, x1, more, bit, cnt) := c in mkReq prog (map seg_ast (x1 :: more)) (opt_val bit) (opt_val cnt).

(* ================================================================ small facts *)
Lemma digits_some s : forallb is_ascii_digit s = true -> forall acc, exists v, digits_val s acc = Some v.
Proof.
  induction s as [|c r IH]; intros H acc; [eexists; reflexivity|].
  cbn [forallb] in H. apply andb_prop in H. destruct H as [Hc Hr]. cbn [digits_val]. rewrite Hc. apply IH. exact Hr.
Qed.

Lemma isdigit_some l : isdigit l = true -> exists v, digits_val l 0 = Some v.
Proof. unfold isdigit. destruct l; [discriminate|]. intros H. apply digits_some. exact H. Qed.

Lemma split_last_inv {A} (l : list A) i x : split_last l = Some (i, x) -> l = i ++ [x].
Proof.
  unfold split_last. destruct (rev l) as [|y r] eqn:E; [discriminate|]. intros H. injection H as <- <-.
  rewrite <- (rev_involutive l), E. reflexivity.
Qed.

Lemma split2_inv c s a b : split_chr c s = [a; b] -> s = a ++ c :: b.
Proof. intros H. rewrite <- (join_split c s), H. reflexivity. Qed.

Lemma split1_inv c s a : split_chr c s = [a] -> s = a.
Proof. intros H. rewrite <- (join_split c s), H. reflexivity. Qed.

Lemma split_chr_nonempty c s : split_chr c s <> [].
Proof. unfold split_chr. apply split_aux_nonempty. Qed.

Lemma all_some_vals ids : forall idv, all_some (map parse_nat ids) = Some idv -> vals ids = Some idv.
Proof.
  induction ids as [|t r IH]; intros idv H; cbn [map all_some vals] in *; [exact H|].
  unfold parse_nat in H at 1. destruct (isdigit t); [|discriminate].
  destruct (digits_val t 0) as [v|]; [|discriminate].
  destruct (all_some (map parse_nat r)) as [vs|]; [|discriminate]. rewrite (IH vs eq_refl). exact H.
Qed.

(* ================================================================ one segment *)
Lemma rseg_core_inv s x : rseg_core s = Some x -> seg_txt x = s /\ vals_ok x.
Proof.
  unfold rseg_core. destruct (split_chr 91 s) as [|n [|rest [|? ?]]] eqn:Es; try discriminate.
  - destruct (nonempty n && negb (contains_chr 93 n)); [|discriminate]. intros H. injection H as <-.
    split; [|reflexivity]. unfold seg_txt. cbn [pp_name fst snd idx_txt]. rewrite app_nil_r. symmetry. exact (split1_inv _ _ _ Es).
  - destruct (split_last rest) as [[inner c]|] eqn:El; [|discriminate].
    destruct ((c =? 93) && nonempty n && negb (contains_chr 93 inner)) eqn:Ec; [|discriminate].
    destruct (all_some (map parse_nat (split_chr 44 inner))) as [idx|] eqn:Ea; [|discriminate].
    destruct (Nat.leb (length idx) 3); [|discriminate]. intros H. injection H as <-.
    split; [|unfold vals_ok; cbn [fst snd pp_idv]; exact (all_some_vals _ _ Ea)].
    apply andb_prop in Ec. destruct Ec as [Ec _]. apply andb_prop in Ec. destruct Ec as [Ec _].
    assert (c = 93) by lia. subst c.
    unfold seg_txt. cbn [pp_name fst snd]. unfold idx_txt.
    destruct (split_chr 44 inner) as [|i0 ir] eqn:E44; [exfalso; exact (split_chr_nonempty _ _ E44)|].
    rewrite <- E44, join_split. rewrite (split2_inv _ _ _ _ Es), (split_last_inv _ _ _ El). reflexivity.
Qed.

Lemma rseg_core_complete s sg : parse_seg s = Some sg -> exists x, rseg_core s = Some x /\ seg_ast x = sg.
Proof.
  unfold parse_seg, rseg_core, LBRACK, RBRACK, COMMA.
  destruct (split_chr 91 s) as [|n [|rest [|? ?]]]; try discriminate.
  - destruct (nonempty n && negb (contains_chr 93 n)); [|discriminate]. intros H. injection H as <-. eexists. split; reflexivity.
  - destruct (split_last rest) as [[inner c]|]; [|discriminate].
    destruct ((c =? 93) && nonempty n && negb (contains_chr 93 inner)); [|discriminate].
    destruct (all_some (map parse_nat (split_chr 44 inner))) as [idx|]; [|discriminate].
    destruct (Nat.leb (length idx) 3); [|discriminate]. intros H. injection H as <-. eexists. split; reflexivity.
Qed.

Lemma rsegs_inv l : forall xs, all_some (map rseg_core l) = Some xs -> map seg_txt xs = l /\ Forall vals_ok xs.
Proof.
  induction l as [|s r IH]; intros xs H; cbn [map all_some] in H; [injection H as <-; split; [reflexivity|constructor]|].
  destruct (rseg_core s) as [x|] eqn:Ex; [|discriminate]. destruct (all_some (map rseg_core r)) as [xr|]; [|discriminate].
  injection H as <-. destruct (rseg_core_inv _ _ Ex) as [E1 V1]. destruct (IH xr eq_refl) as [E2 V2].
  cbn [map]. rewrite E1, E2. split; [reflexivity|constructor; assumption].
Qed.

Lemma rsegs_complete l : forall segs, all_some (map parse_seg l) = Some segs ->
  exists xs, all_some (map rseg_core l) = Some xs /\ map seg_ast xs = segs.
Proof.
  induction l as [|s r IH]; intros segs H; cbn [map all_some] in H; [injection H as <-; exists []; split; reflexivity|].
  destruct (parse_seg s) as [sg|] eqn:Es; [|discriminate]. destruct (all_some (map parse_seg r)) as [sr|]; [|discriminate].
  injection H as <-. destruct (rseg_core_complete _ _ Es) as (x & Ex & Ax). destruct (IH sr eq_refl) as (xr & Er & Ar).
  exists (x :: xr). cbn [map all_some]. rewrite Ex, Er, Ax, Ar. split; reflexivity.
Qed.

(* ================================================================ the count *)
Lemma count_core_inv s body cnt : count_core s = Some (body, cnt) -> s = body ++ cnt_txt cnt /\ optc cnt.
Proof.
  unfold count_core. destruct (split_last s) as [[s' c]|] eqn:El; [|discriminate].
  destruct (c =? 125) eqn:Ec.
  - destruct (split_chr 123 s') as [|b [|n [|? ?]]] eqn:Es; try discriminate.
    unfold parse_nat. destruct (isdigit n); [|discriminate]. destruct (digits_val n 0) as [z|] eqn:Ez; [|discriminate].
    intros H. injection H as <- <-. assert (c = 125) by lia. subst c. split; [|exact Ez].
    rewrite (split_last_inv _ _ _ El), (split2_inv _ _ _ _ Es). unfold cnt_txt. rewrite <- !app_assoc. reflexivity.
  - destruct (contains_chr 123 s || contains_chr 125 s); [discriminate|]. intros H. injection H as <- <-.
    split; [cbn [cnt_txt]; rewrite app_nil_r; reflexivity|exact I].
Qed.

Lemma count_core_complete s body cnt : split_count s = Some (body, cnt) ->
  exists c, count_core s = Some (body, c) /\ opt_val c = cnt.
Proof.
  unfold split_count, count_core, LBRACE, RBRACE. destruct (split_last s) as [[s' c]|]; [|discriminate].
  destruct (c =? 125).
  - destruct (split_chr 123 s') as [|b [|n [|? ?]]]; try discriminate.
    destruct (parse_nat n) as [z|]; [|discriminate]. intros H. injection H as <- <-. eexists. split; reflexivity.
  - destruct (contains_chr 123 s || contains_chr 125 s); [discriminate|]. intros H. injection H as <- <-. exists None. split; reflexivity.
Qed.

(* ================================================================ the whole request *)
Lemma prog_step_inv parts prog parts1 : prog_step parts = (prog, parts1) ->
  parts = (match prog with Some P => [txt_Program_ ++ P] | None => [] end) ++ parts1.
Proof.
  unfold prog_step. destruct parts as [|p0 r]; [intros H; injection H as <- <-; reflexivity|].
  destruct (starts_with txt_Program p0) eqn:E; intros H; [|injection H as <- <-; reflexivity].
  change txt_Program with txt_Program_ in E. destruct (PathStr.starts_with_app _ _ E) as [r' Hr'].
  rewrite Hr', skipn8_program in H. injection H as <- <-. rewrite Hr'. reflexivity.
Qed.

Lemma bit_step_inv parts1 b parts2 : bit_step parts1 = (Some b, parts2) ->
  parts1 = parts2 ++ (match b with Some (t, _) => [t] | None => [] end) /\ optc b /\ (b <> None -> parts2 <> []).
Proof.
  unfold bit_step. destruct (split_last parts1) as [[init l]|] eqn:El.
  - destruct (nonempty init && isdigit l) eqn:E.
    + destruct (digits_val l 0) as [v|] eqn:Ev; intros H; [|discriminate]. injection H as <- <-.
      split; [exact (split_last_inv _ _ _ El)|]. split; [exact Ev|]. intros _. destruct init; [discriminate|discriminate].
    + intros H. injection H as <- <-. rewrite app_nil_r. repeat split. congruence.
  - intros H. injection H as <- <-. rewrite app_nil_r. repeat split. congruence.
Qed.

Definition core_vals (c : core) : Prop :=
  let '(prog, x1, more, bit, cnt) := c in vals_ok x1 /\ Forall vals_ok more /\ optc bit /\ optc cnt.

Lemma join_prog p0 t1 (X : list text) : join [46] (p0 :: t1 :: X) = join [46] ((p0 ++ 46 :: t1) :: X).
Proof. rewrite join_cons2. destruct X; cbn [join]; rewrite <- ?app_assoc; reflexivity. Qed.

Theorem ref_core_render s c : ref_core s = Some c -> core_text c = s /\ core_vals c.
Proof.
  unfold ref_core. destruct (count_core s) as [[body cnt]|] eqn:Ecn; [|discriminate].
  destruct (count_core_inv _ _ _ Ecn) as [Es Hcc]. cbv zeta.
  destruct (prog_step (split_chr 46 body)) as [prog parts1] eqn:Ep. cbn [fst snd].
  destruct (match prog with Some [] => true | _ => false end); [discriminate|].
  destruct (bit_step parts1) as [ob parts2] eqn:Eb. cbn [fst snd].
  destruct ob as [b|]; [|discriminate].
  destruct (all_some (map rseg_core parts2)) as [[|sg segs]|] eqn:Ea; try discriminate.
  intros H. injection H as <-.
  pose proof (prog_step_inv _ _ _ Ep) as Hparts. destruct (bit_step_inv _ _ _ Eb) as (Hp1 & Hbc & Hbne).
  destruct (rsegs_inv _ _ Ea) as [Htx Hv]. pose proof (Forall_inv Hv) as Hv1. pose proof (Forall_inv_tail Hv) as Hvm.
  split; [|repeat split; assumption].
  unfold core_text, g_text. rewrite Es. f_equal.
  rewrite <- (join_split 46 body), Hparts, Hp1, <- Htx. unfold g_body0, g_base.
  set (L := map seg_txt (sg :: segs)). change (seg_txt sg :: map seg_txt segs) with L.
  assert (HL : L <> []) by (unfold L; discriminate).
  destruct prog as [P|]; destruct b as [[t v]|]; cbn [app bit_txt].
  - change ((txt_Program_ ++ P) :: L ++ [t]) with (((txt_Program_ ++ P) :: L) ++ [t]).
    rewrite join_snoc by discriminate. unfold L. cbn [map]. rewrite join_prog. reflexivity.
  - rewrite !app_nil_r. unfold L. cbn [map]. rewrite join_prog. reflexivity.
  - rewrite join_snoc by exact HL. reflexivity.
  - rewrite !app_nil_r. reflexivity.
Qed.

Lemma tail_complete prog parts1 cnt cc r : opt_val cc = cnt ->
  (if (match prog with Some [] => true | _ => false end) then None else
   let '(bit, parts2) :=
     match split_last parts1 with
     | Some (init, l) => if nonempty init && isdigit l then (digits_val l 0, init) else (None, parts1)
     | None => (None, parts1)
     end in
   match all_some (map parse_seg parts2) with
   | Some (sg :: segs) => Some (mkReq prog (sg :: segs) bit cnt)
   | _ => None
   end) = Some r ->
  exists c,
    (if (match prog with Some [] => true | _ => false end) then None else
     match fst (bit_step parts1), all_some (map rseg_core (snd (bit_step parts1))) with
     | Some b, Some (sg :: segs) => Some (prog, sg, segs, b, cc)
     | _, _ => None
     end) = Some c /\ core_ast c = r.
Proof.
  intros Hcv. destruct (match prog with Some [] => true | _ => false end); [discriminate|].
  unfold bit_step. destruct (split_last parts1) as [[init l]|].
  - destruct (nonempty init && isdigit l) eqn:E.
    + apply andb_prop in E. destruct E as [_ Ed]. destruct (isdigit_some l Ed) as [v Ev]. rewrite Ev. cbn [fst snd].
      destruct (all_some (map parse_seg init)) as [[|sg segs]|] eqn:Ea; try discriminate.
      destruct (rsegs_complete _ _ Ea) as (xs & Ex & Ax). rewrite Ex.
      destruct xs as [|x xr]; [discriminate|]. intros H. injection H as <-.
      eexists. split; [reflexivity|]. unfold core_ast. cbn [opt_val]. rewrite Ax, Hcv. reflexivity.
    + cbn [fst snd]. destruct (all_some (map parse_seg parts1)) as [[|sg segs]|] eqn:Ea; try discriminate.
      destruct (rsegs_complete _ _ Ea) as (xs & Ex & Ax). rewrite Ex.
      destruct xs as [|x xr]; [discriminate|]. intros H. injection H as <-.
      eexists. split; [reflexivity|]. unfold core_ast. cbn [opt_val]. rewrite Ax, Hcv. reflexivity.
  - cbn [fst snd]. destruct (all_some (map parse_seg parts1)) as [[|sg segs]|] eqn:Ea; try discriminate.
    destruct (rsegs_complete _ _ Ea) as (xs & Ex & Ax). rewrite Ex.
    destruct xs as [|x xr]; [discriminate|]. intros H. injection H as <-.
    eexists. split; [reflexivity|]. unfold core_ast. cbn [opt_val]. rewrite Ax, Hcv. reflexivity.
Qed.

Theorem ref_core_complete s r : parse_request s = Some r -> exists c, ref_core s = Some c /\ core_ast c = r.
Proof.
  unfold parse_request, ref_core, DOT.
  destruct (split_count s) as [[body cnt]|] eqn:Ec; [|discriminate].
  destruct (count_core_complete _ _ _ Ec) as (cc & -> & Hcv). cbv zeta.
  unfold prog_step. destruct (split_chr 46 body) as [|p0 r0].
  - exact (tail_complete None [] cnt cc r Hcv).
  - destruct (starts_with txt_Program p0).
    + exact (tail_complete (Some (skipn 8 p0)) r0 cnt cc r Hcv).
    + exact (tail_complete None (p0 :: r0) cnt cc r Hcv).
Qed.

Print Assumptions ref_core_render.
Print Assumptions ref_core_complete.

(* ================================================================ from the core to the structured request *)
Lemma core_item_text p c x : core_item p c = Some x -> item_text x = core_text c.
Proof.
  destruct c as [[[[prog x1] more] bit] cnt]. unfold core_item.
  destruct (List.find _ (visible_tags p)) as [g|] eqn:Ef; [|discriminate].
  destruct (List.find_some _ _ Ef) as [_ Hpred]. apply andb_prop in Hpred. destruct Hpred as [Hsc Hnm].
  apply scope_exact_eq in Hsc. apply teqb_eq in Hnm. intros H.
  destruct prog as [P|]; [|destruct more as [|y ys]]; injection H as <-; cbn [item_text core_text].
  - unfold gq_text, greq_text. cbn [gq_g gq_x1 gq_more gq_bit gq_cnt]. rewrite Hsc. reflexivity.
  - unfold sreq_text, single_req, g_text, g_body0, g_base. cbn [sr_g sr_ids sr_bit sr_cnt map join]. rewrite Hnm.
    unfold seg_txt. rewrite <- !app_assoc. reflexivity.
  - unfold gq_text, greq_text. cbn [gq_g gq_x1 gq_more gq_bit gq_cnt]. rewrite Hsc. reflexivity.
Qed.

(* the proof of ReadStrings.plain_item, with the rendering equation PROVED (ref_core_render) instead of checked *)
Theorem request_item p mem cfg fuel s r c x :
  ref_core s = Some c -> core_item p c = Some x -> item_okb p x = true ->
  parse_request s = Some r -> ref_read p mem r <> None ->
  (exists q path, parse_tag_request (client_tags p) s = Ok q /\ read_path (c_use_ids cfg) q = Ok path
                  /\ fits (c_conn cfg) fuel q path) ->
  item_text x = s /\ item_ast x = r /\ item_ok p mem cfg fuel x.
Proof.
  intros Ec Ei Hokb Hpr Href (q0 & path0 & Hq0 & Hrp0 & Hfit0).
  destruct (ref_core_render s c Ec) as [Hrender Hvals].
  assert (Htxt : item_text x = s) by (rewrite (core_item_text p c x Ei); exact Hrender).
  destruct c as [[[[prog x1] more] bit] cnt]. destruct Hvals as (Hv1 & Hvm & Hcb & Hcc).
  unfold core_item in Ei.
  destruct (List.find _ (visible_tags p)) as [g|] eqn:Ef; [|discriminate].
  destruct (List.find_some _ _ Ef) as [Hvis Hpred]. apply andb_prop in Hpred. destruct Hpred as [Hsc Hnm].
  apply scope_exact_eq in Hsc. apply teqb_eq in Hnm.
  assert (Hdet : forall q, parse_tag_request (client_tags p) s = Ok q -> q = q0) by (intros q Hq; congruence).
  split; [exact Htxt|].
  destruct prog as [P|]; [|destruct more as [|y ys]]; injection Ei as <-.
  - (* program scope *)
    cbn [item_okb gq_g gq_x1 gq_more gq_bit gq_cnt] in Hokb. repeat (apply andb_prop in Hokb; destruct Hokb as [Hokb ?]).
    rewrite Hsc in *. cbn [prog_parts nonempty_prog] in *.
    assert (HFv : Forall vals_ok ((txt_Program_ ++ P, [], []) :: x1 :: more)) by (constructor; [reflexivity|constructor; assumption]).
    assert (HF : Forall (fun z => ppart_ok z /\ (length (pp_idv z) <= 3)%nat /\ idx32 (pp_idv z)) ((txt_Program_ ++ P, [], []) :: x1 :: more)).
    { apply Forall_forall. intros z Hz. rewrite Forall_forall in HFv. apply ppart_okb_ok; [exact (forallb_In _ _ _ Hokb Hz)|exact (HFv z Hz)]. }
    assert (HFok : Forall ppart_ok ((txt_Program_ ++ P, [], []) :: x1 :: more)) by (eapply Forall_impl; [|exact HF]; cbv beta; tauto).
    assert (HF3 : Forall (fun z => (length (pp_idv z) <= 3)%nat) (x1 :: more)).
    { inversion HF; subst. eapply Forall_impl; [|eassumption]. cbv beta. tauto. }
    assert (Hast : parse_request (item_text (inr (mkGreq g x1 more bit cnt))) = Some (item_ast (inr (mkGreq g x1 more bit cnt)))).
    { cbn [item_text item_ast]. unfold gq_text, gq_ast, greq_text, greq_ast. cbn [gq_g gq_x1 gq_more gq_bit gq_cnt]. rewrite Hsc.
      apply parse_request_gtext; try assumption.
      - destruct P; [discriminate|discriminate].
      - apply negb_true_iff. assumption.
      - apply optb_ok; assumption.
      - apply optb_ok; assumption. }
    rewrite Htxt, Hpr in Hast. injection Hast as Hr. split; [symmetry; exact Hr|].
    cbn [item_ok]. unfold greq_ok. cbn [gq_g gq_x1 gq_more gq_bit gq_cnt]. rewrite Hsc. cbn [prog_parts app].
    split; [exact Hvis|]. split; [symmetry; exact Hnm|]. split; [exact HFok|].
    split; [apply negb_true_iff; assumption|]. split; [assumption|].
    split; [apply optb_ok; assumption|]. split; [apply optb_ok; assumption|]. split; [apply dims32b_ok; assumption|].
    split; [right; left; discriminate|].
    split.
    { intros pl0 pl1 E0 E1. rewrite E0, E1 in *. apply exact_membersb_ok. assumption. }
    cbn [item_ast] in Hr. split; [rewrite <- Hr; exact Href|].
    cbn [item_text] in Htxt. rewrite Htxt.
    split; [intros q Hq; rewrite (Hdet q Hq); eauto|].
    intros q path Hq Hrp. rewrite (Hdet q Hq) in *. replace path with path0 by congruence. exact Hfit0.
  - (* a single controller-scope segment *)
    cbn [item_okb sr_g sr_ids sr_idv sr_bit sr_cnt] in Hokb. remember (plain_name (g_name g)) as pn eqn:Epn.
    repeat (apply andb_prop in Hokb; destruct Hokb as [Hokb ?]). subst pn.
    assert (Hids : Forall2 num_ok (snd (fst x1)) (pp_idv x1)) by (apply vals_num_ok; assumption).
    assert (H32 : idx32 (pp_idv x1)).
    { unfold idx32. apply Forall_forall. intros i Hin. match goal with Hx : forallb in32 _ = true |- _ => pose proof (forallb_In _ _ _ Hx Hin) as Hy end.
      unfold in32 in Hy. lia. }
    assert (Hast : parse_request (sreq_text (mkSreq g (snd (fst x1)) (pp_idv x1) bit cnt)) = Some (sreq_ast (mkSreq g (snd (fst x1)) (pp_idv x1) bit cnt))).
    { apply sreq_parse_request; cbn [sr_g sr_ids sr_idv sr_bit sr_cnt]; try assumption.
      - apply optb_ok; assumption.
      - apply optb_ok; assumption.
      - apply Nat.leb_le. assumption. }
    cbn [item_text] in Htxt. rewrite Htxt, Hpr in Hast. injection Hast as Hr. split; [symmetry; exact Hr|].
    cbn [item_ok]. unfold sreq_ok. cbn [sr_g sr_ids sr_idv sr_bit sr_cnt].
    split; [exact Hvis|]. split; [exact Hsc|]. split; [assumption|]. split; [exact Hids|].
    split; [apply optb_ok; assumption|]. split; [apply optb_ok; assumption|].
    split; [apply sreq_shapeb_ok; assumption|]. split; [rewrite <- Hr; exact Href|].
    rewrite Htxt. intros q path Hq Hrp. rewrite (Hdet q Hq) in *. replace path with path0 by congruence. exact Hfit0.
  - (* a member path *)
    cbn [item_okb gq_g gq_x1 gq_more gq_bit gq_cnt] in Hokb. repeat (apply andb_prop in Hokb; destruct Hokb as [Hokb ?]).
    rewrite Hsc in *. cbn [prog_parts nonempty_prog app] in *.
    assert (HFv : Forall vals_ok (x1 :: y :: ys)) by (constructor; assumption).
    assert (HF : Forall (fun z => ppart_ok z /\ (length (pp_idv z) <= 3)%nat /\ idx32 (pp_idv z)) (x1 :: y :: ys)).
    { apply Forall_forall. intros z Hz. rewrite Forall_forall in HFv. apply ppart_okb_ok; [exact (forallb_In _ _ _ Hokb Hz)|exact (HFv z Hz)]. }
    assert (HFok : Forall ppart_ok (x1 :: y :: ys)) by (eapply Forall_impl; [|exact HF]; cbv beta; tauto).
    assert (HF3 : Forall (fun z => (length (pp_idv z) <= 3)%nat) (x1 :: y :: ys)) by (eapply Forall_impl; [|exact HF]; cbv beta; tauto).
    assert (Hast : parse_request (item_text (inr (mkGreq g x1 (y :: ys) bit cnt))) = Some (item_ast (inr (mkGreq g x1 (y :: ys) bit cnt)))).
    { cbn [item_text item_ast]. unfold gq_text, gq_ast, greq_text, greq_ast. cbn [gq_g gq_x1 gq_more gq_bit gq_cnt]. rewrite Hsc.
      apply parse_request_gtext; try assumption.
      - exact I.
      - apply negb_true_iff. assumption.
      - apply optb_ok; assumption.
      - apply optb_ok; assumption. }
    rewrite Htxt, Hpr in Hast. injection Hast as Hr. split; [symmetry; exact Hr|].
    cbn [item_ok]. unfold greq_ok. cbn [gq_g gq_x1 gq_more gq_bit gq_cnt]. rewrite Hsc. cbn [prog_parts app].
    split; [exact Hvis|]. split; [symmetry; exact Hnm|]. split; [exact HFok|].
    split; [apply negb_true_iff; assumption|]. split; [assumption|].
    split; [apply optb_ok; assumption|]. split; [apply optb_ok; assumption|]. split; [apply dims32b_ok; assumption|].
    split; [left; discriminate|].
    split.
    { intros pl0 pl1 E0 E1. rewrite E0, E1 in *. apply exact_membersb_ok. assumption. }
    cbn [item_ast] in Hr. split; [rewrite <- Hr; exact Href|].
    cbn [item_text] in Htxt. rewrite Htxt.
    split; [intros q Hq; rewrite (Hdet q Hq); eauto|].
    intros q path Hq Hrp. rewrite (Hdet q Hq) in *. replace path with path0 by congruence. exact Hfit0.
Qed.

(* the semantic side conditions, computable from the project and the string *)
Definition sem_ok (p : project) (s : text) : bool :=
  match ref_core s with
  | Some c => match core_item p c with Some x => item_okb p x | None => false end
  | None => false
  end.

(* [resolution_sound] of Props/C01.v under [sem_ok]: no condition on how the string is written *)
Theorem resolution_sem p mem cfg fuel s r :
  wf_project p = true -> wf_mem p mem = true -> layout_ok p = true -> upload_ok p = true -> dword_arrays p = true ->
  sem_ok p s = true ->
  parse_request s = Some r -> ref_read p mem r <> None ->
  (exists q path, parse_tag_request (client_tags p) s = Ok q /\ read_path (c_use_ids cfg) q = Ok path
                  /\ fits (c_conn cfg) fuel q path) ->
  request_ok p mem cfg fuel s r.
Proof.
  intros Hwf Hwm Hlay Hup Hda Hs Hpr Href Hex. unfold sem_ok in Hs.
  destruct (ref_core s) as [c|] eqn:Ec; [|discriminate]. destruct (core_item p c) as [x|] eqn:Ei; [|discriminate].
  destruct (request_item p mem cfg fuel s r c x Ec Ei Hs Hpr Href Hex) as (E1 & E2 & Hok).
  rewrite <- E1, <- E2. apply item_request_ok; assumption.
Qed.

Print Assumptions request_item.
Print Assumptions resolution_sem.
