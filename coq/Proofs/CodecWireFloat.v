(* Proofs/CodecWireFloat.v — C07: the model's integer REAL arithmetic (Model/CodecFloat.v: round32,
   widen32) agrees with the reference (Spec/WireFloat.v: Flocq's binary_normalize) on every bit
   pattern.  Route: Flocq's rounding is itself an executable function on (mantissa, exponent)
   ([binary_round]: align, shift right with round/sticky bits, round to nearest even, shift again on
   carry, overflow test); each step is characterised arithmetically (div / mod / testbit) and compared
   with the model's [rne_shift]-based code.  No real-number reasoning is needed here; Flocq's own
   theorems ([binary_normalize_correct]) say that this function IS IEEE-754 rounding. *)
From Coq Require Import ZArith List Bool Lia Floats.SpecFloat.
From Flocq Require Import Core.Zaux Core.Digits IEEE754.BinarySingleNaN IEEE754.Binary IEEE754.Bits.
From PV Require Import Base.Bytes Model.CodecFloat Spec.WireFloat.
From Coq Require Import ZifyBool.
Open Scope Z_scope.
Ltac Zify.zify_post_hook ::= Z.to_euclidean_division_equations.

(* ------------------------------------------------------------------ digits *)
Lemma digits2_pos_size p : digits2_pos p = Pos.size p.
Proof. induction p; cbn [digits2_pos Pos.size]; congruence. Qed.

Lemma Zpos_digits2_log2 p : Zpos (digits2_pos p) = Z.log2 (Zpos p) + 1.
Proof.
  rewrite digits2_pos_size. destruct p; cbn [Z.log2 Pos.size]; try reflexivity; rewrite Pos2Z.inj_succ; lia.
Qed.

Lemma nbits_pos p : nbits (Zpos p) = Zpos (digits2_pos p).
Proof. unfold nbits. cbn [Z.leb Z.compare]. now rewrite Zpos_digits2_log2. Qed.

Lemma nbits_bounds m : 0 < m -> 2 ^ (nbits m - 1) <= m < 2 ^ nbits m.
Proof.
  intros H. unfold nbits. destruct (m <=? 0) eqn:E; [lia|].
  replace (Z.log2 m + 1 - 1) with (Z.log2 m) by lia. pose proof (Z.log2_spec m H) as L.
  replace (Z.log2 m + 1) with (Z.succ (Z.log2 m)) by lia. exact L.
Qed.

Lemma nbits_unique m n : 0 <= n -> 2 ^ n <= m < 2 ^ (n + 1) -> nbits m = n + 1.
Proof.
  intros Hn H. unfold nbits. assert (0 < m) by (pose proof (Z.pow_pos_nonneg 2 n); lia).
  destruct (m <=? 0) eqn:E; [lia|]. f_equal. apply Z.log2_unique; [exact Hn|]. replace (Z.succ n) with (n + 1) by lia. exact H.
Qed.

(* ------------------------------------------------------------------ shifting right with round / sticky bits *)
Definition rec_of (m : Z) (r s : bool) : shr_record := {| shr_m := m; shr_r := r; shr_s := s |}.

Lemma shr_1_arith m r s : 0 <= m -> shr_1 (rec_of m r s) = rec_of (m / 2) (Z.odd m) (r || s).
Proof.
  intros Hm. unfold shr_1, rec_of. destruct m as [|p|p]; [reflexivity| |lia].
  destruct p as [p|p|].
  - rewrite Pos2Z.inj_xI. replace ((2 * Z.pos p + 1) / 2) with (Z.pos p) by lia. replace (2 * Z.pos p + 1) with (1 + 2 * Z.pos p) by lia. now rewrite Z.odd_add_mul_2.
  - rewrite Pos2Z.inj_xO. replace (2 * Z.pos p / 2) with (Z.pos p) by lia. replace (Z.odd (2 * Z.pos p)) with false; [reflexivity|].
    symmetry. rewrite <- Z.negb_even. now rewrite Z.even_mul.
  - reflexivity.
Qed.

Lemma iter_shr_arith k : forall m, 0 <= m ->
  Zaux.iter_nat shr_1 (S k) (rec_of m false false)
  = rec_of (m / 2 ^ Z.of_nat (S k)) (Z.testbit m (Z.of_nat k)) (negb (m mod 2 ^ Z.of_nat k =? 0)).
Proof.
  induction k as [|k IH]; intros m Hm.
  - cbn [Zaux.iter_nat]. rewrite shr_1_arith by exact Hm. cbn [orb]. change (2 ^ Z.of_nat 1) with 2. change (Z.of_nat 0) with 0.
    rewrite Z.bit0_odd. rewrite Z.pow_0_r, Z.mod_1_r. reflexivity.
  - rewrite iter_nat_S. rewrite IH by exact Hm. rewrite shr_1_arith by (apply Z.div_pos; [lia|apply Z.pow_pos_nonneg; lia]).
    apply (f_equal3 rec_of).
    + rewrite Z.div_div by (try apply Z.pow_pos_nonneg; lia). rewrite (Nat2Z.inj_succ (S k)), Z.pow_succ_r by lia.
      rewrite (Z.mul_comm 2). reflexivity.
    + rewrite (Nat2Z.inj_succ k). rewrite <- Z.bit0_odd, Z.div_pow2_bits by lia. f_equal; lia.
    + (* sticky: bit k of m, or a lower bit *)
      rewrite (Nat2Z.inj_succ k), Z.pow_succ_r by lia.
      set (P := 2 ^ Z.of_nat k). assert (HP : 0 < P) by (apply Z.pow_pos_nonneg; lia).
      assert (Hb : Z.testbit m (Z.of_nat k) = (m / P mod 2 =? 1)).
      { pose proof (Z.testbit_spec' m (Z.of_nat k) ltac:(lia)) as Hs. fold P in Hs.
        destruct (Z.testbit m (Z.of_nat k)); cbn [Z.b2z] in Hs; lia. }
      rewrite Hb.
      assert (Hm2 : m mod (2 * P) = (m / P mod 2) * P + m mod P).
      { rewrite (Z.mul_comm 2 P), Z.rem_mul_r by lia. ring. }
      rewrite Hm2. assert (0 <= m mod P < P) by (apply Z.mod_pos_bound; lia).
      assert (0 <= m / P mod 2 < 2) by (apply Z.mod_pos_bound; lia).
      destruct (m / P mod 2 =? 1) eqn:E1; destruct (m mod P =? 0) eqn:E2; cbn [orb negb]; nia.
Qed.

Lemma shr_arith m e n :
  0 <= m ->
  shr (rec_of m false false) e n
  = if 0 <? n then (rec_of (m / 2 ^ n) (Z.testbit m (n - 1)) (negb (m mod 2 ^ (n - 1) =? 0)), e + n)
    else (rec_of m false false, e).
Proof.
  intros Hm. unfold shr. destruct n as [|p|p]; try reflexivity.
  cbn [Z.ltb Z.compare]. rewrite iter_pos_nat. destruct (Pos2Nat.is_succ p) as [k Hk]. rewrite Hk.
  rewrite iter_shr_arith by exact Hm. assert (Hp : Z.pos p = Z.of_nat (S k)) by lia.
  rewrite Hp. replace (Z.of_nat (S k) - 1) with (Z.of_nat k) by lia. reflexivity.
Qed.

(* ------------------------------------------------------------------ Flocq's rounding, arithmetically *)
Section Round.
  Variables prec emax : Z.
  Definition fx (e : Z) : Z := Z.max (e - prec) (3 - emax - prec).

  Lemma fx_fexp e : SpecFloat.fexp prec emax e = fx e.
  Proof. reflexivity. Qed.

  Definition rnd_shift (M E : Z) : shr_record * Z :=
    let n := fx (nbits M + E) - E in
    if 0 <? n then (rec_of (M / 2 ^ n) (Z.testbit M (n - 1)) (negb (M mod 2 ^ (n - 1) =? 0)), E + n)
    else (rec_of M false false, E).
  Definition rnd_incr (mrs : shr_record) : Z :=
    let m := shr_m mrs in if shr_r mrs && (shr_s mrs || Z.odd m) then m + 1 else m.
  Definition rnd_aux (s : bool) (M E : Z) : spec_float :=
    let '(mrs1, e1) := rnd_shift M E in
    let q := rnd_incr mrs1 in
    let '(mrs2, e2) := rnd_shift q e1 in
    match shr_m mrs2 with
    | Z0 => S754_zero s
    | Zpos m => if e2 <=? emax - prec then S754_finite s m e2 else S754_infinity s
    | Zneg _ => S754_nan
    end.

  Lemma Zdigits2_nbits M : 0 <= M -> Zdigits2 M = nbits M.
  Proof. intros H. destruct M as [|p|p]; [reflexivity| |lia]. cbn [Zdigits2]. now rewrite nbits_pos. Qed.

  Lemma shr_fexp_arith M E : 0 <= M -> shr_fexp prec emax M E loc_Exact = rnd_shift M E.
  Proof.
    intros H. unfold shr_fexp, rnd_shift. cbn [shr_record_of_loc]. rewrite fx_fexp, Zdigits2_nbits by exact H.
    apply (shr_arith M E _ H).
  Qed.

  Lemma choice_NE s mrs : choice_mode mode_NE s (shr_m mrs) (loc_of_shr_record mrs) = rnd_incr mrs.
  Proof.
    destruct mrs as [m r st]. unfold rnd_incr, choice_mode. cbn [shr_m shr_r shr_s loc_of_shr_record].
    rewrite Z.negb_even. destruct r, st; cbn [Round.round_N Round.cond_incr andb orb]; try reflexivity.
  Qed.

  Lemma rnd_shift_nonneg M E : 0 <= M -> 0 <= shr_m (fst (rnd_shift M E)).
  Proof.
    intros H. unfold rnd_shift. destruct (0 <? fx (nbits M + E) - E) eqn:En; cbn [fst shr_m rec_of]; [|exact H].
    apply Z.div_pos; [exact H|]. apply Z.pow_pos_nonneg; lia.
  Qed.

  Lemma rnd_incr_nonneg mrs : 0 <= shr_m mrs -> 0 <= rnd_incr mrs.
  Proof. intros H. unfold rnd_incr. destruct (shr_r mrs && (shr_s mrs || Z.odd (shr_m mrs))); lia. Qed.

  Lemma binary_round_aux_arith s m E :
    BinarySingleNaN.binary_round_aux prec emax mode_NE s (Zpos m) E loc_Exact = rnd_aux s (Zpos m) E.
  Proof.
    unfold BinarySingleNaN.binary_round_aux, rnd_aux. rewrite shr_fexp_arith by lia.
    pose proof (rnd_shift_nonneg (Zpos m) E ltac:(lia)) as H1.
    destruct (rnd_shift (Zpos m) E) as [mrs1 e1]. cbn [fst] in H1. rewrite choice_NE.
    rewrite shr_fexp_arith by now apply rnd_incr_nonneg.
    destruct (rnd_shift (rnd_incr mrs1) e1) as [mrs2 e2].
    destruct (shr_m mrs2); try reflexivity.
  Qed.

  Lemma shl_align_none m E :
    E <= fx (nbits (Zpos m) + E) -> BinarySingleNaN.shl_align_fexp prec emax m E = (m, E).
  Proof.
    intros H. unfold BinarySingleNaN.shl_align_fexp, shl_align. rewrite fx_fexp, <- nbits_pos.
    destruct (fx (nbits (Z.pos m) + E) - E) eqn:D; try reflexivity. lia.
  Qed.

  Lemma shl_align_some m E :
    fx (nbits (Zpos m) + E) < E ->
    exists m', BinarySingleNaN.shl_align_fexp prec emax m E = (m', fx (nbits (Zpos m) + E))
               /\ Zpos m' = Zpos m * 2 ^ (E - fx (nbits (Zpos m) + E)).
  Proof.
    intros H. unfold BinarySingleNaN.shl_align_fexp, shl_align. rewrite fx_fexp, <- nbits_pos.
    destruct (fx (nbits (Z.pos m) + E) - E) eqn:D; try lia.
    eexists. split; [reflexivity|]. rewrite shift_pos_correct.
    replace (E - fx (nbits (Z.pos m) + E)) with (Z.pos p) by lia. change (2 ^ Z.pos p) with (Z.pow_pos 2 p). ring.
  Qed.
End Round.

(* ------------------------------------------------------------------ bit patterns <-> spec_float *)
Definition jbits (mw ew : Z) (s : bool) (m e : Z) : Z := ((if s then 2 ^ ew else 0) + e) * 2 ^ mw + m.

Lemma join_bits_arith mw ew s m e : 0 <= mw -> join_bits mw ew s m e = jbits mw ew s m e.
Proof. intros H. unfold join_bits, jbits. now rewrite Z.shiftl_mul_pow2 by exact H. Qed.

(* the bits of a non-NaN float, from its spec_float view *)
Definition sf_bits (mw ew : Z) (x : spec_float) : Z :=
  let emin := 3 - 2 ^ (ew - 1) - (mw + 1) in
  match x with
  | S754_zero s => jbits mw ew s 0 0
  | S754_infinity s => jbits mw ew s 0 (2 ^ ew - 1)
  | S754_nan => 0
  | S754_finite s m e =>
      let mm := Zpos m - 2 ^ mw in
      if 0 <=? mm then jbits mw ew s mm (e - emin + 1) else jbits mw ew s (Zpos m) 0
  end.

Lemma bits_of_b32_sf (x : BinarySingleNaN.binary_float 24 128) (H : BinarySingleNaN.is_nan x = false) :
  bits_of_b32 (BSN2B' 24 128 x H) = sf_bits 23 8 (BinarySingleNaN.B2SF x).
Proof.
  unfold bits_of_b32, bits_of_binary_float.
  destruct x as [s|s| |s m e Hb]; cbn [BSN2B' BinarySingleNaN.B2SF]; try discriminate H;
    unfold sf_bits; rewrite <- ?join_bits_arith by lia; reflexivity.
Qed.

Lemma bits_of_b64_sf (x : BinarySingleNaN.binary_float 53 1024) (H : BinarySingleNaN.is_nan x = false) :
  bits_of_b64 (BSN2B' 53 1024 x H) = sf_bits 52 11 (BinarySingleNaN.B2SF x).
Proof.
  unfold bits_of_b64, bits_of_binary_float.
  destruct x as [s|s| |s m e Hb]; cbn [BSN2B' BinarySingleNaN.B2SF]; try discriminate H;
    unfold sf_bits; rewrite <- ?join_bits_arith by lia; reflexivity.
Qed.

(* the spec_float denoted by a bit pattern *)
Definition sf_of_bits (mw ew : Z) (b : Z) : spec_float :=
  let emin := 3 - 2 ^ (ew - 1) - (mw + 1) in
  let s := 2 ^ mw * 2 ^ ew <=? b in
  let m := b mod 2 ^ mw in
  let e := (b / 2 ^ mw) mod 2 ^ ew in
  if e =? 0 then match m with Z0 => S754_zero s | Zpos p => S754_finite s p emin | Zneg _ => S754_nan end
  else if e =? 2 ^ ew - 1 then match m with Z0 => S754_infinity s | _ => S754_nan end
  else match m + 2 ^ mw with Zpos p => S754_finite s p (e + emin - 1) | _ => S754_nan end.

Lemma Zeq_bool_eqb x y : Zeq_bool x y = (x =? y).
Proof.
  destruct (Z.eqb_spec x y) as [->|H]; unfold Zeq_bool.
  - now rewrite Z.compare_refl.
  - destruct (x ?= y) eqn:E; try reflexivity. apply Z.compare_eq in E. contradiction.
Qed.

Lemma FF2SF_of_bits mw ew b :
  FF2SF (binary_float_of_bits_aux mw ew b) = sf_of_bits mw ew b.
Proof.
  unfold binary_float_of_bits_aux, split_bits, sf_of_bits. rewrite !Zeq_bool_eqb.
  change (Zpower 2 mw) with (2 ^ mw). change (Zpower 2 ew) with (2 ^ ew).
  change (Zle_bool (2 ^ mw * 2 ^ ew) b) with (2 ^ mw * 2 ^ ew <=? b).
  destruct ((b / 2 ^ mw) mod 2 ^ ew =? 0).
  - destruct (b mod 2 ^ mw); reflexivity.
  - destruct ((b / 2 ^ mw) mod 2 ^ ew =? 2 ^ ew - 1).
    + destruct (b mod 2 ^ mw); reflexivity.
    + destruct (b mod 2 ^ mw + 2 ^ mw); reflexivity.
Qed.

Lemma b64_sf b : Binary.B2SF 53 1024 (b64_of_bits b) = sf_of_bits 52 11 b.
Proof. unfold b64_of_bits, binary_float_of_bits. rewrite B2SF_FF2B. apply FF2SF_of_bits. Qed.
Lemma b32_sf b : Binary.B2SF 24 128 (b32_of_bits b) = sf_of_bits 23 8 b.
Proof. unfold b32_of_bits, binary_float_of_bits. rewrite B2SF_FF2B. apply FF2SF_of_bits. Qed.

(* Flocq's binary_normalize on a signed mantissa is binary_round on sign and magnitude *)
Lemma normalize_sf prec emax (Hp : FLX.Prec_gt_0 prec) (Hm : Prec_lt_emax prec emax) s m e :
  BinarySingleNaN.B2SF (BinarySingleNaN.binary_normalize prec emax Hp Hm mode_NE (cond_Zopp s (Zpos m)) e s)
  = BinarySingleNaN.binary_round prec emax mode_NE s m e.
Proof.
  unfold BinarySingleNaN.binary_normalize. destruct s; cbn [cond_Zopp Z.opp]; apply BinarySingleNaN.B2SF_SF2B.
Qed.

(* the two reference conversions, on spec_float *)
Lemma spec_real32_sf b :
  spec_real32_of_64 b =
  match sf_of_bits 52 11 b with
  | S754_nan => Some sp_nan32
  | S754_infinity s => Some (sf_bits 23 8 (S754_infinity s))
  | S754_zero s => Some (sf_bits 23 8 (S754_zero s))
  | S754_finite s m e =>
      let r := BinarySingleNaN.binary_round 24 128 mode_NE s m e in
      if is_finite_SF r then Some (sf_bits 23 8 r) else None
  end.
Proof.
  rewrite <- b64_sf. unfold spec_real32_of_64. destruct (b64_of_bits b) as [s|s|s pl Hpl|s m e Hb]; cbn [Binary.B2SF].
  - unfold bits_of_b32, bits_of_binary_float. now rewrite join_bits_arith by lia.
  - unfold bits_of_b32, bits_of_binary_float. now rewrite join_bits_arith by lia.
  - reflexivity.
  - cbv zeta. unfold Binary.binary_normalize. rewrite is_finite_BSN2B', bits_of_b32_sf.
    rewrite <- BinarySingleNaN.is_finite_SF_B2SF. rewrite normalize_sf. reflexivity.
Qed.

Lemma spec_real64_sf b :
  spec_real64_of_32 b =
  match sf_of_bits 23 8 b with
  | S754_nan => sp_nan64
  | S754_infinity s => sf_bits 52 11 (S754_infinity s)
  | S754_zero s => sf_bits 52 11 (S754_zero s)
  | S754_finite s m e => sf_bits 52 11 (BinarySingleNaN.binary_round 53 1024 mode_NE s m e)
  end.
Proof.
  rewrite <- b32_sf. unfold spec_real64_of_32. destruct (b32_of_bits b) as [s|s|s pl Hpl|s m e Hb]; cbn [Binary.B2SF].
  - unfold bits_of_b64, bits_of_binary_float. now rewrite join_bits_arith by lia.
  - unfold bits_of_b64, bits_of_binary_float. now rewrite join_bits_arith by lia.
  - reflexivity.
  - unfold Binary.binary_normalize. rewrite bits_of_b64_sf. rewrite normalize_sf. reflexivity.
Qed.

(* ------------------------------------------------------------------ double -> single *)
Lemma rne_incr M n :
  0 <= M -> 0 < n ->
  rne_shift M n = rnd_incr (rec_of (M / 2 ^ n) (Z.testbit M (n - 1)) (negb (M mod 2 ^ (n - 1) =? 0))).
Proof.
  intros HM Hn. unfold rne_shift, rnd_incr. cbn [shr_m shr_r shr_s rec_of].
  destruct (n <=? 0) eqn:E0; [lia|].
  set (h := 2 ^ (n - 1)). assert (Hh : 0 < h) by (apply Z.pow_pos_nonneg; lia).
  assert (H2 : 2 ^ n = 2 * h). { unfold h. rewrite <- Z.pow_succ_r by lia. f_equal. lia. }
  rewrite H2.
  assert (Hb : Z.testbit M (n - 1) = (M / h mod 2 =? 1)).
  { pose proof (Z.testbit_spec' M (n - 1) ltac:(lia)) as Hs. fold h in Hs.
    destruct (Z.testbit M (n - 1)); cbn [Z.b2z] in Hs; lia. }
  rewrite Hb.
  assert (Hm : M mod (2 * h) = (M / h mod 2) * h + M mod h). { rewrite (Z.mul_comm 2 h), Z.rem_mul_r by lia. ring. }
  assert (Hq : M / (2 * h) = M / h / 2). { rewrite (Z.mul_comm 2 h), Z.div_div by lia. reflexivity. }
  rewrite Hm, Hq.
  assert (0 <= M mod h < h) by (apply Z.mod_pos_bound; lia).
  assert (0 <= M / h mod 2 < 2) by (apply Z.mod_pos_bound; lia).
  rewrite <- Z.negb_even.
  destruct (M / h mod 2 =? 1) eqn:E1; destruct (M mod h =? 0) eqn:E2; cbn [andb orb negb];
    destruct (Z.even (M / h / 2)); cbn [negb];
    repeat match goal with |- context [if ?c then _ else _] => destruct c eqn:? end; try reflexivity; nia.
Qed.

Definition round32_tail (s M E : Z) : option Z :=
  let E' := Z.max (E + nbits M - 24) (-149) in
  let q := rne_shift M (E' - E) in
  let '(q, E') := if q =? 2 ^ 24 then (2 ^ 23, E' + 1) else (q, E') in
  if q <? 2 ^ 23 then Some (s * 2 ^ 31 + q)
  else let be := E' + 150 in
       if 255 <=? be then None else Some (s * 2 ^ 31 + be * 2 ^ 23 + (q - 2 ^ 23)).

Lemma pow2_le a b : 0 <= a <= b -> 2 ^ a <= 2 ^ b.
Proof. intros H. apply Z.pow_le_mono_r; lia. Qed.

Lemma nbits_le_24 q : 0 < q < 2 ^ 24 -> nbits q <= 24.
Proof.
  intros H. pose proof (nbits_bounds q ltac:(lia)) as B.
  destruct (Z_le_gt_dec (nbits q) 24) as [L|G]; [exact L|].
  assert (2 ^ 24 <= 2 ^ (nbits q - 1)) by (apply pow2_le; lia). lia.
Qed.

Lemma nbits_nonneg m : 0 <= nbits m.
Proof. unfold nbits. destruct (m <=? 0); [lia|]. pose proof (Z.log2_nonneg m). lia. Qed.

Lemma round_core (s : bool) M E :
  0 < M -> 0 < fx 24 128 (nbits M + E) - E ->
  (let r := rnd_aux 24 128 s M E in if is_finite_SF r then Some (sf_bits 23 8 r) else None)
  = round32_tail (if s then 1 else 0) M E.
Proof.
  intros HM Hn. unfold rnd_aux, round32_tail.
  set (d := nbits M) in *.
  assert (Hfx : forall x, fx 24 128 x = Z.max (x - 24) (-149)) by (intros x; reflexivity).
  set (E1 := Z.max (E + d - 24) (-149)).
  assert (HE1 : fx 24 128 (d + E) = E1) by (rewrite Hfx; unfold E1; f_equal; lia).
  rewrite HE1 in Hn. set (n := E1 - E) in *.
  (* first shift *)
  assert (Hs1 : rnd_shift 24 128 M E
                = (rec_of (M / 2 ^ n) (Z.testbit M (n - 1)) (negb (M mod 2 ^ (n - 1) =? 0)), E1)).
  { unfold rnd_shift. fold d. rewrite HE1. fold n. destruct (0 <? n) eqn:En; [|lia]. f_equal. unfold n. lia. }
  rewrite Hs1. rewrite <- (rne_incr M n) by lia.
  set (q := rne_shift M n).
  (* what the rounded mantissa can be *)
  pose proof (nbits_bounds M HM) as HB. fold d in HB.
  assert (Hd : 1 <= d) by (unfold d, nbits; destruct (M <=? 0) eqn:EM; [lia|]; pose proof (Z.log2_nonneg M); lia).
  set (m1 := M / 2 ^ n).
  assert (Hpn : 0 < 2 ^ n) by (apply Z.pow_pos_nonneg; lia).
  assert (Hm1 : 0 <= m1 < 2 ^ 24).
  { split; [apply Z.div_pos; lia|]. apply Z.div_lt_upper_bound; [lia|].
    rewrite <- Z.pow_add_r by lia. assert (2 ^ d <= 2 ^ (n + 24)) by (apply pow2_le; unfold n, E1; lia). lia. }
  assert (Hq : m1 <= q <= m1 + 1).
  { unfold q. rewrite (rne_incr M n) by lia. unfold rnd_incr. cbn [shr_m shr_r shr_s rec_of]. fold m1.
    destruct (Z.testbit M (n - 1) && (negb (M mod 2 ^ (n - 1) =? 0) || Z.odd m1)); lia. }
  assert (Hbig : -149 < E1 -> 2 ^ 23 <= m1).
  { intros HE. assert (Hn' : n = d - 24) by (unfold n, E1 in *; lia).
    apply Z.div_le_lower_bound; [lia|]. rewrite <- Z.pow_add_r by lia.
    replace (n + 23) with (d - 1) by lia. lia. }
  assert (HE1lo : -149 <= E1) by (unfold E1; lia).
  (* second shift *)
  destruct (q =? 2 ^ 24) eqn:Eq24.
  - assert (Hq24 : q = 2 ^ 24) by lia. rewrite Hq24.
    assert (Hs2 : rnd_shift 24 128 (2 ^ 24) E1 = (rec_of (2 ^ 23) false false, E1 + 1)).
    { unfold rnd_shift. change (nbits (2 ^ 24)) with 25. rewrite Hfx.
      replace (Z.max (25 + E1 - 24) (-149) - E1) with 1 by lia. reflexivity. }
    rewrite Hs2. cbn [shr_m rec_of]. change (2 ^ 23) with 8388608. cbv iota.
    destruct (E1 + 1 <=? 128 - 24) eqn:Ee.
    + cbn [is_finite_SF]. unfold sf_bits. cbv zeta. change (Z.pos 8388608 - 2 ^ 23) with 0. cbn [Z.leb Z.compare].
      change (8388608 <? 8388608) with false. cbv iota.
      destruct (255 <=? E1 + 1 + 150) eqn:Eb; [lia|]. f_equal. unfold jbits.
      change (3 - 2 ^ (8 - 1) - (23 + 1)) with (-149). destruct s; lia.
    + cbn [is_finite_SF]. change (8388608 <? 8388608) with false. cbv iota.
      destruct (255 <=? E1 + 1 + 150) eqn:Eb; [reflexivity|lia].
  - assert (Hq24 : q < 2 ^ 24) by lia.
    assert (Hs2 : rnd_shift 24 128 q E1 = (rec_of q false false, E1)).
    { unfold rnd_shift. rewrite Hfx.
      assert (Hnq : nbits q <= 24).
      { destruct (Z.eq_dec q 0) as [->|Hq0]; [cbn; lia|]. apply nbits_le_24. lia. }
      destruct (0 <? Z.max (nbits q + E1 - 24) (-149) - E1) eqn:En2; [lia|reflexivity]. }
    rewrite Hs2. cbn [shr_m rec_of].
    destruct q as [|p|p] eqn:Eqq; [| |lia].
    + (* the value rounds to zero *)
      cbn [is_finite_SF sf_bits]. change (0 <? 2 ^ 23) with true. cbv iota. f_equal. unfold jbits. destruct s; lia.
    + destruct (Z.pos p <? 2 ^ 23) eqn:Esub.
      * (* subnormal single *)
        assert (HEm : E1 = -149) by (destruct (Z.eq_dec E1 (-149)); [assumption|]; assert (2 ^ 23 <= m1) by (apply Hbig; lia); lia).
        rewrite HEm. change (-149 <=? 128 - 24) with true. cbv iota. cbn [is_finite_SF]. unfold sf_bits. cbv zeta.
        destruct (0 <=? Z.pos p - 2 ^ 23) eqn:Em; [lia|]. f_equal. unfold jbits. destruct s; lia.
      * destruct (E1 <=? 128 - 24) eqn:Ee.
        -- cbv iota. cbn [is_finite_SF]. unfold sf_bits. cbv zeta. destruct (0 <=? Z.pos p - 2 ^ 23) eqn:Em; [|lia].
           destruct (255 <=? E1 + 150) eqn:Eb; [lia|]. f_equal. unfold jbits.
           change (3 - 2 ^ (8 - 1) - (23 + 1)) with (-149). destruct s; lia.
        -- cbv iota. cbn [is_finite_SF]. destruct (255 <=? E1 + 150) eqn:Eb; [reflexivity|lia].
Qed.

Lemma round32_unfold b :
  round32 b =
  if is_nan64 b then Some nan32
  else if is_inf64 b then Some (sign64 b * 2 ^ 31 + inf32)
  else
    let e := exp64 b in
    let M := if e =? 0 then man64 b else man64 b + 2 ^ 52 in
    let E := (if e =? 0 then 1 else e) - 1075 in
    if M =? 0 then Some (sign64 b * 2 ^ 31) else round32_tail (sign64 b) M E.
Proof. reflexivity. Qed.

Lemma binary_round_noshift prec emax s m E :
  E <= fx prec emax (nbits (Zpos m) + E) ->
  BinarySingleNaN.binary_round prec emax mode_NE s m E = rnd_aux prec emax s (Zpos m) E.
Proof.
  intros H. unfold BinarySingleNaN.binary_round. rewrite (shl_align_none prec emax m E H). apply binary_round_aux_arith.
Qed.

Lemma sign_bit b : 0 <= b < 2 ^ 64 -> sign64 b = if 2 ^ 52 * 2 ^ 11 <=? b then 1 else 0.
Proof.
  intros H. unfold sign64. change (2 ^ 52 * 2 ^ 11) with (2 ^ 63). change (2 ^ 64) with (2 * 2 ^ 63) in H.
  assert (0 < 2 ^ 63) by reflexivity. destruct (2 ^ 63 <=? b) eqn:E.
  - symmetry. apply Z.div_unique with (r := b - 2 ^ 63); lia.
  - apply Z.div_small. lia.
Qed.

Theorem round32_is_flocq b : sp_f64_ok b = true -> round32 b = spec_real32_of_64 b.
Proof.
  intros Hok. unfold sp_f64_ok in Hok. apply andb_prop in Hok as [Hok _]. apply andb_prop in Hok as [H0 H1].
  assert (Hb : 0 <= b < 2 ^ 64) by lia. clear H0 H1.
  rewrite spec_real32_sf, round32_unfold. unfold sf_of_bits, is_nan64, is_inf64, exp64, man64.
  rewrite (sign_bit b Hb).
  set (sb := 2 ^ 52 * 2 ^ 11 <=? b). set (m := b mod 2 ^ 52). set (e := (b / 2 ^ 52) mod 2 ^ 11).
  assert (Hm : 0 <= m < 2 ^ 52) by (apply Z.mod_pos_bound; reflexivity).
  assert (He : 0 <= e < 2 ^ 11) by (apply Z.mod_pos_bound; reflexivity).
  change (2 ^ 11 - 1) with 2047. change (3 - 2 ^ (11 - 1) - (52 + 1)) with (-1074).
  destruct (e =? 2047) eqn:E2047.
  - (* NaN / infinity *)
    destruct (e =? 0) eqn:E0; [lia|]. cbn [andb].
    destruct (m =? 0) eqn:Em0; cbn [negb].
    + assert (m = 0) by lia. replace m with 0 by lia. cbn [sf_bits]. f_equal. unfold jbits, inf32. destruct sb; lia.
    + destruct m as [|p|p] eqn:Emm; [lia| |lia]. reflexivity.
  - cbn [andb].
    destruct (e =? 0) eqn:E0.
    + (* zero / subnormal double *)
      destruct m as [|p|p] eqn:Emm; [| |lia].
      * cbn [Z.eqb sf_bits]. f_equal. unfold jbits. destruct sb; lia.
      * cbv zeta. cbn [Z.eqb]. change (1 - 1075) with (-1074).
        assert (Hfx : -1074 < fx 24 128 (nbits (Z.pos p) + -1074)) by (unfold fx; lia).
        rewrite binary_round_noshift by lia.
        rewrite <- (round_core sb (Z.pos p) (-1074)) by lia. destruct sb; reflexivity.
    + (* normal double *)
      cbv zeta. assert (HM : 2 ^ 52 <= m + 2 ^ 52 < 2 ^ (52 + 1)) by (change (2 ^ (52 + 1)) with (2 * 2 ^ 52); lia).
      pose proof (nbits_unique (m + 2 ^ 52) 52 ltac:(lia) HM) as Hd.
      destruct (m + 2 ^ 52) as [|p|p] eqn:EM; [lia| |lia].
      cbn [Z.eqb]. replace (e + -1074 - 1) with (e - 1075) by lia.
      assert (Hfx : e - 1075 < fx 24 128 (nbits (Z.pos p) + (e - 1075))) by (rewrite Hd; unfold fx; lia).
      rewrite binary_round_noshift by lia.
      rewrite <- (round_core sb (Z.pos p) (e - 1075)) by lia. destruct sb; reflexivity.
Qed.

(* ------------------------------------------------------------------ single -> double (exact) *)
Lemma rnd_aux_exact64 s m' ez :
  nbits (Zpos m') = 53 -> -1074 <= ez <= 971 -> rnd_aux 53 1024 s (Zpos m') ez = S754_finite s m' ez.
Proof.
  intros Hd He. unfold rnd_aux.
  assert (Hs : rnd_shift 53 1024 (Zpos m') ez = (rec_of (Zpos m') false false, ez)).
  { unfold rnd_shift. rewrite Hd. unfold fx. destruct (0 <? Z.max (53 + ez - 53) (3 - 1024 - 53) - ez) eqn:E; [lia|reflexivity]. }
  rewrite Hs. unfold rnd_incr. cbn [shr_m shr_r shr_s rec_of andb]. rewrite Hs. cbn [shr_m rec_of].
  destruct (ez <=? 1024 - 53) eqn:E; [reflexivity|lia].
Qed.

Lemma binary_round_shift64 s m E k :
  nbits (Zpos m) = k -> 1 <= k <= 24 -> -149 <= E <= 104 ->
  exists m', BinarySingleNaN.binary_round 53 1024 mode_NE s m E = S754_finite s m' (E - (53 - k))
             /\ Zpos m' = Zpos m * 2 ^ (53 - k).
Proof.
  intros Hk Hkr HE.
  assert (Hfx : fx 53 1024 (nbits (Zpos m) + E) = E - (53 - k)) by (rewrite Hk; unfold fx; lia).
  destruct (shl_align_some 53 1024 m E ltac:(lia)) as (m' & Hsh & Hm').
  rewrite Hfx in Hsh, Hm'. replace (E - (E - (53 - k))) with (53 - k) in Hm' by lia.
  exists m'. split; [|exact Hm']. unfold BinarySingleNaN.binary_round. rewrite Hsh, binary_round_aux_arith.
  apply rnd_aux_exact64; [|lia].
  pose proof (nbits_bounds (Zpos m) ltac:(lia)) as B. rewrite Hk in B.
  replace 53 with (52 + 1) at 1 by lia. apply nbits_unique; [lia|]. rewrite Hm'.
  assert (H1 : 2 ^ (k - 1) * 2 ^ (53 - k) = 2 ^ 52) by (rewrite <- Z.pow_add_r by lia; f_equal; lia).
  assert (H2 : 2 ^ k * 2 ^ (53 - k) = 2 ^ (52 + 1)) by (rewrite <- Z.pow_add_r by lia; f_equal; lia).
  assert (0 < 2 ^ (53 - k)) by (apply Z.pow_pos_nonneg; lia). nia.
Qed.

Lemma sign_bit32 u : 0 <= u < 2 ^ 32 -> u / 2 ^ 31 = if 2 ^ 23 * 2 ^ 8 <=? u then 1 else 0.
Proof.
  intros H. change (2 ^ 23 * 2 ^ 8) with (2 ^ 31). change (2 ^ 32) with (2 * 2 ^ 31) in H.
  assert (0 < 2 ^ 31) by reflexivity. destruct (2 ^ 31 <=? u) eqn:E.
  - symmetry. apply Z.div_unique with (r := u - 2 ^ 31); lia.
  - apply Z.div_small. lia.
Qed.

Theorem widen32_is_flocq u : 0 <= u < 2 ^ 32 -> widen32 u = spec_real64_of_32 u.
Proof.
  intros Hu. rewrite spec_real64_sf. unfold widen32, sf_of_bits. rewrite (sign_bit32 u Hu).
  set (sb := 2 ^ 23 * 2 ^ 8 <=? u). set (f := u mod 2 ^ 23). set (be := (u / 2 ^ 23) mod 2 ^ 8).
  assert (Hf : 0 <= f < 2 ^ 23) by (apply Z.mod_pos_bound; reflexivity).
  assert (Hbe : 0 <= be < 2 ^ 8) by (apply Z.mod_pos_bound; reflexivity).
  change (2 ^ 8 - 1) with 255. change (3 - 2 ^ (8 - 1) - (23 + 1)) with (-149).
  destruct (be =? 255) eqn:E255.
  - destruct (be =? 0) eqn:E0; [lia|].
    destruct (f =? 0) eqn:Ef0.
    + replace f with 0 by lia. cbn [sf_bits]. unfold jbits, inf64. destruct sb; lia.
    + destruct f as [|p|p] eqn:Eff; [lia| |lia]. reflexivity.
  - destruct (be =? 0) eqn:E0.
    + destruct f as [|p|p] eqn:Eff; [| |lia].
      * cbn [Z.eqb sf_bits]. unfold jbits. destruct sb; lia.
      * cbn [Z.eqb]. cbv zeta.
        pose proof (nbits_bounds (Z.pos p) ltac:(lia)) as B.
        assert (Hk : 1 <= nbits (Z.pos p) <= 24).
        { split; [unfold nbits; cbn [Z.leb Z.compare]; pose proof (Z.log2_nonneg (Z.pos p)); lia|].
          destruct (Z_le_gt_dec (nbits (Z.pos p)) 24) as [L|G]; [exact L|].
          assert (2 ^ 23 <= 2 ^ (nbits (Z.pos p) - 1)) by (apply pow2_le; lia). lia. }
        destruct (binary_round_shift64 sb p (-149) (nbits (Z.pos p)) eq_refl Hk ltac:(lia)) as (m' & Hr & Hm').
        rewrite Hr. unfold sf_bits. cbv zeta. change (3 - 2 ^ (11 - 1) - (52 + 1)) with (-1074).
        set (n := nbits (Z.pos p)) in *.
        assert (H1 : 2 ^ (n - 1) * 2 ^ (53 - n) = 2 ^ 52) by (rewrite <- Z.pow_add_r by lia; f_equal; lia).
        assert (0 < 2 ^ (53 - n)) by (apply Z.pow_pos_nonneg; lia).
        destruct (0 <=? Z.pos m' - 2 ^ 52) eqn:Em; [|nia].
        unfold jbits. rewrite Hm'. destruct sb; lia.
    + cbv zeta. assert (HM : 2 ^ 23 <= f + 2 ^ 23 < 2 ^ (23 + 1)) by (change (2 ^ (23 + 1)) with (2 * 2 ^ 23); lia).
      pose proof (nbits_unique (f + 2 ^ 23) 23 ltac:(lia) HM) as Hd.
      destruct (f + 2 ^ 23) as [|p|p] eqn:EM; [lia| |lia].
      replace (be + -149 - 1) with (be - 150) by lia.
      destruct (binary_round_shift64 sb p (be - 150) 24 Hd ltac:(lia) ltac:(lia)) as (m' & Hr & Hm').
      rewrite Hr. unfold sf_bits. cbv zeta. change (3 - 2 ^ (11 - 1) - (52 + 1)) with (-1074).
      change (53 - 24) with 29 in Hm'. change (2 ^ 29) with 536870912 in *.
      destruct (0 <=? Z.pos m' - 2 ^ 52) eqn:Em; [|lia].
      unfold jbits. rewrite Hm'. destruct sb; lia.
Qed.
