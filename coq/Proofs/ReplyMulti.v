(* Proofs/ReplyMulti.v — multi-service replies: the parse of a reply built from per-service replies
   gives them back (multi_demux); each service reply is classified by its own status words; and for
   ARBITRARY reply bytes a valid sub-response is backed by status words the Spec reads at the same
   place (offset table entry i, service byte, general status byte). *)
From Coq Require Import String ZifyBool.
From PV Require Import Base.Bytes Base.BytesLemmas Base.Res Base.Proto Base.PyStr.
From PV Require Import Gen.Tables Gen.Types Gen.Status Gen.Consts Gen.ReplyTables.
From PV Require Import Model.EnumMapDefs Model.EnumMap Model.Reply Spec.ReplyReader.
From PV Require Import Proofs.EnumMapP Proofs.ReplyBase Proofs.ReplyValid.
Open Scope Z_scope.
Ltac Zify.zify_post_hook ::= Z.to_euclidean_division_equations.

(* ---------------------------------------------------------------- offsets *)
Fixpoint offs_of (o : Z) (rs : list bytes) : list Z :=
  match rs with [] => [] | r :: rest => o :: offs_of (o + Z.of_nat (length r)) rest end.

Lemma le_enc2 o : le_enc 2 o = [o mod 256; (o / 256) mod 256].
Proof. reflexivity. Qed.

Lemma decode_offsets_built o rs : 0 <= o -> o + Z.of_nat (length (concat rs)) < 65536 ->
  decode_offsets (multi_offsets o rs) = ROk (offs_of o rs).
Proof.
  revert o; induction rs as [|r rest IH]; intros o Ho Hs; [reflexivity|].
  cbn [multi_offsets offs_of]. rewrite le_enc2. cbn [app decode_offsets].
  cbn [concat] in Hs. rewrite app_length in Hs.
  rewrite IH by lia. rewrite UINT_eq. unfold elem_value. cbn [ety_signed ety_size le_dec].
  do 2 f_equal. lia.
Qed.

Lemma multi_offsets_length o rs : length (multi_offsets o rs) = (2 * length rs)%nat.
Proof. revert o; induction rs as [|r rest IH]; intros o; [reflexivity|]. cbn [multi_offsets length]. rewrite app_length, IH. cbn. lia. Qed.

Lemma slice_app_mid (pre r post : bytes) :
  slice (length pre) (length pre + length r) (pre ++ r ++ post) = r.
Proof.
  unfold slice. rewrite skipn_app, Nat.sub_diag, skipn_all. cbn [app skipn].
  replace (length pre + length r - length pre)%nat with (length r) by lia. apply firstn_app_exact.
Qed.

Lemma reply_slices_cons2 data o o' r :
  reply_slices data (o :: o' :: r) = slice (Z.to_nat o) (Z.to_nat o') data :: reply_slices data (o' :: r).
Proof. reflexivity. Qed.

Lemma reply_slices_built pre rs : rs <> [] ->
  reply_slices (pre ++ concat rs) (offs_of (Z.of_nat (length pre)) rs) = rs.
Proof.
  revert pre; induction rs as [|r rest IH]; intros pre Hne; [congruence|].
  destruct rest as [|r' rest'].
  - cbn [offs_of reply_slices concat]. rewrite Nat2Z.id, app_nil_r. now rewrite skipn_app_exact.
  - cbn [offs_of]. cbn [offs_of] in IH. rewrite reply_slices_cons2.
    rewrite Nat2Z.id. replace (Z.to_nat (Z.of_nat (length pre) + Z.of_nat (length r))) with (length pre + length r)%nat by lia.
    cbn [concat]. rewrite slice_app_mid. f_equal.
    specialize (IH (pre ++ r)). rewrite app_length, Nat2Z.inj_add in IH.
    rewrite <- app_assoc in IH. apply IH. discriminate.
Qed.

(* ---------------------------------------------------------------- multi_demux *)
Theorem multi_demux rs : rs <> [] -> multi_data_size rs < 65536 ->
  split_multi (multi_data rs) = ROk rs.
Proof.
  intros Hne Hsz. unfold multi_data_size in Hsz. unfold split_multi, multi_data.
  set (n := length rs) in *. assert (Hn : (0 < n)%nat) by (destruct rs; [congruence|cbn; lia]).
  rewrite decode_elem_full by (rewrite UINT_eq; cbn [ety_size]; rewrite !app_length, le_enc_length; lia).
  rewrite UINT_eq. cbn [ety_size ety_signed]. unfold elem_value. cbn [ety_signed].
  rewrite le_enc2. cbn [app firstn le_dec].
  replace (Z.of_nat n mod 256 + 256 * ((Z.of_nat n / 256) mod 256 + 256 * 0)) with (Z.of_nat n) by lia.
  rewrite Nat2Z.id.
  assert (Hod : slice 2 (2 + 2 * n) (Z.of_nat n mod 256 :: (Z.of_nat n / 256) mod 256 :: multi_offsets (2 + 2 * Z.of_nat n) rs ++ concat rs)
                = multi_offsets (2 + 2 * Z.of_nat n) rs).
  { unfold slice. cbn [skipn]. replace (2 + 2 * n - 2)%nat with (length (multi_offsets (2 + 2 * Z.of_nat n) rs)) by (rewrite multi_offsets_length; lia).
    apply firstn_app_exact. }
  rewrite Hod. rewrite decode_offsets_built by lia.
  f_equal.
  pose proof (reply_slices_built ([Z.of_nat n mod 256; (Z.of_nat n / 256) mod 256] ++ multi_offsets (2 + 2 * Z.of_nat n) rs) rs Hne) as H.
  rewrite app_length, multi_offsets_length in H. cbn [length] in H.
  replace (Z.of_nat (2 + 2 * length rs)) with (2 + 2 * Z.of_nat n) in H by (unfold n; lia).
  rewrite <- app_assoc in H. exact H.
Qed.

(* the same through the whole frame: 50 leading bytes (encapsulation header with status 0, CPF
   items, reply service with the reply bit, general status) followed by the reply data *)
Lemma no_additional_status_spec raw : no_additional_status raw = match nth_error raw 49 with Some b => b =? 0 | None => false end.
Proof. unfold no_additional_status. rewrite slice1. now destruct (nth_error raw 49). Qed.

Theorem multi_demux_frame hdr rs reqs : length hdr = 50%nat -> bytes_ok hdr = true ->
  u32_at 8 hdr = Some 0 -> (exists s, nth_error hdr 46 = Some s /\ 128 <= s) -> nth_error hdr 49 = Some 0 ->
  rs <> [] -> multi_data_size rs < 65536 -> bytes_ok (multi_data rs) = true ->
  parse_multi reqs (hdr ++ multi_data rs) = (parse_unit (hdr ++ multi_data rs), zip_sub rs reqs).
Proof.
  intros Hl Hok He (s & Hs & Hs128) H49 Hne Hsz Hokd.
  set (raw := hdr ++ multi_data rs).
  assert (Hokr : bytes_ok raw = true) by (unfold raw; rewrite bytes_ok_app, Hok, Hokd; reflexivity).
  unfold parse_multi, parse_unit.
  destruct (parse_cip_spec 46 48 50 raw Hokr) as (P1 & P2 & P3 & P4 & P5).
  assert (H46 : nth_error raw 46 = Some s) by (unfold raw; rewrite nth_error_app1; [exact Hs|lia]).
  assert (exists g, nth_error raw 48 = Some g) as [g H48].
  { destruct (nth_error raw 48) eqn:E; [eauto|]. apply nth_error_None in E. unfold raw in E. rewrite app_length in E. lia. }
  assert (He' : u32_at 8 raw = Some 0).
  { unfold u32_at, byte_at in He |- *. unfold raw. rewrite !nth_error_app1 by lia. exact He. }
  rewrite H46, H48 in P5. replace (128 <=? s) with true in P5 by lia.
  destruct P5 as (Q1 & Q2 & Q3 & Q4). rewrite He' in P4, Q4. cbn [option_map is_none] in P4, Q4.
  assert (Hna : no_additional_status raw = true) by (rewrite no_additional_status_spec; unfold raw; rewrite nth_error_app1 by lia; now rewrite H49).
  rewrite Q4, P4, Q3, Hna. cbn [orb negb opt_is].
  replace (skipn 50 raw) with (multi_data rs) by (unfold raw; rewrite <- Hl; now rewrite skipn_app_exact).
  pose proof (multi_demux rs Hne Hsz) as Hm.
  assert (Hcons : exists a q, multi_data rs = a :: q) by (unfold multi_data; rewrite le_enc2; cbn [app]; eauto).
  destruct Hcons as (a & q & Hc). rewrite Hc in *. unfold bytes in *. rewrite Hm. reflexivity.
Qed.

(* ---------------------------------------------------------------- per-service classification *)
Lemma spec_success_padded d : spec_success true unit_layout (padding46 ++ d) = sub_success d.
Proof.
  unfold spec_success, status_ok, status_words, reply_bit, sub_success, sub_words_ok, encap_status, u32_at, byte_at.
  cbn [l_svc l_status unit_layout]. unfold padding46.
  change (zeros 46 ++ d) with (zeros 8 ++ 0 :: 0 :: 0 :: 0 :: zeros 34 ++ d).
  change (nth_error (zeros 8 ++ 0 :: 0 :: 0 :: 0 :: zeros 34 ++ d) 8) with (Some 0).
  change (nth_error (zeros 8 ++ 0 :: 0 :: 0 :: 0 :: zeros 34 ++ d) (8 + 1)) with (Some 0).
  change (nth_error (zeros 8 ++ 0 :: 0 :: 0 :: 0 :: zeros 34 ++ d) (8 + 2)) with (Some 0).
  change (nth_error (zeros 8 ++ 0 :: 0 :: 0 :: 0 :: zeros 34 ++ d) (8 + 3)) with (Some 0).
  change (nth_error (zeros 8 ++ 0 :: 0 :: 0 :: 0 :: zeros 34 ++ d) 46) with (nth_error d 0).
  change (nth_error (zeros 8 ++ 0 :: 0 :: 0 :: 0 :: zeros 34 ++ d) 48) with (nth_error d 2).
  destruct (nth_error d 0) as [s|]; [|reflexivity].
  destruct (nth_error d 2) as [g|]; [|reflexivity].
  cbn [Z.eqb Z.add Z.mul andb]. destruct (128 <=? s); [now rewrite andb_true_r|now rewrite andb_false_r].
Qed.

Lemma padded_ok d : bytes_ok d = true -> bytes_ok (padding46 ++ d) = true.
Proof. intros H. unfold padding46. now rewrite bytes_ok_app, zeros_ok, H. Qed.

(* is_valid of a typed read response implies is_valid of the underlying SendUnitData parse *)
Lemma set_error_invalid k r e : is_valid k (set_error r e) = false.
Proof. destruct k; reflexivity. Qed.
Lemma read_tag_valid dec raw : is_valid KUnit (g_r (parse_read_tag dec raw)) = true -> is_valid KUnit (parse_unit raw) = true.
Proof.
  unfold parse_read_tag. destruct (is_valid KUnit (parse_unit raw)) eqn:E; [reflexivity|]. cbn [g_r]. now rewrite E.
Qed.

Theorem sub_response_valid q d : bytes_ok d = true ->
  is_valid KUnit (s_r (sub_response q d)) = true -> sub_success d = true.
Proof.
  intros Hok H. rewrite <- spec_success_padded, <- (unit_valid_iff _ (padded_ok d Hok)).
  destruct q as [dec|v]; cbn [sub_response s_r] in H; [now apply read_tag_valid in H|exact H].
Qed.
(* a write (or any untyped) sub-response: exactly the service reply's own status words *)
Theorem sub_response_write_iff v d : bytes_ok d = true ->
  is_valid KUnit (s_r (sub_response (SWrite v) d)) = sub_success d.
Proof. intros Hok. cbn [sub_response s_r]. now rewrite (unit_valid_iff _ (padded_ok d Hok)), spec_success_padded. Qed.
(* a read sub-response: the status words say success AND the value decodes *)
Theorem sub_response_read_iff dec d : bytes_ok d = true ->
  is_valid KUnit (s_r (sub_response (SRead dec) d)) =
  sub_success d && negb (is_err (parse_read_reply dec (skipn 4 d))).
Proof.
  intros Hok. cbn [sub_response s_r]. unfold parse_read_tag.
  rewrite (unit_valid_iff _ (padded_ok d Hok)), spec_success_padded.
  destruct (sub_success d) eqn:Es; [|cbn [g_r]; now rewrite (unit_valid_iff _ (padded_ok d Hok)), spec_success_padded, Es].
  assert (Hv : is_valid KUnit (parse_unit (padding46 ++ d)) = true)
    by now rewrite (unit_valid_iff _ (padded_ok d Hok)), spec_success_padded.
  assert (Hd : r_data (parse_unit (padding46 ++ d)) = Some (skipn 4 d)).
  { destruct (parse_cip_spec 46 48 50 _ (padded_ok d Hok)) as (P1 & P2 & P3 & P4 & P5).
    unfold sub_success, byte_at in Es.
    change (nth_error (padding46 ++ d) 46) with (nth_error d 0) in P5.
    change (nth_error (padding46 ++ d) 48) with (nth_error d 2) in P5.
    destruct (nth_error d 0) as [s|]; [|discriminate]. destruct (nth_error d 2) as [g|]; [|discriminate].
    unfold sub_words_ok in Es. apply andb_true_iff in Es as [Es _]. rewrite Es in P5.
    destruct P5 as (_ & _ & Q3 & _). exact Q3. }
  rewrite Hd. destruct (parse_read_reply dec (skipn 4 d)) as [v|x m]; cbn [g_r is_err negb andb].
  - exact Hv.
  - apply set_error_invalid.
Qed.

(* ---------------------------------------------------------------- arbitrary bytes: where a valid sub-response reads its words *)
Lemma nth_error_firstn_some {A} n (l : list A) j x : nth_error (firstn n l) j = Some x -> nth_error l j = Some x.
Proof.
  revert l j; induction n as [|n IH]; intros l j H; [destruct j; discriminate|].
  destruct l as [|y l]; [destruct j; discriminate|]. destruct j as [|j]; [exact H|]. cbn in *. now apply IH.
Qed.
Lemma nth_error_slice a b (l : bytes) j x : nth_error (slice a b l) j = Some x -> nth_error l (a + j) = Some x.
Proof. unfold slice. intros H. apply nth_error_firstn_some in H. now rewrite nth_error_skipn_add in H. Qed.

Lemma list_pair_ind {A} (P : list A -> Prop) :
  P [] -> (forall a, P [a]) -> (forall a b r, P r -> P (a :: b :: r)) -> forall l, P l.
Proof. intros H0 H1 H2. fix F 1. intros [|a [|b r]]; [exact H0|apply H1|apply H2, F]. Qed.

Lemma decode_offsets_nth od : forall offs, decode_offsets od = ROk offs ->
  forall i o, nth_error offs i = Some o -> u16_at (2 * i) od = Some o.
Proof.
  induction od as [|a|a b r IH] using list_pair_ind; intros offs H i o Hi; cbn [decode_offsets] in H.
  - injection H as <-. destruct i; discriminate.
  - discriminate.
  - destruct (decode_offsets r) as [l|x m] eqn:E; [|discriminate]. injection H as <-.
    destruct i as [|i].
    + cbn [nth_error] in Hi. injection Hi as <-. rewrite UINT_eq. unfold elem_value. cbn [ety_signed le_dec].
      unfold u16_at, byte_at. cbn [nth_error Nat.mul Nat.add]. f_equal. lia.
    + cbn [nth_error] in Hi.
      pose proof (IH l eq_refl i o Hi) as H2.
      unfold u16_at, byte_at in *. replace (2 * S i)%nat with (S (S (2 * i))) by lia.
      replace (S (S (2 * i)) + 1)%nat with (S (S (2 * i + 1))) by lia. exact H2.
Qed.

Lemma reply_slices_nth data offs : forall i d, nth_error (reply_slices data offs) i = Some d ->
  exists o, nth_error offs i = Some o /\ forall j x, nth_error d j = Some x -> nth_error data (Z.to_nat o + j) = Some x.
Proof.
  induction offs as [|o r IH]; intros i d H; [destruct i; discriminate|].
  cbn [reply_slices] in H. destruct r as [|o' r'].
  - destruct i as [|i]; [|destruct i; discriminate]. cbn [nth_error] in H. injection H as <-.
    exists o. split; [reflexivity|]. intros j x Hj. now rewrite nth_error_skipn_add in Hj.
  - destruct i as [|i].
    + cbn [nth_error] in H. injection H as <-. exists o. split; [reflexivity|]. intros j x Hj. now apply nth_error_slice in Hj.
    + cbn [nth_error] in H. destruct (IH i d H) as (o2 & Ho & Hj). exists o2. split; [exact Ho|exact Hj].
Qed.

Lemma zip_sub_nth ds qs i s : nth_error (zip_sub ds qs) i = Some s ->
  exists d q, nth_error ds i = Some d /\ nth_error qs i = Some q /\ s = sub_response q d.
Proof.
  revert qs i; induction ds as [|d ds IH]; intros qs i H; [destruct i; discriminate|].
  destruct qs as [|q qs]; [destruct i; discriminate|]. cbn [zip_sub] in H.
  destruct i as [|i]; [injection H as <-; exists d, q; auto|]. cbn [nth_error] in *. now apply IH.
Qed.

Lemma u16_at_shift k i raw : u16_at i (skipn k raw) = u16_at (k + i) raw.
Proof. unfold u16_at, byte_at. rewrite !nth_error_skipn_add. now rewrite Nat.add_assoc. Qed.

Lemma bytes_ok_slice a b l : bytes_ok l = true -> bytes_ok (slice a b l) = true.
Proof. intros H. unfold slice. now apply bytes_ok_firstn, bytes_ok_skipn. Qed.
Lemma reply_slices_ok data offs : bytes_ok data = true -> forall d, In d (reply_slices data offs) -> bytes_ok d = true.
Proof.
  intros Hok. induction offs as [|o r IH]; intros d H; [contradiction|].
  cbn [reply_slices] in H. destruct r as [|o' r'].
  - destruct H as [<-|[]]. now apply bytes_ok_skipn.
  - destruct H as [<-|H]; [now apply bytes_ok_slice|now apply IH].
Qed.

(* the words a valid sub-response was computed from are the words the Spec reads, and service
   replies are split only under encapsulation status 0 *)
Theorem multi_sub_words_of_valid reqs raw r subs i s : bytes_ok raw = true ->
  parse_multi reqs raw = (r, subs) -> nth_error subs i = Some s -> is_valid KUnit (s_r s) = true ->
  multi_sub_success raw i = true.
Proof.
  intros Hok Hp Hi Hv. unfold parse_multi in Hp.
  destruct (parse_cip_spec 46 48 50 raw Hok) as (_ & _ & _ & P4 & P5). fold (parse_unit raw) in P4, P5.
  destruct (is_some (r_error (parse_unit raw)) || negb (opt_is (r_command_status (parse_unit raw)) SUCCESS) || negb (no_additional_status raw)) eqn:Eg.
  { injection Hp as <- <-. destruct i; discriminate. }
  apply orb_false_iff in Eg as [Eg _]. apply orb_false_iff in Eg as [_ Ecs]. apply negb_false_iff in Ecs.
  (* encapsulation status 0 *)
  assert (Hen : encap_status raw = Some 0).
  { unfold encap_status. rewrite P4 in Ecs. destruct (u32_at 8 raw) as [e|] eqn:Ee; [|discriminate].
    cbn [option_map opt_is] in Ecs. unfold SUCCESS in Ecs. rewrite (to_signed4_zero e (u32_range 8 raw e Hok Ee)) in Ecs. f_equal. lia. }
  assert (Hdata : r_data (parse_unit raw) = None \/ r_data (parse_unit raw) = Some (skipn 50 raw)).
  { destruct (nth_error raw 46) as [sv|]; [destruct (nth_error raw 48) as [g|]|]; try (left; apply P5).
    destruct (128 <=? sv); [right|left]; apply P5. }
  destruct Hdata as [Hd|Hd]; rewrite Hd in Hp.
  { injection Hp as <- <-. destruct i; discriminate. }
  assert (Hokd0 : bytes_ok (skipn 50 raw) = true) by (apply bytes_ok_skipn, Hok).
  destruct (skipn 50 raw) as [|x0 q0] eqn:Edata; [injection Hp as <- <-; destruct i; discriminate|].
  set (data := x0 :: q0) in *. assert (Hokd : bytes_ok data = true) by exact Hokd0.
  destruct (split_multi data) as [ds|x m] eqn:Es; [|injection Hp as <- <-; destruct i; discriminate].
  injection Hp as <- <-. unfold split_multi in Es.
  destruct (decode_elem UINT_t data) as [num|x m] eqn:En; [|discriminate].
  assert (Hnum : u16_at 0 data = Some num).
  { unfold decode_elem in En. rewrite UINT_eq in En. cbn [ety_size] in En.
    rewrite u16_at_skipn. cbn [skipn]. clearbody data. destruct data as [|a [|b q]]; cbn [firstn length Nat.ltb Nat.leb] in En; try discriminate.
    injection En as <-. unfold elem_value. cbn [ety_signed ety_size le_dec firstn]. f_equal. lia. }
  destruct (decode_offsets (slice 2 (2 + 2 * Z.to_nat num) data)) as [offs|x m] eqn:Eo; [|discriminate].
  injection Es as <-.
  destruct (zip_sub_nth _ _ _ _ Hi) as (d & q & Hd1 & Hq & ->).
  destruct (reply_slices_nth data offs i d Hd1) as (o & Ho & Hj).
  pose proof (decode_offsets_nth _ _ Eo i o Ho) as Hu.
  assert (Hokdd : bytes_ok d = true) by (apply (reply_slices_ok data offs Hokd), (nth_error_In _ _ Hd1)).
  pose proof (sub_response_valid q d Hokdd Hv) as Hss.
  unfold sub_success, byte_at in Hss.
  destruct (nth_error d 0) as [sv|] eqn:E0; [|discriminate]. destruct (nth_error d 2) as [g|] eqn:E2; [|discriminate].
  pose proof (Hj 0%nat sv E0) as H0. pose proof (Hj 2%nat g E2) as H2.
  assert (Hu2 : u16_at (2 + 2 * i) data = Some o /\ Z.of_nat i < num).
  { unfold u16_at, byte_at in Hu. destruct (nth_error (slice 2 (2 + 2 * Z.to_nat num) data) (2 * i)) as [a|] eqn:Ea; [|discriminate].
    destruct (nth_error (slice 2 (2 + 2 * Z.to_nat num) data) (2 * i + 1)) as [b|] eqn:Eb; [|discriminate].
    assert (Hlen : (2 * i + 1 < length (slice 2 (2 + 2 * Z.to_nat num) data))%nat) by (apply nth_error_Some; congruence).
    unfold slice in Hlen. rewrite firstn_length in Hlen.
    apply nth_error_slice in Ea. apply nth_error_slice in Eb.
    unfold u16_at, byte_at. replace (2 + 2 * i + 1)%nat with (2 + (2 * i + 1))%nat by lia. rewrite Ea, Eb.
    split; [exact Hu|]. pose proof (u16_range 0 data num Hokd Hnum). lia. }
  destruct Hu2 as [Hu2 Hlt].
  unfold multi_sub_success. rewrite Hen.
  unfold multi_sub_words, multi_count, multi_offset, multi_base, byte_at.
  clearbody data. rewrite <- Edata in Hnum, Hu2, H0, H2.
  rewrite u16_at_shift in Hnum, Hu2. rewrite nth_error_skipn_add in H0, H2.
  replace (50 + 0)%nat with 50%nat in Hnum by lia. rewrite Hnum.
  replace (50 + 2 + 2 * i)%nat with (50 + (2 + 2 * i))%nat by lia. rewrite Hu2.
  replace (Z.of_nat i <? num) with true by lia.
  replace (50 + Z.to_nat o)%nat with (50 + (Z.to_nat o + 0))%nat by lia. rewrite H0.
  replace (50 + (Z.to_nat o + 0) + 2)%nat with (50 + (Z.to_nat o + 2))%nat by lia. rewrite H2.
  cbn [Z.eqb andb]. exact Hss.
Qed.
