(* Proofs/ReadFrag.v — _send_read_fragmented against the reference target: for EVERY fragment-length
   policy of the target the loop terminates (fuel > number of bytes suffices), asks each time for
   the number of bytes received so far, and the reassembled bytes are the whole addressed data;
   the result is parse_read_reply on type field ++ data, exactly as for an unfragmented read.
   (The arithmetic of the offsets for arbitrary fragment lists is PlanP.read_frag_offsets; here the
   peer is the target and the lengths are what its policy dictates.)  No axioms. *)
From Coq Require Import ZifyBool.
From PV Require Import Base.Bytes Base.BytesLemmas Base.Res Base.PyStr.
From PV Require Import Gen.Consts Model.Path Model.Reply Model.LogixRead.
From PV Require Import Spec.EncapParser Spec.MRParser Spec.TargetIface Spec.TargetCore Spec.Project Spec.Expect Spec.TargetLogix.
From PV Require Import Proofs.TargetCoreP Proofs.TargetLogixP Proofs.ReadBits Proofs.ReadDecode Proofs.ReadTarget Proofs.ReadValue.
Open Scope Z_scope.
Ltac Zify.zify_post_hook ::= Z.to_euclidean_division_equations.

(* the type field of a reply is recognised and cut off *)
Definition tb_ok (tb : bytes) : Prop :=
  forall d, (if is_struct_reply (tb ++ d) then skipn 4 (tb ++ d) else skipn 2 (tb ++ d)) = d
            /\ (if is_struct_reply (tb ++ d) then firstn 4 (tb ++ d) else firstn 2 (tb ++ d)) = tb.

Lemma type_field_tb_ok p ty tb : type_field p ty tb -> tb_ok tb.
Proof.
  intros H d. destruct (type_field_stream p ty tb d H) as [H1 H2]. split; [exact H1|].
  rewrite H2. destruct ty as [c|tid|w]; cbn [type_field] in H.
  - destruct H as [-> _]. reflexivity.
  - destruct H as (t & _ & ->). reflexivity.
  - contradiction.
Qed.

Lemma send_some {St} (peer : St -> bytes -> St * option bytes) st msg st' r :
  peer st msg = (st', Some r) -> send peer st msg = (st', Done (unit_prefix ++ r)).
Proof. intros H. unfold send. rewrite H. reflexivity. Qed.

Lemma loc_bytes_length pol img l from k d : loc_bytes pol img l from k = Some d ->
  (w_bit l = None -> Path.len d = k) /\ (w_bit l <> None -> Path.len d = 1).
Proof.
  unfold loc_bytes. destruct (w_bit l).
  - destruct (get_bytes img (w_off l) 1) as [[|x [|y t]]|]; try discriminate. intros H; injection H as <-.
    split; [discriminate|reflexivity].
  - intros H. apply get_bytes_len in H. split; [intros _; exact H|congruence].
Qed.

Section Frag.
  Variables (app : lstate) (ms : bool) (conn : Z).
  Variables (path pb : bytes) (q : preq) (l : wloc) (img : bytes) (s : Z) (tb full : bytes).
  Let n := pq_elements q.
  Let total := n * s.
  Let room := conn - 2 - 4 - Expect.blen tb.
  Hypothesis Hpw : path_wf path pb.
  Hypothesis Hcia : tag_cia pb.
  Hypothesis Hres : resolve_path (ls_proj app) false pb = TgTag l.
  Hypothesis Hmem : mem_get (ls_mem app) (w_inst l) = Some img.
  Hypothesis Hn : 0 <= n < 65536.
  Hypothesis Hs : loc_esize (ls_proj app) l = Some s.
  Hypothesis Htb : type_bytes (ls_proj app) l = Some tb.
  Hypothesis Htbok : tb_ok tb.
  Hypothesis Hs1 : 1 <= s.
  Hypothesis Hav : 1 <= n <= w_avail l.
  Hypothesis Hroom : s <= room.
  Hypothesis Hmsg : 2 + (1 + EncapParser.blen path + 6) <= conn.
  Hypothesis Htot : total < 4294967296.
  Hypothesis Hfull : loc_bytes (ls_pol app) img l 0 total = Some full.
  Hypothesis Hbit : w_bit l <> None -> total = 1.

  (* what has been received before asking for offset [off] *)
  Definition received (off : Z) (joined : bytes) : Prop :=
    (off = 0 /\ joined = []) \/ (0 < off /\ w_bit l = None /\ get_bytes img (w_off l) off = Some joined).

  Lemma frag_loop_ok : forall (k : nat) fuel st off joined sent,
    quiet app ms st -> 0 <= off < total -> (loc_is_struct l = false -> off mod s = 0) ->
    received off joined -> (Z.to_nat (total - off) <= k)%nat -> (k < fuel)%nat ->
    exists st' sent',
      frag_loop (target_peer conn) fuel st path q off true joined sent
      = (st', sent', Done (reply_opt (tb ++ full) (pq_info q) n)) /\ quiet app ms st'.
  Proof.
    induction k as [|k IH]; intros fuel st off joined sent Hq Hoff Hal Hrec Hk Hfuel; [lia|].
    destruct fuel as [|fuel]; [lia|]. cbn [frag_loop]. fold n.
    unfold frag_message, UINT_encode, UDINT_encode, uint_encode.
    assert (X2 : in_urange 2 n = true) by (unfold in_urange; change (pow256 2) with 65536; lia).
    assert (X4 : in_urange 4 off = true) by (unfold in_urange; change (pow256 4) with 4294967296; lia).
    rewrite X2, X4.
    cbn [bind]. unfold SVC_READ_FRAG.
    set (kk := Z.min (n * s - off) (frag_lim (ls_pol app) l s room off)).
    destruct (frag_lim_bounds (ls_pol app) l s room off Hs1 Hroom) as [Hlim Hlimmod].
    assert (Hkk : 1 <= kk <= total - off) by (subst kk total; lia).
    (* the fragment *)
    assert (Hfrag : exists d, loc_bytes (ls_pol app) img l off kk = Some d /\ Path.len d = kk
                              /\ (off + kk < total -> received (off + kk) (joined ++ d))
                              /\ (off + kk = total -> joined ++ d = full)).
    { unfold loc_bytes in *. destruct (w_bit l) as [b|] eqn:Eb.
      - assert (total = 1) by (apply Hbit; discriminate). assert (off = 0) by lia. assert (kk = 1) by lia.
        destruct (get_bytes img (w_off l) 1) as [[|x [|y t]]|]; try discriminate.
        eexists. split; [reflexivity|]. split; [subst kk; rewrite H1; reflexivity|].
        destruct Hrec as [[_ ->]|[? _]]; [|lia]. split.
        + intros ?. lia.
        + intros _. cbn [List.app]. congruence.
      - destruct (get_bytes_split _ _ _ _ Hfull) as (_ & Hlf & Ho0 & _ & Hfit).
        destruct (get_bytes_some img (w_off l + off) kk) as [d Hd]; [lia|lia|unfold Path.len in *; lia|].
        exists d. split; [exact Hd|]. split; [apply (get_bytes_len _ _ _ _ Hd)|].
        assert (Hj : get_bytes img (w_off l) off = Some joined).
        { destruct Hrec as [[-> ->]|(_ & _ & H)]; [|exact H]. unfold get_bytes.
          replace ((0 <=? w_off l) && (0 <=? 0) && (w_off l + 0 <=? Expect.blen img)) with true
            by (unfold Expect.blen, Path.len in *; lia). reflexivity. }
        pose proof (get_bytes_concat _ _ _ _ _ _ Hj Hd) as Hc.
        split.
        + intros _. right. split; [lia|]. split; [exact Eb|exact Hc].
        + intros E. rewrite E in Hc. replace (w_off l + 0) with (w_off l) in Hfull by lia. congruence. }
    destruct Hfrag as (d & Hd & Hld & Hrec' & Hlast).
    destruct (peer_frag app ms st conn path pb n l img s tb off d Hq Hpw Hcia Hres Hmem Hn ltac:(lia) Hs Htb Hs1 Hav
                ltac:(subst total; lia) Hal Hroom Hd Hmsg) as (st1 & Hpeer & Hq1).
    change (Z.min (n * s - off) (frag_lim (ls_pol app) l s (conn - 2 - 4 - Expect.blen tb) off)) with kk in Hpeer.
    rewrite (send_some _ _ _ _ _ Hpeer). cbv beta iota.
    set (stt := if kk <? n * s - off then 6 else 0) in *.
    assert (Hst : stt = 0 \/ stt = 6) by (subst stt; destruct (kk <? n * s - off); auto).
    destruct (parse_unit_210 stt (tb ++ d) Hst) as (Hvalid & Hdata & Hstatus).
    rewrite Hdata. destruct (Htbok d) as [Hvb Hdt]. rewrite Hvb, Hdt, Hstatus, Hvalid. cbn [andb].
    unfold opt_is, INSUFFICIENT_PACKETS. subst stt.
    destruct (kk <? n * s - off) eqn:Emore.
    - (* more follows *)
      change (6 =? 6) with true. cbv iota. rewrite Hld.
      assert (Emore' : kk < total - off) by (subst total; lia).
      assert (P1 : 0 <= off + kk < total) by lia.
      assert (P2 : loc_is_struct l = false -> (off + kk) mod s = 0).
      { intros Hns. specialize (Hal Hns). specialize (Hlimmod Hns).
        assert (Hkm : kk mod s = 0).
        { unfold kk. destruct (Z.min_spec (n * s - off) (frag_lim (ls_pol app) l s room off)) as [[_ ->]|[_ ->]]; [|exact Hlimmod].
          rewrite Zminus_mod, Hal, Z.mod_mul by lia. reflexivity. }
        rewrite Z.add_mod, Hal, Hkm by lia. reflexivity. }
      assert (P3 : received (off + kk) (joined ++ d)) by (apply Hrec'; lia).
      assert (P4 : (Z.to_nat (total - (off + kk)) <= k)%nat) by lia.
      assert (P5 : (k < fuel)%nat) by lia.
      destruct (IH fuel st1 (off + kk) (joined ++ d) (sent ++ [82 :: path ++ le_enc 2 n ++ le_enc 4 off]) Hq1 P1 P2 P3 P4 P5)
        as (st' & sent' & Hl & Hq').
      exists st', sent'. split; [exact Hl|exact Hq'].
    - (* the last fragment *)
      change (0 =? 6) with false. cbv iota.
      assert (off + kk = total) by (subst total; lia).
      rewrite (Hlast H). exists st1. eexists. split; [reflexivity|exact Hq1].
  Qed.

  (* _send_read_fragmented from offset 0 *)
  Theorem frag_read_ok fuel st sent : quiet app ms st -> (Z.to_nat total < fuel)%nat ->
    exists st' sent',
      frag_loop (target_peer conn) fuel st path q 0 true [] sent
      = (st', sent', Done (reply_opt (tb ++ full) (pq_info q) n)) /\ quiet app ms st'.
  Proof.
    intros Hq Hfuel. apply (frag_loop_ok (Z.to_nat total) fuel st 0 [] sent Hq).
    - subst total. nia.
    - intros _. apply Z.mod_0_l. lia.
    - left. split; reflexivity.
    - lia.
    - exact Hfuel.
  Qed.
End Frag.
