(* Proofs/SeqP.v — arithmetic of the sequence counter and freshness over arbitrary histories. *)
From PV Require Import Base.Bytes Model.Seq.
From PV Require Import Gen.SeqGen.
From Coq Require Import ZifyBool.
Open Scope Z_scope.
Ltac Zify.zify_post_hook ::= Z.to_euclidean_division_equations.

(* --- generic in stop/start: one iteration of the translated generator body *)
Section Generic.
Variables stop start : Z.
Hypothesis Hss : start <= stop.
Let P := stop - start + 1.

(* counter variable invariant and its abstract position *)
Definition inv (v : Z) : Prop := start <= v <= stop + 1.
Definition pos (v : Z) : Z := (v - start) mod P.

Lemma step_inv v : inv v -> inv (snd (cycle_step stop start v)).
Proof.
  unfold inv, cycle_step. intros H. destruct (v >? stop) eqn:E; cbn [snd]; lia.
Qed.

Lemma step_yield v : inv v -> fst (cycle_step stop start v) = start + pos v.
Proof.
  unfold inv, cycle_step, pos, P. intros H. destruct (v >? stop) eqn:E; cbn [fst].
  - assert (v = stop + 1) by lia. subst v.
    replace (stop + 1 - start) with (1 * (stop - start + 1)) by lia.
    rewrite Z.mod_mul by lia. lia.
  - rewrite Z.mod_small by lia. lia.
Qed.

Lemma step_pos v : inv v -> pos (snd (cycle_step stop start v)) = (pos v + 1) mod P.
Proof.
  unfold inv, cycle_step, pos, P. intros H. destruct (v >? stop) eqn:E; cbn [snd].
  - assert (v = stop + 1) by lia. subst v.
    replace (stop + 1 - start) with (1 * (stop - start + 1)) by lia.
    rewrite Z.mod_mul by lia. replace (start + 1 - start) with 1 by lia. reflexivity.
  - replace (v + 1 - start) with ((v - start) + 1) by lia.
    rewrite <- Zplus_mod_idemp_l. reflexivity.
Qed.

Lemma yield_range v : inv v -> start <= fst (cycle_step stop start v) <= stop.
Proof.
  intros H. rewrite step_yield by exact H. unfold pos, P.
  assert (0 <= (v - start) mod (stop - start + 1) < stop - start + 1) by (apply Z.mod_pos_bound; lia). lia.
Qed.

Lemma pos_range v : 0 <= pos v < P.
Proof. unfold pos, P. apply Z.mod_pos_bound. lia. Qed.
End Generic.

(* --- instantiated with the constants CIPDriver.__init__ passes *)
Lemma consts_ok : SEQ_START <= SEQ_STOP /\ 2 <= PERIOD /\ 1 <= SEQ_START /\ SEQ_STOP < 65536.
Proof. vm_compute. repeat split; congruence. Qed.

Definition sinv := inv SEQ_STOP SEQ_START.
Definition spos := pos SEQ_STOP SEQ_START.

Lemma init_inv : sinv seq_init.
Proof. pose proof consts_ok as [H _]. unfold sinv, inv, seq_init, cycle_init. lia. Qed.

Lemma draw_inv v : sinv v -> sinv (snd (draw v)).
Proof. intros H. pose proof (proj1 consts_ok) as C. unfold sinv, draw in *. eauto using step_inv. Qed.
Lemma draw_yield v : sinv v -> fst (draw v) = SEQ_START + spos v.
Proof. intros H. exact (step_yield SEQ_STOP SEQ_START (proj1 consts_ok) v H). Qed.
Lemma draw_pos v : sinv v -> spos (snd (draw v)) = (spos v + 1) mod PERIOD.
Proof. intros H. exact (step_pos SEQ_STOP SEQ_START (proj1 consts_ok) v H). Qed.
Lemma spos_range v : 0 <= spos v < PERIOD.
Proof. exact (pos_range SEQ_STOP SEQ_START (proj1 consts_ok) v). Qed.

(* every count put on the wire fits the 16-bit field and is at least 1 *)
Lemma draw_range v : sinv v -> 1 <= fst (draw v) <= 65535.
Proof.
  intros H. pose proof (yield_range SEQ_STOP SEQ_START (proj1 consts_ok) v H) as R.
  pose proof consts_ok as (_ & _ & H1 & H2). unfold draw. lia.
Qed.

(* k-th yielded value: start + (position + k) mod PERIOD *)
Lemma nth_yield_closed k : forall v, sinv v -> nth_yield k v = SEQ_START + (spos v + Z.of_nat k) mod PERIOD.
Proof.
  induction k as [|k IH]; intros v Hv.
  - cbn [nth_yield]. rewrite draw_yield by exact Hv. pose proof (spos_range v).
    rewrite Z.add_0_r, Z.mod_small by lia. reflexivity.
  - cbn [nth_yield]. rewrite IH by (apply draw_inv; exact Hv). rewrite draw_pos by exact Hv.
    rewrite Zplus_mod_idemp_l. f_equal. f_equal. lia.
Qed.

Lemma mod_eq_iff a b m : 0 < m -> (a mod m = b mod m <-> (a - b) mod m = 0).
Proof.
  intros Hm. split; intros H.
  - rewrite Zminus_mod, H, Z.sub_diag. apply Z.mod_0_l. lia.
  - apply Z.mod_divide in H; [|lia]. destruct H as [q Hq].
    replace a with (b + q * m) by lia. apply Z.mod_add. lia.
Qed.

(* two draws give the same count exactly when their distance is a multiple of the period *)
Theorem cycle_equal_iff i j v : sinv v ->
  (nth_yield i v = nth_yield j v <-> (Z.of_nat i - Z.of_nat j) mod PERIOD = 0).
Proof.
  intros Hv. rewrite !nth_yield_closed by exact Hv.
  pose proof consts_ok as (_ & HP & _).
  split; intros H.
  - assert (E : (spos v + Z.of_nat i) mod PERIOD = (spos v + Z.of_nat j) mod PERIOD) by lia.
    apply mod_eq_iff in E; [|lia].
    replace (spos v + Z.of_nat i - (spos v + Z.of_nat j)) with (Z.of_nat i - Z.of_nat j) in E by lia. exact E.
  - f_equal. apply mod_eq_iff; [lia|].
    replace (spos v + Z.of_nat i - (spos v + Z.of_nat j)) with (Z.of_nat i - Z.of_nat j) by lia. exact H.
Qed.

(* --- histories *)
(* the state after g plain draws *)
Fixpoint skip (g : nat) (v : Z) : Z := match g with O => v | S g' => skip g' (snd (draw v)) end.
Lemma skip_inv g : forall v, sinv v -> sinv (skip g v).
Proof. induction g as [|g IH]; intros v H; cbn [skip]; [exact H|]. apply IH, draw_inv, H. Qed.
Lemma skip_pos g : forall v, sinv v -> spos (skip g v) = (spos v + Z.of_nat g) mod PERIOD.
Proof.
  induction g as [|g IH]; intros v H; cbn [skip].
  - pose proof (spos_range v). rewrite Z.add_0_r, Z.mod_small by lia. reflexivity.
  - rewrite IH by (apply draw_inv, H). rewrite draw_pos by exact H.
    rewrite Zplus_mod_idemp_l. f_equal. lia.
Qed.

(* generalised statement: [prev] = position of the last sent count (if any), [cur] plain draws since *)
Definition last_ok (prev : option Z) (c : Z) : bool :=
  match prev with None => true | Some p => negb (c =? p) end.

Fixpoint no_repeat_from (prev : option Z) (l : list Z) : bool :=
  match l with
  | [] => true
  | a :: r => last_ok prev a && no_repeat_from (Some a) r
  end.

Lemma has_repeat_neg l : forall prev, has_repeat_from prev l = negb (no_repeat_from prev l).
Proof.
  induction l as [|a r IH]; intros prev; [reflexivity|].
  cbn [has_repeat_from no_repeat_from last_ok]. rewrite IH, Bool.negb_andb.
  destruct prev as [p|]; cbn [last_ok negb]; [rewrite Bool.negb_involutive|]; reflexivity.
Qed.

(* main induction: with [cur] plain draws since the last send whose count had position [pp] *)
Lemma sent_counts_fresh h : forall v (prev : option Z) (cur : Z),
  sinv v -> 0 <= cur ->
  (match prev with
   | Some c => exists pp, c = SEQ_START + pp /\ 0 <= pp < PERIOD /\ spos v = (pp + 1 + cur) mod PERIOD
   | None => True end) ->
  no_repeat_from prev (sent_counts h v)
  = forallb gap_ok (gaps_aux h (match prev with Some _ => true | None => false end) cur).
Proof.
  pose proof consts_ok as (_ & HP & _).
  induction h as [|e r IH]; intros v prev cur Hv Hc Hp.
  - reflexivity.
  - destruct e; cbn [sent_counts gaps_aux].
    + (* Draw *)
      apply IH; [apply draw_inv, Hv | lia |].
      destruct prev as [c|]; [|exact I].
      destruct Hp as (pp & -> & Hpp & Hs). exists pp. repeat split; try lia.
      rewrite draw_pos by exact Hv. rewrite Hs, Zplus_mod_idemp_l. f_equal. lia.
    + (* DrawSend *)
      cbn [no_repeat_from].
      assert (Hnext : exists pp, fst (draw v) = SEQ_START + pp /\ 0 <= pp < PERIOD /\
                                 spos (snd (draw v)) = (pp + 1 + 0) mod PERIOD).
      { exists (spos v). pose proof (spos_range v). repeat split; try lia.
        - apply draw_yield, Hv.
        - rewrite draw_pos by exact Hv. f_equal. lia. }
      rewrite (IH (snd (draw v)) (Some (fst (draw v))) 0 (draw_inv v Hv) ltac:(lia) Hnext).
      destruct prev as [c|]; cbn [last_ok].
      * destruct Hp as (pp & -> & Hpp & Hs). cbn [forallb]. f_equal.
        rewrite draw_yield by exact Hv. rewrite Hs. unfold gap_ok.
        (* (pp + 1 + cur) mod P = pp  <->  (cur + 1) mod P = 0 *)
        destruct ((cur + 1) mod PERIOD =? 0) eqn:E.
        -- assert (E' : (cur + 1) mod PERIOD = 0) by lia.
           assert ((pp + 1 + cur) mod PERIOD = pp).
           { replace (pp + 1 + cur) with (pp + (cur + 1)) by lia.
             rewrite <- Zplus_mod_idemp_r, E', Z.add_0_r. apply Z.mod_small. lia. }
           rewrite H, Z.eqb_refl. reflexivity.
        -- assert (E' : (cur + 1) mod PERIOD <> 0) by lia.
           assert ((pp + 1 + cur) mod PERIOD <> pp).
           { intros K. apply E'.
             assert (K2 : (pp + 1 + cur) mod PERIOD = pp mod PERIOD) by (rewrite K; symmetry; apply Z.mod_small; lia).
             apply mod_eq_iff in K2; [|lia].
             replace (pp + 1 + cur - pp) with (cur + 1) in K2 by lia. exact K2. }
           destruct (Z.eqb_spec (SEQ_START + (pp + 1 + cur) mod PERIOD) (SEQ_START + pp)) as [K|K]; [lia|reflexivity].
      * reflexivity.
Qed.

(* for EVERY history: a message repeats its predecessor's count exactly when the guard fires *)
Theorem repeat_iff_guard h : has_repeat (sent_counts h seq_init) = C17_guard h.
Proof.
  unfold has_repeat. rewrite has_repeat_neg. unfold C17_guard, gaps. f_equal.
  apply (sent_counts_fresh h seq_init None 0 init_inv); [lia | exact I].
Qed.

Theorem fresh_guarded h : C17_guard h = false -> has_repeat (sent_counts h seq_init) = false.
Proof. intros H. rewrite repeat_iff_guard. exact H. Qed.

(* all sent counts are valid 16-bit values >= 1 *)
Lemma sent_counts_range h : forall v, sinv v -> Forall (fun c => 1 <= c <= 65535) (sent_counts h v).
Proof.
  induction h as [|e r IH]; intros v Hv; cbn [sent_counts]; [constructor|].
  destruct e; [apply IH, draw_inv, Hv|].
  constructor; [apply draw_range, Hv | apply IH, draw_inv, Hv].
Qed.

(* a history whose every gap is below PERIOD - 1 satisfies the guard: in particular any history in
   which each API call draws fewer than PERIOD - 1 counts between two sends *)
Lemma small_gaps_ok h : Forall (fun g => 0 <= g < PERIOD - 1) (gaps h) -> C17_guard h = false.
Proof.
  intros H. unfold C17_guard. apply Bool.negb_false_iff. apply forallb_forall. intros g Hg.
  rewrite Forall_forall in H. specialize (H g Hg). unfold gap_ok.
  pose proof consts_ok as (_ & HP & _). rewrite Z.mod_small by lia.
  apply Bool.negb_true_iff. lia.
Qed.

(* ---- sends in arbitrary order, by draw index *)
Lemma idx_repeat_iff idx : forall prev,
  has_repeat_from (option_map (fun p => nth_yield p seq_init) prev) (counts_of idx) = idx_repeat_from prev idx.
Proof.
  induction idx as [|i r IH]; intros prev; [reflexivity|].
  cbn [counts_of map has_repeat_from idx_repeat_from]. fold (counts_of r).
  rewrite <- (IH (Some i)). cbn [option_map]. f_equal.
  destruct prev as [p|]; cbn [option_map]; [|reflexivity].
  pose proof (cycle_equal_iff i p seq_init init_inv) as [A B].
  destruct (nth_yield i seq_init =? nth_yield p seq_init) eqn:E1;
    destruct ((Z.of_nat i - Z.of_nat p) mod PERIOD =? 0) eqn:E2; try reflexivity.
  - assert (nth_yield i seq_init = nth_yield p seq_init) by lia. specialize (A H). lia.
  - assert ((Z.of_nat i - Z.of_nat p) mod PERIOD = 0) by lia. specialize (B H). lia.
Qed.

Theorem repeat_iff_idx_guard idx : has_repeat (counts_of idx) = idx_guard idx.
Proof. exact (idx_repeat_iff idx None). Qed.

(* ---- window distinctness (stronger than "differs from the one before"): the counts of ANY set of
   messages whose draw indices lie within one period are pairwise distinct, and the period is exact:
   the count drawn PERIOD draws later is the same one. *)
Theorem window_injective i j :
  Z.abs (Z.of_nat i - Z.of_nat j) < PERIOD ->
  nth_yield i seq_init = nth_yield j seq_init -> i = j.
Proof.
  intros Hw E. apply (cycle_equal_iff i j seq_init init_inv) in E.
  pose proof consts_ok as (_ & HP & _).
  apply Z.mod_divide in E; [|lia]. destruct E as [q Hq].
  assert (q = 0) by nia. lia.
Qed.

Theorem window_NoDup idx :
  NoDup idx ->
  (forall i j, In i idx -> In j idx -> Z.abs (Z.of_nat i - Z.of_nat j) < PERIOD) ->
  NoDup (counts_of idx).
Proof.
  unfold counts_of. induction idx as [|a r IH]; intros Hnd Hw; cbn [map]; [constructor|].
  inversion Hnd as [|? ? Hna Hr]; subst. constructor.
  - intros Hin. apply in_map_iff in Hin. destruct Hin as [b [Eb Hb]].
    assert (b = a).
    { apply window_injective; [apply Hw; [right; exact Hb | left; reflexivity] | exact Eb]. }
    subst b. exact (Hna Hb).
  - apply IH; [exact Hr|]. intros i j Hi Hj. apply Hw; right; assumption.
Qed.

Theorem period_exact i : nth_yield (i + Z.to_nat PERIOD) seq_init = nth_yield i seq_init.
Proof.
  pose proof consts_ok as (_ & HP & _).
  apply (cycle_equal_iff _ _ seq_init init_inv).
  replace (Z.of_nat (i + Z.to_nat PERIOD) - Z.of_nat i) with (1 * PERIOD) by lia.
  apply Z.mod_mul. lia.
Qed.

(* the first PERIOD counts drawn on a connection are exactly SEQ_START .. SEQ_STOP in order *)
Theorem first_period_counts k : Z.of_nat k < PERIOD -> nth_yield k seq_init = SEQ_START + Z.of_nat k.
Proof.
  intros Hk. rewrite nth_yield_closed by exact init_inv.
  assert (E : spos seq_init = 0) by (vm_compute; reflexivity).
  rewrite E. rewrite Z.add_0_l, Z.mod_small by lia. reflexivity.
Qed.
