(* Proofs/CodecRTComp.v — C06: the round-trip law for arrays and structures, by composition of the
   law for their element / member types (Proofs/CodecRT.v), and the main theorem [roundtrip]. *)
From PV Require Import Base.Bytes Base.BytesLemmas Base.Res Base.Proto.
From PV Require Import Gen.Types Gen.CodecFacts Gen.Vendors Gen.Status Model.Codec Model.CodecDom.
From PV Require Import Proofs.CodecRTBase Proofs.CodecRT Proofs.CodecRTDict.
From Coq Require Import ZifyBool.
Open Scope Z_scope.
Ltac Zify.zify_post_hook ::= Z.to_euclidean_division_equations.

Lemma as_member_dom t enc x : in_dom t x = true -> as_member t enc x = enc x.
Proof. reflexivity. Qed.

(* an encoding [b] of [x] that decodes back, whatever follows it *)
Definition good (e : ty) (x : val) (b : bytes) : Prop :=
  encode e x = Ok b
  /\ forall fuel rest, (length b < fuel)%nat -> decode_fuel fuel e (b ++ rest) = DOk (norm e x) rest.

Lemma good_of_RT e x : RT e -> wf_ty e = true -> greedy e = false -> in_dom e x = true -> exists b, good e x b.
Proof.
  intros Hrt Hwf Hg Hd.
  destruct (Hrt Hwf x [] Hd (fun _ => eq_refl)) as (b & He & _).
  exists b. split; [exact He|]. intros fuel rest Hf.
  destruct (Hrt Hwf x rest Hd ltac:(congruence)) as (b' & He' & Hdec).
  rewrite He in He'. injection He' as <-. now apply Hdec.
Qed.

Lemma list_good e xs :
  RT e -> wf_ty e = true -> greedy e = false -> forallb (in_dom e) xs = true -> exists bss, Forall2 (good e) xs bss.
Proof.
  intros Hrt Hwf Hg. induction xs as [|x xs IH]; intros Hd.
  - exists []. constructor.
  - cbn [forallb] in Hd. apply andb_prop in Hd as [Hx Hxs].
    destruct (good_of_RT e x Hrt Hwf Hg Hx) as (b & Hb). destruct (IH Hxs) as (bss & Hbss).
    exists (b :: bss). now constructor.
Qed.

(* ------------------------------------------------------------------ Array.encode / decode on lists *)
Fixpoint enc_all (enc : val -> res bytes) (xs : list val) : res bytes :=
  match xs with
  | [] => Ok []
  | x :: r => let* b := enc x in let* rs := enc_all enc r in Ok (b ++ rs)
  end.

Lemma skipn_nth_error {A} (l : list A) i x : nth_error l i = Some x -> skipn i l = x :: skipn (S i) l.
Proof.
  revert i. induction l as [|a l IH]; intros [|i] H; cbn in H; try discriminate.
  - injection H as ->. reflexivity.
  - cbn [skipn]. rewrite (IH i H). reflexivity.
Qed.

Lemma encode_items_list enc l n i :
  (i + n <= length l)%nat -> encode_items enc (VList l) i n = enc_all enc (firstn n (skipn i l)).
Proof.
  revert i. induction n as [|n IH]; intros i H; [reflexivity|].
  cbn [encode_items py_index].
  destruct (nth_error l i) as [x|] eqn:E.
  - rewrite (skipn_nth_error _ _ _ E). cbn [firstn enc_all bind]. destruct (enc x); [|reflexivity]. cbn [bind].
    rewrite IH by lia. reflexivity.
  - apply nth_error_None in E. lia.
Qed.

Lemma enc_all_good e xs bss :
  Forall2 (good e) xs bss -> forallb (in_dom e) xs = true ->
  enc_all (as_member e (encode e)) xs = Ok (concat bss).
Proof.
  induction 1 as [|x b xs bss [He _] _ IH]; intros Hd; [reflexivity|].
  cbn [forallb] in Hd. apply andb_prop in Hd as [Hx Hxs].
  cbn [enc_all concat]. rewrite (as_member_dom _ _ _ Hx), He. cbn [bind]. now rewrite (IH Hxs).
Qed.

Lemma decode_n_good e xs bss fuel rest :
  Forall2 (good e) xs bss -> (length (concat bss) < fuel)%nat ->
  decode_n (decode_fuel fuel e) (length xs) (concat bss ++ rest) = DOk (VList (map (norm e) xs)) rest.
Proof.
  induction 1 as [|x b xs bss [_ Hdec] _ IH]; intros Hf; [reflexivity|].
  cbn [concat] in *. rewrite app_length in Hf. cbn [length decode_n map]. rewrite <- app_assoc.
  rewrite Hdec by lia. cbn [dbind]. rewrite IH by lia. reflexivity.
Qed.

Lemma decode_all_good e xs bss fuel f' :
  Forall2 (good e) xs bss -> Forall (fun b => b <> []) bss -> decode_fuel fuel e [] = DEmpty [] ->
  (length (concat bss) < fuel)%nat -> (length xs < f')%nat ->
  decode_all (decode_fuel fuel e) f' (concat bss) = DOk (VList (map (norm e) xs)) [].
Proof.
  intros H. revert f'. induction H as [|x b xs bss [_ Hdec] _ IH]; intros f' Hne Hem Hf Hf'.
  - destruct f'; [cbn in Hf'; lia|]. cbn [concat decode_all]. now rewrite Hem.
  - destruct f' as [|f']; [cbn in Hf'; lia|]. inversion Hne as [|? ? Hb Hne']; subst.
    cbn [concat] in *. rewrite app_length in Hf. cbn [decode_all length map].
    rewrite Hdec by lia.
    destruct (length (concat bss) =? length (b ++ concat bss))%nat eqn:E.
    + apply Nat.eqb_eq in E. rewrite app_length in E. destruct b; [congruence|cbn [length] in E; lia].
    + rewrite IH by (try assumption; cbn in Hf'; lia). reflexivity.
Qed.

Lemma concat_length_ge (bss : list bytes) :
  Forall (fun b => b <> []) bss -> (length bss <= length (concat bss))%nat.
Proof.
  induction 1 as [|b bss Hb _ IH]; [cbn; lia|]. cbn [concat length]. rewrite app_length.
  destruct b; [congruence|cbn [length]; lia].
Qed.

Lemma good_nonempty e xs bss :
  NE e -> wf_ty e = true -> consumes e = true -> forallb (in_dom e) xs = true ->
  Forall2 (good e) xs bss -> Forall (fun b => b <> []) bss.
Proof.
  intros Hne Hwf Hc Hd H. induction H as [|x b xs bss [He _] _ IH]; [constructor|].
  cbn [forallb] in Hd. apply andb_prop in Hd as [Hx Hxs]. constructor; [|now apply IH].
  now apply (Hne Hwf Hc x b Hx He).
Qed.

(* ---- Array(n, T), T not a bit string *)
Lemma arr_plain_form n e l :
  is_bits e = false -> RT e -> wf_ty (TArrFixed n e) = true -> in_dom (TArrFixed n e) (VList l) = true ->
  exists bss, Forall2 (good e) (firstn n l) bss /\ forallb (in_dom e) (firstn n l) = true
              /\ length (firstn n l) = n /\ encode (TArrFixed n e) (VList l) = Ok (concat bss).
Proof.
  intros Hnb Hrt Hwf Hd. cbn [wf_ty] in Hwf.
  apply andb_prop in Hwf as [Hwf Hg]. apply negb_true_iff in Hg. cbn [in_dom] in Hd.
  assert (Hd' : (Z.of_nat n <=? zlen l) && forallb (in_dom e) (firstn n l) = true) by (destruct e; try exact Hd; discriminate Hnb).
  clear Hd. apply andb_prop in Hd' as [Hl Hd].
  destruct (list_good e _ Hrt Hwf Hg Hd) as (bss & Hbss).
  assert (Hlen : length (firstn n l) = n) by (rewrite firstn_length; unfold zlen in Hl; lia).
  exists bss. repeat split; try assumption.
  cbn [encode]. unfold array_encode. cbn [py_len bind].
  destruct (zlen l <? Z.of_nat n) eqn:E; [lia|]. cbn [bind].
  replace (bits_width e) with (@None nat) by (destruct e; try reflexivity; discriminate Hnb).
  rewrite encode_items_list by (unfold zlen in Hl; lia). cbn [skipn].
  now rewrite (enc_all_good _ _ _ Hbss Hd).
Qed.

Lemma rt_TArrFixed_plain n e :
  is_bits e = false -> RT e -> RT (TArrFixed n e).
Proof.
  intros Hnb Hrt Hwf v rest Hd _. destruct v; try (cbn [in_dom] in Hd; discriminate Hd).
  destruct (arr_plain_form n e l Hnb Hrt Hwf Hd) as (bss & Hbss & Hdd & Hlen & He).
  exists (concat bss). split; [exact He|].
  intros fuel Hf. cbn [decode_fuel]. unfold array_decode_fixed. rewrite Hnb.
  rewrite <- Hlen at 1. rewrite (decode_n_good _ _ _ _ _ Hbss Hf). cbn [dbind dwrap array_flatten].
  cbn [norm]. destruct e; try reflexivity. discriminate Hnb.
Qed.

(* ---- Array(n, BYTE/WORD/DWORD/LWORD): the value is the flat list of bits *)
Fixpoint chunks_of (n c : nat) (l : list val) : list (list val) :=
  match n with
  | O => []
  | S n' => firstn c l :: chunks_of n' c (skipn c l)
  end.

Lemma chunks_of_concat n c l : length l = (n * c)%nat -> concat (chunks_of n c l) = l.
Proof.
  revert l. induction n as [|n IH]; intros l H.
  - destruct l; [reflexivity|cbn in H; lia].
  - cbn [chunks_of concat]. rewrite IH by (rewrite skipn_length; lia). apply firstn_skipn.
Qed.

Lemma chunks_of_length n c l : length (chunks_of n c l) = n.
Proof. revert l. induction n as [|n IH]; intros l; cbn [chunks_of length]; [reflexivity|now rewrite IH]. Qed.

Lemma chunks_of_each n c l :
  length l = (n * c)%nat -> Forall (fun ch => length ch = c) (chunks_of n c l).
Proof.
  revert l. induction n as [|n IH]; intros l H; cbn [chunks_of]; constructor.
  - rewrite firstn_length. lia.
  - apply IH. rewrite skipn_length. lia.
Qed.

Lemma chunk_vals_chunks c cs pre fuel :
  (0 < c)%nat -> Forall (fun ch => length ch = c) cs -> (length cs < fuel)%nat ->
  chunk_vals fuel c (VList (pre ++ concat cs)) (length pre) (length (pre ++ concat cs)) = Ok (map VList cs).
Proof.
  intros Hc H. revert pre fuel. induction H as [|ch cs Hch _ IH]; intros pre fuel Hf.
  - destruct fuel; [cbn in Hf; lia|]. cbn [concat chunk_vals]. rewrite app_nil_r, Nat.leb_refl. reflexivity.
  - destruct fuel as [|fuel]; [cbn in Hf; lia|]. cbn [concat chunk_vals].
    destruct (length (pre ++ ch ++ concat cs) <=? length pre)%nat eqn:E.
    + apply Nat.leb_le in E. rewrite !app_length in E. lia.
    + cbn [py_slice bind].
      replace (length pre + c - length pre)%nat with c by lia.
      rewrite skipn_app_exact.
      replace (firstn c (ch ++ concat cs)) with ch by (rewrite <- Hch; symmetry; apply firstn_app_exact).
      specialize (IH (pre ++ ch) fuel ltac:(cbn in Hf; lia)).
      rewrite app_length, Hch in IH. rewrite <- app_assoc in IH. rewrite IH. reflexivity.
Qed.

Lemma chain_vals_lists cs : chain_vals (map VList cs) = Ok (concat cs).
Proof. induction cs as [|c cs IH]; [reflexivity|]. cbn [map chain_vals py_iter bind concat]. now rewrite IH. Qed.

Lemma forallb_firstn {A} (f : A -> bool) n l : forallb f l = true -> forallb f (firstn n l) = true.
Proof.
  revert n. induction l as [|a l IH]; intros [|n] H; try reflexivity. cbn [firstn forallb] in *.
  apply andb_prop in H as [H1 H2]. now rewrite H1, IH.
Qed.
Lemma forallb_skipn {A} (f : A -> bool) n l : forallb f l = true -> forallb f (skipn n l) = true.
Proof.
  revert n. induction l as [|a l IH]; intros [|n] H; try reflexivity; try exact H. cbn [skipn forallb] in *.
  apply andb_prop in H as [H1 H2]. now apply IH.
Qed.

Lemma chunks_in_dom w n l :
  length l = (n * (w * 8))%nat -> forallb is_vbool l = true ->
  forallb (in_dom (TBits w)) (map VList (chunks_of n (w * 8) l)) = true.
Proof.
  revert l. induction n as [|n IH]; intros l Hl Hb; [reflexivity|].
  cbn [chunks_of map forallb in_dom]. rewrite IH by (try rewrite skipn_length; try lia; now apply forallb_skipn).
  rewrite forallb_firstn by exact Hb. rewrite andb_true_r.
  unfold zlen. rewrite firstn_length. lia.
Qed.

Lemma norm_bits_id w xs : map (norm (TBits w)) xs = xs.
Proof. induction xs as [|x xs IH]; [reflexivity|]. cbn [map]. rewrite IH. reflexivity. Qed.

Lemma match_pos {A} (c : nat) (a b : A) : (0 < c)%nat -> match c with O => a | S _ => b end = b.
Proof. destruct c; [lia|reflexivity]. Qed.

(* the flat list of n * 8w bits, encoded by Array.encode with any [fixed] that does not reject it *)
Lemma bits_array_form fixed n w l :
  (0 < w)%nat -> length l = (n * (w * 8))%nat -> forallb is_vbool l = true ->
  match fixed with Some k => (Z.of_nat k <= zlen l) | None => True end ->
  exists xs bss, Forall2 (good (TBits w)) xs bss /\ forallb (in_dom (TBits w)) xs = true
              /\ length xs = n /\ chain_vals xs = Ok l
              /\ array_encode fixed (Some w) (as_member (TBits w) (encode (TBits w))) (VList l) = Ok (concat bss).
Proof.
  intros Hw Hlen Hb Hfix.
  set (cs := chunks_of n (w * 8) l).
  pose proof (chunks_in_dom w n l Hlen Hb) as Hcd. fold cs in Hcd.
  assert (Hwfb : wf_ty (TBits w) = true) by (cbn [wf_ty]; apply Nat.ltb_lt; exact Hw).
  destruct (list_good (TBits w) (map VList cs) (rt_TBits w) Hwfb eq_refl Hcd) as (bss & Hbss).
  exists (map VList cs), bss. repeat split; try assumption.
  - rewrite map_length. unfold cs. apply chunks_of_length.
  - rewrite chain_vals_lists. unfold cs. now rewrite chunks_of_concat.
  - unfold array_encode. cbn [py_len bind].
    assert (Hlen0 : exists len0, match fixed with
                                 | Some n0 => if zlen l <? Z.of_nat n0 then Err DataError else Ok n0
                                 | None => Ok (Z.to_nat (zlen l))
                                 end = Ok len0).
    { destruct fixed as [k|]; [|eauto]. destruct (zlen l <? Z.of_nat k) eqn:E; [lia|eauto]. }
    destruct Hlen0 as (len0 & ->). cbn [bind]. rewrite match_pos by lia.
    replace (Z.to_nat (zlen l)) with (length l) by (unfold zlen; lia).
    pose proof (chunk_vals_chunks (w * 8) cs [] (S (length l)) ltac:(lia) (chunks_of_each n (w * 8) l Hlen)) as Hcv.
    cbn [app length] in Hcv. unfold cs in Hcv at 2 3. rewrite chunks_of_concat in Hcv by exact Hlen.
    rewrite Hcv by (unfold cs; rewrite chunks_of_length; nia). cbn [bind].
    replace (Z.to_nat (zlen l / Z.of_nat (w * 8))) with n by (unfold zlen; rewrite Hlen; nia).
    rewrite encode_items_list by (rewrite map_length; unfold cs; rewrite chunks_of_length; lia).
    cbn [skipn]. rewrite firstn_all2 by (rewrite map_length; unfold cs; rewrite chunks_of_length; lia).
    now rewrite (enc_all_good _ _ _ Hbss Hcd).
Qed.

Lemma arr_bits_form n w l :
  wf_ty (TArrFixed n (TBits w)) = true -> in_dom (TArrFixed n (TBits w)) (VList l) = true ->
  exists xs bss, Forall2 (good (TBits w)) xs bss /\ forallb (in_dom (TBits w)) xs = true
              /\ length xs = n /\ chain_vals xs = Ok l /\ encode (TArrFixed n (TBits w)) (VList l) = Ok (concat bss).
Proof.
  intros Hwf Hd. cbn [wf_ty greedy negb andb] in Hwf. rewrite andb_true_r in Hwf.
  cbn [in_dom] in Hd. apply andb_prop in Hd as [Hl Hb].
  assert (Hw : (0 < w)%nat) by lia.
  assert (Hlen : length l = (n * (w * 8))%nat) by (unfold zlen in Hl; lia).
  cbn [encode bits_width]. apply (bits_array_form (Some n) n w l Hw Hlen Hb). unfold zlen. rewrite Hlen. nia.
Qed.

Lemma rt_TArrFixed_bits n w : RT (TArrFixed n (TBits w)).
Proof.
  intros Hwf v rest Hd _. destruct v; try (cbn [in_dom] in Hd; discriminate Hd).
  destruct (arr_bits_form n w l Hwf Hd) as (xs & bss & Hbss & Hcd & Hlen & Hch & He).
  exists (concat bss). split; [exact He|].
  intros fuel Hf. cbn [decode_fuel is_bits]. unfold array_decode_fixed.
  rewrite <- Hlen at 1. rewrite (decode_n_good _ _ _ _ _ Hbss Hf). cbn [dbind array_flatten]. rewrite norm_bits_id, Hch.
  reflexivity.
Qed.

Lemma rt_TArrFixed n e : RT e -> RT (TArrFixed n e).
Proof.
  intros Hrt. destruct (is_bits e) eqn:E.
  - destruct e; try discriminate E. apply rt_TArrFixed_bits.
  - now apply rt_TArrFixed_plain.
Qed.

Lemma Forall2_len {A B} (R : A -> B -> Prop) la lb : Forall2 R la lb -> length la = length lb.
Proof. induction 1; cbn [length]; congruence. Qed.

(* ---- fixed widths, always-decoding arrays *)
Lemma concat_fixed_length e xs bss w :
  Forall2 (good e) xs bss -> forallb (in_dom e) xs = true -> FW e -> fixed_width e = Some w -> wf_ty e = true ->
  length (concat bss) = (length xs * w)%nat.
Proof.
  intros H Hd Hfw Hw Hwf. induction H as [|x b xs bss [He _] _ IH]; [reflexivity|].
  cbn [forallb] in Hd. apply andb_prop in Hd as [Hx Hxs].
  cbn [concat length]. rewrite app_length, (IH Hxs), (Hfw w x b Hw Hwf Hx He). lia.
Qed.

Lemma fw_TArrFixed n e : RT e -> FW e -> FW (TArrFixed n e).
Proof.
  intros Hrt Hfw w v bs Hw Hwf Hd He. cbn [fixed_width] in Hw.
  destruct (fixed_width e) as [we|] eqn:Ew; [|discriminate]. injection Hw as <-.
  assert (Hwfe : wf_ty e = true).
  { cbn [wf_ty] in Hwf. now apply andb_prop in Hwf as [Hwf _]. }
  destruct v; try (cbn [in_dom] in Hd; discriminate Hd).
  destruct (is_bits e) eqn:Eb.
  - destruct e; try discriminate Eb.
    destruct (arr_bits_form n w l Hwf Hd) as (xs & bss & H1 & H2 & H3 & _ & H4).
    rewrite He in H4. injection H4 as ->. rewrite (concat_fixed_length _ _ _ _ H1 H2 Hfw Ew Hwfe). now rewrite H3.
  - destruct (arr_plain_form n e l Eb Hrt Hwf Hd) as (bss & H1 & H2 & H3 & H4).
    rewrite He in H4. injection H4 as ->. rewrite (concat_fixed_length _ _ _ _ H1 H2 Hfw Ew Hwfe). now rewrite H3.
Qed.

Lemma decode_n_ad e we fuel :
  AD e -> always_decodes e = true -> fixed_width e = Some we ->
  forall n bs rest, length bs = (n * we)%nat ->
  exists vs, decode_n (decode_fuel fuel e) n (bs ++ rest) = DOk (VList vs) rest
             /\ (is_bits e = true -> Forall (fun v => exists l, v = VList l) vs).
Proof.
  intros Had Ha Hw. induction n as [|n IH]; intros bs rest Hl.
  - destruct bs; [|discriminate Hl]. exists []. split; [reflexivity|constructor].
  - cbn [decode_n]. rewrite <- (firstn_skipn we bs), <- app_assoc.
    destruct (Had we (firstn we bs) (skipn we bs ++ rest) fuel Ha Hw) as (v & Hv & Hvb).
    { rewrite firstn_length. lia. }
    rewrite Hv. cbn [dbind].
    destruct (IH (skipn we bs) rest) as (vs & Hvs & Hb).
    { rewrite skipn_length. lia. }
    rewrite Hvs. cbn [dbind]. exists (v :: vs). split; [reflexivity|].
    intros Eb. constructor; [now apply Hvb|now apply Hb].
Qed.

Lemma chain_vals_vlists vs : Forall (fun v => exists l, v = VList l) vs -> exists f, chain_vals vs = Ok f.
Proof.
  induction 1 as [|v vs [l ->] _ [f IH]]; [now exists []|].
  cbn [chain_vals py_iter bind]. rewrite IH. cbn [bind]. eexists. reflexivity.
Qed.

Lemma ad_TArrFixed n e : AD e -> AD (TArrFixed n e).
Proof.
  intros Had w bs rest fuel Ha Hw Hl. cbn [always_decodes] in Ha. cbn [fixed_width] in Hw.
  destruct (fixed_width e) as [we|] eqn:Ew; [|discriminate]. injection Hw as <-.
  destruct (decode_n_ad e we fuel Had Ha Ew n bs rest Hl) as (vs & Hvs & Hb).
  cbn [decode_fuel]. unfold array_decode_fixed. rewrite Hvs. cbn [dbind]. unfold array_flatten.
  destruct (is_bits e) eqn:Eb.
  - destruct (chain_vals_vlists vs (Hb eq_refl)) as (f & Hf). rewrite Hf. cbn [dwrap].
    eexists. split; [reflexivity|discriminate].
  - cbn [dwrap]. eexists. split; [reflexivity|discriminate].
Qed.

(* ---- Array(None, T) *)
Lemma ne_TBits w : NE (TBits w).
Proof.
  intros Hwf _ v bs Hd. cbn [wf_ty] in Hwf. cbn [in_dom] in Hd. destruct v; try discriminate Hd.
  apply andb_prop in Hd as [Hl Hb]. cbn [encode]. rewrite bits_encode_ok by lia.
  intros H. injection H as <-. intros E. apply (f_equal (@length Z)) in E. rewrite le_enc_length in E. cbn in E. lia.
Qed.

Lemma rt_TArrAll e : RT e -> NE e -> EM e -> RT (TArrAll e).
Proof.
  intros Hrt Hne Hem Hwf v rest Hd Hg. rewrite (Hg eq_refl). cbn [wf_ty] in Hwf.
  apply andb_prop in Hwf as [Hwf Hc]. apply andb_prop in Hwf as [Hwf Hgr]. apply negb_true_iff in Hgr.
  cbn [in_dom] in Hd. destruct v; try discriminate Hd.
  destruct (is_bits e) eqn:Eb.
  - (* bit strings: the flat list of bits *)
    destruct e; try discriminate Eb. apply andb_prop in Hd as [Hm Hb]. pose proof Hwf as Hwfb. cbn [wf_ty] in Hwf.
    assert (Hw : (0 < w)%nat) by lia.
    set (n := (length l / (w * 8))%nat).
    assert (Hlen : length l = (n * (w * 8))%nat).
    { unfold n. unfold zlen in Hm. pose proof (Nat.div_mod (length l) (w * 8) ltac:(lia)) as Hdm.
      assert (Z.of_nat (length l mod (w * 8)) = 0).
      { rewrite Nat2Z.inj_mod. replace (Z.of_nat (w * 8)) with (8 * Z.of_nat w) by lia. lia. }
      lia. }
    destruct (bits_array_form None n w l Hw Hlen Hb I) as (xs & bss & Hbss & Hcd & Hxl & Hch & He).
    pose proof (good_nonempty (TBits w) xs bss (ne_TBits w) Hwfb Hc Hcd Hbss) as Hnn.
    exists (concat bss). split; [exact He|].
    intros fuel Hf. cbn [decode_fuel norm is_bits]. unfold array_decode_all. rewrite app_nil_r.
    change (bits_decode w) with (decode_fuel fuel (TBits w)).
    rewrite (decode_all_good (TBits w) xs bss fuel fuel Hbss Hnn (em_TBits w Hwfb Hc fuel) Hf).
    + cbn [dbind array_flatten]. rewrite norm_bits_id, Hch. reflexivity.
    + pose proof (concat_length_ge bss Hnn) as H1. rewrite <- (Forall2_len _ _ _ Hbss) in H1. lia.
  - assert (Hd' : forallb (in_dom e) l = true) by (destruct e; try exact Hd; discriminate Eb). clear Hd.
    destruct (list_good e _ Hrt Hwf Hgr Hd') as (bss & Hbss).
    pose proof (good_nonempty e l bss Hne Hwf Hc Hd' Hbss) as Hnn.
    exists (concat bss). split.
    + cbn [encode]. unfold array_encode. cbn [py_len bind].
      replace (bits_width e) with (@None nat) by (destruct e; try reflexivity; discriminate Eb).
      replace (Z.to_nat (zlen l)) with (length l) by (unfold zlen; lia).
      rewrite encode_items_list by lia. cbn [skipn]. rewrite firstn_all.
      now rewrite (enc_all_good _ _ _ Hbss Hd').
    + intros fuel Hf. cbn [decode_fuel norm]. unfold array_decode_all. rewrite app_nil_r, Eb.
      rewrite (decode_all_good e l bss fuel fuel Hbss Hnn (Hem Hwf Hc fuel) Hf).
      * cbn [dbind array_flatten dwrap]. destruct e; try reflexivity. discriminate Eb.
      * pose proof (concat_length_ge bss Hnn) as H1. rewrite <- (Forall2_len _ _ _ Hbss) in H1. lia.
Qed.

(* ------------------------------------------------------------------ Struct *)
Definition enc_members (ms : list (key * ty)) := map (fun m => (fst m, as_member (snd m) (encode (snd m)))) ms.
Definition dec_members (fuel : nat) (ms : list (key * ty)) := map (fun m => (fst m, decode_fuel fuel (snd m))) ms.

(* member values [xs] for members [ms]: in the domain, member by member *)
Lemma struct_seq_rt ms xs rest :
  Forall (fun m => RT (snd m)) ms ->
  forallb (fun m => wf_ty (snd m)) ms = true ->
  initb (fun m => negb (greedy (snd m))) ms = true ->
  forallb2 (fun m x => in_dom (snd m) x) ms xs = true ->
  (lastb (fun m => greedy (snd m)) ms = true -> rest = []) ->
  exists bs, struct_encode_seq (enc_members ms) xs = Ok bs
    /\ forall fuel acc, (length bs < fuel)%nat ->
         struct_decode_members (dec_members fuel ms) acc (bs ++ rest)
         = DOk (VDict (fold_left (fun a mx => dict_set a (fst (fst mx)) (norm (snd (fst mx)) (snd mx))) (combine ms xs) acc)) rest.
Proof.
  intros Hrt. revert xs. induction Hrt as [|m ms Hm _ IH]; intros xs Hwf Hin Hd Hg.
  - destruct xs; [|discriminate Hd]. exists []. split; [reflexivity|]. intros fuel acc _. reflexivity.
  - destruct xs as [|x xs]; [discriminate Hd|]. cbn [forallb2] in Hd. apply andb_prop in Hd as [Hx Hxs].
    cbn [forallb] in Hwf. apply andb_prop in Hwf as [Hwm Hwms].
    assert (Htail : exists bs2, struct_encode_seq (enc_members ms) xs = Ok bs2
              /\ forall fuel acc, (length bs2 < fuel)%nat ->
                   struct_decode_members (dec_members fuel ms) acc (bs2 ++ rest)
                   = DOk (VDict (fold_left (fun a mx => dict_set a (fst (fst mx)) (norm (snd (fst mx)) (snd mx))) (combine ms xs) acc)) rest).
    { apply IH; try assumption.
      - destruct ms; [reflexivity|]. cbn [initb] in Hin. now apply andb_prop in Hin as [_ Hin].
      - destruct ms; [discriminate|]. exact Hg. }
    destruct Htail as (bs2 & He2 & Hd2).
    assert (Hrest1 : greedy (snd m) = true -> bs2 ++ rest = []).
    { intros Hgm. destruct ms as [|m2 ms2].
      - destruct xs; [|discriminate Hxs]. cbn in He2. injection He2 as <-. cbn [app]. apply Hg. exact Hgm.
      - cbn [initb] in Hin. apply andb_prop in Hin as [Hin _]. rewrite Hgm in Hin. discriminate. }
    destruct (Hm Hwm x (bs2 ++ rest) Hx Hrest1) as (b1 & He1 & Hd1).
    exists (b1 ++ bs2). split.
    + cbn [enc_members map struct_encode_seq fst snd]. rewrite (as_member_dom _ _ _ Hx), He1. cbn [bind].
      fold (enc_members ms). rewrite He2. reflexivity.
    + intros fuel acc Hf. rewrite app_length in Hf. cbn [dec_members map struct_decode_members fst snd].
      rewrite <- app_assoc. rewrite Hd1 by lia. cbn [dbind]. fold (dec_members fuel ms).
      rewrite Hd2 by lia. reflexivity.
Qed.

Lemma struct_dict_seq ms d xs :
  Forall2 (fun m x => dict_get d (fst m) = Ok x) ms xs ->
  struct_encode_dict (enc_members ms) d = struct_encode_seq (enc_members ms) xs.
Proof.
  induction 1 as [|m x ms xs Hm _ IH]; [reflexivity|].
  cbn [enc_members map struct_encode_dict struct_encode_seq fst snd]. rewrite Hm. cbn [bind].
  fold (enc_members ms). now rewrite IH.
Qed.

Lemma dict_values ms d :
  forallb (fun m => match dict_get d (fst m) with Ok x => in_dom (snd m) x | Err _ => false end) ms = true ->
  exists xs, Forall2 (fun m x => dict_get d (fst m) = Ok x) ms xs
             /\ forallb2 (fun m x => in_dom (snd m) x) ms xs = true.
Proof.
  induction ms as [|m ms IH]; intros H.
  - exists []. split; [constructor|reflexivity].
  - cbn [forallb] in H. apply andb_prop in H as [Hm Hms]. destruct (IH Hms) as (xs & H1 & H2).
    destruct (dict_get d (fst m)) as [x|] eqn:E; [|discriminate].
    exists (x :: xs). split; [now constructor|]. cbn [forallb2]. now rewrite Hm, H2.
Qed.

Lemma norm_dict_seq ms d xs :
  Forall2 (fun m x => dict_get d (fst m) = Ok x) ms xs ->
  flat_map (fun m => match dict_get d (fst m) with
                     | Ok x => named_entry (fst m) (norm (snd m) x)
                     | Err _ => []
                     end) ms
  = flat_map2 (fun m x => named_entry (fst m) (norm (snd m) x)) ms xs.
Proof.
  induction 1 as [|m x ms xs Hm _ IH]; [reflexivity|]. cbn [flat_map flat_map2]. now rewrite Hm, IH.
Qed.

(* the decoded dict: named members in order *)
Definition mkeys (ms : list (key * ty)) : list key := filter (fun k => negb (unnamed k)) (map fst ms).

Lemma fold_set_strip ms xs acc :
  length ms = length xs ->
  dkeys_nodup acc = true ->
  keys_nodup (mkeys ms) = true ->
  forallb (fun k => negb (has_key acc k)) (mkeys ms) = true ->
  let final := fold_left (fun a mx => dict_set a (fst (fst mx)) (norm (snd (fst mx)) (snd mx))) (combine ms xs) acc in
  dkeys_nodup final = true
  /\ strip final = strip acc ++ flat_map2 (fun m x => named_entry (fst m) (norm (snd m) x)) ms xs.
Proof.
  revert xs acc. induction ms as [|m ms IH]; intros xs acc Hl Hnd Hk Hf.
  - destruct xs; [|discriminate]. cbn. now rewrite app_nil_r.
  - destruct xs as [|x xs]; [discriminate|]. cbn [combine fold_left fst snd flat_map2].
    cbn [length] in Hl. injection Hl as Hl.
    unfold mkeys in Hk, Hf. cbn [map filter] in Hk, Hf.
    destruct (unnamed (fst m)) eqn:Eu; cbn [negb] in Hk, Hf.
    + destruct (IH xs (dict_set acc (fst m) (norm (snd m) x)) Hl) as [H1 H2].
      * now apply dkeys_nodup_dict_set.
      * exact Hk.
      * apply forallb_forall. intros k Hin. rewrite forallb_forall in Hf. specialize (Hf k Hin).
        rewrite has_key_dict_set. apply negb_true_iff in Hf. rewrite Hf. cbn [orb].
        apply filter_In in Hin as [_ Hn]. apply negb_true_iff. destruct (keyb (fst m) k) eqn:E; [|reflexivity].
        apply keyb_eq in E. subst k. rewrite Eu in Hn. discriminate.
      * split; [exact H1|]. rewrite H2. rewrite strip_dict_set_unnamed by exact Eu.
        unfold named_entry. now rewrite Eu.
    + cbn [keys_nodup] in Hk. apply andb_prop in Hk as [Hk1 Hk2]. cbn [forallb] in Hf. apply andb_prop in Hf as [Hf1 Hf2].
      apply negb_true_iff in Hf1.
      destruct (IH xs (dict_set acc (fst m) (norm (snd m) x)) Hl) as [H1 H2].
      * now apply dkeys_nodup_dict_set.
      * exact Hk2.
      * apply forallb_forall. intros k Hin. rewrite forallb_forall in Hf2. specialize (Hf2 k Hin).
        rewrite has_key_dict_set. apply negb_true_iff in Hf2. rewrite Hf2. cbn [orb].
        apply negb_true_iff. destruct (keyb (fst m) k) eqn:E; [|reflexivity].
        apply negb_true_iff in Hk1. exfalso.
        assert (existsb (keyb (fst m)) (filter (fun k0 => negb (unnamed k0)) (map fst ms)) = true).
        { apply existsb_exists. exists k. split; assumption. }
        congruence.
      * split; [exact H1|]. rewrite H2. rewrite strip_dict_set_named by assumption.
        unfold named_entry at 2. rewrite Eu. now rewrite <- app_assoc.
Qed.

Lemma forallb2_length {A B} (f : A -> B -> bool) la lb : forallb2 f la lb = true -> length la = length lb.
Proof.
  revert lb. induction la as [|a la IH]; intros [|b lb] H; try discriminate; [reflexivity|].
  cbn [forallb2] in H. apply andb_prop in H as [_ H]. cbn [length]. now rewrite (IH lb H).
Qed.

Lemma struct_inner_rt ms xs rest :
  Forall (fun m => RT (snd m)) ms ->
  forallb (fun m => wf_ty (snd m)) ms = true ->
  initb (fun m => negb (greedy (snd m))) ms = true ->
  keys_nodup (mkeys ms) = true ->
  forallb2 (fun m x => in_dom (snd m) x) ms xs = true ->
  (lastb (fun m => greedy (snd m)) ms = true -> rest = []) ->
  exists bs, struct_encode_seq (enc_members ms) xs = Ok bs
    /\ forall fuel, (length bs < fuel)%nat ->
         struct_decode_inner (dec_members fuel ms) (bs ++ rest)
         = DOk (VDict (flat_map2 (fun m x => named_entry (fst m) (norm (snd m) x)) ms xs)) rest.
Proof.
  intros Hrt Hwf Hin Hk Hd Hg.
  destruct (struct_seq_rt ms xs rest Hrt Hwf Hin Hd Hg) as (bs & He & Hdec).
  exists bs. split; [exact He|]. intros fuel Hf. unfold struct_decode_inner. rewrite Hdec by exact Hf.
  cbn [dbind].
  destruct (fold_set_strip ms xs [] (forallb2_length _ _ _ Hd) eq_refl Hk) as [H1 H2].
  { apply forallb_forall. intros. reflexivity. }
  cbv zeta in H1, H2. rewrite (final_dict_strip _ H1), H2. reflexivity.
Qed.

Lemma struct_plain_rt ms v rest :
  Forall (fun m => RT (snd m)) ms ->
  forallb (fun m => wf_ty (snd m)) ms = true ->
  initb (fun m => negb (greedy (snd m))) ms = true ->
  keys_nodup (mkeys ms) = true ->
  in_dom (TStruct SPlain ms) v = true ->
  (lastb (fun m => greedy (snd m)) ms = true -> rest = []) ->
  exists bs, struct_encode_inner (enc_members ms) v = Ok bs
    /\ forall fuel, (length bs < fuel)%nat ->
         struct_decode_inner (dec_members fuel ms) (bs ++ rest) = DOk (norm (TStruct SPlain ms) v) rest.
Proof.
  intros Hrt Hwf Hin Hk Hd Hg. cbn [in_dom] in Hd. destruct v; try discriminate Hd.
  - (* positional *)
    destruct (struct_inner_rt ms l rest Hrt Hwf Hin Hk Hd Hg) as (bs & He & Hdec).
    exists bs. split.
    + cbn [struct_encode_inner py_iter bind]. unfold enc_members at 1. rewrite map_length.
      rewrite (forallb2_length _ _ _ Hd), Nat.ltb_irrefl. exact He.
    + intros fuel Hf. rewrite (Hdec fuel Hf). reflexivity.
  - (* dict *)
    destruct (dict_values ms d Hd) as (xs & Hx1 & Hx2).
    destruct (struct_inner_rt ms xs rest Hrt Hwf Hin Hk Hx2 Hg) as (bs & He & Hdec).
    exists bs. split.
    + cbn [struct_encode_inner]. now rewrite (struct_dict_seq _ _ _ Hx1).
    + intros fuel Hf. rewrite (Hdec fuel Hf). cbn [norm]. now rewrite (norm_dict_seq _ _ _ Hx1).
Qed.

Lemma identity_pre_dict v v' : identity_pre v = Ok v' -> exists d', v' = VDict d'.
Proof.
  unfold identity_pre. destruct v; try discriminate.
  destruct (dict_get d k_product_type) as [pt|]; cbn [bind]; [|discriminate].
  destruct (table_getitem product_types pt) as [ptc|]; cbn [bind]; [|discriminate].
  destruct (dict_get (dict_set d k_product_type ptc) k_vendor) as [vd|]; cbn [bind]; [|discriminate].
  destruct (table_getitem vendors vd) as [vc|]; cbn [bind]; [|discriminate].
  destruct (dict_get (dict_set (dict_set d k_product_type ptc) k_vendor vc) k_serial) as [sr|]; cbn [bind]; [|discriminate].
  destruct (match sr with VStr s => bytes_fromhex s | _ => Err (Foreign TypeError) end) as [sb|]; cbn [bind]; [|discriminate].
  intros H. injection H as <-. eexists. reflexivity.
Qed.

Lemma rt_TStruct k ms : Forall (fun m => RT (snd m)) ms -> RT (TStruct k ms).
Proof.
  intros Hrt Hwf v rest Hd Hg. cbn [wf_ty] in Hwf. cbn [greedy] in Hg.
  apply andb_prop in Hwf as [Hwf Hnd]. apply andb_prop in Hwf as [Hwf Hin]. apply andb_prop in Hwf as [Hk Hwf].
  change (filter (fun k0 : key => negb (unnamed k0)) (map fst ms)) with (mkeys ms) in Hnd.
  destruct k; [| |discriminate Hk].
  - destruct (struct_plain_rt ms v rest Hrt Hwf Hin Hnd Hd Hg) as (bs & He & Hdec).
    exists bs. split.
    + cbn [encode]. unfold struct_encode, pub_encode. fold (enc_members ms). now rewrite He.
    + intros fuel Hf. cbn [decode_fuel]. unfold struct_decode. fold (dec_members fuel ms).
      now rewrite (Hdec fuel Hf).
  - cbn [in_dom] in Hd. destruct v; try discriminate Hd.
    destruct (identity_pre (VDict d)) as [v'|] eqn:Epre; [|discriminate Hd].
    apply andb_prop in Hd as [Hd Hpost].
    destruct (struct_plain_rt ms v' rest Hrt Hwf Hin Hnd Hd Hg) as (bs & He & Hdec).
    exists bs. split.
    + cbn [encode]. unfold struct_encode, pub_encode. fold (enc_members ms). rewrite Epre. cbn [bind]. now rewrite He.
    + intros fuel Hf. cbn [decode_fuel]. unfold struct_decode. fold (dec_members fuel ms).
      rewrite (Hdec fuel Hf). cbn [dbind norm]. rewrite Epre.
      change (match v' with
              | VList l => VDict (flat_map2 (fun m1 x1 => named_entry (fst m1) (norm (snd m1) x1)) ms l)
              | VDict d0 => VDict (flat_map (fun m2 => match dict_get d0 (fst m2) with
                                                       | Ok x2 => named_entry (fst m2) (norm (snd m2) x2)
                                                       | Err _ => []
                                                       end) ms)
              | _ => v'
              end) with (norm (TStruct SPlain ms) v') in *.
      destruct (norm (TStruct SPlain ms) v') as [| | | | | | | |d'|]; try discriminate Hpost.
      destruct (identity_post d') as [d''|]; [reflexivity|discriminate Hpost].
Qed.

(* ------------------------------------------------------------------ empty-buffer behaviour of composites *)
Lemma ne_of_rt_em t : RT t -> EM t -> NE t.
Proof.
  intros Hrt Hem Hwf Hc v bs Hd He E. subst bs.
  destruct (Hrt Hwf v [] Hd (fun _ => eq_refl)) as (bs' & He' & Hdec).
  rewrite He in He'. injection He' as <-. specialize (Hdec 1%nat ltac:(cbn; lia)).
  cbn [app] in Hdec. rewrite (Hem Hwf Hc 1%nat) in Hdec. discriminate.
Qed.

Lemma em_TArrFixed n e : EM e -> EM (TArrFixed n e).
Proof.
  intros Hem Hwf Hc fuel. cbn [wf_ty] in Hwf. cbn [consumes] in Hc.
  apply andb_prop in Hwf as [Hwf _]. apply andb_prop in Hc as [Hn Hc].
  cbn [decode_fuel]. unfold array_decode_fixed. destruct n; [cbn in Hn; discriminate|].
  cbn [decode_n]. now rewrite (Hem Hwf Hc fuel).
Qed.

Lemma em_TStruct k ms : Forall (fun m => EM (snd m)) ms -> EM (TStruct k ms).
Proof.
  intros Hem Hwf Hc fuel. cbn [wf_ty] in Hwf. cbn [consumes] in Hc.
  apply andb_prop in Hwf as [Hwf _]. apply andb_prop in Hwf as [Hwf _]. apply andb_prop in Hwf as [_ Hwf].
  destruct ms as [|m ms]; [discriminate Hc|]. cbn [headb] in Hc. cbn [forallb] in Hwf. apply andb_prop in Hwf as [Hwm _].
  inversion Hem as [|? ? Hm _]; subst.
  cbn [decode_fuel]. unfold struct_decode, struct_decode_inner. cbn [map struct_decode_members fst snd].
  now rewrite (Hm Hwm Hc fuel).
Qed.

Lemma em_TStructTag ms bits priv size : Forall (fun m => EM (snd m)) ms -> EM (TStructTag ms bits priv size).
Proof.
  intros Hem Hwf Hc fuel. cbn [wf_ty] in Hwf. cbn [consumes] in Hc.
  repeat (apply andb_prop in Hwf as [Hwf _]).
  apply andb_prop in Hc as [_ Hc].
  destruct ms as [|m ms]; [discriminate Hc|]. cbn [headb] in Hc. cbn [forallb] in Hwf. apply andb_prop in Hwf as [Hwm _].
  inversion Hem as [|? ? Hm _]; subst.
  cbn [decode_fuel]. unfold structtag_decode. rewrite firstn_nil, skipn_nil.
  destruct m as [[k off] t]. cbn [map stag_decode_members fst snd length Nat.eqb negb andb].
  rewrite skipn_nil. cbn [snd] in Hm, Hwm, Hc. apply andb_prop in Hwm as [Hwm _]. now rewrite (Hm Hwm Hc fuel).
Qed.

(* ------------------------------------------------------------------ STRINGI *)
Lemma ty_of_name_SHORT_STRING : ty_of_name n_SHORT_STRING = Some (TStr false 1 Latin1).
Proof. reflexivity. Qed.

Lemma named_str_rt n s rest :
  named_str_dom n s = true ->
  exists bs, named_encode n (VStr s) = Ok bs /\ named_decode n (bs ++ rest) = DOk (VStr s) rest.
Proof.
  unfold named_str_dom, named_encode, named_decode. intros H.
  destruct (ty_of_name n) as [t|]; [|discriminate]. destruct t; try discriminate.
  - apply andb_prop in H as [Hw Hd].
    destruct (rt_TStr lsg lw enc Hw (VStr s) rest Hd ltac:(discriminate)) as (bs & He & Hdec).
    exists bs. split; [exact He|]. exact (Hdec (S (length bs)) ltac:(lia)).
  - destruct (rt_TStringN eq_refl (VStr s) rest H ltac:(discriminate)) as (bs & He & Hdec).
    exists bs. split; [exact He|]. exact (Hdec (S (length bs)) ltac:(lia)).
Qed.

Lemma stringi_code_ok c n : zlookup stringi_string_types c = Some n -> byte_ok c = true.
Proof.
  unfold stringi_string_types. cbn [zlookup].
  repeat match goal with |- context [?a =? c] => destruct (a =? c) eqn:?; [intros _; unfold byte_ok; lia|] end.
  discriminate.
Qed.

Lemma rt_TStringI : RT TStringI.
Proof.
  intros _ v rest Hd _. cbn [in_dom] in Hd. unfold stringi_item_dom in Hd.
  destruct v as [| | | | | | |items| |]; try discriminate Hd.
  destruct items as [|v1 items]; [discriminate Hd|]. destruct v1 as [| | | |s| | | | |]; try discriminate Hd.
  destruct items as [|v2 items]; [discriminate Hd|]. destruct v2 as [| | | | | | | | |n]; try discriminate Hd.
  destruct items as [|v3 items]; [discriminate Hd|]. destruct v3 as [| | | |lang| | | | |]; try discriminate Hd.
  destruct items as [|v4 items]; [discriminate Hd|]. destruct v4 as [| |cs| | | | | | |]; try discriminate Hd.
  destruct items as [|? ?]; [|discriminate Hd].
  apply andb_prop in Hd as [Hd Hcs]. apply andb_prop in Hd as [Hd Hasc]. apply andb_prop in Hd as [Hd Hlat].
  apply andb_prop in Hd as [Hd Hl3].
  destruct (find_row type_rows n) as [r|] eqn:Er; [|discriminate Hd].
  destruct (zlookup stringi_string_types (row_code r)) as [n'|] eqn:Ez; [|discriminate Hd].
  apply andb_prop in Hd as [Hn Hsd]. apply text_eqb_eq in Hn. subst n'.
  pose proof (stringi_code_ok _ _ Ez) as Hcode.
  destruct lang as [|l1 [|l2 [|l3 [|? ?]]]]; try discriminate Hl3.
  set (lang := [l1; l2; l3]) in *.
  set (tail := le_enc 2 cs ++ rest).
  destruct (named_str_rt n s rest Hsd) as (st & Hes & Hds).
  exists ([1] ++ (lang ++ [row_code r] ++ le_enc 2 cs ++ st) ++ []). split.
  - cbn [encode]. unfold stringi_encode, stringi_encode_args, zlen. cbn [length Z.of_nat].
    rewrite (named_int_encode_ok _ _ _ _ int_row_USINT) by reflexivity. cbn [bind stringi_encode_items].
    unfold stringi_encode_item. cbn [py_iter bind]. rewrite Er, Hcode, Hasc. cbn [bind].
    rewrite (named_int_encode_ok _ _ _ _ int_row_UINT) by exact Hcs. cbn [bind]. rewrite Hes. reflexivity.
  - intros fuel _. cbn [decode_fuel norm stringi_item_norm]. unfold stringi_decode.
    rewrite app_nil_r. rewrite <- app_assoc.
    change [1] with (le_enc 1 1).
    rewrite (named_int_decode_ok _ _ _ _ _ int_row_USINT) by (try lia; reflexivity). cbn [dbind as_int].
    change (Z.to_nat 1) with 1%nat. cbn [stringi_decode_items].
    rewrite <- !app_assoc. change 3 with (zlen lang) at 1. rewrite stream_take_app.
    unfold named_decode at 1. rewrite ty_of_name_SHORT_STRING.
    assert (Hlang : str_decode false 1 Latin1 (3 :: lang) = DOk (VStr lang) []).
    { destruct (rt_TStr false 1 Latin1 eq_refl (VStr lang) []) as (b & He & Hdec).
      - cbn [in_dom]. unfold str_dom. rewrite (latin1_inverts _ Hlat). unfold code_units.
        rewrite text_encode_single by exact Hlat. reflexivity.
      - discriminate.
      - cbn [encode] in He. unfold str_encode, pub_encode in He.
        rewrite text_encode_single in He by exact Hlat. cbn [bind] in He.
        rewrite int_encode_ok in He by reflexivity. cbn [bind wrap_all] in He. injection He as <-.
        specialize (Hdec 10%nat ltac:(cbn; lia)). rewrite app_nil_r in Hdec. exact Hdec. }
    rewrite Hlang. cbn [app]. rewrite Ez.
    rewrite (named_int_decode_ok _ _ _ _ _ int_row_UINT) by (try lia; exact Hcs). cbn [dbind].
    rewrite Hds. cbn [dbind rev app dwrap]. reflexivity.
Qed.
Lemma em_TStringI : EM TStringI.
Proof.
  intros _ _ fuel. cbn [decode_fuel]. unfold stringi_decode, named_int_decode. rewrite int_row_USINT.
  now rewrite int_decode_nil by lia.
Qed.

